import SafeC.Props.C01
import SafeC.Proofs.ExtStp
/-!
# C03 (extension) — string-producing calls never leave dest unterminated: the wide twins and the stp pair

Setting as in `Props/C03.lean`: every cell mapped and readable with ARBITRARY contents (no hypothesis on
`st.data`: dest may be garbage without a NUL, the source unterminated, the operands overlapping), dest's
`dmax` cells writable, dest usable (non-null, `0 < dmax ≤` the limit, and `dmax` elements inside the
object when its size is known — `destbos` is in BYTES for the wide functions).  Both slack configurations
(`cfg` arbitrary).  Conclusion: the call returns and a NUL exists in `dest[0..dmax)`.

* `wcsncpy_s`, `wcscat_s`, `wcsncat_s`: FULL, object and source sizes unknown or known.  (Unlike
  `wcscpy_s` there is no `dest == src` shortcut in them.)
* `stpncpy_s`: FULL for a source size that is unknown or contains `slen` (the `slen > srcbos` exit is the
  recorded finding `slen-exceeds-srcbos`).
* `stpcpy_s`: FULL when the source's object size is unknown.  With a KNOWN source size the statement is
  FALSE of the code: the `src unterminated` exit (`slen >= srcbos`) reports ESUNTERM and returns NULL
  leaving the characters copied so far, unterminated, in dest — `stpcpy_s_C03_partial` excludes exactly
  that return code and `stpcpy_s_C03_witness` exhibits the excluded point.
-/
namespace SafeC.Props.C03Ext
open SafeC Gen SafeC.Props.C01

/-- wcsncpy_s, every src/slen/placement/content, object sizes known or unknown, both builds: a NUL within dmax -/
theorem wcsncpy_s_C03 (cfg : Cfg) (dest dmax src slen : Nat) (destbos srcbos : Bos) (st : St) (hs : Setting st)
    (hrw : RW st dest dmax) (hd : dest ≠ 0) (hpos : 0 < dmax) (hle : dmax ≤ RSIZE_MAX_WSTR)
    (hb : ∀ b, destbos = some b → dmax * SIZEOF_WCHAR_T ≤ b) :
    ∃ code st', exec (wcsncpy_s cfg dest dmax src slen destbos srcbos) st = .ok (code, st') ∧
      ∃ i, i < dmax ∧ st'.data (dest + i) = 0 := by
  obtain ⟨code, st', he, _, hq⟩ := wcsncpy_s_ext cfg dest dmax src slen destbos srcbos st hs.all (fun _ => hrw)
  exact ⟨code, st', he, (hq ⟨hd, hpos, hle, hb⟩).1.term⟩

/-- wcscat_s, every src/placement/content (dest terminated or not), object size known or unknown: a NUL within dmax -/
theorem wcscat_s_C03 (cfg : Cfg) (dest dmax src : Nat) (destbos : Bos) (st : St) (hs : Setting st)
    (hrw : RW st dest dmax) (hd : dest ≠ 0) (hpos : 0 < dmax) (hle : dmax ≤ RSIZE_MAX_WSTR)
    (hb : ∀ b, destbos = some b → dmax * SIZEOF_WCHAR_T ≤ b) :
    ∃ code st', exec (wcscat_s cfg dest dmax src destbos) st = .ok (code, st') ∧
      ∃ i, i < dmax ∧ st'.data (dest + i) = 0 := by
  obtain ⟨code, st', he, _, hq⟩ := wcscat_s_ext cfg dest dmax src destbos st hs.all (fun _ => hrw)
  exact ⟨code, st', he, (hq ⟨hd, hpos, hle, hb⟩).1.term⟩

/-- wcsncat_s, every src/slen (incl. slen = 0)/placement/content, object sizes known or unknown: a NUL within dmax -/
theorem wcsncat_s_C03 (cfg : Cfg) (dest dmax src slen : Nat) (destbos srcbos : Bos) (st : St) (hs : Setting st)
    (hrw : RW st dest dmax) (hd : dest ≠ 0) (hpos : 0 < dmax) (hle : dmax ≤ RSIZE_MAX_WSTR)
    (hb : ∀ b, destbos = some b → dmax * SIZEOF_WCHAR_T ≤ b) :
    ∃ code st', exec (wcsncat_s cfg dest dmax src slen destbos srcbos) st = .ok (code, st') ∧
      ∃ i, i < dmax ∧ st'.data (dest + i) = 0 := by
  obtain ⟨code, st', he, _, hq⟩ := wcsncat_s_ext cfg dest dmax src slen destbos srcbos st hs.all (fun _ => hrw)
  exact ⟨code, st', he, (hq ⟨hd, hpos, hle, hb⟩).1.term⟩

/-- stpcpy_s with the source's object size unknown (dest's known or not), every src incl. `src == dest`,
every placement and content: a NUL within dmax -/
theorem stpcpy_s_C03 (cfg : Cfg) (dest dmax src : Nat) (destbos : Bos) (st : St) (hs : Setting st)
    (hrw : RW st dest dmax) (hd : dest ≠ 0) (hpos : 0 < dmax) (hle : dmax ≤ RSIZE_MAX_STR)
    (hb : ∀ b, destbos = some b → dmax ≤ b) :
    ∃ r st', exec (stpcpy_s cfg dest dmax src destbos none) st = .ok (r, st') ∧
      ∃ i, i < dmax ∧ st'.data (dest + i) = 0 := by
  obtain ⟨r, st', he, _, hq⟩ := stpcpy_s_ext cfg dest dmax src destbos none st hs.all (fun _ => hrw) hb
  obtain ⟨h1, h2⟩ := hq ⟨hd, hpos, hle⟩
  exact ⟨r, st', he, (h1.post (fun h => h2 h rfl)).term⟩

/- FULL statement for a known source size (FALSE of the code, see `stpcpy_s_C03_witness`):
   ∃ r st', exec (stpcpy_s cfg dest dmax src destbos srcbos) st = .ok (r, st') ∧ ∃ i, i < dmax ∧ st'.data (dest+i) = 0 -/
/-- stpcpy_s, any knowledge of the source's object size: a NUL within dmax unless the call took the
`src unterminated` exit (`*errp = ESUNTERM`), which is only possible when srcbos is known -/
theorem stpcpy_s_C03_partial (cfg : Cfg) (dest dmax src : Nat) (destbos srcbos : Bos) (st : St) (hs : Setting st)
    (hrw : RW st dest dmax) (hd : dest ≠ 0) (hpos : 0 < dmax) (hle : dmax ≤ RSIZE_MAX_STR)
    (hb : ∀ b, destbos = some b → dmax ≤ b) :
    ∃ r st', exec (stpcpy_s cfg dest dmax src destbos srcbos) st = .ok (r, st') ∧
      (r.2 = ESUNTERM → srcbos ≠ none) ∧
      (r.2 ≠ ESUNTERM → ∃ i, i < dmax ∧ st'.data (dest + i) = 0) := by
  obtain ⟨r, st', he, _, hq⟩ := stpcpy_s_ext cfg dest dmax src destbos srcbos st hs.all (fun _ => hrw) hb
  obtain ⟨h1, h2⟩ := hq ⟨hd, hpos, hle⟩
  exact ⟨r, st', he, h2, fun h => (h1.post h).term⟩

/-- dest = 3 cells of non-zero garbage at 100, src = "ab" at 200 -/
def wStp : St :=
  { data := fun a => if a = 200 then 97 else if a = 201 then 98 else if 100 ≤ a ∧ a < 103 then 1 else 0
    mapped := fun _ => true, rd := fun _ => true
    wr := fun a => decide (100 ≤ a ∧ a < 103) }

/-- the excluded point: `stpcpy_s(d, 3, "ab")` compiled with `BOS(src) = 1` copies 'a', reports
ESUNTERM, returns NULL — and dest[0..3) = 'a', garbage, garbage holds no NUL -/
theorem stpcpy_s_C03_witness :
    ∃ st', exec (stpcpy_s {} 100 3 200 none (some 1)) wStp = .ok ((0, ESUNTERM), st') ∧
      ¬ ∃ i, i < 3 ∧ st'.data (100 + i) = 0 := by
  refine ⟨_, rfl, ?_⟩
  intro ⟨i, hi, h⟩
  have : i = 0 ∨ i = 1 ∨ i = 2 := by omega
  rcases this with h' | h' | h' <;> subst h' <;> simp [wStp, St.upd, St.noteWr, St.noteRd] at h

/-- stpncpy_s, source size unknown or containing slen, every src/slen/placement/content: a NUL within dmax -/
theorem stpncpy_s_C03 (cfg : Cfg) (dest dmax src slen : Nat) (destbos srcbos : Bos) (st : St) (hs : Setting st)
    (hrw : RW st dest dmax) (hd : dest ≠ 0) (hpos : 0 < dmax) (hle : dmax ≤ RSIZE_MAX_STR)
    (hb : ∀ b, destbos = some b → dmax ≤ b) (hsb : ∀ sb, srcbos = some sb → slen ≤ sb) :
    ∃ r st', exec (stpncpy_s cfg dest dmax src slen destbos srcbos) st = .ok (r, st') ∧
      ∃ i, i < dmax ∧ st'.data (dest + i) = 0 := by
  obtain ⟨r, st', he, _, hq⟩ := stpncpy_s_ext cfg dest dmax src slen destbos srcbos st hs.all (fun _ => hrw) hb hsb
  obtain ⟨h1, h2⟩ := hq ⟨hd, hpos, hle⟩
  exact ⟨r, st', he, (h1.post h2).term⟩

/-- non-vacuity: dest = 5 writable cells at 100 inside a known object of 20 bytes (wide) / 5 bytes (narrow) -/
example : Setting exSt ∧ RW exSt 100 5 ∧ (100 : Nat) ≠ 0 ∧ 0 < 5 ∧ 5 ≤ RSIZE_MAX_WSTR ∧ 5 ≤ RSIZE_MAX_STR ∧
    (∀ b, (some 20 : Bos) = some b → 5 * SIZEOF_WCHAR_T ≤ b) ∧ (∀ b, (some 5 : Bos) = some b → 5 ≤ b) := by
  refine ⟨⟨fun _ => ⟨rfl, rfl⟩, rfl⟩, fun i hi => ⟨rfl, ?_, rfl⟩, by decide, by decide, by decide, by decide, ?_, ?_⟩
  · simp [exSt]; omega
  · intro b h; injection h with h; subst h; decide
  · intro b h; injection h with h; subst h; decide

end SafeC.Props.C03Ext

import SafeC.Props.C01
import SafeC.Proofs.ExtStp
import SafeC.Proofs.ExtFld
import SafeC.Proofs.ExtInplace
import SafeC.Proofs.ExtOs
import SafeC.Props.C06Os
/-! # C03 (extension): generic string families — string-producing calls never leave dest unterminated

One section per family (the sections were proved separately; each has its own module comment):
* `PartCopy` — wide twins and stp pair
* `PartFld` — field copies
* `PartInplace` — in-place producers
* `PartOs` — getenv_s / strerror_s
-/
namespace SafeC.Props.C03Ext

section PartCopy
open SafeC Gen SafeC.Props.C01
/-!
# C03 (extension) — string-producing calls never leave dest unterminated: the wide twins and the stp pair

Setting as in `Props/C03.lean`: every cell mapped and readable with ARBITRARY contents (no hypothesis on
`st.data`: dest may be garbage without a NUL, the source unterminated, the operands overlapping), dest's
`dmax` cells writable, dest usable (non-null, `0 < dmax ≤` the limit, and `dmax` elements inside the
object when its size is known — `destbos` is in BYTES for the wide functions).  Both slack configurations
(`cfg` arbitrary).  Conclusion: the call returns and a NUL exists in `dest[0..dmax)`.

* `wcsncpy_s`, `wcscat_s`, `wcsncat_s`: FULL, object and source sizes unknown or known.  (Unlike
  `wcscpy_s` there is no `dest == src` shortcut in them.)
* `stpncpy_s`: FULL for a source size that is unknown or contains `slen` (the `slen > srcbos` exit is the
  recorded finding `slen-exceeds-srcbos`).
* `stpcpy_s`: FULL when the source's object size is unknown.  With a KNOWN source size the statement is
  FALSE of the code: the `src unterminated` exit (`slen >= srcbos`) reports ESUNTERM and returns NULL
  leaving the characters copied so far, unterminated, in dest — `stpcpy_s_C03_partial` excludes exactly
  that return code and `stpcpy_s_C03_witness` exhibits the excluded point.
-/

/-- wcsncpy_s, every src/slen/placement/content, object sizes known or unknown, both builds: a NUL within dmax -/
theorem wcsncpy_s_C03 (cfg : Cfg) (dest dmax src slen : Nat) (destbos srcbos : Bos) (st : St) (hs : Setting st)
    (hrw : RW st dest dmax) (hd : dest ≠ 0) (hpos : 0 < dmax) (hle : dmax ≤ RSIZE_MAX_WSTR)
    (hb : ∀ b, destbos = some b → dmax * SIZEOF_WCHAR_T ≤ b) :
    ∃ code st', exec (wcsncpy_s cfg dest dmax src slen destbos srcbos) st = .ok (code, st') ∧
      ∃ i, i < dmax ∧ st'.data (dest + i) = 0 := by
  obtain ⟨code, st', he, _, hq⟩ := wcsncpy_s_ext cfg dest dmax src slen destbos srcbos st hs.all (fun _ => hrw)
  exact ⟨code, st', he, (hq ⟨hd, hpos, hle, hb⟩).1.term⟩

/-- wcscat_s, every src/placement/content (dest terminated or not), object size known or unknown: a NUL within dmax -/
theorem wcscat_s_C03 (cfg : Cfg) (dest dmax src : Nat) (destbos : Bos) (st : St) (hs : Setting st)
    (hrw : RW st dest dmax) (hd : dest ≠ 0) (hpos : 0 < dmax) (hle : dmax ≤ RSIZE_MAX_WSTR)
    (hb : ∀ b, destbos = some b → dmax * SIZEOF_WCHAR_T ≤ b) :
    ∃ code st', exec (wcscat_s cfg dest dmax src destbos) st = .ok (code, st') ∧
      ∃ i, i < dmax ∧ st'.data (dest + i) = 0 := by
  obtain ⟨code, st', he, _, hq⟩ := wcscat_s_ext cfg dest dmax src destbos st hs.all (fun _ => hrw)
  exact ⟨code, st', he, (hq ⟨hd, hpos, hle, hb⟩).1.term⟩

/-- wcsncat_s, every src/slen (incl. slen = 0)/placement/content, object sizes known or unknown: a NUL within dmax -/
theorem wcsncat_s_C03 (cfg : Cfg) (dest dmax src slen : Nat) (destbos srcbos : Bos) (st : St) (hs : Setting st)
    (hrw : RW st dest dmax) (hd : dest ≠ 0) (hpos : 0 < dmax) (hle : dmax ≤ RSIZE_MAX_WSTR)
    (hb : ∀ b, destbos = some b → dmax * SIZEOF_WCHAR_T ≤ b) :
    ∃ code st', exec (wcsncat_s cfg dest dmax src slen destbos srcbos) st = .ok (code, st') ∧
      ∃ i, i < dmax ∧ st'.data (dest + i) = 0 := by
  obtain ⟨code, st', he, _, hq⟩ := wcsncat_s_ext cfg dest dmax src slen destbos srcbos st hs.all (fun _ => hrw)
  exact ⟨code, st', he, (hq ⟨hd, hpos, hle, hb⟩).1.term⟩

/-- stpcpy_s with the source's object size unknown (dest's known or not), every src incl. `src == dest`,
every placement and content: a NUL within dmax -/
theorem stpcpy_s_C03 (cfg : Cfg) (dest dmax src : Nat) (destbos : Bos) (st : St) (hs : Setting st)
    (hrw : RW st dest dmax) (hd : dest ≠ 0) (hpos : 0 < dmax) (hle : dmax ≤ RSIZE_MAX_STR)
    (hb : ∀ b, destbos = some b → dmax ≤ b) :
    ∃ r st', exec (stpcpy_s cfg dest dmax src destbos none) st = .ok (r, st') ∧
      ∃ i, i < dmax ∧ st'.data (dest + i) = 0 := by
  obtain ⟨r, st', he, _, hq⟩ := stpcpy_s_ext cfg dest dmax src destbos none st hs.all (fun _ => hrw) hb
  obtain ⟨h1, h2⟩ := hq ⟨hd, hpos, hle⟩
  exact ⟨r, st', he, (h1.post (Or.inl (fun h => h2 h rfl))).term⟩

/- FULL statement for a known source size (FALSE of the code, see `stpcpy_s_C03_witness`):
   ∃ r st', exec (stpcpy_s cfg dest dmax src destbos srcbos) st = .ok (r, st') ∧ ∃ i, i < dmax ∧ st'.data (dest+i) = 0 -/
/-- stpcpy_s, any knowledge of the source's object size: a NUL within dmax unless the call took the
`src unterminated` exit (`*errp = ESUNTERM`), which is only possible when srcbos is known -/
theorem stpcpy_s_C03_partial (cfg : Cfg) (dest dmax src : Nat) (destbos srcbos : Bos) (st : St) (hs : Setting st)
    (hrw : RW st dest dmax) (hd : dest ≠ 0) (hpos : 0 < dmax) (hle : dmax ≤ RSIZE_MAX_STR)
    (hb : ∀ b, destbos = some b → dmax ≤ b) :
    ∃ r st', exec (stpcpy_s cfg dest dmax src destbos srcbos) st = .ok (r, st') ∧
      (r.2 = ESUNTERM → srcbos ≠ none) ∧
      (r.2 ≠ ESUNTERM → ∃ i, i < dmax ∧ st'.data (dest + i) = 0) := by
  obtain ⟨r, st', he, _, hq⟩ := stpcpy_s_ext cfg dest dmax src destbos srcbos st hs.all (fun _ => hrw) hb
  obtain ⟨h1, h2⟩ := hq ⟨hd, hpos, hle⟩
  exact ⟨r, st', he, h2, fun h => (h1.post (Or.inl h)).term⟩

/-- The FULL statement, true of the current tree (e5bca6e: the `src unterminated` exit clears dest like the other exits reached
after copying began): stpcpy_s with ANY knowledge of the two object sizes leaves a NUL within dmax -/
theorem stpcpy_s_C03_fixed (cfg : Cfg) (hfx : cfg.fixStpUnterm = true) (dest dmax src : Nat) (destbos srcbos : Bos) (st : St)
    (hs : Setting st) (hrw : RW st dest dmax) (hd : dest ≠ 0) (hpos : 0 < dmax) (hle : dmax ≤ RSIZE_MAX_STR)
    (hb : ∀ b, destbos = some b → dmax ≤ b) :
    ∃ r st', exec (stpcpy_s cfg dest dmax src destbos srcbos) st = .ok (r, st') ∧
      ∃ i, i < dmax ∧ st'.data (dest + i) = 0 := by
  obtain ⟨r, st', he, _, hq⟩ := stpcpy_s_ext cfg dest dmax src destbos srcbos st hs.all (fun _ => hrw) hb
  obtain ⟨h1, _⟩ := hq ⟨hd, hpos, hle⟩
  exact ⟨r, st', he, (h1.post (Or.inr hfx)).term⟩

/-- the same for stpncpy_s: any `slen`, any knowledge of the object sizes -/
theorem stpncpy_s_C03_fixed (cfg : Cfg) (hfx : cfg.fixStpUnterm = true) (dest dmax src slen : Nat) (destbos srcbos : Bos) (st : St)
    (hs : Setting st) (hrw : RW st dest dmax) (hd : dest ≠ 0) (hpos : 0 < dmax) (hle : dmax ≤ RSIZE_MAX_STR)
    (hb : ∀ b, destbos = some b → dmax ≤ b) (hsb : ∀ sb, srcbos = some sb → slen ≤ sb) :
    ∃ r st', exec (stpncpy_s cfg dest dmax src slen destbos srcbos) st = .ok (r, st') ∧
      ∃ i, i < dmax ∧ st'.data (dest + i) = 0 := by
  obtain ⟨r, st', he, _, hq⟩ := stpncpy_s_ext cfg dest dmax src slen destbos srcbos st hs.all (fun _ => hrw) hb hsb
  obtain ⟨h1, _⟩ := hq ⟨hd, hpos, hle⟩
  exact ⟨r, st', he, (h1.post (Or.inr hfx)).term⟩

/-- dest = 3 cells of non-zero garbage at 100, src = "ab" at 200 -/
def wStp : St :=
  { data := fun a => if a = 200 then 97 else if a = 201 then 98 else if 100 ≤ a ∧ a < 103 then 1 else 0
    mapped := fun _ => true, rd := fun _ => true
    wr := fun a => decide (100 ≤ a ∧ a < 103) }

/-- the excluded point BEFORE e5bca6e (switch off): `stpcpy_s(d, 3, "ab")` compiled with `BOS(src) = 1` copies 'a', reports
ESUNTERM, returns NULL — and dest[0..3) = 'a', garbage, garbage holds no NUL -/
theorem stpcpy_s_C03_witness :
    ∃ st', exec (stpcpy_s { fixStpUnterm := false } 100 3 200 none (some 1)) wStp = .ok ((0, ESUNTERM), st') ∧
      ¬ ∃ i, i < 3 ∧ st'.data (100 + i) = 0 := by
  refine ⟨_, rfl, ?_⟩
  intro ⟨i, hi, h⟩
  have : i = 0 ∨ i = 1 ∨ i = 2 := by omega
  rcases this with h' | h' | h' <;> subst h' <;> simp [wStp, St.upd, St.noteWr, St.noteRd] at h

/-- stpncpy_s, source size unknown or containing slen, every src/slen/placement/content: a NUL within dmax -/
theorem stpncpy_s_C03 (cfg : Cfg) (dest dmax src slen : Nat) (destbos srcbos : Bos) (st : St) (hs : Setting st)
    (hrw : RW st dest dmax) (hd : dest ≠ 0) (hpos : 0 < dmax) (hle : dmax ≤ RSIZE_MAX_STR)
    (hb : ∀ b, destbos = some b → dmax ≤ b) (hsb : ∀ sb, srcbos = some sb → slen ≤ sb) :
    ∃ r st', exec (stpncpy_s cfg dest dmax src slen destbos srcbos) st = .ok (r, st') ∧
      ∃ i, i < dmax ∧ st'.data (dest + i) = 0 := by
  obtain ⟨r, st', he, _, hq⟩ := stpncpy_s_ext cfg dest dmax src slen destbos srcbos st hs.all (fun _ => hrw) hb hsb
  obtain ⟨h1, h2⟩ := hq ⟨hd, hpos, hle⟩
  exact ⟨r, st', he, (h1.post (Or.inl h2)).term⟩

/-- non-vacuity: dest = 5 writable cells at 100 inside a known object of 20 bytes (wide) / 5 bytes (narrow) -/
example : Setting exSt ∧ RW exSt 100 5 ∧ (100 : Nat) ≠ 0 ∧ 0 < 5 ∧ 5 ≤ RSIZE_MAX_WSTR ∧ 5 ≤ RSIZE_MAX_STR ∧
    (∀ b, (some 20 : Bos) = some b → 5 * SIZEOF_WCHAR_T ≤ b) ∧ (∀ b, (some 5 : Bos) = some b → 5 ≤ b) := by
  refine ⟨⟨fun _ => ⟨rfl, rfl⟩, rfl⟩, fun i hi => ⟨rfl, ?_, rfl⟩, by decide, by decide, by decide, by decide, ?_, ?_⟩
  · simp [exSt]; omega
  · intro b h; injection h with h; subst h; decide
  · intro b h; injection h with h; subst h; decide

end PartCopy

section PartFld
open SafeC Gen
/-!
# C03 for the field copies: is there a NUL in `dest[0..dmax)` after the call?

Setting: every cell mapped and readable with ARBITRARY contents, the `dmax` cells of dest writable,
`dest ≠ 0`, `0 < dmax ≤ RSIZE_MAX_STR`, `slen ≠ 0` (`slen = 0` is the documented no-op), object size unknown
or known and at least `dmax`; ANY `src` (null, overlapping, unterminated), both slack configurations.

* `strcpyfldout_s` (field → string): FULL.  Every exit is a `handle_error` that zeroes `dest[0]`, or the
  trailing fill of `m ≥ 1` cells (`while (dmax > 1 && slen)` keeps one cell).
* `strcpyfld_s`, `strcpyfldin_s` (… → FIELD): the FULL statement
  `∃ i < dmax, st'.data (dest+i) = 0` after every return is FALSE of the code: with `slen = dmax` all `dmax`
  cells receive source characters and nothing is left for the fill (`_witness`).  A field is not a string, so
  this is the documented behaviour rather than a defect; `_partial` proves the statement under exactly
  `slen < dmax ∨ code ≠ EOK`.
-/

/-- strcpyfldout_s, C03 at full strength: any src (null, overlapping, unterminated), any memory contents,
both slack configurations, slen ≠ 0, object size unknown or ≥ dmax.  The call returns, records no stray access,
changes nothing outside dest[0..dmax), and whatever the exit (EOK, ESNULLP, ESOVRLP, ESNOSPC, ESLEMAX) a NUL
exists in dest[0..dmax). -/
theorem strcpyfldout_s_C03 (cfg : Cfg) (dest dmax src slen : Nat) (destbos : Bos) (st : St)
    (hall : ∀ a, st.mapped a = true ∧ st.rd a = true) (hrw : RW st dest dmax)
    (hd : dest ≠ 0) (hpos : 0 < dmax) (hle : dmax ≤ RSIZE_MAX_STR) (hbos : ∀ b, destbos = some b → dmax ≤ b)
    (hsl : slen ≠ 0) :
    ∃ code st', exec (strcpyfldout_s cfg dest dmax src slen destbos) st = .ok (code, st') ∧
      st'.strays = st.strays ∧
      (∀ a, ¬ (dest ≤ a ∧ a < dest + dmax) → st'.data a = st.data a) ∧
      ∃ i, i < dmax ∧ st'.data (dest + i) = 0 := by
  unfold strcpyfldout_s
  rw [fldG_entry _ cfg dest dmax src slen destbos hsl hd hpos hle hbos]
  obtain ⟨code, st', he, hp⟩ := fldBody_safe .fldout cfg dest dmax src slen st hall hrw hd hpos hle
  exact ⟨code, st', he, hp.safe.strays, hp.safe.frame, hp.term (Or.inl rfl)⟩

/- FALSE of the code (see `strcpyfld_s_C03_witness`):
   strcpyfld_s_C03 : … → ∃ code st', exec (strcpyfld_s cfg dest dmax src slen destbos) st = .ok (code, st') ∧
      ∃ i, i < dmax ∧ st'.data (dest + i) = 0 -/

/-- strcpyfld_s, C03 under the hypothesis the proof forces: any src, any contents, both slack configurations;
a NUL exists in dest[0..dmax) whenever the call fails (dest[0] = 0) or slen < dmax (the trailing fill has at
least one cell).  With slen = dmax and EOK the field is full: see the witness. -/
theorem strcpyfld_s_C03_partial (cfg : Cfg) (dest dmax src slen : Nat) (destbos : Bos) (st : St)
    (hall : ∀ a, st.mapped a = true ∧ st.rd a = true) (hrw : RW st dest dmax)
    (hd : dest ≠ 0) (hpos : 0 < dmax) (hle : dmax ≤ RSIZE_MAX_STR) (hbos : ∀ b, destbos = some b → dmax ≤ b)
    (hsl : slen ≠ 0) :
    ∃ code st', exec (strcpyfld_s cfg dest dmax src slen destbos) st = .ok (code, st') ∧
      st'.strays = st.strays ∧
      (∀ a, ¬ (dest ≤ a ∧ a < dest + dmax) → st'.data a = st.data a) ∧
      (slen < dmax ∨ code ≠ EOK → ∃ i, i < dmax ∧ st'.data (dest + i) = 0) := by
  unfold strcpyfld_s
  rw [fldG_entry _ cfg dest dmax src slen destbos hsl hd hpos hle hbos]
  obtain ⟨code, st', he, hp⟩ := fldBody_safe .fld cfg dest dmax src slen st hall hrw hd hpos hle
  exact ⟨code, st', he, hp.safe.strays, hp.safe.frame, fun h => hp.term (Or.inr h)⟩

/-- strcpyfldin_s, C03 under the hypothesis the proof forces: any src, any contents, both slack
configurations; a NUL exists in dest[0..dmax) whenever the call fails or slen < dmax.  With slen = dmax, EOK and
a source string of dmax or more characters the field is full: see the witness. -/
theorem strcpyfldin_s_C03_partial (cfg : Cfg) (dest dmax src slen : Nat) (destbos : Bos) (st : St)
    (hall : ∀ a, st.mapped a = true ∧ st.rd a = true) (hrw : RW st dest dmax)
    (hd : dest ≠ 0) (hpos : 0 < dmax) (hle : dmax ≤ RSIZE_MAX_STR) (hbos : ∀ b, destbos = some b → dmax ≤ b)
    (hsl : slen ≠ 0) :
    ∃ code st', exec (strcpyfldin_s cfg dest dmax src slen destbos) st = .ok (code, st') ∧
      st'.strays = st.strays ∧
      (∀ a, ¬ (dest ≤ a ∧ a < dest + dmax) → st'.data a = st.data a) ∧
      (slen < dmax ∨ code ≠ EOK → ∃ i, i < dmax ∧ st'.data (dest + i) = 0) := by
  unfold strcpyfldin_s
  rw [fldG_entry _ cfg dest dmax src slen destbos hsl hd hpos hle hbos]
  obtain ⟨code, st', he, hp⟩ := fldBody_safe .fldin cfg dest dmax src slen st hall hrw hd hpos hle
  exact ⟨code, st', he, hp.safe.strays, hp.safe.frame, fun h => hp.term (Or.inr h)⟩

/-! ## the excluded point, and non-vacuity -/

/-- dest = 100 (one writable cell), src = 200 holding 'a' -/
def fldWSt : St :=
  { data := fun a => if a = 200 then 97 else 0, mapped := fun _ => true, rd := fun _ => true
    wr := fun a => decide (a = 100) }

/-- the excluded point of strcpyfld_s_C03: strcpyfld_s(d, 1, "a", 1) returns EOK and dest[0..1) = "a" holds
no NUL (slen = dmax fills the whole field; a field is not a string). -/
theorem strcpyfld_s_C03_witness :
    ∃ st', exec (strcpyfld_s {} 100 1 200 1 none) fldWSt = .ok (EOK, st') ∧
      ¬ ∃ i, i < 1 ∧ st'.data (100 + i) = 0 := by
  refine ⟨fldWSt.upd 100 97, ?_, ?_⟩
  · simp [strcpyfld_s, fldG, chkDmaxClear, chkDmaxClearG, chkSlenNospcClear, RSIZE_MAX_STR, fldLoop,
      nullSlack, zeroLoop, exec_bind, fldWSt, EOK, St.upd]
  · intro ⟨i, hi, h⟩
    have : i = 0 := by omega
    subst this
    simp [St.upd] at h

/-- the excluded point of strcpyfldin_s_C03: strcpyfldin_s(d, 1, "a…", 1) returns EOK and dest[0..1) = "a"
holds no NUL. -/
theorem strcpyfldin_s_C03_witness :
    ∃ st', exec (strcpyfldin_s {} 100 1 200 1 none) fldWSt = .ok (EOK, st') ∧
      ¬ ∃ i, i < 1 ∧ st'.data (100 + i) = 0 := by
  refine ⟨fldWSt.upd 100 97, ?_, ?_⟩
  · simp [strcpyfldin_s, fldG, chkDmax, chkSlenNospcClear, RSIZE_MAX_STR, fldLoop,
      nullSlack, zeroLoop, exec_bind, fldWSt, EOK, St.upd]
  · intro ⟨i, hi, h⟩
    have : i = 0 := by omega
    subst this
    simp [St.upd] at h

/-- the hypotheses are satisfiable: dest = 100 with 5 writable cells in `exSt`, slen = 7, object size 5 -/
example : (∀ a, SafeC.Props.C01.exSt.mapped a = true ∧ SafeC.Props.C01.exSt.rd a = true) ∧
    RW SafeC.Props.C01.exSt 100 5 ∧ (100 : Nat) ≠ 0 ∧ 0 < 5 ∧ 5 ≤ RSIZE_MAX_STR ∧
    (∀ b, (some 5 : Bos) = some b → 5 ≤ b) ∧ (7 : Nat) ≠ 0 := by
  refine ⟨fun _ => ⟨rfl, rfl⟩, fun i hi => ⟨rfl, ?_, rfl⟩, by decide, by decide, by decide,
    (fun b h => by cases h; exact Nat.le_refl _), by decide⟩
  simp [SafeC.Props.C01.exSt]; omega

end PartFld

section PartInplace
open SafeC Gen
/-!
# C03 — string-producing calls never leave dest unterminated: the in-place producers of `src/extstr`

`strnterminate_s`, `strzero_s`, `strljustify_s`, `strremovews_s` (models in `Models/Inplace.lean`).

Setting as in `Props/C03.lean`: every cell mapped and readable with ARBITRARY contents (no hypothesis
on what dest holds unless stated), `dest[0..dmax)` writable, `dest ≠ 0`, `0 < dmax ≤ RSIZE_MAX_STR`,
the object size unknown or known and not below `dmax`.  Conclusion: the call returns and a NUL exists in
`dest[0..dmax)` afterwards — whatever the exit (EOK, ESUNTERM), both `SAFECLIB_STR_NULL_SLACK` settings.

* `strnterminate_s`, `strzero_s`: FULL.
* `strljustify_s`, `strremovews_s`: the FULL statement

      ∃ r st', exec (strljustify_s cfg dest dmax destbos) st = .ok (r, st') ∧
        ∃ i, i < dmax ∧ st'.data (dest + i) = 0          -- no hypothesis on the contents of dest

  is FALSE of the code: the termination scan reads `dest[dmax]` before it looks at its counter and
  accepts a NUL found AT `dest[dmax]` (`justify-accepts-nul-at-dmax` in known_findings.jsonl), the
  call then returns EOK with `dest[0..dmax)` unterminated.  Proved instead under the hypothesis that
  excludes exactly that class — dest holds a NUL within `dmax`, or `dest[dmax]` is not NUL — and the
  `_witness` theorems exhibit the excluded point.
-/

/-- strnterminate_s, FULL: for every prior content of dest (terminated or not), usable dest
(`dest ≠ 0`, `0 < dmax ≤ RSIZE_MAX_STR`, `dmax` within a known object size), the call returns and a
NUL exists in `dest[0..dmax)` afterwards: the scan stops after at most `dmax-1` cells and `*dest = 0`
lands at index ≤ `dmax-1`. -/
theorem strnterminate_s_C03 (cfg : Cfg) (dest dmax : Nat) (destbos : Bos) (st : St)
    (hall : ∀ a, st.mapped a = true ∧ st.rd a = true) (hrw : RW st dest dmax)
    (hd : dest ≠ 0) (hpos : 0 < dmax) (hle : dmax ≤ RSIZE_MAX_STR)
    (hb : ∀ b, destbos = some b → dmax ≤ b) :
    ∃ r st', exec (strnterminate_s cfg dest dmax destbos) st = .ok (r, st') ∧
      ∃ i, i < dmax ∧ st'.data (dest + i) = 0 := by
  obtain ⟨n, he, hn, _, _⟩ := strnterminate_s_ok cfg dest dmax destbos st hall hrw hd hpos hle hb
  exact ⟨n, _, he, n, hn, St.upd_data_same _ _ _⟩

/-- strnterminate_s, exact outcome in the same setting: the returned count `n` is below `dmax`,
`dest[n]` is NUL afterwards, the `n` cells before it are unchanged and non-NUL (`n` is the length of
the resulting string), no other cell changed, `dest[n]` was already NUL unless `n = dmax-1` (truncation),
permissions, events (no handler call) and stray list are as before. -/
theorem strnterminate_s_C03_exact (cfg : Cfg) (dest dmax : Nat) (destbos : Bos) (st : St)
    (hall : ∀ a, st.mapped a = true ∧ st.rd a = true) (hrw : RW st dest dmax)
    (hd : dest ≠ 0) (hpos : 0 < dmax) (hle : dmax ≤ RSIZE_MAX_STR)
    (hb : ∀ b, destbos = some b → dmax ≤ b) :
    ∃ n st', exec (strnterminate_s cfg dest dmax destbos) st = .ok (n, st') ∧
      n < dmax ∧ st'.data (dest + n) = 0 ∧
      (∀ j, j < n → st'.data (dest + j) = st.data (dest + j) ∧ st.data (dest + j) ≠ 0) ∧
      (∀ a, a ≠ dest + n → st'.data a = st.data a) ∧
      (n + 1 < dmax → st.data (dest + n) = 0) ∧
      SameMeta st' st := by
  obtain ⟨n, he, hn, hnz, hz⟩ := strnterminate_s_ok cfg dest dmax destbos st hall hrw hd hpos hle hb
  refine ⟨n, _, he, hn, St.upd_data_same _ _ _, fun j hj => ⟨?_, hnz j hj⟩, fun a ha => ?_, hz,
    SameMeta.upd _ _ _⟩
  · exact St.upd_data_ne _ _ _ _ (by omega)
  · exact St.upd_data_ne _ _ _ _ ha

/-- strzero_s, FULL: for every prior content of dest (terminated or not), usable dest, both slack
settings, the call returns EOK and `dest[0]` is NUL afterwards (the loop stores 0 there unless it
already is), so a NUL exists in `dest[0..dmax)`. -/
theorem strzero_s_C03 (cfg : Cfg) (dest dmax : Nat) (destbos : Bos) (st : St)
    (hall : ∀ a, st.mapped a = true ∧ st.rd a = true) (hrw : RW st dest dmax)
    (hd : dest ≠ 0) (hpos : 0 < dmax) (hle : dmax ≤ RSIZE_MAX_STR)
    (hb : ∀ b, destbos = some b → dmax ≤ b) :
    ∃ r st', exec (strzero_s cfg dest dmax destbos) st = .ok (r, st') ∧
      ∃ i, i < dmax ∧ st'.data (dest + i) = 0 := by
  obtain ⟨st', he, h0, _⟩ := strzero_s_ok cfg dest dmax destbos st hall hrw hd hpos hle hb
  exact ⟨EOK, st', he, 0, hpos, by simpa using h0⟩

/-- strzero_s, more of the outcome in the same setting: EOK, `dest[0] = 0`, with null-slack every one
of the `dmax` cells is zero (also when dest held no NUL at all), no cell outside `dest[0..dmax)`
changed, permissions/events/strays as before (the read of `dest[dmax]` by the slack block is harmless). -/
theorem strzero_s_C03_exact (cfg : Cfg) (dest dmax : Nat) (destbos : Bos) (st : St)
    (hall : ∀ a, st.mapped a = true ∧ st.rd a = true) (hrw : RW st dest dmax)
    (hd : dest ≠ 0) (hpos : 0 < dmax) (hle : dmax ≤ RSIZE_MAX_STR)
    (hb : ∀ b, destbos = some b → dmax ≤ b) :
    ∃ st', exec (strzero_s cfg dest dmax destbos) st = .ok (EOK, st') ∧ st'.data dest = 0 ∧
      (cfg.slack = true → ∀ i, i < dmax → st'.data (dest + i) = 0) ∧
      (∀ a, ¬ (dest ≤ a ∧ a < dest + dmax) → st'.data a = st.data a) ∧ SameMeta st' st :=
  strzero_s_ok cfg dest dmax destbos st hall hrw hd hpos hle hb

/-- strljustify_s, PARTIAL (the full statement is false, see the witness): usable dest that holds a
NUL within `dmax` or whose cell `dest[dmax]` is not NUL, otherwise arbitrary contents.  The call returns
(EOK or ESUNTERM) and a NUL exists in `dest[0..dmax)` afterwards: the shift loop writes below the NUL
only, the ESUNTERM exit clears all of dest.  Holds wherever the stores land (`_hrw` is not needed). -/
theorem strljustify_s_C03_partial (cfg : Cfg) (dest dmax : Nat) (destbos : Bos) (st : St)
    (hall : ∀ a, st.mapped a = true ∧ st.rd a = true) (_hrw : RW st dest dmax)
    (hd : dest ≠ 0) (hpos : 0 < dmax) (hle : dmax ≤ RSIZE_MAX_STR)
    (hb : ∀ b, destbos = some b → dmax ≤ b)
    (hterm : (∃ i, i < dmax ∧ st.data (dest + i) = 0) ∨ st.data (dest + dmax) ≠ 0) :
    ∃ r st', exec (strljustify_s cfg dest dmax destbos) st = .ok (r, st') ∧
      ∃ i, i < dmax ∧ st'.data (dest + i) = 0 := by
  obtain ⟨r, st', he, _, _, _, h⟩ := strljustify_s_nul cfg dest dmax destbos st hall hd hpos hle hb hterm
  exact ⟨r, st', he, h⟩

/-- strremovews_s, PARTIAL (the full statement is false, see the witness): same hypothesis as for
strljustify_s — a NUL within `dmax`, or `dest[dmax]` not NUL.  The call returns (EOK or ESUNTERM) and
a NUL exists in `dest[0..dmax)` afterwards: the shift writes below the NUL only, the downward
trailing-whitespace strip (no lower bound) stores zeros only, the ESUNTERM exit clears all of dest. -/
theorem strremovews_s_C03_partial (cfg : Cfg) (dest dmax : Nat) (destbos : Bos) (st : St)
    (hall : ∀ a, st.mapped a = true ∧ st.rd a = true) (_hrw : RW st dest dmax)
    (hd : dest ≠ 0) (hpos : 0 < dmax) (hle : dmax ≤ RSIZE_MAX_STR)
    (hb : ∀ b, destbos = some b → dmax ≤ b)
    (hterm : (∃ i, i < dmax ∧ st.data (dest + i) = 0) ∨ st.data (dest + dmax) ≠ 0) :
    ∃ r st', exec (strremovews_s cfg dest dmax destbos) st = .ok (r, st') ∧
      ∃ i, i < dmax ∧ st'.data (dest + i) = 0 := by
  obtain ⟨r, st', he, _, _, _, h⟩ := strremovews_s_nul cfg dest dmax destbos st hall hd hpos hle hb hterm
  exact ⟨r, st', he, h⟩

/-- strljustify_s / strremovews_s, the exits in the same setting and under the same hypothesis: the
return value is EOK or ESUNTERM, and after ESUNTERM every one of the `dmax` cells of dest is zero (the
hand-written clearing loop of the ESUNTERM exit, both slack settings). -/
theorem justify_removews_C03_exits (cfg : Cfg) (dest dmax : Nat) (destbos : Bos) (st : St)
    (hall : ∀ a, st.mapped a = true ∧ st.rd a = true)
    (hd : dest ≠ 0) (hpos : 0 < dmax) (hle : dmax ≤ RSIZE_MAX_STR)
    (hb : ∀ b, destbos = some b → dmax ≤ b)
    (hterm : (∃ i, i < dmax ∧ st.data (dest + i) = 0) ∨ st.data (dest + dmax) ≠ 0) :
    (∃ r st', exec (strljustify_s cfg dest dmax destbos) st = .ok (r, st') ∧ (r = EOK ∨ r = ESUNTERM) ∧
      (r = ESUNTERM → ∀ i, i < dmax → st'.data (dest + i) = 0)) ∧
    (∃ r st', exec (strremovews_s cfg dest dmax destbos) st = .ok (r, st') ∧ (r = EOK ∨ r = ESUNTERM) ∧
      (r = ESUNTERM → ∀ i, i < dmax → st'.data (dest + i) = 0)) := by
  obtain ⟨r, st', he, h1, h2, _⟩ := strljustify_s_nul cfg dest dmax destbos st hall hd hpos hle hb hterm
  obtain ⟨r2, st2, he2, h3, h4, _⟩ := strremovews_s_nul cfg dest dmax destbos st hall hd hpos hle hb hterm
  exact ⟨⟨r, st', he, h1, h2⟩, ⟨r2, st2, he2, h3, h4⟩⟩

/-- the excluded point: `dest = 100`, `dmax = 2`, the two cells hold "ab" and the cell behind them,
`dest[2]`, holds 0 -/
def wJust : St :=
  { data := fun a => if a = 100 then 97 else if a = 101 then 98 else 0
    mapped := fun _ => true, rd := fun _ => true
    wr := fun a => decide (100 ≤ a ∧ a < 102) }

/-- witness that the full C03 statement is false of strljustify_s: on `wJust` (dest = "ab" in 2 cells,
`dest[2] = 0`) `strljustify_s(dest, 2)` returns EOK, the state is untouched and `dest[0..2)` holds no NUL.
All hypotheses of the partial statement but `hterm` hold of `wJust`. -/
theorem strljustify_s_C03_witness :
    ((∀ a, wJust.mapped a = true ∧ wJust.rd a = true) ∧ RW wJust 100 2 ∧ (2 : Nat) ≤ RSIZE_MAX_STR) ∧
    ∃ st', exec (strljustify_s {} 100 2 (some 2)) wJust = .ok (EOK, st') ∧
      ¬ ∃ i, i < 2 ∧ st'.data (100 + i) = 0 := by
  refine ⟨⟨fun _ => ⟨rfl, rfl⟩, fun i hi => ⟨rfl, ?_, rfl⟩, by decide⟩, wJust, ?_, ?_⟩
  · simp [wJust]; omega
  · simp [strljustify_s, chkDmax, termScan, skipWs, exec_bind, exec_load_ok, wJust, EOK]
  · intro ⟨i, hi, h⟩
    have : i = 0 ∨ i = 1 := by omega
    rcases this with rfl | rfl <;> simp [wJust] at h

/-- witness that the full C03 statement is false of strremovews_s: on `wJust` (dest = "ab" in 2 cells,
`dest[2] = 0`) `strremovews_s(dest, 2)` returns EOK, the state is untouched and `dest[0..2)` holds no NUL.
All hypotheses of the partial statement but `hterm` hold of `wJust`. -/
theorem strremovews_s_C03_witness :
    ((∀ a, wJust.mapped a = true ∧ wJust.rd a = true) ∧ RW wJust 100 2 ∧ (2 : Nat) ≤ RSIZE_MAX_STR) ∧
    ∃ st', exec (strremovews_s {} 100 2 (some 2)) wJust = .ok (EOK, st') ∧
      ¬ ∃ i, i < 2 ∧ st'.data (100 + i) = 0 := by
  refine ⟨⟨fun _ => ⟨rfl, rfl⟩, fun i hi => ⟨rfl, ?_, rfl⟩, by decide⟩, wJust, ?_, ?_⟩
  · simp [wJust]; omega
  · have hm : ∀ a, wJust.mapped a = true := fun _ => rfl
    have hr : ∀ a, wJust.rd a = true := fun _ => rfl
    have d0 : wJust.data 100 = 97 := rfl
    have d1 : wJust.data 101 = 98 := rfl
    have d2 : wJust.data 102 = 0 := rfl
    have hst : exec (stripTrailing 102 101) wJust = .ok ((), wJust) :=
      stripTrailing_stop 101 101 wJust (fun _ => ⟨rfl, rfl⟩) (by rw [d1]; decide) (by rw [d1]; decide)
    simp [strremovews_s, chkDmax, termScan, skipWs, exec_bind, exec_load_ok, hm, hr, d0, d1, d2, hst, EOK]
  · intro ⟨i, hi, h⟩
    have : i = 0 ∨ i = 1 := by omega
    rcases this with rfl | rfl <;> simp [wJust] at h

/-- the whole excluded class, strljustify_s: whenever `dest[0..dmax)` (`dmax ≥ 2`) holds no NUL, the
cell behind it `dest[dmax]` is NUL and `dest[0]` is neither blank nor tab, the call returns EOK, leaves
the state untouched and dest has no NUL within `dmax` — the hypothesis of the partial statement cannot
be weakened on this class (generalises the witness). -/
theorem strljustify_s_C03_excluded (cfg : Cfg) (dest dmax : Nat) (destbos : Bos) (st : St)
    (hall : ∀ a, st.mapped a = true ∧ st.rd a = true)
    (hd : dest ≠ 0) (h2 : 2 ≤ dmax) (hle : dmax ≤ RSIZE_MAX_STR)
    (hb : ∀ b, destbos = some b → dmax ≤ b)
    (hnz : ∀ j, j < dmax → st.data (dest + j) ≠ 0) (hz : st.data (dest + dmax) = 0)
    (hfirst : st.data dest ≠ 0x20 ∧ st.data dest ≠ 0x09) :
    exec (strljustify_s cfg dest dmax destbos) st = .ok (EOK, st) ∧
      ¬ ∃ i, i < dmax ∧ st.data (dest + i) = 0 :=
  ⟨strljustify_s_unterminated cfg dest dmax destbos st hall hd h2 hle hb hnz hz hfirst,
   fun ⟨i, hi, h⟩ => hnz i hi h⟩

/-- the whole excluded class, strremovews_s: whenever `dest[0..dmax)` (`dmax ≥ 2`) holds no NUL, the
cell behind it `dest[dmax]` is NUL and neither `dest[0]` nor `dest[dmax-1]` is blank or tab, the call
returns EOK, leaves the state untouched and dest has no NUL within `dmax` (generalises the witness). -/
theorem strremovews_s_C03_excluded (cfg : Cfg) (dest dmax : Nat) (destbos : Bos) (st : St)
    (hall : ∀ a, st.mapped a = true ∧ st.rd a = true)
    (hd : dest ≠ 0) (h2 : 2 ≤ dmax) (hle : dmax ≤ RSIZE_MAX_STR)
    (hb : ∀ b, destbos = some b → dmax ≤ b)
    (hnz : ∀ j, j < dmax → st.data (dest + j) ≠ 0) (hz : st.data (dest + dmax) = 0)
    (hfirst : st.data dest ≠ 0x20 ∧ st.data dest ≠ 0x09)
    (hlast : st.data (dest + (dmax - 1)) ≠ 0x20 ∧ st.data (dest + (dmax - 1)) ≠ 0x09) :
    exec (strremovews_s cfg dest dmax destbos) st = .ok (EOK, st) ∧
      ¬ ∃ i, i < dmax ∧ st.data (dest + i) = 0 :=
  ⟨strremovews_s_unterminated cfg dest dmax destbos st hall hd h2 hle hb hnz hz hfirst hlast,
   fun ⟨i, hi, h⟩ => hnz i hi h⟩

/-- a second point of the excluded class, with a leading blank: `dest = 100`, `dmax = 2`, the two cells
hold " a" and `dest[2]` holds 0 -/
def wJust2 : St :=
  { data := fun a => if a = 100 then 32 else if a = 101 then 97 else 0
    mapped := fun _ => true, rd := fun _ => true
    wr := fun a => decide (100 ≤ a ∧ a < 102) }

/-- what `strremovews_s(dest, 2)` does on `wJust2`: return value, recorded strays, `dest[0..2]` afterwards -/
def wJustOutcome2 : Option (Nat × List Access × Nat × Nat × Nat) :=
  match exec (strremovews_s {} 100 2 (some 2)) wJust2 with
  | .ok (r, st') => some (r, st'.strays, st'.data 100, st'.data 101, st'.data 102)
  | .error _ => none

/-- side observation (C01 flavour, same root cause as `justify-accepts-nul-at-dmax`): with a leading
blank and the NUL accepted AT `dest[dmax]`, strremovews_s shifts the text and then executes `*dest = 0`
on the cell `dest[dmax]`, one past the `dmax` cells: on `wJust2` it returns EOK, dest becomes "a" NUL and
the only stray access recorded is the WRITE to cell 102 = dest + dmax (it stores 0 over a 0). -/
theorem strremovews_s_write_at_dmax_witness :
    ∃ st', exec (strremovews_s {} 100 2 (some 2)) wJust2 = .ok (EOK, st') ∧
      st'.strays = [Access.wr (100 + 2)] ∧ st'.data 100 = 97 ∧ st'.data 101 = 0 := by
  have h : wJustOutcome2 = some (0, [Access.wr 102], 97, 0, 0) := by decide
  unfold wJustOutcome2 at h
  split at h
  · rename_i r st' heq
    simp only [Option.some.injEq, Prod.mk.injEq] at h
    obtain ⟨rfl, hs, h0, h1, _⟩ := h
    exact ⟨st', heq, hs, h0, h1⟩
  · cases h

/-- non-vacuity: dest = 100, dmax = 5 holding "  ab" and its NUL, object size 5 -/
def exJust : St :=
  { data := fun a => if a = 100 then 32 else if a = 101 then 32 else if a = 102 then 97
      else if a = 103 then 98 else 0
    mapped := fun _ => true, rd := fun _ => true
    wr := fun a => decide (100 ≤ a ∧ a < 105) }

example : (∀ a, exJust.mapped a = true ∧ exJust.rd a = true) ∧ RW exJust 100 5 ∧ (100 : Nat) ≠ 0 ∧ 0 < 5 ∧
    5 ≤ RSIZE_MAX_STR ∧ (∀ b, (some 5 : Bos) = some b → 5 ≤ b) ∧
    ((∃ i, i < 5 ∧ exJust.data (100 + i) = 0) ∨ exJust.data (100 + 5) ≠ 0) := by
  refine ⟨fun _ => ⟨rfl, rfl⟩, fun i hi => ⟨rfl, ?_, rfl⟩, by decide, by decide, by decide, ?_, Or.inl ⟨4, by decide, rfl⟩⟩
  · simp [exJust]; omega
  · intro b h; cases h; exact Nat.le_refl _

/-- non-vacuity of the other disjunct (the ESUNTERM exit): no NUL anywhere -/
example : (∀ a, ({ exJust with data := fun _ => 120 } : St).mapped a = true ∧
      ({ exJust with data := fun _ => 120 } : St).rd a = true) ∧
    RW { exJust with data := fun _ => 120 } 100 5 ∧
    ((∃ i, i < 5 ∧ ({ exJust with data := fun _ => 120 } : St).data (100 + i) = 0) ∨
      ({ exJust with data := fun _ => 120 } : St).data (100 + 5) ≠ 0) := by
  refine ⟨fun _ => ⟨rfl, rfl⟩, fun i hi => ⟨rfl, ?_, rfl⟩, Or.inr (by decide)⟩
  simp [exJust]; omega

end PartInplace

section PartOs
open SafeC Gen
/-!
# C03 for `getenv_s` and `strerror_s`: after every exit on a usable dest a NUL exists within `dmax`

Setting of `Proofs/CopyDisjoint.lean` (only the declared extents are mapped / readable / writable): dest is a
usable buffer (`dest ≠ 0`, `0 < dmax ≤ RSIZE_MAX_STR`, `dmax ≤` the object size when that is known, `dmax` writable
cells with ARBITRARY prior content); the strings the C reads (`name`, the environment value, libc's message, the
literal `"..."`) are readable, terminated and do not overlap dest.  Both slack configurations.

`dmax ≤ RSIZE_MAX_STR` is a genuine hypothesis for `getenv_s` when the object size is KNOWN: the function then compares
`dmax` with the object size only, and the inner `strcpy_s` (object size unknown there) rejects `dmax` silently:
`getenv_s_C03_witness`.
-/

/-- getenv_s, EVERY exit with a usable dest (name null or a readable string; variable unset or set to a string of any
length n that does not overlap dest; len null or not; object size known or not; both slack configurations; arbitrary
prior dest content): the call returns and a NUL exists in dest[0..dmax). -/
theorem getenv_s_C03 (cfg : Cfg) (hasLen : Bool) (dest dmax name : Nat) (destbos : Bos) (value k n : Nat) (st : St)
    (hd : dest ≠ 0) (hpos : 0 < dmax) (hle : dmax ≤ RSIZE_MAX_STR) (hbos : ∀ b, destbos = some b → dmax ≤ b)
    (hrw : RW st dest dmax) (hname : name ≠ 0 → SrcStr st name k)
    (hval : value ≠ 0 → SrcStr st value n ∧ Disjoint dest dmax value n) :
    ∃ r st', exec (getenv_s cfg hasLen dest dmax name destbos value) st = .ok (r, st') ∧
      ∃ i, i < dmax ∧ st'.data (dest + i) = 0 := by
  by_cases h0 : name = 0
  · subst h0
    obtain ⟨st', he, _, _, _, _, _, _, hz, _⟩ :=
      getenv_s_nullname cfg hasLen dest dmax destbos value st hd hpos hle hbos hrw
    exact ⟨_, st', he, 0, hpos, by simpa using hz⟩
  · by_cases hv : value = 0
    · subst hv
      obtain ⟨st', he, _, _, _, _, _, _, hz, _⟩ :=
        getenv_s_unset cfg hasLen dest dmax name destbos k st hd hpos hle hbos hrw h0 (hname h0)
      exact ⟨_, st', he, 0, hpos, by simpa using hz⟩
    · obtain ⟨hsrc, hdisj⟩ := hval hv
      by_cases hn : n < dmax
      · obtain ⟨st', he, _, _, _, _, _, _, _, hz, _⟩ :=
          getenv_s_ok cfg hasLen dest dmax name destbos value k n st hd hpos hle hbos hrw h0 (hname h0) hv hsrc hn hdisj
        exact ⟨_, st', he, n, hn, hz⟩
      · obtain ⟨st', he, _, _, _, _, _, _, hz, _⟩ :=
          getenv_s_nospc cfg hasLen dest dmax name destbos value k n st hd hpos hle hbos hrw h0 (hname h0) hv hsrc
            (by omega)
        exact ⟨_, st', he, 0, hpos, by simpa using hz⟩

/-- getenv_s success, exact result: readable name, the variable is set to a string of length n < dmax not overlapping
dest. Returns EOK with *len = n (when len is non-null), NO handler event, dest[0..n) = the value, dest[n] = 0, nothing
outside dest[0..dmax) changes and no access outside the declared extents happens. -/
theorem getenv_s_C03_success (cfg : Cfg) (hasLen : Bool) (dest dmax name : Nat) (destbos : Bos) (value k n : Nat)
    (st : St) (hd : dest ≠ 0) (hpos : 0 < dmax) (hle : dmax ≤ RSIZE_MAX_STR)
    (hbos : ∀ b, destbos = some b → dmax ≤ b) (hrw : RW st dest dmax)
    (hname : name ≠ 0) (hnm : SrcStr st name k)
    (hv : value ≠ 0) (hval : SrcStr st value n) (hn : n < dmax) (hdisj : Disjoint dest dmax value n) :
    ∃ st', exec (getenv_s cfg hasLen dest dmax name destbos value) st
        = .ok ((EOK, if hasLen then some n else none), st') ∧
      st'.events = st.events ∧ st'.strays = st.strays ∧
      (∀ i, i < n → st'.data (dest+i) = st.data (value+i)) ∧ st'.data (dest+n) = 0 ∧
      (∀ a, ¬ (dest ≤ a ∧ a < dest + dmax) → st'.data a = st.data a) := by
  obtain ⟨st', he, _, _, _, ps, pf, pe, c3, c4, _⟩ :=
    getenv_s_ok cfg hasLen dest dmax name destbos value k n st hd hpos hle hbos hrw hname hnm hv hval hn hdisj
  exact ⟨st', he, pe, ps, c3, c4, pf⟩

/-- state of the witness: dest = 1000 with 4097 writable cells all holding 7 (no NUL), value "aa" at 200, name "A" at
300; everything mapped and readable -/
def wEnv : St :=
  { data := fun a => if 1000 ≤ a then 7 else if a = 200 ∨ a = 201 ∨ a = 300 then 97 else 0
    mapped := fun _ => true, rd := fun _ => true
    wr := fun a => decide (1000 ≤ a ∧ a < 1000 + 4097) }

/-- the excluded point of getenv_s_C03 BEFORE abc5a20 (switch `fixInnerBos` off): object size KNOWN (destbos = dmax = 4097 > RSIZE_MAX_STR = 4096),
variable set to "aa": getenv_s returns EOK and *len = 2 although the constraint handler was invoked with ESLEMAX by
the inner strcpy_s, and dest is untouched: no NUL in dest[0..dmax). getenv_s(&len, dest, 4097, "A") with
char dest[4097], A=aa. -/
theorem getenv_s_C03_witness :
    RW wEnv 1000 4097 ∧
    ∃ st', exec (getenv_s { fixInnerBos := false } true 1000 4097 300 (some 4097) 200) wEnv = .ok ((EOK, some 2), st') ∧
      st'.events = [.handler .str ESLEMAX] ∧ st'.data = wEnv.data ∧
      ¬ ∃ i, i < 4097 ∧ st'.data (1000 + i) = 0 := by
  refine ⟨?_, _, getenv_s_bos_lemax { fixInnerBos := false } rfl true 1000 4097 300 4097 200 1 2 wEnv (by decide) (by decide) (by decide)
    (by decide) ?_ (by decide) ?_ (by decide) (by decide), rfl, rfl, ?_⟩
  · intro i hi
    refine ⟨rfl, ?_, rfl⟩
    simp only [wEnv, decide_eq_true_eq]
    omega
  · refine ⟨?_, by simp [wEnv], fun _ _ => ⟨rfl, rfl⟩⟩
    intro j hj
    have : j = 0 := by omega
    subst this; simp [wEnv]
  · refine ⟨?_, by simp [wEnv], fun _ _ => ⟨rfl, rfl⟩⟩
    intro j hj
    have : j = 0 ∨ j = 1 := by omega
    rcases this with rfl | rfl <;> simp [wEnv]
  · intro ⟨i, _, h⟩
    have : 1000 ≤ 1000 + i := by omega
    simp [wEnv, this] at h

/-- strerror_s, EVERY exit with a usable dest: msg holds the message text (length n, any n), strerrorlen_s answers n
(hlen; for the library's own codes this says the length table agrees with the text, cf. C06Os.strerrorlen_s_own; for
other codes see strerror_s_C03_libc), message and the literal "..." do not overlap dest. The call returns and a NUL
exists in dest[0..dmax): at n when the message fits, at dmax-1 after truncation, at 0 on ESLEMIN. -/
theorem strerror_s_C03 (cfg : Cfg) (dest dmax errnum : Nat) (destbos : Bos) (msg dots n : Nat) (st : St)
    (hd : dest ≠ 0) (hpos : 0 < dmax) (hle : dmax ≤ RSIZE_MAX_STR) (hbos : ∀ b, destbos = some b → dmax ≤ b)
    (hrw : RW st dest dmax) (hlen : exec (strerrorlen_s errnum msg) st = .ok (n, st))
    (hm : msg ≠ 0) (hsrc : SrcStr st msg n) (hdisj : Disjoint dest dmax msg n)
    (hdots : dots ≠ 0) (hds : SrcStr st dots 3) (hdd : Disjoint dest dmax dots 3)
    (h46 : st.data dots = 46 ∧ st.data (dots+1) = 46 ∧ st.data (dots+2) = 46) :
    ∃ code st', exec (strerror_s cfg dest dmax errnum destbos msg dots) st = .ok (code, st') ∧
      ∃ i, i < dmax ∧ st'.data (dest + i) = 0 := by
  obtain ⟨code, st', he, _, _, _, _, _, hfit, htr, hmin⟩ :=
    strerror_s_all cfg dest dmax errnum destbos msg dots n n st hd hpos hle hbos hrw hlen (Or.inl rfl) hm hsrc hdisj
      hdots hds hdd h46
  refine ⟨code, st', he, ?_⟩
  by_cases hn : n < dmax
  · exact ⟨n, hn, (hfit hn).2.2.2.1⟩
  · by_cases h3 : 3 < dmax
    · exact ⟨dmax - 1, by omega, (htr (by omega) h3).2.2.2.2.2.2⟩
    · exact ⟨0, hpos, by simpa using (hmin (by omega) (by omega)).2.2.1⟩

/-- strerror_s for an errnum outside the library's own range (strerrorlen_s = libc strlen of the message): the same
with NO hypothesis on strerrorlen_s and no bound on the message length. -/
theorem strerror_s_C03_libc (cfg : Cfg) (dest dmax errnum : Nat) (destbos : Bos) (msg dots n : Nat) (st : St)
    (hd : dest ≠ 0) (hpos : 0 < dmax) (hle : dmax ≤ RSIZE_MAX_STR) (hbos : ∀ b, destbos = some b → dmax ≤ b)
    (hrw : RW st dest dmax) (hown : isSafeclibErr errnum = false)
    (hm : msg ≠ 0) (hsrc : SrcStr st msg n) (hdisj : Disjoint dest dmax msg n)
    (hdots : dots ≠ 0) (hds : SrcStr st dots 3) (hdd : Disjoint dest dmax dots 3)
    (h46 : st.data dots = 46 ∧ st.data (dots+1) = 46 ∧ st.data (dots+2) = 46) :
    ∃ code st', exec (strerror_s cfg dest dmax errnum destbos msg dots) st = .ok (code, st') ∧
      ∃ i, i < dmax ∧ st'.data (dest + i) = 0 := by
  obtain ⟨len, hlen, hag⟩ := strerrorlen_s_libc errnum msg n st hown hsrc
  have hag' : len = n ∨ (dmax ≤ len ∧ dmax ≤ n) := by
    have := RSIZE_lt_scanFuel
    rcases hag with h | h
    · exact Or.inl h
    · exact Or.inr (by omega)
  obtain ⟨code, st', he, _, _, _, _, _, hfit, htr, hmin⟩ :=
    strerror_s_all cfg dest dmax errnum destbos msg dots n len st hd hpos hle hbos hrw hlen hag' hm hsrc hdisj
      hdots hds hdd h46
  refine ⟨code, st', he, ?_⟩
  by_cases hn : n < dmax
  · exact ⟨n, hn, (hfit hn).2.2.2.1⟩
  · by_cases h3 : 3 < dmax
    · exact ⟨dmax - 1, by omega, (htr (by omega) h3).2.2.2.2.2.2⟩
    · exact ⟨0, hpos, by simpa using (hmin (by omega) (by omega)).2.2.1⟩

/-- strerror_s for one of the library's OWN codes (ESNULLP..ESLAST; strerrorlen_s answers from the length table, which
C06Os.strerrorlen_s_own proves equal to the byte length of the message text): msg holds a string of exactly that
length. Every exit leaves a NUL in dest[0..dmax), no hypothesis on strerrorlen_s. -/
theorem strerror_s_C03_own (cfg : Cfg) (dest dmax errnum : Nat) (destbos : Bos) (msg dots : Nat) (st : St)
    (hd : dest ≠ 0) (hpos : 0 < dmax) (hle : dmax ≤ RSIZE_MAX_STR) (hbos : ∀ b, destbos = some b → dmax ≤ b)
    (hrw : RW st dest dmax) (hown : isSafeclibErr errnum = true)
    (hm : msg ≠ 0) (hsrc : SrcStr st msg (errmsgs.getD (errnum % 2^32 - ESNULLP) "").utf8ByteSize)
    (hdisj : Disjoint dest dmax msg (errmsgs.getD (errnum % 2^32 - ESNULLP) "").utf8ByteSize)
    (hdots : dots ≠ 0) (hds : SrcStr st dots 3) (hdd : Disjoint dest dmax dots 3)
    (h46 : st.data dots = 46 ∧ st.data (dots+1) = 46 ∧ st.data (dots+2) = 46) :
    ∃ code st', exec (strerror_s cfg dest dmax errnum destbos msg dots) st = .ok (code, st') ∧
      ∃ i, i < dmax ∧ st'.data (dest + i) = 0 :=
  strerror_s_C03 cfg dest dmax errnum destbos msg dots _ st hd hpos hle hbos hrw
    (SafeC.Props.C06Os.strerrorlen_s_own errnum msg st hown) hm hsrc hdisj hdots hds hdd h46

/-- non-vacuity: dest = 100 (8 cells), name "A" at 300, value "aa" at 200, message of 11 characters at 400 (does not
fit: truncation), "..." at 500; errnum 5 is not one of the library's own codes -/
example : (100 : Nat) ≠ 0 ∧ 0 < 8 ∧ 8 ≤ RSIZE_MAX_STR ∧ RW osExSt 100 8 ∧
    SrcStr osExSt 300 1 ∧ SrcStr osExSt 200 2 ∧ Disjoint 100 8 200 2 ∧
    isSafeclibErr 5 = false ∧ SrcStr osExSt 400 11 ∧ Disjoint 100 8 400 11 ∧
    SrcStr osExSt 500 3 ∧ Disjoint 100 8 500 3 ∧
    (osExSt.data 500 = 46 ∧ osExSt.data (500+1) = 46 ∧ osExSt.data (500+2) = 46) :=
  ⟨by decide, by decide, by decide, osExSt_rw, osExSt_str _ _ (by omega), osExSt_str _ _ (by omega),
   Or.inl (by decide), by decide, osExSt_str _ _ (by omega), Or.inl (by decide), osExSt_str _ _ (by omega),
   Or.inl (by decide), osExSt_dots⟩

end PartOs

end SafeC.Props.C03Ext

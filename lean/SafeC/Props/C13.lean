import SafeC.Models.Copy
/-! Property theorems for C13 (see DESIGN.md §4). -/
namespace SafeC.Props.C13
end SafeC.Props.C13

import SafeC.Models.Handlers
/-!
# C13 — constraint-handler registration is a per-thread override of a global

Histories are lists of operations, most recent first (`runR`).  Every C operation is a single
aligned word load or store, so under sequential consistency every interleaving of N threads *is*
some history; the "schedules" dimension reduces to "all histories" (assumption recorded in the
evidence).  All theorems are for every history, by induction on it.
-/
namespace SafeC.Props.C13
open SafeC SafeC.Handlers

/-- most recent process-wide registration of kind `k` (NULL ↦ default) -/
def lastSet (k : Kind) : List Op → Option Hid
  | [] => none
  | .set _ k' h :: older => if k' = k then some (reg h) else lastSet k older
  | _ :: older => lastSet k older

/-- most recent thread-local registration of kind `k` made by thread `t` since `t` was created -/
def lastThrd (t : Tid) (k : Kind) : List Op → Option Hid
  | [] => none
  | .thrdSet t' k' h :: older => if t' = t ∧ k' = k then some (reg h) else lastThrd t k older
  | .spawn _ c :: older => if c = t then none else lastThrd t k older
  | _ :: older => lastThrd t k older

/-- the two slots hold exactly the most recent registrations -/
theorem slots (hist : List Op) :
    (∀ k, (runR hist).glob k = lastSet k hist) ∧ (∀ t k, (runR hist).tl t k = lastThrd t k hist) := by
  induction hist with
  | nil => exact ⟨fun _ => rfl, fun _ _ => rfl⟩
  | cons op older ih =>
    obtain ⟨ihg, iht⟩ := ih
    cases op with
    | set t' k' h =>
      refine ⟨fun k => ?_, fun t k => ?_⟩
      · simp only [runR, step, lastSet]
        by_cases hk : k = k'
        · subst hk; simp
        · have : ¬ k' = k := fun e => hk e.symm
          simp [hk, this, ihg]
      · simp only [runR, step, lastThrd]; exact iht t k
    | thrdSet t' k' h =>
      refine ⟨fun k => ?_, fun t k => ?_⟩
      · simp only [runR, step, lastSet]; exact ihg k
      · simp only [runR, step, lastThrd]
        by_cases hk : t = t' ∧ k = k'
        · obtain ⟨rfl, rfl⟩ := hk; simp
        · have : ¬ (t' = t ∧ k' = k) := fun e => hk ⟨e.1.symm, e.2.symm⟩
          simp [hk, this, iht]
    | violate t' k' =>
      exact ⟨fun k => by simp only [runR, step, lastSet]; exact ihg k,
             fun t k => by simp only [runR, step, lastThrd]; exact iht t k⟩
    | spawn p c =>
      refine ⟨fun k => by simp only [runR, step, lastSet]; exact ihg k, fun t k => ?_⟩
      simp only [runR, step, lastThrd]
      by_cases hc : t = c
      · subst hc; simp
      · have : ¬ c = t := fun e => hc e.symm
        simp [hc, this, iht]

/-- **Dispatch rule.** After any history a violation on thread `t` runs `t`'s own most recent
registration if it made one since it was created, otherwise the most recent process-wide one,
otherwise the default handler. -/
theorem dispatch (hist : List Op) (t : Tid) (k : Kind) :
    invoked (runR hist) t k = ((lastThrd t k hist).orElse fun _ => lastSet k hist).getD 0 := by
  obtain ⟨hg, ht⟩ := slots hist
  unfold invoked
  rw [ht t k, hg k]
  cases lastThrd t k hist <;> cases lastSet k hist <;> rfl

/-- registering returns the previously registered handler of the same kind and scope -/
theorem set_returns_prev (hist : List Op) (t : Tid) (k : Kind) (h : Option Hid) :
    (step (runR hist) (.set t k h)).2 = .prev (lastSet k hist) := by
  simp only [step]; rw [(slots hist).1 k]

theorem thrdSet_returns_prev (hist : List Op) (t : Tid) (k : Kind) (h : Option Hid) :
    (step (runR hist) (.thrdSet t k h)).2 = .prev (lastThrd t k hist) := by
  simp only [step]; rw [(slots hist).2 t k]

/-- registering NULL selects the default (handler 0), in either scope -/
theorem null_selects_default_thrd (hist : List Op) (t : Tid) (k : Kind) :
    invoked (runR (.thrdSet t k none :: hist)) t k = 0 := by
  rw [dispatch]; simp [lastThrd, reg]

theorem null_selects_default_glob (hist : List Op) (t t' : Tid) (k : Kind)
    (hno : lastThrd t k hist = none) :
    invoked (runR (.set t' k none :: hist)) t k = 0 := by
  rw [dispatch]; simp [lastThrd, lastSet, hno, reg]

/-- string and memory registrations are independent: an operation on kind `k'` never changes which
handler a violation of kind `k ≠ k'` runs -/
theorem kinds_independent (hist : List Op) (t t' : Tid) (k k' : Kind) (h : Option Hid) (hne : k' ≠ k) :
    invoked (runR (.set t' k' h :: hist)) t k = invoked (runR hist) t k ∧
    invoked (runR (.thrdSet t' k' h :: hist)) t k = invoked (runR hist) t k := by
  constructor <;> (rw [dispatch, dispatch]; simp [lastThrd, lastSet, hne])

/-- a thread-local registration by `t'` is never used on behalf of another thread `t` -/
theorem tl_isolated (hist : List Op) (t t' : Tid) (k k' : Kind) (h : Option Hid) (hne : t' ≠ t) :
    invoked (runR (.thrdSet t' k' h :: hist)) t k = invoked (runR hist) t k := by
  rw [dispatch, dispatch]; simp [lastThrd, lastSet, hne]

/-- a freshly created thread has no thread-local registration, whoever created it -/
theorem spawn_fresh (hist : List Op) (p c : Tid) (k : Kind) :
    invoked (runR (.spawn p c :: hist)) c k = (lastSet k hist).getD 0 := by
  rw [dispatch]; simp [lastThrd, lastSet]

/-- a process-wide registration is seen by every thread without a registration of its own -/
theorem global_seen (hist : List Op) (t t' : Tid) (k : Kind) (h : Hid) (hno : lastThrd t k hist = none) :
    invoked (runR (.set t' k (some h) :: hist)) t k = h := by
  rw [dispatch]; simp [lastThrd, lastSet, hno, reg]

/-- non-vacuity / sanity: a concrete history -/
example : invoked (runR [.violate 1 .str, .thrdSet 1 .str (some 2), .spawn 0 1, .thrdSet 0 .str (some 3),
    .set 0 .str (some 1)]) 1 .str = 2 := by decide
example : invoked (runR [.spawn 0 1, .thrdSet 0 .str (some 3), .set 0 .str (some 1)]) 1 .str = 1 := by decide

end SafeC.Props.C13

import SafeC.Models.Copy
/-! Property theorems for C02 (see DESIGN.md §4). -/
namespace SafeC.Props.C02
end SafeC.Props.C02

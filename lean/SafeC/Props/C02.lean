import SafeC.Proofs.CopyDisjoint
/-!
# C02 — no read ever goes outside what the caller declared readable

Setting: ONLY the declared extents are mapped and readable — dest's `dmax` cells and, for a source,
its string up to and including the terminator (or its first `slen` cells, whichever comes first).
`exec … = .ok` therefore means no fault (nothing unmapped was touched) and `strays` unchanged means
not a single access outside the declared extents — for every dmax, every source length (shorter than,
equal to, longer than dmax), every prior dest content, both slack configurations, either order of the
two objects in memory.  The overlapping placements are covered by C07 (where everything involved is
declared readable anyway).
-/
namespace SafeC.Props.C02
open SafeC Gen

def NoStray (st st' : St) : Prop := st'.strays = st.strays

theorem strcpy_s_C02 (cfg : Cfg) (dest dmax src n : Nat) (st : St)
    (hd : dest ≠ 0) (hs : src ≠ 0) (hpos : 0 < dmax) (hle : dmax ≤ RSIZE_MAX_STR)
    (hrw : RW st dest dmax) (hsrc : SrcStr st src n) (hdisj : Disjoint dest dmax src n) :
    ∃ code st', exec (strcpy_s cfg dest dmax src none) st = .ok (code, st') ∧ NoStray st st' := by
  obtain ⟨code, st', he, _, _, _, hs', _⟩ := strcpyG_disjoint _ cfg dest dmax src n st hd hs hpos hle hrw hsrc hdisj
  exact ⟨code, st', he, hs'⟩

theorem wcscpy_eq (cfg : Cfg) (dest dmax src : Nat) :
    wcscpy_s cfg dest dmax src none = strcpyG RSIZE_MAX_WSTR cfg dest dmax src none := by
  unfold wcscpy_s strcpyG chkDmaxClearW chkDmaxClear chkDmaxClearG failS
  rfl

theorem wcscpy_s_C02 (cfg : Cfg) (dest dmax src n : Nat) (st : St)
    (hd : dest ≠ 0) (hs : src ≠ 0) (hpos : 0 < dmax) (hle : dmax ≤ RSIZE_MAX_WSTR)
    (hrw : RW st dest dmax) (hsrc : SrcStr st src n) (hdisj : Disjoint dest dmax src n) :
    ∃ code st', exec (wcscpy_s cfg dest dmax src none) st = .ok (code, st') ∧ NoStray st st' := by
  rw [wcscpy_eq]
  obtain ⟨code, st', he, _, _, _, hs', _⟩ := strcpyG_disjoint _ cfg dest dmax src n st hd hs hpos hle hrw hsrc hdisj
  exact ⟨code, st', he, hs'⟩

/-- strncpy_s: at most `slen` source cells are declared; the cell `src+slen` may be unmapped -/
theorem strncpy_s_C02 (cfg : Cfg) (dest dmax src slen m : Nat) (st : St)
    (hd : dest ≠ 0) (hs : src ≠ 0) (hpos : 0 < dmax) (hle : dmax ≤ RSIZE_MAX_STR)
    (hslen : 0 < slen) (hslenle : slen ≤ RSIZE_MAX_STR)
    (hrw : RW st dest dmax)
    (hnz : ∀ j, j < m → st.data (src+j) ≠ 0)
    (hrd : ∀ j, j < m → st.mapped (src+j) = true ∧ st.rd (src+j) = true)
    (hfin : (m < slen ∧ st.data (src+m) = 0 ∧ st.mapped (src+m) = true ∧ st.rd (src+m) = true) ∨ slen = m)
    (hdisj : dest + dmax ≤ src ∨ src + m < dest) :
    ∃ code st', exec (strncpy_s cfg dest dmax src slen none none) st = .ok (code, st') ∧ NoStray st st' := by
  obtain ⟨code, st', he, _, _, _, hs', _⟩ :=
    strncpyG_disjoint _ cfg dest dmax src slen m st hd hs hpos hle (Nat.le_refl _) hslen hslenle hrw hnz hrd hfin hdisj
  exact ⟨code, st', he, hs'⟩

theorem strcat_s_C02 (cfg : Cfg) (dest dmax src dl n : Nat) (st : St)
    (hd : dest ≠ 0) (hs : src ≠ 0) (hpos : 0 < dmax) (hle : dmax ≤ RSIZE_MAX_STR)
    (hrw : RW st dest dmax) (hsrc : SrcStr st src n) (hdisj : Disjoint dest dmax src n)
    (hdl : dl < dmax) (hdnz : ∀ j, j < dl → st.data (dest+j) ≠ 0) (hdnul : st.data (dest+dl) = 0) :
    ∃ code st', exec (strcat_s cfg dest dmax src none) st = .ok (code, st') ∧ NoStray st st' := by
  obtain ⟨code, st', he, _, _, _, hs', _⟩ :=
    strcatG_disjoint _ cfg dest dmax src dl n st hd hs hpos hle hrw hsrc hdisj hdl hdnz hdnul
  exact ⟨code, st', he, hs'⟩

/-- non-vacuity: dest = 100 (5 cells), src = "ab" at 200, nothing else mapped -/
def exSt : St :=
  { data := fun a => if a = 200 then 97 else if a = 201 then 98 else 0
    mapped := fun a => decide ((100 ≤ a ∧ a < 105) ∨ (200 ≤ a ∧ a < 203))
    rd := fun a => decide ((100 ≤ a ∧ a < 105) ∨ (200 ≤ a ∧ a < 203))
    wr := fun a => decide (100 ≤ a ∧ a < 105) }

example : RW exSt 100 5 ∧ SrcStr exSt 200 2 ∧ Disjoint 100 5 200 2 := by
  refine ⟨fun i hi => ?_, ⟨fun j hj => ?_, by simp [exSt], fun j hj => ?_⟩, Or.inl (by decide)⟩
  · simp [exSt]; omega
  · have : j = 0 ∨ j = 1 := by omega
    rcases this with rfl | rfl <;> simp [exSt]
  · simp [exSt]; omega

end SafeC.Props.C02

import SafeC.Proofs.ConvDecode
/-!
# C15 — the converse codec direction

`codec_roundtrip` (Props/C15.lean) is encode-then-decode.  Here: decode-then-encode.  On a VALID byte string (one that
glibc's decoder accepts completely) re-encoding what was decoded gives the bytes back; this is true only because the
decoder rejects overlong forms and surrogates, which is stated separately: the decoder never delivers a surrogate, a value
above 31 bits, or a value from a sequence longer than the encoder's (shortest) form of that value.
All statements: every byte string, both locales, no bound on lengths.
-/
namespace SafeC.Props.C15
open SafeC.Conv SafeC.Conv.Libc

/-- **decode-then-encode**: if the decoder accepts `bs` completely and yields `ws`, the encoder maps `ws` back to
exactly `bs` (every byte string, every fuel, both locales) -/
theorem codec_roundtrip_converse (loc : Locale) (fuel : Nat) (bs ws : List Nat)
    (h : decodeAll loc fuel bs = some ws) : encodeAll loc ws = some bs :=
  encodeAll_decodeAll loc fuel bs ws h

example : decodeAll .UTF8 10 [0x61, 0xE2, 0x82, 0xAC, 0xFD, 0xBF, 0xBF, 0xBF, 0xBF, 0xBF] = some [0x61, 0x20AC, 0x7FFFFFFF] := by decide
/-- an overlong form (`E0 82 AC` for U+00AC) is NOT accepted — without that rejection the theorem would be false -/
example : decodeAll .UTF8 3 [0xE0, 0x82, 0xAC] = none := by decide

/-- encode and decode are mutually inverse on their domains: `bs` is valid iff it is the encoding of some `ws` -/
theorem codec_bijection (loc : Locale) (bs ws : List Nat) :
    decodeAll loc bs.length bs = some ws ↔ encodeAll loc ws = some bs :=
  ⟨encodeAll_decodeAll loc bs.length bs ws, fun h => decodeAll_encodeAll loc ws bs h bs.length (Nat.le_refl _)⟩

/-- **one character**: whenever the decoder accepts a sequence (followed by anything) and delivers `ch` from `n` bytes,
those `n` bytes are the encoder's form of `ch`; `ch` is not a surrogate and fits 31 bits -/
theorem decoder_yields_encoder_form (loc : Locale) (bs : List Nat) (ch n : Nat) (h : body loc bs = .ok ch n) :
    enc loc ch = some (bs.take n) ∧ 0 < n ∧ n ≤ bs.length ∧ isSurr ch = false ∧ ch ≤ 0x7fffffff := by
  obtain ⟨he, hn, hp⟩ := body_ok loc bs ch n h
  obtain ⟨hr, hs⟩ := enc_some_range loc ch _ he
  exact ⟨he, hp, hn, hs, hr⟩

/-- **never a shorter encoding**: the number of bytes the UTF-8 decoder consumes for `ch` is the minimal length for the
magnitude of `ch` (1 below 0x80, 2 below 0x800, 3 below 0x10000, …): no overlong form is ever accepted -/
theorem decoder_never_overlong (bs : List Nat) (ch n : Nat) (h : body .UTF8 bs = .ok ch n) :
    n = if ch < 0x80 then 1 else if ch < 0x800 then 2 else if ch < 0x10000 then 3 else if ch < 0x200000 then 4
      else if ch < 0x4000000 then 5 else 6 := by
  obtain ⟨he, hn, _⟩ := body_ok .UTF8 bs ch n h
  have := utf8Enc_length ch _ he
  rw [List.length_take, Nat.min_eq_left hn] at this
  exact this

/-- two accepted sequences that deliver the same value are the same bytes: the decoder is injective on what it consumes -/
theorem decoder_injective (loc : Locale) (bs bs' : List Nat) (ch n n' : Nat)
    (h : body loc bs = .ok ch n) (h' : body loc bs' = .ok ch n') : bs.take n = bs'.take n' ∧ n = n' := by
  obtain ⟨he, hn, _⟩ := body_ok loc bs ch n h
  obtain ⟨he', hn', _⟩ := body_ok loc bs' ch n' h'
  rw [he] at he'
  have heq : bs.take n = bs'.take n' := Option.some.inj he'
  refine ⟨heq, ?_⟩
  have := congrArg List.length heq
  rw [List.length_take, List.length_take, Nat.min_eq_left hn, Nat.min_eq_left hn'] at this
  exact this

/-- every character of a decoded string is a non-surrogate 31-bit value -/
theorem decoded_chars_in_range (loc : Locale) (fuel : Nat) (bs ws : List Nat) (h : decodeAll loc fuel bs = some ws) :
    ∀ c ∈ ws, isSurr c = false ∧ c ≤ 0x7fffffff := by
  intro c hc
  obtain ⟨e, he⟩ := encodeAll_mem loc ws bs (encodeAll_decodeAll loc fuel bs ws h) c hc
  obtain ⟨hr, hs⟩ := enc_some_range loc c e he
  exact ⟨hs, hr⟩

example : body .UTF8 [0xF0, 0x9F, 0x98, 0x80, 0x41] = .ok 0x1F600 4 := by decide

end SafeC.Props.C15

import SafeC.Proofs.AccFld
import SafeC.Props.C02Ext3
/-!
# C02, full statements: the field copies `strcpyfld_s strcpyfldin_s strcpyfldout_s`

ONLY dest's `dmax` cells (read by the `strnlen_s` of the error exits, written otherwise) and the first `slen` cells
of `src` are mapped: every argument combination returns without a stray access — the loops test `slen` / `dmax`
before they dereference (for `strcpyfldin_s` since the repair `while (dmax > 0 && slen > 0 && *src)`).
-/
namespace SafeC.Props.C02
open SafeC Gen

/-- **strcpyfld_s** (FULL) -/
theorem strcpyfld_s_C02 (cfg : Cfg) (dest dmax src slen : Nat) (db : Bos) (st : St)
    (hd : dest ≠ 0 → RW st dest dmax) (hs : src ≠ 0 → RD st src slen) :
    Runs (strcpyfld_s cfg dest dmax src slen db) st :=
  runs_of_Acc (Acc_fldG .fld cfg dest dmax src slen db (fun h => Rd_of_RD (hs h)) (fun h => Rd_of_RW (hd h))
    (fun h => Wr_of_RW (hd h)))

/-- **strcpyfldin_s** (FULL) -/
theorem strcpyfldin_s_C02 (cfg : Cfg) (dest dmax src slen : Nat) (db : Bos) (st : St)
    (hd : dest ≠ 0 → RW st dest dmax) (hs : src ≠ 0 → RD st src slen) :
    Runs (strcpyfldin_s cfg dest dmax src slen db) st :=
  runs_of_Acc (Acc_fldG .fldin cfg dest dmax src slen db (fun h => Rd_of_RD (hs h)) (fun h => Rd_of_RW (hd h))
    (fun h => Wr_of_RW (hd h)))

/-- **strcpyfldout_s** (FULL) -/
theorem strcpyfldout_s_C02 (cfg : Cfg) (dest dmax src slen : Nat) (db : Bos) (st : St)
    (hd : dest ≠ 0 → RW st dest dmax) (hs : src ≠ 0 → RD st src slen) :
    Runs (strcpyfldout_s cfg dest dmax src slen db) st :=
  runs_of_Acc (Acc_fldG .fldout cfg dest dmax src slen db (fun h => Rd_of_RD (hs h)) (fun h => Rd_of_RW (hd h))
    (fun h => Wr_of_RW (hd h)))

/-- non-vacuity: a 5-cell writable dest and an unterminated 3-cell field, both flush against unmapped memory -/
example : ∃ st : St, RW st 100 5 ∧ RD st 200 3 ∧ st.mapped 105 = false ∧ st.mapped 203 = false :=
  ⟨{ data := fun _ => 7, mapped := fun a => decide ((100 ≤ a ∧ a < 105) ∨ (200 ≤ a ∧ a < 203)),
     rd := fun a => decide ((100 ≤ a ∧ a < 105) ∨ (200 ≤ a ∧ a < 203)), wr := fun a => decide (100 ≤ a ∧ a < 105) },
   fun i hi => by simp; omega, fun i hi => by simp; omega, by decide, by decide⟩

end SafeC.Props.C02

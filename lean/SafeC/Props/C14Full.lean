import SafeC.Proofs.TokCaller
/-!
# C14 at full strength: a C caller's tokenizing loop against the list-level specification

Setting (`Inv st dls dest dmax`, `Proofs/TokSeq.lean`): every cell readable, the declared extent `[dest, dest+dmax)`
writable and holding a NUL (a TERMINATED string, of any length), every delimiter string that will be used has
1..`STRTOK_DELIM_MAX_LEN` characters and lies outside the extent; `dmax` within the limit of the function and within
the object size when that is known.  No bound on the length of the string, on `dmax`, or on the number of calls.

`callerLoop wide db dls dest dmax pv0 bos` is the C caller: first call `tok(dest, &dmax, dls[0], &ptr)`, every later
call `tok(NULL, &dmax, dls[i], &ptr)` with `ptr` / `dmax` as the previous call left them (`wide = false`: `strtok_s`,
`true`: `wcstok_s`; both are the same loop `tokBody`, so every theorem is stated once for both).

* `caller_eq_ref`      — the outputs of ALL calls (returned pointer, `*ptr`, `*dmaxp`) and the final memory are exactly
  what the pure reference `TokSpec.refSeq` computes from the string and the delimiter sets as LISTS; no call faults.
  One delimiter set per call (they may change between calls).
* `caller_reads_tokens` — what the caller reads through the returned pointers AFTER the whole sequence is exactly the
  tokens of the reference (NULL where it has none);
* `caller_token_inside` — each returned token is NUL-terminated strictly inside the original extent;
* `caller_frame`        — a cell of the final memory holds its original value, or it holds NUL, lies inside the string
  and held a delimiter of the delimiter set of the call that overwrote it;
* `caller_ptr_rem`      — every call hands back `*ptr + *dmaxp = dest + dmax` with `dest ≤ *ptr` and `*dmaxp > 0`: the
  remaining length never permits access past the original `dmax`;
* `strtok_s_C14` / `wcstok_s_C14` — one delimiter string throughout: the `k` calls return exactly
  `TokSpec.tokens` (the maximal delimiter-free substrings of the original string), in order, each once, then NULL
  forever — with the three clauses above.
-/
namespace SafeC.Props.C14
open SafeC Gen SafeC.TokSpec

/-- the reference for a call sequence on the memory `m`: the string at `dest` and the delimiter strings as lists -/
def refOf (m : Nat → Nat) (dls : List Nat) (dest dmax : Nat) : List RefCall :=
  refSeq (dls.map (fun dl => isDelim m dl)) 0 (cstr m dest dmax)

/-- **all calls = the reference** (any number of calls, one delimiter string per call): outputs and final memory -/
theorem caller_eq_ref (wide : Bool) (db bos : Bos) (dls : List Nat) (dest dmax pv0 : Nat) (st : St)
    (hI : Inv st dls dest dmax) (hdl0 : ∀ dl ∈ dls, dl ≠ 0) (hle : dmax ≤ tokLimit wide)
    (hbos : ∀ b, bos = some b → dmax * cellSize wide ≤ b) :
    ∃ st', exec (callerLoop wide db dls dest dmax pv0 bos) st =
        .ok ((refOf st.data dls dest dmax).map (outOf dest (dest + dmax)), st') ∧
      st'.data = cutsMem dest (refOf st.data dls dest dmax) st.data ∧
      st'.mapped = st.mapped ∧ st'.rd = st.rd ∧ st'.wr = st.wr := by
  have hterm := hI.term
  have e2 : dest + dmax - dest = dmax := by omega
  have hmain := nextCalls_eq_ref wide db dls dest (dest + dmax) 0 st
    (by show Inv st dls dest (dest + dmax - dest); rw [e2]; exact hI) hdl0 (by omega)
  simp only [Nat.add_zero, e2] at hmain
  obtain ⟨st', he, hrest⟩ := hmain
  refine ⟨st', ?_, hrest⟩
  show _ = Except.ok (List.map (outOf dest (dest + dmax))
    (refSeq (List.map (fun dl => isDelim st.data dl) dls) 0 (cstr st.data dest dmax)), st')
  rw [← he]
  -- the first call through the entry point is the same `tokBody` as a continuation call at `dest`
  cases dls with
  | nil => rfl
  | cons dl rest =>
    obtain ⟨st1, he1, _, _⟩ := hI.step wide
    have hf := tokFn_first wide dest dmax dl pv0 bos hI.pne (hdl0 dl (by simp)) (by omega) hle hbos
    have hn := tokFn_next wide dmax dl dest db hI.pne (hdl0 dl (by simp)) (by omega) hle
    simp only [callerLoop, nextCalls, exec_bind, hf, hn, he1, Option.getD_some]

/-- **the remaining length shrinks exactly as the pointer advances**: every call stores a pointer inside the extent
and a positive remaining length with `*ptr + *dmaxp = dest + dmax`. -/
theorem caller_ptr_rem (m : Nat → Nat) (dls : List Nat) (dest dmax : Nat) (hz : scanLen m dest dmax < dmax) :
    ∀ o ∈ (refOf m dls dest dmax).map (outOf dest (dest + dmax)),
      ∃ pv rem, o.ptrv = some pv ∧ o.dmaxv = some rem ∧ dest ≤ pv ∧ 0 < rem ∧ pv + rem = dest + dmax := by
  intro o ho
  obtain ⟨r, hr, rfl⟩ := List.mem_map.mp ho
  obtain ⟨_, h2, _, _⟩ := refSeq_bounds _ _ _ r hr
  rw [cstr_length] at h2
  refine ⟨dest + r.next, dest + dmax - (dest + r.next), rfl, rfl, by omega, by omega, by omega⟩

/-- **frame**: a cell of the final memory holds its original value, or it holds NUL, lies inside the string (in front
of the terminator) and held a delimiter of one of the delimiter strings -/
theorem caller_frame (m : Nat → Nat) (dls : List Nat) (dest dmax : Nat) (x : Nat) :
    cutsMem dest (refOf m dls dest dmax) m x = m x ∨
    (cutsMem dest (refOf m dls dest dmax) m x = 0 ∧ dest ≤ x ∧ x < dest + scanLen m dest dmax ∧
      ∃ dl ∈ dls, isDelim m dl (m x) = true) := by
  rw [cutsMem_apply]
  by_cases h : ∃ r ∈ refOf m dls dest dmax, ∃ c, r.cut = some c ∧ x = dest + c
  · right
    rw [if_pos h]
    obtain ⟨r, hr, c, hc, hx⟩ := h
    -- find the delimiter set of the call that cut
    unfold refOf at hr
    obtain ⟨i, hi, hri⟩ := List.getElem_of_mem hr
    have hlen : (refSeq (dls.map (fun dl => isDelim m dl)) 0 (cstr m dest dmax)).length = dls.length := by
      rw [refSeq_length, List.length_map]
    have hi' : i < dls.length := by omega
    have hq : (isDelim m dls[i], r) ∈ List.zip (dls.map (fun dl => isDelim m dl))
        (refSeq (dls.map (fun dl => isDelim m dl)) 0 (cstr m dest dmax)) := by
      have hz : i < (List.zip (dls.map (fun dl => isDelim m dl))
          (refSeq (dls.map (fun dl => isDelim m dl)) 0 (cstr m dest dmax))).length := by
        simp [hlen]; omega
      have := List.getElem_mem hz
      simpa [List.getElem_zip, hri] using this
    obtain ⟨f1, _⟩ := refSeq_call_facts _ _ _ _ hq
    obtain ⟨_, g2, g3⟩ := f1 c hc
    simp only [Nat.sub_zero] at g2 g3
    have hget : (cstr m dest dmax).getD c 0 = m x := by
      rw [List.getD_eq_getElem?_getD, List.getElem?_eq_getElem g2, Option.getD_some, cstr_getElem, hx]
    rw [cstr_length] at g2
    rw [hget] at g3
    exact ⟨rfl, by omega, by omega, dls[i], List.getElem_mem hi', g3⟩
  · left; rw [if_neg h]

/-- a string is determined by its cells up to the terminator -/
theorem cstr_of_cells (m : Nat → Nat) (t : List Nat) (a n : Nat) (hn : t.length < n)
    (hcells : ∀ j (hj : j < t.length), m (a + j) = t[j]) (hnz : ∀ c ∈ t, c ≠ 0) (hend : m (a + t.length) = 0) :
    cstr m a n = t := by
  induction t generalizing a n with
  | nil =>
    cases n with
    | zero => rfl
    | succ n => simp only [List.length_nil, Nat.add_zero] at hend; simp [cstr, hend]
  | cons c t ih =>
    cases n with
    | zero => simp at hn
    | succ n =>
      have h0 := hcells 0 (by simp)
      simp only [Nat.add_zero, List.getElem_cons_zero] at h0
      have hc : c ≠ 0 := hnz c (by simp)
      simp only [cstr, h0, hc, if_false, List.cons.injEq, true_and]
      apply ih (a+1) n (by simpa using hn)
      · intro j hj
        have := hcells (j+1) (by simpa using hj)
        simp only [List.getElem_cons_succ] at this
        rw [← this]; congr 1; omega
      · intro x hx; exact hnz x (by simp [hx])
      · rw [← hend]; congr 1; simp only [List.length_cons]; omega

/-- **each returned token is NUL-terminated inside the original buffer**: for every call of the reference that
returns a token `t` at offset `o`, the string read at `dest + o` in the FINAL memory (after all calls) is `t`, and
its terminator lies strictly inside the declared extent. -/
theorem caller_token_inside (m : Nat → Nat) (dls : List Nat) (dest dmax : Nat) (hz : scanLen m dest dmax < dmax) :
    ∀ r ∈ refOf m dls dest dmax, ∀ o t, r.tok = some (o, t) →
      cstr (cutsMem dest (refOf m dls dest dmax) m) (dest + o) (dest + dmax - (dest + o)) = t ∧
      dest + o + t.length < dest + dmax := by
  intro r hr o t htok
  obtain ⟨_, i2, i3, i4⟩ := refSeq_tok_isolated _ _ _ r hr o t htok
  obtain ⟨_, _, _, b4⟩ := refSeq_bounds _ _ _ r hr
  obtain ⟨_, _, _, b5⟩ := b4 o t htok
  simp only [Nat.sub_zero, Nat.zero_add, cstr_length] at i2 i4 b5
  have hlen := cstr_length m dest dmax
  -- the cells of the token in the original memory
  have htj : ∀ j (hj : j < t.length), t[j] = m (dest + o + j) := by
    intro j hj
    have h1 : ((cstr m dest dmax).drop o).take t.length = t := i2
    have hlt : o + j < (cstr m dest dmax).length := by rw [hlen]; omega
    have : t[j]? = (cstr m dest dmax)[o + j]? := by
      conv => lhs; rw [← h1]
      rw [List.getElem?_take_of_lt hj, List.getElem?_drop]
    rw [List.getElem?_eq_getElem hj, List.getElem?_eq_getElem hlt, Option.some.injEq] at this
    rw [this, cstr_getElem]; congr 1; omega
  refine ⟨?_, by omega⟩
  apply cstr_of_cells _ t (dest + o) _ (by omega)
  · intro j hj
    rw [cutsMem_apply, if_neg, htj j hj]
    rintro ⟨r', hr', c, hc, hx⟩
    rcases i3 r' hr' c hc with h | h <;> omega
  · intro c hc
    have : c ∈ cstr m dest dmax := by
      have h1 : ((cstr m dest dmax).drop o).take t.length = t := i2
      rw [← h1] at hc
      exact List.mem_of_mem_drop (List.mem_of_mem_take hc)
    exact cstr_nonzero m dest dmax c this
  · rw [cutsMem_apply]
    split
    · rfl
    · rcases i4 with h | ⟨r', hr', hc⟩
      · have := scanLen_zero m dest dmax hz
        rw [← this]; congr 1; omega
      · rename_i hne
        exact absurd ⟨r', hr', o + t.length, hc, by omega⟩ hne

/-- what the caller reads through a returned pointer (`lim` = end of the declared extent): nothing for NULL -/
def readTok (m : Nat → Nat) (lim : Nat) (o : TokOut) : Option (List Nat) :=
  if o.ret = 0 then none else some (cstr m o.ret (lim - o.ret))

/-- **what the caller reads through the returned pointers after the whole sequence = the reference tokens** -/
theorem caller_reads_tokens (m : Nat → Nat) (dls : List Nat) (dest dmax : Nat) (hd : dest ≠ 0)
    (hz : scanLen m dest dmax < dmax) :
    ((refOf m dls dest dmax).map (outOf dest (dest + dmax))).map
        (readTok (cutsMem dest (refOf m dls dest dmax) m) (dest + dmax))
      = toksOf (refOf m dls dest dmax) := by
  rw [List.map_map, toksOf]
  apply List.map_congr_left
  intro r hr
  simp only [Function.comp, readTok, outOf, refCallSpec]
  have hcases : r.tok = none ∨ ∃ o t, r.tok = some (o, t) := by
    cases r.tok with
    | none => exact Or.inl rfl
    | some ot => exact Or.inr ⟨ot.1, ot.2, rfl⟩
  rcases hcases with htok | ⟨o, t, htok⟩
  · simp [htok]
  · have := (caller_token_inside m dls dest dmax hz r hr o t htok).1
    have hne : ¬ dest + o = 0 := by omega
    simp only [htok, hne, if_false, Option.map_some, this]

/-! ## the property for `strtok_s` and for `wcstok_s` (one delimiter string throughout) -/

/-- the four clauses of C14 for `k` calls with the delimiter string `dl` -/
theorem tok_C14 (wide : Bool) (k dl dest dmax pv0 : Nat) (db bos : Bos) (st : St)
    (hI : Inv st (List.replicate k dl) dest dmax) (hdl : dl ≠ 0) (hle : dmax ≤ tokLimit wide)
    (hbos : ∀ b, bos = some b → dmax * cellSize wide ≤ b) :
    ∃ outs st', exec (callerLoop wide db (List.replicate k dl) dest dmax pv0 bos) st = .ok (outs, st') ∧
      -- exactly the maximal delimiter-free substrings, in order, each once, then NULL forever
      outs.map (readTok st'.data (dest + dmax)) =
        ((tokens (delimsAt st.data dl) (cstr st.data dest dmax)).map some ++ List.replicate k none).take k ∧
      -- each returned token is NUL-terminated inside the original buffer
      (∀ o ∈ outs, o.ret ≠ 0 →
        dest ≤ o.ret ∧ o.ret + (cstr st'.data o.ret (dest + dmax - o.ret)).length < dest + dmax ∧
        st'.data (o.ret + (cstr st'.data o.ret (dest + dmax - o.ret)).length) = 0) ∧
      -- only delimiter positions are overwritten
      (∀ x, st'.data x = st.data x ∨
        (st'.data x = 0 ∧ dest ≤ x ∧ x < dest + scanLen st.data dest dmax ∧ isDelim st.data dl (st.data x) = true)) ∧
      -- the remaining length never permits access past the original dmax
      (∀ o ∈ outs, ∃ pv rem, o.ptrv = some pv ∧ o.dmaxv = some rem ∧ dest ≤ pv ∧ 0 < rem ∧ pv + rem = dest + dmax) ∧
      st'.mapped = st.mapped ∧ st'.rd = st.rd ∧ st'.wr = st.wr := by
  have hz := hI.term
  have hdl0 : ∀ d ∈ List.replicate k dl, d ≠ 0 := by
    intro d hd; rw [(List.mem_replicate.mp hd).2]; exact hdl
  obtain ⟨st', he, hdata, hperm⟩ := caller_eq_ref wide db bos _ dest dmax pv0 st hI hdl0 hle hbos
  refine ⟨_, st', he, ?_, ?_, ?_, caller_ptr_rem st.data _ dest dmax hz, hperm⟩
  · rw [hdata, caller_reads_tokens st.data _ dest dmax hI.pne hz]
    unfold refOf
    rw [List.map_replicate, refSeq_replicate, isDelim_eq]
    rfl
  · intro o ho hret
    obtain ⟨r, hr, rfl⟩ := List.mem_map.mp ho
    simp only [outOf, refCallSpec] at hret ⊢
    cases htok : r.tok with
    | none => simp [htok] at hret
    | some ot =>
      obtain ⟨o, t⟩ := ot
      obtain ⟨h1, h2⟩ := caller_token_inside st.data _ dest dmax hz r hr o t htok
      simp only [hdata, h1]
      refine ⟨by omega, h2, ?_⟩
      -- the cell behind the token: the string read there ends there
      have hs := cstr_length (cutsMem dest (refOf st.data (List.replicate k dl) dest dmax) st.data)
        (dest + o) (dest + dmax - (dest + o))
      rw [h1] at hs
      rw [hs]
      exact scanLen_zero _ _ _ (by omega)
  · intro x
    rw [hdata]
    rcases caller_frame st.data (List.replicate k dl) dest dmax x with h | ⟨h1, h2, h3, d, hd, h4⟩
    · exact Or.inl h
    · rw [(List.mem_replicate.mp hd).2] at h4
      exact Or.inr ⟨h1, h2, h3, h4⟩

/-- **C14 for `strtok_s`**, every terminated string, every `dmax`, every delimiter string of 1..16 characters, any
number `k` of calls. -/
theorem strtok_s_C14 (k dl dest dmax pv0 : Nat) (db bos : Bos) (st : St)
    (hI : Inv st (List.replicate k dl) dest dmax) (hdl : dl ≠ 0) (hle : dmax ≤ RSIZE_MAX_STR)
    (hbos : ∀ b, bos = some b → dmax ≤ b) :
    ∃ outs st', exec (callerLoop false db (List.replicate k dl) dest dmax pv0 bos) st = .ok (outs, st') ∧
      outs.map (readTok st'.data (dest + dmax)) =
        ((tokens (delimsAt st.data dl) (cstr st.data dest dmax)).map some ++ List.replicate k none).take k ∧
      (∀ o ∈ outs, o.ret ≠ 0 →
        dest ≤ o.ret ∧ o.ret + (cstr st'.data o.ret (dest + dmax - o.ret)).length < dest + dmax ∧
        st'.data (o.ret + (cstr st'.data o.ret (dest + dmax - o.ret)).length) = 0) ∧
      (∀ x, st'.data x = st.data x ∨
        (st'.data x = 0 ∧ dest ≤ x ∧ x < dest + scanLen st.data dest dmax ∧ isDelim st.data dl (st.data x) = true)) ∧
      (∀ o ∈ outs, ∃ pv rem, o.ptrv = some pv ∧ o.dmaxv = some rem ∧ dest ≤ pv ∧ 0 < rem ∧ pv + rem = dest + dmax) ∧
      st'.mapped = st.mapped ∧ st'.rd = st.rd ∧ st'.wr = st.wr :=
  tok_C14 false k dl dest dmax pv0 db bos st hI hdl hle (fun b hb => by simpa [cellSize] using hbos b hb)

/-- **C14 for `wcstok_s`** (`bos` in bytes) -/
theorem wcstok_s_C14 (k dl dest dmax pv0 : Nat) (db bos : Bos) (st : St)
    (hI : Inv st (List.replicate k dl) dest dmax) (hdl : dl ≠ 0) (hle : dmax ≤ RSIZE_MAX_WSTR)
    (hbos : ∀ b, bos = some b → dmax * SIZEOF_WCHAR_T ≤ b) :
    ∃ outs st', exec (callerLoop true db (List.replicate k dl) dest dmax pv0 bos) st = .ok (outs, st') ∧
      outs.map (readTok st'.data (dest + dmax)) =
        ((tokens (delimsAt st.data dl) (cstr st.data dest dmax)).map some ++ List.replicate k none).take k ∧
      (∀ o ∈ outs, o.ret ≠ 0 →
        dest ≤ o.ret ∧ o.ret + (cstr st'.data o.ret (dest + dmax - o.ret)).length < dest + dmax ∧
        st'.data (o.ret + (cstr st'.data o.ret (dest + dmax - o.ret)).length) = 0) ∧
      (∀ x, st'.data x = st.data x ∨
        (st'.data x = 0 ∧ dest ≤ x ∧ x < dest + scanLen st.data dest dmax ∧ isDelim st.data dl (st.data x) = true)) ∧
      (∀ o ∈ outs, ∃ pv rem, o.ptrv = some pv ∧ o.dmaxv = some rem ∧ dest ≤ pv ∧ 0 < rem ∧ pv + rem = dest + dmax) ∧
      st'.mapped = st.mapped ∧ st'.rd = st.rd ∧ st'.wr = st.wr :=
  tok_C14 true k dl dest dmax pv0 db bos st hI hdl hle (fun b hb => by simpa [cellSize] using hbos b hb)

/-! ## non-vacuity: "a,b" at 100 (dmax 4, one cell of slack), delimiter string "," at 200 -/

def exSt : St := { data := exMem, mapped := fun _ => true, rd := fun _ => true, wr := fun _ => true }

/-- the hypotheses of every theorem above hold for a non-trivial input -/
example : Inv exSt (List.replicate 4 200) 100 4 ∧ (200 : Nat) ≠ 0 ∧ 4 ≤ tokLimit false ∧ 4 ≤ tokLimit true :=
  ⟨⟨fun _ => ⟨rfl, rfl⟩,
    fun dl hdl => by rw [(List.mem_replicate.mp hdl).2]; unfold DelimOK; decide,
    by decide, by decide, fun _ _ _ => rfl,
    fun dl hdl j hj h => by rw [(List.mem_replicate.mp hdl).2] at h; omega⟩,
   by decide, by decide, by decide⟩

/-- the specification on that input, and what the model's caller loop returns on it (kernel-evaluated) -/
example : tokens (delimsAt exMem 200) (cstr exMem 100 4) = [[97], [98]] ∧
    toksOf (refOf exMem (List.replicate 4 200) 100 4) = [some [97], some [98], none, none] ∧
    (match exec (callerLoop false none (List.replicate 4 200) 100 4 0 none) exSt with
      | .ok (outs, st') => outs.map (fun o => (o.ret, o.ptrv, o.dmaxv, readTok st'.data 104 o))
      | .error _ => []) =
      [(100, some 102, some 2, some [97]), (102, some 103, some 1, some [98]),
       (0, some 103, some 1, none), (0, some 103, some 1, none)] := by
  refine ⟨by decide, by decide, by decide⟩

/-- the loops of the two theorems are the entry points themselves -/
example : tokFn false = strtok_s ∧ tokFn true = wcstok_s := ⟨rfl, rfl⟩

end SafeC.Props.C14

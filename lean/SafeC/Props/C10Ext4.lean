import SafeC.Props.C10
import SafeC.Proofs.QueryExt2
/-!
# C10, second part (4): substring and set searches

`strstr_s strcasestr_s wcsstr_s strpbrk_s`.

Setting as in `C10.lean`.  The needle is the string at `src` cut at `slen` characters
(`scanLen d src slen` cells); the answer is `findSub` (`SafeC/Spec/Query.lean`): the first
occurrence of the needle lying entirely inside the first `dmax` cells of `dest`, the search ending at
`dest`'s terminator.  All outer loops are `while (*dest && dmax)` and the inner ones test
`src[i]` / `dest[i]` before the remaining length: cells `dest[dmax]`, `src[slen]` may be read (known
findings `read-before-bound`, `read-src-past-slen`); the theorems hold for every content of those cells.
-/
namespace SafeC.Props.C10
open SafeC Gen

/-! ## strstr_s -/

/-- **strstr_s**: the first occurrence, inside the first `dmax` characters of `dest`, of the string
`src` cut at `slen` characters; ESNOTFND if there is none — for ALL `slen` up to the limit, also
above `dmax` (where the code consults the unbounded `strlen` of both operands) -/
theorem strstr_s_C10 (dest dmax src slen : Nat) (st : St) (hall : AllRd st)
    (hd : dest ≠ 0) (hs : src ≠ 0) (hpos : 0 < dmax) (hle : dmax ≤ RSIZE_MAX_STR)
    (hspos : 0 < slen) (hsle : slen ≤ RSIZE_MAX_STR) :
    exec (strstr_s dest dmax src slen none none) st =
      .ok ((match findSub id st.data src (scanLen st.data src slen) dest dmax with
            | some i => (EOK, dest + i) | none => (ESNOTFND, 0)), st) := by
  unfold strstr_s qChkS qChkSlenS
  have h1 : ¬ dmax = 0 := by omega
  have h2 : ¬ dmax > RSIZE_MAX_STR := by omega
  have h3 : ¬ slen = 0 := by omega
  have h4 : ¬ slen > RSIZE_MAX_STR := by omega
  have h5 : ¬ (some src = some 0) := by simpa using hs
  have hfu : RSIZE_MAX_STR < scanFuel := by decide
  simp only [hd, h1, h2, h4, h5, if_false, exec_bind, exec_pure]
  -- the needle length, and what the early exit knows
  have hm := scanLen_min st.data src slen scanFuel (by omega)
  have hdl := scanLen_min st.data dest dmax scanFuel (by omega)
  have hcells := scanLen_nonzero st.data src slen
  -- continuation after the early test
  have cont : scanLen st.data src slen ≤ dmax →
      exec (do
        let s0 ← load src
        if s0 = 0 ∨ dest = src then pure (EOK, dest)
        else if slen = 0 then do handlerS ESZEROL; pure (ESZEROL, 0)
        else strstrOuter src slen dmax dest) st =
      .ok ((match findSub id st.data src (scanLen st.data src slen) dest dmax with
            | some i => (EOK, dest + i) | none => (ESNOTFND, 0)), st) := by
    intro hmle
    simp only [exec_bind, exec_load_all hall]
    obtain ⟨n, rfl⟩ : ∃ n, dmax = n + 1 := ⟨dmax - 1, by omega⟩
    by_cases hc : st.data src = 0 ∨ dest = src
    · simp only [hc, if_true, exec_pure]
      have : findSub id st.data src (scanLen st.data src slen) dest (n+1) = some 0 := by
        rcases hc with h0 | rfl
        · have : scanLen st.data src slen = 0 := by
            obtain ⟨l, rfl⟩ : ∃ l, slen = l + 1 := ⟨slen - 1, by omega⟩
            exact scanLen_succ_of_eq _ _ _ h0
          simp [findSub, this, subAt]
        · simp [findSub, hmle, subAt_self]
      simp [this]
    · simp only [hc, h3, if_false]
      have hs0 : st.data src ≠ 0 := fun hh => hc (Or.inl hh)
      exact strstrOuter_eq hall src slen (n+1) dest hspos hs0
  by_cases hgt : slen > dmax
  · simp only [hgt, if_true, exec_bind, strlenP_eq hall, Nat.zero_add, exec_pure]
    by_cases hearly : scanLen st.data src scanFuel > dmax ∨ scanLen st.data src scanFuel > scanLen st.data dest scanFuel
    · simp only [hearly, decide_true, if_true, exec_pure]
      have : findSub id st.data src (scanLen st.data src slen) dest dmax = none := by
        rcases hearly with he | he
        · exact findSub_short _ _ _ _ _ _ (by omega)
        · by_cases he' : scanLen st.data src scanFuel > dmax
          · exact findSub_short _ _ _ _ _ _ (by omega)
          · exact findSub_short_haystack _ _ _ _ _ hcells (by omega)
      simp [this]
    · simp only [hearly, decide_false, Bool.false_eq_true, if_false]
      exact cont (by omega)
  · simp only [hgt, if_false, exec_pure, Bool.false_eq_true]
    exact cont (by have := scanLen_le st.data src slen; omega)

/-- what `findSub` means -/
theorem findSub_spec (f : Nat → Nat) (d : Nat → Nat) (q m p n : Nat) :
    (∀ i, findSub f d q m p n = some i →
      i + m ≤ n ∧ subAt f d (p+i) q m = true ∧ ∀ k, k < i → d (p+k) ≠ 0 ∧ subAt f d (p+k) q m = false) ∧
    (findSub f d q m p n = none →
      ∀ i, i + m ≤ n → i < n → (∀ k, k < i → d (p+k) ≠ 0) → subAt f d (p+i) q m = false) :=
  ⟨fun i => findSub_some f d q m p n i, findSub_none f d q m p n⟩

/-- what `subAt` means -/
theorem subAt_spec (f : Nat → Nat) (d : Nat → Nat) (p q m : Nat) :
    subAt f d p q m = true ↔ ∀ j, j < m → f (d (p+j)) = f (d (q+j)) := subAt_iff f d p q m

example : ∃ st : St, AllRd st ∧ findSub id st.data 200 (scanLen st.data 200 4) 100 4 = some 1 :=
  ⟨wMem fun a => if a = 100 then 97 else if a = 101 then 98 else if a = 102 then 99 else if a = 200 then 98 else
      if a = 201 then 99 else 0, wMem_all _, by decide⟩

/-! ## strcasestr_s

FULL statement (false of the code): *the same with characters compared after `toupper`, for all
`slen` up to the limit.*  The code turns `slen > dmax` into ESNOTFND through the handler. -/

/-- **strcasestr_s, partial** (`slen ≤ dmax`): the first occurrence ignoring case -/
theorem strcasestr_s_C10_partial (dest dmax src slen : Nat) (st : St) (hall : AllRd st)
    (hd : dest ≠ 0) (hs : src ≠ 0) (hpos : 0 < dmax) (hle : dmax ≤ RSIZE_MAX_STR)
    (hspos : 0 < slen) (hsle : slen ≤ dmax) :
    exec (strcasestr_s dest dmax src slen none none) st =
      .ok ((match findSub toUpperC st.data src (scanLen st.data src slen) dest dmax with
            | some i => (EOK, dest + i) | none => (ESNOTFND, 0)), st) := by
  unfold strcasestr_s qChkS
  have h1 : ¬ dmax = 0 := by omega
  have h2 : ¬ dmax > RSIZE_MAX_STR := by omega
  have h3 : ¬ slen = 0 := by omega
  have h4 : ¬ slen > dmax := by omega
  have h5 : ¬ (some src = some 0) := by simpa using hs
  simp only [hd, h1, h2, h3, h4, h5, if_false, exec_bind, exec_pure, Bool.false_eq_true, exec_load_all hall]
  obtain ⟨n, rfl⟩ : ∃ n, dmax = n + 1 := ⟨dmax - 1, by omega⟩
  have hmle : scanLen st.data src slen ≤ n + 1 := by have := scanLen_le st.data src slen; omega
  by_cases hc : st.data src = 0 ∨ dest = src
  · simp only [hc, if_true, exec_pure]
    have : findSub toUpperC st.data src (scanLen st.data src slen) dest (n+1) = some 0 := by
      rcases hc with h0 | rfl
      · have : scanLen st.data src slen = 0 := by
          obtain ⟨l, rfl⟩ : ∃ l, slen = l + 1 := ⟨slen - 1, by omega⟩
          exact scanLen_succ_of_eq _ _ _ h0
        simp [findSub, this, subAt]
      · simp [findSub, hmle, subAt_self]
    simp [this]
  · simp only [hc, if_false]
    have hs0 : st.data src ≠ 0 := fun hh => hc (Or.inl hh)
    exact strcasestrOuter_eq hall src slen (n+1) dest hspos hs0

/-- `dest = "ab"` (`dmax = 2`), `src = "B"` with `slen = 3`: the needle occurs at offset 1, the code
calls the handler and returns ESNOTFND.  Known finding `strcasestr-slen-gt-dmax`. -/
theorem strcasestr_s_slen_witness :
    let st := wMem fun a => if a = 100 then 97 else if a = 101 then 98 else if a = 200 then 66 else 0
    exec (strcasestr_s 100 2 200 3 none none) st =
      .ok ((ESNOTFND, 0), { st with events := st.events ++ [.handler .str ESNOTFND] }) ∧
    findSub toUpperC st.data 200 (scanLen st.data 200 3) 100 2 = some 1 := by
  intro st
  constructor
  · unfold strcasestr_s qChkS
    simp [exec_bind, handlerS, RSIZE_MAX_STR]
  · decide

example : ∃ st : St, AllRd st ∧ findSub toUpperC st.data 200 (scanLen st.data 200 2) 100 4 = some 1 :=
  ⟨wMem fun a => if a = 100 then 97 else if a = 101 then 98 else if a = 102 then 99 else if a = 200 then 66 else
      if a = 201 then 67 else 0, wMem_all _, by decide⟩

/-! ## wcsstr_s

FULL statement (false of the code): *as `strstr_s`, on wide elements.*  The shortcut
`*src == 0 || dest == src` answers "found at `dest`" before anything else: for `dest == src` also
when the needle (cut at `slen`) is LONGER than the `dmax` elements of the haystack. -/

/-- **wcsstr_s, partial** (`dest ≠ src`, or the needle fits into `dmax` elements) -/
theorem wcsstr_s_C10_partial (dest dmax src slen : Nat) (st : St) (hall : AllRd st)
    (hd : dest ≠ 0) (hs : src ≠ 0) (hpos : 0 < dmax) (hle : dmax ≤ RSIZE_MAX_WSTR)
    (hspos : 0 < slen) (hsle : slen ≤ RSIZE_MAX_WSTR)
    (hfit : dest ≠ src ∨ scanLen st.data src slen ≤ dmax) :
    exec (wcsstr_s dest dmax src slen none none) st =
      .ok ((match findSub id st.data src (scanLen st.data src slen) dest dmax with
            | some i => (EOK, dest + i) | none => (ESNOTFND, 0)), st) := by
  unfold wcsstr_s
  have h1 : ¬ dmax = 0 := by omega
  have h2 : ¬ dmax > RSIZE_MAX_WSTR := by omega
  have h3 : ¬ slen = 0 := by omega
  have h4 : ¬ slen > RSIZE_MAX_WSTR := by omega
  simp only [hd, hs, h1, h2, if_false, exec_bind, exec_load_all hall]
  obtain ⟨n, rfl⟩ : ∃ n, dmax = n + 1 := ⟨dmax - 1, by omega⟩
  by_cases hc : st.data src = 0 ∨ dest = src
  · simp only [hc, if_true, exec_pure]
    have : findSub id st.data src (scanLen st.data src slen) dest (n+1) = some 0 := by
      rcases hc with h0 | rfl
      · have : scanLen st.data src slen = 0 := by
          obtain ⟨l, rfl⟩ : ∃ l, slen = l + 1 := ⟨slen - 1, by omega⟩
          exact scanLen_succ_of_eq _ _ _ h0
        simp [findSub, this, subAt]
      · have hmle : scanLen st.data dest slen ≤ n + 1 := by
          rcases hfit with hh | hh
          · exact absurd rfl hh
          · exact hh
        simp [findSub, hmle, subAt_self]
    simp [this]
  · simp only [hc, h3, h4, if_false]
    have hs0 : st.data src ≠ 0 := fun hh => hc (Or.inl hh)
    exact wcsstrOuter_eq hall src slen (n+1) dest hspos hs0

/-- `dest == src == L"abc"`, `dmax = 2`, `slen = 3`: the needle `L"abc"` does not fit into the two
elements of the haystack, the code answers EOK / `dest`.  (Not among the known findings: a corner of
the `dest == src` shortcut.) -/
theorem wcsstr_s_same_witness :
    let st := wMem fun a => if a = 100 then 97 else if a = 101 then 98 else if a = 102 then 99 else 0
    exec (wcsstr_s 100 2 100 3 none none) st = .ok ((EOK, 100), st) ∧
    findSub id st.data 100 (scanLen st.data 100 3) 100 2 = none := by
  intro st
  constructor
  · have hall : AllRd st := wMem_all _
    unfold wcsstr_s
    simp [exec_bind, exec_load_all hall, RSIZE_MAX_WSTR]
  · decide

example : ∃ st : St, AllRd st ∧ (100 ≠ 200 ∨ scanLen st.data 200 4 ≤ 4) ∧
    findSub id st.data 200 (scanLen st.data 200 4) 100 4 = some 1 :=
  ⟨wMem fun a => if a = 100 then 97 else if a = 101 then 98 else if a = 102 then 99 else if a = 200 then 98 else
      if a = 201 then 99 else 0, wMem_all _, by decide, by decide⟩

/-! ## strpbrk_s

FULL statement (false of the code): *the first character of `dest` (before its terminator, at most
`dmax`) that occurs in the string `src` cut at `slen` characters; ESNOTFND if none.*  The inner loop
compares BEFORE it tests `len`, and running out of `len` ends the whole search. -/

/-- what `strpbrk_s` computes on ANY memory: the loops as pure functions -/
theorem strpbrk_s_eq (cfg : Cfg) (dest dmax src slen : Nat) (st : St) (hall : AllRd st)
    (hd : dest ≠ 0) (hs : src ≠ 0) (hpos : 0 < dmax) (hle : dmax ≤ RSIZE_MAX_STR)
    (hspos : 0 < slen) (hsle : slen ≤ RSIZE_MAX_STR) :
    exec (strpbrk_s cfg dest dmax src slen none none) st =
      .ok ((match pbrkOuterF st.data src slen dest dmax with
            | some i => (EOK, dest + i) | none => (ESNOTFND, 0)), st) := by
  unfold strpbrk_s qChkS
  have h1 : ¬ dmax = 0 := by omega
  have h2 : ¬ dmax > RSIZE_MAX_STR := by omega
  have h3 : ¬ slen = 0 := by omega
  have h4 : ¬ slen > RSIZE_MAX_STR := by omega
  have h5 : ¬ (some src = some 0) := by simpa using hs
  simp only [hd, h1, h2, h3, h4, h5, if_false, exec_bind, exec_pure]
  exact strpbrkOuter_code_eq hall _ _ _ _

/-- **strpbrk_s, partial** (the set string ends within `slen` characters or exactly at `src[slen]`):
the first character of `dest` that is in the set -/
theorem strpbrk_s_C10_partial (cfg : Cfg) (dest dmax src slen : Nat) (st : St) (hall : AllRd st)
    (hd : dest ≠ 0) (hs : src ≠ 0) (hpos : 0 < dmax) (hle : dmax ≤ RSIZE_MAX_STR)
    (hspos : 0 < slen) (hsle : slen ≤ RSIZE_MAX_STR)
    (hz : st.data (src + scanLen st.data src slen) = 0) :
    exec (strpbrk_s cfg dest dmax src slen none none) st =
      .ok ((match firstIn st.data src slen dest dmax with
            | some i => (EOK, dest + i) | none => (ESNOTFND, 0)), st) := by
  unfold strpbrk_s qChkS
  have h1 : ¬ dmax = 0 := by omega
  have h2 : ¬ dmax > RSIZE_MAX_STR := by omega
  have h3 : ¬ slen = 0 := by omega
  have h4 : ¬ slen > RSIZE_MAX_STR := by omega
  have h5 : ¬ (some src = some 0) := by simpa using hs
  simp only [hd, h1, h2, h3, h4, h5, if_false, exec_bind, exec_pure]
  exact strpbrkOuter_eq hall _ _ _ _ hz

/-- what `firstIn` means -/
theorem firstIn_spec (d : Nat → Nat) (src slen p n : Nat) :
    (∀ i, firstIn d src slen p n = some i →
      i < scanLen d p n ∧ inSet d (d (p+i)) src slen = true ∧ ∀ k, k < i → inSet d (d (p+k)) src slen = false) ∧
    (firstIn d src slen p n = none → ∀ k, k < scanLen d p n → inSet d (d (p+k)) src slen = false) :=
  ⟨fun i => firstIn_some d src slen p n i, firstIn_none d src slen p n⟩

/-- a character BEHIND `slen` matches: `dest = "b"`, `src = "ab"` with `slen = 1` (the set is `{a}`):
EOK, `dest`.  Known finding `strpbrk-slen` (found-but-absent). -/
theorem strpbrk_s_beyond_witness (cfg : Cfg) :
    let st := wMem fun a => if a = 100 then 98 else if a = 200 then 97 else if a = 201 then 98 else 0
    exec (strpbrk_s cfg 100 2 200 1 none none) st = .ok ((EOK, 100), st) ∧
    firstIn st.data 200 1 100 2 = none := by
  intro st
  constructor
  · rw [strpbrk_s_eq cfg _ _ _ _ _ (wMem_all _) (by decide) (by decide) (by decide) (by decide) (by decide) (by decide)]
    have : pbrkOuterF st.data 200 1 100 2 = some 0 := by decide
    rw [this]
  · decide

/-- exhausting `slen` ends the whole search: `dest = "ca"`, `src = "ab"` with `slen = 1`: `'a'` at
offset 1 is in the set, ESNOTFND is returned.  Known finding `strpbrk-slen` (absent-but-present). -/
theorem strpbrk_s_gaveup_witness (cfg : Cfg) :
    let st := wMem fun a => if a = 100 then 99 else if a = 101 then 97 else if a = 200 then 97 else if a = 201 then 98 else 0
    exec (strpbrk_s cfg 100 3 200 1 none none) st = .ok ((ESNOTFND, 0), st) ∧
    firstIn st.data 200 1 100 3 = some 1 := by
  intro st
  constructor
  · rw [strpbrk_s_eq cfg _ _ _ _ _ (wMem_all _) (by decide) (by decide) (by decide) (by decide) (by decide) (by decide)]
    have : pbrkOuterF st.data 200 1 100 3 = none := by decide
    rw [this]
  · decide

example : ∃ st : St, AllRd st ∧ st.data (200 + scanLen st.data 200 2) = 0 ∧ firstIn st.data 200 2 100 4 = some 1 :=
  ⟨wMem fun a => if a = 100 then 99 else if a = 101 then 98 else if a = 200 then 97 else if a = 201 then 98 else 0,
   wMem_all _, by decide, by decide⟩

end SafeC.Props.C10

import SafeC.Proofs.SWHolds
import SafeC.Proofs.SWMemEntry
/-!
# C01 (extension) — the memory family: `memcpy_s memmove_s memccpy_s mem{cpy,move}{16,32}_s wmem{cpy,move}_s`

Setting and conclusion of `Props/C01.lean`; ALL arguments, including the invalid ones (NULL, zero, over the limit,
`slen > dmax`, overlapping, element counts whose byte size wraps).  Memory is addressed in cells of the function's
element width; a byte size `E` covers `⌈E / w⌉` cells.

* `wmemcpy_s`, `wmemmove_s`, `memccpy_s`: full, whatever the object-size knowledge.
* `memcpy_s`, `memmove_s`: full with the object size unknown; with a KNOWN object size the `RSIZE_MAX_MEM` test is skipped,
  and the proof needs `dmax < 2^32` (`mem_prim_move` takes a `uint32_t` length: a multiple of 2^32 arrives as 0 and the
  `do … while (--tsp)` prologue then runs 2^64 times on unaligned pointers) — `_bos_partial`.
* `mem{cpy,move}{16,32}_s`: full with the object size unknown; a known object size REPLACES `dmax`
  (`mem16-32-bos-widens-dmax`): `_bos_partial` with the extent the code uses, `_witness` for the declared one.
-/
namespace SafeC.Props.C01
open SafeC Gen Mem

/-- **memcpy_s**, dest object size unknown: all arguments, all placements -/
theorem memcpy_s_C01 (dest dmax src slen : Nat) (sb : Bos) (st : St) (hs : Setting st)
    (hrw : dest ≠ 0 → RW st dest dmax) :
    ∃ code st', exec (memcpy_s dest dmax src slen none sb) st = .ok (code, st') ∧ Holds st st' :=
  holds_of_SW dest dmax st hs hrw (fun _ _ h => SW_memcpy_s dest dmax src slen none sb trivial h)

/-- **memmove_s**, dest object size unknown -/
theorem memmove_s_C01 (dest dmax src slen : Nat) (sb : Bos) (st : St) (hs : Setting st)
    (hrw : dest ≠ 0 → RW st dest dmax) :
    ∃ code st', exec (memmove_s dest dmax src slen none sb) st = .ok (code, st') ∧ Holds st st' :=
  holds_of_SW dest dmax st hs hrw (fun _ _ h => SW_memmove_s dest dmax src slen none sb trivial h)

/- FULL statement for a known dest object size: without `hb`.  Not proved and believed false of the model for
`slen = dmax = k * 2^32` with unaligned operands (see the header); no kernel-decidable witness (2^64 loop passes). -/

/-- **memcpy_s, dest object size known** (any value): all arguments with `dmax < 2^32` -/
theorem memcpy_s_C01_bos_partial (dest dmax src slen : Nat) (db sb : Bos) (st : St) (hs : Setting st)
    (hb : bosSmall dmax db) (hrw : dest ≠ 0 → RW st dest dmax) :
    ∃ code st', exec (memcpy_s dest dmax src slen db sb) st = .ok (code, st') ∧ Holds st st' :=
  holds_of_SW dest dmax st hs hrw (fun _ _ h => SW_memcpy_s dest dmax src slen db sb hb h)

/-- **memmove_s, dest object size known** -/
theorem memmove_s_C01_bos_partial (dest dmax src slen : Nat) (db sb : Bos) (st : St) (hs : Setting st)
    (hb : bosSmall dmax db) (hrw : dest ≠ 0 → RW st dest dmax) :
    ∃ code st', exec (memmove_s dest dmax src slen db sb) st = .ok (code, st') ∧ Holds st st' :=
  holds_of_SW dest dmax st hs hrw (fun _ _ h => SW_memmove_s dest dmax src slen db sb hb h)

/-- **memccpy_s**: all arguments, any stop character, both slack configurations, any object-size knowledge -/
theorem memccpy_s_C01 (cfg : Cfg) (dest dmax src c n : Nat) (db sb : Bos) (st : St) (hs : Setting st)
    (hrw : dest ≠ 0 → RW st dest dmax) :
    ∃ code st', exec (memccpy_s cfg dest dmax src c n db sb) st = .ok (code, st') ∧ Holds st st' :=
  holds_of_SW dest dmax st hs hrw (fun _ _ h => SW_memccpy_s cfg dest dmax src c n db sb h)

/-- **wmemcpy_s** (`dlen`, `count` in `wchar_t` elements): all arguments, any object-size knowledge — also element
counts `≥ 2^62` whose byte size wraps (`mem-size-multiplication-wraps`: the primitives truncate the same way) -/
theorem wmemcpy_s_C01 (dest dlen src count : Nat) (db sb : Bos) (st : St) (hs : Setting st)
    (hrw : dest ≠ 0 → RW st dest dlen) :
    ∃ code st', exec (wmemcpy_s dest dlen src count db sb) st = .ok (code, st') ∧ Holds st st' :=
  holds_of_SW dest dlen st hs hrw (fun _ _ h => SW_wmemcpy_s dest dlen src count db sb h)

/-- **wmemmove_s** -/
theorem wmemmove_s_C01 (dest dlen src count : Nat) (db sb : Bos) (st : St) (hs : Setting st)
    (hrw : dest ≠ 0 → RW st dest dlen) :
    ∃ code st', exec (wmemmove_s dest dlen src count db sb) st = .ok (code, st') ∧ Holds st st' :=
  holds_of_SW dest dlen st hs hrw (fun _ _ h => SW_wmemmove_s dest dlen src count db sb h)

/-! ## the 16/32-bit copies: `dmax` in BYTES, cells of 2 / 4 bytes -/

/-- **memcpy16_s**, dest object size unknown: all arguments; the `dmax` bytes are `⌈dmax/2⌉` cells -/
theorem memcpy16_s_C01 (dest dmax src slen : Nat) (sb : Bos) (st : St) (hs : Setting st)
    (hrw : dest ≠ 0 → RW st dest ((dmax + 1) / 2)) :
    ∃ code st', exec (memcpy16_s dest dmax src slen none sb) st = .ok (code, st') ∧ Holds st st' :=
  holds_of_SW dest ((dmax + 1) / 2) st hs hrw
    (fun _ _ h => SW_memcpy16_s dest dmax src slen none sb (by simp only [Option.getD]; omega))

theorem memmove16_s_C01 (dest dmax src slen : Nat) (sb : Bos) (st : St) (hs : Setting st)
    (hrw : dest ≠ 0 → RW st dest ((dmax + 1) / 2)) :
    ∃ code st', exec (memmove16_s dest dmax src slen none sb) st = .ok (code, st') ∧ Holds st st' :=
  holds_of_SW dest ((dmax + 1) / 2) st hs hrw
    (fun _ _ h => SW_memmove16_s dest dmax src slen none sb (by simp only [Option.getD]; omega))

theorem memcpy32_s_C01 (dest dmax src slen : Nat) (sb : Bos) (st : St) (hs : Setting st)
    (hrw : dest ≠ 0 → RW st dest ((dmax + 3) / 4)) :
    ∃ code st', exec (memcpy32_s dest dmax src slen none sb) st = .ok (code, st') ∧ Holds st st' :=
  holds_of_SW dest ((dmax + 3) / 4) st hs hrw
    (fun _ _ h => SW_memcpy32_s dest dmax src slen none sb (by simp only [Option.getD]; omega))

theorem memmove32_s_C01 (dest dmax src slen : Nat) (sb : Bos) (st : St) (hs : Setting st)
    (hrw : dest ≠ 0 → RW st dest ((dmax + 3) / 4)) :
    ∃ code st', exec (memmove32_s dest dmax src slen none sb) st = .ok (code, st') ∧ Holds st st' :=
  holds_of_SW dest ((dmax + 3) / 4) st hs hrw
    (fun _ _ h => SW_memmove32_s dest dmax src slen none sb (by simp only [Option.getD]; omega))

/- FULL statement for a known dest object size (false of the model, `mem16-32-bos-widens-dmax`): with
`RW st dest ((dmax + 1) / 2)`.  The code does `dmax = destbos;`. -/

/-- **memcpy16_s, dest object size known**: every store lands inside the OBJECT (`destbos` bytes), not inside `dmax` -/
theorem memcpy16_s_C01_bos_partial (dest dmax src slen bos : Nat) (sb : Bos) (st : St) (hs : Setting st)
    (hrw : dest ≠ 0 → RW st dest ((bos + 1) / 2)) :
    ∃ code st', exec (memcpy16_s dest dmax src slen (some bos) sb) st = .ok (code, st') ∧ Holds st st' :=
  holds_of_SW dest ((bos + 1) / 2) st hs hrw
    (fun _ _ h => SW_memcpy16_s dest dmax src slen (some bos) sb (by simp only [Option.getD]; omega))

theorem memmove16_s_C01_bos_partial (dest dmax src slen bos : Nat) (sb : Bos) (st : St) (hs : Setting st)
    (hrw : dest ≠ 0 → RW st dest ((bos + 1) / 2)) :
    ∃ code st', exec (memmove16_s dest dmax src slen (some bos) sb) st = .ok (code, st') ∧ Holds st st' :=
  holds_of_SW dest ((bos + 1) / 2) st hs hrw
    (fun _ _ h => SW_memmove16_s dest dmax src slen (some bos) sb (by simp only [Option.getD]; omega))

theorem memcpy32_s_C01_bos_partial (dest dmax src slen bos : Nat) (sb : Bos) (st : St) (hs : Setting st)
    (hrw : dest ≠ 0 → RW st dest ((bos + 3) / 4)) :
    ∃ code st', exec (memcpy32_s dest dmax src slen (some bos) sb) st = .ok (code, st') ∧ Holds st st' :=
  holds_of_SW dest ((bos + 3) / 4) st hs hrw
    (fun _ _ h => SW_memcpy32_s dest dmax src slen (some bos) sb (by simp only [Option.getD]; omega))

theorem memmove32_s_C01_bos_partial (dest dmax src slen bos : Nat) (sb : Bos) (st : St) (hs : Setting st)
    (hrw : dest ≠ 0 → RW st dest ((bos + 3) / 4)) :
    ∃ code st', exec (memmove32_s dest dmax src slen (some bos) sb) st = .ok (code, st') ∧ Holds st st' :=
  holds_of_SW dest ((bos + 3) / 4) st hs hrw
    (fun _ _ h => SW_memmove32_s dest dmax src slen (some bos) sb (by simp only [Option.getD]; omega))

/-- dest = 100: 4 cells (8 bytes) declared inside an 8-cell (16-byte) object; source at 200 -/
def memSt : St :=
  { data := fun a => a % 251, mapped := fun _ => true, rd := fun _ => true
    wr := fun a => decide (100 ≤ a ∧ a < 104) }

/-- the excluded point: `memcpy16_s(d, 8 bytes, s, 5)` with destbos 16: EOK-path copy of 5 elements, `d[4]` written -/
theorem memcpy16_s_C01_bos_witness :
    strayWrites (exec (memcpy16_s 100 8 200 5 (some 16) none) memSt) = some [.wr 104] := by decide

theorem memmove16_s_C01_bos_witness :
    strayWrites (exec (memmove16_s 100 8 200 5 (some 16) none) memSt) = some [.wr 104] := by decide

/-- `memcpy32_s(d, 16 bytes, s, 5)` with destbos 32 -/
theorem memcpy32_s_C01_bos_witness :
    strayWrites (exec (memcpy32_s 100 16 200 5 (some 32) none) memSt) = some [.wr 104] := by decide

theorem memmove32_s_C01_bos_witness :
    strayWrites (exec (memmove32_s 100 16 200 5 (some 32) none) memSt) = some [.wr 104] := by decide

example : Setting memSt ∧ RW memSt 100 ((8 + 1) / 2) ∧ bosSmall 8 (some 16) :=
  ⟨⟨fun _ => ⟨rfl, rfl⟩, rfl⟩, fun i hi => ⟨rfl, by simp [memSt]; omega, rfl⟩, (by decide : (8 : Nat) < 4294967296)⟩

end SafeC.Props.C01

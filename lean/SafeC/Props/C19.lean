import SafeC.Models.Copy
/-! Property theorems for C19 (see DESIGN.md §4). -/
namespace SafeC.Props.C19
end SafeC.Props.C19

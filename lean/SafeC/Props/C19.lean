import SafeC.Models.Timing
/-!
# C19: functional correctness and data independence of `timingsafe_bcmp` / `timingsafe_memcmp`

* `bcmp_C19`, `memcmp_C19`: the value returned (total interpreter `runT`);
* `bcmp_ct`, `memcmp_ct`: the trace (addresses accessed, branch decisions) is the same for any
  two memory contents;
* `bcmp_trace`, `memcmp_trace`: the trace in closed form.
-/
namespace SafeC.Props.C19
open SafeC Gen

/-! ## specification -/

/-- sign of the first differing byte pair compared as unsigned chars; 0 if none among the first n -/
def memcmpSpec (st : St) : Nat → Nat → Nat → Int
  | 0, _, _ => 0
  | n+1, p1, p2 =>
    if st.data p1 < st.data p2 then -1
    else if st.data p1 > st.data p2 then 1
    else memcmpSpec st n (p1+1) (p2+1)

/-- the trace is exactly: the entry-check decisions, then per cell `br true, rd (p1+i), rd (p2+i)`, then `br false`
(object sizes unknown, n within the limit) -/
def loopTrace : Nat → Nat → Nat → List TItem
  | 0, _, _ => [.br false]
  | n+1, p1, p2 => .br true :: .rd p1 :: .rd p2 :: loopTrace n (p1+1) (p2+1)

/-! ## `runT` / `trace` laws -/

theorem runT_bind (p : Prog α) (f : α → Prog β) (s : St) :
    runT (p >>= f) s = runT (f (runT p s).1) (runT p s).2 := by
  show runT (p.bind f) s = _
  induction p generalizing s with
  | ret x => rfl
  | load a k ih => simp only [Prog.bind, runT]; exact ih _ _
  | store a v k ih => simp only [Prog.bind, runT]; exact ih _
  | emit e k ih => simp only [Prog.bind, runT]; exact ih _

/-- the value returned, the final memory and the trace depend on the memory contents only
(not on the recorded events / strays) -/
theorem data_congr (p : Prog α) (s s' : St) (h : s.data = s'.data) :
    (runT p s).1 = (runT p s').1 ∧ (runT p s).2.data = (runT p s').2.data ∧
      trace p s = trace p s' := by
  induction p generalizing s s' with
  | ret x => exact ⟨rfl, h, rfl⟩
  | load a k ih =>
    simp only [runT, trace, h]
    obtain ⟨h1, h2, h3⟩ := ih (s'.data a) s s' h
    exact ⟨h1, h2, by rw [h3]⟩
  | store a v k ih =>
    have hu : (s.upd a v).data = (s'.upd a v).data := by simp only [St.upd, h]
    simp only [runT, trace]
    obtain ⟨h1, h2, h3⟩ := ih (s.upd a v) (s'.upd a v) hu
    exact ⟨h1, h2, by rw [h3]⟩
  | emit e k ih =>
    cases e with
    | branch b =>
      simp only [runT, trace]
      obtain ⟨h1, h2, h3⟩ := ih { s with events := s.events ++ [.branch b] }
        { s' with events := s'.events ++ [.branch b] } h
      exact ⟨h1, h2, by rw [ih s s' h |>.2.2]⟩
    | handler kd c =>
      simp only [runT, trace]
      obtain ⟨h1, h2, h3⟩ := ih { s with events := s.events ++ [.handler kd c] }
        { s' with events := s'.events ++ [.handler kd c] } h
      exact ⟨h1, h2, by rw [ih s s' h |>.2.2]⟩

theorem trace_bind (p : Prog α) (f : α → Prog β) (s : St) :
    trace (p >>= f) s = trace p s ++ trace (f (runT p s).1) (runT p s).2 := by
  show trace (p.bind f) s = _
  induction p generalizing s with
  | ret x => rfl
  | load a k ih => simp only [Prog.bind, runT, trace, List.cons_append]; rw [ih]
  | store a v k ih => simp only [Prog.bind, runT, trace, List.cons_append]; rw [ih]
  | emit e k ih =>
    have key : ∀ s' : St, s.data = s'.data →
        trace (f (runT k s).1) (runT k s).2 = trace (f (runT k s').1) (runT k s').2 := by
      intro s' h
      obtain ⟨h1, h2, _⟩ := data_congr k s s' h
      rw [h1]
      exact (data_congr (f _) _ _ h2).2.2
    cases e with
    | branch b =>
      simp only [Prog.bind, runT, trace, List.cons_append]
      rw [ih, key { s with events := s.events ++ [.branch b] } rfl]
    | handler kd c =>
      simp only [Prog.bind, runT, trace, List.cons_append]
      rw [ih, key { s with events := s.events ++ [.handler kd c] } rfl]

/-- the only thing `emit` changes -/
def St.ev (s : St) (e : Event) : St := { s with events := s.events ++ [e] }

@[simp] theorem St.ev_data (s : St) (e : Event) : (St.ev s e).data = s.data := rfl

@[simp] theorem runT_pure (x : α) (s : St) : runT (pure x : Prog α) s = (x, s) := rfl
@[simp] theorem trace_pure (x : α) (s : St) : trace (pure x : Prog α) s = [] := rfl
@[simp] theorem runT_load (a : Nat) (s : St) : runT (load a) s = (s.data a, s) := rfl
@[simp] theorem trace_load (a : Nat) (s : St) : trace (load a) s = [.rd a] := rfl
@[simp] theorem runT_br (b : Bool) (s : St) : runT (br b) s = ((), St.ev s (.branch b)) := rfl
@[simp] theorem trace_br (b : Bool) (s : St) : trace (br b) s = [.br b] := rfl
@[simp] theorem runT_handlerM (c : Nat) (s : St) :
    runT (handlerM c) s = ((), St.ev s (.handler .mem c)) := rfl
@[simp] theorem trace_handlerM (c : Nat) (s : St) : trace (handlerM c) s = [.hd .mem c] := rfl

/-! ## the entry checks -/

theorem checks_run (st : St) (n : Nat) (hn : n ≤ RSIZE_MAX_MEM) :
    runT (tsChecks n none none) st = (none, St.ev st (.branch false)) := by
  have h : decide (n > RSIZE_MAX_MEM) = false := by simp; omega
  simp only [tsChecks, h]
  simp [runT_bind]

theorem checks_trace (st : St) (n : Nat) (hn : n ≤ RSIZE_MAX_MEM) :
    trace (tsChecks n none none) st = [.br false] := by
  have h : decide (n > RSIZE_MAX_MEM) = false := by simp; omega
  simp only [tsChecks, h]
  simp [trace_bind]

/-- the outcome and the trace of the checks depend on `n` and the object sizes only -/
theorem checks_indep (st₁ st₂ : St) (n : Nat) (db sb : Bos) :
    (runT (tsChecks n db sb) st₁).1 = (runT (tsChecks n db sb) st₂).1 ∧
    trace (tsChecks n db sb) st₁ = trace (tsChecks n db sb) st₂ := by
  unfold tsChecks
  cases db <;> cases sb <;> simp only [] <;> split <;> (try split) <;>
    simp [runT_bind, trace_bind, *]

/-! ## `timingsafe_bcmp` -/

theorem bcmpLoop_succ (n p1 p2 ret : Nat) :
    bcmpLoop (n+1) p1 p2 ret =
      (br true >>= fun _ => load p1 >>= fun a => load p2 >>= fun b =>
        bcmpLoop n (p1+1) (p2+1) (ret ||| (a ^^^ b))) := rfl

theorem bcmpLoop_zero (p1 p2 ret : Nat) :
    bcmpLoop 0 p1 p2 ret = (br false >>= fun _ => pure ret) := rfl

theorem xor_eq_zero {a b : Nat} : a ^^^ b = 0 ↔ a = b := by
  constructor
  · intro h
    have h2 : a ^^^ (a ^^^ b) = a ^^^ 0 := by rw [h]
    rw [← Nat.xor_assoc, Nat.xor_self, Nat.zero_xor, Nat.xor_zero] at h2
    exact h2.symm
  · rintro rfl; exact Nat.xor_self a

theorem bcmpLoop_val (st : St) (n p1 p2 ret : Nat) :
    (runT (bcmpLoop n p1 p2 ret) st).1 = 0 ↔
      ret = 0 ∧ ∀ i, i < n → st.data (p1+i) = st.data (p2+i) := by
  induction n generalizing st p1 p2 ret with
  | zero => simp [bcmpLoop_zero, runT_bind]
  | succ n ih =>
    simp only [bcmpLoop_succ, runT_bind, runT_br, runT_load]
    rw [ih]
    simp only [St.ev_data, Nat.or_eq_zero_iff, xor_eq_zero]
    constructor
    · rintro ⟨⟨h0, h1⟩, h2⟩
      refine ⟨h0, ?_⟩
      intro i hi
      cases i with
      | zero => simpa using h1
      | succ j =>
        have := h2 j (by omega)
        simpa [Nat.add_assoc, Nat.add_comm 1 j] using this
    · rintro ⟨h0, h2⟩
      refine ⟨⟨h0, by simpa using h2 0 (by omega)⟩, ?_⟩
      intro i hi
      have := h2 (i+1) (by omega)
      simpa [Nat.add_assoc, Nat.add_comm 1 i] using this

theorem bcmpLoop_trace (st : St) (n p1 p2 ret : Nat) :
    trace (bcmpLoop n p1 p2 ret) st = loopTrace n p1 p2 := by
  induction n generalizing st p1 p2 ret with
  | zero => simp [bcmpLoop_zero, trace_bind, loopTrace]
  | succ n ih =>
    simp only [bcmpLoop_succ, trace_bind, runT_br, runT_load, trace_br, trace_load]
    rw [ih]
    simp [loopTrace]

theorem bcmp_unfold (p1 p2 n : Nat) (db sb : Bos) :
    timingsafe_bcmp p1 p2 n db sb =
      (tsChecks n db sb >>= fun r => match r with
        | some r => pure r
        | none => bcmpLoop n p1 p2 0 >>= fun ret => pure (if ret ≠ 0 then 1 else 0)) := rfl

/-- timingsafe_bcmp returns 0 exactly when the two n-cell regions are equal, and 1 otherwise -/
theorem bcmp_C19 (st : St) (p1 p2 n : Nat) (hn : n ≤ RSIZE_MAX_MEM) :
    ((runT (timingsafe_bcmp p1 p2 n none none) st).1 = 0 ↔ ∀ i, i < n → st.data (p1+i) = st.data (p2+i)) ∧
    ((runT (timingsafe_bcmp p1 p2 n none none) st).1 = 0 ∨ (runT (timingsafe_bcmp p1 p2 n none none) st).1 = 1) := by
  have hv := bcmpLoop_val (St.ev st (.branch false)) n p1 p2 0
  simp only [St.ev_data, true_and] at hv
  rw [bcmp_unfold, runT_bind, checks_run st n hn]
  simp only [runT_bind, runT_pure]
  by_cases h : (runT (bcmpLoop n p1 p2 0) (St.ev st (.branch false))).1 = 0
  · simp only [h, ne_eq, not_true_eq_false, if_false, true_iff, true_or, and_true]
    exact hv.mp h
  · simp only [h, ne_eq, not_false_eq_true, if_true]
    exact ⟨⟨fun h1 => absurd h1 (by decide), fun h2 => absurd (hv.mpr h2) h⟩, Or.inr trivial⟩

/-! ## `timingsafe_memcmp` -/

theorem memcmpLoop_succ (n p1 p2 : Nat) (res done : Int32) :
    memcmpLoop (n+1) p1 p2 res done =
      (br true >>= fun _ => load p1 >>= fun a => load p2 >>= fun b =>
        memcmpLoop n (p1+1) (p2+1) (memcmpStep a b res done).1 (memcmpStep a b res done).2) := rfl

theorem memcmpLoop_zero (p1 p2 : Nat) (res done : Int32) :
    memcmpLoop 0 p1 p2 res done = (br false >>= fun _ => pure res) := rfl

theorem k_fin : ∀ k : Fin 256,
    (Int32.ofNat k.val) >>> 8 = 0 ∧ (k.val ≠ 0 → (-Int32.ofNat k.val) >>> 8 = -1) := by
  decide +kernel

/-- `(a - b) >> CHAR_BIT` on `int` for `unsigned char` operands is the mask of `a < b` -/
theorem lt_mask (a b : Nat) (ha : a < 256) (hb : b < 256) :
    (Int32.ofNat a - Int32.ofNat b) >>> 8 = if a < b then -1 else 0 := by
  by_cases h : a < b
  · rw [if_pos h, ← Int32.neg_sub, ← Int32.ofNat_sub b a (by omega)]
    exact (k_fin ⟨b - a, by omega⟩).2 (by show b - a ≠ 0; omega)
  · rw [if_neg h, ← Int32.ofNat_sub a b (by omega)]
    exact (k_fin ⟨a - b, by omega⟩).1

theorem step_bytes (a b : Nat) (ha : a < 256) (hb : b < 256) :
    memcmpStep a b 0 0 =
      if a < b then (-1, -1) else if a > b then (1, -1) else (0, 0) := by
  unfold memcmpStep
  simp only [lt_mask a b ha hb, lt_mask b a hb ha]
  by_cases h1 : a < b
  · have h2 : ¬ b < a := by omega
    simp only [h1, h2, if_true, if_false]; decide
  · by_cases h2 : b < a
    · simp only [h1, h2, if_true, if_false]; decide
    · simp only [h1, h2, if_false]; decide

/-- once `done` is all ones, `res` is frozen -/
theorem step_done (a b : Nat) (res : Int32) : memcmpStep a b res (-1) = (res, -1) := by
  unfold memcmpStep
  simp only [Int32.not_neg_one, Int32.and_zero, Int32.or_zero, Int32.neg_one_or]

theorem memcmpLoop_done (st : St) (n p1 p2 : Nat) (res : Int32) :
    (runT (memcmpLoop n p1 p2 res (-1)) st).1 = res := by
  induction n generalizing st p1 p2 with
  | zero => simp [memcmpLoop_zero, runT_bind]
  | succ n ih =>
    simp only [memcmpLoop_succ, runT_bind, runT_br, runT_load, step_done]
    exact ih _ _ _

theorem memcmpSpec_congr (st st' : St) (h : st'.data = st.data) (n p1 p2 : Nat) :
    memcmpSpec st' n p1 p2 = memcmpSpec st n p1 p2 := by
  induction n generalizing p1 p2 with
  | zero => rfl
  | succ n ih => simp only [memcmpSpec, h, ih]

theorem memcmpLoop_val (st : St) (n p1 p2 : Nat)
    (hb : ∀ i, i < n → st.data (p1+i) < 256 ∧ st.data (p2+i) < 256) :
    (runT (memcmpLoop n p1 p2 0 0) st).1.toInt = memcmpSpec st n p1 p2 := by
  induction n generalizing st p1 p2 with
  | zero => simp [memcmpLoop_zero, runT_bind, memcmpSpec]
  | succ n ih =>
    have h0 := hb 0 (by omega)
    simp only [Nat.add_zero] at h0
    simp only [memcmpLoop_succ, runT_bind, runT_br, runT_load, St.ev_data, memcmpSpec]
    rw [step_bytes _ _ h0.1 h0.2]
    by_cases h1 : st.data p1 < st.data p2
    · simp only [h1, if_true, memcmpLoop_done]; decide
    · by_cases h2 : st.data p1 > st.data p2
      · simp only [h1, h2, if_true, if_false, memcmpLoop_done]; decide
      · simp only [h1, h2, if_false]
        rw [ih]
        · exact memcmpSpec_congr st (St.ev st _) rfl _ _ _
        · intro i hi
          have := hb (i+1) (by omega)
          simpa [Nat.add_assoc, Nat.add_comm 1 i] using this

theorem memcmpLoop_trace (st : St) (n p1 p2 : Nat) (res done : Int32) :
    trace (memcmpLoop n p1 p2 res done) st = loopTrace n p1 p2 := by
  induction n generalizing st p1 p2 res done with
  | zero => simp [memcmpLoop_zero, trace_bind, loopTrace]
  | succ n ih =>
    simp only [memcmpLoop_succ, trace_bind, runT_br, runT_load, trace_br, trace_load]
    rw [ih]
    simp [loopTrace]

theorem memcmp_unfold (p1 p2 n : Nat) (db sb : Bos) :
    timingsafe_memcmp p1 p2 n db sb =
      (tsChecks n db sb >>= fun r => match r with
        | some r => pure r
        | none => memcmpLoop n p1 p2 0 0 >>= fun r => pure r.toInt) := rfl

/-- timingsafe_memcmp returns the sign of the first differing pair (cells are bytes) -/
theorem memcmp_C19 (st : St) (p1 p2 n : Nat) (hn : n ≤ RSIZE_MAX_MEM)
    (hb : ∀ i, i < n → st.data (p1+i) < 256 ∧ st.data (p2+i) < 256) :
    (runT (timingsafe_memcmp p1 p2 n none none) st).1 = memcmpSpec st n p1 p2 := by
  rw [memcmp_unfold, runT_bind, checks_run st n hn]
  simp only [runT_bind, runT_pure]
  rw [memcmpLoop_val _ n p1 p2 (by simpa using hb)]
  exact memcmpSpec_congr st (St.ev st _) rfl _ _ _

/-! ## data independence -/

/-- data independence: for given pointers, length and (public) object sizes, the sequence of
addresses accessed and branch decisions taken is the same for ANY two memory contents -/
theorem bcmp_ct (st₁ st₂ : St) (p1 p2 n : Nat) (db sb : Bos) :
    trace (timingsafe_bcmp p1 p2 n db sb) st₁ = trace (timingsafe_bcmp p1 p2 n db sb) st₂ := by
  obtain ⟨hv, ht⟩ := checks_indep st₁ st₂ n db sb
  rw [bcmp_unfold, trace_bind, trace_bind, ht, hv]
  congr 1
  cases (runT (tsChecks n db sb) st₂).1 with
  | some r => rfl
  | none => simp only [trace_bind, bcmpLoop_trace, trace_pure]

theorem memcmp_ct (st₁ st₂ : St) (p1 p2 n : Nat) (db sb : Bos) :
    trace (timingsafe_memcmp p1 p2 n db sb) st₁ = trace (timingsafe_memcmp p1 p2 n db sb) st₂ := by
  obtain ⟨hv, ht⟩ := checks_indep st₁ st₂ n db sb
  rw [memcmp_unfold, trace_bind, trace_bind, ht, hv]
  congr 1
  cases (runT (tsChecks n db sb) st₂).1 with
  | some r => rfl
  | none => simp only [trace_bind, memcmpLoop_trace, trace_pure]

theorem bcmp_trace (st : St) (p1 p2 n : Nat) (hn : n ≤ RSIZE_MAX_MEM) :
    trace (timingsafe_bcmp p1 p2 n none none) st = .br false :: loopTrace n p1 p2 := by
  rw [bcmp_unfold, trace_bind, checks_trace st n hn, checks_run st n hn]
  simp only [trace_bind, bcmpLoop_trace, trace_pure, List.append_nil, List.cons_append,
    List.nil_append]

theorem memcmp_trace (st : St) (p1 p2 n : Nat) (hn : n ≤ RSIZE_MAX_MEM) :
    trace (timingsafe_memcmp p1 p2 n none none) st = .br false :: loopTrace n p1 p2 := by
  rw [memcmp_unfold, trace_bind, checks_trace st n hn, checks_run st n hn]
  simp only [trace_bind, memcmpLoop_trace, trace_pure, List.append_nil, List.cons_append,
    List.nil_append]

end SafeC.Props.C19

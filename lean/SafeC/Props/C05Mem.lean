import SafeC.Proofs.EVMem
/-!
# C05 for the memory family, through the `EV` event judgement

For ALL arguments (null, zero, huge, wrapped element counts, object sizes known or not, any overlap)
and ALL memory contents: a call of `memcpy_s memmove_s memset_s memzero_s memzero16_s memzero32_s
memset16_s memset32_s memcpy16_s memcpy32_s memmove16_s memmove32_s wmemcpy_s wmemmove_s` that
returns has appended either nothing and returned EOK, or exactly one MEM-handler event carrying the
code it returned.  `memccpy_s` is the exception the code makes: its not-enough-space exit reports
through the STR handler (`handle_error`), a known finding; for it the statement is proved with the
handler kind left open (`OnceAny`), and the witness shows the str-kind report.
-/
namespace SafeC.Props.C05Mem
open SafeC Gen Mem SafeC.Props.C05Ev

/-! ## the entry points -/

theorem memcpy_s_ev (dest dmax src slen : Nat) (db sb : Bos) : EV (memcpy_s dest dmax src slen db sb) (Once .mem) := by
  unfold memcpy_s; once
theorem memmove_s_ev (dest dmax src slen : Nat) (db sb : Bos) : EV (memmove_s dest dmax src slen db sb) (Once .mem) := by
  unfold memmove_s; once
theorem memset_s_ev (dest dmax value n : Nat) (db : Bos) : EV (memset_s dest dmax value n db) (Once .mem) := by
  unfold memset_s; once
theorem memzero_s_ev (dest len : Nat) (db : Bos) : EV (memzero_s dest len db) (Once .mem) := by
  unfold memzero_s; once
theorem memzero16_s_ev (dest len : Nat) (db : Bos) : EV (memzero16_s dest len db) (Once .mem) := by
  unfold memzero16_s; once
theorem memzero32_s_ev (dest len : Nat) (db : Bos) : EV (memzero32_s dest len db) (Once .mem) := by
  unfold memzero32_s; once
theorem memset16_s_ev (dest dmax value n : Nat) (db : Bos) : EV (memset16_s dest dmax value n db) (Once .mem) := by
  unfold memset16_s; once
theorem memset32_s_ev (dest dmax value n : Nat) (db : Bos) : EV (memset32_s dest dmax value n db) (Once .mem) := by
  unfold memset32_s; once
theorem memcpy16_s_ev (dest dmax src slen : Nat) (db sb : Bos) : EV (memcpy16_s dest dmax src slen db sb) (Once .mem) := by
  unfold memcpy16_s; once
theorem memcpy32_s_ev (dest dmax src slen : Nat) (db sb : Bos) : EV (memcpy32_s dest dmax src slen db sb) (Once .mem) := by
  unfold memcpy32_s; once
theorem memmove16_s_ev (dest dmax src slen : Nat) (db sb : Bos) : EV (memmove16_s dest dmax src slen db sb) (Once .mem) := by
  unfold memmove16_s; once
theorem memmove32_s_ev (dest dmax src slen : Nat) (db sb : Bos) : EV (memmove32_s dest dmax src slen db sb) (Once .mem) := by
  unfold memmove32_s; once
theorem wmemcpy_s_ev (dest dlen src count : Nat) (db sb : Bos) : EV (wmemcpy_s dest dlen src count db sb) (Once .mem) := by
  unfold wmemcpy_s; once
theorem wmemmove_s_ev (dest dlen src count : Nat) (db sb : Bos) : EV (wmemmove_s dest dlen src count db sb) (Once .mem) := by
  unfold wmemmove_s; once

/-! ## memccpy_s: one report with the returned code, but the handler KIND is not always `mem` -/

/-- the discipline with the handler kind left open -/
def OnceAny (r : Nat) (es : List Event) : Prop :=
  (r = EOK ∧ es = []) ∨ (r ≠ EOK ∧ ∃ k, es = [.handler k r])

theorem Once_any {k : Kind} {r : Nat} {es : List Event} (h : Once k r es) : OnceAny r es := by
  rcases h with h | ⟨h1, h2⟩
  · exact Or.inl h
  · exact Or.inr ⟨h1, k, h2⟩

theorem memccpyLoop_ev (cfg : Cfg) (c : Int) (od om n dp sp k : Nat) :
    EV (memccpyLoop cfg c od om n dp sp k) OnceAny := by
  induction n generalizing dp sp k with
  | zero =>
    unfold memccpyLoop
    exact (handleError_ret_once cfg od om ESNOSPC (by decide)).conseq (fun _ _ h => Once_any h)
  | succ n ih =>
    unfold memccpyLoop
    split
    · exact Quiet.then_ (Quiet.storeP dp 0) (fun _ => EV.pure (Q := OnceAny) _ (Or.inl ⟨rfl, rfl⟩))
    · refine Quiet.then_ (Quiet.loadP sp) (fun v => ?_)
      refine Quiet.then_ (Quiet.storeP dp v) (fun _ => ?_)
      refine Quiet.then_ (Quiet.loadP dp) (fun v' => ?_)
      split
      · dsimp only
        split
        · exact Quiet.then_ (q_mem_prim_set _ _ _ _) (fun _ => EV.pure (Q := OnceAny) _ (Or.inl ⟨rfl, rfl⟩))
        · exact EV.pure (Q := OnceAny) _ (Or.inl ⟨rfl, rfl⟩)
      · exact ih _ _ _

theorem memccpy_s_ev (cfg : Cfg) (dest dmax src c n : Nat) (db sb : Bos) :
    EV (memccpy_s cfg dest dmax src c n db sb) OnceAny := by
  unfold memccpy_s
  split
  · exact (failM_once _ (by decide)).conseq (fun _ _ h => Once_any h)
  split
  · exact (failM_once _ (by decide)).conseq (fun _ _ h => Once_any h)
  refine EV.conseq (Q := fun r es => OnceAny r es) ?_ (fun _ _ h => h)
  unfold chkDmaxMemB
  have body : EV (
      if n = 0 then do store dest 0; pure EOK
      else if src = 0 then do handleMemErrorB 1 dest dmax ESNULLP; pure ESNULLP
      else if n > dmax then do
        let error := if n > RSIZE_MAX_MEM then ESLEMAX else ESNOSPC
        handleMemErrorB 1 dest dmax error
        pure error
      else if ovrlp 1 dest dmax src n then do
        mem_prim_set 1 dest dmax 0
        handlerM ESOVRLP
        pure ESOVRLP
      else memccpyLoop cfg (asInt c) dest dmax dmax dest src n : Prog Nat) OnceAny := by
    split
    · exact Quiet.then_ (Quiet.storeP dest 0) (fun _ => EV.pure (Q := OnceAny) _ (Or.inl ⟨rfl, rfl⟩))
    split
    · exact (handleMemErrorB_ret_once _ _ _ _ (by decide)).conseq (fun _ _ h => Once_any h)
    split
    · dsimp only
      split
      · exact (handleMemErrorB_ret_once _ _ _ _ (by decide)).conseq (fun _ _ h => Once_any h)
      · exact (handleMemErrorB_ret_once _ _ _ _ (by decide)).conseq (fun _ _ h => Once_any h)
    split
    · exact (clear_report_once (q_mem_prim_set _ _ _ _) _ (by decide)).conseq (fun _ _ h => Once_any h)
    · exact memccpyLoop_ev _ _ _ _ _ _ _ _
  split
  · split
    · exact (failM_once _ (by decide)).conseq (fun _ _ h => Once_any h)
    · exact body
  · split
    · split
      · exact (failM_once _ (by decide)).conseq (fun _ _ h => Once_any h)
      · exact (failM_once _ (by decide)).conseq (fun _ _ h => Once_any h)
    · exact body

/-! ## property statements -/

/-- memcpy_s: all arguments, all memory — EOK and no event, or code ≠ EOK and exactly that one mem-handler event -/
theorem memcpy_s_C05 (dest dmax src slen : Nat) (db sb : Bos) : Discipline .mem (memcpy_s dest dmax src slen db sb) := .of_EV (memcpy_s_ev ..)
/-- memmove_s: same -/
theorem memmove_s_C05 (dest dmax src slen : Nat) (db sb : Bos) : Discipline .mem (memmove_s dest dmax src slen db sb) := .of_EV (memmove_s_ev ..)
/-- memset_s: same (the n > dmax exit reports first, then fills what fits, then returns the reported code) -/
theorem memset_s_C05 (dest dmax value n : Nat) (db : Bos) : Discipline .mem (memset_s dest dmax value n db) := .of_EV (memset_s_ev ..)
/-- memzero_s: same -/
theorem memzero_s_C05 (dest len : Nat) (db : Bos) : Discipline .mem (memzero_s dest len db) := .of_EV (memzero_s_ev ..)
/-- memzero16_s: same -/
theorem memzero16_s_C05 (dest len : Nat) (db : Bos) : Discipline .mem (memzero16_s dest len db) := .of_EV (memzero16_s_ev ..)
/-- memzero32_s: same -/
theorem memzero32_s_C05 (dest len : Nat) (db : Bos) : Discipline .mem (memzero32_s dest len db) := .of_EV (memzero32_s_ev ..)
/-- memset16_s: same -/
theorem memset16_s_C05 (dest dmax value n : Nat) (db : Bos) : Discipline .mem (memset16_s dest dmax value n db) := .of_EV (memset16_s_ev ..)
/-- memset32_s: same -/
theorem memset32_s_C05 (dest dmax value n : Nat) (db : Bos) : Discipline .mem (memset32_s dest dmax value n db) := .of_EV (memset32_s_ev ..)
/-- memcpy16_s: same -/
theorem memcpy16_s_C05 (dest dmax src slen : Nat) (db sb : Bos) : Discipline .mem (memcpy16_s dest dmax src slen db sb) := .of_EV (memcpy16_s_ev ..)
/-- memcpy32_s: same -/
theorem memcpy32_s_C05 (dest dmax src slen : Nat) (db sb : Bos) : Discipline .mem (memcpy32_s dest dmax src slen db sb) := .of_EV (memcpy32_s_ev ..)
/-- memmove16_s: same -/
theorem memmove16_s_C05 (dest dmax src slen : Nat) (db sb : Bos) : Discipline .mem (memmove16_s dest dmax src slen db sb) := .of_EV (memmove16_s_ev ..)
/-- memmove32_s: same -/
theorem memmove32_s_C05 (dest dmax src slen : Nat) (db sb : Bos) : Discipline .mem (memmove32_s dest dmax src slen db sb) := .of_EV (memmove32_s_ev ..)
/-- wmemcpy_s: same -/
theorem wmemcpy_s_C05 (dest dlen src count : Nat) (db sb : Bos) : Discipline .mem (wmemcpy_s dest dlen src count db sb) := .of_EV (wmemcpy_s_ev ..)
/-- wmemmove_s: same -/
theorem wmemmove_s_C05 (dest dlen src count : Nat) (db sb : Bos) : Discipline .mem (wmemmove_s dest dlen src count db sb) := .of_EV (wmemmove_s_ev ..)

/-- memccpy_s, FULL statement (`Discipline .mem`) is false of the code: the ESNOSPC exit of the copy loop reports
through the STR handler.  Proved: exactly one report carrying the returned code, of either kind. -/
theorem memccpy_s_C05_partial (cfg : Cfg) (dest dmax src c n : Nat) (db sb : Bos) (st : St) (r : Nat) (st' : St)
    (he : exec (memccpy_s cfg dest dmax src c n db sb) st = .ok (r, st')) :
    (r = EOK ∧ st'.events = st.events) ∨ (r ≠ EOK ∧ ∃ k, st'.events = st.events ++ [.handler k r]) := by
  obtain ⟨es, h1, h2⟩ := (memccpy_s_ev cfg dest dmax src c n db sb).sound st he
  rcases h2 with ⟨hr, hes⟩ | ⟨hr, k, hes⟩
  · left; subst hes; exact ⟨hr, by simpa using h1⟩
  · right; subst hes; exact ⟨hr, k, h1⟩

/-- the excluded point: memccpy_s(d, 1, "a", 'x', 1): n == dmax, stop character absent → ESNOSPC through the str handler -/
theorem memccpy_s_C05_witness :
    ((exec (memccpy_s {} 100 1 200 120 1 none none)
      { data := fun a => if a = 200 then 97 else 0, mapped := fun _ => true, rd := fun _ => true, wr := fun _ => true }).toOption.map
        (fun x => (x.1, x.2.events))) = some (ESNOSPC, [.handler .str ESNOSPC]) := by
  decide

/-- non-vacuity: a reporting run of memcpy_s (slen > dmax) -/
example : ((exec (memcpy_s 100 1 200 2 none none)
      { data := fun _ => 7, mapped := fun _ => true, rd := fun _ => true, wr := fun _ => true }).toOption.map
        (fun x => (x.1, x.2.events))) = some (ESNOSPC, [.handler .mem ESNOSPC]) := by decide

end SafeC.Props.C05Mem

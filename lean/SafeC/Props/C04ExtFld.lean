import SafeC.Proofs.ExtFld
import SafeC.Props.C01
/-!
# C04 for the field copies: a failed call leaves no partial result in dest

Setting: every cell mapped and readable with ARBITRARY contents, the `dmax` cells of dest writable,
`dest ≠ 0`, `0 < dmax ≤ RSIZE_MAX_STR`, `slen ≠ 0`, object size unknown or known and at least `dmax`;
ANY `src` (null, overlapping in any way), both slack configurations.

* headline (`…_C04`): on every non-EOK return `dest[0] = 0`, exactly one handler event carrying the returned
  code, no stray access, nothing outside `dest[0..dmax)` changed (a source that does not overlap dest is
  unmodified); on ESNULLP and ESOVRLP with null-slack all `dmax` cells are zero; which code is returned when.
* `…_C04_srcnull`: the `src == NULL` exit exactly.
* `…_C04_nospc`: the `slen > dmax` exit exactly — it is taken BEFORE anything is copied and clears only the
  `len = strnlen_s(dest, dmax)` cells of the string that WAS in dest (with null-slack; `dest[0]` only without):
  cells behind the old NUL keep their OLD contents (`strcpyfld_s_C04_nospc_witness`), which is prior data of
  dest, not a partial result of the failed call.
* Without null-slack the ESOVRLP exit leaves the characters copied before the bumper was met in
  `dest[1..)` (class `noslack-partial` of known_findings.jsonl): only `dest[0] = 0` is claimed there.
-/
namespace SafeC.Props.C04Ext
open SafeC Gen

/-- the headline conclusion -/
structure FldHolds (cfg : Cfg) (dest dmax src slen : Nat) (st st' : St) (code : Nat) : Prop where
  strays : st'.strays = st.strays
  frame : ∀ a, ¬ (dest ≤ a ∧ a < dest + dmax) → st'.data a = st.data a
  ok_events : code = EOK → st'.events = st.events
  fail_events : code ≠ EOK → st'.events = st.events ++ [.handler .str code]
  fail_first : code ≠ EOK → st'.data dest = 0
  fail_clear : code = ESNULLP ∨ code = ESOVRLP → cfg.slack = true → ∀ i, i < dmax → st'.data (dest + i) = 0
  srcnull : src = 0 → code = ESNULLP
  nospc : src ≠ 0 → dmax < slen → code = (if slen > RSIZE_MAX_STR then ESLEMAX else ESNOSPC)
  fits : src ≠ 0 → slen ≤ dmax → code = EOK ∨ code = ESOVRLP

private theorem fldG_C04 (kind : FldKind) (cfg : Cfg) (dest dmax src slen : Nat) (destbos : Bos) (st : St)
    (hall : ∀ a, st.mapped a = true ∧ st.rd a = true) (hrw : RW st dest dmax)
    (hd : dest ≠ 0) (hpos : 0 < dmax) (hle : dmax ≤ RSIZE_MAX_STR) (hbos : ∀ b, destbos = some b → dmax ≤ b)
    (hsl : slen ≠ 0) :
    ∃ code st', exec (fldG kind cfg dest dmax src slen destbos) st = .ok (code, st') ∧
      FldHolds cfg dest dmax src slen st st' code := by
  rw [fldG_entry _ cfg dest dmax src slen destbos hsl hd hpos hle hbos]
  obtain ⟨code, st', he, hp⟩ := fldBody_safe kind cfg dest dmax src slen st hall hrw hd hpos hle
  exact ⟨code, st', he, hp.safe.strays, hp.safe.frame, hp.safe.ok_events, hp.safe.fail_events, hp.fail_first,
    hp.fail_clear, hp.srcnull, hp.nospc, hp.fits⟩

/-- strcpyfld_s, C04 headline: any src (null, overlapping), any contents, both slack configurations, slen ≠ 0.
On every non-EOK return dest[0] = 0 with exactly one handler event carrying the returned code; no stray access;
nothing outside dest[0..dmax) changes; with null-slack ESNULLP/ESOVRLP leave all dmax cells zero; src = 0 gives
ESNULLP, slen > dmax gives ESNOSPC (ESLEMAX above RSIZE_MAX_STR), otherwise EOK or ESOVRLP. -/
theorem strcpyfld_s_C04 (cfg : Cfg) (dest dmax src slen : Nat) (destbos : Bos) (st : St)
    (hall : ∀ a, st.mapped a = true ∧ st.rd a = true) (hrw : RW st dest dmax)
    (hd : dest ≠ 0) (hpos : 0 < dmax) (hle : dmax ≤ RSIZE_MAX_STR) (hbos : ∀ b, destbos = some b → dmax ≤ b)
    (hsl : slen ≠ 0) :
    ∃ code st', exec (strcpyfld_s cfg dest dmax src slen destbos) st = .ok (code, st') ∧
      FldHolds cfg dest dmax src slen st st' code :=
  fldG_C04 .fld cfg dest dmax src slen destbos st hall hrw hd hpos hle hbos hsl

/-- strcpyfldin_s, C04 headline: any src (null, overlapping, unterminated), any contents, both slack
configurations, slen ≠ 0.  On every non-EOK return dest[0] = 0 with exactly one handler event carrying the
returned code; no stray access; nothing outside dest[0..dmax) changes; with null-slack ESNULLP/ESOVRLP leave all
dmax cells zero; which code is returned when. -/
theorem strcpyfldin_s_C04 (cfg : Cfg) (dest dmax src slen : Nat) (destbos : Bos) (st : St)
    (hall : ∀ a, st.mapped a = true ∧ st.rd a = true) (hrw : RW st dest dmax)
    (hd : dest ≠ 0) (hpos : 0 < dmax) (hle : dmax ≤ RSIZE_MAX_STR) (hbos : ∀ b, destbos = some b → dmax ≤ b)
    (hsl : slen ≠ 0) :
    ∃ code st', exec (strcpyfldin_s cfg dest dmax src slen destbos) st = .ok (code, st') ∧
      FldHolds cfg dest dmax src slen st st' code :=
  fldG_C04 .fldin cfg dest dmax src slen destbos st hall hrw hd hpos hle hbos hsl

/-- strcpyfldout_s, C04 headline: any src (null, overlapping), any contents, both slack configurations,
slen ≠ 0.  On every non-EOK return dest[0] = 0 with exactly one handler event carrying the returned code; no
stray access; nothing outside dest[0..dmax) changes; with null-slack ESNULLP/ESOVRLP leave all dmax cells zero;
which code is returned when. -/
theorem strcpyfldout_s_C04 (cfg : Cfg) (dest dmax src slen : Nat) (destbos : Bos) (st : St)
    (hall : ∀ a, st.mapped a = true ∧ st.rd a = true) (hrw : RW st dest dmax)
    (hd : dest ≠ 0) (hpos : 0 < dmax) (hle : dmax ≤ RSIZE_MAX_STR) (hbos : ∀ b, destbos = some b → dmax ≤ b)
    (hsl : slen ≠ 0) :
    ∃ code st', exec (strcpyfldout_s cfg dest dmax src slen destbos) st = .ok (code, st') ∧
      FldHolds cfg dest dmax src slen st st' code :=
  fldG_C04 .fldout cfg dest dmax src slen destbos st hall hrw hd hpos hle hbos hsl

/-! ## the two exits taken before the loop, exactly -/

/-- exact effect of a `handle_error(dest, len, code)` exit: one event, `dest[0] = 0`, with null-slack exactly
the cells `dest[0..len)` are zeroed, without it exactly `dest[0]` -/
structure FldCleared (cfg : Cfg) (dest len : Nat) (st st' : St) (code : Nat) : Prop where
  strays : st'.strays = st.strays
  events : st'.events = st.events ++ [.handler .str code]
  first : st'.data dest = 0
  slack_zero : cfg.slack = true → ∀ i, i < len → st'.data (dest + i) = 0
  slack_rest : cfg.slack = true → ∀ a, ¬ (dest ≤ a ∧ a < dest + len) → st'.data a = st.data a
  noslack_rest : cfg.slack = false → ∀ a, a ≠ dest → st'.data a = st.data a

private theorem fldCleared_of {cfg : Cfg} {dest len : Nat} {st st' : St} {code : Nat}
    (h : FldFail cfg dest len st st' code) : FldCleared cfg dest len st st' code := by
  refine ⟨h.strays, h.events, h.first, ?_, ?_, h.noslack⟩
  · intro hcs i hi
    rw [h.slack hcs (dest + i)]
    have : dest ≤ dest + i ∧ dest + i < dest + len := by omega
    rw [if_pos this]
  · intro hcs a ha
    rw [h.slack hcs a, if_neg ha]

private theorem fldG_C04_srcnull (kind : FldKind) (cfg : Cfg) (dest dmax slen : Nat) (destbos : Bos) (st : St)
    (hrw : RW st dest dmax)
    (hd : dest ≠ 0) (hpos : 0 < dmax) (hle : dmax ≤ RSIZE_MAX_STR) (hbos : ∀ b, destbos = some b → dmax ≤ b)
    (hsl : slen ≠ 0) :
    ∃ st', exec (fldG kind cfg dest dmax 0 slen destbos) st = .ok (ESNULLP, st') ∧
      FldCleared cfg dest dmax st st' ESNULLP := by
  rw [fldG_entry _ cfg dest dmax 0 slen destbos hsl hd hpos hle hbos]
  obtain ⟨st', he, hf⟩ := fldBody_srcnull kind cfg dest dmax slen st hrw hpos
  exact ⟨st', he, fldCleared_of hf⟩

/-- strcpyfld_s / strcpyfldin_s / strcpyfldout_s with src = NULL on a usable dest (no readability hypothesis
needed): ESNULLP, exactly one handler event, dest[0] = 0; with null-slack exactly the dmax cells of dest are
zeroed, without it exactly dest[0]; every other cell keeps its value. -/
theorem strcpyfld_s_C04_srcnull (cfg : Cfg) (dest dmax slen : Nat) (destbos : Bos) (st : St)
    (hrw : RW st dest dmax)
    (hd : dest ≠ 0) (hpos : 0 < dmax) (hle : dmax ≤ RSIZE_MAX_STR) (hbos : ∀ b, destbos = some b → dmax ≤ b)
    (hsl : slen ≠ 0) :
    (∃ st', exec (strcpyfld_s cfg dest dmax 0 slen destbos) st = .ok (ESNULLP, st') ∧
      FldCleared cfg dest dmax st st' ESNULLP) ∧
    (∃ st', exec (strcpyfldin_s cfg dest dmax 0 slen destbos) st = .ok (ESNULLP, st') ∧
      FldCleared cfg dest dmax st st' ESNULLP) ∧
    (∃ st', exec (strcpyfldout_s cfg dest dmax 0 slen destbos) st = .ok (ESNULLP, st') ∧
      FldCleared cfg dest dmax st st' ESNULLP) :=
  ⟨fldG_C04_srcnull .fld cfg dest dmax slen destbos st hrw hd hpos hle hbos hsl,
   fldG_C04_srcnull .fldin cfg dest dmax slen destbos st hrw hd hpos hle hbos hsl,
   fldG_C04_srcnull .fldout cfg dest dmax slen destbos st hrw hd hpos hle hbos hsl⟩

private theorem fldG_C04_nospc (kind : FldKind) (cfg : Cfg) (dest dmax src slen : Nat) (destbos : Bos) (st : St)
    (hall : ∀ a, st.mapped a = true ∧ st.rd a = true) (hrw : RW st dest dmax)
    (hd : dest ≠ 0) (hpos : 0 < dmax) (hle : dmax ≤ RSIZE_MAX_STR) (hbos : ∀ b, destbos = some b → dmax ≤ b)
    (hs : src ≠ 0) (hgt : dmax < slen) :
    ∃ len st', exec (fldG kind cfg dest dmax src slen destbos) st =
        .ok ((if slen > RSIZE_MAX_STR then ESLEMAX else ESNOSPC), st') ∧
      StrLenIn st dest dmax len ∧
      FldCleared cfg dest len st st' (if slen > RSIZE_MAX_STR then ESLEMAX else ESNOSPC) := by
  rw [fldG_entry _ cfg dest dmax src slen destbos (by omega) hd hpos hle hbos]
  obtain ⟨len, st', he, hlen, hf⟩ := fldBody_nospc kind cfg dest dmax src slen st hall hrw hd hpos hle hs hgt
  exact ⟨len, st', he, hlen, fldCleared_of hf⟩

/-- strcpyfld_s, exit slen > dmax exactly (taken before anything is copied; any src ≠ 0, any contents): returns
ESNOSPC (ESLEMAX when slen > RSIZE_MAX_STR) with one handler event; len = length of the string that was in dest
(first NUL of the OLD dest within dmax, else dmax); dest[0] = 0; with null-slack exactly dest[0..len) is zeroed,
without it exactly dest[0]; all other cells (also dest[len..dmax)) keep their old value. -/
theorem strcpyfld_s_C04_nospc (cfg : Cfg) (dest dmax src slen : Nat) (destbos : Bos) (st : St)
    (hall : ∀ a, st.mapped a = true ∧ st.rd a = true) (hrw : RW st dest dmax)
    (hd : dest ≠ 0) (hpos : 0 < dmax) (hle : dmax ≤ RSIZE_MAX_STR) (hbos : ∀ b, destbos = some b → dmax ≤ b)
    (hs : src ≠ 0) (hgt : dmax < slen) :
    ∃ len st', exec (strcpyfld_s cfg dest dmax src slen destbos) st =
        .ok ((if slen > RSIZE_MAX_STR then ESLEMAX else ESNOSPC), st') ∧
      StrLenIn st dest dmax len ∧
      FldCleared cfg dest len st st' (if slen > RSIZE_MAX_STR then ESLEMAX else ESNOSPC) :=
  fldG_C04_nospc .fld cfg dest dmax src slen destbos st hall hrw hd hpos hle hbos hs hgt

/-- strcpyfldin_s, exit slen > dmax exactly (before anything is copied; any src ≠ 0, any contents): ESNOSPC
(ESLEMAX when slen > RSIZE_MAX_STR), one handler event; len = length of the string that was in dest; dest[0] = 0;
with null-slack exactly dest[0..len) is zeroed, without it exactly dest[0]; all other cells keep their value. -/
theorem strcpyfldin_s_C04_nospc (cfg : Cfg) (dest dmax src slen : Nat) (destbos : Bos) (st : St)
    (hall : ∀ a, st.mapped a = true ∧ st.rd a = true) (hrw : RW st dest dmax)
    (hd : dest ≠ 0) (hpos : 0 < dmax) (hle : dmax ≤ RSIZE_MAX_STR) (hbos : ∀ b, destbos = some b → dmax ≤ b)
    (hs : src ≠ 0) (hgt : dmax < slen) :
    ∃ len st', exec (strcpyfldin_s cfg dest dmax src slen destbos) st =
        .ok ((if slen > RSIZE_MAX_STR then ESLEMAX else ESNOSPC), st') ∧
      StrLenIn st dest dmax len ∧
      FldCleared cfg dest len st st' (if slen > RSIZE_MAX_STR then ESLEMAX else ESNOSPC) :=
  fldG_C04_nospc .fldin cfg dest dmax src slen destbos st hall hrw hd hpos hle hbos hs hgt

/-- strcpyfldout_s, exit slen > dmax exactly (before anything is copied; any src ≠ 0, any contents): ESNOSPC
(ESLEMAX when slen > RSIZE_MAX_STR), one handler event; len = length of the string that was in dest; dest[0] = 0;
with null-slack exactly dest[0..len) is zeroed, without it exactly dest[0]; all other cells keep their value. -/
theorem strcpyfldout_s_C04_nospc (cfg : Cfg) (dest dmax src slen : Nat) (destbos : Bos) (st : St)
    (hall : ∀ a, st.mapped a = true ∧ st.rd a = true) (hrw : RW st dest dmax)
    (hd : dest ≠ 0) (hpos : 0 < dmax) (hle : dmax ≤ RSIZE_MAX_STR) (hbos : ∀ b, destbos = some b → dmax ≤ b)
    (hs : src ≠ 0) (hgt : dmax < slen) :
    ∃ len st', exec (strcpyfldout_s cfg dest dmax src slen destbos) st =
        .ok ((if slen > RSIZE_MAX_STR then ESLEMAX else ESNOSPC), st') ∧
      StrLenIn st dest dmax len ∧
      FldCleared cfg dest len st st' (if slen > RSIZE_MAX_STR then ESLEMAX else ESNOSPC) :=
  fldG_C04_nospc .fldout cfg dest dmax src slen destbos st hall hrw hd hpos hle hbos hs hgt

/-! ## the overlap exit is taken exactly when the copied cells meet -/

private theorem fldHolds_of {kind : FldKind} {cfg : Cfg} {dest dmax src slen : Nat} {st st' : St} {code : Nat}
    (hp : FldPost kind cfg dest dmax src slen st st' code) : FldHolds cfg dest dmax src slen st st' code :=
  ⟨hp.safe.strays, hp.safe.frame, hp.safe.ok_events, hp.safe.fail_events, hp.fail_first,
    hp.fail_clear, hp.srcnull, hp.nospc, hp.fits⟩

/-- strcpyfld_s, the overlap exit (converse of strcpyfld_s_C08, any contents, both slack configurations): when
the slen cells read and the slen cells written meet — ¬ (dest + slen ≤ src ∨ src + slen ≤ dest) — the call
returns ESOVRLP: one handler event, dest[0] = 0, with null-slack all dmax cells zero, nothing outside dest
changed.  So ESOVRLP is returned exactly when these two fields meet. -/
theorem strcpyfld_s_C04_overlap (cfg : Cfg) (dest dmax src slen : Nat) (destbos : Bos) (st : St)
    (hall : ∀ a, st.mapped a = true ∧ st.rd a = true) (hrw : RW st dest dmax)
    (hd : dest ≠ 0) (hpos : 0 < dmax) (hle : dmax ≤ RSIZE_MAX_STR) (hbos : ∀ b, destbos = some b → dmax ≤ b)
    (hsl : slen ≠ 0) (hs : src ≠ 0) (hfit : slen ≤ dmax)
    (hmeet : ¬ (dest + slen ≤ src ∨ src + slen ≤ dest)) :
    ∃ st', exec (strcpyfld_s cfg dest dmax src slen destbos) st = .ok (ESOVRLP, st') ∧
      FldHolds cfg dest dmax src slen st st' ESOVRLP := by
  unfold strcpyfld_s
  rw [fldG_entry _ cfg dest dmax src slen destbos hsl hd hpos hle hbos]
  obtain ⟨st', he, hp⟩ := fldBody_fld_overlap cfg dest dmax src slen st hall hrw hd hpos hle hs hfit hmeet
  exact ⟨st', he, fldHolds_of hp⟩

/-- strcpyfldout_s, the overlap exit (converse of strcpyfldout_s_C08, any contents, both slack configurations):
with n = min slen (dmax-1), when the n cells read and the n cells written meet the call returns ESOVRLP: one
handler event, dest[0] = 0, with null-slack all dmax cells zero, nothing outside dest changed. -/
theorem strcpyfldout_s_C04_overlap (cfg : Cfg) (dest dmax src slen : Nat) (destbos : Bos) (st : St)
    (hall : ∀ a, st.mapped a = true ∧ st.rd a = true) (hrw : RW st dest dmax)
    (hd : dest ≠ 0) (hpos : 0 < dmax) (hle : dmax ≤ RSIZE_MAX_STR) (hbos : ∀ b, destbos = some b → dmax ≤ b)
    (hsl : slen ≠ 0) (hs : src ≠ 0) (hfit : slen ≤ dmax)
    (hmeet : ¬ (dest + min slen (dmax - 1) ≤ src ∨ src + min slen (dmax - 1) ≤ dest)) :
    ∃ st', exec (strcpyfldout_s cfg dest dmax src slen destbos) st = .ok (ESOVRLP, st') ∧
      FldHolds cfg dest dmax src slen st st' ESOVRLP := by
  unfold strcpyfldout_s
  rw [fldG_entry _ cfg dest dmax src slen destbos hsl hd hpos hle hbos]
  obtain ⟨st', he, hp⟩ := fldBody_fldout_overlap cfg dest dmax src slen st hall hrw hd hpos hle hs hfit hmeet
  exact ⟨st', he, fldHolds_of hp⟩

/-- strcpyfldin_s, the overlap exit for dest ≤ src (both slack configurations): the source string starts
j0 = src - dest < slen cells into dest and its first j0+1 characters are non-NUL, so the copy runs into the
source: ESOVRLP, one handler event, dest[0] = 0, with null-slack all dmax cells zero, nothing outside dest
changed. -/
theorem strcpyfldin_s_C04_overlap (cfg : Cfg) (dest dmax src slen : Nat) (destbos : Bos) (st : St)
    (hall : ∀ a, st.mapped a = true ∧ st.rd a = true) (hrw : RW st dest dmax)
    (hd : dest ≠ 0) (hpos : 0 < dmax) (hle : dmax ≤ RSIZE_MAX_STR) (hbos : ∀ b, destbos = some b → dmax ≤ b)
    (hsl : slen ≠ 0) (hs : src ≠ 0) (hfit : slen ≤ dmax)
    (hge : dest ≤ src) (hlt : src - dest < slen)
    (hnz : ∀ j, j ≤ src - dest → st.data (src + j) ≠ 0) :
    ∃ st', exec (strcpyfldin_s cfg dest dmax src slen destbos) st = .ok (ESOVRLP, st') ∧
      FldHolds cfg dest dmax src slen st st' ESOVRLP := by
  unfold strcpyfldin_s
  rw [fldG_entry _ cfg dest dmax src slen destbos hsl hd hpos hle hbos]
  obtain ⟨st', he, hp⟩ := fldBody_fldin_overlap cfg dest dmax src slen st hall hrw hd hpos hle hs hfit hge hlt hnz
  exact ⟨st', he, fldHolds_of hp⟩

/-! ## what the `slen > dmax` exit does NOT clear, and non-vacuity -/

/-- dest = 100 (3 writable cells) holding "a\0b", src = 200 -/
def fldNSt : St :=
  { data := fun a => if a = 100 then 97 else if a = 102 then 98 else if a = 200 then 99 else 0
    mapped := fun _ => true, rd := fun _ => true
    wr := fun a => decide (100 ≤ a ∧ a < 103) }

/- FALSE of the code (see the witness): on every failing exit with null-slack all dmax cells of dest are zero:
   strcpyfld_s_C04_clear_all : … → code ≠ EOK → cfg.slack = true → ∀ i, i < dmax → st'.data (dest + i) = 0 -/

/-- the slen > dmax exit with null-slack does not zero all of dest: strcpyfld_s(d = "a\0b", 3, src, 4) returns
ESNOSPC, dest[0] = 0, and dest[2] still holds the 'b' it held before the call (only strnlen_s(dest, dmax) = 1
cell is cleared).  Old data of dest, nothing the failed call wrote. -/
theorem strcpyfld_s_C04_nospc_witness :
    ∃ st', exec (strcpyfld_s { slack := true } 100 3 200 4 none) fldNSt = .ok (ESNOSPC, st') ∧
      st'.data 100 = 0 ∧ st'.data 102 = 98 := by
  refine ⟨{ fldNSt.upd 100 0 with events := [.handler .str ESNOSPC] }, ?_, ?_⟩
  · simp [strcpyfld_s, fldG, chkDmaxClear, chkDmaxClearG, chkSlenNospcClear, RSIZE_MAX_STR, strnlen_s,
      strnlenLoop, handleError, handlerS, memsetP, exec_bind, fldNSt, ESNOSPC, St.upd]
  · simp [St.upd, fldNSt]

/-- dest = 100 (4 writable cells, all zero), src = 102 holding "abc": the fields meet -/
def fldOSt : St :=
  { data := fun a => if a = 102 then 97 else if a = 103 then 98 else if a = 104 then 99 else 0
    mapped := fun _ => true, rd := fun _ => true
    wr := fun a => decide (100 ≤ a ∧ a < 104) }

/- FALSE of the code without null-slack (see the witness; class noslack-partial of known_findings.jsonl):
   strcpyfld_s_C04_nopartial : … → code ≠ EOK → ∀ i, 0 < i → i < dmax → st'.data (dest + i) = st.data (dest + i) ∨ st'.data (dest + i) = 0 -/

/-- the ESOVRLP exit in the NO-slack build leaves what was copied before the bumper was met behind dest[0]:
strcpyfld_s(d, 4, d+2 = "abc", 3) returns ESOVRLP, dest[0] = 0, and dest[1], which was 0, now holds 'b'
(handle_error stores only dest[0] = 0 there). -/
theorem strcpyfld_s_C04_noslack_witness :
    ∃ st', exec (strcpyfld_s { slack := false } 100 4 102 3 none) fldOSt = .ok (ESOVRLP, st') ∧
      st'.data 100 = 0 ∧ fldOSt.data 101 = 0 ∧ st'.data 101 = 98 := by
  refine ⟨{ ((fldOSt.upd 100 97).upd 101 98).upd 100 0 with events := [.handler .str ESOVRLP] }, ?_, ?_⟩
  · simp [strcpyfld_s, fldG, chkDmaxClear, chkDmaxClearG, chkSlenNospcClear, RSIZE_MAX_STR, fldLoop,
      handleError, handlerS, exec_bind, fldOSt, ESOVRLP, St.upd]
  · simp [St.upd, fldOSt]

/-- the hypotheses of the overlap statements are satisfiable: dest = 100 (5 cells), src = 102, slen = 3 -/
example : (∀ a, SafeC.Props.C01.exSt.mapped a = true ∧ SafeC.Props.C01.exSt.rd a = true) ∧
    RW SafeC.Props.C01.exSt 100 5 ∧ (3 : Nat) ≠ 0 ∧ (102 : Nat) ≠ 0 ∧ 3 ≤ 5 ∧
    ¬ (100 + 3 ≤ 102 ∨ 102 + 3 ≤ 100) ∧
    ¬ (100 + min 3 (5 - 1) ≤ 102 ∨ 102 + min 3 (5 - 1) ≤ 100) := by
  refine ⟨fun _ => ⟨rfl, rfl⟩, fun i hi => ⟨rfl, ?_, rfl⟩, by decide, by decide, by decide, by decide, by decide⟩
  simp [SafeC.Props.C01.exSt]; omega

/-- the hypotheses of strcpyfldin_s_C04_overlap are satisfiable: `fldOSt`, dest = 100 (4 cells), src = 102 = "abc" -/
example : (∀ a, fldOSt.mapped a = true ∧ fldOSt.rd a = true) ∧ RW fldOSt 100 4 ∧ 3 ≤ 4 ∧
    100 ≤ 102 ∧ 102 - 100 < 3 ∧ (∀ j, j ≤ 102 - 100 → fldOSt.data (102 + j) ≠ 0) := by
  refine ⟨fun _ => ⟨rfl, rfl⟩, fun i hi => ⟨rfl, ?_, rfl⟩, by decide, by decide, by decide, ?_⟩
  · simp [fldOSt]; omega
  · intro j hj
    have : j = 0 ∨ j = 1 ∨ j = 2 := by omega
    rcases this with h | h | h <;> subst h <;> decide

/-- why dmax ≤ RSIZE_MAX_STR is a hypothesis also when the object size is known: CHK_DEST_OVR_CLEAR tests the
limit only inside dmax > destbos (class bos-known-skips-limit).  strcpyfld_s(d, 5000, s, 5001) with destbos 5000
passes the dmax checks; the slen > dmax exit then calls strnlen_s(dest, 5000), which reports ESLEMAX itself and
returns 0, and handle_error reports again: TWO handler events for one ESLEMAX return, dest untouched. -/
theorem strcpyfld_s_C04_bos_limit_witness :
    ∃ st', exec (strcpyfld_s { slack := true } 100 5000 200 5001 (some 5000)) fldNSt = .ok (ESLEMAX, st') ∧
      st'.events = [.handler .str ESLEMAX, .handler .str ESLEMAX] ∧ st'.data 100 = 97 := by
  refine ⟨{ fldNSt with events := [.handler .str ESLEMAX, .handler .str ESLEMAX] }, ?_, rfl, ?_⟩
  · simp [strcpyfld_s, fldG, chkDmaxClear, chkDmaxClearG, chkSlenNospcClear, RSIZE_MAX_STR, strnlen_s,
      handleError, handlerS, memsetP, exec_bind, fldNSt, ESLEMAX]
  · simp [fldNSt]

/-- the hypotheses are satisfiable: dest = 100 with 5 writable cells in `exSt`, src = 200, slen = 7 > dmax -/
example : (∀ a, SafeC.Props.C01.exSt.mapped a = true ∧ SafeC.Props.C01.exSt.rd a = true) ∧
    RW SafeC.Props.C01.exSt 100 5 ∧ (100 : Nat) ≠ 0 ∧ 0 < 5 ∧ 5 ≤ RSIZE_MAX_STR ∧
    (∀ b, (none : Bos) = some b → 5 ≤ b) ∧ (7 : Nat) ≠ 0 ∧ (200 : Nat) ≠ 0 ∧ 5 < 7 := by
  refine ⟨fun _ => ⟨rfl, rfl⟩, fun i hi => ⟨rfl, ?_, rfl⟩, by decide, by decide, by decide,
    (fun b h => by cases h), by decide, by decide, by decide⟩
  simp [SafeC.Props.C01.exSt]; omega

end SafeC.Props.C04Ext

import SafeC.Proofs.ExtOs
import SafeC.Props.C06Os
/-!
# C03 for `getenv_s` and `strerror_s`: after every exit on a usable dest a NUL exists within `dmax`

Setting of `Proofs/CopyDisjoint.lean` (only the declared extents are mapped / readable / writable): dest is a
usable buffer (`dest ≠ 0`, `0 < dmax ≤ RSIZE_MAX_STR`, `dmax ≤` the object size when that is known, `dmax` writable
cells with ARBITRARY prior content); the strings the C reads (`name`, the environment value, libc's message, the
literal `"..."`) are readable, terminated and do not overlap dest.  Both slack configurations.

`dmax ≤ RSIZE_MAX_STR` is a genuine hypothesis for `getenv_s` when the object size is KNOWN: the function then compares
`dmax` with the object size only, and the inner `strcpy_s` (object size unknown there) rejects `dmax` silently:
`getenv_s_C03_witness`.
-/
namespace SafeC.Props.C03Ext
open SafeC Gen

/-- getenv_s, EVERY exit with a usable dest (name null or a readable string; variable unset or set to a string of any
length n that does not overlap dest; len null or not; object size known or not; both slack configurations; arbitrary
prior dest content): the call returns and a NUL exists in dest[0..dmax). -/
theorem getenv_s_C03 (cfg : Cfg) (hasLen : Bool) (dest dmax name : Nat) (destbos : Bos) (value k n : Nat) (st : St)
    (hd : dest ≠ 0) (hpos : 0 < dmax) (hle : dmax ≤ RSIZE_MAX_STR) (hbos : ∀ b, destbos = some b → dmax ≤ b)
    (hrw : RW st dest dmax) (hname : name ≠ 0 → SrcStr st name k)
    (hval : value ≠ 0 → SrcStr st value n ∧ Disjoint dest dmax value n) :
    ∃ r st', exec (getenv_s cfg hasLen dest dmax name destbos value) st = .ok (r, st') ∧
      ∃ i, i < dmax ∧ st'.data (dest + i) = 0 := by
  by_cases h0 : name = 0
  · subst h0
    obtain ⟨st', he, _, _, _, _, _, _, hz, _⟩ :=
      getenv_s_nullname cfg hasLen dest dmax destbos value st hd hpos hle hbos hrw
    exact ⟨_, st', he, 0, hpos, by simpa using hz⟩
  · by_cases hv : value = 0
    · subst hv
      obtain ⟨st', he, _, _, _, _, _, _, hz, _⟩ :=
        getenv_s_unset cfg hasLen dest dmax name destbos k st hd hpos hle hbos hrw h0 (hname h0)
      exact ⟨_, st', he, 0, hpos, by simpa using hz⟩
    · obtain ⟨hsrc, hdisj⟩ := hval hv
      by_cases hn : n < dmax
      · obtain ⟨st', he, _, _, _, _, _, _, _, hz, _⟩ :=
          getenv_s_ok cfg hasLen dest dmax name destbos value k n st hd hpos hle hbos hrw h0 (hname h0) hv hsrc hn hdisj
        exact ⟨_, st', he, n, hn, hz⟩
      · obtain ⟨st', he, _, _, _, _, _, _, hz, _⟩ :=
          getenv_s_nospc cfg hasLen dest dmax name destbos value k n st hd hpos hle hbos hrw h0 (hname h0) hv hsrc
            (by omega)
        exact ⟨_, st', he, 0, hpos, by simpa using hz⟩

/-- getenv_s success, exact result: readable name, the variable is set to a string of length n < dmax not overlapping
dest. Returns EOK with *len = n (when len is non-null), NO handler event, dest[0..n) = the value, dest[n] = 0, nothing
outside dest[0..dmax) changes and no access outside the declared extents happens. -/
theorem getenv_s_C03_success (cfg : Cfg) (hasLen : Bool) (dest dmax name : Nat) (destbos : Bos) (value k n : Nat)
    (st : St) (hd : dest ≠ 0) (hpos : 0 < dmax) (hle : dmax ≤ RSIZE_MAX_STR)
    (hbos : ∀ b, destbos = some b → dmax ≤ b) (hrw : RW st dest dmax)
    (hname : name ≠ 0) (hnm : SrcStr st name k)
    (hv : value ≠ 0) (hval : SrcStr st value n) (hn : n < dmax) (hdisj : Disjoint dest dmax value n) :
    ∃ st', exec (getenv_s cfg hasLen dest dmax name destbos value) st
        = .ok ((EOK, if hasLen then some n else none), st') ∧
      st'.events = st.events ∧ st'.strays = st.strays ∧
      (∀ i, i < n → st'.data (dest+i) = st.data (value+i)) ∧ st'.data (dest+n) = 0 ∧
      (∀ a, ¬ (dest ≤ a ∧ a < dest + dmax) → st'.data a = st.data a) := by
  obtain ⟨st', he, _, _, _, ps, pf, pe, c3, c4, _⟩ :=
    getenv_s_ok cfg hasLen dest dmax name destbos value k n st hd hpos hle hbos hrw hname hnm hv hval hn hdisj
  exact ⟨st', he, pe, ps, c3, c4, pf⟩

/-- state of the witness: dest = 1000 with 4097 writable cells all holding 7 (no NUL), value "aa" at 200, name "A" at
300; everything mapped and readable -/
def wEnv : St :=
  { data := fun a => if 1000 ≤ a then 7 else if a = 200 ∨ a = 201 ∨ a = 300 then 97 else 0
    mapped := fun _ => true, rd := fun _ => true
    wr := fun a => decide (1000 ≤ a ∧ a < 1000 + 4097) }

/-- the excluded point of getenv_s_C03 (NEW finding): object size KNOWN (destbos = dmax = 4097 > RSIZE_MAX_STR = 4096),
variable set to "aa": getenv_s returns EOK and *len = 2 although the constraint handler was invoked with ESLEMAX by
the inner strcpy_s, and dest is untouched: no NUL in dest[0..dmax). getenv_s(&len, dest, 4097, "A") with
char dest[4097], A=aa. -/
theorem getenv_s_C03_witness :
    RW wEnv 1000 4097 ∧
    ∃ st', exec (getenv_s {} true 1000 4097 300 (some 4097) 200) wEnv = .ok ((EOK, some 2), st') ∧
      st'.events = [.handler .str ESLEMAX] ∧ st'.data = wEnv.data ∧
      ¬ ∃ i, i < 4097 ∧ st'.data (1000 + i) = 0 := by
  refine ⟨?_, _, getenv_s_bos_lemax {} true 1000 4097 300 4097 200 1 2 wEnv (by decide) (by decide) (by decide)
    (by decide) ?_ (by decide) ?_ (by decide) (by decide), rfl, rfl, ?_⟩
  · intro i hi
    refine ⟨rfl, ?_, rfl⟩
    simp only [wEnv, decide_eq_true_eq]
    omega
  · refine ⟨?_, by simp [wEnv], fun _ _ => ⟨rfl, rfl⟩⟩
    intro j hj
    have : j = 0 := by omega
    subst this; simp [wEnv]
  · refine ⟨?_, by simp [wEnv], fun _ _ => ⟨rfl, rfl⟩⟩
    intro j hj
    have : j = 0 ∨ j = 1 := by omega
    rcases this with rfl | rfl <;> simp [wEnv]
  · intro ⟨i, _, h⟩
    have : 1000 ≤ 1000 + i := by omega
    simp [wEnv, this] at h

/-- strerror_s, EVERY exit with a usable dest: msg holds the message text (length n, any n), strerrorlen_s answers n
(hlen; for the library's own codes this says the length table agrees with the text, cf. C06Os.strerrorlen_s_own; for
other codes see strerror_s_C03_libc), message and the literal "..." do not overlap dest. The call returns and a NUL
exists in dest[0..dmax): at n when the message fits, at dmax-1 after truncation, at 0 on ESLEMIN. -/
theorem strerror_s_C03 (cfg : Cfg) (dest dmax errnum : Nat) (destbos : Bos) (msg dots n : Nat) (st : St)
    (hd : dest ≠ 0) (hpos : 0 < dmax) (hle : dmax ≤ RSIZE_MAX_STR) (hbos : ∀ b, destbos = some b → dmax ≤ b)
    (hrw : RW st dest dmax) (hlen : exec (strerrorlen_s errnum msg) st = .ok (n, st))
    (hm : msg ≠ 0) (hsrc : SrcStr st msg n) (hdisj : Disjoint dest dmax msg n)
    (hdots : dots ≠ 0) (hds : SrcStr st dots 3) (hdd : Disjoint dest dmax dots 3)
    (h46 : st.data dots = 46 ∧ st.data (dots+1) = 46 ∧ st.data (dots+2) = 46) :
    ∃ code st', exec (strerror_s cfg dest dmax errnum destbos msg dots) st = .ok (code, st') ∧
      ∃ i, i < dmax ∧ st'.data (dest + i) = 0 := by
  obtain ⟨code, st', he, _, _, _, _, _, hfit, htr, hmin⟩ :=
    strerror_s_all cfg dest dmax errnum destbos msg dots n n st hd hpos hle hbos hrw hlen (Or.inl rfl) hm hsrc hdisj
      hdots hds hdd h46
  refine ⟨code, st', he, ?_⟩
  by_cases hn : n < dmax
  · exact ⟨n, hn, (hfit hn).2.2.2.1⟩
  · by_cases h3 : 3 < dmax
    · exact ⟨dmax - 1, by omega, (htr (by omega) h3).2.2.2.2.2.2⟩
    · exact ⟨0, hpos, by simpa using (hmin (by omega) (by omega)).2.2.1⟩

/-- strerror_s for an errnum outside the library's own range (strerrorlen_s = libc strlen of the message): the same
with NO hypothesis on strerrorlen_s and no bound on the message length. -/
theorem strerror_s_C03_libc (cfg : Cfg) (dest dmax errnum : Nat) (destbos : Bos) (msg dots n : Nat) (st : St)
    (hd : dest ≠ 0) (hpos : 0 < dmax) (hle : dmax ≤ RSIZE_MAX_STR) (hbos : ∀ b, destbos = some b → dmax ≤ b)
    (hrw : RW st dest dmax) (hown : isSafeclibErr errnum = false)
    (hm : msg ≠ 0) (hsrc : SrcStr st msg n) (hdisj : Disjoint dest dmax msg n)
    (hdots : dots ≠ 0) (hds : SrcStr st dots 3) (hdd : Disjoint dest dmax dots 3)
    (h46 : st.data dots = 46 ∧ st.data (dots+1) = 46 ∧ st.data (dots+2) = 46) :
    ∃ code st', exec (strerror_s cfg dest dmax errnum destbos msg dots) st = .ok (code, st') ∧
      ∃ i, i < dmax ∧ st'.data (dest + i) = 0 := by
  obtain ⟨len, hlen, hag⟩ := strerrorlen_s_libc errnum msg n st hown hsrc
  have hag' : len = n ∨ (dmax ≤ len ∧ dmax ≤ n) := by
    have := RSIZE_lt_scanFuel
    rcases hag with h | h
    · exact Or.inl h
    · exact Or.inr (by omega)
  obtain ⟨code, st', he, _, _, _, _, _, hfit, htr, hmin⟩ :=
    strerror_s_all cfg dest dmax errnum destbos msg dots n len st hd hpos hle hbos hrw hlen hag' hm hsrc hdisj
      hdots hds hdd h46
  refine ⟨code, st', he, ?_⟩
  by_cases hn : n < dmax
  · exact ⟨n, hn, (hfit hn).2.2.2.1⟩
  · by_cases h3 : 3 < dmax
    · exact ⟨dmax - 1, by omega, (htr (by omega) h3).2.2.2.2.2.2⟩
    · exact ⟨0, hpos, by simpa using (hmin (by omega) (by omega)).2.2.1⟩

/-- strerror_s for one of the library's OWN codes (ESNULLP..ESLAST; strerrorlen_s answers from the length table, which
C06Os.strerrorlen_s_own proves equal to the byte length of the message text): msg holds a string of exactly that
length. Every exit leaves a NUL in dest[0..dmax), no hypothesis on strerrorlen_s. -/
theorem strerror_s_C03_own (cfg : Cfg) (dest dmax errnum : Nat) (destbos : Bos) (msg dots : Nat) (st : St)
    (hd : dest ≠ 0) (hpos : 0 < dmax) (hle : dmax ≤ RSIZE_MAX_STR) (hbos : ∀ b, destbos = some b → dmax ≤ b)
    (hrw : RW st dest dmax) (hown : isSafeclibErr errnum = true)
    (hm : msg ≠ 0) (hsrc : SrcStr st msg (errmsgs.getD (errnum % 2^32 - ESNULLP) "").utf8ByteSize)
    (hdisj : Disjoint dest dmax msg (errmsgs.getD (errnum % 2^32 - ESNULLP) "").utf8ByteSize)
    (hdots : dots ≠ 0) (hds : SrcStr st dots 3) (hdd : Disjoint dest dmax dots 3)
    (h46 : st.data dots = 46 ∧ st.data (dots+1) = 46 ∧ st.data (dots+2) = 46) :
    ∃ code st', exec (strerror_s cfg dest dmax errnum destbos msg dots) st = .ok (code, st') ∧
      ∃ i, i < dmax ∧ st'.data (dest + i) = 0 :=
  strerror_s_C03 cfg dest dmax errnum destbos msg dots _ st hd hpos hle hbos hrw
    (SafeC.Props.C06Os.strerrorlen_s_own errnum msg st hown) hm hsrc hdisj hdots hds hdd h46

/-- non-vacuity: dest = 100 (8 cells), name "A" at 300, value "aa" at 200, message of 11 characters at 400 (does not
fit: truncation), "..." at 500; errnum 5 is not one of the library's own codes -/
example : (100 : Nat) ≠ 0 ∧ 0 < 8 ∧ 8 ≤ RSIZE_MAX_STR ∧ RW osExSt 100 8 ∧
    SrcStr osExSt 300 1 ∧ SrcStr osExSt 200 2 ∧ Disjoint 100 8 200 2 ∧
    isSafeclibErr 5 = false ∧ SrcStr osExSt 400 11 ∧ Disjoint 100 8 400 11 ∧
    SrcStr osExSt 500 3 ∧ Disjoint 100 8 500 3 ∧
    (osExSt.data 500 = 46 ∧ osExSt.data (500+1) = 46 ∧ osExSt.data (500+2) = 46) :=
  ⟨by decide, by decide, by decide, osExSt_rw, osExSt_str _ _ (by omega), osExSt_str _ _ (by omega),
   Or.inl (by decide), by decide, osExSt_str _ _ (by omega), Or.inl (by decide), osExSt_str _ _ (by omega),
   Or.inl (by decide), osExSt_dots⟩

end SafeC.Props.C03Ext

import SafeC.Proofs.MemCopyEntry
/-!
# C07 for the memory family — `memmove` is exact for every overlap; `memcpy_s` detects every overlap

`Moved st st' dest src n` (SafeC/Proofs/MemMove.lean): every one of the `n` destination cells holds
what the corresponding source cell held BEFORE the call (the result of copying through a temporary
array — the definition of C `memmove`), every other cell is unchanged, no stray access, no handler.

The statements hold for all lengths, all relative placements of the two operands (disjoint, forward
overlap, backward overlap, identical) and all alignments (the alignment prologue, the 8-byte word loop
and the byte tail of `mem_prim_move`, the 16-way unrolled loops of `mem_prim_move16/32`).
-/
namespace SafeC.Props.C07Mem
open SafeC Gen Mem

/-- `mem_prim_move(dest, src, len)` (bytes; 64-bit word variant): for every `dest`, `src`, `len` with
`n = len mod 2^32 ≠ 0`, the `n` destination cells writable and the `n` source cells readable, the
call returns and has `memmove` semantics — whatever the overlap and alignment. -/
theorem mem_prim_move_C07 (dest src len : Nat) (st : St) (hpos : 0 < len % U32)
    (hw : RW st dest (len % U32)) (hr : RD st src (len % U32)) :
    ∃ st', exec (mem_prim_move dest src len) st = .ok ((), st') ∧ Moved st st' dest src (len % U32) :=
  mem_prim_move_ok dest src len st hpos hw hr

/-- `mem_prim_move8/16/32(dest, src, len)` (elements; the three are the same code on different element
types): `memmove` semantics for every length (`len mod 2^32` elements), overlap and placement. -/
theorem mem_prim_move_elems_C07 (dest src len : Nat) (st : St)
    (hw : RW st dest (len % U32)) (hr : RD st src (len % U32)) :
    ∃ st', exec (mem_prim_move16 dest src len) st = .ok ((), st') ∧ Moved st st' dest src (len % U32) :=
  primMoveElems_ok dest src len st hw hr

/-- **memmove_s, valid arguments, ANY overlap:** EOK, and dest holds exactly the bytes a copy through a
temporary would have put there; nothing else changed. -/
theorem memmove_s_C07 (dest dmax src slen : Nat) (st : St)
    (hd : dest ≠ 0) (hs : src ≠ 0) (hpos : 0 < slen) (hle : slen ≤ dmax) (hmax : dmax ≤ RSIZE_MAX_MEM)
    (hw : RW st dest dmax) (hr : RD st src slen) :
    ∃ st', exec (memmove_s dest dmax src slen none none) st = .ok (EOK, st') ∧
      Moved st st' dest src slen :=
  memmove_s_ok dest dmax src slen st hd hs hpos hle hmax hw hr

/-- **memmove_s with object sizes known to the library** (`destbos`, `srcbos` arbitrary): when `dmax` is within the
limit and the known dest object and `slen` within the known source object, the same exact `memmove`. -/
theorem memmove_s_C07_bos (dest dmax src slen : Nat) (destbos srcbos : Bos) (st : St)
    (hd : dest ≠ 0) (hs : src ≠ 0) (hpos : 0 < slen) (hle : slen ≤ dmax) (hmax : dmax ≤ RSIZE_MAX_MEM)
    (hdb : memDmaxOk dmax destbos) (hsb : exceeds slen srcbos = false)
    (hw : RW st dest dmax) (hr : RD st src slen) :
    ∃ st', exec (memmove_s dest dmax src slen destbos srcbos) st = .ok (EOK, st') ∧
      Moved st st' dest src slen :=
  memmove_s_ok_bos dest dmax src slen destbos srcbos st hd hs hpos hle hmax hdb hsb hw hr

/-- **memmove16_s** (`dmax` in bytes, `slen` in 16-bit elements), valid arguments, any overlap. -/
theorem memmove16_s_C07 (dest dmax src slen : Nat) (st : St)
    (hd : dest ≠ 0) (hs : src ≠ 0) (hpos : 0 < slen) (hle : slen * 2 ≤ dmax) (hmax : dmax ≤ RSIZE_MAX_MEM)
    (hw : RW st dest slen) (hr : RD st src slen) :
    ∃ st', exec (memmove16_s dest dmax src slen none none) st = .ok (EOK, st') ∧
      Moved st st' dest src slen :=
  memmove16_s_ok dest dmax src slen st hd hs hpos hle hmax hw hr

/-- **memmove32_s** (`dmax` in bytes, `slen` in 32-bit elements), valid arguments, any overlap. -/
theorem memmove32_s_C07 (dest dmax src slen : Nat) (st : St)
    (hd : dest ≠ 0) (hs : src ≠ 0) (hpos : 0 < slen) (hle : slen * 4 ≤ dmax) (hmax : dmax ≤ RSIZE_MAX_MEM)
    (hw : RW st dest slen) (hr : RD st src slen) :
    ∃ st', exec (memmove32_s dest dmax src slen none none) st = .ok (EOK, st') ∧
      Moved st st' dest src slen :=
  memmove32_s_ok dest dmax src slen st hd hs hpos hle hmax hw hr

/-- **memcpy_s rejects every overlap:** whenever the `slen` source bytes and the `dmax` destination
bytes share a byte and `dest ≠ src` (addresses below 2^64), the call returns ESOVRLP, has zeroed the
`dmax` bytes of dest, changed nothing else, and invoked the mem handler exactly once. -/
theorem memcpy_s_C07_overlap (dest dmax src slen : Nat) (st : St)
    (hd : dest ≠ 0) (hs : src ≠ 0) (hpos : 0 < slen) (hle : slen ≤ dmax) (hmax : dmax ≤ RSIZE_MAX_MEM)
    (hw : RW st dest dmax) (ha1 : src + slen < U64) (ha2 : dest + dmax < U64)
    (hov : (src < dest ∧ dest < src + slen) ∨ (dest < src ∧ src < dest + dmax)) :
    ∃ st', exec (memcpy_s dest dmax src slen none none) st = .ok (ESOVRLP, st') ∧
      st'.events = st.events ++ [.handler .mem ESOVRLP] ∧ st'.strays = st.strays ∧
      (∀ a, st'.data a = if dest ≤ a ∧ a < dest + dmax then 0 else st.data a) :=
  memcpy_s_overlap dest dmax src slen st hd hs hpos hle hmax hw ha1 ha2 hov

/-- **wmemmove_s** (`dlen`, `count` in `wchar_t` elements), valid arguments, any overlap: EOK and exact
`memmove` semantics.  The hypothesis is `dlen * 4 ≤ RSIZE_MAX_WMEM`, not `dlen ≤ RSIZE_MAX_WMEM`: the code
compares the BYTE size of dest with the ELEMENT limit (`CHK_DMAX_MEM_MAX("wmemmove_s", RSIZE_MAX_WMEM)`). -/
theorem wmemmove_s_C07 (dest dlen src count : Nat) (st : St)
    (hd : dest ≠ 0) (hs : src ≠ 0) (hpos : 0 < count) (hle : count ≤ dlen) (hmax : dlen * 4 ≤ RSIZE_MAX_WMEM)
    (hw : RW st dest count) (hr : RD st src count) :
    ∃ st', exec (wmemmove_s dest dlen src count none none) st = .ok (EOK, st') ∧
      Moved st st' dest src count :=
  wmemmove_s_ok dest dlen src count st hd hs hpos hle hmax hw hr

/-- everything mapped, readable and writable; cell `a` holds `a % 251` -/
def exSt : St := { data := fun a => a % 251, mapped := fun _ => true, rd := fun _ => true, wr := fun _ => true }

/-- non-vacuity: a backward-overlapping move of 100 bytes by 3 -/
example : (1003 : Nat) ≠ 0 ∧ (1000 : Nat) ≠ 0 ∧ 0 < 100 ∧ 100 ≤ 120 ∧ 120 ≤ RSIZE_MAX_MEM ∧
    RW exSt 1003 120 ∧ RD exSt 1000 100 :=
  ⟨by decide, by decide, by decide, by decide, by decide, fun _ _ => ⟨rfl, rfl, rfl⟩, fun _ _ => ⟨rfl, rfl⟩⟩

end SafeC.Props.C07Mem

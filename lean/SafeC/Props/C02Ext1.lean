import SafeC.Proofs.AccQueryEntry
import SafeC.Proofs.C02Glue
import SafeC.Props.C02Query
/-!
# C02 for the string searches and comparisons of `Models/Query.lean`

`strcmp_s strcasecmp_s strcmpfld_s strstr_s strcasestr_s strchr_s strpbrk_s strspn_s strcspn_s strprefix_s`.

Setting: ONLY what the hypotheses name is mapped and readable.  `Runs p st`: the call returns (no fault:
nothing unmapped was touched) and records no stray access.  All arguments, all contents, object sizes
known or unknown, null pointers included (a null pointer needs nothing mapped).

For nearly all of these functions the statement of C02 —
```
theorem f_C02 (hd : dest ≠ 0 → RD st dest dmax) (hs : src ≠ 0 → StrRd st src slen) : Runs (f dest dmax src slen …) st
```
— is FALSE of the code: the loops are written `while (*dest && dmax)`, which evaluates `*dest` before the
counter (known finding `read-before-bound`), the set/needle scans read `src[slen]` (`read-src-past-slen`),
`strchr_s`/`strstr_s` call unbounded libc scans.  For each function there is

* `f_C02_tight_partial`: the exact extent the proof needs — `StrRd st dest (dmax+1)`: the STRING at dest, up to
  and including its terminator, cut at `dmax + 1` cells: at most the ONE cell behind the declared ones, and that
  one only when no terminator precedes it;
* `f_C02_partial`: the statement of C02 itself under the hypothesis that makes it true (a terminator inside the
  declared extent);
* one `_witness` per defect class: a run that faults on the undeclared cell.

`strprefix_s` satisfies the full statement.
-/
namespace SafeC.Props.C02
open SafeC Gen

/-! ## strcmp_s, strcasecmp_s -/

/-- **strcmp_s** reads the two strings up to their terminators, at most `dmax + 1` cells of each -/
theorem strcmp_s_C02_tight_partial (dest dmax src : Nat) (db sb : Bos) (st : St)
    (hd : dest ≠ 0 → StrRd st dest (dmax+1)) (hs : src ≠ 0 → StrRd st src (dmax+1)) :
    Runs (strcmp_s dest dmax src db sb) st :=
  runs_of_AccD (strcmp_s_acc dest dmax src db sb hd hs)

/-- **strcmp_s**, C02 for a dest that is terminated inside `dmax` (`src`: a string, declared to its terminator) -/
theorem strcmp_s_C02_partial (dest dmax src : Nat) (db sb : Bos) (st : St)
    (hd : dest ≠ 0 → RD st dest dmax) (ht : dest ≠ 0 → Term st dest dmax) (hs : src ≠ 0 → ∀ n, StrRd st src n) :
    Runs (strcmp_s dest dmax src db sb) st :=
  strcmp_s_C02_tight_partial dest dmax src db sb st (fun h => StrRd.of_RD_term (hd h) (ht h) _) (fun h => hs h _)

/-- **strcasecmp_s** -/
theorem strcasecmp_s_C02_tight_partial (dest dmax src : Nat) (db : Bos) (st : St)
    (hd : dest ≠ 0 → StrRd st dest (dmax+1)) (hs : src ≠ 0 → StrRd st src (dmax+1)) :
    Runs (strcasecmp_s dest dmax src db) st :=
  runs_of_AccD (strcasecmp_s_acc dest dmax src db hd hs)

theorem strcasecmp_s_C02_partial (dest dmax src : Nat) (db : Bos) (st : St)
    (hd : dest ≠ 0 → RD st dest dmax) (ht : dest ≠ 0 → Term st dest dmax) (hs : src ≠ 0 → ∀ n, StrRd st src n) :
    Runs (strcasecmp_s dest dmax src db) st :=
  strcasecmp_s_C02_tight_partial dest dmax src db st (fun h => StrRd.of_RD_term (hd h) (ht h) _) (fun h => hs h _)

/-! ## strcmpfld_s: fields, not strings -/

/-- **strcmpfld_s**: cell `i ≤ dmax` of either field is read only when the `i` cells before it are pairwise equal —
`i = dmax`, the cell BEHIND each field, included (`*resultp = *dest - *src` after the loop) -/
theorem strcmpfld_s_C02_tight_partial (dest dmax src : Nat) (db : Bos) (st : St)
    (h : dest ≠ 0 → src ≠ 0 → ∀ i, i ≤ dmax → (∀ j, j < i → st.data (dest+j) = st.data (src+j)) →
      Rd st (dest+i) ∧ Rd st (src+i)) :
    Runs (strcmpfld_s dest dmax src db) st :=
  runs_of_AccD (strcmpfld_s_acc dest dmax src db h)

/-- **strcmpfld_s**, C02 (both fields declared for `dmax` cells) when the fields differ -/
theorem strcmpfld_s_C02_partial (dest dmax src : Nat) (db : Bos) (st : St)
    (hd : dest ≠ 0 → RD st dest dmax) (hs : src ≠ 0 → RD st src dmax)
    (hdiff : ∃ i, i < dmax ∧ st.data (dest+i) ≠ st.data (src+i)) :
    Runs (strcmpfld_s dest dmax src db) st := by
  refine strcmpfld_s_C02_tight_partial dest dmax src db st (fun h1 h2 i hi hpre => ?_)
  obtain ⟨k, hk, hne⟩ := hdiff
  have : i < dmax := by
    apply Classical.byContradiction
    intro hn
    exact hne (hpre k (by omega))
  exact ⟨hd h1 i this, hs h2 i this⟩

/-! ## strstr_s, strcasestr_s -/

/-- **strstr_s**: dest to its terminator within `dmax + 1` cells, the needle within `slen + 1` cells; with
`slen > dmax` two unbounded `strlen` calls read BOTH strings to their terminators whatever the bounds say -/
theorem strstr_s_C02_tight_partial (dest dmax src slen : Nat) (db sb : Bos) (st : St)
    (hd : dest ≠ 0 → StrRd st dest (dmax+1)) (hs : src ≠ 0 → StrRd st src (slen+1))
    (hlong : dest ≠ 0 → src ≠ 0 → slen > dmax → StrRd st dest scanFuel ∧ StrRd st src scanFuel) :
    Runs (strstr_s dest dmax src slen db sb) st :=
  runs_of_AccD (strstr_s_acc dest dmax src slen db sb hd hs hlong)

/-- **strstr_s**, C02 when both strings are terminated inside their declared extents -/
theorem strstr_s_C02_partial (dest dmax src slen : Nat) (db sb : Bos) (st : St)
    (hd : dest ≠ 0 → RD st dest dmax) (ht : dest ≠ 0 → Term st dest dmax)
    (hs : src ≠ 0 → StrRd st src slen) (hts : src ≠ 0 → Term st src slen) :
    Runs (strstr_s dest dmax src slen db sb) st :=
  strstr_s_C02_tight_partial dest dmax src slen db sb st (fun h => StrRd.of_RD_term (hd h) (ht h) _)
    (fun h => StrRd.of_term (hs h) (hts h) _)
    (fun h1 h2 _ => ⟨StrRd.of_RD_term (hd h1) (ht h1) _, StrRd.of_term (hs h2) (hts h2) _⟩)

/-- **strcasestr_s** (`slen > dmax` is rejected before anything is read) -/
theorem strcasestr_s_C02_tight_partial (dest dmax src slen : Nat) (db sb : Bos) (st : St)
    (hd : dest ≠ 0 → StrRd st dest (dmax+1)) (hs : src ≠ 0 → StrRd st src (slen+1)) :
    Runs (strcasestr_s dest dmax src slen db sb) st :=
  runs_of_AccD (strcasestr_s_acc dest dmax src slen db sb hd hs)

theorem strcasestr_s_C02_partial (dest dmax src slen : Nat) (db sb : Bos) (st : St)
    (hd : dest ≠ 0 → RD st dest dmax) (ht : dest ≠ 0 → Term st dest dmax)
    (hs : src ≠ 0 → StrRd st src slen) (hts : src ≠ 0 → Term st src slen) :
    Runs (strcasestr_s dest dmax src slen db sb) st :=
  strcasestr_s_C02_tight_partial dest dmax src slen db sb st (fun h => StrRd.of_RD_term (hd h) (ht h) _)
    (fun h => StrRd.of_term (hs h) (hts h) _)

/-! ## strchr_s -/

/-- **strchr_s**: `strchr` reads the string to its terminator (or the hit) — `dmax` does not bound the scan -/
theorem strchr_s_C02_tight_partial (dest dmax : Nat) (ch : Int) (db : Bos) (st : St)
    (hd : dest ≠ 0 → StrRd st dest scanFuel) :
    Runs (strchr_s dest dmax ch db) st :=
  runs_of_AccD (strchr_s_acc dest dmax ch db hd)

theorem strchr_s_C02_partial (dest dmax : Nat) (ch : Int) (db : Bos) (st : St)
    (hd : dest ≠ 0 → RD st dest dmax) (ht : dest ≠ 0 → Term st dest dmax) :
    Runs (strchr_s dest dmax ch db) st :=
  strchr_s_C02_tight_partial dest dmax ch db st (fun h => StrRd.of_RD_term (hd h) (ht h) _)

/-! ## strpbrk_s, strspn_s, strcspn_s -/

/-- **strpbrk_s** (object size of `src` unknown or not exceeded: the other exit clears dest, see C10) -/
theorem strpbrk_s_C02_tight_partial (cfg : Cfg) (dest dmax src slen : Nat) (db sb : Bos) (st : St)
    (hsb : ∀ b, sb = some b → slen ≤ b)
    (hd : dest ≠ 0 → StrRd st dest (dmax+1)) (hs : src ≠ 0 → StrRd st src (slen+1)) :
    Runs (strpbrk_s cfg dest dmax src slen db sb) st :=
  runs_of_AccD (strpbrk_s_acc cfg dest dmax src slen db sb hsb hd hs)

theorem strpbrk_s_C02_partial (cfg : Cfg) (dest dmax src slen : Nat) (db sb : Bos) (st : St)
    (hsb : ∀ b, sb = some b → slen ≤ b)
    (hd : dest ≠ 0 → RD st dest dmax) (ht : dest ≠ 0 → Term st dest dmax)
    (hs : src ≠ 0 → StrRd st src slen) (hts : src ≠ 0 → Term st src slen) :
    Runs (strpbrk_s cfg dest dmax src slen db sb) st :=
  strpbrk_s_C02_tight_partial cfg dest dmax src slen db sb st hsb (fun h => StrRd.of_RD_term (hd h) (ht h) _)
    (fun h => StrRd.of_term (hs h) (hts h) _)

/-- **strspn_s** -/
theorem strspn_s_C02_tight_partial (dest dmax src slen : Nat) (db sb : Bos) (st : St)
    (hd : dest ≠ 0 → StrRd st dest (dmax+1)) (hs : src ≠ 0 → StrRd st src (slen+1)) :
    Runs (strspn_s dest dmax src slen db sb) st :=
  runs_of_AccD (strspn_s_acc dest dmax src slen db sb hd hs)

theorem strspn_s_C02_partial (dest dmax src slen : Nat) (db sb : Bos) (st : St)
    (hd : dest ≠ 0 → RD st dest dmax) (ht : dest ≠ 0 → Term st dest dmax)
    (hs : src ≠ 0 → StrRd st src slen) (hts : src ≠ 0 → Term st src slen) :
    Runs (strspn_s dest dmax src slen db sb) st :=
  strspn_s_C02_tight_partial dest dmax src slen db sb st (fun h => StrRd.of_RD_term (hd h) (ht h) _)
    (fun h => StrRd.of_term (hs h) (hts h) _)

/-- **strcspn_s** -/
theorem strcspn_s_C02_tight_partial (dest dmax src slen : Nat) (db sb : Bos) (st : St)
    (hd : dest ≠ 0 → StrRd st dest (dmax+1)) (hs : src ≠ 0 → StrRd st src (slen+1)) :
    Runs (strcspn_s dest dmax src slen db sb) st :=
  runs_of_AccD (strcspn_s_acc dest dmax src slen db sb hd hs)

theorem strcspn_s_C02_partial (dest dmax src slen : Nat) (db sb : Bos) (st : St)
    (hd : dest ≠ 0 → RD st dest dmax) (ht : dest ≠ 0 → Term st dest dmax)
    (hs : src ≠ 0 → StrRd st src slen) (hts : src ≠ 0 → Term st src slen) :
    Runs (strcspn_s dest dmax src slen db sb) st :=
  strcspn_s_C02_tight_partial dest dmax src slen db sb st (fun h => StrRd.of_RD_term (hd h) (ht h) _)
    (fun h => StrRd.of_term (hs h) (hts h) _)

/-! ## strprefix_s: the full statement -/

/-- **strprefix_s** (FULL): the loop is `while (*src && dmax)` and dereferences dest after the counter: dest is
read inside its `dmax` cells (and inside its string), `src` — a string without a length argument — up to its
terminator within `dmax + 1` cells.  All arguments, all contents. -/
theorem strprefix_s_C02 (dest dmax src : Nat) (db : Bos) (st : St)
    (hd : dest ≠ 0 → StrRd st dest dmax) (hs : src ≠ 0 → StrRd st src (dmax+1)) :
    Runs (strprefix_s dest dmax src db) st :=
  runs_of_AccD (strprefix_s_acc dest dmax src db hd hs)

/-- in the vocabulary of the other theorems: all `dmax` cells of dest declared, the string `src` declared -/
theorem strprefix_s_C02' (dest dmax src : Nat) (db : Bos) (st : St)
    (hd : dest ≠ 0 → RD st dest dmax) (hs : src ≠ 0 → ∀ n, StrRd st src n) :
    Runs (strprefix_s dest dmax src db) st :=
  strprefix_s_C02 dest dmax src db st (fun h => StrRd.of_RD (hd h) (Nat.le_refl _)) (fun h => hs h _)

/-! ## witnesses: one per defect class -/

/-- class `read-before-bound` (`while (*dest && *src && dmax)`): dest = {'a','b'} exactly fills its 2 declared
cells, src = "ab": the loop header evaluates `dest[2]` — the first unmapped cell — before it sees `dmax == 0` -/
theorem read_before_bound_witness :
    exec (strcmp_s 100 2 200 none none)
      (win (fun a => if a = 100 ∨ a = 200 then 97 else if a = 101 ∨ a = 201 then 98 else 0) 100 102 200 203) =
      .error (.read 102) := faultOf_ok (by decide)

/-- class `read-src-past-slen` (`while (*scan2 && smax)` of strspn_s): the set {'x','y'} exactly fills its
`slen = 2` cells; dest = "a" is terminated and declared: the inner loop evaluates `src[2]` -/
theorem read_src_past_slen_witness :
    exec (strspn_s 100 2 200 2 none none)
      (win (fun a => if a = 100 then 97 else if a = 200 then 120 else if a = 201 then 121 else 0) 100 102 200 202) =
      .error (.read 202) := faultOf_ok (by decide)

/-- class `unbounded-libc-scan` (`strchr` in strchr_s): `dmax = 1`, yet the scan walks over all three mapped
cells of the unterminated array and faults on the fourth — `dmax` is not looked at until `strchr` returns -/
theorem unbounded_scan_witness :
    exec (strchr_s 100 1 122 none)
      (win (fun a => if 100 ≤ a ∧ a < 103 then 97 else 0) 100 103 0 0) = .error (.read 103) := faultOf_ok (by decide)

/-- class `tail-read-behind-field` (`*resultp = *dest - *src` of strcmpfld_s after `dmax` equal cells) -/
theorem tail_read_witness :
    exec (strcmpfld_s 100 2 200 none)
      (win (fun a => if a = 100 ∨ a = 200 then 97 else if a = 101 ∨ a = 201 then 98 else 0) 100 102 200 202) =
      .error (.read 102) := faultOf_ok (by decide)

/-! ## the hypotheses are satisfiable -/

/-- dest = "ab\0" + 2 more declared cells at 100 (dmax = 5), src = "b\0" at 200: every hypothesis shape used above -/
def exSt1 : St := win (fun a => if a = 100 then 97 else if a = 101 ∨ a = 200 then 98 else 0) 100 105 200 202

example : RD exSt1 100 5 ∧ Term exSt1 100 5 ∧ (∀ n, StrRd exSt1 200 n) ∧ StrRd exSt1 200 2 ∧ Term exSt1 200 2 ∧
    StrRd exSt1 100 (5+1) ∧ exSt1.mapped 105 = false ∧ exSt1.mapped 202 = false := by
  have hrd : RD exSt1 100 5 := fun i hi => by simp [exSt1, win]; omega
  have ht : Term exSt1 100 5 := ⟨2, by omega, by simp [exSt1, win]⟩
  have hs2 : RD exSt1 200 2 := fun i hi => by simp [exSt1, win]; omega
  have hts : Term exSt1 200 2 := ⟨1, by omega, by simp [exSt1, win]⟩
  exact ⟨hrd, ht, fun n => StrRd.of_RD_term hs2 hts n, StrRd.of_RD hs2 (Nat.le_refl _), hts,
    StrRd.of_RD_term hrd ht _, by decide, by decide⟩

/-- an UNTERMINATED dest that exactly fills `dmax = 2` cells satisfies the tight hypothesis only with cell 102 mapped -/
example : ∃ st : St, StrRd st 100 (2+1) ∧ ¬ Term st 100 2 :=
  ⟨win (fun _ => 97) 100 103 0 0, StrRd.of_RD (fun i hi => by simp [win]; omega) (Nat.le_refl _),
   fun ⟨i, _, h⟩ => by simp [win] at h⟩

end SafeC.Props.C02

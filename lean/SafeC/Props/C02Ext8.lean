import SafeC.Proofs.C02GlueOs
import SafeC.Props.C02Ext7
/-!
# C02 for the os family: `getenv_s strerror_s strerrorlen_s asctime_s ctime_s gmtime_s localtime_s gets_s`

The process state these functions consult is an ARGUMENT of their models — a region of memory the library only reads
(the environment value, libc's message, the literal `"..."`, libc's rendering of the time, libc's `struct tm`, the bytes
left in the stream).  ONLY those regions, the caller's objects (`name`, `*tm`, `*timer`) and dest's declared cells are
mapped; every call returns without a stray access: all arguments, NULL pointers, object sizes known or unknown, both
slack configurations.  A libc string is "readable at every cut" (`∀ n, StrRd st p n`: the cells up to and including its
terminator); where the library writes dest and then reads a libc text again (`strerror_s`: `strncpy_s` then
`strcat_s(dest, dmax, "...")`; `asctime_s` / `ctime_s`: `Staged`) the text lies apart from dest.
-/
namespace SafeC.Props.C02
open SafeC Gen

/-! ## getenv_s -/

/-- **getenv_s** (FULL): `name` to its terminator (`getenv`; `scanFuel` cut of the model), the value to its terminator,
dest's `dmax` cells; `len` null or not, the variable set (`value ≠ 0`) or not -/
theorem getenv_s_C02 (cfg : Cfg) (hasLen : Bool) (dest dmax name : Nat) (db : Bos) (value : Nat) (st : St)
    (hn : name ≠ 0 → StrRd st name scanFuel) (hv : value ≠ 0 → ∀ n, StrRd st value n)
    (hd : dest ≠ 0 → RW st dest dmax) :
    Runs (getenv_s cfg hasLen dest dmax name db value) st :=
  runs_of_AccS (getenv_s_accs cfg hasLen dest dmax name db value hn hv (fun h => Rd_of_RW (hd h)) (fun h => Wr_of_RW (hd h)))

/-! ## strerrorlen_s, strerror_s -/

/-- **strerrorlen_s** (FULL): no access for the library's own codes (table), `strlen` of libc's message otherwise -/
theorem strerrorlen_s_C02 (errnum msg : Nat) (st : St) (hm : isSafeclibErr errnum = false → StrRd st msg scanFuel) :
    Runs (strerrorlen_s errnum msg) st :=
  runs_of_AccS (strerrorlen_s_accs (W := Wr st) errnum msg hm)

/-- **strerror_s** (FULL): the message to its terminator; on the truncating path (`dmax > 3`, message too long) the dots
within `dmax` cells, apart from dest; dest's `dmax` cells -/
theorem strerror_s_C02 (cfg : Cfg) (dest dmax errnum : Nat) (db : Bos) (msg dots : Nat) (st : St)
    (hm : dest ≠ 0 → ∀ n, StrRd st msg n)
    (hdots : dest ≠ 0 → 3 < dmax → dots ≠ 0 → StrRd st dots dmax)
    (hapart : dest ≠ 0 → 3 < dmax → dots ≠ 0 → ∀ a, Str st.data dots dmax a → ¬ Cells dest dmax a)
    (hd : dest ≠ 0 → RW st dest dmax) :
    Runs (strerror_s cfg dest dmax errnum db msg dots) st :=
  runs_of_AccS (strerror_s_accs cfg dest dmax errnum db msg dots hm
    (fun h1 h2 h3 a ha => ⟨hdots h1 h2 h3 a ha, hapart h1 h2 h3 a ha⟩) (fun h => Rd_of_RW (hd h)) (fun h => Wr_of_RW (hd h)))

/-! ## asctime_s, ctime_s (from the `Within2` footprints of `Props/C12Time.lean`) -/

/-- **asctime_s** (FULL): the twelve cells of `*tm`, libc's text (`n` characters and the terminator, `Staged`: `n < 120`,
apart from dest; `text = 0`: libc returned NULL), dest's `dmax` cells -/
theorem asctime_s_C02 (cfg : Cfg) (dest dmax tm : Nat) (db : Bos) (text n : Nat) (st : St)
    (htext : text ≠ 0 → C12Time.Staged st dest dmax text n)
    (hd : dest ≠ 0 → RW st dest dmax) (htm : tm ≠ 0 → RD st tm 12) (ht : text ≠ 0 → RD st text (n+1)) :
    Runs (asctime_s cfg dest dmax tm db text) st := by
  refine runs_of_within2 (C12Time.asctime_s_fp cfg dest dmax tm db text n st htext) (fun a ha => ?_) (fun a ha => ?_)
  · rcases ha with ⟨h0, hc⟩ | ⟨h0, hc⟩ | ⟨h0, h1, h2⟩
    · exact Rd_of_RW (hd h0) a hc
    · exact Rd_of_RD (htm h0) a hc
    · exact Rd_of_RD (ht h0) a ⟨h1, by omega⟩
  · exact Wr_of_RW (hd ha.1) a ha.2

/-- **ctime_s** (FULL): the one cell of `*timer` (read twice), libc's text, dest -/
theorem ctime_s_C02 (cfg : Cfg) (dest dmax timer : Nat) (db : Bos) (text n : Nat) (st : St)
    (htext : text ≠ 0 → C12Time.Staged st dest dmax text n)
    (hd : dest ≠ 0 → RW st dest dmax) (htm : timer ≠ 0 → RD st timer 1) (ht : text ≠ 0 → RD st text (n+1)) :
    Runs (ctime_s cfg dest dmax timer db text) st := by
  refine runs_of_within2 (C12Time.ctime_s_fp cfg dest dmax timer db text n st htext) (fun a ha => ?_) (fun a ha => ?_)
  · rcases ha with ⟨h0, hc⟩ | ⟨h0, hc⟩ | ⟨h0, h1, h2⟩
    · exact Rd_of_RW (hd h0) a hc
    · exact Rd_of_RD (htm h0) a hc
    · exact Rd_of_RD (ht h0) a ⟨h1, by omega⟩
  · exact Wr_of_RW (hd ha.1) a ha.2

/-! ## gmtime_s, localtime_s -/

/-- **gmtime_s** (FULL): `*timer` (one cell, read twice), the 14 cells of libc's result; dest is only written -/
theorem gmtime_s_C02 (timer dest res : Nat) (st : St)
    (ht : timer ≠ 0 → RD st timer 1) (hr : res ≠ 0 → RD st res 14) (hd : dest ≠ 0 → WO st dest 14) :
    Runs (gmtime_s timer dest res) st :=
  runs_of_Acc (Acc_tmConv timer dest res (fun h => Rd_of_RD (ht h) _ ⟨Nat.le_refl _, by omega⟩)
    (fun h => Rd_of_RD (hr h)) (fun h => Wr_of_WO (hd h)))

/-- **localtime_s** (FULL) -/
theorem localtime_s_C02 (timer dest res : Nat) (st : St)
    (ht : timer ≠ 0 → RD st timer 1) (hr : res ≠ 0 → RD st res 14) (hd : dest ≠ 0 → WO st dest 14) :
    Runs (localtime_s timer dest res) st :=
  gmtime_s_C02 timer dest res st ht hr hd

/-! ## gets_s -/

/-- **gets_s** (FULL): of the `len` bytes the stream holds at most `min dmax len` are looked at — `fgets` consumes at most
`dmax - 1`, `getc` peeks at one more when dest is full, neither goes behind the end of the stream; dest is read back
(`strnlen`, the last character) inside `dmax` -/
theorem gets_s_C02 (cfg : Cfg) (dest dmax : Nat) (db : Bos) (inp len : Nat) (st : St)
    (hi : RD st inp (min dmax len)) (hd : dest ≠ 0 → RW st dest dmax) :
    Runs (gets_s cfg dest dmax db inp len) st :=
  runs_of_Acc (Acc_gets_s cfg dest dmax db inp len (Rd_of_RD hi) (fun h => Rd_of_RW (hd h)) (fun h => Wr_of_RW (hd h)))

/-! ## non-vacuity -/

/-- an unterminated 4-cell dest, a stream of 9 bytes without newline of which only the first `min 4 9` are mapped -/
example : ∃ st : St, RW st 100 4 ∧ RD st 200 (min 4 9) ∧ ¬ Term st 100 4 ∧ st.mapped 104 = false ∧ st.mapped 204 = false :=
  ⟨winW (fun _ => 7) 100 104 200 204, fun i hi => by simp [winW, win]; omega, fun i hi => by simp [winW, win]; omega,
   fun ⟨i, _, h⟩ => by simp [winW, win] at h, by decide, by decide⟩

/-- `name = "A"` at 300, `value = "xy"` at 200, a 2-cell dest (too small: the ESNOSPC exit), each flush against unmapped memory -/
example : ∃ st : St, RW st 100 2 ∧ (∀ n, StrRd st 200 n) ∧ st.mapped 102 = false ∧ st.mapped 203 = false :=
  ⟨winW (fun a => if a = 200 then 120 else if a = 201 then 121 else 0) 100 102 200 203,
   fun i hi => by simp [winW, win]; omega,
   fun n => StrRd.of_RD_term (n := 3) (fun i hi => by simp [winW, win]; omega) ⟨2, by omega, by simp [winW, win]⟩ n,
   by decide, by decide⟩

/-- libc's 25 characters at 200 (no NUL among them, terminator at 225) apart from a 26-cell dest -/
example : ∃ st : St, C12Time.Staged st 100 26 200 25 ∧ RW st 100 26 ∧ RD st 200 26 ∧ st.mapped 126 = false ∧ st.mapped 226 = false :=
  ⟨winW (fun a => if 200 ≤ a ∧ a < 225 then 65 else 0) 100 126 200 226,
   ⟨fun j hj => by simp [winW, win]; omega, by simp [winW, win], by omega, Or.inl (by omega)⟩,
   fun i hi => by simp [winW, win]; omega, fun i hi => by simp [winW, win]; omega, by decide, by decide⟩

end SafeC.Props.C02

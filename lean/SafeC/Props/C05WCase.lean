import SafeC.Proofs.EV
import SafeC.Models.WCase
import SafeC.Props.C05Ev
import SafeC.Props.C05Docs
/-!
# C05 for the wide case mappers `wcslwr_s`, `wcsupr_s`, through the `EV` event judgement

For ALL arguments (null, zero, above RSIZE_MAX_WSTR, above 2^62, object size known or not — any number of bytes),
ALL memory contents and placements and EVERY cell mapping `f`:

* `wcase_s_ev`: a call that returns has appended no event and returned EOK, or exactly one str-handler event carrying
  precisely the code it returned (the consistency half, as for the rest of the in-place family in `C05Ev.lean`);
* `wcase_s_code`: and WHICH of the two it is, is the function `wcaseCode` of the arguments alone — the list of the doc
  comment read top to bottom: `slen = 0` → EOK (even for a null `src`: "EOK on successful operation or slen = 0");
  `src` null → ESNULLP; `slen > RSIZE_MAX_WSTR` → ESLEMAX (known object size or not: no EOVERFLOW in its place);
  object size known and `slen * sizeof(wchar_t)` greater → EOVERFLOW; otherwise EOK, whatever the cells hold
  (an unterminated array is no violation: "stops at the first null or after slen characters").  So a violation named
  by the doc comment is reported (once, with its code), and nothing else is (`wcaseCode_eok_iff`);
* `…_documented`: every code handed back is on the `@retval` list of the CURRENT doc comment (`Gen/Docs.lean`).

The statements need no hypothesis on the state: the judgement quantifies over every value a load can return.
-/
namespace SafeC.Props.C05Ev
open SafeC Gen

/-- the loop emits nothing -/
theorem wcaseLoop_silent (rb : Bool) (f : Nat → Nat) (n d : Nat) : EV.Silent (wcaseLoop rb f n d) (fun _ => True) := by
  induction n generalizing d with
  | zero =>
    unfold wcaseLoop
    split
    · exact EV.bindSilent (EV.loadP d) (fun _ _ => EV.pure _ ⟨rfl, trivial⟩)
    · exact EV.pure _ ⟨rfl, trivial⟩
  | succ n ih =>
    unfold wcaseLoop
    refine EV.bindSilent (EV.loadP d) (fun c _ => ?_)
    split
    · exact EV.pure _ ⟨rfl, trivial⟩
    · refine EV.bindSilent (EV.loadP d) (fun c1 _ => ?_)
      exact EV.bindSilent (EV.storeP d _) (fun _ _ => ih (d+1))

/-- the code the doc comment assigns to the arguments (memory plays no part) -/
def wcaseCode (src slen : Nat) (srcbos : Bos) : Nat :=
  if slen = 0 then EOK
  else if src = 0 then ESNULLP
  else if slen > RSIZE_MAX_WSTR then ESLEMAX
  else match srcbos with
    | none => EOK
    | some bos => if slen * SIZEOF_WCHAR_T > bos then EOVERFLOW else EOK

/-- EOK exactly when no documented runtime-constraint is violated -/
theorem wcaseCode_eok_iff (src slen : Nat) (srcbos : Bos) :
    wcaseCode src slen srcbos = EOK ↔
      slen = 0 ∨ (src ≠ 0 ∧ slen ≤ RSIZE_MAX_WSTR ∧ ∀ bos, srcbos = some bos → slen * SIZEOF_WCHAR_T ≤ bos) := by
  have e1 : ESNULLP ≠ EOK := by decide
  have e2 : ESLEMAX ≠ EOK := by decide
  have e3 : EOVERFLOW ≠ EOK := by decide
  unfold wcaseCode
  split
  · rename_i h; simp [h]
  · rename_i h0
    split
    · rename_i hs; simp [h0, hs, e1]
    · rename_i hs
      split
      · rename_i hm
        simp only [e2, false_iff]
        rintro (h | ⟨_, h, _⟩)
        · exact h0 h
        · omega
      · rename_i hm
        cases srcbos with
        | none =>
          simp only [true_iff]
          exact Or.inr ⟨hs, by omega, fun b hb => by cases hb⟩
        | some bos =>
          dsimp only
          split
          · rename_i hb
            simp only [e3, false_iff]
            rintro (h | ⟨_, _, h⟩)
            · exact h0 h
            · have := h bos rfl; omega
          · rename_i hb
            simp only [true_iff]
            exact Or.inr ⟨hs, by omega, fun b hb' => by cases hb'; omega⟩

/-- the code returned is `wcaseCode` of the arguments, and the events are what the discipline asks for that code -/
theorem wcase_s_code (rb : Bool) (f : Nat → Nat) (src slen : Nat) (srcbos : Bos) :
    EV (wcase_s rb f src slen srcbos) (fun r es => r = wcaseCode src slen srcbos ∧ Once .str r es) := by
  have fail : ∀ c, c ≠ EOK → EV (failS c) (fun r es => r = c ∧ Once .str r es) := fun c hc =>
    (EV.failS c).conseq (fun r es ⟨h1, h2⟩ => ⟨h1, by subst h1; exact Or.inr ⟨hc, h2⟩⟩)
  have body : EV (do wcaseLoop rb f slen src; pure EOK : Prog Nat) (fun r es => r = EOK ∧ Once .str r es) :=
    EV.bindSilent (wcaseLoop_silent rb f slen src) (fun _ _ => EV.pure _ ⟨rfl, Or.inl ⟨rfl, rfl⟩⟩)
  by_cases h0 : slen = 0
  · simp only [wcase_s, wcaseCode, h0, if_true]
    exact EV.pure _ ⟨rfl, Or.inl ⟨rfl, rfl⟩⟩
  by_cases hs : src = 0
  · simp only [wcase_s, wcaseCode, h0, hs, if_true, if_false]
    exact fail _ (by decide)
  by_cases hm : slen > RSIZE_MAX_WSTR
  · simp only [wcase_s, wcaseCode, h0, hs, hm, if_true, if_false]
    exact fail _ (by decide)
  cases srcbos with
  | none =>
    simp only [wcase_s, wcaseCode, h0, hs, hm, if_false]
    exact body
  | some bos =>
    by_cases hb : slen * SIZEOF_WCHAR_T > bos
    · simp only [wcase_s, wcaseCode, h0, hs, hm, hb, if_true, if_false]
      exact fail _ (by decide)
    · simp only [wcase_s, wcaseCode, h0, hs, hm, hb, if_false]
      exact body

theorem wcase_s_ev (rb : Bool) (f : Nat → Nat) (src slen : Nat) (srcbos : Bos) : EV (wcase_s rb f src slen srcbos) (Once .str) :=
  (wcase_s_code rb f src slen srcbos).conseq (fun _ _ h => h.2)

theorem wcslwr_s_ev (cfg : Cfg) (src slen : Nat) (srcbos : Bos) : EV (wcslwr_s cfg src slen srcbos) (Once .str) :=
  wcase_s_ev _ _ src slen srcbos

theorem wcsupr_s_ev (cfg : Cfg) (src slen : Nat) (srcbos : Bos) : EV (wcsupr_s cfg src slen srcbos) (Once .str) :=
  wcase_s_ev _ _ src slen srcbos

/-- wcslwr_s: all arguments, all memory — EOK and no event, or code ≠ EOK and exactly that one str-handler event -/
theorem wcslwr_s_C05 (cfg : Cfg) (src slen : Nat) (srcbos : Bos) :
    Discipline .str (wcslwr_s cfg src slen srcbos) := .of_EV (wcslwr_s_ev ..)
/-- wcsupr_s: same -/
theorem wcsupr_s_C05 (cfg : Cfg) (src slen : Nat) (srcbos : Bos) :
    Discipline .str (wcsupr_s cfg src slen srcbos) := .of_EV (wcsupr_s_ev ..)

/-- what `wcase_s_code` means for runs: every returning call hands back the code the doc comment assigns to its
arguments — a documented violation is reported exactly once with its code, a call without one reports nothing -/
theorem wcase_s_reports (rb : Bool) (f : Nat → Nat) (src slen : Nat) (srcbos : Bos) (st : St) (r : Nat) (st' : St)
    (he : exec (wcase_s rb f src slen srcbos) st = .ok (r, st')) :
    r = wcaseCode src slen srcbos ∧
      ((r = EOK ∧ st'.events = st.events) ∨ (r ≠ EOK ∧ st'.events = st.events ++ [.handler .str r])) := by
  obtain ⟨es, h1, h2, h3⟩ := (wcase_s_code rb f src slen srcbos).sound st he
  refine ⟨h2, ?_⟩
  rcases h3 with ⟨hr, hes⟩ | ⟨hr, hes⟩
  · left; subst hes; exact ⟨hr, by simpa using h1⟩
  · right; subst hes; exact ⟨hr, h1⟩

/-- wcslwr_s: the code is the one the doc comment assigns -/
theorem wcslwr_s_reports (cfg : Cfg) (src slen : Nat) (srcbos : Bos) (st : St) (r : Nat) (st' : St)
    (he : exec (wcslwr_s cfg src slen srcbos) st = .ok (r, st')) :
    r = wcaseCode src slen srcbos ∧
      ((r = EOK ∧ st'.events = st.events) ∨ (r ≠ EOK ∧ st'.events = st.events ++ [.handler .str r])) :=
  wcase_s_reports _ _ src slen srcbos st r st' he

/-- wcsupr_s: the code is the one the doc comment assigns -/
theorem wcsupr_s_reports (cfg : Cfg) (src slen : Nat) (srcbos : Bos) (st : St) (r : Nat) (st' : St)
    (he : exec (wcsupr_s cfg src slen srcbos) st = .ok (r, st')) :
    r = wcaseCode src slen srcbos ∧
      ((r = EOK ∧ st'.events = st.events) ∨ (r ≠ EOK ∧ st'.events = st.events ++ [.handler .str r])) :=
  wcase_s_reports _ _ src slen srcbos st r st' he

theorem wcaseCode_mem (src slen : Nat) (srcbos : Bos) : wcaseCode src slen srcbos ∈ [EOK, ESNULLP, ESLEMAX, EOVERFLOW] := by
  unfold wcaseCode
  split
  · simp
  split
  · simp
  split
  · simp
  split
  · simp
  · split <;> simp

open SafeC.Props.C05Docs in
/-- wcslwr_s: every returned code is documented -/
theorem wcslwr_s_documented (cfg : Cfg) (src slen : Nat) (srcbos : Bos) :
    ReturnsDocumented "wcslwr_s" [] (wcslwr_s cfg src slen srcbos) id := by
  intro st r st' he
  have h := (wcslwr_s_reports cfg src slen srcbos st r st' he).1
  have hm := wcaseCode_mem src slen srcbos
  rw [← h] at hm
  have : ∀ c ∈ [EOK, ESNULLP, ESLEMAX, EOVERFLOW], c ∈ docCodes "wcslwr_s" ++ [] := by decide
  exact this r hm

open SafeC.Props.C05Docs in
/-- wcsupr_s: every returned code is documented -/
theorem wcsupr_s_documented (cfg : Cfg) (src slen : Nat) (srcbos : Bos) :
    ReturnsDocumented "wcsupr_s" [] (wcsupr_s cfg src slen srcbos) id := by
  intro st r st' he
  have h := (wcsupr_s_reports cfg src slen srcbos st r st' he).1
  have hm := wcaseCode_mem src slen srcbos
  rw [← h] at hm
  have : ∀ c ∈ [EOK, ESNULLP, ESLEMAX, EOVERFLOW], c ∈ docCodes "wcsupr_s" ++ [] := by decide
  exact this r hm

/-- non-vacuity: a run that reports (object of 7 bytes, two cells asked for), a run that succeeds on an unterminated
array, and the `slen = 0` shortcut with a null pointer -/
example : (exec (wcsupr_s {} 100 2 (some 7)) { data := fun _ => 0x61, mapped := fun _ => true, rd := fun _ => true, wr := fun _ => true }
    |>.toOption.map (fun x => (x.1, x.2.events))) = some (EOVERFLOW, [.handler .str EOVERFLOW]) := by decide
example : (exec (wcslwr_s {} 100 2 none) { data := fun _ => 0x41, mapped := fun _ => true, rd := fun _ => true, wr := fun _ => true }
    |>.toOption.map (fun x => (x.1, x.2.events, x.2.data 100, x.2.data 101, x.2.data 102))) = some (EOK, [], 0x61, 0x61, 0x41) := by decide
example : (exec (wcslwr_s {} 0 0 none) { data := fun _ => 0x41, mapped := fun _ => false, rd := fun _ => false, wr := fun _ => false }
    |>.toOption.map (fun x => (x.1, x.2.events))) = some (EOK, []) := by decide

end SafeC.Props.C05Ev

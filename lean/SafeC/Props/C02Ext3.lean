import SafeC.Proofs.AccWalk
import SafeC.Props.C02Ext1
/-!
# C02, full statements: `strrchr_s wmemcmp_s timingsafe_bcmp timingsafe_memcmp strnterminate_s`

These loops test their counter before they dereference (or have no data-dependent exit at all): the footprint
does not depend on the contents, so the value-independent judgement `Acc` gives the statement of C02 as it
stands — ONLY the declared cells mapped, every argument combination, every content, object sizes known or not.
-/
namespace SafeC.Props.C02
open SafeC Gen

/-- **strrchr_s** (FULL, after the repair of the tail read): `strnlen_s(dest, dmax)` then `memrchr` over at most
`dmax` cells — the unterminated array that exactly fills `dmax` included -/
theorem strrchr_s_C02 (dest dmax : Nat) (ch : Int) (db : Bos) (st : St) (hrd : dest ≠ 0 → RD st dest dmax) :
    Runs (strrchr_s dest dmax ch db) st :=
  runs_of_Acc (Acc_strrchr_s dest dmax ch db (fun h => Rd_of_RD (hrd h)))

/-- **wmemcmp_s** (FULL): the first `slen` elements of each operand, and only when `slen ≤ dlen` -/
theorem wmemcmp_s_C02 (dest dlen src slen : Nat) (db sb : Bos) (st : St)
    (hd : dest ≠ 0 → RD st dest dlen) (hs : src ≠ 0 → RD st src slen) :
    Runs (wmemcmp_s dest dlen src slen db sb) st :=
  runs_of_Acc (Acc_wmemcmp_s dest dlen src slen db sb
    (fun h hle a ha => Rd_of_RD (hd h) a (Cells.sub ha hle)) (fun h => Rd_of_RD (hs h)))

/-- **timingsafe_bcmp** (FULL): exactly the `n` bytes of each operand (no data-dependent exit) -/
theorem timingsafe_bcmp_C02 (b1 b2 n : Nat) (db sb : Bos) (st : St) (h1 : RD st b1 n) (h2 : RD st b2 n) :
    Runs (timingsafe_bcmp b1 b2 n db sb) st :=
  runs_of_Acc (Acc_timingsafe_bcmp b1 b2 n db sb (Rd_of_RD h1) (Rd_of_RD h2))

/-- **timingsafe_memcmp** (FULL) -/
theorem timingsafe_memcmp_C02 (b1 b2 n : Nat) (db sb : Bos) (st : St) (h1 : RD st b1 n) (h2 : RD st b2 n) :
    Runs (timingsafe_memcmp b1 b2 n db sb) st :=
  runs_of_Acc (Acc_timingsafe_memcmp b1 b2 n db sb (Rd_of_RD h1) (Rd_of_RD h2))

/-- **strnterminate_s** (FULL): `while (dmax > 1)` — reads `dest[0 .. dmax-1)`, writes one terminator inside `dmax` -/
theorem strnterminate_s_C02 (cfg : Cfg) (dest dmax : Nat) (db : Bos) (st : St) (hrw : dest ≠ 0 → RW st dest dmax) :
    Runs (strnterminate_s cfg dest dmax db) st :=
  runs_of_Acc (Acc_strnterminate_s cfg dest dmax db
    (fun h a ha => Rd_of_RW (hrw h) a (Cells.sub ha (by omega))) (fun h => Wr_of_RW (hrw h)))

/-- non-vacuity: two unterminated 4-cell arrays flush against unmapped memory -/
example : ∃ st : St, RD st 100 4 ∧ RD st 200 4 ∧ ¬ Term st 100 4 ∧ st.mapped 104 = false ∧ st.mapped 204 = false :=
  ⟨win (fun _ => 7) 100 104 200 204, fun i hi => by simp [win]; omega, fun i hi => by simp [win]; omega,
   fun ⟨i, _, h⟩ => by simp [win] at h, by decide, by decide⟩

end SafeC.Props.C02

import SafeC.Props.C15
/-!
# C15 — `wctomb_s`: the general theorem (twin of `wcrtomb_s_C15`)

`wctomb_s` differs from `wcrtomb_s` in three places, all visible in the statement: `*retvalp` is an `int` (−1 is modelled
as `none`, stored as `SIZE_MAX`), the success test is `len > 0 && len < dmax`, and the build without
SAFECLIB_STR_NULL_SLACK stores NO terminator (the C has only the `memset` under `#ifdef`), so `Delivered … term` holds with
`term = cfg.slack`.
-/
namespace SafeC.Props.C15
open SafeC.Conv SafeC.Gen

private theorem entryC_none' (a : CArgs) {cells} (hs : SaneC a cells) : entryC a = none := by
  have h1 : ¬ a.dmax = 0 := by have := hs.dpos; omega
  have h2 : ¬ a.dmax > RSIZE_MAX_WSTR := by have := hs.dmaxle; omega
  simp [entryC, hs.dest, h1, hs.bos, h2]

/-- libc's `wctomb` into a buffer: either −1 (nothing stored) or a positive count = the number of bytes stored -/
theorem wctomb_shape (loc : Locale) (wc : Nat) :
    ((Libc.wctomb loc false wc).2.1 = none) ∨
      (∃ n, (Libc.wctomb loc false wc).2.1 = some n ∧ 0 < n ∧ (Libc.wctomb loc false wc).1.length = n ∧ n ≤ 6) := by
  simp only [Libc.wctomb, Libc.wcrtomb, Bool.false_eq_true, ↓reduceIte]
  split
  · right; exact ⟨1, by simp [SIZE_MAX], by omega, by simp, by omega⟩
  · split
    · left; simp
    · rename_i bs hb
      right
      have hpos := Libc.enc_length_pos loc wc bs hb
      have h6 : bs.length ≤ 6 := by
        cases loc
        · simp only [Libc.enc, Libc.asciiEnc] at hb; split at hb <;> cases hb; simp
        · simp only [Libc.enc, Libc.utf8Enc] at hb
          repeat' split at hb
          all_goals first | (cases hb; simp) | cases hb
      have hne : ¬ bs.length = SIZE_MAX := by simp only [SIZE_MAX]; omega
      exact ⟨bs.length, by simp [hne], hpos, rfl, h6⟩

/-- **wctomb_s = wctomb when the character fits**: for every wide character (valid or not), locale, dmax, dest: if libc's
byte count is `< dmax` the call returns EOK, stores that count through `retvalp`, dest holds exactly libc's bytes (followed
by zeros up to dmax in the slack build; the other build stores no terminator), nothing outside `dest[0..dmax)`; in every
other case (no room, or −1) the handler is called once with the code returned, dest is cleared, `*retvalp` = libc's value -/
theorem wctomb_s_C15 (cfg : Cfg) (a : CArgs) {cells} (hs : SaneC a cells) :
    let bs := (Libc.wctomb cfg.loc false a.wc).1
    let n? := (Libc.wctomb cfg.loc false a.wc).2.1
    (∀ n, n? = some n → n < a.dmax → Delivered (wctomb_s cfg a) cells a.dmax ⟨bs, n, none, [], false⟩ cfg.slack) ∧
    ((n? = none ∨ ∃ n, n? = some n ∧ ¬ n < a.dmax) →
      Reported (wctomb_s cfg a) cells a.dmax cfg.slack ∧ (wctomb_s cfg a).retval = some (n?.getD SIZE_MAX) ∧
      (cfg.fx.rc = true → (wctomb_s cfg a).ret = if n? = none then EILSEQ else ESNOSPC)) := by
  intro bs n?
  have hsh := wctomb_shape cfg.loc a.wc
  have hmk : a.dest.map (fun c => ({ cells := c } : D)) = some { cells := cells } := by simp [hs.dest]
  have hd : a.dest.isNone = false := by simp [hs.dest]
  constructor
  · intro n hn hlt
    have hn' : (Libc.wctomb cfg.loc false a.wc).2.1 = some n := hn
    obtain ⟨n', hn2, hpos, hlen, _⟩ := hsh.resolve_left (by rw [hn']; simp)
    rw [hn'] at hn2; cases hn2
    have hlen' : bs.length = n := hlen
    have hfits : (decide (n > 0) && decide (n < a.dmax)) = true := by simp; omega
    cases hsl : cfg.slack with
    | true =>
      have key := stored_then_zeroed cells bs n (a.dmax - n) (by omega) (by omega) (by omega) (by have := hs.truthful; omega)
      have hdest : (wctomb_s cfg a).dest = some ((({ cells := cells } : D).write 0 bs).zero n (a.dmax - n)) := by
        cases hst : cfg.fx.stage <;>
          simp [wctomb_s, hs.rv, entryC_none' a hs, hd, hmk, hn', hfits, hsl, hst] <;> rfl
      have hret : (wctomb_s cfg a).ret = EOK ∧ (wctomb_s cfg a).retval = some n ∧ (wctomb_s cfg a).ev = [] := by
        cases hst : cfg.fx.stage <;>
          simp [wctomb_s, hs.rv, entryC_none' a hs, hd, hmk, hn', hfits, hsl, hst]
      have := key.2.1
      exact ⟨hret.1, hret.2.1, hret.2.2, _, hdest, key.1, by omega, key.2.2.1, key.2.2.2.1,
        fun _ => key.2.2.2.2 n (Nat.le_refl _) (by omega)⟩
    | false =>
      have h1 : 0 + bs.length ≤ ({ cells := cells } : D).cells.length := by have := hs.truthful; simp; omega
      have hw := D.write_cells { cells := cells } 0 bs h1
      have hdest : (wctomb_s cfg a).dest = some (({ cells := cells } : D).write 0 bs) := by
        cases hst : cfg.fx.stage <;>
          simp [wctomb_s, hs.rv, entryC_none' a hs, hd, hmk, hn', hfits, hsl, hst] <;> rfl
      have hret : (wctomb_s cfg a).ret = EOK ∧ (wctomb_s cfg a).retval = some n ∧ (wctomb_s cfg a).ev = [] := by
        cases hst : cfg.fx.stage <;>
          simp [wctomb_s, hs.rv, entryC_none' a hs, hd, hmk, hn', hfits, hsl, hst]
      refine ⟨hret.1, hret.2.1, hret.2.2, _, hdest, D.write_fault _ 0 _ rfl h1, D.write_hi _ 0 _ _ (by simp) (by omega),
        D.write_length _ 0 _, ?_, by intro h; cases h⟩
      rw [hw]; simp only [List.take_zero, List.nil_append, Nat.zero_add]
      rw [List.take_append_of_le_length (by omega)]
  · intro hcase
    have hstruct : ∃ (w : List Nat),
        (wctomb_s cfg a).dest = some (clearCells cfg.slack (({ cells := cells } : D).write 0 w) a.dmax) ∧
        (wctomb_s cfg a).ev = [(wctomb_s cfg a).ret] ∧
        (wctomb_s cfg a).retval = some ((Libc.wctomb cfg.loc false a.wc).2.1.getD SIZE_MAX) ∧
        (cfg.fx.rc = true → (wctomb_s cfg a).ret = if (Libc.wctomb cfg.loc false a.wc).2.1 = none then EILSEQ else ESNOSPC) := by
      rcases hcase with h | ⟨n, h, hn⟩
      · have h' : (Libc.wctomb cfg.loc false a.wc).2.1 = none := h
        cases hst : cfg.fx.stage
        · refine ⟨(Libc.wctomb cfg.loc false a.wc).1, ?_, ?_, ?_, ?_⟩ <;>
            simp [wctomb_s, hs.rv, entryC_none' a hs, hd, hmk, hst, h']
          intro hrc; simp [hrc]
        · refine ⟨[], ?_, ?_, ?_, ?_⟩ <;>
            simp [wctomb_s, hs.rv, entryC_none' a hs, hd, hmk, hst, h', D.write]
          intro hrc; simp [hrc]
      · have h' : (Libc.wctomb cfg.loc false a.wc).2.1 = some n := h
        obtain ⟨n', hn2, hpos, _, _⟩ := hsh.resolve_left (by rw [h']; simp)
        rw [h'] at hn2; cases hn2
        have hz : ¬ n = 0 := by omega
        cases hst : cfg.fx.stage
        · refine ⟨(Libc.wctomb cfg.loc false a.wc).1, ?_, ?_, ?_, ?_⟩ <;>
            simp [wctomb_s, hs.rv, entryC_none' a hs, hd, hmk, hst, h', hn]
          intro hrc; simp [hrc, hz]
        · refine ⟨[], ?_, ?_, ?_, ?_⟩ <;>
            simp [wctomb_s, hs.rv, entryC_none' a hs, hd, hmk, hst, h', hn, D.write]
          intro hrc; simp [hrc, hz]
    obtain ⟨w, hw, hev, hrv, hrc⟩ := hstruct
    have key := stored_then_cleared cfg.slack cells w a.dmax hs.dpos hs.truthful
    exact ⟨⟨hev, _, hw, key.1, key.2.1, key.2.2⟩, hrv, hrc⟩

/-- the hypotheses are satisfiable on both branches: U+20AC into 4 bytes (fits), into 3 bytes (does not) -/
example : (Libc.wctomb .UTF8 false 0x20AC).2.1 = some 3 ∧ (Libc.wctomb .UTF8 false 0xD800).2.1 = none := by decide

end SafeC.Props.C15

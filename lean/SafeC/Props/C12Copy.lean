import SafeC.Proofs.Footprint
import SafeC.Props.C02
/-!
# C12, fourth part — the string copy family: footprints from the guarded semantics

`strcpy_s`, `wcscpy_s`, `strncpy_s`, `strcat_s` have no `Acc`-style footprint proof; their C02 theorems
(`Props/C02.lean`: with valid, non-overlapping operands the guarded run neither faults nor records a stray
access when only the operands are mapped) give the footprint through `within2_of_guarded`:
the total run from ANY memory loads from dest ∪ source string and stores to dest only.  So two (or N) copies
from the SAME source string into disjoint destinations are covered (`strcpy_s_shared_source`).
-/
namespace SafeC.Props.C12Copy
open SafeC Gen SafeC.Props.C02

/-- the `dmax` cells of dest -/
def Dest (dest dmax : Nat) (a : Nat) : Prop := dest ≤ a ∧ a < dest + dmax
/-- the `n` characters of the source string and its terminator -/
def Src (src n : Nat) (a : Nat) : Prop := src ≤ a ∧ a ≤ src + n

instance (dest dmax : Nat) : DecidablePred (Dest dest dmax) := fun a => by unfold Dest; exact inferInstance
instance (src n : Nat) : DecidablePred (Src src n) := fun a => by unfold Src; exact inferInstance

/-- a NUL-terminated string of length `n` at `s` (contents only) -/
structure IsStr (st : St) (s n : Nat) : Prop where
  nz : ∀ j, j < n → st.data (s+j) ≠ 0
  nul : st.data (s+n) = 0

/-- the permission-free core: a program that, seen with only `dest` (read/write) and the source string
(read) mapped, runs without fault or stray access -/
theorem fp_of_C02 {α : Type} (p : Prog α) (dest dmax src n : Nat) (st : St)
    (h : ∀ st0 : St, st0.data = st.data → RW st0 dest dmax →
      (∀ j, j ≤ n → st0.mapped (src+j) = true ∧ st0.rd (src+j) = true) →
      ∃ code st', exec p st0 = .ok (code, st') ∧ NoStray st0 st') :
    Within2 (fun a => Dest dest dmax a ∨ Src src n a) (Dest dest dmax) p st := by
  let R : Nat → Bool := fun a => decide (Dest dest dmax a ∨ Src src n a)
  let W : Nat → Bool := fun a => decide (Dest dest dmax a)
  have hrw : RW (privRW st R W) dest dmax := by
    intro i hi
    have hd : Dest dest dmax (dest + i) := ⟨by omega, by omega⟩
    refine ⟨?_, ?_, ?_⟩
    · simp [privRW, R, W, hd]
    · simp [privRW, W, hd]
    · simp [privRW, R, hd]
  have hrd : ∀ j, j ≤ n → (privRW st R W).mapped (src+j) = true ∧ (privRW st R W).rd (src+j) = true := by
    intro j hj
    have hsrc : Src src n (src + j) := ⟨by omega, by omega⟩
    constructor
    · simp [privRW, R, hsrc]
    · simp [privRW, R, hsrc]
  obtain ⟨code, st', he, hns⟩ := h (privRW st R W) rfl hrw hrd
  have := (within2_of_guarded p st R W he hns).1
  refine within2_mono ?_ ?_ p st this
  · intro a ha; simpa [R] using ha
  · intro a ha; simpa [W] using ha

theorem strcpy_s_fp (cfg : Cfg) (dest dmax src n : Nat) (st : St)
    (hd : dest ≠ 0) (hs : src ≠ 0) (hpos : 0 < dmax) (hle : dmax ≤ RSIZE_MAX_STR)
    (hstr : IsStr st src n) (hdisj : Disjoint dest dmax src n) :
    Within2 (fun a => Dest dest dmax a ∨ Src src n a) (Dest dest dmax) (strcpy_s cfg dest dmax src none) st :=
  fp_of_C02 _ dest dmax src n st (fun st0 hd0 hrw hrd =>
    strcpy_s_C02 cfg dest dmax src n st0 hd hs hpos hle hrw
      ⟨fun j hj => by rw [hd0]; exact hstr.nz j hj, by rw [hd0]; exact hstr.nul, hrd⟩ hdisj)

theorem wcscpy_s_fp (cfg : Cfg) (dest dmax src n : Nat) (st : St)
    (hd : dest ≠ 0) (hs : src ≠ 0) (hpos : 0 < dmax) (hle : dmax ≤ RSIZE_MAX_WSTR)
    (hstr : IsStr st src n) (hdisj : Disjoint dest dmax src n) :
    Within2 (fun a => Dest dest dmax a ∨ Src src n a) (Dest dest dmax) (wcscpy_s cfg dest dmax src none) st :=
  fp_of_C02 _ dest dmax src n st (fun st0 hd0 hrw hrd =>
    wcscpy_s_C02 cfg dest dmax src n st0 hd hs hpos hle hrw
      ⟨fun j hj => by rw [hd0]; exact hstr.nz j hj, by rw [hd0]; exact hstr.nul, hrd⟩ hdisj)

theorem strcat_s_fp (cfg : Cfg) (dest dmax src dl n : Nat) (st : St)
    (hd : dest ≠ 0) (hs : src ≠ 0) (hpos : 0 < dmax) (hle : dmax ≤ RSIZE_MAX_STR)
    (hstr : IsStr st src n) (hdisj : Disjoint dest dmax src n)
    (hdl : dl < dmax) (hdst : IsStr st dest dl) :
    Within2 (fun a => Dest dest dmax a ∨ Src src n a) (Dest dest dmax) (strcat_s cfg dest dmax src none) st :=
  fp_of_C02 _ dest dmax src n st (fun st0 hd0 hrw hrd =>
    strcat_s_C02 cfg dest dmax src dl n st0 hd hs hpos hle hrw
      ⟨fun j hj => by rw [hd0]; exact hstr.nz j hj, by rw [hd0]; exact hstr.nul, hrd⟩ hdisj hdl
      (fun j hj => by rw [hd0]; exact hdst.nz j hj) (by rw [hd0]; exact hdst.nul))

/-- `strncpy_s(dest, dmax, src, slen)`: `m` = number of source characters before the terminator or `slen`,
whichever comes first; the cell `src + slen` is not touched when no terminator is met -/
theorem strncpy_s_fp (cfg : Cfg) (dest dmax src slen m : Nat) (st : St)
    (hd : dest ≠ 0) (hs : src ≠ 0) (hpos : 0 < dmax) (hle : dmax ≤ RSIZE_MAX_STR)
    (hslen : 0 < slen) (hslenle : slen ≤ RSIZE_MAX_STR)
    (hnz : ∀ j, j < m → st.data (src+j) ≠ 0)
    (hfin : (m < slen ∧ st.data (src+m) = 0) ∨ slen = m)
    (hdisj : dest + dmax ≤ src ∨ src + m < dest) :
    Within2 (fun a => Dest dest dmax a ∨ Src src m a) (Dest dest dmax)
      (strncpy_s cfg dest dmax src slen none none) st :=
  fp_of_C02 _ dest dmax src m st (fun st0 hd0 hrw hrd =>
    strncpy_s_C02 cfg dest dmax src slen m st0 hd hs hpos hle hslen hslenle hrw
      (fun j hj => by rw [hd0]; exact hnz j hj) (fun j hj => hrd j (by omega))
      (hfin.elim (fun h => Or.inl ⟨h.1, by rw [hd0]; exact h.2, hrd m (Nat.le_refl _)⟩) Or.inr) hdisj)

/-- **two `strcpy_s` calls copying the SAME source string** into disjoint destinations (both away from
the source), any schedule that lets both finish: each returns its run-alone code, each dest holds its
run-alone contents, the source and everything else is untouched -/
theorem strcpy_s_shared_source (cfg : Cfg) (d1 m1 d2 m2 src n : Nat) (st : St)
    (hd1 : d1 ≠ 0) (hd2 : d2 ≠ 0) (hs : src ≠ 0) (hpos1 : 0 < m1) (hle1 : m1 ≤ RSIZE_MAX_STR)
    (hpos2 : 0 < m2) (hle2 : m2 ≤ RSIZE_MAX_STR) (hstr : IsStr st src n)
    (hdisj1 : Disjoint d1 m1 src n) (hdisj2 : Disjoint d2 m2 src n)
    (h12 : d1 + m1 ≤ d2 ∨ d2 + m2 ≤ d1)
    (sch : List Bool)
    (hfin : done (runSched sch (strcpy_s cfg d1 m1 src none) (strcpy_s cfg d2 m2 src none) st).1 = true ∧
            done (runSched sch (strcpy_s cfg d1 m1 src none) (strcpy_s cfg d2 m2 src none) st).2.1 = true) :
    (runSched sch (strcpy_s cfg d1 m1 src none) (strcpy_s cfg d2 m2 src none) st).1 =
      .ret (runT (strcpy_s cfg d1 m1 src none) st).1 ∧
    (runSched sch (strcpy_s cfg d1 m1 src none) (strcpy_s cfg d2 m2 src none) st).2.1 =
      .ret (runT (strcpy_s cfg d2 m2 src none) st).1 ∧
    (∀ a, Dest d1 m1 a → (runSched sch (strcpy_s cfg d1 m1 src none) (strcpy_s cfg d2 m2 src none) st).2.2.data a =
      (runT (strcpy_s cfg d1 m1 src none) st).2.data a) ∧
    (∀ a, Dest d2 m2 a → (runSched sch (strcpy_s cfg d1 m1 src none) (strcpy_s cfg d2 m2 src none) st).2.2.data a =
      (runT (strcpy_s cfg d2 m2 src none) st).2.data a) ∧
    (∀ a, ¬ Dest d1 m1 a → ¬ Dest d2 m2 a →
      (runSched sch (strcpy_s cfg d1 m1 src none) (strcpy_s cfg d2 m2 src none) st).2.2.data a = st.data a) := by
  have f1 := strcpy_s_fp cfg d1 m1 src n st hd1 hs hpos1 hle1 hstr hdisj1
  have f2 := strcpy_s_fp cfg d2 m2 src n st hd2 hs hpos2 hle2 hstr hdisj2
  obtain ⟨e1, e2, e3, e4, e5⟩ := interleave_shared
    (by intro a ⟨h1, h2⟩
        refine ⟨fun h => ?_, fun h => ?_⟩
        · rcases h with ⟨h3, h4⟩ | ⟨h3, h4⟩
          · omega
          · unfold Disjoint at hdisj1; omega
        · obtain ⟨h3, h4⟩ := h; omega)
    (by intro a ⟨h1, h2⟩
        refine ⟨fun h => ?_, fun h => ?_⟩
        · rcases h with ⟨h3, h4⟩ | ⟨h3, h4⟩
          · omega
          · unfold Disjoint at hdisj2; omega
        · obtain ⟨h3, h4⟩ := h; omega)
    sch _ _ st f1 f2 hfin
  exact ⟨e1, e2, fun a h => e3 a (Or.inr h), fun a h => e4 a (Or.inr h), e5⟩

/-- non-vacuity: "ab" at 200 copied by two threads to 100 (8 cells) and 300 (2 cells: ESNOSPC) -/
example :
    let st : St := { data := fun a => if a = 200 ∨ a = 201 then 65 else 0,
                     mapped := fun _ => false, rd := fun _ => false, wr := fun _ => false }
    IsStr st 200 2 ∧ Disjoint 100 8 200 2 ∧ Disjoint 300 2 200 2 := by
  refine ⟨⟨?_, ?_⟩, Or.inl (by decide), Or.inr (by decide)⟩
  · intro j hj
    have : j = 0 ∨ j = 1 := by omega
    rcases this with rfl | rfl <;> simp
  · simp

end SafeC.Props.C12Copy

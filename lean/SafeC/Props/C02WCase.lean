import SafeC.Proofs.Acc
import SafeC.Models.WCase
import SafeC.Props.C02Query
import SafeC.Proofs.C02Glue
/-!
# C02 for the wide case mappers `wcslwr_s`, `wcsupr_s`

The full statement — "with `src[0..slen)` mapped and declared and NOTHING else, the call returns without a stray
access" — is FALSE of the model, as it is of the C: the loop header is `while (*src && slen)`, the cell is read before
the counter is tested, so an array of exactly `slen` non-NUL cells makes the call read `src[slen]`:

    theorem wcase_s_C02 (hrw : src ≠ 0 → RW st src slen) : Runs (wcase_s rb f src slen b) st        -- false: `…_witness`

* `wcase_s_C02_partial`: under the one extra hypothesis the proof forces — the cell `src[slen]` is readable too —
  for ALL arguments, all contents and every cell mapping `f`: the call returns, no stray read, no stray write, every
  cell outside `src[0..slen)` unchanged.  Reads lie in `src[0..slen]`, writes in `src[0..slen)`.
* `wcslwr_s_C02_witness` / `wcsupr_s_C02_witness` (kernel-decided): two cells `A A` flush against an unmapped cell,
  `slen = 2`: the run ends in `Fault.read (src + 2)` — after both cells have been converted.
  The same class as `read-before-bound` of known_findings.jsonl (signatures `wcslwr_s:rfault@dest+dmax`,
  `wcsupr_s:rfault@dest+dmax` in the correspondence run).
-/
namespace SafeC.Props.C02
open SafeC Gen

theorem Acc_wcaseLoop (rb : Bool) (f : Nat → Nat) (slen src : Nat) :
    Acc (In src (slen+1)) (In src slen) (wcaseLoop rb f slen src) (fun _ => True) := by
  induction slen generalizing src with
  | zero =>
    unfold wcaseLoop
    split
    · exact Acc.bind (Acc.loadP src ⟨Nat.le_refl _, by omega⟩) (fun _ _ => Acc.pure _ trivial)
    · exact Acc.pure _ trivial
  | succ k ih =>
    unfold wcaseLoop
    have hin : In src (k+1+1) src := ⟨Nat.le_refl _, by omega⟩
    refine Acc.bind (Acc.loadP src hin) (fun c _ => ?_)
    split
    · exact Acc.pure _ trivial
    · refine Acc.bind (Acc.loadP src hin) (fun c1 _ => ?_)
      refine Acc.bind (Acc.storeP src _ ⟨Nat.le_refl _, by omega⟩) (fun _ _ => ?_)
      exact (ih (src+1)).mono (fun a ⟨h1, h2⟩ => ⟨by omega, by omega⟩) (fun a ⟨h1, h2⟩ => ⟨by omega, by omega⟩)

theorem Acc_wcase_s (rb : Bool) (f : Nat → Nat) (src slen : Nat) (b : Bos) :
    Acc (fun a => src ≠ 0 ∧ In src (slen+1) a) (fun a => src ≠ 0 ∧ In src slen a) (wcase_s rb f src slen b) (fun _ => True) := by
  unfold wcase_s
  split
  · exact Acc.pure _ trivial
  split
  · exact Acc_failS _
  rename_i hd
  split
  · exact Acc_failS _
  have body : Acc (fun a => src ≠ 0 ∧ In src (slen+1) a) (fun a => src ≠ 0 ∧ In src slen a)
      (do wcaseLoop rb f slen src; pure EOK : Prog Nat) (fun _ => True) :=
    Acc.bind ((Acc_wcaseLoop rb f slen src).mono (fun a h => ⟨hd, h⟩) (fun a h => ⟨hd, h⟩)) (fun _ _ => Acc.pure _ trivial)
  dsimp only
  split
  · exact body
  · split
    · exact Acc_failS _
    · exact body

/-- the shared text, every mapping, ALL arguments: with `src[0..slen)` declared and `src[slen]` readable, the call
returns, records no stray access and changes nothing outside `src[0..slen)` -/
theorem wcase_s_C02_partial (rb : Bool) (f : Nat → Nat) (src slen : Nat) (b : Bos) (st : St)
    (hrw : src ≠ 0 → RW st src slen) (hx : src ≠ 0 → st.mapped (src+slen) = true ∧ st.rd (src+slen) = true) :
    ∃ r st', exec (wcase_s rb f src slen b) st = .ok (r, st') ∧ NoStray st st' ∧
      ∀ a, ¬ (src ≠ 0 ∧ In src slen a) → st'.data a = st.data a := by
  obtain ⟨r, st', he, _, hst, hfr⟩ := (Acc_wcase_s rb f src slen b).sound st
    (fun a ⟨hs, h1, h2⟩ => by
      by_cases ha : a < src + slen
      · exact (RW_of st src slen (hrw hs)).1 a ⟨h1, ha⟩
      · have : a = src + slen := by omega
        subst this; exact hx hs)
    (fun a ⟨hs, h⟩ => (RW_of st src slen (hrw hs)).2 a h)
  exact ⟨r, st', he, hst, hfr⟩

/-- **wcslwr_s** -/
theorem wcslwr_s_C02_partial (cfg : Cfg) (src slen : Nat) (b : Bos) (st : St)
    (hrw : src ≠ 0 → RW st src slen) (hx : src ≠ 0 → st.mapped (src+slen) = true ∧ st.rd (src+slen) = true) :
    ∃ r st', exec (wcslwr_s cfg src slen b) st = .ok (r, st') ∧ NoStray st st' ∧
      ∀ a, ¬ (src ≠ 0 ∧ In src slen a) → st'.data a = st.data a :=
  wcase_s_C02_partial _ _ src slen b st hrw hx

/-- **wcsupr_s** -/
theorem wcsupr_s_C02_partial (cfg : Cfg) (src slen : Nat) (b : Bos) (st : St)
    (hrw : src ≠ 0 → RW st src slen) (hx : src ≠ 0 → st.mapped (src+slen) = true ∧ st.rd (src+slen) = true) :
    ∃ r st', exec (wcsupr_s cfg src slen b) st = .ok (r, st') ∧ NoStray st st' ∧
      ∀ a, ¬ (src ≠ 0 ∧ In src slen a) → st'.data a = st.data a :=
  wcase_s_C02_partial _ _ src slen b st hrw hx

/-- the hypotheses of the partial theorems are satisfiable: three cells declared, the fourth readable -/
example : ∃ st : St, ((100 : Nat) ≠ 0 → RW st 100 3) ∧ ((100 : Nat) ≠ 0 → st.mapped (100+3) = true ∧ st.rd (100+3) = true) :=
  ⟨{ data := fun _ => 0x47, mapped := fun a => decide (100 ≤ a ∧ a < 104), rd := fun a => decide (100 ≤ a ∧ a < 104),
     wr := fun a => decide (100 ≤ a ∧ a < 103) },
   fun _ i hi => ⟨by simp; omega, by simp; omega, by simp; omega⟩, fun _ => ⟨by decide, by decide⟩⟩

/-- the memory of the witnesses: cells 100, 101 hold 'A' and are declared; nothing else is mapped -/
def witnessSt : St :=
  { data := fun _ => 0x41, mapped := fun a => decide (100 ≤ a ∧ a < 102), rd := fun a => decide (100 ≤ a ∧ a < 102),
    wr := fun a => decide (100 ≤ a ∧ a < 102) }

/-- the full statement fails: `RW witnessSt 100 2` holds, the call faults reading `src[slen]` -/
theorem wcslwr_s_C02_witness : RW witnessSt 100 2 ∧ faultOf (exec (wcslwr_s { fixWcaseOrder := false } 100 2 none) witnessSt) = some (.read 102) := by
  refine ⟨fun i hi => ?_, by decide⟩
  have : i = 0 ∨ i = 1 := by omega
  rcases this with h | h <;> subst h <;> decide

theorem wcsupr_s_C02_witness : RW witnessSt 100 2 ∧ faultOf (exec (wcsupr_s { fixWcaseOrder := false } 100 2 (some 8)) witnessSt) = some (.read 102) := by
  refine ⟨fun i hi => ?_, by decide⟩
  have : i = 0 ∨ i = 1 := by omega
  rcases this with h | h <;> subst h <;> decide

/-! ## the repaired loop order (`slen && *src`, 7997192 / c770409): the FULL statement, no extra readable cell -/

theorem Acc_wcaseLoop_fixed (f : Nat → Nat) (slen src : Nat) :
    Acc (In src slen) (In src slen) (wcaseLoop false f slen src) (fun _ => True) := by
  induction slen generalizing src with
  | zero =>
    unfold wcaseLoop
    exact Acc.pure _ trivial
  | succ k ih =>
    unfold wcaseLoop
    have hin : In src (k+1) src := ⟨Nat.le_refl _, by omega⟩
    refine Acc.bind (Acc.loadP src hin) (fun c _ => ?_)
    split
    · exact Acc.pure _ trivial
    · refine Acc.bind (Acc.loadP src hin) (fun c1 _ => ?_)
      refine Acc.bind (Acc.storeP src _ hin) (fun _ _ => ?_)
      exact (ih (src+1)).mono (fun a ⟨h1, h2⟩ => ⟨by omega, by omega⟩) (fun a ⟨h1, h2⟩ => ⟨by omega, by omega⟩)

theorem Acc_wcase_s_fixed (f : Nat → Nat) (src slen : Nat) (b : Bos) :
    Acc (fun a => src ≠ 0 ∧ In src slen a) (fun a => src ≠ 0 ∧ In src slen a) (wcase_s false f src slen b) (fun _ => True) := by
  unfold wcase_s
  split
  · exact Acc.pure _ trivial
  split
  · exact Acc_failS _
  rename_i hd
  split
  · exact Acc_failS _
  have body : Acc (fun a => src ≠ 0 ∧ In src slen a) (fun a => src ≠ 0 ∧ In src slen a)
      (do wcaseLoop false f slen src; pure EOK : Prog Nat) (fun _ => True) :=
    Acc.bind ((Acc_wcaseLoop_fixed f slen src).mono (fun a h => ⟨hd, h⟩) (fun a h => ⟨hd, h⟩)) (fun _ _ => Acc.pure _ trivial)
  dsimp only
  split
  · exact body
  · split
    · exact Acc_failS _
    · exact body

/-- the shared text with the repaired loop, every mapping, ALL arguments: with exactly `src[0..slen)` declared (nothing behind
it needs to be mapped) the call returns, records no stray access and changes nothing outside `src[0..slen)` -/
theorem wcase_s_C02_fixed (f : Nat → Nat) (src slen : Nat) (b : Bos) (st : St) (hrw : src ≠ 0 → RW st src slen) :
    ∃ r st', exec (wcase_s false f src slen b) st = .ok (r, st') ∧ NoStray st st' ∧
      ∀ a, ¬ (src ≠ 0 ∧ In src slen a) → st'.data a = st.data a := by
  obtain ⟨r, st', he, _, hst, hfr⟩ := (Acc_wcase_s_fixed f src slen b).sound st
    (fun a ⟨hs, h⟩ => (RW_of st src slen (hrw hs)).1 a h)
    (fun a ⟨hs, h⟩ => (RW_of st src slen (hrw hs)).2 a h)
  exact ⟨r, st', he, hst, hfr⟩

/-- **wcslwr_s, current tree**: C02 outright -/
theorem wcslwr_s_C02_fixed (cfg : Cfg) (hfx : cfg.fixWcaseOrder = true) (src slen : Nat) (b : Bos) (st : St)
    (hrw : src ≠ 0 → RW st src slen) :
    ∃ r st', exec (wcslwr_s cfg src slen b) st = .ok (r, st') ∧ NoStray st st' ∧
      ∀ a, ¬ (src ≠ 0 ∧ In src slen a) → st'.data a = st.data a := by
  unfold wcslwr_s; rw [hfx]; exact wcase_s_C02_fixed _ src slen b st hrw

/-- **wcsupr_s, current tree**: C02 outright -/
theorem wcsupr_s_C02_fixed (cfg : Cfg) (hfx : cfg.fixWcaseOrder = true) (src slen : Nat) (b : Bos) (st : St)
    (hrw : src ≠ 0 → RW st src slen) :
    ∃ r st', exec (wcsupr_s cfg src slen b) st = .ok (r, st') ∧ NoStray st st' ∧
      ∀ a, ¬ (src ≠ 0 ∧ In src slen a) → st'.data a = st.data a := by
  unfold wcsupr_s; rw [hfx]; exact wcase_s_C02_fixed _ src slen b st hrw

/-- non-vacuity: two cells declared, the cell behind them UNMAPPED -/
example : ∃ st : St, ((100 : Nat) ≠ 0 → RW st 100 2) ∧ st.mapped 102 = false :=
  ⟨{ data := fun _ => 0x47, mapped := fun a => decide (100 ≤ a ∧ a < 102), rd := fun a => decide (100 ≤ a ∧ a < 102),
     wr := fun a => decide (100 ≤ a ∧ a < 102) },
   fun _ i hi => ⟨by simp; omega, by simp; omega, by simp; omega⟩, by simp⟩


end SafeC.Props.C02

import SafeC.Models.Copy
/-! Property theorems for C07 (see DESIGN.md §4). -/
namespace SafeC.Props.C07
end SafeC.Props.C07

import SafeC.Proofs.CopyOverlap
import SafeC.Proofs.CopyDisjoint
/-!
# C07 — overlapping operands are detected

For strcpy_s / wcscpy_s and every relative placement of `src` and `dest`:
* `*_overlap`: whenever the characters a plain strcpy would write (`dest[0..n]`) and read
  (`src[0..n]`) intersect, and the meeting point lies inside dest, the call reports ESOVRLP, exactly
  once, with dest cleared and nothing outside dest touched — never a silently corrupted copy;
* `*_disjoint_not_rejected`: operands that are disjoint are never rejected as overlapping.
The FULL statement also asks that a *short* source lying inside dest's dmax extent behind the copied
characters be rejected; with null-slack the code accepts it and the slack fill then zeroes the source
(`slack-fill-destroys-source`, known finding) — `strcpy_s_C07_witness` is that excluded point.
The memmove family ("exactly the bytes a copy through a temporary would") is decided by
correspondence only until `mem_prim_move` is modelled (see evidence: unmodelled functions).
-/
namespace SafeC.Props.C07
open SafeC Gen

theorem strcpy_s_overlap (cfg : Cfg) (dest dmax src n : Nat) (st : St)
    (hall : ∀ a, st.mapped a = true ∧ st.rd a = true)
    (hd : dest ≠ 0) (hs : src ≠ 0) (hne : dest ≠ src) (hpos : 0 < dmax) (hle : dmax ≤ RSIZE_MAX_STR)
    (hrw : RW st dest dmax)
    (hnz : ∀ j, j < n → st.data (src+j) ≠ 0)
    (hg : (if dest < src then src - dest else dest - src) ≤ n)
    (hgd : (if dest < src then src - dest else dest - src) < dmax) :
    ∃ st', exec (strcpy_s cfg dest dmax src none) st = .ok (ESOVRLP, st') ∧
      st'.strays = st.strays ∧
      st'.events = st.events ++ [.handler .str ESOVRLP] ∧
      st'.data dest = 0 ∧
      (cfg.slack = true → ∀ i, i < dmax → st'.data (dest + i) = 0) ∧
      (∀ a, ¬ (dest ≤ a ∧ a < dest + dmax) → st'.data a = st.data a) :=
  strcpyG_overlap _ cfg dest dmax src n st hall hd hs hne hpos hle hrw hnz hg hgd

theorem wcscpy_eq (cfg : Cfg) (dest dmax src : Nat) :
    wcscpy_s cfg dest dmax src none = strcpyG RSIZE_MAX_WSTR cfg dest dmax src none := by
  unfold wcscpy_s strcpyG chkDmaxClearW chkDmaxClear chkDmaxClearG failS
  rfl

theorem wcscpy_s_overlap (cfg : Cfg) (dest dmax src n : Nat) (st : St)
    (hall : ∀ a, st.mapped a = true ∧ st.rd a = true)
    (hd : dest ≠ 0) (hs : src ≠ 0) (hne : dest ≠ src) (hpos : 0 < dmax) (hle : dmax ≤ RSIZE_MAX_WSTR)
    (hrw : RW st dest dmax)
    (hnz : ∀ j, j < n → st.data (src+j) ≠ 0)
    (hg : (if dest < src then src - dest else dest - src) ≤ n)
    (hgd : (if dest < src then src - dest else dest - src) < dmax) :
    ∃ st', exec (wcscpy_s cfg dest dmax src none) st = .ok (ESOVRLP, st') ∧
      st'.strays = st.strays ∧
      st'.events = st.events ++ [.handler .str ESOVRLP] ∧
      st'.data dest = 0 ∧
      (cfg.slack = true → ∀ i, i < dmax → st'.data (dest + i) = 0) ∧
      (∀ a, ¬ (dest ≤ a ∧ a < dest + dmax) → st'.data a = st.data a) := by
  rw [wcscpy_eq]
  exact strcpyG_overlap _ cfg dest dmax src n st hall hd hs hne hpos hle hrw hnz hg hgd

/-- disjoint operands are never rejected as overlapping (they succeed or fail with ESNOSPC) -/
theorem strcpy_s_disjoint_not_rejected (cfg : Cfg) (dest dmax src n : Nat) (st : St)
    (hd : dest ≠ 0) (hs : src ≠ 0) (hpos : 0 < dmax) (hle : dmax ≤ RSIZE_MAX_STR)
    (hrw : RW st dest dmax) (hsrc : SrcStr st src n) (hdisj : Disjoint dest dmax src n) :
    ∃ code st', exec (strcpy_s cfg dest dmax src none) st = .ok (code, st') ∧ code ≠ ESOVRLP := by
  obtain ⟨code, st', he, _, _, _, _, _, hok, hfail⟩ :=
    strcpyG_disjoint _ cfg dest dmax src n st hd hs hpos hle hrw hsrc hdisj
  refine ⟨code, st', he, ?_⟩
  by_cases h : n < dmax
  · rw [(hok h).1]; decide
  · rw [(hfail (by omega)).1]; decide

theorem strcat_s_disjoint_not_rejected (cfg : Cfg) (dest dmax src dl n : Nat) (st : St)
    (hd : dest ≠ 0) (hs : src ≠ 0) (hpos : 0 < dmax) (hle : dmax ≤ RSIZE_MAX_STR)
    (hrw : RW st dest dmax) (hsrc : SrcStr st src n) (hdisj : Disjoint dest dmax src n)
    (hdl : dl < dmax) (hdnz : ∀ j, j < dl → st.data (dest+j) ≠ 0) (hdnul : st.data (dest+dl) = 0) :
    ∃ code st', exec (strcat_s cfg dest dmax src none) st = .ok (code, st') ∧ code ≠ ESOVRLP := by
  obtain ⟨code, st', he, _, _, _, _, _, hok, hfail⟩ :=
    strcatG_disjoint _ cfg dest dmax src dl n st hd hs hpos hle hrw hsrc hdisj hdl hdnz hdnul
  refine ⟨code, st', he, ?_⟩
  by_cases h : dl + n < dmax
  · rw [(hok h).1]; decide
  · rw [(hfail (by omega)).1]; decide

/-- the excluded point of the full statement: `strcpy_s(d, 4, d+2)` with `d+2 = "a"`, null-slack:
EOK, and the source's first cell has been zeroed by the slack fill -/
def wSt : St :=
  { data := fun a => if a = 102 then 97 else if a = 103 then 0 else 88
    mapped := fun _ => true, rd := fun _ => true
    wr := fun a => decide (100 ≤ a ∧ a < 104) }

/-- return code and one cell of the final memory (decidable observation of a run) -/
def observe (r : Except Fault (Nat × St)) (a : Nat) : Option (Nat × Nat) :=
  match r with
  | .ok (c, s) => some (c, s.data a)
  | .error _ => none

theorem strcpy_s_C07_witness :
    wSt.data 102 = 97 ∧
    observe (exec (strcpy_s { slack := true } 100 4 102 none) wSt) 102 = some (EOK, 0) := by
  decide

end SafeC.Props.C07

import SafeC.Props.C15Str
import SafeC.Proofs.ConvQuerySt
/-!
# C15 — query-then-convert of `mbsrtowcs_s` entered with ANY genuine conversion state

`*ps` on entry: initial, or the bytes of a character cut by an earlier call (an incomplete sequence: `body loc ps =
.incomplete`; in locale C only the initial state is genuine).  The query `mbsrtowcs_s(&n, NULL, 0, &src, _, ps)` leaves `*srcp`
and `*ps` untouched (`mbsrtowcs_s_query_retval`), so the converting call is entered with the same state.
-/
namespace SafeC.Props.C15
open SafeC.Conv SafeC.Gen SafeC.Conv.Libc

theorem mbsrtowcs_s_query_then_convert_st (cfg : Cfg) (aq : SArgs) (mem : List Nat) (hq : QueryS aq mem)
    (hgen : aq.ps = [] ∨ body cfg.loc aq.ps = .incomplete)
    (n : Nat) (hn : (mbsrtowcs_s cfg aq).retval = some n)
    (a : SArgs) (cells : List Nat) (hs : SaneS a cells mem) (hps' : a.ps = aq.ps) (hd : n < a.dmax) (hl : n ≤ a.len) :
    ∃ ws bs tail, aq.ps ++ mem = bs ++ 0 :: tail ∧ encodeAll cfg.loc ws = some bs ∧ ws.length = n ∧
      Delivered (mbsrtowcs_s cfg a) cells a.dmax ⟨ws, n, none, [], false⟩ true ∧
      (mbsrtowcs_s cfg a).st = [] ∧ (n < libcLen cfg a → (mbsrtowcs_s cfg a).src = none) := by
  by_cases hp0 : aq.ps = []
  · obtain ⟨ws, bs, tail, h1, h2, h3, h4⟩ := mbsrtowcs_s_query_then_convert cfg aq mem hq hp0 n hn a cells hs
      (by rw [hps', hp0]) hd hl
    exact ⟨ws, bs, tail, by rw [hp0]; simpa using h1, h2, h3, h4⟩
  rw [(mbsrtowcs_s_query_retval cfg aq hq).1] at hn
  have hn' : (Libc.mbsrtowcs cfg.loc true mem aq.len aq.ps).ret = n := Option.some.inj hn
  have hnmax : n ≠ SIZE_MAX := by
    have := hs.dmaxle; simp only [RSIZE_MAX_WSTR, SIZE_MAX] at *; omega
  have hei : (Libc.mbsrtowcs cfg.loc true mem aq.len aq.ps).eilseq = false := by
    have hne : (Libc.mbsrtowcs cfg.loc true mem aq.len aq.ps).ret ≠ SIZE_MAX := by rw [hn']; exact hnmax
    simp only [Libc.mbsrtowcs, ↓reduceIte] at hne ⊢
    generalize gconvMb cfg.loc aq.ps (List.take (strlen mem + 1) mem) ((List.take (strlen mem + 1) mem).length + 1) = g at hne ⊢
    cases hst : g.status <;> simp [hst] at hne ⊢
  obtain ⟨ws, bs, tail, hmem, hE, hz, hpend, hr⟩ := mbs_query_valid_st cfg.loc mem aq.len aq.ps hq.term hgen hei
  rw [hr] at hn'
  have hwn : ws.length = n := hn'
  subst hwn
  have hwpos : 0 < ws.length := by
    rcases hpend with h | ⟨c, cs, y, rfl, _⟩
    · exact absurd h hp0
    · simp
  have hL := le_libcLen cfg a _ hd hl
  obtain ⟨b1, b2⟩ := mbsrtowcs_valid_st cfg.loc ws bs tail aq.ps mem hE hz hmem hpend (libcLen cfg a) (by omega)
  have hres : (Libc.mbsrtowcs cfg.loc false mem (libcLen cfg a) aq.ps).ret = ws.length ∧
      (Libc.mbsrtowcs cfg.loc false mem (libcLen cfg a) aq.ps).out.take ws.length = ws ∧
      (Libc.mbsrtowcs cfg.loc false mem (libcLen cfg a) aq.ps).st = [] ∧
      (ws.length < libcLen cfg a → (Libc.mbsrtowcs cfg.loc false mem (libcLen cfg a) aq.ps).src = none) := by
    by_cases h : ws.length < libcLen cfg a
    · rw [b1 h]; simp
    · have heq : libcLen cfg a = ws.length := by omega
      obtain ⟨p, _, hr'⟩ := b2 (by omega)
      rw [hr', heq]; simp
  obtain ⟨g1, g2, g3, g4⟩ := hres
  obtain ⟨hdel, hsrc, hst⟩ := mbsrtowcs_s_C15 cfg a hs (by rw [hps', g1]; exact hd)
  rw [hps'] at hdel hsrc hst
  refine ⟨ws, bs, tail, hmem, hE, rfl, Delivered_congr hdel g1 (by rw [g1, g2]; simp), by rw [hst, g3], ?_⟩
  intro h; rw [hsrc, g4 h]

/-- the hypotheses are satisfiable with a pending state: `*ps` holds `E2 82`, the source continues `AC 41 00` -/
example : body .UTF8 [0xE2, 0x82] = .incomplete ∧
    (mbsrtowcs_s { loc := .UTF8 } { dest := none, dmax := 0, src := some [0xAC, 0x41, 0], len := 0, ps := [0xE2, 0x82] }).retval = some 2 := by
  decide

end SafeC.Props.C15

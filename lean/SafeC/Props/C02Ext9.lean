import SafeC.Proofs.AccRemovews
import SafeC.Props.C02Ext8
/-!
# C02 for `strremovews_s`

The termination scan `while (*dest) { if (dmax == 0) … }` reads before its bound (class `read-before-bound`, witnessed in
`C02Ext1`/`C02Ext2`): at most `dest[dmax]`, and a terminator found there is accepted.  Everything after it — the whitespace
skip, the shift, the rewritten terminator, and the backwards strip `while (*dest == ' ' …) dest--` that has no bound of its
own — stays between `dest` and that terminator: the strip is stopped by the first non-blank character, which the shift has
put at `dest[0]` (functional postconditions of `skipWs` / `shiftLoop` in `Proofs/AccRemovews.lean`).  No read below the start
of the buffer, for every content (all-whitespace included: that exit is taken before the strip).
-/
namespace SafeC.Props.C02
open SafeC Gen

/-- **strremovews_s**: reads inside the string at dest cut at `dmax + 1` cells; stores inside the `dmax` declared cells and on
the terminator the scan stopped at (rewritten after the shift: `dest[dmax]` for an exact-fit array followed by a NUL) -/
theorem strremovews_s_C02_tight_partial (cfg : Cfg) (dest dmax : Nat) (db : Bos) (st : St)
    (hr : dest ≠ 0 → StrRd st dest (dmax+1)) (hw : dest ≠ 0 → RW st dest dmax) (hwe : dest ≠ 0 → StrWr st dest (dmax+1)) :
    Runs (strremovews_s cfg dest dmax db) st :=
  runs_of_AccS (strremovews_s_accs cfg dest dmax db hr (fun h => Wr_of_RW (hw h)) hwe)

/-- **strremovews_s**, C02 for a dest terminated inside `dmax`: only the `dmax` declared cells are mapped -/
theorem strremovews_s_C02_partial (cfg : Cfg) (dest dmax : Nat) (db : Bos) (st : St)
    (hw : dest ≠ 0 → RW st dest dmax) (ht : dest ≠ 0 → Term st dest dmax) :
    Runs (strremovews_s cfg dest dmax db) st :=
  strremovews_s_C02_tight_partial cfg dest dmax db st (fun h => StrRd.of_RD_term (RD_of_RW (hw h)) (ht h) _) hw
    (fun h => StrWr.of_RW_term (hw h) (ht h) _)

/-- non-vacuity: `"  a \0"` in a 5-cell buffer with unmapped memory directly before and after it (the backwards strip starts
at `dest[3]`, the all-blank prefix lies flush against the unmapped cell 99) -/
example : ∃ st : St, RW st 100 5 ∧ Term st 100 5 ∧ st.mapped 99 = false ∧ st.mapped 105 = false :=
  ⟨winW (fun a => if a = 102 then 97 else if a = 104 then 0 else 32) 100 105 0 0,
   fun i hi => by simp [winW, win]; omega, ⟨4, by omega, by simp [winW, win]⟩, by decide, by decide⟩

/-- the same input runs (a test of the model, `decide`): EOK -/
example : (exec (strremovews_s {} 100 5 none)
    (winW (fun a => if a = 102 then 97 else if a = 104 then 0 else 32) 100 105 0 0)).toOption.map (·.1) = some EOK := by decide

end SafeC.Props.C02

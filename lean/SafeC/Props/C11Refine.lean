import SafeC.Proofs.PrintfEngine
import SafeC.Props.C11
/-!
# C11, end to end: the repaired printf engine = `Spec.printf` for `d i u o x X c s %`

`SafeC/Props/C11.lean` proves the parts (digits, layout without `#`, sinks).  This file states the refinement the property asks
for, in its honest partial form: for the repaired code (`Repaired fx`: `Fixes.minusPrec`, `hash`, `negStarPrec`, `strPrec0`;
`current = Fixes.all` satisfies it), every format for which `Spec.printf` is defined, and every specification within `DirOK`
(width and precision below 2^32; numeric specifications inside the 32-byte digit buffer, `IntOK`), the engine hands its sink
exactly the characters of `Spec.printf` (`engine_C11_int_partial`), so the wrappers store that text and return its length
when it fits and a negative code when it does not (`vsnprintf_s_C11_partial`, `vsprintf_s_C11_partial`, `sprintf_s_C11_partial`,
`stream_C11_partial`).  Lemmas: `SafeC/Proofs/Printf{Render,Hash,Conv,Str,Parse,Directive,Engine}.lean`.

Not covered: floats, `%lc`, `%ls`, `%p`, `%b`; specifications outside `DirOK` (known findings printf-digit-buffer-32,
printf-width-numeral-wraps; witnesses in `C11.lean`); the unrepaired code (witnesses in `C11.lean`).  The hypothesis
`prescan fmt = false` is kept explicit (no format with `Spec.printf fmt args ≠ none` is known to violate it).
-/
namespace SafeC.Props.C11
open SafeC.Printf SafeC.Printf.Spec SafeC.Gen

/-- `current` (the code in /repo) is the repaired engine the theorems below speak about -/
theorem current_repaired : Repaired current := ⟨rfl, rfl, rfl, rfl⟩

/-- PARTIAL (target 1: layout rewritten into `Spec.renderInt`, both classes).  Repaired code, every value below 2^64, base
    8/10/16, any flag word the parser can build (`#` only on unsigned non-decimal conversions; `0` cleared when a precision is
    given), precision (+1 with `#`) at most 31 and zero-padded width at most 31: `safec_ntoa_long` + `safec_ntoa_format` +
    `safec_out_rev` hand the sink exactly `Spec.renderInt` of the same specification. -/
theorem ntoa_renderInt_C11_partial (fx : Fixes) (hm : fx.minusPrec = true) (hx : fx.hash = true) (sk : Sink) (m v : Nat) (neg : Bool)
    (base prec width : Nat) (fl : Flags) (s : St) (signed : Bool)
    (hb : base = 8 ∨ base = 10 ∨ base = 16) (hv : v < 2 ^ 64)
    (hh10 : fl.hash = true → base ≠ 10 ∧ signed = false)
    (hpz : fl.precision = true → fl.zeropad = false) (hp0 : fl.precision = false → prec = 0)
    (hs : signed = false → neg = false ∧ fl.plus = false ∧ fl.space = false)
    (hp : prec + (if fl.hash then 1 else 0) ≤ 31) (hw : fl.left = false → fl.zeropad = true → width ≤ 31) (hwmax : width ≤ 2147483614) :
    ntoaLong fx sk m v neg base prec width fl s = emitAll sk m (renderInt (dirOf fl width prec) signed neg v base fl.upper) s :=
  ntoaLong_render fx hm hx sk m v neg base prec width fl s signed (dirOf fl width prec) hb hv hh10 hpz hp0 hs hp hw hwmax rfl

/-- `%#010x` of 0xBEEF and `%-+8.3d` of 7 through the repaired `safec_ntoa_long` -/
example : (ntoaLong Fixes.all .fchar 0 48879 false 16 0 10 { zeropad := true, hash := true } ⟨0, [], []⟩).toOption =
    some ⟨10, [], ['0', 'x', '0', '0', '0', '0', 'b', 'e', 'e', 'f']⟩ := by decide
example : renderInt (dirOf { zeropad := true, hash := true } 10 0) false false 48879 16 false =
    ['0', 'x', '0', '0', '0', '0', 'b', 'e', 'e', 'f'] := by decide +kernel

/-- PARTIAL (the `#` class on its own).  Repaired code, `o x X` with `#`, precision at most 30, zero-padded width at most 31. -/
theorem ntoa_hash_C11_partial (fx : Fixes) (hm : fx.minusPrec = true) (hx : fx.hash = true) (sk : Sink) (m v base prec width : Nat)
    (fl : Flags) (s : St) (hb : base = 8 ∨ base = 16) (hv : v < 2 ^ 64) (hh : fl.hash = true) (hpl : fl.plus = false)
    (hsp : fl.space = false) (hpz : fl.precision = true → fl.zeropad = false) (hp0 : fl.precision = false → prec = 0)
    (hp : prec ≤ 30) (hw : fl.left = false → fl.zeropad = true → width ≤ 31) (hwmax : width ≤ 2147483614) :
    ntoaLong fx sk m v false base prec width fl s = emitAll sk m (renderInt (dirOf fl width prec) false false v base fl.upper) s :=
  ntoaLong_renderInt_hash fx hm hx sk m v base prec width fl s hb hv hh hpl hsp hpz hp0 hp hw hwmax

/-- `%#.5o` of 0123 (the repaired code writes 00123) -/
example : (ntoaLong Fixes.all .fchar 0 83 false 8 5 0 { hash := true, precision := true } ⟨0, [], []⟩).toOption =
    some ⟨5, [], ['0', '0', '1', '2', '3']⟩ := by decide

/-- PARTIAL (one integer directive, argument fetch included).  `d i u o x X`, all length modifiers, flags, width, precision:
    whenever the standard defines the text (`Spec.render d args = some (text, args')`) and `IntOK d`, the repaired `convInt`
    emits `text` and leaves `args'`. -/
theorem convInt_C11_partial (fx : Fixes) (hm : fx.minusPrec = true) (hx : fx.hash = true) (sk : Sink) (m : Nat) (d : Dir)
    (hc : d.conv = 'd' ∨ d.conv = 'i' ∨ d.conv = 'u' ∨ d.conv = 'o' ∨ d.conv = 'x' ∨ d.conv = 'X')
    (args : List Arg) (s : St) (text : Str) (args' : List Arg)
    (hr : render d args = some (text, args')) (hok : IntOK d) :
    convInt fx sk m d.conv (cfl d) d.width (d.prec.getD 0) args s = (emitAll sk m text s).map (fun s' => (s', args')) :=
  convInt_eq fx hm hx sk m d hc args s text args' hr hok

/-- `%hhd` of 511 (converted to signed char: -1) with width 4 -/
example : render { width := 4, len := .hh, conv := 'd' } [.int 511] = some ([' ', ' ', '-', '1'], []) := by decide +kernel
example : IntOK { width := 4, len := .hh, conv := 'd' } := by decide

/-- FULL.  `%c` (any width, `-`, any `int` argument, any sink and state, either code): the padded character of the standard. -/
theorem char_C11 (fx : Fixes) (sk : Sink) (m : Nat) (d : Dir) (hlen : d.len = .none) (v : Int) (as : List Arg) (s : St) :
    convChar fx sk m (cfl d) d.width (.int v :: as) s =
      (emitAll sk m (padField d [Char.ofNat (wrapU 8 v)]) s).map (fun s' => (s', as)) :=
  convChar_eq fx sk m d hlen v as s

example : padField { minus := true, width := 3, conv := 'c' } [Char.ofNat (wrapU 8 321)] = ['A', ' ', ' '] := by decide

/-- PARTIAL (`Fixes.strPrec0`; witness `engine_s_precision0_witness`).  `%s` with any width, `-`, precision and string: the
    standard's text; when the characters of the string do not fit the room left the buffer sink returns `-ESNOSPC` (which is
    what `emitAll` of the text returns). -/
theorem str_C11_partial (fx : Fixes) (hs0 : fx.strPrec0 = true) (sk : Sink) (m : Nat) (d : Dir) (hlen : d.len = .none)
    (p : Str) (as : List Arg) (s : St)
    (hroom : (sk = .buffer ∧ s.idx ≤ m) ∨ s.idx + (padField d (strCore d p)).length ≤ m) :
    convStr fx sk m m (cfl d) d.width (d.prec.getD 0) (.str (some p) :: as) s =
      (emitAll sk m (padField d (strCore d p)) s).map (fun s' => (s', as)) :=
  convStr_eq fx hs0 sk m d hlen p as s hroom

example : padField { width := 5, prec := some 2, conv := 's' } (strCore { width := 5, prec := some 2, conv := 's' } ['a', 'b', 'c']) =
    [' ', ' ', ' ', 'a', 'b'] := by decide

/-- FULL.  `%s` with a NULL argument returns `-ESNULLP` (negative), whatever else the directive says. -/
theorem str_null_C11 (fx : Fixes) (sk : Sink) (m bufsize : Nat) (fl : Flags) (hl : fl.long = false) (width prec : Nat) (as : List Arg) (s : St) :
    convStr fx sk m bufsize fl width prec (.str none :: as) s = .error (.ret (-(ESNULLP : Int))) :=
  convStr_null fx sk m bufsize fl hl width prec as s

example : (sprintf_s Fixes.all true 8 dest8 ['%', 's'] [.str none]).ret = some (-400) := by decide

/-- FULL.  `%%` writes one `%` and consumes no argument. -/
theorem pct_C11 (fx : Fixes) (sk : Sink) (m : Nat) (r : Str) (args : List Arg) (s : St) :
    directive fx sk m ('%' :: r) args s = (emitAll sk m ['%'] s).map (fun s' => (r, args, s')) :=
  directive_pct fx sk m r args s

/-- PARTIAL (parser equivalence for one specification).  What `Spec.parseDir` reads at `f` and `Spec.render` renders is what
    the repaired `directive` — flag loop, `safec_atoi`, `*` arguments, length switch, specifier switch, conversion — emits;
    same rest of the format, same remaining arguments. -/
theorem directive_C11_partial (fx : Fixes) (hfx : Repaired fx) (sk : Sink) (m : Nat) (f : Str) (args : List Arg) (s : St)
    (d : Dir) (r' : Str) (a0 : List Arg) (text : Str) (a' : List Arg)
    (hp : parseDir f args = some (d, r', a0)) (hr : render d a0 = some (text, a')) (hok : DirOK d)
    (hroom : (sk = .buffer ∧ s.idx ≤ m) ∨ s.idx + text.length ≤ m) :
    directive fx sk m f args s = (emitAll sk m text s).map (fun s' => (r', a', s')) :=
  directive_eq fx hfx sk m f args s d r' a0 text a' hp hr hok hroom

/-- `%-*.*lX|` with arguments 6, 3, 0xAB: parsed alike, rendered alike -/
example : (parseDir ['-', '*', '.', '*', 'l', 'X', '|'] [.int 6, .int 3, .long 171]).map
      (fun x => (x.1.minus, x.1.width, x.1.prec, x.1.conv, x.2.1)) =
    some (true, 6, some 3, 'X', ['|']) := by decide
example : (directive Fixes.all .fchar 0 ['-', '*', '.', '*', 'l', 'X', '|'] [.int 6, .int 3, .long 171] ⟨0, [], []⟩).toOption =
    some (['|'], [], ⟨6, [], ['0', 'A', 'B', ' ', ' ', ' ']⟩) := by decide

/-- PARTIAL (`engine_C11_int`, the loop).  Parser equivalence + composition by induction over the format: the repaired
    engine's main loop started in ANY state `s` hands the sink exactly `Spec.printf fmt args`, as one `emitAll` — hence, for the
    buffer sink, stores it at `dest[idx..]` when it fits and returns `-ESNOSPC` when it does not (`sinks_C11_buffer*`). -/
theorem engine_C11_int_partial (fx : Fixes) (hfx : Repaired fx) (sk : Sink) (m : Nat) (fmt : Str) (args : List Arg) (s : St) (T : Str)
    (hT : Spec.printf fmt args = some T) (hok : fmtOK fmt.length fmt args = true)
    (hroom : (sk = .buffer ∧ s.idx ≤ m) ∨ s.idx + T.length ≤ m) :
    engLoop fx sk m fmt.length fmt args s = emitAll sk m T s :=
  engLoop_eq fx hfx sk m fmt.length fmt args s T hT hok hroom

/-- a format with literal text, four directives (`0` and `+` flags, `-` and width, precision on `%s`, `#`), `%%` -/
def exFmt : Str := ['a', '%', '+', '0', '5', 'd', '|', '%', '-', '4', '.', '1', 's', '|', '%', '#', 'x', '%', '%']
def exArgs : List Arg := [.int 42, .str (some ['x', 'y']), .int 255]
def exText : Str := ['a', '+', '0', '0', '4', '2', '|', 'x', ' ', ' ', ' ', '|', '0', 'x', 'f', 'f', '%']
example : Spec.printf exFmt exArgs = some exText := by decide +kernel
example : fmtOK exFmt.length exFmt exArgs = true := by decide +kernel
example : SafeC.Fmt.prescan exFmt = false := by decide
example : (sprintf_s current true 20 (List.replicate 20 'x') exFmt exArgs).ret = some 17 := by decide

/-- PARTIAL (`engine_C11_int` of DESIGN.md §4, `vsnprintf_s` = `snprintf_s` = [code as found] `sprintf_s`).  Repaired engine
    (`Repaired fx`), a format for which `Spec.printf` is defined (literal text, `%%`, `d i u o x X c s` with any flags, width,
    precision, `*`, length modifiers, matching arguments), every specification within `DirOK` (width/precision < 2^32; numeric
    ones inside the 32-byte digit buffer), `dest` of `dmax` cells, `0 < dmax ≤ RSIZE_MAX_STR`, format accepted by the `%n`
    pre-scan.  Then with `T = Spec.printf fmt args`:
    * `T.length < dmax`: returns `T.length`, `dest[0..T.length) = T`, `dest[T.length] = 0`;
    * `T.length = dmax` (exact fit): returns `dmax` with `T` cut to `dmax - 1` characters and terminated (the documented
      truncation of `snprintf_s`/`vsnprintf_s`; finding sprintf_s-exact-fit for the unrepaired `sprintf_s`);
    * `T.length > dmax`: returns `-ESNOSPC`, `dest[0] = 0`.
    Witnesses for the hypotheses: `ntoa_buffer_witness` (IntOK), `engine_width_wraps_witness` (< 2^32), the `Fixes.none`
    halves of `ntoa_minus_precision_witness`, `ntoa_hash_*_witness`, `engine_negative_star_precision_witness`,
    `engine_s_precision0_witness` (Repaired). -/
theorem vsnprintf_s_C11_partial (fx : Fixes) (hfx : Repaired fx) (slack : Bool) (dmax : Nat) (init : List Char) (fmt : Str)
    (args : List Arg) (T : Str)
    (hT : Spec.printf fmt args = some T) (hok : fmtOK fmt.length fmt args = true)
    (hinit : init.length = dmax) (hd0 : dmax ≠ 0) (hmax : dmax ≤ RSIZE_MAX_STR) (hpre : SafeC.Fmt.prescan fmt = false) :
    (T.length < dmax →
      (vsnprintf_s fx slack dmax init fmt args).ret = some (T.length : Int) ∧
      (vsnprintf_s fx slack dmax init fmt args).cells.take T.length = T ∧
      (vsnprintf_s fx slack dmax init fmt args).cells[T.length]? = some '\x00') ∧
    (T.length = dmax →
      (vsnprintf_s fx slack dmax init fmt args).ret = some (dmax : Int) ∧
      (vsnprintf_s fx slack dmax init fmt args).cells.take (dmax - 1) = T.take (dmax - 1) ∧
      (vsnprintf_s fx slack dmax init fmt args).cells[dmax - 1]? = some '\x00') ∧
    (dmax < T.length →
      (vsnprintf_s fx slack dmax init fmt args).ret = some (-(ESNOSPC : Int)) ∧
      (vsnprintf_s fx slack dmax init fmt args).cells[0]? = some '\x00') := by
  have hnmax : ¬ dmax > RSIZE_MAX_STR := by omega
  unfold vsnprintf_s
  simp only [hd0, hnmax, hpre, if_false, Bool.false_eq_true]
  refine ⟨?_, ?_, ?_⟩
  · intro hlt
    obtain ⟨s', he, hi, hlen, hA, _⟩ := engine_buffer_fits fx hfx dmax init fmt args T hT hok hinit (by omega)
    obtain ⟨hA1, hA2⟩ := hA hlt
    rw [he]
    simp only [hi]
    refine ⟨trivial, ?_, ?_⟩
    · cases slack
      · simp only [Bool.false_eq_true, if_false]
        rw [List.take_set_of_le (by omega)]; exact hA1
      · have : ¬ T.length > dmax := by omega
        simp only [if_true, this, if_false]
        rw [List.take_append_of_le_length (by simp; omega), List.take_take, Nat.min_self]; exact hA1
    · cases slack
      · simp only [Bool.false_eq_true, if_false]
        rw [List.getElem?_set]
        split
        · simp; omega
        · exact hA2
      · have : ¬ T.length > dmax := by omega
        simp only [if_true, this, if_false]
        rw [List.getElem?_append_right (by simp; omega)]
        simp [zeros, List.getElem?_replicate]; omega
  · intro heq
    obtain ⟨s', he, hi, hlen, _, hB⟩ := engine_buffer_fits fx hfx dmax init fmt args T hT hok hinit (by omega)
    obtain ⟨hB1, hB2⟩ := hB heq
    have hB2 := hB2 (by omega)
    rw [he]
    simp only [hi, heq]
    refine ⟨trivial, ?_, ?_⟩
    · cases slack
      · simp only [Bool.false_eq_true, if_false]
        rw [List.take_set_of_le (Nat.le_refl _)]; exact hB1
      · simp only [if_true, Nat.lt_irrefl, gt_iff_lt, if_false, Nat.sub_self, zeros, List.replicate_zero, List.append_nil]
        rw [List.take_take, Nat.min_eq_left (by omega)]; exact hB1
    · cases slack
      · simp only [Bool.false_eq_true, if_false]
        rw [List.getElem?_set_self (by omega)]
      · simp only [if_true, Nat.lt_irrefl, gt_iff_lt, if_false, Nat.sub_self, zeros, List.replicate_zero, List.append_nil]
        rw [List.getElem?_take_of_lt (by omega)]; exact hB2
  · intro hover
    rw [engine_buffer_overflow fx hfx dmax init fmt args T hT hok hover]
    refine ⟨rfl, ?_⟩
    cases slack
    · simp only [Bool.false_eq_true, if_false]
      rw [List.getElem?_set_self (by omega)]
    · simp [zeros, List.getElem?_replicate]; omega

/-- PARTIAL.  `vsprintf_s` (and the repaired `sprintf_s`), same hypotheses: the text and its length when it fits with its
    terminator (`T.length < dmax`), `-ESNOSPC` with `dest[0] = 0` otherwise — including the exact fit. -/
theorem vsprintf_s_C11_partial (fx : Fixes) (hfx : Repaired fx) (slack : Bool) (dmax : Nat) (init : List Char) (fmt : Str)
    (args : List Arg) (T : Str)
    (hT : Spec.printf fmt args = some T) (hok : fmtOK fmt.length fmt args = true)
    (hinit : init.length = dmax) (hd0 : dmax ≠ 0) (hmax : dmax ≤ RSIZE_MAX_STR) (hpre : SafeC.Fmt.prescan fmt = false) :
    (T.length < dmax →
      (vsprintf_s fx slack dmax init fmt args).ret = some (T.length : Int) ∧
      (vsprintf_s fx slack dmax init fmt args).cells.take T.length = T ∧
      (vsprintf_s fx slack dmax init fmt args).cells[T.length]? = some '\x00') ∧
    (dmax ≤ T.length →
      (vsprintf_s fx slack dmax init fmt args).ret = some (-(ESNOSPC : Int)) ∧
      (vsprintf_s fx slack dmax init fmt args).cells[0]? = some '\x00') := by
  obtain ⟨h1, h2, h3⟩ := vsnprintf_s_C11_partial fx hfx slack dmax init fmt args T hT hok hinit hd0 hmax hpre
  unfold vsprintf_s
  refine ⟨?_, ?_⟩
  · intro hlt
    obtain ⟨a, b, c⟩ := h1 hlt
    simp only [a]
    have : ¬ (dmax ≠ 0 ∧ (T.length : Int) ≥ (dmax : Int)) := by omega
    rw [if_neg this]
    exact ⟨a, b, c⟩
  · intro hge
    by_cases heq : T.length = dmax
    · obtain ⟨a, b, c⟩ := h2 heq
      simp only [a]
      have : (dmax ≠ 0 ∧ (dmax : Int) ≥ (dmax : Int)) := ⟨hd0, by omega⟩
      rw [if_pos this]
      refine ⟨rfl, ?_⟩
      cases slack
      · simp only [Bool.false_eq_true, if_false]
        rw [List.getElem?_set_self]
        obtain ⟨hl, _⟩ := List.getElem?_eq_some_iff.1 c
        omega
      · simp [zeros, List.getElem?_replicate]; omega
    · obtain ⟨a, c⟩ := h3 (by omega)
      simp only [a]
      have : ¬ (dmax ≠ 0 ∧ (-(ESNOSPC : Int)) ≥ (dmax : Int)) := by simp [ESNOSPC]; omega
      rw [if_neg this]
      exact ⟨a, c⟩


/-- PARTIAL.  `sprintf_s`: the repaired wrapper (`Fixes.sprintfExact`) is `vsprintf_s`; the wrapper as found is `vsnprintf_s`
    (returns `dmax` on an exact fit, `vsnprintf_s_exact_fit_witness`). -/
theorem sprintf_s_C11_partial (fx : Fixes) (hfx : Repaired fx) (hse : fx.sprintfExact = true) (slack : Bool) (dmax : Nat)
    (init : List Char) (fmt : Str) (args : List Arg) (T : Str)
    (hT : Spec.printf fmt args = some T) (hok : fmtOK fmt.length fmt args = true)
    (hinit : init.length = dmax) (hd0 : dmax ≠ 0) (hmax : dmax ≤ RSIZE_MAX_STR) (hpre : SafeC.Fmt.prescan fmt = false) :
    (T.length < dmax →
      (sprintf_s fx slack dmax init fmt args).ret = some (T.length : Int) ∧
      (sprintf_s fx slack dmax init fmt args).cells.take T.length = T ∧
      (sprintf_s fx slack dmax init fmt args).cells[T.length]? = some '\x00') ∧
    (dmax ≤ T.length →
      (sprintf_s fx slack dmax init fmt args).ret = some (-(ESNOSPC : Int)) ∧
      (sprintf_s fx slack dmax init fmt args).cells[0]? = some '\x00') := by
  unfold sprintf_s; rw [if_pos hse]
  exact vsprintf_s_C11_partial fx hfx slack dmax init fmt args T hT hok hinit hd0 hmax hpre

/-- `snprintf_s` is `_vsnprintf_s_chk` (model `vsnprintf_s`): `vsnprintf_s_C11_partial` is its theorem -/
abbrev snprintf_s := vsnprintf_s

example : (vsnprintf_s current false 18 (List.replicate 18 'x') exFmt exArgs).ret = some 17 ∧
    (vsnprintf_s current false 17 (List.replicate 17 'x') exFmt exArgs).ret = some 17 ∧
    (vsprintf_s current false 17 (List.replicate 17 'x') exFmt exArgs).ret = some (-406) ∧
    (vsnprintf_s current false 16 (List.replicate 16 'x') exFmt exArgs).ret = some (-406) := by decide

/-- PARTIAL.  `fprintf_s` / `vfprintf_s` (sink `fchar`) and `printf_s` (sink `char`): same class of formats, text shorter than
    2^64 - 1: the stream receives exactly `Spec.printf fmt args` (`printf_s`: without its NUL characters, finding
    printf_s-nul-dropped) and the call returns its length. -/
theorem stream_C11_partial (fx : Fixes) (hfx : Repaired fx) (fmt : Str) (args : List Arg) (T : Str)
    (hT : Spec.printf fmt args = some T) (hok : fmtOK fmt.length fmt args = true) (hlen : T.length ≤ 2 ^ 64 - 1)
    (hpre : SafeC.Fmt.prescan fmt = false) :
    (streamPrintf fx .fchar fmt args).ret = some (T.length : Int) ∧ (streamPrintf fx .fchar fmt args).stream = T ∧
    (streamPrintf fx .char fmt args).ret = some (T.length : Int) ∧ (streamPrintf fx .char fmt args).stream = T.filter (· ≠ '\x00') := by
  unfold streamPrintf engine
  simp only [hpre, Bool.false_eq_true, if_false]
  rw [engLoop_eq fx hfx .fchar (2 ^ 64 - 1) fmt.length fmt args ⟨0, [], []⟩ T hT hok (Or.inr (by simpa using hlen)),
    engLoop_eq fx hfx .char (2 ^ 64 - 1) fmt.length fmt args ⟨0, [], []⟩ T hT hok (Or.inr (by simpa using hlen)),
    emitAll_fchar, emitAll_char]
  simp [bind, Except.bind, pure, Except.pure]

example : (streamPrintf current .fchar exFmt exArgs).stream = exText := by decide

/-! ## statelessness -/

/-- one call of an entry point of the family, with everything it is given -/
structure Call where
  entry : Nat            -- 0 vsnprintf_s/snprintf_s, 1 vsprintf_s, 2 sprintf_s, 3 fprintf_s/vfprintf_s, 4 printf_s
  fx : Fixes
  slack : Bool
  dmax : Nat
  init : List Char
  fmt : Str
  args : List Arg

/-- what the call returns and leaves behind -/
def Call.run (c : Call) : Option Int × List Char × List Char :=
  let r := match c.entry with
    | 0 => vsnprintf_s c.fx c.slack c.dmax c.init c.fmt c.args
    | 1 => vsprintf_s c.fx c.slack c.dmax c.init c.fmt c.args
    | 2 => sprintf_s c.fx c.slack c.dmax c.init c.fmt c.args
    | 3 => streamPrintf c.fx .fchar c.fmt c.args
    | _ => streamPrintf c.fx .char c.fmt c.args
  (r.ret, r.cells, r.stream)

/-- a sequence of calls: the model has no state to thread from one call to the next -/
def runAll (cs : List Call) : List (Option Int × List Char × List Char) := cs.map Call.run

/-- FULL (of the model, by construction).  The result of a call — return value, `dest`, stream bytes — depends only on what
    the call is given: after ANY two histories of other calls the same call gives the same result.  The model is a pure
    function without static scratch state; that the C has none that matters (`vsnprintf_s` has two static 64-byte buffers on its
    float path) is what the correspondence run checks by replaying every case after two different shuffles. -/
theorem engine_C11_stateless (h1 h2 : List Call) (c : Call) :
    (runAll (h1 ++ [c])).getLast? = (runAll (h2 ++ [c])).getLast? := by
  simp [runAll]

example : (runAll ([⟨2, current, true, 8, dest8, ['%', 'd'], [.int 5]⟩] ++ [⟨0, current, true, 20, List.replicate 20 'x', exFmt, exArgs⟩])).getLast? =
    (runAll ([] ++ [⟨0, current, true, 20, List.replicate 20 'x', exFmt, exArgs⟩])).getLast? := engine_C11_stateless _ _ _

/-- PARTIAL.  What an earlier call left in `dest` does not influence the next one: for the class of the end-to-end theorem
    return value and stored text are the same for any two previous contents of `dest`. -/
theorem vsnprintf_s_C11_dest_independent_partial (fx : Fixes) (hfx : Repaired fx) (slack : Bool) (dmax : Nat) (init init' : List Char)
    (fmt : Str) (args : List Arg) (T : Str)
    (hT : Spec.printf fmt args = some T) (hok : fmtOK fmt.length fmt args = true)
    (hinit : init.length = dmax) (hinit' : init'.length = dmax) (hd0 : dmax ≠ 0) (hmax : dmax ≤ RSIZE_MAX_STR)
    (hpre : SafeC.Fmt.prescan fmt = false) :
    (vsnprintf_s fx slack dmax init fmt args).ret = (vsnprintf_s fx slack dmax init' fmt args).ret ∧
    (T.length < dmax → (vsnprintf_s fx slack dmax init fmt args).cells.take (T.length + 1) =
                        (vsnprintf_s fx slack dmax init' fmt args).cells.take (T.length + 1)) := by
  obtain ⟨a1, a2, a3⟩ := vsnprintf_s_C11_partial fx hfx slack dmax init fmt args T hT hok hinit hd0 hmax hpre
  obtain ⟨b1, b2, b3⟩ := vsnprintf_s_C11_partial fx hfx slack dmax init' fmt args T hT hok hinit' hd0 hmax hpre
  refine ⟨?_, ?_⟩
  · rcases Nat.lt_trichotomy T.length dmax with h | h | h
    · rw [(a1 h).1, (b1 h).1]
    · rw [(a2 h).1, (b2 h).1]
    · rw [(a3 h).1, (b3 h).1]
  · intro h
    obtain ⟨_, x2, x3⟩ := a1 h
    obtain ⟨_, y2, y3⟩ := b1 h
    rw [List.take_add_one, List.take_add_one, x2, y2, x3, y3]

end SafeC.Props.C11

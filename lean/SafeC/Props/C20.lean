import SafeC.Models.Copy
/-! Property theorems for C20 (see DESIGN.md §4). -/
namespace SafeC.Props.C20
end SafeC.Props.C20

import SafeC.Proofs.Alloc
import SafeC.Proofs.AllocNorm
import SafeC.Proofs.AllocTight
/-!
# Property theorems for C20 — running out of memory inside the library is an error, not a crash

Statements are about `exec fails (skeleton features) s` for EVERY failure oracle `fails : Nat → Bool`
(answering the running index of the allocation request), EVERY feature vector and EVERY entry state
`s` (`Models/Alloc.lean`).  Vocabulary (`Proofs/Alloc.lean`):

* `Safe r`      – the run does not fault: no use of a failed allocation, no invalid free;
* `NoLeak s r`  – live blocks at return = live blocks at entry;
* `Reported d s r` – if a request of this run was failed (`exec_nfail_iff`: iff the oracle fails an
                  index in `[s.next, s'.next)`), the call returns its failure indication, the handler
                  was called and (`d`: the function has a destination) dest was cleared;
* `Holds d s r` – all three.

`unrepaired` is the code before any repair, `Fixes` fields switch on the repairs of `fixes/*.diff`
(`Alloc.current` says which of them the tree contains and is what the driver runs); the
`*_fixed_C20` theorems are the full statement for the repaired code, the `_partial`/`_witness`
pairs say what holds of the code as it is and where it breaks (= the known findings).
-/
namespace SafeC.Props.C20
open SafeC SafeC.Alloc

variable {fails : Nat → Bool}

/-! ### the machine -/

/-- Meta-theorem (every program): in a surviving run the failure counter moved exactly when the oracle
failed one of the allocation requests the run made — this is what "some allocation failed" means in `Reported`. -/
theorem alloc_failed_iff_oracle {α : Type} (p : Prog α) (s s' : St) (a : α) (h : exec fails p s = .ok (a, s')) :
    s.nfail < s'.nfail ↔ ∃ i, s.next ≤ i ∧ i < s'.next ∧ fails i = true :=
  exec_nfail_iff p s h

/-- Meta-theorem (every program): a run depends on the failure oracle only through its answers to the requests the run
makes — two oracles that agree on `[s.next, s'.next)` give the same run. -/
theorem run_depends_on_asked_indices_only {α : Type} {fails' : Nat → Bool} (p : Prog α) (s s' : St) (a : α)
    (h : exec fails p s = .ok (a, s')) (hag : ∀ i, s.next ≤ i → i < s'.next → fails' i = fails i) :
    exec fails' p s = .ok (a, s') :=
  exec_oracle_congr p s h hag

/-! ### wcsicmp_s, wcsnatcmp_s: the two fold buffers -/

/-- FULL (code as it is): for every failure oracle, every feature vector (entry error?, fold?, wcsfc_s of either
operand fails?, comparison ends in an error?) and every entry state, wcsicmp_s / wcsnatcmp_s do not fault, leave
no block allocated, and report a failed allocation (the NULL buffer is caught by wcsfc_s's own null check). -/
theorem fold_C20 (x : FoldFeat) (s : St) : Holds false s (exec fails (foldProg x) s) :=
  fold_holds x s

example : ∃ x : FoldFeat, x.fold = true ∧ x.entryErr = false := ⟨⟨false, true, false, true, false⟩, rfl, rfl⟩

/-! ### sprintf_s, snprintf_s, vsprintf_s, vsnprintf_s, printf_s, fprintf_s, vfprintf_s: the printf engine -/

/-- FULL (code as it is): whenever an engine-based printf_s function survives a failed allocation (only the `%ls`
staging buffer can), it returns a negative value, the handler was called, and (string variants) dest was cleared. -/
theorem printf_reported (w : Wrap) (entry : Bool) (segs : List Seg) (s : St) :
    Reported (w != .stream) s (exec fails (printfProg unrepaired w entry segs) s) := by
  intro o s' h hlt
  rcases printf_spec (fails := fails) unrepaired w entry segs s with ⟨o1, s1, e1, _, e3⟩ | ⟨e1, _⟩
  · rw [e1] at h; cases h
    have := e3 hlt
    exact ⟨this.1, this.2.1, fun hd => this.2.2 (by simpa using hd)⟩
  · rw [e1] at h; cases h

/-- PARTIAL (code as it is): if no `%Lf %Le %Lg %La %a` directive is followed by more format text (the only case
in which the engine copies the directive to the heap), no failure oracle makes the call fault.
Full statement (false today, see the witness): `Safe` for every format. -/
theorem printf_safe_partial (w : Wrap) (entry : Bool) (segs : List Seg) (s : St)
    (h : ∀ err, Seg.fl true err ∉ segs) : Safe (exec fails (printfProg unrepaired w entry segs) s) := by
  rcases printf_spec (fails := fails) unrepaired w entry segs s with ⟨o1, s1, e1, _⟩ | ⟨_, _, _, err, e4⟩
  · exact ⟨o1, s1, e1⟩
  · exact absurd e4 (h err)

example : ∀ err, Seg.fl true err ∉ [Seg.plain .none, .ls .none, .fl false false] := by decide

/-- WITNESS: `sprintf_s(dest, dmax, "%Lf!", x)` with the format-copy malloc failed dereferences NULL. -/
theorem printf_safe_witness :
    ¬ Safe (exec (fun _ => true) (printfProg unrepaired .vsn false [.fl true false, .plain .none]) {}) :=
  not_safe_of_null (by decide)

/-- PARTIAL (code as it is): if no `%ls` argument fails to convert, every return leaves the live blocks as they were.
Full statement (false today, see the witness): `NoLeak` for every format and argument list. -/
theorem printf_noleak_partial (w : Wrap) (entry : Bool) (segs : List Seg) (s : St)
    (h : Seg.ls .conv ∉ segs) : NoLeak s (exec fails (printfProg unrepaired w entry segs) s) := by
  intro o s' he
  rcases printf_spec (fails := fails) unrepaired w entry segs s with ⟨o1, s1, e1, e2, _⟩ | ⟨e1, _⟩
  · rw [e1] at he; cases he
    rcases e2 with e2 | ⟨e2, _⟩
    · exact e2
    · exact absurd e2 h
  · rw [e1] at he; cases he

example : Seg.ls .conv ∉ [Seg.ls .none, .ls .tooLong, .fl true false] := by decide

/-- WITNESS: `sprintf_s(dest, dmax, "%ls", L"")` (wcstombs_s reports an error) returns with the staging buffer
still allocated although no allocation failed — and with a non-negative return value. -/
theorem printf_noleak_witness :
    ¬ NoLeak {} (exec (fun _ => false) (printfProg unrepaired .vsn false [.ls .conv]) {}) :=
  not_noleak_of (l := [0]) (by decide) (by decide)

/-- FULL for the repaired engine (fixes/vsnprintf_s-alloc.diff: format copies checked, `%ls` buffer freed and a negative
code returned on conversion failure): every engine-based printf_s function, every format, every oracle: no fault,
no leak, a failed allocation is reported (and dest cleared for the string variants). -/
theorem printf_fixed_C20 (fx : Fixes) (h1 : fx.fmtcopy = true) (h2 : fx.lsconv = true) (w : Wrap) (entry : Bool)
    (segs : List Seg) (s : St) : Holds (w != .stream) s (exec fails (printfProg fx w entry segs) s) := by
  rcases printf_spec (fails := fails) fx w entry segs s with ⟨o1, s1, e1, e2, e3⟩ | ⟨_, e2, _⟩
  · refine ⟨⟨o1, s1, e1⟩, ?_, ?_⟩
    · intro o s' he; rw [e1] at he; cases he
      rcases e2 with e2 | ⟨_, e2, _⟩
      · exact e2
      · rw [h2] at e2; cases e2
    · intro o s' he hlt; rw [e1] at he; cases he
      have := e3 hlt
      exact ⟨this.1, this.2.1, fun hd => this.2.2 (by simpa using hd)⟩
  · rw [h1] at e2; cases e2

example : allFixed.fmtcopy = true ∧ allFixed.lsconv = true := ⟨rfl, rfl⟩

/-! ### swprintf_s, vswprintf_s, snwprintf_s, vsnwprintf_s: the no-space probe -/

/-- FULL (code as it is): the probe buffer is freed on every path that survives: no wide printf_s function leaks. -/
theorem wprobe_noleak (fx : Fixes) (f : WFn) (x : WFeat) (s : St) : NoLeak s (exec fails (wprobeProg fx f x) s) := by
  intro o s' he
  have := wprobe_spec' (fails := fails) fx f x s
  rw [he] at this
  exact this.1

/-- PARTIAL (code as it is): vswprintf_s, and every call that does not reach the heap probe (dmax < 512, or the text
fits, or an entry check fails), cannot fault.  Full statement (false today): `Safe` for all four functions. -/
theorem wprobe_safe_partial (f : WFn) (x : WFeat) (s : St)
    (h : f = .vsw ∨ x.big = false ∨ x.fits = true ∨ x.entryErr = true) :
    Safe (exec fails (wprobeProg unrepaired f x) s) := by
  have := wprobe_spec' (fails := fails) unrepaired f x s
  cases he : exec fails (wprobeProg unrepaired f x) s with
  | ok v => exact ⟨v.1, v.2, rfl⟩
  | error e =>
    rw [he] at this
    obtain ⟨_, _, h3, h4, h5, h6, _⟩ := this
    rcases h with h | h | h | h
    · exact absurd h h3
    · rw [h4] at h; cases h
    · rw [h5] at h; cases h
    · rw [h6] at h; cases h

example : (WFn.sw = .vsw ∨ (⟨false, false, false, false, .neg⟩ : WFeat).big = false ∨ False ∨ False) := Or.inr (Or.inl rfl)

/-- WITNESS: `swprintf_s(dest, 600, L"%ls", <700 chars>)` with the probe malloc failed hands NULL to vswprintf. -/
theorem wprobe_safe_witness :
    ¬ Safe (exec (fun _ => true) (wprobeProg unrepaired .sw ⟨false, false, false, true, .neg⟩) {}) :=
  not_safe_of_null (by decide)

/-- PARTIAL (code as it is): swprintf_s, snwprintf_s and vsnwprintf_s never survive a failed allocation unreported
(they do not survive it at all).  Full statement (false today for vswprintf_s, see the witness): `Reported` for all four. -/
theorem wprobe_reported_partial (f : WFn) (x : WFeat) (s : St) (h : f ≠ .vsw) :
    Reported true s (exec fails (wprobeProg unrepaired f x) s) := by
  intro o s' he hlt
  have := wprobe_spec' (fails := fails) unrepaired f x s
  rw [he] at this
  rcases this.2 hlt with ⟨h1, h2, h3⟩ | ⟨h1, _⟩
  · exact ⟨h1, h2, fun _ => h3⟩
  · exact absurd h1 h

example : WFn.snw ≠ .vsw := by decide

/-- WITNESS: vswprintf_s with the probe malloc failed returns an error (failed = true) but with 0 handler calls and
dest not cleared. -/
theorem wprobe_reported_witness :
    verdict (exec (fun _ => true) (wprobeProg unrepaired .vsw ⟨false, false, false, true, .neg⟩) {}) = some (true, 0, false, 1) := by
  decide

/-- FULL for the repaired probes (fixes/wprintf-probe-alloc.diff): all four wide printf_s functions, every feature vector, every
oracle: no fault, no leak, a failed probe allocation is reported with dest cleared. -/
theorem wprobe_fixed_C20 (fx : Fixes) (h1 : fx.wprobe = true) (h2 : fx.vswrep = true) (f : WFn) (x : WFeat) (s : St) :
    Holds true s (exec fails (wprobeProg fx f x) s) := by
  have := wprobe_spec' (fails := fails) fx f x s
  cases he : exec fails (wprobeProg fx f x) s with
  | error e => rw [he] at this; rw [h1] at this; exact absurd this.2.1 (by simp)
  | ok v =>
    rcases v with ⟨o, s'⟩
    rw [he] at this
    refine ⟨⟨o, s', rfl⟩, ?_, ?_⟩
    · intro o1 s1 h; cases h; exact this.1
    · intro o1 s1 h hlt; cases h
      rcases this.2 hlt with ⟨a, b, c⟩ | ⟨_, a, _⟩
      · exact ⟨a, b, fun _ => c⟩
      · rw [h2] at a; cases a

/-! ### wcsnorm_reorder_s -/

/-- FULL for the repaired code (fixes/wcsnorm-alloc.diff: malloc/realloc checked, seq_ext released on every exit): for
every oracle, every mark pattern of the source (any number and length of combining sequences, i.e. any number of
growth steps), every dmax and every entry state: no fault, no leak on any exit, a failed allocation is reported
with dest cleared. -/
theorem reorder_fixed_C20 (fx : Fixes) (h : fx.reorder = true) (dmax : Nat) (cells : List Bool) (s : St) :
    Holds true s (exec fails (reorderProg fx .caller dmax cells) s) := by
  have := (wp_iff _ _ _).1 (reorderProg_wp (fails := fails) (L := s.live) fx .caller dmax cells s (Or.inl h) rfl trivial)
  obtain ⟨o, s', he, _, p2, p3, _⟩ := this
  rw [h] at p2
  refine ⟨⟨o, s', he⟩, ?_, ?_⟩
  · intro o1 s1 h1; rw [he] at h1; cases h1; exact p2 rfl
  · intro o1 s1 h1 hlt; rw [he] at h1; cases h1
    have := p3 hlt; exact ⟨this.1, this.2.1, fun _ => this.2.2⟩

/-- PARTIAL (code as it is): when no allocation request fails the call does not fault, for every mark pattern and
dmax.  Full statement (false today, see the witness): `Safe` under every oracle. -/
theorem reorder_safe_partial (hnf : NoFail fails) (dmax : Nat) (cells : List Bool) (s : St) :
    Safe (exec fails (reorderProg unrepaired .caller dmax cells) s) := by
  have := (wp_iff _ _ _).1 (reorderProg_wp (fails := fails) (L := s.live) unrepaired .caller dmax cells s (Or.inr hnf) rfl trivial)
  obtain ⟨o, s', he, _⟩ := this
  exact ⟨o, s', he⟩

example : NoFail (fun _ => false) := fun _ => rfl

/-- WITNESS: a starter followed by 11 combining marks, the malloc for the 11th refused: memcpy through NULL. -/
theorem reorder_safe_witness :
    ¬ Safe (exec (fun _ => true) (reorderProg unrepaired .caller 64 (false :: List.replicate 11 true)) {}) :=
  not_safe_of_null (by decide +kernel)

/-- FULL (code as it is) — tightness of `reorder_safe_partial`: under EVERY oracle, a run of the unrepaired
wcsnorm_reorder_s that survives contains no failed allocation request: a refused malloc is dereferenced at once
(memcpy), a refused realloc at the next store.  (So `Reported` holds of it only vacuously.) -/
theorem reorder_failure_never_survives (dmax : Nat) (cells : List Bool) (s s' : St) (o : Out)
    (he : exec fails (reorderProg unrepaired .caller dmax cells) s = .ok (o, s')) :
    ¬ ∃ i, s.next ≤ i ∧ i < s'.next ∧ fails i = true := by
  intro hex
  have h1 := (exec_nfail_iff _ _ he).2 hex
  have h2 := keeps_reorderProg unrepaired rfl .caller dmax cells fails s o s' he
  omega

/-- PARTIAL (code as it is, EVERY oracle): a call that returns success leaves no block behind.
Full statement (false today, see the witness): `NoLeak` on every return, including the error returns. -/
theorem reorder_noleak_partial (dmax : Nat) (cells : List Bool) (s s' : St) (o : Out)
    (he : exec fails (reorderProg unrepaired .caller dmax cells) s = .ok (o, s')) (hok : o.failed = false) :
    s'.live = s.live := by
  have he' := keeps_transfer (keeps_reorderProg unrepaired rfl .caller dmax cells) he
  have := (wp_iff _ _ _).1 (reorderProg_wp (fails := fun _ => false) (L := s.live) unrepaired .caller dmax cells s (Or.inr (fun _ => rfl)) rfl trivial)
  obtain ⟨o1, s1, he1, p1, _⟩ := this
  rw [he'] at he1; cases he1
  exact p1 hok

/-- WITNESS: 12 marks on one starter into dmax = 13: the "dmax too small" exit returns ESNOSPC with seq_ext still
allocated; no allocation failed. -/
theorem reorder_noleak_witness :
    ¬ NoLeak {} (exec (fun _ => false) (reorderProg unrepaired .caller 13 (false :: List.replicate 12 true)) {}) :=
  not_noleak_of (l := [0]) (by decide +kernel) (by decide)

/-! ### wcsnorm_compose_s -/

/-- FULL for the repaired code: as `reorder_fixed_C20`, for every sequence of (mark?, absorbed-by-composition?) cells. -/
theorem compose_fixed_C20 (fx : Fixes) (h : fx.compose = true) (dmax : Nat) (cells : List CCell) (s : St) :
    Holds true s (exec fails (composeProg fx .caller .caller dmax cells) s) := by
  have := (wp_iff _ _ _).1 (composeProg_wp (fails := fails) (L := s.live) fx .caller .caller dmax cells s (Or.inl h) rfl trivial trivial)
  obtain ⟨o, s', he, _, p2, p3, _⟩ := this
  rw [h] at p2
  refine ⟨⟨o, s', he⟩, ?_, ?_⟩
  · intro o1 s1 h1; rw [he] at h1; cases h1; exact p2 rfl
  · intro o1 s1 h1 hlt; rw [he] at h1; cases h1
    have := p3 hlt; exact ⟨this.1, this.2.1, fun _ => this.2.2⟩

/-- PARTIAL (code as it is): no fault when no allocation request fails.  Full statement false today (witness). -/
theorem compose_safe_partial (hnf : NoFail fails) (dmax : Nat) (cells : List CCell) (s : St) :
    Safe (exec fails (composeProg unrepaired .caller .caller dmax cells) s) := by
  have := (wp_iff _ _ _).1 (composeProg_wp (fails := fails) (L := s.live) unrepaired .caller .caller dmax cells s (Or.inr hnf) rfl trivial trivial)
  obtain ⟨o, s', he, _⟩ := this
  exact ⟨o, s', he⟩

/-- WITNESS: a starter with 16 uncomposable marks, the realloc for the 16th refused: the old block is lost and the
next store goes through NULL. -/
theorem compose_safe_witness :
    ¬ Safe (exec (fun i => i == 1) (composeProg unrepaired .caller .caller 64 (⟨false, false⟩ :: List.replicate 16 ⟨true, false⟩)) {}) :=
  not_safe_of_null (by decide +kernel)

/-- FULL (code as it is) — tightness of `compose_safe_partial`: under EVERY oracle, a surviving run of the unrepaired
wcsnorm_compose_s contains no failed allocation request. -/
theorem compose_failure_never_survives (dmax : Nat) (cells : List CCell) (s s' : St) (o : Out)
    (he : exec fails (composeProg unrepaired .caller .caller dmax cells) s = .ok (o, s')) :
    ¬ ∃ i, s.next ≤ i ∧ i < s'.next ∧ fails i = true := by
  intro hex
  have h1 := (exec_nfail_iff _ _ he).2 hex
  have h2 := keeps_composeProg unrepaired rfl .caller .caller dmax cells fails s o s' he
  omega

/-- PARTIAL (code as it is, EVERY oracle): a successful return leaves no block behind.  Full statement false today (witness). -/
theorem compose_noleak_partial (dmax : Nat) (cells : List CCell) (s s' : St) (o : Out)
    (he : exec fails (composeProg unrepaired .caller .caller dmax cells) s = .ok (o, s')) (hok : o.failed = false) :
    s'.live = s.live := by
  have he' := keeps_transfer (keeps_composeProg unrepaired rfl .caller .caller dmax cells) he
  have := (wp_iff _ _ _).1 (composeProg_wp (fails := fun _ => false) (L := s.live) unrepaired .caller .caller dmax cells s (Or.inr (fun _ => rfl)) rfl trivial trivial)
  obtain ⟨o1, s1, he1, p1, _⟩ := this
  rw [he'] at he1; cases he1
  exact p1 hok

/-- WITNESS: a starter with 12 uncomposable marks into dmax = 1: the ESNOSPC exit behind the starter leaks seq_ext. -/
theorem compose_noleak_witness :
    ¬ NoLeak {} (exec (fun _ => false) (composeProg unrepaired .caller .caller 1 (⟨false, false⟩ :: List.replicate 12 ⟨true, false⟩)) {}) :=
  not_noleak_of (l := [0]) (by decide +kernel) (by decide)

/-! ### wcsnorm_s -/

/-- FULL for the repaired code (scratch malloc checked + repaired reorder/compose): every feature vector (decomposition
error?, mode, dmax, decomposed length, mark pattern, composition pattern), every oracle, every entry state: no fault;
live blocks at return = live blocks at entry; a failed allocation (scratch, sequence malloc or realloc, in either step)
is reported with dest cleared. -/
theorem norm_fixed_C20 (fx : Fixes) (h1 : fx.normtmp = true) (h2 : fx.reorder = true) (h3 : fx.compose = true)
    (x : NormFeat) (s : St) : Holds true s (exec fails (normProg fx x) s) := by
  have := (wp_iff _ _ _).1 (normProg_wp (fails := fails) fx x s (Or.inl ⟨h1, h2, h3⟩))
  obtain ⟨o, s', he, _, p2, p3⟩ := this
  rw [h1, h2, h3] at p2
  refine ⟨⟨o, s', he⟩, ?_, ?_⟩
  · intro o1 s1 h; rw [he] at h; cases h; exact p2 rfl
  · intro o1 s1 h hlt; rw [he] at h; cases h
    have := p3 hlt; exact ⟨this.1, this.2.1, fun _ => this.2.2⟩

/-- PARTIAL (code as it is): no fault when no allocation request fails.  Full statement false today (witness). -/
theorem norm_safe_partial (hnf : NoFail fails) (x : NormFeat) (s : St) : Safe (exec fails (normProg unrepaired x) s) := by
  have := (wp_iff _ _ _).1 (normProg_wp (fails := fails) unrepaired x s (Or.inr hnf))
  obtain ⟨o, s', he, _⟩ := this
  exact ⟨o, s', he⟩

/-- WITNESS: a text of 126 starters (scratch of 128 cells from malloc), the malloc refused: the reorder step writes
through NULL. -/
theorem norm_safe_witness :
    ¬ Safe (exec (fun _ => true) (normProg unrepaired ⟨false, .nfc, 200, 126, List.replicate 126 false, List.replicate 126 ⟨false, false⟩⟩) {}) :=
  not_safe_of_null (by decide +kernel)

/-- PARTIAL (code as it is, no request failing): a successful wcsnorm_s leaves no block behind (scratch and both
sequence extensions released).  The full statement needs the repaired reorder/compose exits (`norm_fixed_C20`). -/
theorem norm_noleak_partial (hnf : NoFail fails) (x : NormFeat) (s s' : St) (o : Out)
    (he : exec fails (normProg unrepaired x) s = .ok (o, s')) (hok : o.failed = false) : s'.live = s.live := by
  have := (wp_iff _ _ _).1 (normProg_wp (fails := fails) unrepaired x s (Or.inr hnf))
  obtain ⟨o1, s1, he1, p1, _⟩ := this
  rw [he] at he1; cases he1
  exact p1 hok

/-- non-vacuity: such a run exists (126 starters, scratch from malloc, success, nothing left allocated) -/
example : verdict (exec (fun _ => false) (normProg unrepaired ⟨false, .nfc, 200, 126, List.replicate 126 false, List.replicate 126 ⟨false, false⟩⟩) {}) = some (false, 0, false, 0) ∧
    liveAtReturn (exec (fun _ => false) (normProg unrepaired ⟨false, .nfc, 200, 126, List.replicate 126 false, List.replicate 126 ⟨false, false⟩⟩) {}) = some [] := by
  constructor <;> decide +kernel

/-- remark: unlike the two loops, the unrepaired wcsnorm_s CAN survive a refused scratch malloc — when the decomposed text
has more than RSIZE_MAX_WSTR - 2 cells the reorder step rejects its (NULL) destination on the size check before
touching it, and the failure is reported (handler, dest cleared, nothing leaked): failed = true, 1 handler call,
cleared, 1 failed request. -/
example : verdict (exec (fun _ => true) (normProg unrepaired ⟨false, .nfc, 1024, 1023, List.replicate 1023 false, []⟩) {}) = some (true, 1, true, 1) := by
  decide +kernel

end SafeC.Props.C20

import SafeC.Proofs.StpAll
import SafeC.Proofs.FldSteps
import SafeC.Proofs.MemccpyAbsent
import SafeC.Props.C06ExtMem
/-!
# C06 (extension 2) — `stpcpy_s` / `stpncpy_s`: success means the exact, complete result and the right pointer
(further down: the field copies `strcpyfld_s` / `strcpyfldin_s` / `strcpyfldout_s`, and `memccpy_s` without the stop character)

Setting of `Props/C07Ext.lean`: every cell mapped and readable with ARBITRARY contents, the `dmax` cells of dest
writable, usable sizes (`dest ≠ 0`, `0 < dmax ≤ RSIZE_MAX_STR`, a known object size not smaller than `dmax`, a known
source size that contains the string resp. `slen`); `cfg` — both slack configurations and every repair switch — is
universally quantified.  The source is a string of `n` non-NUL cells followed by a NUL, at ANY address different
from dest (before, inside, behind dest); `m` = number of characters `stpncpy_s` copies (`m < slen` and the string
ends there, or `slen = m`).

* `stpcpy_s_C06` / `stpncpy_s_C06`: `*errp = EOK` EXACTLY when the complete result including its terminator fits in
  `dmax` AND the `m + 1` cells read and the `m + 1` cells written do not meet; then the returned pointer is
  `dest + m` — the address of the terminator —, `dest[0..m)` are the source characters (values before the call),
  `dest[m] = 0`, with null-slack `dest[m..dmax) = 0`, no handler call, nothing outside dest changed.  Otherwise the
  pointer is NULL, `dest[0] = 0`, and the code is ESOVRLP or ESNOSPC: never a shortened or corrupted result
  reported as success.
* `*_C06_same`: `src == dest` as the code defines it: the walk to the terminator.
-/
namespace SafeC.Props.C06
open SafeC Gen

/-- the distance between two different pointers -/
private theorem gap_of_ne (dest src : Nat) (hne : dest ≠ src) :
    ∃ g, 0 < g ∧ ((dest < src ∧ src = dest + g) ∨ (src < dest ∧ dest = src + g)) := by
  by_cases h : dest < src
  · exact ⟨src - dest, by omega, Or.inl ⟨h, by omega⟩⟩
  · exact ⟨dest - src, by omega, Or.inr ⟨by omega, by omega⟩⟩

/-- the conclusion shared by the two entry points (`m` characters copied) -/
def StpC06 (cfg : Cfg) (dest dmax src m : Nat) (st st' : St) (r : Nat × Nat) : Prop :=
  (r.2 = EOK ↔ m + 1 ≤ dmax ∧ (dest + m < src ∨ src + m < dest)) ∧
  (r.2 = EOK → r.1 = dest + m ∧ cells st' dest m = cells st src m ∧ st'.data (dest + m) = 0 ∧
    (cfg.slack = true → ∀ i, m ≤ i → i < dmax → st'.data (dest + i) = 0) ∧
    st'.events = st.events ∧ st'.strays = st.strays ∧
    (∀ a, ¬ (dest ≤ a ∧ a < dest + dmax) → st'.data a = st.data a)) ∧
  (r.2 ≠ EOK → r.1 = 0 ∧ st'.data dest = 0 ∧ (r.2 = ESOVRLP ∨ r.2 = ESNOSPC) ∧
    st'.events = st.events ++ [.handler .str r.2] ∧
    (∀ a, ¬ (dest ≤ a ∧ a < dest + dmax) → st'.data a = st.data a))

private theorem stpC06_of_all {cfg : Cfg} {dest dmax src m g : Nat} {st st' : St} {r : Nat × Nat}
    (hg : 0 < g ∧ ((dest < src ∧ src = dest + g) ∨ (src < dest ∧ dest = src + g)))
    (h : StpAll cfg dest dmax src m g st st' r) : StpC06 cfg dest dmax src m st st' r := by
  have hgm : (dest + m < src ∨ src + m < dest) ↔ m < g := by omega
  by_cases hA : g ≤ m ∧ g < dmax
  · obtain ⟨hr, hp⟩ := h.hit hA.1 hA.2
    subst hr
    refine ⟨⟨fun hc => absurd hc (by decide), fun hc => by omega⟩, fun hc => absurd hc (by decide), fun _ => ?_⟩
    exact ⟨rfl, hp.2.2.1, Or.inl rfl, hp.2.1, hp.2.2.2.2⟩
  by_cases hB : m < dmax
  · have hmg : m < g := by omega
    obtain ⟨hr, hp⟩ := h.done hB hmg
    subst hr
    refine ⟨⟨fun _ => ⟨by omega, hgm.2 hmg⟩, fun _ => rfl⟩, fun _ => ?_, fun hc => absurd rfl hc⟩
    obtain ⟨hm, c1, c2, c3, c4⟩ := hp
    exact ⟨rfl, cells_eq st st' dest src m c1, c2, c3, hm.events, hm.strays, c4⟩
  · obtain ⟨hr, hp⟩ := h.full (by omega) (by omega)
    subst hr
    refine ⟨⟨fun hc => absurd hc (by decide), fun hc => by omega⟩, fun hc => absurd hc (by decide), fun _ => ?_⟩
    exact ⟨rfl, hp.2.2.1, Or.inr rfl, hp.2.1, hp.2.2.2.2⟩

/-- **stpcpy_s, every placement of a source string of length `n`** (`src ≠ dest`): EOK exactly when `n + 1 ≤ dmax`
and the `n + 1` cells read and written do not meet; then pointer `dest + n` and the exact result -/
theorem stpcpy_s_C06 (cfg : Cfg) (dest dmax src n : Nat) (destbos srcbos : Bos) (st : St)
    (hall : ∀ a, st.mapped a = true ∧ st.rd a = true)
    (hd : dest ≠ 0) (hs : src ≠ 0) (hne : dest ≠ src) (hpos : 0 < dmax) (hle : dmax ≤ RSIZE_MAX_STR)
    (hb : ∀ b, destbos = some b → dmax ≤ b) (hsb : ∀ sb, srcbos = some sb → n < sb)
    (hrw : RW st dest dmax)
    (hnz : ∀ j, j < n → st.data (src + j) ≠ 0) (hnul : st.data (src + n) = 0) :
    ∃ r st', exec (stpcpy_s cfg dest dmax src destbos srcbos) st = .ok (r, st') ∧
      StpC06 cfg dest dmax src n st st' r := by
  obtain ⟨g, hg⟩ := gap_of_ne dest src hne
  rw [stpcpy_s_eq_body cfg dest dmax src destbos srcbos hd hs hpos hle hb]
  obtain ⟨r, st', he, hp⟩ := stpBody_cases cfg false dest dmax src n g 0 srcbos st hall hpos hrw hg hnz
    (Or.inl ⟨fun h => absurd h (by decide), hnul⟩)
    (by
      intro i hi
      refine untermB_false _ _ (fun sb h => ?_)
      have := hsb sb h
      simp only [stpSlen, Bool.false_eq_true, if_false]; omega)
  exact ⟨r, st', he, stpC06_of_all hg hp⟩

/-- **stpncpy_s, every placement** (`src ≠ dest`), `m = min(slen, strlen src)` characters: EOK exactly when
`m + 1 ≤ dmax` and the `m + 1` cells read / written do not meet; then pointer `dest + m` and the exact result.
(`slen = 0` included: `m = 0`, the result is the empty string.) -/
theorem stpncpy_s_C06 (cfg : Cfg) (dest dmax src slen m : Nat) (destbos srcbos : Bos) (st : St)
    (hall : ∀ a, st.mapped a = true ∧ st.rd a = true)
    (hd : dest ≠ 0) (hs : src ≠ 0) (hne : dest ≠ src) (hpos : 0 < dmax) (hle : dmax ≤ RSIZE_MAX_STR)
    (hslenle : slen ≤ RSIZE_MAX_STR)
    (hb : ∀ b, destbos = some b → dmax ≤ b) (hsb : ∀ sb, srcbos = some sb → slen ≤ sb)
    (hrw : RW st dest dmax)
    (hnz : ∀ j, j < m → st.data (src + j) ≠ 0)
    (hfin : (m < slen ∧ st.data (src + m) = 0) ∨ slen = m) :
    ∃ r st', exec (stpncpy_s cfg dest dmax src slen destbos srcbos) st = .ok (r, st') ∧
      StpC06 cfg dest dmax src m st st' r := by
  obtain ⟨g, hg⟩ := gap_of_ne dest src hne
  rw [stpncpy_s_eq_body cfg dest dmax src slen destbos srcbos hd hs hpos hle hslenle hb hsb]
  have hm : m ≤ slen := by rcases hfin with h | h <;> omega
  obtain ⟨r, st', he, hp⟩ := stpBody_cases cfg true dest dmax src m g slen srcbos st hall hpos hrw hg hnz
    (hfin.elim (fun h => Or.inl ⟨fun _ => h.1, h.2⟩) (fun h => Or.inr ⟨rfl, h⟩))
    (by
      intro i hi
      refine untermB_false _ _ (fun sb h => ?_)
      have := hsb sb h
      simp only [stpSlen, if_true]; omega)
  exact ⟨r, st', he, stpC06_of_all hg hp⟩

/-- src = "ab" at 200, dest = 5 writable cells at 100 -/
def stpExSt : St :=
  { data := fun a => if a = 200 then 97 else if a = 201 then 98 else 0
    mapped := fun _ => true, rd := fun _ => true
    wr := fun a => decide (100 ≤ a ∧ a < 105) }

/-- non-vacuity: `stpExSt`; `n = 2`, and for `stpncpy_s` `slen = 1`, `m = 1` -/
example : (∀ a, stpExSt.mapped a = true ∧ stpExSt.rd a = true) ∧
    RW stpExSt 100 5 ∧ (100 : Nat) ≠ 200 ∧
    (∀ j, j < 2 → stpExSt.data (200 + j) ≠ 0) ∧ stpExSt.data (200 + 2) = 0 ∧
    (((1 : Nat) < 1 ∧ stpExSt.data (200 + 1) = 0) ∨ (1 : Nat) = 1) := by
  refine ⟨fun _ => ⟨rfl, rfl⟩, fun i hi => ⟨rfl, ?_, rfl⟩, by decide, ?_, by decide, Or.inr rfl⟩
  · simp [stpExSt]; omega
  · intro j hj
    have : j = 0 ∨ j = 1 := by omega
    rcases this with h | h <;> subst h <;> decide

/-! ## `src == dest` -/

/-- the conclusion of the `src == dest` walk: `n` = length of the string dest holds (`n ≥ dmax`: no NUL in dest) -/
def StpSame (cfg : Cfg) (dest dmax n : Nat) (st st' : St) (r : Nat × Nat) : Prop :=
  (r.2 = EOK ↔ n + 1 ≤ dmax) ∧
  (r.2 = EOK → r.1 = dest + n ∧ st'.events = st.events ∧ st'.strays = st.strays ∧
    ∀ a, st'.data a = if cfg.slack = true ∧ dest + n ≤ a ∧ a < dest + dmax then 0 else st.data a) ∧
  (r.2 ≠ EOK → r = (0, ESNOSPC) ∧ st'.data dest = 0 ∧ st'.events = st.events ++ [.handler .str ESNOSPC] ∧
    (∀ a, ¬ (dest ≤ a ∧ a < dest + dmax) → st'.data a = st.data a))

private theorem stpSame_of {cfg : Cfg} {isN : Bool} {dest dmax n : Nat} {st : St} (hpos : 0 < dmax) (hrw : RW st dest dmax)
    (hnz : ∀ j, j < n → j < dmax → st.data (dest + j) ≠ 0) (hz : n < dmax → st.data (dest + n) = 0) :
    ∃ r st', exec (stpSameWalk cfg isN dest dmax dmax dest) st = .ok (r, st') ∧ StpSame cfg dest dmax n st st' r := by
  obtain ⟨r, st', he, hok, hfail⟩ := stpSameWalk_exact cfg isN dest dmax hpos n dmax dest st hrw ⟨Nat.le_refl _, rfl⟩ hnz hz
  refine ⟨r, st', he, ?_⟩
  by_cases h : n < dmax
  · obtain ⟨hr, hm, hd⟩ := hok h
    subst hr
    exact ⟨⟨fun _ => by omega, fun _ => rfl⟩, fun _ => ⟨rfl, hm.events, hm.strays, hd⟩, fun hc => absurd rfl hc⟩
  · obtain ⟨hr, hp⟩ := hfail (by omega)
    subst hr
    exact ⟨⟨fun hc => absurd hc (by decide), fun hc => by omega⟩, fun hc => absurd hc (by decide),
      fun _ => ⟨rfl, hp.2.2.1, hp.2.1, hp.2.2.2.2⟩⟩

/-- **stpcpy_s(dest, dmax, dest)**: dest holds `n` non-NUL cells then a NUL (or no NUL within `dmax`: `dmax ≤ n`).
EOK exactly when `n + 1 ≤ dmax`; then the pointer is `dest + n`, no handler call, and the memory is unchanged except
for the null-slack zeros behind the terminator.  Otherwise `(NULL, ESNOSPC)` with dest cleared. -/
theorem stpcpy_s_C06_same (cfg : Cfg) (dest dmax n : Nat) (destbos srcbos : Bos) (st : St)
    (hd : dest ≠ 0) (hpos : 0 < dmax) (hle : dmax ≤ RSIZE_MAX_STR) (hb : ∀ b, destbos = some b → dmax ≤ b)
    (hrw : RW st dest dmax)
    (hnz : ∀ j, j < n → j < dmax → st.data (dest + j) ≠ 0) (hz : n < dmax → st.data (dest + n) = 0) :
    ∃ r st', exec (stpcpy_s cfg dest dmax dest destbos srcbos) st = .ok (r, st') ∧ StpSame cfg dest dmax n st st' r := by
  rw [stpcpy_s_eq_body cfg dest dmax dest destbos srcbos hd hd hpos hle hb]
  unfold stpBody
  rw [if_pos rfl]
  exact stpSame_of hpos hrw hnz hz

/-- **stpncpy_s(dest, dmax, dest, slen)**: the same walk — `slen` is not looked at (see the witness) -/
theorem stpncpy_s_C06_same (cfg : Cfg) (dest dmax slen n : Nat) (destbos srcbos : Bos) (st : St)
    (hd : dest ≠ 0) (hpos : 0 < dmax) (hle : dmax ≤ RSIZE_MAX_STR) (hslenle : slen ≤ RSIZE_MAX_STR)
    (hb : ∀ b, destbos = some b → dmax ≤ b) (hsb : ∀ sb, srcbos = some sb → slen ≤ sb)
    (hrw : RW st dest dmax)
    (hnz : ∀ j, j < n → j < dmax → st.data (dest + j) ≠ 0) (hz : n < dmax → st.data (dest + n) = 0) :
    ∃ r st', exec (stpncpy_s cfg dest dmax dest slen destbos srcbos) st = .ok (r, st') ∧
      StpSame cfg dest dmax n st st' r := by
  rw [stpncpy_s_eq_body cfg dest dmax dest slen destbos srcbos hd hd hpos hle hslenle hb hsb]
  unfold stpBody
  rw [if_pos rfl]
  exact stpSame_of hpos hrw hnz hz

/-- dest = "ab" in 3 writable cells at 100 -/
def sameSt : St :=
  { data := fun a => if a = 100 then 97 else if a = 101 then 98 else 0
    mapped := fun _ => true, rd := fun _ => true
    wr := fun a => decide (100 ≤ a ∧ a < 103) }

/-- the returned pair of a run -/
def retPair (r : Except Fault ((Nat × Nat) × St)) : Option (Nat × Nat) :=
  match r with
  | .ok (p, _) => some p
  | .error _ => none

/-- `stpncpy_s(d = "ab", 3, d, 1)`: identical pointers, `slen = 1 < strlen`: EOK with the pointer at `d + 2` — the
whole string stays, not its first `slen` characters (identical pointers are outside the standard function's
contract; recorded as the behaviour of the code, not as a finding) -/
theorem stpncpy_s_C06_same_witness :
    retPair (exec (stpncpy_s {} 100 3 100 1 none none) sameSt) = some (102, EOK) := by
  decide

/-- non-vacuity of the `src == dest` theorems: `sameSt`, `n = 2` -/
example : RW sameSt 100 3 ∧ (∀ j, j < 2 → j < 3 → sameSt.data (100 + j) ≠ 0) ∧ ((2 : Nat) < 3 → sameSt.data (100 + 2) = 0) := by
  refine ⟨fun i hi => ⟨rfl, ?_, rfl⟩, ?_, fun _ => by decide⟩
  · simp [sameSt]; omega
  · intro j hj _
    have : j = 0 ∨ j = 1 := by omega
    rcases this with h | h <;> subst h <;> decide

/-! ## the field copies `strcpyfld_s`, `strcpyfldin_s`, `strcpyfldout_s`

Same setting (everything readable, the `dmax` cells of dest writable, usable dest, `slen ≠ 0`, `src ≠ 0`); ANY placement,
ANY `slen` (also above `dmax`), any contents, both slack configurations.  EOK EXACTLY when `slen ≤ dmax` and the cells
read and the cells written do not meet; then dest holds exactly the copy the doc comment promises and the rest of the
field is nulled (unconditionally: not a null-slack matter), no handler call, nothing outside dest changed.  On every other
code `dest[0] = 0`.  False of the code: `strcpyfldout_s` with `slen = dmax` returns EOK having dropped the last character
(`strcpyfldout-slen-eq-dmax`): `_partial` + `_witness`. -/

/-- exact result of a successful field copy of `n` cells -/
def FldExact (dest dmax src n : Nat) (st st' : St) : Prop :=
  cells st' dest n = cells st src n ∧
  (∀ i, n ≤ i → i < dmax → st'.data (dest + i) = 0) ∧
  st'.events = st.events ∧ st'.strays = st.strays ∧
  (∀ a, ¬ (dest ≤ a ∧ a < dest + dmax) → st'.data a = st.data a)

private theorem fldExact_of {dest dmax src n : Nat} {st st' : St} (h : FldOk dest dmax src n st st') (hn : n ≤ dmax) :
    FldExact dest dmax src n st st' :=
  ⟨cells_eq st st' dest src n h.copied, h.filled, h.1.events, h.1.strays, h.frame hn⟩

/-- what every non-EOK return of the field copies looks like -/
def FldFailed (cfg : Cfg) (dest dmax slen : Nat) (st st' : St) (code : Nat) : Prop :=
  st'.data dest = 0 ∧ (code = ESOVRLP ∨ code = fldNospcCode slen) ∧
  st'.events = st.events ++ [.handler .str code] ∧ st'.strays = st.strays ∧
  (∀ a, ¬ (dest ≤ a ∧ a < dest + dmax) → st'.data a = st.data a) ∧
  (code = ESOVRLP → cfg.slack = true → ∀ i, i < dmax → st'.data (dest + i) = 0)

private theorem fldFailed_of {kind : FldKind} {cfg : Cfg} {dest dmax src slen code : Nat} {st st' : St}
    (hp : FldPost kind cfg dest dmax src slen st st' code) (hs : src ≠ 0) (hne : code ≠ EOK) :
    FldFailed cfg dest dmax slen st st' code := by
  refine ⟨hp.fail_first hne, ?_, hp.safe.fail_events hne, hp.safe.strays, hp.safe.frame,
    fun h => hp.fail_clear (Or.inr h)⟩
  rcases hp.codes with h | h | h | h
  · exact absurd h hne
  · by_cases hgt : dmax < slen
    · exact Or.inr (hp.nospc hs hgt)
    · rcases hp.fits hs (by omega) with h' | h'
      · exact absurd h' hne
      · exact Or.inl h'
  · exact Or.inl h
  · exact Or.inr h

/-- **strcpyfld_s**: EOK exactly when `slen ≤ dmax` and the two `slen`-cell fields do not meet; then
`dest[0..slen) = src[0..slen)` verbatim (NULs included) and `dest[slen..dmax) = 0` -/
theorem strcpyfld_s_C06 (cfg : Cfg) (dest dmax src slen : Nat) (destbos : Bos) (st : St)
    (hall : ∀ a, st.mapped a = true ∧ st.rd a = true) (hrw : RW st dest dmax)
    (hd : dest ≠ 0) (hpos : 0 < dmax) (hle : dmax ≤ RSIZE_MAX_STR) (hbos : ∀ b, destbos = some b → dmax ≤ b)
    (hsl : slen ≠ 0) (hs : src ≠ 0) :
    ∃ code st', exec (strcpyfld_s cfg dest dmax src slen destbos) st = .ok (code, st') ∧
      (code = EOK ↔ slen ≤ dmax ∧ (dest + slen ≤ src ∨ src + slen ≤ dest)) ∧
      (code = EOK → FldExact dest dmax src slen st st') ∧
      (code ≠ EOK → FldFailed cfg dest dmax slen st st' code) := by
  unfold strcpyfld_s
  rw [fldG_entry _ cfg dest dmax src slen destbos hsl hd hpos hle hbos]
  obtain ⟨code, st', he, hp, h1, _, h3⟩ := fldBody_fld_all cfg dest dmax src slen st hall hrw hd hpos hle hs
  exact ⟨code, st', he, h1, fun hc => fldExact_of (h3 hc) (h1.1 hc).1, fldFailed_of hp hs⟩

/-- **strcpyfldin_s**: `n` = number of leading non-NUL source characters capped by `slen` (the copy stops at the
terminator).  EOK exactly when `slen ≤ dmax` and the cells read (the `n` characters and, unless `slen` ran out, the
terminator) and the `n` cells written do not meet; then `dest[0..n) = src[0..n)`, `dest[n..dmax) = 0` -/
theorem strcpyfldin_s_C06 (cfg : Cfg) (dest dmax src slen n : Nat) (destbos : Bos) (st : St)
    (hall : ∀ a, st.mapped a = true ∧ st.rd a = true) (hrw : RW st dest dmax)
    (hd : dest ≠ 0) (hpos : 0 < dmax) (hle : dmax ≤ RSIZE_MAX_STR) (hbos : ∀ b, destbos = some b → dmax ≤ b)
    (hsl : slen ≠ 0) (hs : src ≠ 0)
    (hn : n ≤ slen) (hnz : ∀ j, j < n → st.data (src + j) ≠ 0) (hend : n = slen ∨ st.data (src + n) = 0) :
    ∃ code st', exec (strcpyfldin_s cfg dest dmax src slen destbos) st = .ok (code, st') ∧
      (code = EOK ↔ slen ≤ dmax ∧ (dest + n ≤ src ∨ src + n < dest ∨ (src + n = dest ∧ n = slen))) ∧
      (code = EOK → FldExact dest dmax src n st st') ∧
      (code ≠ EOK → FldFailed cfg dest dmax slen st st' code) := by
  unfold strcpyfldin_s
  rw [fldG_entry _ cfg dest dmax src slen destbos hsl hd hpos hle hbos]
  obtain ⟨code, st', he, hp, h1, _, h3⟩ :=
    fldBody_fldin_all cfg dest dmax src slen n st hall hrw hd hpos hle hs hn hnz hend
  exact ⟨code, st', he, h1, fun hc => fldExact_of (h3 hc) (by have := (h1.1 hc).1; omega), fldFailed_of hp hs⟩

/-- **strcpyfldout_s, what the code does for every `slen`**: EOK exactly when `slen ≤ dmax` and the
`min slen (dmax-1)` cells read and written do not meet; then THAT many characters are copied, the rest nulled -/
theorem strcpyfldout_s_C06_shape (cfg : Cfg) (dest dmax src slen : Nat) (destbos : Bos) (st : St)
    (hall : ∀ a, st.mapped a = true ∧ st.rd a = true) (hrw : RW st dest dmax)
    (hd : dest ≠ 0) (hpos : 0 < dmax) (hle : dmax ≤ RSIZE_MAX_STR) (hbos : ∀ b, destbos = some b → dmax ≤ b)
    (hsl : slen ≠ 0) (hs : src ≠ 0) :
    ∃ code st', exec (strcpyfldout_s cfg dest dmax src slen destbos) st = .ok (code, st') ∧
      (code = EOK ↔ slen ≤ dmax ∧ (dest + min slen (dmax - 1) ≤ src ∨ src + min slen (dmax - 1) ≤ dest)) ∧
      (code = EOK → FldExact dest dmax src (min slen (dmax - 1)) st st') ∧
      (code ≠ EOK → FldFailed cfg dest dmax slen st st' code) := by
  unfold strcpyfldout_s
  rw [fldG_entry _ cfg dest dmax src slen destbos hsl hd hpos hle hbos]
  obtain ⟨code, st', he, hp, h1, _, h3⟩ := fldBody_fldout_all cfg dest dmax src slen st hall hrw hd hpos hle hs
  exact ⟨code, st', he, h1, fun hc => fldExact_of (h3 hc) (by omega), fldFailed_of hp hs⟩

/- FULL statement (FALSE of the code for `slen = dmax`, see `strcpyfldout_s_C06_witness`): the same without `hlt`,
   i.e. "EOK ⇒ all `slen` characters are in dest" / "EOK ⇔ `slen + 1 ≤ dmax` (characters and terminator fit) …". -/
/-- **strcpyfldout_s**, `slen < dmax` (the `slen` characters AND the terminator fit): EOK exactly when the `slen` cells
read and written do not meet; then all `slen` characters are copied verbatim, `dest[slen..dmax) = 0` -/
theorem strcpyfldout_s_C06_partial (cfg : Cfg) (dest dmax src slen : Nat) (destbos : Bos) (st : St)
    (hall : ∀ a, st.mapped a = true ∧ st.rd a = true) (hrw : RW st dest dmax)
    (hd : dest ≠ 0) (hpos : 0 < dmax) (hle : dmax ≤ RSIZE_MAX_STR) (hbos : ∀ b, destbos = some b → dmax ≤ b)
    (hsl : slen ≠ 0) (hs : src ≠ 0) (hlt : slen < dmax) :
    ∃ code st', exec (strcpyfldout_s cfg dest dmax src slen destbos) st = .ok (code, st') ∧
      (code = EOK ↔ (dest + slen ≤ src ∨ src + slen ≤ dest)) ∧
      (code = EOK → FldExact dest dmax src slen st st') ∧
      (code ≠ EOK → FldFailed cfg dest dmax slen st st' code) := by
  obtain ⟨code, st', he, h1, h2, h3⟩ :=
    strcpyfldout_s_C06_shape cfg dest dmax src slen destbos st hall hrw hd hpos hle hbos hsl hs
  have e : min slen (dmax - 1) = slen := by omega
  rw [e] at h1 h2
  exact ⟨code, st', he, ⟨fun hc => (h1.1 hc).2, fun h => h1.2 ⟨by omega, h⟩⟩, h2, h3⟩

/-- dest = 2 writable cells at 100 holding 7 7, src = "ab" at 200 -/
def fldoutSt : St :=
  { data := fun a => if a = 100 ∨ a = 101 then 7 else if a = 200 then 97 else if a = 201 then 98 else 0
    mapped := fun _ => true, rd := fun _ => true
    wr := fun a => decide (100 ≤ a ∧ a < 102) }

/-- the excluded point: `strcpyfldout_s(d, 2, "ab", 2)` — `slen = dmax`, allowed by the entry check `slen ≤ dmax` —
returns EOK with `d = "a"`: the second character is silently dropped (**listed**: `strcpyfldout-slen-eq-dmax`) -/
theorem strcpyfldout_s_C06_witness :
    ∃ st', exec (strcpyfldout_s {} 100 2 200 2 none) fldoutSt = .ok (EOK, st') ∧
      st'.data 100 = 97 ∧ st'.data 101 = 0 ∧ fldoutSt.data 201 = 98 := by
  refine ⟨(fldoutSt.upd 100 97).upd 101 0, ?_, ?_⟩
  · simp [strcpyfldout_s, fldG, chkDmax, chkSlenNospcClear, RSIZE_MAX_STR, fldLoop,
      nullSlack, zeroLoop, exec_bind, fldoutSt, EOK, St.upd]
  · simp [St.upd, fldoutSt]

/-- non-vacuity of the field-copy theorems: `fldoutSt` with `dmax = 2`, `slen = 1`, `n = 1` -/
example : (∀ a, fldoutSt.mapped a = true ∧ fldoutSt.rd a = true) ∧ RW fldoutSt 100 2 ∧ (1 : Nat) ≠ 0 ∧ (1 : Nat) < 2 ∧
    (∀ j, j < 1 → fldoutSt.data (200 + j) ≠ 0) ∧ ((1 : Nat) = 1 ∨ fldoutSt.data (200 + 1) = 0) := by
  refine ⟨fun _ => ⟨rfl, rfl⟩, fun i hi => ⟨rfl, ?_, rfl⟩, by decide, by decide, ?_, Or.inl rfl⟩
  · simp [fldoutSt]; omega
  · intro j hj
    have : j = 0 := by omega
    subst this; decide

/-! ## `memccpy_s` when the stop character does not occur among the `n` source bytes

Valid arguments, disjoint operands (setting of `Props/C06ExtMem.lean`: only the declared extents mapped / readable).
Standard `memccpy` copies the `n` bytes and returns NULL.  `memccpy_s` copies them, stores a NUL behind them and returns
EOK — provided there is room for that NUL (`n < dmax`); nothing else is changed (this exit does no null-slack clearing).
For `n = dmax` it fails with ESNOSPC through the STRING handler although the `n` bytes fit (`memccpy-n-eq-dmax`, listed
under C05 / C04): `_partial` + `_witness`. -/

/- FULL statement (FALSE of the code for `n = dmax`, see the witness): the same without `hlt`. -/
/-- **memccpy_s, stop character absent, `n < dmax`**: EOK, `dest[0..n) = src[0..n)`, `dest[n] = 0`, no handler call,
no stray access, nothing else changed -/
theorem memccpy_s_C06_absent_partial (cfg : Cfg) (dest dmax src c n : Nat) (st : St)
    (hd : dest ≠ 0) (hs : src ≠ 0) (hpos : 0 < n) (hlt : n < dmax) (hmax : dmax ≤ RSIZE_MAX_MEM)
    (hw : RW st dest dmax) (hr : RD st src n) (ha1 : src + n < Mem.U64) (ha2 : dest + dmax < Mem.U64)
    (hno : ¬ ((src ≤ dest ∧ dest < src + n) ∨ (dest < src ∧ src < dest + dmax)))
    (hns : ∀ i, i < n → ((st.data (src+i) : Nat) : Int) ≠ Mem.asInt c) :
    ∃ st', exec (memccpy_s cfg dest dmax src c n none none) st = .ok (EOK, st') ∧
      cells st' dest n = cells st src n ∧ st'.data (dest + n) = 0 ∧
      st'.events = st.events ∧ st'.strays = st.strays ∧
      (∀ a, ¬ (dest ≤ a ∧ a ≤ dest + n) → st'.data a = st.data a) := by
  obtain ⟨code, st', he, hok, _⟩ :=
    memccpy_s_absent cfg dest dmax src c n st hd hs hpos (by omega) hmax hw hr ha1 ha2 hno hns
  obtain ⟨hc, hm, c1, c2, c3⟩ := hok hlt
  subst hc
  exact ⟨st', he, cells_eq st st' dest src n c1, c2, hm.events, hm.strays, c3⟩

/-- the excluded point `n = dmax`, for every such call: ESNOSPC, one STRING-handler event, dest cleared, nothing outside
dest changed — the `n` bytes would have fitted -/
theorem memccpy_s_C06_absent_full_dmax (cfg : Cfg) (dest dmax src c : Nat) (st : St)
    (hd : dest ≠ 0) (hs : src ≠ 0) (hpos : 0 < dmax) (hmax : dmax ≤ RSIZE_MAX_MEM)
    (hw : RW st dest dmax) (hr : RD st src dmax) (ha1 : src + dmax < Mem.U64) (ha2 : dest + dmax < Mem.U64)
    (hno : ¬ ((src ≤ dest ∧ dest < src + dmax) ∨ (dest < src ∧ src < dest + dmax)))
    (hns : ∀ i, i < dmax → ((st.data (src+i) : Nat) : Int) ≠ Mem.asInt c) :
    ∃ st', exec (memccpy_s cfg dest dmax src c dmax none none) st = .ok (ESNOSPC, st') ∧
      st'.events = st.events ++ [.handler .str ESNOSPC] ∧ st'.strays = st.strays ∧ st'.data dest = 0 ∧
      (cfg.slack = true → ∀ i, i < dmax → st'.data (dest + i) = 0) ∧
      (∀ a, ¬ (dest ≤ a ∧ a < dest + dmax) → st'.data a = st.data a) := by
  obtain ⟨code, st', he, _, hfull⟩ :=
    memccpy_s_absent cfg dest dmax src c dmax st hd hs hpos (Nat.le_refl _) hmax hw hr ha1 ha2 hno hns
  obtain ⟨hc, h1, h2, h3, h4, h5⟩ := hfull rfl
  subst hc
  exact ⟨st', he, h2, h1, h3, h4, h5⟩

/-- src = 200 holds `'a'`, dest = 100 (1 cell holding 7) -/
def ccaSt : St :=
  { data := fun a => if a = 200 then 97 else 7
    mapped := fun _ => true, rd := fun _ => true
    wr := fun a => decide (a = 100) }

/-- the excluded point: `memccpy_s(d, 1, "a", 0, 1)` — one byte into a one-byte dest, stop character 0 absent — is
rejected with ESNOSPC and `d[0] = 0` (**listed**: `memccpy-n-eq-dmax`) -/
theorem memccpy_s_C06_absent_witness :
    observe (exec (memccpy_s { slack := true } 100 1 200 0 1 none none) ccaSt) 100 = some (ESNOSPC, 0) := by decide

example : RW ccaSt 100 1 ∧ RD ccaSt 200 1 ∧ ((ccaSt.data (200 + 0) : Nat) : Int) ≠ Mem.asInt 0 :=
  ⟨fun i hi => ⟨rfl, by simp [ccaSt]; omega, rfl⟩, fun _ _ => ⟨rfl, rfl⟩, by decide⟩

end SafeC.Props.C06

import SafeC.Proofs.OsGets
/-!
# C03 for the os family beyond getenv_s / strerror_s (those: `Props/C03Ext.lean`): `gets_s`, `asctime_s`, `ctime_s`

Setting of `Proofs/ExtOs.lean`: dest is usable (`dest ≠ 0`, `0 < dmax` within the limit and inside the object when its
size is known, `RW st dest dmax`: `dmax` writable cells of ARBITRARY prior content), what the C reads (the stream region, the
`struct tm`, `*timer`, libc's text) is readable and does not overlap dest; nothing else is assumed about the memory.  Both slack
configurations, no bound on any size.

* `gets_s_C03`: EVERY stream (any bytes, any length, with or without newline, embedded NULs, empty, the read-error stream).
* `asctime_s_C03` / `ctime_s_C03`: every exit except "libc's text has `dmax` or more characters" — `timeTail` then reports
  ESNOSPC WITHOUT touching dest, and with `dmax ≥ 120` libc has already written the unterminated-within-`dmax` text into dest.
  With glibc's 25 characters and `26 ≤ dmax` that exit is unreachable; the FULL statement is false of the model there
  (`asctime_s_C03_witness`), hence `_partial`.
-/
namespace SafeC.Props.C03Os
open SafeC Gen

/-- gets_s, EVERY exit on a usable dest, EVERY stream `inp[0..len)` (any bytes and length: newline or not, embedded NULs,
empty, `inp = 0` = the stream whose read fails; object size known or not; both slack configurations; arbitrary prior dest
content): the call returns and a NUL exists in dest[0..dmax). -/
theorem gets_s_C03 (cfg : Cfg) (dest dmax : Nat) (destbos : Bos) (inp len : Nat) (st : St)
    (hd : dest ≠ 0) (hpos : 0 < dmax) (hnone : destbos = none → dmax ≤ RSIZE_MAX_STR)
    (hbos : ∀ b, destbos = some b → dmax ≤ b) (hrw : RW st dest dmax)
    (hrd : ∀ j, j < len → st.mapped (inp+j) = true ∧ st.rd (inp+j) = true)
    (hdisj : dest + dmax ≤ inp ∨ inp + len ≤ dest) :
    ∃ r st', exec (gets_s cfg dest dmax destbos inp len) st = .ok (r, st') ∧
      ∃ i, i < dmax ∧ st'.data (dest + i) = 0 := by
  obtain ⟨h1, h2, h3, _⟩ := lineStr_spec st inp len
  obtain ⟨r, st', he, _, hp⟩ := gets_s_runs cfg dest dmax destbos inp len _ st hd hpos hnone hbos hrw hrd hdisj h1 h2 h3
  refine ⟨r, st', he, ?_⟩
  rcases hp with ⟨_, _, _, hz, _⟩ | ⟨_, _, hf, _, _, _, hz, _⟩ | ⟨_, _, _, _, _, hz, _⟩
  · exact ⟨0, hpos, by simpa using hz⟩
  · exact ⟨_, by rcases hf with h | ⟨h, _⟩ <;> omega, hz⟩
  · exact ⟨0, hpos, by simpa using hz⟩

/-- non-vacuity: dest = 100 (8 cells holding 7, no NUL), the stream "ab\ncd" at 200 -/
example : (100 : Nat) ≠ 0 ∧ 0 < 8 ∧ 8 ≤ RSIZE_MAX_STR ∧ RW getsExSt 100 8 ∧
    (∀ j, j < 5 → getsExSt.mapped (200+j) = true ∧ getsExSt.rd (200+j) = true) ∧ (100 + 8 ≤ 200 ∨ 200 + 5 ≤ 100) :=
  ⟨by decide, by decide, by decide, getsExSt_rw, getsExSt_rd, Or.inl (by decide)⟩

end SafeC.Props.C03Os

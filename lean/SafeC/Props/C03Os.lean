import SafeC.Proofs.OsGets
import SafeC.Proofs.OsTime
/-!
# C03 for the os family beyond getenv_s / strerror_s (those: `Props/C03Ext.lean`): `gets_s`, `asctime_s`, `ctime_s`

Setting of `Proofs/ExtOs.lean`: dest is usable (`dest ≠ 0`, `0 < dmax` within the limit and inside the object when its
size is known, `RW st dest dmax`: `dmax` writable cells of ARBITRARY prior content), what the C reads (the stream region, the
`struct tm`, `*timer`, libc's text) is readable and does not overlap dest; nothing else is assumed about the memory.  Both slack
configurations, no bound on any size.

* `gets_s_C03`: EVERY stream (any bytes, any length, with or without newline, embedded NULs, empty, the read-error stream).
* `asctime_s_C03` / `ctime_s_C03`: every exit except "libc's text has `dmax` or more characters" — `timeTail` then reports
  ESNOSPC WITHOUT touching dest, and with `dmax ≥ 120` libc has already written the unterminated-within-`dmax` text into dest.
  With glibc's 25 characters and `26 ≤ dmax` that exit is unreachable; the FULL statement is false of the model there
  (`asctime_s_C03_witness`), hence `_partial`.
-/
namespace SafeC.Props.C03Os
open SafeC Gen

/-- gets_s, EVERY exit on a usable dest, EVERY stream `inp[0..len)` (any bytes and length: newline or not, embedded NULs,
empty, `inp = 0` = the stream whose read fails; object size known or not; both slack configurations; arbitrary prior dest
content): the call returns and a NUL exists in dest[0..dmax). -/
theorem gets_s_C03 (cfg : Cfg) (dest dmax : Nat) (destbos : Bos) (inp len : Nat) (st : St)
    (hd : dest ≠ 0) (hpos : 0 < dmax) (hnone : destbos = none → dmax ≤ RSIZE_MAX_STR)
    (hbos : ∀ b, destbos = some b → dmax ≤ b) (hrw : RW st dest dmax)
    (hrd : ∀ j, j < len → st.mapped (inp+j) = true ∧ st.rd (inp+j) = true)
    (hdisj : dest + dmax ≤ inp ∨ inp + len ≤ dest) :
    ∃ r st', exec (gets_s cfg dest dmax destbos inp len) st = .ok (r, st') ∧
      ∃ i, i < dmax ∧ st'.data (dest + i) = 0 := by
  obtain ⟨h1, h2, h3, _⟩ := lineStr_spec st inp len
  obtain ⟨r, st', he, _, hp⟩ := gets_s_runs cfg dest dmax destbos inp len _ st hd hpos hnone hbos hrw hrd hdisj h1 h2 h3
  refine ⟨r, st', he, ?_⟩
  rcases hp with ⟨_, _, _, hz, _⟩ | ⟨_, _, hf, _, _, _, hz, _⟩ | ⟨_, _, _, _, _, hz, _⟩
  · exact ⟨0, hpos, by simpa using hz⟩
  · exact ⟨_, by rcases hf with h | ⟨h, _⟩ <;> omega, hz⟩
  · exact ⟨0, hpos, by simpa using hz⟩

/-- non-vacuity: dest = 100 (8 cells holding 7, no NUL), the stream "ab\ncd" at 200 -/
example : (100 : Nat) ≠ 0 ∧ 0 < 8 ∧ 8 ≤ RSIZE_MAX_STR ∧ RW getsExSt 100 8 ∧
    (∀ j, j < 5 → getsExSt.mapped (200+j) = true ∧ getsExSt.rd (200+j) = true) ∧ (100 + 8 ≤ 200 ∨ 200 + 5 ≤ 100) :=
  ⟨by decide, by decide, by decide, getsExSt_rw, getsExSt_rd, Or.inl (by decide)⟩

/-! ## asctime_s / ctime_s -/

/-- a NUL within `dmax` from the exit-by-exit result -/
private theorem nul_of_TimePost {cfg : Cfg} {dest dmax text n : Nat} {lf : Bool} {st : St} {r : Nat} {s : St} (hpos : 0 < dmax)
    (hfit : text ≠ 0 → lf = false → n < dmax) (h : TimePost cfg dest dmax text n lf st r s) :
    ∃ i, i < dmax ∧ s.data (dest + i) = 0 := by
  rcases h.2 with ⟨_, _, hz, _⟩ | ⟨_, _, _, hz, _⟩ | ⟨_, _, hn, _, _, _, hz, _⟩ | ⟨ht, hl, hn, _⟩
  · exact ⟨0, hpos, by simpa using hz⟩
  · exact ⟨0, hpos, by simpa using hz⟩
  · exact ⟨n, hn, hz⟩
  · have := hfit ht hl; omega

/- FULL C03 statement for asctime_s (FALSE of the model, see `asctime_s_C03_witness`): as below without `hfit`, i.e. for a text
   of any length.  The exit taken when libc's text has `dmax` or more characters (`timeTail`: `strlen(tmp) >= dmax`) reports
   ESNOSPC and returns WITHOUT touching dest.  Unreachable in the C with glibc: the text has 25 characters and `dmax >= 26`. -/
/-- asctime_s, every exit on a usable dest (`tm` null or 12 readable cells of ANY content — every combination of violated
member ranges; libc's text absent (`text = 0`: libc failed) or a readable string of `n < dmax` characters away from dest;
`dmax < 26` included; object size known or not; both slack configurations; arbitrary prior dest content): the call returns
and a NUL exists in dest[0..dmax). -/
theorem asctime_s_C03_partial (cfg : Cfg) (dest dmax tm : Nat) (db : Bos) (text n : Nat) (st : St)
    (hd : dest ≠ 0) (hpos : 0 < dmax) (hb : ∀ b, db = some b → dmax ≤ b) (hnone : db = none → dmax ≤ RSIZE_MAX_STR)
    (hrw : RW st dest dmax) (htm : tm ≠ 0 → ∀ i, i < 12 → st.mapped (tm + i) = true ∧ st.rd (tm + i) = true)
    (htext : TextOk st dest dmax text n) (hfit : text ≠ 0 → n < dmax) :
    ∃ r st', exec (asctime_s cfg dest dmax tm db text) st = .ok (r, st') ∧ ∃ i, i < dmax ∧ st'.data (dest + i) = 0 := by
  obtain ⟨r, st', he, hp⟩ := asctime_s_runs cfg dest dmax tm db text n st hd hpos hb hnone hrw htm htext
  exact ⟨r, st', he, nul_of_TimePost hpos (fun h _ => hfit h) hp⟩

/-- the excluded point: a valid `struct tm`, `dmax = 26`, a "libc text" of 26 characters; every other hypothesis of
`asctime_s_C03_partial` holds; ESNOSPC is reported, dest is exactly what it was: no NUL in dest[0..26) -/
theorem asctime_s_C03_witness :
    RW timeWSt 100 26 ∧ TextOk timeWSt 100 26 200 26 ∧
    ∃ st', exec (asctime_s {} 100 26 300 none 200) timeWSt = .ok (ESNOSPC, st') ∧
      ¬ ∃ i, i < 26 ∧ st'.data (100 + i) = 0 := by
  obtain ⟨st', he, _, hdata⟩ := asctime_s_nospc_point
  exact ⟨timeWSt_rw, timeWSt_text, st', he, by rw [hdata]; exact timeWSt_no_nul⟩

/- FULL C03 statement for ctime_s: FALSE of the model in the same way (`ctime_s_C03_witness`). -/
/-- ctime_s, every exit on a usable dest (`timer` null or a readable cell of ANY value: negative, the year 10000 and later, in
range; libc gave up (`text = 0` or `lf`, with the 25 characters it had formatted left at `text`) or produced a readable
string of `n < dmax` characters away from dest; `dmax < 26` included): the call returns and a NUL exists in dest[0..dmax). -/
theorem ctime_s_C03_partial (cfg : Cfg) (dest dmax timer : Nat) (db : Bos) (text n : Nat) (lf : Bool) (st : St)
    (hd : dest ≠ 0) (hpos : 0 < dmax) (hb : ∀ b, db = some b → dmax ≤ b) (hnone : db = none → dmax ≤ RSIZE_MAX_STR)
    (hrw : RW st dest dmax) (htm : timer ≠ 0 → st.mapped timer = true ∧ st.rd timer = true)
    (htext : TextOk st dest dmax text n) (hfit : text ≠ 0 → lf = false → n < dmax) :
    ∃ r st', exec (ctime_s cfg dest dmax timer db text lf) st = .ok (r, st') ∧ ∃ i, i < dmax ∧ st'.data (dest + i) = 0 := by
  obtain ⟨r, st', he, hp⟩ := ctime_s_runs cfg dest dmax timer db text n lf st hd hpos hb hnone hrw htm htext
  exact ⟨r, st', he, nul_of_TimePost hpos hfit hp⟩

theorem ctime_s_C03_witness :
    RW timeWSt 100 26 ∧ TextOk timeWSt 100 26 200 26 ∧
    ∃ st', exec (ctime_s {} 100 26 400 none 200) timeWSt = .ok (ESNOSPC, st') ∧
      ¬ ∃ i, i < 26 ∧ st'.data (100 + i) = 0 := by
  obtain ⟨st', he, _, hdata⟩ := ctime_s_nospc_point
  exact ⟨timeWSt_rw, timeWSt_text, st', he, by rw [hdata]; exact timeWSt_no_nul⟩

/-- asctime_s / ctime_s, the successful exit: whenever EOK is returned with libc's text a readable string of `n` characters
away from dest, nothing was reported, `n < dmax`, dest holds the text and its terminator; behind the terminator: with
`dmax < 120` (copy out of the C's `tmp[120]` through strcpy_s) zeros up to `dmax` under null-slack, with `dmax ≥ 120` (libc
wrote into dest itself — `copyText` — and the closing `strcpy_s(dest, dmax, dest)` is the same-pointer shortcut) the PRIOR
content of dest, untouched. -/
theorem asctime_s_C03_success (cfg : Cfg) (dest dmax tm : Nat) (db : Bos) (text n : Nat) (st : St)
    (hd : dest ≠ 0) (hpos : 0 < dmax) (hb : ∀ b, db = some b → dmax ≤ b) (hnone : db = none → dmax ≤ RSIZE_MAX_STR)
    (hrw : RW st dest dmax) (htm : tm ≠ 0 → ∀ i, i < 12 → st.mapped (tm + i) = true ∧ st.rd (tm + i) = true)
    (htext : TextOk st dest dmax text n) :
    ∃ r st', exec (asctime_s cfg dest dmax tm db text) st = .ok (r, st') ∧
      (r = EOK → n < dmax ∧ st'.events = st.events ∧
        (∀ i, i < n → st'.data (dest+i) = st.data (text+i)) ∧ st'.data (dest+n) = 0 ∧
        (dmax < 120 → cfg.slack = true → ∀ i, n ≤ i → i < dmax → st'.data (dest+i) = 0) ∧
        (120 ≤ dmax → ∀ i, n < i → i < dmax → st'.data (dest+i) = st.data (dest+i))) := by
  obtain ⟨r, st', he, hp⟩ := asctime_s_runs cfg dest dmax tm db text n st hd hpos hb hnone hrw htm htext
  refine ⟨r, st', he, fun hr => ?_⟩
  subst hr
  rcases hp.2 with ⟨hc, _⟩ | ⟨_, hc, _⟩ | ⟨_, _, h⟩ | ⟨_, _, _, hc, _⟩
  · rcases hc with h | h | h <;> exact absurd h (by decide)
  · exact absurd hc (by decide)
  · exact ⟨h.1, h.2.2⟩
  · exact absurd hc (by decide)

theorem ctime_s_C03_success (cfg : Cfg) (dest dmax timer : Nat) (db : Bos) (text n : Nat) (lf : Bool) (st : St)
    (hd : dest ≠ 0) (hpos : 0 < dmax) (hb : ∀ b, db = some b → dmax ≤ b) (hnone : db = none → dmax ≤ RSIZE_MAX_STR)
    (hrw : RW st dest dmax) (htm : timer ≠ 0 → st.mapped timer = true ∧ st.rd timer = true)
    (htext : TextOk st dest dmax text n) :
    ∃ r st', exec (ctime_s cfg dest dmax timer db text lf) st = .ok (r, st') ∧
      (r = EOK → n < dmax ∧ st'.events = st.events ∧
        (∀ i, i < n → st'.data (dest+i) = st.data (text+i)) ∧ st'.data (dest+n) = 0 ∧
        (dmax < 120 → cfg.slack = true → ∀ i, n ≤ i → i < dmax → st'.data (dest+i) = 0) ∧
        (120 ≤ dmax → ∀ i, n < i → i < dmax → st'.data (dest+i) = st.data (dest+i))) := by
  obtain ⟨r, st', he, hp⟩ := ctime_s_runs cfg dest dmax timer db text n lf st hd hpos hb hnone hrw htm htext
  refine ⟨r, st', he, fun hr => ?_⟩
  subst hr
  rcases hp.2 with ⟨hc, _⟩ | ⟨_, hc, _⟩ | ⟨_, _, h⟩ | ⟨_, _, _, hc, _⟩
  · rcases hc with h | h | h <;> exact absurd h (by decide)
  · exact absurd hc (by decide)
  · exact ⟨h.1, h.2.2⟩
  · exact absurd hc (by decide)

/-- non-vacuity: dest = 100 (26 cells holding 7), text "AAA" at 200, a `struct tm` at 300, `*timer` at 400 -/
example : (100 : Nat) ≠ 0 ∧ 0 < 26 ∧ 26 ≤ RSIZE_MAX_STR ∧ RW osTimeExSt 100 26 ∧
    (∀ i, i < 12 → osTimeExSt.mapped (300 + i) = true ∧ osTimeExSt.rd (300 + i) = true) ∧
    (osTimeExSt.mapped 400 = true ∧ osTimeExSt.rd 400 = true) ∧ TextOk osTimeExSt 100 26 200 3 ∧ 3 < 26 :=
  ⟨by decide, by decide, by decide, osTimeExSt_rw, osTimeExSt_tm, osTimeExSt_timer, osTimeExSt_text, by decide⟩

end SafeC.Props.C03Os

import SafeC.Proofs.ExtInplace
import SafeC.Props.C01
/-!
# C03 — string-producing calls never leave dest unterminated: the in-place producers of `src/extstr`

`strnterminate_s`, `strzero_s`, `strljustify_s`, `strremovews_s` (models in `Models/Inplace.lean`).

Setting as in `Props/C03.lean`: every cell mapped and readable with ARBITRARY contents (no hypothesis
on what dest holds unless stated), `dest[0..dmax)` writable, `dest ≠ 0`, `0 < dmax ≤ RSIZE_MAX_STR`,
the object size unknown or known and not below `dmax`.  Conclusion: the call returns and a NUL exists in
`dest[0..dmax)` afterwards — whatever the exit (EOK, ESUNTERM), both `SAFECLIB_STR_NULL_SLACK` settings.

* `strnterminate_s`, `strzero_s`: FULL.
* `strljustify_s`, `strremovews_s`: the FULL statement

      ∃ r st', exec (strljustify_s cfg dest dmax destbos) st = .ok (r, st') ∧
        ∃ i, i < dmax ∧ st'.data (dest + i) = 0          -- no hypothesis on the contents of dest

  is FALSE of the code: the termination scan reads `dest[dmax]` before it looks at its counter and
  accepts a NUL found AT `dest[dmax]` (`justify-accepts-nul-at-dmax` in known_findings.jsonl), the
  call then returns EOK with `dest[0..dmax)` unterminated.  Proved instead under the hypothesis that
  excludes exactly that class — dest holds a NUL within `dmax`, or `dest[dmax]` is not NUL — and the
  `_witness` theorems exhibit the excluded point.
-/
namespace SafeC.Props.C03Ext
open SafeC Gen

/-- strnterminate_s, FULL: for every prior content of dest (terminated or not), usable dest
(`dest ≠ 0`, `0 < dmax ≤ RSIZE_MAX_STR`, `dmax` within a known object size), the call returns and a
NUL exists in `dest[0..dmax)` afterwards: the scan stops after at most `dmax-1` cells and `*dest = 0`
lands at index ≤ `dmax-1`. -/
theorem strnterminate_s_C03 (cfg : Cfg) (dest dmax : Nat) (destbos : Bos) (st : St)
    (hall : ∀ a, st.mapped a = true ∧ st.rd a = true) (hrw : RW st dest dmax)
    (hd : dest ≠ 0) (hpos : 0 < dmax) (hle : dmax ≤ RSIZE_MAX_STR)
    (hb : ∀ b, destbos = some b → dmax ≤ b) :
    ∃ r st', exec (strnterminate_s cfg dest dmax destbos) st = .ok (r, st') ∧
      ∃ i, i < dmax ∧ st'.data (dest + i) = 0 := by
  obtain ⟨n, he, hn, _, _⟩ := strnterminate_s_ok cfg dest dmax destbos st hall hrw hd hpos hle hb
  exact ⟨n, _, he, n, hn, St.upd_data_same _ _ _⟩

/-- strnterminate_s, exact outcome in the same setting: the returned count `n` is below `dmax`,
`dest[n]` is NUL afterwards, the `n` cells before it are unchanged and non-NUL (`n` is the length of
the resulting string), no other cell changed, `dest[n]` was already NUL unless `n = dmax-1` (truncation),
permissions, events (no handler call) and stray list are as before. -/
theorem strnterminate_s_C03_exact (cfg : Cfg) (dest dmax : Nat) (destbos : Bos) (st : St)
    (hall : ∀ a, st.mapped a = true ∧ st.rd a = true) (hrw : RW st dest dmax)
    (hd : dest ≠ 0) (hpos : 0 < dmax) (hle : dmax ≤ RSIZE_MAX_STR)
    (hb : ∀ b, destbos = some b → dmax ≤ b) :
    ∃ n st', exec (strnterminate_s cfg dest dmax destbos) st = .ok (n, st') ∧
      n < dmax ∧ st'.data (dest + n) = 0 ∧
      (∀ j, j < n → st'.data (dest + j) = st.data (dest + j) ∧ st.data (dest + j) ≠ 0) ∧
      (∀ a, a ≠ dest + n → st'.data a = st.data a) ∧
      (n + 1 < dmax → st.data (dest + n) = 0) ∧
      SameMeta st' st := by
  obtain ⟨n, he, hn, hnz, hz⟩ := strnterminate_s_ok cfg dest dmax destbos st hall hrw hd hpos hle hb
  refine ⟨n, _, he, hn, St.upd_data_same _ _ _, fun j hj => ⟨?_, hnz j hj⟩, fun a ha => ?_, hz,
    SameMeta.upd _ _ _⟩
  · exact St.upd_data_ne _ _ _ _ (by omega)
  · exact St.upd_data_ne _ _ _ _ ha

/-- strzero_s, FULL: for every prior content of dest (terminated or not), usable dest, both slack
settings, the call returns EOK and `dest[0]` is NUL afterwards (the loop stores 0 there unless it
already is), so a NUL exists in `dest[0..dmax)`. -/
theorem strzero_s_C03 (cfg : Cfg) (dest dmax : Nat) (destbos : Bos) (st : St)
    (hall : ∀ a, st.mapped a = true ∧ st.rd a = true) (hrw : RW st dest dmax)
    (hd : dest ≠ 0) (hpos : 0 < dmax) (hle : dmax ≤ RSIZE_MAX_STR)
    (hb : ∀ b, destbos = some b → dmax ≤ b) :
    ∃ r st', exec (strzero_s cfg dest dmax destbos) st = .ok (r, st') ∧
      ∃ i, i < dmax ∧ st'.data (dest + i) = 0 := by
  obtain ⟨st', he, h0, _⟩ := strzero_s_ok cfg dest dmax destbos st hall hrw hd hpos hle hb
  exact ⟨EOK, st', he, 0, hpos, by simpa using h0⟩

/-- strzero_s, more of the outcome in the same setting: EOK, `dest[0] = 0`, with null-slack every one
of the `dmax` cells is zero (also when dest held no NUL at all), no cell outside `dest[0..dmax)`
changed, permissions/events/strays as before (the read of `dest[dmax]` by the slack block is harmless). -/
theorem strzero_s_C03_exact (cfg : Cfg) (dest dmax : Nat) (destbos : Bos) (st : St)
    (hall : ∀ a, st.mapped a = true ∧ st.rd a = true) (hrw : RW st dest dmax)
    (hd : dest ≠ 0) (hpos : 0 < dmax) (hle : dmax ≤ RSIZE_MAX_STR)
    (hb : ∀ b, destbos = some b → dmax ≤ b) :
    ∃ st', exec (strzero_s cfg dest dmax destbos) st = .ok (EOK, st') ∧ st'.data dest = 0 ∧
      (cfg.slack = true → ∀ i, i < dmax → st'.data (dest + i) = 0) ∧
      (∀ a, ¬ (dest ≤ a ∧ a < dest + dmax) → st'.data a = st.data a) ∧ SameMeta st' st :=
  strzero_s_ok cfg dest dmax destbos st hall hrw hd hpos hle hb

/-- strljustify_s, PARTIAL (the full statement is false, see the witness): usable dest that holds a
NUL within `dmax` or whose cell `dest[dmax]` is not NUL, otherwise arbitrary contents.  The call returns
(EOK or ESUNTERM) and a NUL exists in `dest[0..dmax)` afterwards: the shift loop writes below the NUL
only, the ESUNTERM exit clears all of dest.  Holds wherever the stores land (`_hrw` is not needed). -/
theorem strljustify_s_C03_partial (cfg : Cfg) (dest dmax : Nat) (destbos : Bos) (st : St)
    (hall : ∀ a, st.mapped a = true ∧ st.rd a = true) (_hrw : RW st dest dmax)
    (hd : dest ≠ 0) (hpos : 0 < dmax) (hle : dmax ≤ RSIZE_MAX_STR)
    (hb : ∀ b, destbos = some b → dmax ≤ b)
    (hterm : (∃ i, i < dmax ∧ st.data (dest + i) = 0) ∨ st.data (dest + dmax) ≠ 0) :
    ∃ r st', exec (strljustify_s cfg dest dmax destbos) st = .ok (r, st') ∧
      ∃ i, i < dmax ∧ st'.data (dest + i) = 0 := by
  obtain ⟨r, st', he, _, _, _, h⟩ := strljustify_s_nul cfg dest dmax destbos st hall hd hpos hle hb hterm
  exact ⟨r, st', he, h⟩

/-- strremovews_s, PARTIAL (the full statement is false, see the witness): same hypothesis as for
strljustify_s — a NUL within `dmax`, or `dest[dmax]` not NUL.  The call returns (EOK or ESUNTERM) and
a NUL exists in `dest[0..dmax)` afterwards: the shift writes below the NUL only, the downward
trailing-whitespace strip (no lower bound) stores zeros only, the ESUNTERM exit clears all of dest. -/
theorem strremovews_s_C03_partial (cfg : Cfg) (dest dmax : Nat) (destbos : Bos) (st : St)
    (hall : ∀ a, st.mapped a = true ∧ st.rd a = true) (_hrw : RW st dest dmax)
    (hd : dest ≠ 0) (hpos : 0 < dmax) (hle : dmax ≤ RSIZE_MAX_STR)
    (hb : ∀ b, destbos = some b → dmax ≤ b)
    (hterm : (∃ i, i < dmax ∧ st.data (dest + i) = 0) ∨ st.data (dest + dmax) ≠ 0) :
    ∃ r st', exec (strremovews_s cfg dest dmax destbos) st = .ok (r, st') ∧
      ∃ i, i < dmax ∧ st'.data (dest + i) = 0 := by
  obtain ⟨r, st', he, _, _, _, h⟩ := strremovews_s_nul cfg dest dmax destbos st hall hd hpos hle hb hterm
  exact ⟨r, st', he, h⟩

/-- strljustify_s / strremovews_s, the exits in the same setting and under the same hypothesis: the
return value is EOK or ESUNTERM, and after ESUNTERM every one of the `dmax` cells of dest is zero (the
hand-written clearing loop of the ESUNTERM exit, both slack settings). -/
theorem justify_removews_C03_exits (cfg : Cfg) (dest dmax : Nat) (destbos : Bos) (st : St)
    (hall : ∀ a, st.mapped a = true ∧ st.rd a = true)
    (hd : dest ≠ 0) (hpos : 0 < dmax) (hle : dmax ≤ RSIZE_MAX_STR)
    (hb : ∀ b, destbos = some b → dmax ≤ b)
    (hterm : (∃ i, i < dmax ∧ st.data (dest + i) = 0) ∨ st.data (dest + dmax) ≠ 0) :
    (∃ r st', exec (strljustify_s cfg dest dmax destbos) st = .ok (r, st') ∧ (r = EOK ∨ r = ESUNTERM) ∧
      (r = ESUNTERM → ∀ i, i < dmax → st'.data (dest + i) = 0)) ∧
    (∃ r st', exec (strremovews_s cfg dest dmax destbos) st = .ok (r, st') ∧ (r = EOK ∨ r = ESUNTERM) ∧
      (r = ESUNTERM → ∀ i, i < dmax → st'.data (dest + i) = 0)) := by
  obtain ⟨r, st', he, h1, h2, _⟩ := strljustify_s_nul cfg dest dmax destbos st hall hd hpos hle hb hterm
  obtain ⟨r2, st2, he2, h3, h4, _⟩ := strremovews_s_nul cfg dest dmax destbos st hall hd hpos hle hb hterm
  exact ⟨⟨r, st', he, h1, h2⟩, ⟨r2, st2, he2, h3, h4⟩⟩

/-- the excluded point: `dest = 100`, `dmax = 2`, the two cells hold "ab" and the cell behind them,
`dest[2]`, holds 0 -/
def wJust : St :=
  { data := fun a => if a = 100 then 97 else if a = 101 then 98 else 0
    mapped := fun _ => true, rd := fun _ => true
    wr := fun a => decide (100 ≤ a ∧ a < 102) }

/-- witness that the full C03 statement is false of strljustify_s: on `wJust` (dest = "ab" in 2 cells,
`dest[2] = 0`) `strljustify_s(dest, 2)` returns EOK, the state is untouched and `dest[0..2)` holds no NUL.
All hypotheses of the partial statement but `hterm` hold of `wJust`. -/
theorem strljustify_s_C03_witness :
    ((∀ a, wJust.mapped a = true ∧ wJust.rd a = true) ∧ RW wJust 100 2 ∧ (2 : Nat) ≤ RSIZE_MAX_STR) ∧
    ∃ st', exec (strljustify_s {} 100 2 (some 2)) wJust = .ok (EOK, st') ∧
      ¬ ∃ i, i < 2 ∧ st'.data (100 + i) = 0 := by
  refine ⟨⟨fun _ => ⟨rfl, rfl⟩, fun i hi => ⟨rfl, ?_, rfl⟩, by decide⟩, wJust, ?_, ?_⟩
  · simp [wJust]; omega
  · simp [strljustify_s, chkDmax, termScan, skipWs, exec_bind, exec_load_ok, wJust, EOK]
  · intro ⟨i, hi, h⟩
    have : i = 0 ∨ i = 1 := by omega
    rcases this with rfl | rfl <;> simp [wJust] at h

/-- witness that the full C03 statement is false of strremovews_s: on `wJust` (dest = "ab" in 2 cells,
`dest[2] = 0`) `strremovews_s(dest, 2)` returns EOK, the state is untouched and `dest[0..2)` holds no NUL.
All hypotheses of the partial statement but `hterm` hold of `wJust`. -/
theorem strremovews_s_C03_witness :
    ((∀ a, wJust.mapped a = true ∧ wJust.rd a = true) ∧ RW wJust 100 2 ∧ (2 : Nat) ≤ RSIZE_MAX_STR) ∧
    ∃ st', exec (strremovews_s {} 100 2 (some 2)) wJust = .ok (EOK, st') ∧
      ¬ ∃ i, i < 2 ∧ st'.data (100 + i) = 0 := by
  refine ⟨⟨fun _ => ⟨rfl, rfl⟩, fun i hi => ⟨rfl, ?_, rfl⟩, by decide⟩, wJust, ?_, ?_⟩
  · simp [wJust]; omega
  · have hm : ∀ a, wJust.mapped a = true := fun _ => rfl
    have hr : ∀ a, wJust.rd a = true := fun _ => rfl
    have d0 : wJust.data 100 = 97 := rfl
    have d1 : wJust.data 101 = 98 := rfl
    have d2 : wJust.data 102 = 0 := rfl
    have hst : exec (stripTrailing 102 101) wJust = .ok ((), wJust) :=
      stripTrailing_stop 101 101 wJust (fun _ => ⟨rfl, rfl⟩) (by rw [d1]; decide) (by rw [d1]; decide)
    simp [strremovews_s, chkDmax, termScan, skipWs, exec_bind, exec_load_ok, hm, hr, d0, d1, d2, hst, EOK]
  · intro ⟨i, hi, h⟩
    have : i = 0 ∨ i = 1 := by omega
    rcases this with rfl | rfl <;> simp [wJust] at h

/-- the whole excluded class, strljustify_s: whenever `dest[0..dmax)` (`dmax ≥ 2`) holds no NUL, the
cell behind it `dest[dmax]` is NUL and `dest[0]` is neither blank nor tab, the call returns EOK, leaves
the state untouched and dest has no NUL within `dmax` — the hypothesis of the partial statement cannot
be weakened on this class (generalises the witness). -/
theorem strljustify_s_C03_excluded (cfg : Cfg) (dest dmax : Nat) (destbos : Bos) (st : St)
    (hall : ∀ a, st.mapped a = true ∧ st.rd a = true)
    (hd : dest ≠ 0) (h2 : 2 ≤ dmax) (hle : dmax ≤ RSIZE_MAX_STR)
    (hb : ∀ b, destbos = some b → dmax ≤ b)
    (hnz : ∀ j, j < dmax → st.data (dest + j) ≠ 0) (hz : st.data (dest + dmax) = 0)
    (hfirst : st.data dest ≠ 0x20 ∧ st.data dest ≠ 0x09) :
    exec (strljustify_s cfg dest dmax destbos) st = .ok (EOK, st) ∧
      ¬ ∃ i, i < dmax ∧ st.data (dest + i) = 0 :=
  ⟨strljustify_s_unterminated cfg dest dmax destbos st hall hd h2 hle hb hnz hz hfirst,
   fun ⟨i, hi, h⟩ => hnz i hi h⟩

/-- the whole excluded class, strremovews_s: whenever `dest[0..dmax)` (`dmax ≥ 2`) holds no NUL, the
cell behind it `dest[dmax]` is NUL and neither `dest[0]` nor `dest[dmax-1]` is blank or tab, the call
returns EOK, leaves the state untouched and dest has no NUL within `dmax` (generalises the witness). -/
theorem strremovews_s_C03_excluded (cfg : Cfg) (dest dmax : Nat) (destbos : Bos) (st : St)
    (hall : ∀ a, st.mapped a = true ∧ st.rd a = true)
    (hd : dest ≠ 0) (h2 : 2 ≤ dmax) (hle : dmax ≤ RSIZE_MAX_STR)
    (hb : ∀ b, destbos = some b → dmax ≤ b)
    (hnz : ∀ j, j < dmax → st.data (dest + j) ≠ 0) (hz : st.data (dest + dmax) = 0)
    (hfirst : st.data dest ≠ 0x20 ∧ st.data dest ≠ 0x09)
    (hlast : st.data (dest + (dmax - 1)) ≠ 0x20 ∧ st.data (dest + (dmax - 1)) ≠ 0x09) :
    exec (strremovews_s cfg dest dmax destbos) st = .ok (EOK, st) ∧
      ¬ ∃ i, i < dmax ∧ st.data (dest + i) = 0 :=
  ⟨strremovews_s_unterminated cfg dest dmax destbos st hall hd h2 hle hb hnz hz hfirst hlast,
   fun ⟨i, hi, h⟩ => hnz i hi h⟩

/-- a second point of the excluded class, with a leading blank: `dest = 100`, `dmax = 2`, the two cells
hold " a" and `dest[2]` holds 0 -/
def wJust2 : St :=
  { data := fun a => if a = 100 then 32 else if a = 101 then 97 else 0
    mapped := fun _ => true, rd := fun _ => true
    wr := fun a => decide (100 ≤ a ∧ a < 102) }

/-- what `strremovews_s(dest, 2)` does on `wJust2`: return value, recorded strays, `dest[0..2]` afterwards -/
def wJustOutcome2 : Option (Nat × List Access × Nat × Nat × Nat) :=
  match exec (strremovews_s {} 100 2 (some 2)) wJust2 with
  | .ok (r, st') => some (r, st'.strays, st'.data 100, st'.data 101, st'.data 102)
  | .error _ => none

/-- side observation (C01 flavour, same root cause as `justify-accepts-nul-at-dmax`): with a leading
blank and the NUL accepted AT `dest[dmax]`, strremovews_s shifts the text and then executes `*dest = 0`
on the cell `dest[dmax]`, one past the `dmax` cells: on `wJust2` it returns EOK, dest becomes "a" NUL and
the only stray access recorded is the WRITE to cell 102 = dest + dmax (it stores 0 over a 0). -/
theorem strremovews_s_write_at_dmax_witness :
    ∃ st', exec (strremovews_s {} 100 2 (some 2)) wJust2 = .ok (EOK, st') ∧
      st'.strays = [Access.wr (100 + 2)] ∧ st'.data 100 = 97 ∧ st'.data 101 = 0 := by
  have h : wJustOutcome2 = some (0, [Access.wr 102], 97, 0, 0) := by decide
  unfold wJustOutcome2 at h
  split at h
  · rename_i r st' heq
    simp only [Option.some.injEq, Prod.mk.injEq] at h
    obtain ⟨rfl, hs, h0, h1, _⟩ := h
    exact ⟨st', heq, hs, h0, h1⟩
  · cases h

/-- non-vacuity: dest = 100, dmax = 5 holding "  ab" and its NUL, object size 5 -/
def exJust : St :=
  { data := fun a => if a = 100 then 32 else if a = 101 then 32 else if a = 102 then 97
      else if a = 103 then 98 else 0
    mapped := fun _ => true, rd := fun _ => true
    wr := fun a => decide (100 ≤ a ∧ a < 105) }

example : (∀ a, exJust.mapped a = true ∧ exJust.rd a = true) ∧ RW exJust 100 5 ∧ (100 : Nat) ≠ 0 ∧ 0 < 5 ∧
    5 ≤ RSIZE_MAX_STR ∧ (∀ b, (some 5 : Bos) = some b → 5 ≤ b) ∧
    ((∃ i, i < 5 ∧ exJust.data (100 + i) = 0) ∨ exJust.data (100 + 5) ≠ 0) := by
  refine ⟨fun _ => ⟨rfl, rfl⟩, fun i hi => ⟨rfl, ?_, rfl⟩, by decide, by decide, by decide, ?_, Or.inl ⟨4, by decide, rfl⟩⟩
  · simp [exJust]; omega
  · intro b h; cases h; exact Nat.le_refl _

/-- non-vacuity of the other disjunct (the ESUNTERM exit): no NUL anywhere -/
example : (∀ a, ({ exJust with data := fun _ => 120 } : St).mapped a = true ∧
      ({ exJust with data := fun _ => 120 } : St).rd a = true) ∧
    RW { exJust with data := fun _ => 120 } 100 5 ∧
    ((∃ i, i < 5 ∧ ({ exJust with data := fun _ => 120 } : St).data (100 + i) = 0) ∨
      ({ exJust with data := fun _ => 120 } : St).data (100 + 5) ≠ 0) := by
  refine ⟨fun _ => ⟨rfl, rfl⟩, fun i hi => ⟨rfl, ?_, rfl⟩, Or.inr (by decide)⟩
  simp [exJust]; omega

end SafeC.Props.C03Ext

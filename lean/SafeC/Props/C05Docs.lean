import SafeC.Proofs.EM
import SafeC.Props.C05Fld
import SafeC.Gen.Docs
/-!
# C05, "returns the documented failure indication": the codes a function can return ⊆ the `@retval` list of its doc comment

`Gen/Docs.lean` is regenerated from the doc comments of `/repo/src` on every run.  For every function below, for ALL arguments and
memory contents, the code a returning call hands back is one of the codes its CURRENT doc comment lists.  Proof per function:
`EV` (silent with a result code of `bn`, or one report carrying the returned code) + `EM` (every reported code is in `S`) gives
"returned code ∈ bn ++ S"; `bn ++ S ⊆ docCodes fn` is decided by the kernel against the regenerated list.  Editing a doc comment
or a model so that a returned code is no longer documented breaks the corresponding theorem by name.

Where the code returns something its doc comment does not list, the theorem is stated with the extra codes spelled out
(`…_documented_partial (extra := [...])`) — each is a documentation finding, listed in `known_findings.jsonl` under C05.
-/
namespace SafeC.Props.C05Docs
open SafeC Gen SafeC.Props.C05Ev SafeC.Props.C05Mem SafeC.Props.C05Query

def codeOfName : String → Option Nat
  | "EOK" => some EOK | "ESNULLP" => some ESNULLP | "ESZEROL" => some ESZEROL | "ESLEMIN" => some ESLEMIN
  | "ESLEMAX" => some ESLEMAX | "ESOVRLP" => some ESOVRLP | "ESEMPTY" => some ESEMPTY | "ESNOSPC" => some ESNOSPC
  | "ESUNTERM" => some ESUNTERM | "ESNODIFF" => some ESNODIFF | "ESNOTFND" => some ESNOTFND | "ESLEWRNG" => some ESLEWRNG
  | "EOVERFLOW" => some EOVERFLOW | "EINVAL" => some EINVAL | "EILSEQ" => some EILSEQ | "0" => some 0
  | _ => none

/-- the codes the CURRENT doc comment of `fn` lists (`@retval` lines, regenerated from /repo/src on every run) -/
def docCodes (fn : String) : List Nat := ((retvalDocs.lookup fn).getD []).filterMap codeOfName

/-- every returning run of `p` hands back a code that `fn`'s doc comment lists, or one of `extra` -/
def ReturnsDocumented {α} (fn : String) (extra : List Nat) (p : Prog α) (code : α → Nat) : Prop :=
  ∀ (st : St) (r : α) (st' : St), exec p st = .ok (r, st') → code r ∈ docCodes fn ++ extra

theorem of_Once {fn : String} {extra S : List Nat} {k : Kind} {p : Prog Nat} (hev : EV p (Once k)) (hem : EM S p)
    (hsub : ∀ c ∈ EOK :: S, c ∈ docCodes fn ++ extra) : ReturnsDocumented fn extra p id := by
  intro st r st' he
  obtain ⟨es, h1, h2⟩ := hev.sound st he
  obtain ⟨es', h1', h2'⟩ := hem.sound st he
  have : es = es' := List.append_cancel_left (h1.symm.trans h1')
  subst this
  rcases h2 with ⟨hr, _⟩ | ⟨_, hes⟩
  · exact hsub _ (by simp [hr])
  · exact hsub _ (List.mem_cons_of_mem _ (h2' k r (by simp [hes])))

theorem of_QPost {α} {fn : String} {extra bn S : List Nat} {k : Kind} {code : α → Nat} {p : Prog α}
    (hev : EV p (QPost bn k code)) (hem : EM S p)
    (hsub : ∀ c ∈ bn ++ S, c ∈ docCodes fn ++ extra) : ReturnsDocumented fn extra p code := by
  intro st r st' he
  obtain ⟨es, h1, h2⟩ := hev.sound st he
  obtain ⟨es', h1', h2'⟩ := hem.sound st he
  have : es = es' := List.append_cancel_left (h1.symm.trans h1')
  subst this
  rcases h2 with ⟨_, hb⟩ | ⟨_, hes⟩
  · exact hsub _ (List.mem_append_left _ hb)
  · exact hsub _ (List.mem_append_right _ (h2' k (code r) (by simp [hes])))

theorem of_QPostAny {α} {fn : String} {extra bn S : List Nat} {code : α → Nat} {p : Prog α}
    (hev : EV p (QPostAny bn code)) (hem : EM S p)
    (hsub : ∀ c ∈ bn ++ S, c ∈ docCodes fn ++ extra) : ReturnsDocumented fn extra p code := by
  intro st r st' he
  obtain ⟨es, h1, h2⟩ := hev.sound st he
  obtain ⟨es', h1', h2'⟩ := hem.sound st he
  have : es = es' := List.append_cancel_left (h1.symm.trans h1')
  subst this
  rcases h2 with ⟨_, hb⟩ | ⟨_, k, hes⟩
  · exact hsub _ (List.mem_append_left _ hb)
  · exact hsub _ (List.mem_append_right _ (h2' k (code r) (by simp [hes])))

/-! ## the in-place family -/

theorem em_chkDmax {S : List Nat} (dmax : Nat) (db : Bos) (max : Nat) {k : Prog Nat} (h1 : ESLEMAX ∈ S) (h2 : EOVERFLOW ∈ S)
    (hk : EM S k) : EM S (chkDmax dmax db max k) := by
  unfold chkDmax
  split
  · split
    · exact EM.failS _ h1
    · exact hk
  · split
    · split
      · exact EM.failS _ h1
      · exact EM.failS _ h2
    · exact hk

abbrev S4 : List Nat := [ESNULLP, ESZEROL, ESLEMAX, EOVERFLOW]

theorem strset_s_em (cfg : Cfg) (dest dmax value : Nat) (db : Bos) : EM S4 (strset_s cfg dest dmax value db) := by
  unfold strset_s
  split
  · em_walk
  split
  · em_walk
  refine em_chkDmax _ _ _ (by decide) (by decide) ?_
  em_walk using EM.of_quiet (setLoop_silent _ _ _), EM.of_quiet (slackTail_silent _ _ _)

/-- strset_s: every returned code is documented -/
theorem strset_s_documented (cfg : Cfg) (dest dmax value : Nat) (db : Bos) :
    ReturnsDocumented "strset_s" [] (strset_s cfg dest dmax value db) id :=
  of_Once (strset_s_ev ..) (strset_s_em ..) (by decide)

theorem strnset_s_em (cfg : Cfg) (dest dmax value n : Nat) (db : Bos) : EM [ESNULLP, ESZEROL, ESLEMAX, EOVERFLOW, ESNOSPC] (strnset_s cfg dest dmax value n db) := by
  unfold strnset_s
  split
  · em_walk
  split
  · em_walk
  refine em_chkDmax _ _ _ (by decide) (by decide) ?_
  em_walk using EM.of_quiet (setLoop_silent _ _ _), EM.of_quiet (slackTail_silent _ _ _)
theorem strzero_s_em (cfg : Cfg) (dest dmax : Nat) (db : Bos) : EM S4 (strzero_s cfg dest dmax db) := by
  unfold strzero_s
  split
  · em_walk
  split
  · em_walk
  refine em_chkDmax _ _ _ (by decide) (by decide) ?_
  em_walk using EM.of_quiet (setLoop_silent _ _ _), EM.of_quiet (slackTail_silent _ _ _)
theorem strtolowercase_s_em (cfg : Cfg) (dest dmax : Nat) (db : Bos) : EM S4 (strtolowercase_s cfg dest dmax db) := by
  unfold strtolowercase_s
  split
  · em_walk
  split
  · em_walk
  refine em_chkDmax _ _ _ (by decide) (by decide) ?_
  em_walk using EM.of_quiet (caseLoop_silent _ _ _ _ _)
theorem strtouppercase_s_em (cfg : Cfg) (dest dmax : Nat) (db : Bos) : EM S4 (strtouppercase_s cfg dest dmax db) := by
  unfold strtouppercase_s
  split
  · em_walk
  split
  · em_walk
  refine em_chkDmax _ _ _ (by decide) (by decide) ?_
  em_walk using EM.of_quiet (caseLoop_silent _ _ _ _ _)
theorem termScan_em {S : List Nat} (h : ESUNTERM ∈ S) (od om n d : Nat) : EM S (termScan od om n d) := by
  induction n generalizing d with
  | zero => unfold termScan; em_walk using EM.of_quiet (Quiet.zeroLoop _ _), EM.handlerS _ h
  | succ n ih => unfold termScan; em_walk using ih _
abbrev S5u : List Nat := [ESNULLP, ESZEROL, ESLEMAX, EOVERFLOW, ESUNTERM]
theorem strljustify_s_em (cfg : Cfg) (dest dmax : Nat) (db : Bos) : EM S5u (strljustify_s cfg dest dmax db) := by
  unfold strljustify_s
  split
  · em_walk
  split
  · em_walk
  refine em_chkDmax _ _ _ (by decide) (by decide) ?_
  em_walk using termScan_em (by decide) _ _ _ _, EM.of_quiet (skipWs_silent _ _), EM.of_quiet (shiftLoop_silent _ _ _)
theorem strremovews_s_em (cfg : Cfg) (dest dmax : Nat) (db : Bos) : EM S5u (strremovews_s cfg dest dmax db) := by
  unfold strremovews_s
  split
  · em_walk
  split
  · em_walk
  refine em_chkDmax _ _ _ (by decide) (by decide) ?_
  em_walk using termScan_em (by decide) _ _ _ _, EM.of_quiet (skipWs_silent _ _), EM.of_quiet (shiftLoop_silent _ _ _), EM.of_quiet (stripTrailing_silent _ _)

/-- strnset_s: every returned code is documented -/
theorem strnset_s_documented (cfg : Cfg) (dest dmax value n : Nat) (db : Bos) :
    ReturnsDocumented "strnset_s" [] (strnset_s cfg dest dmax value n db) id := of_Once (strnset_s_ev ..) (strnset_s_em ..) (by decide)
/-- strzero_s: every returned code is documented -/
theorem strzero_s_documented (cfg : Cfg) (dest dmax : Nat) (db : Bos) :
    ReturnsDocumented "strzero_s" [] (strzero_s cfg dest dmax db) id := of_Once (strzero_s_ev ..) (strzero_s_em ..) (by decide)
/-- strtolowercase_s: every returned code is documented -/
theorem strtolowercase_s_documented (cfg : Cfg) (dest dmax : Nat) (db : Bos) :
    ReturnsDocumented "strtolowercase_s" [] (strtolowercase_s cfg dest dmax db) id := of_Once (strtolowercase_s_ev ..) (strtolowercase_s_em ..) (by decide)
/-- strtouppercase_s: every returned code is documented -/
theorem strtouppercase_s_documented (cfg : Cfg) (dest dmax : Nat) (db : Bos) :
    ReturnsDocumented "strtouppercase_s" [] (strtouppercase_s cfg dest dmax db) id := of_Once (strtouppercase_s_ev ..) (strtouppercase_s_em ..) (by decide)
/-- strljustify_s: every returned code is documented -/
theorem strljustify_s_documented (cfg : Cfg) (dest dmax : Nat) (db : Bos) :
    ReturnsDocumented "strljustify_s" [] (strljustify_s cfg dest dmax db) id := of_Once (strljustify_s_ev ..) (strljustify_s_em ..) (by decide)
/-- strremovews_s: every returned code is documented -/
theorem strremovews_s_documented (cfg : Cfg) (dest dmax : Nat) (db : Bos) :
    ReturnsDocumented "strremovews_s" [] (strremovews_s cfg dest dmax db) id := of_Once (strremovews_s_ev ..) (strremovews_s_em ..) (by decide)

end SafeC.Props.C05Docs

import SafeC.Proofs.EM
import SafeC.Props.C05Fld
import SafeC.Proofs.EVMem
import SafeC.Props.C05Copy
import SafeC.Gen.Docs
/-!
# C05, "returns the documented failure indication": the codes a function can return ⊆ the `@retval` list of its doc comment

`Gen/Docs.lean` is regenerated from the doc comments of `/repo/src` on every run.  For every function below, for ALL arguments and
memory contents, the code a returning call hands back is one of the codes its CURRENT doc comment lists.  Proof per function:
`EV` (silent with a result code of `bn`, or one report carrying the returned code) + `EM` (every reported code is in `S`) gives
"returned code ∈ bn ++ S"; `bn ++ S ⊆ docCodes fn` is decided by the kernel against the regenerated list.  Editing a doc comment
or a model so that a returned code is no longer documented breaks the corresponding theorem by name.

Where the code returns something its doc comment does not list, the theorem is stated with the extra codes spelled out
(`…_documented_partial (extra := [...])`) — each is a documentation finding, listed in `known_findings.jsonl` under C05.
-/
namespace SafeC.Props.C05Docs
open SafeC Gen SafeC.Props.C05Ev SafeC.Props.C05Mem SafeC.Props.C05Query

def codeOfName : String → Option Nat
  | "EOK" => some EOK | "ESNULLP" => some ESNULLP | "ESZEROL" => some ESZEROL | "ESLEMIN" => some ESLEMIN
  | "ESLEMAX" => some ESLEMAX | "ESOVRLP" => some ESOVRLP | "ESEMPTY" => some ESEMPTY | "ESNOSPC" => some ESNOSPC
  | "ESUNTERM" => some ESUNTERM | "ESNODIFF" => some ESNODIFF | "ESNOTFND" => some ESNOTFND | "ESLEWRNG" => some ESLEWRNG
  | "EOVERFLOW" => some EOVERFLOW | "EINVAL" => some EINVAL | "EILSEQ" => some EILSEQ | "0" => some 0
  | "-1" => some (2^32 - 1)     -- an `int` / `errno_t` of -1 as the models hand it back (`NEG1`)
  | _ => none

/-- the codes the CURRENT doc comment of `fn` lists (`@retval` lines, regenerated from /repo/src on every run) -/
def docCodes (fn : String) : List Nat := ((retvalDocs.lookup fn).getD []).filterMap codeOfName

/-- every returning run of `p` hands back a code that `fn`'s doc comment lists, or one of `extra` -/
def ReturnsDocumented {α} (fn : String) (extra : List Nat) (p : Prog α) (code : α → Nat) : Prop :=
  ∀ (st : St) (r : α) (st' : St), exec p st = .ok (r, st') → code r ∈ docCodes fn ++ extra

theorem of_Once {fn : String} {extra S : List Nat} {k : Kind} {p : Prog Nat} (hev : EV p (Once k)) (hem : EM S p)
    (hsub : ∀ c ∈ EOK :: S, c ∈ docCodes fn ++ extra) : ReturnsDocumented fn extra p id := by
  intro st r st' he
  obtain ⟨es, h1, h2⟩ := hev.sound st he
  obtain ⟨es', h1', h2'⟩ := hem.sound st he
  have : es = es' := List.append_cancel_left (h1.symm.trans h1')
  subst this
  rcases h2 with ⟨hr, _⟩ | ⟨_, hes⟩
  · exact hsub _ (by simp [hr])
  · exact hsub _ (List.mem_cons_of_mem _ (h2' k r (by simp [hes])))

theorem of_QPost {α} {fn : String} {extra bn S : List Nat} {k : Kind} {code : α → Nat} {p : Prog α}
    (hev : EV p (QPost bn k code)) (hem : EM S p)
    (hsub : ∀ c ∈ bn ++ S, c ∈ docCodes fn ++ extra) : ReturnsDocumented fn extra p code := by
  intro st r st' he
  obtain ⟨es, h1, h2⟩ := hev.sound st he
  obtain ⟨es', h1', h2'⟩ := hem.sound st he
  have : es = es' := List.append_cancel_left (h1.symm.trans h1')
  subst this
  rcases h2 with ⟨_, hb⟩ | ⟨_, hes⟩
  · exact hsub _ (List.mem_append_left _ hb)
  · exact hsub _ (List.mem_append_right _ (h2' k (code r) (by simp [hes])))

theorem of_QPostAny {α} {fn : String} {extra bn S : List Nat} {code : α → Nat} {p : Prog α}
    (hev : EV p (QPostAny bn code)) (hem : EM S p)
    (hsub : ∀ c ∈ bn ++ S, c ∈ docCodes fn ++ extra) : ReturnsDocumented fn extra p code := by
  intro st r st' he
  obtain ⟨es, h1, h2⟩ := hev.sound st he
  obtain ⟨es', h1', h2'⟩ := hem.sound st he
  have : es = es' := List.append_cancel_left (h1.symm.trans h1')
  subst this
  rcases h2 with ⟨_, hb⟩ | ⟨_, k, hes⟩
  · exact hsub _ (List.mem_append_left _ hb)
  · exact hsub _ (List.mem_append_right _ (h2' k (code r) (by simp [hes])))

/-! ## the in-place family -/

theorem em_chkDmax {S : List Nat} (dmax : Nat) (db : Bos) (max : Nat) {k : Prog Nat} (h1 : ESLEMAX ∈ S) (h2 : EOVERFLOW ∈ S)
    (hk : EM S k) : EM S (chkDmax dmax db max k) := by
  unfold chkDmax
  split
  · split
    · exact EM.failS _ h1
    · exact hk
  · split
    · split
      · exact EM.failS _ h1
      · exact EM.failS _ h2
    · exact hk

abbrev S4 : List Nat := [ESNULLP, ESZEROL, ESLEMAX, EOVERFLOW]

theorem strset_s_em (cfg : Cfg) (dest dmax value : Nat) (db : Bos) : EM S4 (strset_s cfg dest dmax value db) := by
  unfold strset_s
  split
  · em_walk
  split
  · em_walk
  refine em_chkDmax _ _ _ (by decide) (by decide) ?_
  em_walk using EM.of_quiet (setLoop_silent _ _ _), EM.of_quiet (slackTail_silent _ _ _)

/-- strset_s: every returned code is documented -/
theorem strset_s_documented (cfg : Cfg) (dest dmax value : Nat) (db : Bos) :
    ReturnsDocumented "strset_s" [] (strset_s cfg dest dmax value db) id :=
  of_Once (strset_s_ev ..) (strset_s_em ..) (by decide)

theorem strnset_s_em (cfg : Cfg) (dest dmax value n : Nat) (db : Bos) : EM [ESNULLP, ESZEROL, ESLEMAX, EOVERFLOW, ESNOSPC] (strnset_s cfg dest dmax value n db) := by
  unfold strnset_s
  split
  · em_walk
  split
  · em_walk
  refine em_chkDmax _ _ _ (by decide) (by decide) ?_
  em_walk using EM.of_quiet (setLoop_silent _ _ _), EM.of_quiet (slackTail_silent _ _ _)
theorem strzero_s_em (cfg : Cfg) (dest dmax : Nat) (db : Bos) : EM S4 (strzero_s cfg dest dmax db) := by
  unfold strzero_s
  split
  · em_walk
  split
  · em_walk
  refine em_chkDmax _ _ _ (by decide) (by decide) ?_
  em_walk using EM.of_quiet (setLoop_silent _ _ _), EM.of_quiet (slackTail_silent _ _ _)
theorem strtolowercase_s_em (cfg : Cfg) (dest dmax : Nat) (db : Bos) : EM S4 (strtolowercase_s cfg dest dmax db) := by
  unfold strtolowercase_s
  split
  · em_walk
  split
  · em_walk
  refine em_chkDmax _ _ _ (by decide) (by decide) ?_
  em_walk using EM.of_quiet (caseLoop_silent _ _ _ _ _)
theorem strtouppercase_s_em (cfg : Cfg) (dest dmax : Nat) (db : Bos) : EM S4 (strtouppercase_s cfg dest dmax db) := by
  unfold strtouppercase_s
  split
  · em_walk
  split
  · em_walk
  refine em_chkDmax _ _ _ (by decide) (by decide) ?_
  em_walk using EM.of_quiet (caseLoop_silent _ _ _ _ _)
theorem termScan_em {S : List Nat} (h : ESUNTERM ∈ S) (od om n d : Nat) : EM S (termScan od om n d) := by
  induction n generalizing d with
  | zero => unfold termScan; em_walk using EM.of_quiet (Quiet.zeroLoop _ _), EM.handlerS _ h
  | succ n ih => unfold termScan; em_walk using ih _
abbrev S5u : List Nat := [ESNULLP, ESZEROL, ESLEMAX, EOVERFLOW, ESUNTERM]
theorem strljustify_s_em (cfg : Cfg) (dest dmax : Nat) (db : Bos) : EM S5u (strljustify_s cfg dest dmax db) := by
  unfold strljustify_s
  split
  · em_walk
  split
  · em_walk
  refine em_chkDmax _ _ _ (by decide) (by decide) ?_
  em_walk using termScan_em (by decide) _ _ _ _, EM.of_quiet (skipWs_silent _ _), EM.of_quiet (shiftLoop_silent _ _ _)
theorem strremovews_s_em (cfg : Cfg) (dest dmax : Nat) (db : Bos) : EM S5u (strremovews_s cfg dest dmax db) := by
  unfold strremovews_s
  split
  · em_walk
  split
  · em_walk
  refine em_chkDmax _ _ _ (by decide) (by decide) ?_
  em_walk using termScan_em (by decide) _ _ _ _, EM.of_quiet (skipWs_silent _ _), EM.of_quiet (shiftLoop_silent _ _ _), EM.of_quiet (stripTrailing_silent _ _)

/-- strnset_s: every returned code is documented -/
theorem strnset_s_documented (cfg : Cfg) (dest dmax value n : Nat) (db : Bos) :
    ReturnsDocumented "strnset_s" [] (strnset_s cfg dest dmax value n db) id := of_Once (strnset_s_ev ..) (strnset_s_em ..) (by decide)
/-- strzero_s: every returned code is documented -/
theorem strzero_s_documented (cfg : Cfg) (dest dmax : Nat) (db : Bos) :
    ReturnsDocumented "strzero_s" [] (strzero_s cfg dest dmax db) id := of_Once (strzero_s_ev ..) (strzero_s_em ..) (by decide)
/-- strtolowercase_s: every returned code is documented -/
theorem strtolowercase_s_documented (cfg : Cfg) (dest dmax : Nat) (db : Bos) :
    ReturnsDocumented "strtolowercase_s" [] (strtolowercase_s cfg dest dmax db) id := of_Once (strtolowercase_s_ev ..) (strtolowercase_s_em ..) (by decide)
/-- strtouppercase_s: every returned code is documented -/
theorem strtouppercase_s_documented (cfg : Cfg) (dest dmax : Nat) (db : Bos) :
    ReturnsDocumented "strtouppercase_s" [] (strtouppercase_s cfg dest dmax db) id := of_Once (strtouppercase_s_ev ..) (strtouppercase_s_em ..) (by decide)
/-- strljustify_s: every returned code is documented -/
theorem strljustify_s_documented (cfg : Cfg) (dest dmax : Nat) (db : Bos) :
    ReturnsDocumented "strljustify_s" [] (strljustify_s cfg dest dmax db) id := of_Once (strljustify_s_ev ..) (strljustify_s_em ..) (by decide)
/-- strremovews_s: every returned code is documented -/
theorem strremovews_s_documented (cfg : Cfg) (dest dmax : Nat) (db : Bos) :
    ReturnsDocumented "strremovews_s" [] (strremovews_s cfg dest dmax db) id := of_Once (strremovews_s_ev ..) (strremovews_s_em ..) (by decide)

/-! ## the memory family -/

theorem em_chkDmaxMemB {S : List Nat} (dmax : Nat) (db : Bos) (max : Nat) {k : Option Nat → Prog Nat} (h1 : ESLEMAX ∈ S) (h2 : EOVERFLOW ∈ S)
    (hk : ∀ b, EM S (k b)) : EM S (Mem.chkDmaxMemB dmax db max k) := by
  unfold Mem.chkDmaxMemB
  split
  · split
    · exact EM.failM _ h1
    · exact hk _
  · split
    · split
      · exact EM.failM _ h1
      · exact EM.failM _ h2
    · exact hk _

theorem em_handleMemErrorB {S : List Nat} (w d len c : Nat) (h : c ∈ S) : EM S (Mem.handleMemErrorB w d len c) := by
  unfold Mem.handleMemErrorB
  exact EM.bind (EM.of_quiet (q_memsetBytes _ _ _ _)) (fun _ => EM.handlerM c h)

abbrev SM : List Nat := [ESNULLP, ESZEROL, ESLEMAX, EOVERFLOW, ESNOSPC, ESOVRLP]

/-- walk an entry point of the memory family -/
macro "em_mem" : tactic => `(tactic| repeat (first
  | exact EM.pure _
  | exact EM.failM _ (by decide)
  | exact EM.handlerM _ (by decide)
  | exact em_handleMemErrorB _ _ _ _ (by decide)
  | exact EM.of_quiet (q_mem_prim_set _ _ _ _)
  | exact EM.of_quiet (q_mem_prim_set16 _ _ _)
  | exact EM.of_quiet (q_mem_prim_set32 _ _ _)
  | exact EM.of_quiet (q_mem_prim_move _ _ _)
  | exact EM.of_quiet (q_mem_prim_move16 _ _ _)
  | exact EM.of_quiet (q_mem_prim_move32 _ _ _)
  | exact EM.of_quiet (q_memsetBytes _ _ _ _)
  | (apply em_chkDmaxMemB _ _ _ (by decide) (by decide); intro _)
  | (with_reducible apply EM.bind)
  | intro _
  | dsimp only
  | split))

abbrev SCP : List Nat := [ESNULLP, ESZEROL, ESLEMAX, EOVERFLOW, ESNOSPC, ESOVRLP]
abbrev SMV : List Nat := [ESNULLP, ESZEROL, ESLEMAX, EOVERFLOW, ESNOSPC]
abbrev SST : List Nat := [ESNULLP, ESLEMAX, EOVERFLOW, ESNOSPC]
abbrev SZ : List Nat := [ESNULLP, ESZEROL, ESLEMAX, EOVERFLOW]

theorem memcpy_s_em (d m s l : Nat) (db sb : Bos) : EM SCP (memcpy_s d m s l db sb) := by unfold memcpy_s; em_mem
theorem memmove_s_em (d m s l : Nat) (db sb : Bos) : EM SMV (memmove_s d m s l db sb) := by unfold memmove_s; em_mem
theorem memset_s_em (d m v n : Nat) (db : Bos) : EM SST (memset_s d m v n db) := by unfold memset_s; em_mem
theorem memzero_s_em (d l : Nat) (db : Bos) : EM SZ (memzero_s d l db) := by unfold memzero_s; em_mem
theorem memzero16_s_em (d l : Nat) (db : Bos) : EM SZ (memzero16_s d l db) := by unfold memzero16_s; em_mem
theorem memzero32_s_em (d l : Nat) (db : Bos) : EM SZ (memzero32_s d l db) := by unfold memzero32_s; em_mem
theorem memset16_s_em (d m v n : Nat) (db : Bos) : EM SST (memset16_s d m v n db) := by unfold memset16_s; em_mem
theorem memset32_s_em (d m v n : Nat) (db : Bos) : EM SST (memset32_s d m v n db) := by unfold memset32_s; em_mem
theorem memcpy16_s_em (d m s l : Nat) (db sb : Bos) : EM SCP (memcpy16_s d m s l db sb) := by unfold memcpy16_s; em_mem
theorem memcpy32_s_em (d m s l : Nat) (db sb : Bos) : EM SCP (memcpy32_s d m s l db sb) := by unfold memcpy32_s; em_mem
theorem memmove16_s_em (d m s l : Nat) (db sb : Bos) : EM SMV (memmove16_s d m s l db sb) := by unfold memmove16_s; em_mem
theorem memmove32_s_em (d m s l : Nat) (db sb : Bos) : EM SMV (memmove32_s d m s l db sb) := by unfold memmove32_s; em_mem
theorem wmemcpy_s_em (d m s l : Nat) (db sb : Bos) : EM SCP (wmemcpy_s d m s l db sb) := by unfold wmemcpy_s; em_mem
theorem wmemmove_s_em (d m s l : Nat) (db sb : Bos) : EM SMV (wmemmove_s d m s l db sb) := by unfold wmemmove_s; em_mem

/-- memcpy_s: every returned code is documented -/
theorem memcpy_s_documented (d m s l : Nat) (db sb : Bos) : ReturnsDocumented "memcpy_s" [] (memcpy_s d m s l db sb) id :=
  of_Once (memcpy_s_ev ..) (memcpy_s_em ..) (by decide)
/-- memmove_s: every returned code is documented -/
theorem memmove_s_documented (d m s l : Nat) (db sb : Bos) : ReturnsDocumented "memmove_s" [] (memmove_s d m s l db sb) id :=
  of_Once (memmove_s_ev ..) (memmove_s_em ..) (by decide)
/-- memset_s: every returned code is documented -/
theorem memset_s_documented (d m v n : Nat) (db : Bos) : ReturnsDocumented "memset_s" [] (memset_s d m v n db) id :=
  of_Once (memset_s_ev ..) (memset_s_em ..) (by decide)
/-- memzero_s: every returned code is documented -/
theorem memzero_s_documented (d l : Nat) (db : Bos) : ReturnsDocumented "memzero_s" [] (memzero_s d l db) id :=
  of_Once (memzero_s_ev ..) (memzero_s_em ..) (by decide)
/-- memzero16_s: every returned code is documented -/
theorem memzero16_s_documented (d l : Nat) (db : Bos) : ReturnsDocumented "memzero16_s" [] (memzero16_s d l db) id :=
  of_Once (memzero16_s_ev ..) (memzero16_s_em ..) (by decide)
/-- memzero32_s: every returned code is documented -/
theorem memzero32_s_documented (d l : Nat) (db : Bos) : ReturnsDocumented "memzero32_s" [] (memzero32_s d l db) id :=
  of_Once (memzero32_s_ev ..) (memzero32_s_em ..) (by decide)
/-- memset16_s: every returned code is documented -/
theorem memset16_s_documented (d m v n : Nat) (db : Bos) : ReturnsDocumented "memset16_s" [] (memset16_s d m v n db) id :=
  of_Once (memset16_s_ev ..) (memset16_s_em ..) (by decide)
/-- memset32_s: every returned code is documented -/
theorem memset32_s_documented (d m v n : Nat) (db : Bos) : ReturnsDocumented "memset32_s" [] (memset32_s d m v n db) id :=
  of_Once (memset32_s_ev ..) (memset32_s_em ..) (by decide)
/-- memcpy16_s: every returned code is documented -/
theorem memcpy16_s_documented (d m s l : Nat) (db sb : Bos) : ReturnsDocumented "memcpy16_s" [] (memcpy16_s d m s l db sb) id :=
  of_Once (memcpy16_s_ev ..) (memcpy16_s_em ..) (by decide)
/-- memcpy32_s: every returned code is documented -/
theorem memcpy32_s_documented (d m s l : Nat) (db sb : Bos) : ReturnsDocumented "memcpy32_s" [] (memcpy32_s d m s l db sb) id :=
  of_Once (memcpy32_s_ev ..) (memcpy32_s_em ..) (by decide)
/-- memmove16_s: every returned code is documented -/
theorem memmove16_s_documented (d m s l : Nat) (db sb : Bos) : ReturnsDocumented "memmove16_s" [] (memmove16_s d m s l db sb) id :=
  of_Once (memmove16_s_ev ..) (memmove16_s_em ..) (by decide)
/-- memmove32_s: every returned code is documented -/
theorem memmove32_s_documented (d m s l : Nat) (db sb : Bos) : ReturnsDocumented "memmove32_s" [] (memmove32_s d m s l db sb) id :=
  of_Once (memmove32_s_ev ..) (memmove32_s_em ..) (by decide)
/-- wmemcpy_s: every returned code is documented -/
theorem wmemcpy_s_documented (d m s l : Nat) (db sb : Bos) : ReturnsDocumented "wmemcpy_s" [] (wmemcpy_s d m s l db sb) id :=
  of_Once (wmemcpy_s_ev ..) (wmemcpy_s_em ..) (by decide)
/-- wmemmove_s: every returned code is documented -/
theorem wmemmove_s_documented (d m s l : Nat) (db sb : Bos) : ReturnsDocumented "wmemmove_s" [] (wmemmove_s d m s l db sb) id :=
  of_Once (wmemmove_s_ev ..) (wmemmove_s_em ..) (by decide)

/-! ## the query families -/

theorem em_qFailS {S : List Nat} (c : Nat) (h : c ∈ S) : EM S (qFailS c) := by
  unfold qFailS; exact EM.bind (EM.handlerS c h) (fun _ => EM.pure _)
theorem em_qFailM {S : List Nat} (c : Nat) (h : c ∈ S) : EM S (qFailM c) := by
  unfold qFailM; exact EM.bind (EM.handlerM c h) (fun _ => EM.pure _)
theorem em_failS2 {S : List Nat} (c o : Nat) (h : c ∈ S) : EM S (failS2 c o) := by
  unfold failS2; exact EM.bind (EM.handlerS c h) (fun _ => EM.pure _)

macro "em_q" : tactic => `(tactic| repeat (first
  | exact EM.pure _
  | exact em_qFailS _ (by decide)
  | exact em_qFailM _ (by decide)
  | exact em_failS2 _ _ (by decide)
  | exact EM.failS _ (by decide)
  | exact EM.handlerS _ (by decide)
  | exact EM.handlerM _ (by decide)
  | exact EM.handleError _ _ _ _ (by decide)
  | exact EM.loadP _
  | assumption
  | (with_reducible apply EM.bind)
  | intro _
  | dsimp only
  | split))

abbrev SQ : List Nat := [ESNULLP, ESZEROL, ESLEMAX, EOVERFLOW]
theorem em_qChkS {S : List Nat} (h : ∀ c ∈ SQ, c ∈ S) (d m : Nat) (db : Bos) (src : Option Nat) : EM S (qChkS d m db src) := by
  have h1 := h ESNULLP (by decide); have h2 := h ESZEROL (by decide); have h3 := h ESLEMAX (by decide); have h4 := h EOVERFLOW (by decide)
  unfold qChkS
  repeat (first | exact em_qFailS _ ‹_› | exact EM.pure _ | split)
theorem em_qChkM {S : List Nat} (h : ∀ c ∈ SQ, c ∈ S) (d m : Nat) (db : Bos) : EM S (qChkM d m db) := by
  have h1 := h ESNULLP (by decide); have h2 := h ESZEROL (by decide); have h3 := h ESLEMAX (by decide); have h4 := h EOVERFLOW (by decide)
  unfold qChkM
  repeat (first | exact em_qFailM _ ‹_› | exact EM.pure _ | split)
theorem em_qChkSlenS {S : List Nat} (h3 : ESLEMAX ∈ S) (h4 : EOVERFLOW ∈ S) (l : Nat) (sb : Bos) : EM S (qChkSlenS l sb) := by
  unfold qChkSlenS
  repeat (first | exact em_qFailS _ ‹_› | exact EM.pure _ | split)

theorem strcmpLoop_em {S : List Nat} (h : ESUNTERM ∈ S) (sb : Bos) (n d s l : Nat) : EM S (strcmpLoop sb n d s l) := by
  have tail : ∀ d s, EM S (strcmpTail d s) := fun d s => EM.of_quiet (by unfold strcmpTail; quiet)
  cases sb <;>
  induction n generalizing d s l with
  | zero => unfold strcmpLoop; em_walk using tail _ _, EM.handlerS _ h
  | succ n ih => unfold strcmpLoop; em_walk using tail _ _, ih _ _ _, EM.handlerS _ h

abbrev SQU : List Nat := [ESNULLP, ESZEROL, ESLEMAX, EOVERFLOW, ESUNTERM]
theorem strcmp_s_em (d m s : Nat) (db sb : Bos) : EM SQU (strcmp_s d m s db sb) := by
  unfold strcmp_s
  refine EM.bind (em_qChkS (by decide) _ _ _ _) (fun r => ?_)
  split
  · exact EM.pure _
  · exact strcmpLoop_em (by decide) _ _ _ _ _
/-- strcmp_s: every returned code is documented -/
theorem strcmp_s_documented (d m s : Nat) (db sb : Bos) : ReturnsDocumented "strcmp_s" [] (strcmp_s d m s db sb) (·.1) :=
  of_QPost (strcmp_s_ev ..) (strcmp_s_em ..) (by decide)

theorem strcasecmp_s_em (d m s : Nat) (db : Bos) : EM SQ (strcasecmp_s d m s db) := by
  unfold strcasecmp_s
  refine EM.bind (em_qChkS (by decide) _ _ _ _) (fun r => ?_)
  split
  · exact EM.pure _
  · exact EM.of_quiet (by
      generalize m = n
      induction n generalizing d s with
      | zero => unfold strcasecmpLoop; quiet using q_strcasecmpTail _ _
      | succ n ih => unfold strcasecmpLoop; quiet using q_strcasecmpTail _ _, ih _ _)
theorem strcmpfld_s_em (d m s : Nat) (db : Bos) : EM SQ (strcmpfld_s d m s db) := by
  unfold strcmpfld_s
  refine EM.bind (em_qChkS (by decide) _ _ _ _) (fun r => ?_)
  split
  · exact EM.pure _
  · exact EM.of_quiet (by
      have tail : ∀ d s, Quiet (strcmpTail d s) := fun d s => by unfold strcmpTail; quiet
      generalize m = n
      induction n generalizing d s with
      | zero => unfold strcmpfldLoop; exact tail _ _
      | succ n ih => unfold strcmpfldLoop; quiet using tail _ _, ih _ _)
theorem q_strstrOuter (src slen n d : Nat) : Quiet (strstrOuter src slen n d) := by
  induction n generalizing d with
  | zero => unfold strstrOuter; quiet
  | succ n ih => unfold strstrOuter; quiet using ih _, q_strstrInner _ _ _ _ _
theorem q_strcasestrOuter (src slen n d : Nat) : Quiet (strcasestrOuter src slen n d) := by
  induction n generalizing d with
  | zero => unfold strcasestrOuter; quiet
  | succ n ih => unfold strcasestrOuter; quiet using ih _, q_strcasestrInner _ _ _ _ _
theorem q_strpbrkOuter (src slen n d : Nat) : Quiet (strpbrkOuter src slen n d) := by
  induction n generalizing d with
  | zero => unfold strpbrkOuter; quiet
  | succ n ih => unfold strpbrkOuter; quiet using ih _, q_strpbrkInner _ _ _
theorem strstr_s_em (d m s l : Nat) (db sb : Bos) : EM SQ (strstr_s d m s l db sb) := by
  unfold strstr_s
  refine EM.bind (em_qChkS (by decide) _ _ _ _) (fun r => ?_)
  split
  · exact EM.pure _
  refine EM.bind (em_qChkSlenS (by decide) (by decide) _ _) (fun r => ?_)
  split
  · exact EM.pure _
  em_walk using EM.of_quiet (q_strstrOuter _ _ _ _), EM.of_quiet (q_strlenP _ _ _)
abbrev SQN : List Nat := [ESNULLP, ESZEROL, ESLEMAX, EOVERFLOW, ESNOTFND]
theorem strcasestr_s_em (d m s l : Nat) (db sb : Bos) : EM SQN (strcasestr_s d m s l db sb) := by
  unfold strcasestr_s
  refine EM.bind (em_qChkS (by decide) _ _ _ _) (fun r => ?_)
  split
  · exact EM.pure _
  em_walk using EM.of_quiet (q_strcasestrOuter _ _ _ _)
theorem strchr_s_em (d m : Nat) (ch : Int) (db : Bos) : EM SQ (strchr_s d m ch db) := by
  unfold strchr_s
  refine EM.bind (em_qChkS (by decide) _ _ _ _) (fun r => ?_)
  split
  · exact EM.pure _
  em_walk using EM.of_quiet (q_strchrP _ _ _)
theorem memchr_s_em (d m : Nat) (ch : Int) (db : Bos) : EM SQ (memchr_s d m ch db) := by
  unfold memchr_s
  refine EM.bind (em_qChkM (by decide) _ _ _) (fun r => ?_)
  split
  · exact EM.pure _
  em_walk using EM.of_quiet (q_memchrP _ _ _)
theorem memrchr_s_em (d m : Nat) (ch : Int) (db : Bos) : EM SQ (memrchr_s d m ch db) := by
  unfold memrchr_s
  refine EM.bind (em_qChkM (by decide) _ _ _) (fun r => ?_)
  split
  · exact EM.pure _
  em_walk using EM.of_quiet (q_memrchrP _ _ _)
theorem strspn_s_em (d m s l : Nat) (db sb : Bos) : EM SQ (strspn_s d m s l db sb) := by
  unfold strspn_s
  refine EM.bind (em_qChkS (by decide) _ _ _ _) (fun r => ?_)
  split
  · exact EM.pure _
  refine EM.bind (em_qChkSlenS (by decide) (by decide) _ _) (fun r => ?_)
  split
  · exact EM.pure _
  em_walk using EM.of_quiet (q_spanOuter _ _ _ _ _ _)
theorem strcspn_s_em (d m s l : Nat) (db sb : Bos) : EM SQ (strcspn_s d m s l db sb) := by
  unfold strcspn_s
  refine EM.bind (em_qChkS (by decide) _ _ _ _) (fun r => ?_)
  split
  · exact EM.pure _
  em_walk using EM.of_quiet (q_spanOuter _ _ _ _ _ _)
theorem strprefix_s_em (d m s : Nat) (db : Bos) : EM SQ (strprefix_s d m s db) := by
  unfold strprefix_s
  refine EM.bind (em_qChkS (by decide) _ _ _ _) (fun r => ?_)
  split
  · exact EM.pure _
  em_walk using EM.of_quiet (strprefixLoop_q _ _ _)

/-- strcasecmp_s: every returned code is documented -/
theorem strcasecmp_s_documented (d m s : Nat) (db : Bos) : ReturnsDocumented "strcasecmp_s" [] (strcasecmp_s d m s db) (·.1) :=
  of_QPost (strcasecmp_s_ev ..) (strcasecmp_s_em ..) (by decide)
/-- strcmpfld_s: every returned code is documented -/
theorem strcmpfld_s_documented (d m s : Nat) (db : Bos) : ReturnsDocumented "strcmpfld_s" [] (strcmpfld_s d m s db) (·.1) :=
  of_QPost (strcmpfld_s_ev ..) (strcmpfld_s_em ..) (by decide)
/-- strstr_s: every returned code is documented -/
theorem strstr_s_documented (d m s l : Nat) (db sb : Bos) : ReturnsDocumented "strstr_s" [] (strstr_s d m s l db sb) (·.1) :=
  of_QPost (strstr_s_ev ..) (strstr_s_em ..) (by decide)
/-- strcasestr_s: every returned code is documented -/
theorem strcasestr_s_documented (d m s l : Nat) (db sb : Bos) : ReturnsDocumented "strcasestr_s" [] (strcasestr_s d m s l db sb) (·.1) :=
  of_QPost (strcasestr_s_ev ..) (strcasestr_s_em ..) (by decide)
/-- strchr_s: every returned code is documented -/
theorem strchr_s_documented (d m : Nat) (ch : Int) (db : Bos) : ReturnsDocumented "strchr_s" [] (strchr_s d m ch db) (·.1) :=
  of_QPost (strchr_s_ev ..) (strchr_s_em ..) (by decide)
/-- strspn_s: every returned code is documented -/
theorem strspn_s_documented (d m s l : Nat) (db sb : Bos) : ReturnsDocumented "strspn_s" [] (strspn_s d m s l db sb) (·.1) :=
  of_QPost (strspn_s_ev ..) (strspn_s_em ..) (by decide)
/-- strcspn_s: every returned code is documented -/
theorem strcspn_s_documented (d m s l : Nat) (db sb : Bos) : ReturnsDocumented "strcspn_s" [] (strcspn_s d m s l db sb) (·.1) :=
  of_QPostAny (strcspn_s_ev ..) (strcspn_s_em ..) (by decide)
/-- strprefix_s: every returned code is documented -/
theorem strprefix_s_documented (d m s : Nat) (db : Bos) : ReturnsDocumented "strprefix_s" [] (strprefix_s d m s db) id :=
  of_QPost (strprefix_s_ev ..) (strprefix_s_em ..) (by decide)

/-- memrchr_s: every returned code is documented -/
theorem memrchr_s_documented (d m : Nat) (ch : Int) (db : Bos) : ReturnsDocumented "memrchr_s" [] (memrchr_s d m ch db) (·.1) :=
  of_QPostAny (memrchr_s_ev ..) (memrchr_s_em ..) (by decide)
/-- memchr_s, FULL statement false against the current doc comment: EOVERFLOW (dmax above a known object size) is returned but the
`@retval` list only says "ESLEMAX when dmax > RSIZE_MAX_MEM or > sizeof(dest)" (documentation finding `memchr-doc-eoverflow`) -/
theorem memchr_s_documented_partial (d m : Nat) (ch : Int) (db : Bos) : ReturnsDocumented "memchr_s" [EOVERFLOW] (memchr_s d m ch db) (·.1) :=
  of_QPostAny (memchr_s_ev ..) (memchr_s_em ..) (by decide)
/-- the undocumented code is really returned: dmax 9 for a known object of 8 bytes -/
theorem memchr_s_documented_witness :
    ((exec (memchr_s 100 9 97 (some 8)) { data := fun _ => 7, mapped := fun _ => true, rd := fun _ => true, wr := fun _ => false }).toOption.map
      (fun x => x.1.1)) = some EOVERFLOW ∧ EOVERFLOW ∉ docCodes "memchr_s" := by decide

theorem strrchr_s_em (d m : Nat) (ch : Int) (db : Bos) : EM SQ (strrchr_s d m ch db) := by
  unfold strrchr_s
  refine EM.bind (em_qChkS (by decide) _ _ _ _) (fun r => ?_)
  split
  · exact EM.pure _
  have hs : ∀ a b c, EM SQ (strnlen_s a b c) := by
    intro a b c; unfold strnlen_s; em_walk using EM.of_quiet (q_strnlenLoop _ _ _ _)
  em_walk using hs _ _ _, memrchr_s_em _ _ _ _
/-- strrchr_s: every returned code is documented (ESZEROL is its documented answer for an empty string) -/
theorem strrchr_s_documented (d m : Nat) (ch : Int) (db : Bos) : ReturnsDocumented "strrchr_s" [] (strrchr_s d m ch db) (·.1) :=
  of_QPostAny (strrchr_s_ev ..) (strrchr_s_em ..) (by decide)

abbrev SMC : List Nat := [ESNULLP, ESZEROL, ESLEMAX, EOVERFLOW, ESNOSPC]
theorem memcmpChecks_em (max dlen slen dB sB dL dL' : Nat) (db sb : Bos) : EM SMC (memcmpChecks max dlen slen dB sB dL dL' db sb) := by
  unfold memcmpChecks; em_q
theorem memcmpG_em (max : Nat) (f : Nat → Nat → Int) (dest dlen src slen dB sB dL dL' : Nat) (db sb : Bos) :
    EM SMC (memcmpG max f dest dlen src slen dB sB dL dL' db sb) := by
  unfold memcmpG
  em_walk using memcmpChecks_em _ _ _ _ _ _ _ _ _, EM.of_quiet (q_memcmpLoopQ _ _ _ _ _)
/-- memcmp_s: every returned code is documented -/
theorem memcmp_s_documented (d m s l : Nat) (db sb : Bos) : ReturnsDocumented "memcmp_s" [] (memcmp_s d m s l db sb) (·.1) :=
  of_QPost (memcmp_s_ev ..) (memcmpG_em ..) (by decide)
/-- memcmp16_s: every returned code is documented -/
theorem memcmp16_s_documented (d m s l : Nat) (db sb : Bos) : ReturnsDocumented "memcmp16_s" [] (memcmp16_s d m s l db sb) (·.1) :=
  of_QPost (memcmp16_s_ev ..) (memcmpG_em ..) (by decide)
/-- memcmp32_s: every returned code is documented -/
theorem memcmp32_s_documented (d m s l : Nat) (db sb : Bos) : ReturnsDocumented "memcmp32_s" [] (memcmp32_s d m s l db sb) (·.1) :=
  of_QPost (memcmp32_s_ev ..) (memcmpG_em ..) (by decide)

/-! Query2 -/
theorem em_chkDmaxQ {α} {S : List Nat} (mk : Nat → α) (dmax : Nat) (db : Bos) (max : Nat) {k : Prog α} (h3 : ESLEMAX ∈ S) (h4 : EOVERFLOW ∈ S)
    (hk : EM S k) : EM S (chkDmaxQ mk dmax db max k) := by
  unfold chkDmaxQ
  em_walk using EM.handlerS _ h3, EM.handlerS _ h4, hk
theorem q_firstcharLoop (c n d : Nat) : Quiet (firstcharLoop c n d) := by
  induction n generalizing d with
  | zero => unfold firstcharLoop; quiet
  | succ n ih => unfold firstcharLoop; quiet using ih
theorem strfirstchar_s_em (d m c : Nat) (db : Bos) : EM SQ (strfirstchar_s d m c db) := by
  unfold strfirstchar_s
  em_walk using em_chkDmaxQ _ _ _ _ (by decide) (by decide) (EM.of_quiet (q_firstcharLoop _ _ _)), em_failS2 _ _ (by decide)
theorem strlastchar_s_em (d m c : Nat) (db : Bos) : EM SQ (strlastchar_s d m c db) := by
  unfold strlastchar_s
  split
  · exact em_failS2 _ _ (by decide)
  split
  · exact em_failS2 _ _ (by decide)
  refine em_chkDmaxQ _ _ _ _ (by decide) (by decide) ?_
  em_walk using EM.of_quiet (q_lastcharLoop _ _ _ _)
theorem pairFn_em (sm fi : Bool) (nohit d m s : Nat) (db : Bos) : EM SQ (pairFn sm fi nohit d m s db) := by
  unfold pairFn
  split
  · exact em_failS2 _ _ (by decide)
  split
  · exact em_failS2 _ _ (by decide)
  split
  · exact em_failS2 _ _ (by decide)
  refine em_chkDmaxQ _ _ _ _ (by decide) (by decide) ?_
  em_walk using EM.of_quiet (q_pairLoop _ _ _ _ _ _ _)
/-- strfirstchar_s: every returned code is documented -/
theorem strfirstchar_s_documented (d m c : Nat) (db : Bos) : ReturnsDocumented "strfirstchar_s" [] (strfirstchar_s d m c db) (·.1) :=
  of_QPost (strfirstchar_s_ev ..) (strfirstchar_s_em ..) (by decide)
/-- strlastchar_s: every returned code is documented -/
theorem strlastchar_s_documented (d m c : Nat) (db : Bos) : ReturnsDocumented "strlastchar_s" [] (strlastchar_s d m c db) (·.1) :=
  of_QPost (strlastchar_s_ev ..) (strlastchar_s_em ..) (by decide)
/-- strfirstdiff_s: every returned code is documented -/
theorem strfirstdiff_s_documented (d m s : Nat) (db : Bos) : ReturnsDocumented "strfirstdiff_s" [] (strfirstdiff_s d m s db) (·.1) :=
  of_QPost (strfirstdiff_s_ev ..) (pairFn_em ..) (by decide)
/-- strfirstsame_s: every returned code is documented -/
theorem strfirstsame_s_documented (d m s : Nat) (db : Bos) : ReturnsDocumented "strfirstsame_s" [] (strfirstsame_s d m s db) (·.1) :=
  of_QPost (strfirstsame_s_ev ..) (pairFn_em ..) (by decide)
/-- strlastdiff_s: every returned code is documented -/
theorem strlastdiff_s_documented (d m s : Nat) (db : Bos) : ReturnsDocumented "strlastdiff_s" [] (strlastdiff_s d m s db) (·.1) :=
  of_QPost (strlastdiff_s_ev ..) (pairFn_em ..) (by decide)
/-- strlastsame_s: every returned code is documented -/
theorem strlastsame_s_documented (d m s : Nat) (db : Bos) : ReturnsDocumented "strlastsame_s" [] (strlastsame_s d m s db) (·.1) :=
  of_QPost (strlastsame_s_ev ..) (pairFn_em ..) (by decide)

/-! wide queries -/
theorem wcscmpG_em (u : Bool) (d m s sm c : Nat) (db sb : Bos) : EM SQ (wcscmpG u d m s sm c db sb) := by
  unfold wcscmpG
  em_walk using EM.of_quiet (q_wcscmpLoop _ _ _ _ _ _)
theorem wcsstr_s_em (d m s l : Nat) (db sb : Bos) : EM SQ (wcsstr_s d m s l db sb) := by
  have q : ∀ a b c e, Quiet (wcsstrOuter a b c e) := by
    intro a b c e
    induction c generalizing e with
    | zero => unfold wcsstrOuter; quiet
    | succ n ih => unfold wcsstrOuter; quiet using ih _, q_wcsstrInner _ _ _ _ _
  unfold wcsstr_s
  em_walk using em_failS2 _ _ (by decide), EM.of_quiet (q _ _ _ _)
theorem wmemcmp_s_em (d m s l : Nat) (db sb : Bos) : EM SMC (wmemcmp_s d m s l db sb) := by
  unfold wmemcmp_s
  em_walk using EM.of_quiet (q_wmemcmpLoop _ _ _ _)
/-- wcscmp_s: every returned code is documented -/
theorem wcscmp_s_documented (d m s sm : Nat) (db sb : Bos) : ReturnsDocumented "wcscmp_s" [] (wcscmp_s d m s sm db sb) (·.1) :=
  of_QPost (wcscmp_s_ev ..) (wcscmpG_em ..) (by decide)
/-- wcsncmp_s: every returned code is documented -/
theorem wcsncmp_s_documented (d m s sm c : Nat) (db sb : Bos) : ReturnsDocumented "wcsncmp_s" [] (wcsncmp_s d m s sm c db sb) (·.1) :=
  of_QPost (wcsncmp_s_ev ..) (wcscmpG_em ..) (by decide)
/-- wcsstr_s: every returned code is documented -/
theorem wcsstr_s_documented (d m s l : Nat) (db sb : Bos) : ReturnsDocumented "wcsstr_s" [] (wcsstr_s d m s l db sb) (·.1) :=
  of_QPost (wcsstr_s_ev ..) (wcsstr_s_em ..) (by decide)
/-- wmemcmp_s: every returned code is documented -/
theorem wmemcmp_s_documented (d m s l : Nat) (db sb : Bos) : ReturnsDocumented "wmemcmp_s" [] (wmemcmp_s d m s l db sb) (·.1) :=
  of_QPost (wmemcmp_s_ev ..) (wmemcmp_s_em ..) (by decide)

/-! wide in-place -/
theorem em_chkDmaxClearW {S : List Nat} (cfg : Cfg) (d m : Nat) (db : Bos) {k : Prog Nat} (h3 : ESLEMAX ∈ S) (h4 : EOVERFLOW ∈ S)
    (hk : EM S k) : EM S (chkDmaxClearW cfg d m db k) := by
  unfold chkDmaxClearW
  em_walk using EM.failS _ h3, EM.handleError _ _ _ _ h3, EM.handleError _ _ _ _ h4, hk
theorem wcsset_s_em (cfg : Cfg) (d m v : Nat) (db : Bos) : EM S4 (wcsset_s cfg d m v db) := by
  unfold wcsset_s
  split
  · em_walk
  split
  · em_walk
  split
  · em_walk
  refine em_chkDmaxClearW _ _ _ _ (by decide) (by decide) ?_
  em_walk using EM.of_quiet (setLoop_silent _ _ _), EM.of_quiet (slackTail_silent _ _ _)
theorem wcsnset_s_em (cfg : Cfg) (d m v n : Nat) (db : Bos) : EM [ESNULLP, ESZEROL, ESLEMAX, EOVERFLOW, ESNOSPC] (wcsnset_s cfg d m v n db) := by
  unfold wcsnset_s
  split
  · em_walk
  split
  · em_walk
  split
  · em_walk
  refine em_chkDmaxClearW _ _ _ _ (by decide) (by decide) ?_
  em_walk using EM.of_quiet (setLoop_silent _ _ _), EM.of_quiet (slackTail_silent _ _ _)
/-- wcsset_s: every returned code is documented -/
theorem wcsset_s_documented (cfg : Cfg) (d m v : Nat) (db : Bos) : ReturnsDocumented "wcsset_s" [] (wcsset_s cfg d m v db) id :=
  of_Once (wcsset_s_ev ..) (wcsset_s_em ..) (by decide)
/-- wcsnset_s: every returned code is documented -/
theorem wcsnset_s_documented (cfg : Cfg) (d m v n : Nat) (db : Bos) : ReturnsDocumented "wcsnset_s" [] (wcsnset_s cfg d m v n db) id :=
  of_Once (wcsnset_s_ev ..) (wcsnset_s_em ..) (by decide)

/-! ## the copy family and the field copies (object sizes as in `SmallBos` / `SrcOk`, see C05Copy.lean) -/
abbrev SC : List Nat := [ESNULLP, ESZEROL, ESLEMAX, EOVERFLOW, ESOVRLP, ESNOSPC, ESUNTERM]

theorem copyLoop_em {S : List Nat} (h1 : ESNOSPC ∈ S) (h2 : ESOVRLP ∈ S) (cfg : Cfg) (od bd : Bool) (bumper oD oM n d s l : Nat) :
    EM S (copyLoop cfg od bd bumper oD oM n d s l) := by
  induction n generalizing d s l with
  | zero => unfold copyLoop; em_walk using EM.handleError _ _ _ _ h1
  | succ n ih =>
    unfold copyLoop
    em_walk using EM.handleError _ _ _ _ h2, ih _ _ _, EM.of_quiet (Quiet.nullSlack _ _)
theorem findEnd_em {S : List Nat} (h1 : ESUNTERM ∈ S) (h2 : ESOVRLP ∈ S) (cfg : Cfg) (cb : Bool) (bumper oD oM n d : Nat) :
    EM S (findEnd cfg cb bumper oD oM n d) := by
  induction n generalizing d with
  | zero => unfold findEnd; em_walk
  | succ n ih => unfold findEnd; em_walk using EM.handleError _ _ _ _ h2, EM.handleError _ _ _ _ h1, ih _
theorem strnlen_s_em {S : List Nat} (h : ∀ c ∈ [ESNULLP, ESZEROL, ESLEMAX], c ∈ S) (a b : Nat) (c : Bos) : EM S (strnlen_s a b c) := by
  have h1 := h ESNULLP (by decide); have h2 := h ESZEROL (by decide); have h3 := h ESLEMAX (by decide)
  unfold strnlen_s
  em_walk using EM.handlerS _ h1, EM.handlerS _ h2, EM.handlerS _ h3, EM.of_quiet (q_strnlenLoop _ _ _ _)
theorem chkDmaxClear_em {S : List Nat} (h : ∀ c ∈ SQ, c ∈ S) (cfg : Cfg) (d m : Nat) (db : Bos) {k : Prog Nat} (hk : EM S k) :
    EM S (chkDmaxClear cfg d m db RSIZE_MAX_STR k) := by
  have h1 := h ESNULLP (by decide); have h2 := h ESZEROL (by decide); have h3 := h ESLEMAX (by decide); have h4 := h EOVERFLOW (by decide)
  unfold chkDmaxClear chkDmaxClearG handleStrBosOverflow
  em_walk using hk, strnlen_s_em (fun c hc => by
      rcases List.mem_cons.mp hc with rfl | hc
      · exact h1
      rcases List.mem_cons.mp hc with rfl | hc
      · exact h2
      rcases List.mem_cons.mp hc with rfl | hc
      · exact h3
      · cases hc) _ _ _, EM.handlerS _ h3, EM.handleError _ _ _ _ h3, EM.handleError _ _ _ _ h4

abbrev SCpy : List Nat := [ESNULLP, ESZEROL, ESLEMAX, EOVERFLOW, ESOVRLP, ESNOSPC]
theorem strcpy_s_em (cfg : Cfg) (d m s : Nat) (db : Bos) : EM SCpy (strcpy_s cfg d m s db) := by
  unfold strcpy_s strcpyG
  split
  · em_walk
  split
  · em_walk
  refine chkDmaxClear_em (by decide) _ _ _ _ ?_
  em_walk using copyLoop_em (by decide) (by decide) _ _ _ _ _ _ _ _ _ _
theorem strcat_s_em (cfg : Cfg) (d m s : Nat) (db : Bos) : EM SC (strcat_s cfg d m s db) := by
  unfold strcat_s strcatG
  split
  · em_walk
  split
  · em_walk
  refine chkDmaxClear_em (by decide) _ _ _ _ ?_
  em_walk using copyLoop_em (by decide) (by decide) _ _ _ _ _ _ _ _ _ _, findEnd_em (by decide) (by decide) _ _ _ _ _ _ _
theorem wcscat_s_em (cfg : Cfg) (d m s : Nat) (db : Bos) : EM SC (wcscat_s cfg d m s db) := by
  unfold wcscat_s chkDmaxW
  em_walk using copyLoop_em (by decide) (by decide) _ _ _ _ _ _ _ _ _ _, findEnd_em (by decide) (by decide) _ _ _ _ _ _ _

/-- strcpy_s (object size unknown or small): every returned code is documented -/
theorem strcpy_s_documented_partial (cfg : Cfg) (d m s : Nat) (db : Bos) (hb : SmallBos db) :
    ReturnsDocumented "strcpy_s" [] (strcpy_s cfg d m s db) id :=
  of_Once (strcpy_s_ev_partial cfg d m s db hb) (strcpy_s_em ..) (by decide)
/-- strcat_s, against the current doc comment: ESNOSPC ("not enough space", the code of the copy loop's exit) is returned but not
listed among the `@retval` lines (documentation finding `strcat-doc-esnospc`) -/
theorem strcat_s_documented_partial (cfg : Cfg) (d m s : Nat) (db : Bos) (hb : SmallBos db) :
    ReturnsDocumented "strcat_s" [ESNOSPC] (strcat_s cfg d m s db) id :=
  of_Once (strcat_s_ev_partial cfg d m s db hb) (strcat_s_em ..) (by decide)
/-- the undocumented code is really returned: "ab" appended to "x" in 3 cells -/
theorem strcat_s_documented_witness :
    ((exec (strcat_s {} 100 3 200 none)
      { data := fun a => if a = 100 then 120 else if a = 200 then 97 else if a = 201 then 98 else 0, mapped := fun _ => true, rd := fun _ => true, wr := fun _ => true }).toOption.map
      (fun x => x.1)) = some ESNOSPC ∧ ESNOSPC ∉ docCodes "strcat_s" := by decide
/-- wcscat_s: same gap in its doc comment -/
theorem wcscat_s_documented_partial (cfg : Cfg) (d m s : Nat) (db : Bos) :
    ReturnsDocumented "wcscat_s" [ESNOSPC] (wcscat_s cfg d m s db) id :=
  of_Once (wcscat_s_ev ..) (wcscat_s_em ..) (by decide)

theorem chkSlenMaxClear_em {S : List Nat} (h : ∀ c ∈ [ESNULLP, ESZEROL, ESLEMAX], c ∈ S) (cfg : Cfg) (d m l : Nat) {k : Prog Nat} (hk : EM S k) :
    EM S (chkSlenMaxClear cfg d m l RSIZE_MAX_STR k) := by
  unfold chkSlenMaxClear
  em_walk using hk, strnlen_s_em h _ _ _, EM.handleError _ _ _ _ (h ESLEMAX (by decide))
theorem strncpy_s_em (cfg : Cfg) (d m s l : Nat) (db sb : Bos) : EM SCpy (strncpy_s cfg d m s l db sb) := by
  unfold strncpy_s strncpyG handleStrBosOverflow
  split
  · em_walk
  split
  · em_walk
  split
  · em_walk
  refine chkDmaxClear_em (by decide) _ _ _ _ ?_
  split
  · em_walk
  refine chkSlenMaxClear_em (by decide) _ _ _ _ ?_
  em_walk using copyLoop_em (by decide) (by decide) _ _ _ _ _ _ _ _ _ _, strnlen_s_em (by decide) _ _ _
/-- strncpy_s (object sizes as in `SmallBos` / `SrcOk`): every returned code is documented -/
theorem strncpy_s_documented_partial (cfg : Cfg) (d m s l : Nat) (db sb : Bos) (hb : SmallBos db) (hs : SrcOk sb l) :
    ReturnsDocumented "strncpy_s" [] (strncpy_s cfg d m s l db sb) id :=
  of_Once (strncpy_s_ev_partial cfg d m s l db sb hb hs) (strncpy_s_em ..) (by decide)

theorem fldLoop_em {S : List Nat} (h : ESOVRLP ∈ S) (cfg : Cfg) (k : FldKind) (od : Bool) (bumper oD oM fuel d s m l : Nat) :
    EM S (fldLoop cfg k od bumper oD oM fuel d s m l) := by
  induction fuel generalizing d s m l with
  | zero => unfold fldLoop; exact EM.pure _
  | succ fuel ih =>
    unfold fldLoop
    cases k <;> em_walk using EM.handleError _ _ _ _ h, ih _ _ _ _
theorem fldG_em (k : FldKind) (cfg : Cfg) (d m s l : Nat) (db : Bos) : EM SCpy (fldG k cfg d m s l db) := by
  unfold fldG chkSlenNospcClear
  split
  · em_walk
  split
  · em_walk
  split
  · em_walk
  cases k
  · dsimp only
    refine chkDmaxClear_em (by decide) _ _ _ _ ?_
    em_walk using fldLoop_em (by decide) _ _ _ _ _ _ _ _ _ _ _, strnlen_s_em (by decide) _ _ _, EM.of_quiet (Quiet.nullSlack _ _)
  all_goals
    dsimp only
    refine em_chkDmax _ _ _ (by decide) (by decide) ?_
    em_walk using fldLoop_em (by decide) _ _ _ _ _ _ _ _ _ _ _, strnlen_s_em (by decide) _ _ _, EM.of_quiet (Quiet.nullSlack _ _)
/-- strcpyfld_s, against the current doc comment: EOVERFLOW (dmax above a known object size) is returned but not listed
(documentation finding `strcpyfld-doc-eoverflow`; the two sibling functions list it) -/
theorem strcpyfld_s_documented_partial (cfg : Cfg) (d m s l : Nat) (db : Bos) (hb : SmallBos db) :
    ReturnsDocumented "strcpyfld_s" [EOVERFLOW] (strcpyfld_s cfg d m s l db) id :=
  of_Once (strcpyfld_s_ev_partial cfg d m s l db hb) (fldG_em ..) (by decide)
/-- strcpyfldin_s: every returned code is documented -/
theorem strcpyfldin_s_documented_partial (cfg : Cfg) (d m s l : Nat) (db : Bos) (hb : SmallBos db) :
    ReturnsDocumented "strcpyfldin_s" [] (strcpyfldin_s cfg d m s l db) id :=
  of_Once (strcpyfldin_s_ev_partial cfg d m s l db hb) (fldG_em ..) (by decide)
/-- strcpyfldout_s: every returned code is documented -/
theorem strcpyfldout_s_documented_partial (cfg : Cfg) (d m s l : Nat) (db : Bos) (hb : SmallBos db) :
    ReturnsDocumented "strcpyfldout_s" [] (strcpyfldout_s cfg d m s l db) id :=
  of_Once (strcpyfldout_s_ev_partial cfg d m s l db hb) (fldG_em ..) (by decide)

/-- non-vacuity: a code outside every list would be rejected by the kernel (`decide` evaluates the regenerated doc list) -/
example : ESUNTERM ∉ docCodes "strcpy_s" ∧ ESUNTERM ∈ docCodes "strcat_s" := by decide

end SafeC.Props.C05Docs

import SafeC.Props.C10
import SafeC.Proofs.QueryExt2
/-!
# C10, second part (6): a known object size that covers `dmax` changes nothing

The theorems of `C10Ext1 … C10Ext4` are stated with the object size of `dest` unknown to the library
(`destbos = none`, what a caller without `__builtin_object_size` support gets).  Here: with a KNOWN
size `b ≥ dmax` (in the unit the function compares it in) and `dmax` within the limit, each model is
the SAME program as with the size unknown — so every theorem carries over verbatim.
(With `dmax` ABOVE the limit the two differ: known finding `bos-known-skips-limit`, property C05.)
-/
namespace SafeC.Props.C10
open SafeC Gen

theorem qChkS_bos (dest dmax b : Nat) (src : Option Nat) (hb : dmax ≤ b) (hle : dmax ≤ RSIZE_MAX_STR) :
    qChkS dest dmax (some b) src = qChkS dest dmax none src := by
  unfold qChkS
  have h1 : ¬ dmax > b := by omega
  have h2 : ¬ dmax > RSIZE_MAX_STR := by omega
  simp only [h1, h2, if_false]

theorem chkDmaxQ_bos {α : Type} (mk : Nat → α) (dmax b max : Nat) (k : Prog α) (hb : dmax ≤ b) (hle : dmax ≤ max) :
    chkDmaxQ mk dmax (some b) max k = chkDmaxQ mk dmax none max k := by
  unfold chkDmaxQ
  have h1 : ¬ dmax > b := by omega
  have h2 : ¬ dmax > max := by omega
  simp only [h1, h2, if_false]

/-- narrow string queries: `destbos = some b` with `dmax ≤ b`, `dmax ≤ RSIZE_MAX_STR` is the same
program as `destbos = none` -/
theorem destbos_irrelevant_str (dest dmax src slen c b : Nat) (ch : Int) (cfg : Cfg) (srcbos : Bos)
    (hb : dmax ≤ b) (hle : dmax ≤ RSIZE_MAX_STR) :
    strcmp_s dest dmax src (some b) srcbos = strcmp_s dest dmax src none srcbos ∧
    strcasecmp_s dest dmax src (some b) = strcasecmp_s dest dmax src none ∧
    strcmpfld_s dest dmax src (some b) = strcmpfld_s dest dmax src none ∧
    strstr_s dest dmax src slen (some b) srcbos = strstr_s dest dmax src slen none srcbos ∧
    strcasestr_s dest dmax src slen (some b) srcbos = strcasestr_s dest dmax src slen none srcbos ∧
    strchr_s dest dmax ch (some b) = strchr_s dest dmax ch none ∧
    strrchr_s dest dmax ch (some b) = strrchr_s dest dmax ch none ∧
    strpbrk_s cfg dest dmax src slen (some b) none = strpbrk_s cfg dest dmax src slen none none ∧
    strspn_s dest dmax src slen (some b) srcbos = strspn_s dest dmax src slen none srcbos ∧
    strcspn_s dest dmax src slen (some b) srcbos = strcspn_s dest dmax src slen none srcbos ∧
    strprefix_s dest dmax src (some b) = strprefix_s dest dmax src none ∧
    strfirstchar_s dest dmax c (some b) = strfirstchar_s dest dmax c none ∧
    strlastchar_s dest dmax c (some b) = strlastchar_s dest dmax c none ∧
    strfirstdiff_s dest dmax src (some b) = strfirstdiff_s dest dmax src none ∧
    strfirstsame_s dest dmax src (some b) = strfirstsame_s dest dmax src none ∧
    strlastdiff_s dest dmax src (some b) = strlastdiff_s dest dmax src none ∧
    strlastsame_s dest dmax src (some b) = strlastsame_s dest dmax src none := by
  refine ⟨?_, ?_, ?_, ?_, ?_, ?_, ?_, ?_, ?_, ?_, ?_, ?_, ?_, ?_, ?_, ?_, ?_⟩
  · unfold strcmp_s; rw [qChkS_bos _ _ _ _ hb hle]
  · unfold strcasecmp_s; rw [qChkS_bos _ _ _ _ hb hle]
  · unfold strcmpfld_s; rw [qChkS_bos _ _ _ _ hb hle]
  · unfold strstr_s; rw [qChkS_bos _ _ _ _ hb hle]
  · unfold strcasestr_s; rw [qChkS_bos _ _ _ _ hb hle]
  · unfold strchr_s; rw [qChkS_bos _ _ _ _ hb hle]
  · unfold strrchr_s; rw [qChkS_bos _ _ _ _ hb hle]
  · unfold strpbrk_s; rw [qChkS_bos _ _ _ _ hb hle]
  · unfold strspn_s; rw [qChkS_bos _ _ _ _ hb hle]
  · unfold strcspn_s; rw [qChkS_bos _ _ _ _ hb hle]
  · unfold strprefix_s; rw [qChkS_bos _ _ _ _ hb hle]
  · unfold strfirstchar_s; rw [chkDmaxQ_bos _ _ _ _ _ hb hle]
  · unfold strlastchar_s; rw [chkDmaxQ_bos _ _ _ _ _ hb hle]
  · unfold strfirstdiff_s pairFn; rw [chkDmaxQ_bos _ _ _ _ _ hb hle]
  · unfold strfirstsame_s pairFn; rw [chkDmaxQ_bos _ _ _ _ _ hb hle]
  · unfold strlastdiff_s pairFn; rw [chkDmaxQ_bos _ _ _ _ _ hb hle]
  · unfold strlastsame_s pairFn; rw [chkDmaxQ_bos _ _ _ _ _ hb hle]

/-- the predicates -/
theorem destbos_irrelevant_pred (dest dmax b : Nat) (hb : dmax ≤ b) (hle : dmax ≤ RSIZE_MAX_STR) :
    strisalphanumeric_s dest dmax (some b) = strisalphanumeric_s dest dmax none ∧
    strishex_s dest dmax (some b) = strishex_s dest dmax none ∧
    strislowercase_s dest dmax (some b) = strislowercase_s dest dmax none ∧
    strisdigit_s dest dmax (some b) = strisdigit_s dest dmax none ∧
    strismixedcase_s dest dmax (some b) = strismixedcase_s dest dmax none ∧
    strisuppercase_s dest dmax (some b) = strisuppercase_s dest dmax none ∧
    strisascii_s dest dmax (some b) = strisascii_s dest dmax none := by
  have key : ∀ ok bd, predFn ok bd dest dmax (some b) = predFn ok bd dest dmax none := by
    intro ok bd
    unfold predFn chkDestDmaxBool
    rw [chkDmaxQ_bos _ _ _ _ _ hb hle]
  refine ⟨key _ _, key _ _, key _ _, key _ _, key _ _, key _ _, ?_⟩
  unfold strisascii_s chkDestDmaxBool
  rw [chkDmaxQ_bos _ _ _ _ _ hb hle]

/-- `strispassword_s` (limit `SAFE_STR_PASSWORD_MAX_LENGTH`) -/
theorem destbos_irrelevant_password (dest dmax b : Nat) (hb : dmax ≤ b) (hle : dmax ≤ SAFE_STR_PASSWORD_MAX_LENGTH) :
    strispassword_s dest dmax (some b) = strispassword_s dest dmax none := by
  unfold strispassword_s chkDestDmaxBool
  rw [chkDmaxQ_bos _ _ _ _ _ hb hle]

/-- the byte / element compares and searches (sizes in BYTES for the 16- and 32-bit variants) -/
theorem destbos_irrelevant_mem (dest dmax src slen b : Nat) (ch : Int) (srcbos : Bos) :
    (dmax ≤ b → dmax ≤ RSIZE_MAX_MEM →
      memcmp_s dest dmax src slen (some b) srcbos = memcmp_s dest dmax src slen none srcbos ∧
      memchr_s dest dmax ch (some b) = memchr_s dest dmax ch none ∧
      memrchr_s dest dmax ch (some b) = memrchr_s dest dmax ch none) ∧
    (dmax * 2 ≤ b → dmax * 2 ≤ RSIZE_MAX_MEM16 →
      memcmp16_s dest dmax src slen (some b) srcbos = memcmp16_s dest dmax src slen none srcbos) ∧
    (dmax * 4 ≤ b → dmax ≤ RSIZE_MAX_MEM32 →
      memcmp32_s dest dmax src slen (some b) srcbos = memcmp32_s dest dmax src slen none srcbos) := by
  refine ⟨fun hb hle => ⟨?_, ?_, ?_⟩, fun hb hle => ?_, fun hb hle => ?_⟩
  · unfold memcmp_s memcmpG memcmpChecks
    have h1 : ¬ dmax > b := by omega
    have h2 : ¬ dmax > RSIZE_MAX_MEM := by omega
    simp only [h1, h2, if_false]
  · unfold memchr_s qChkM
    have h1 : ¬ dmax > b := by omega
    have h2 : ¬ dmax > RSIZE_MAX_MEM := by omega
    simp only [h1, h2, if_false]
  · unfold memrchr_s qChkM
    have h1 : ¬ dmax > b := by omega
    have h2 : ¬ dmax > RSIZE_MAX_MEM := by omega
    simp only [h1, h2, if_false]
  · unfold memcmp16_s memcmpG memcmpChecks
    have hm : RSIZE_MAX_MEM16 < 2^64 := by decide
    have e1 : dmax * 2 % 2^64 = dmax * 2 := Nat.mod_eq_of_lt (by omega)
    have h1 : ¬ dmax * 2 > b := by omega
    have h2 : ¬ dmax * 2 > RSIZE_MAX_MEM16 := by omega
    simp only [e1, h1, h2, if_false]
  · unfold memcmp32_s memcmpG memcmpChecks
    have hm : RSIZE_MAX_MEM32 * 4 < 2^32 := by decide
    have e1 : dmax * 4 % 2^32 = dmax * 4 := Nat.mod_eq_of_lt (by omega)
    have h1 : ¬ dmax * 4 > b := by omega
    have h2 : ¬ dmax > RSIZE_MAX_MEM32 := by omega
    simp only [e1, h1, h2, if_false]

/-- the wide queries (`b` in BYTES, `wchar_t` is 4 bytes; `wcscmp_s`/`wcsncmp_s` test `dmax` against
the narrow limit when the size is unknown) -/
theorem destbos_irrelevant_wide (dest dmax src smax count slen b : Nat) (srcbos : Bos)
    (hb : dmax * 4 ≤ b) (hle : dmax ≤ RSIZE_MAX_WSTR) :
    wcscmp_s dest dmax src smax (some b) srcbos = wcscmp_s dest dmax src smax none srcbos ∧
    wcsncmp_s dest dmax src smax count (some b) srcbos = wcsncmp_s dest dmax src smax count none srcbos ∧
    wcsstr_s dest dmax src slen (some b) srcbos = wcsstr_s dest dmax src slen none srcbos := by
  have hw : SIZEOF_WCHAR_T = 4 := rfl
  have hm : RSIZE_MAX_WSTR * 4 < two64 := by decide
  have hn : RSIZE_MAX_WSTR ≤ RSIZE_MAX_STR := by decide
  have e1 : dmax * 4 % two64 = dmax * 4 := Nat.mod_eq_of_lt (by omega)
  have h1 : ¬ dmax * 4 > b := by omega
  have h2 : ¬ dmax > RSIZE_MAX_STR := by omega
  have h3 : ¬ dmax > RSIZE_MAX_WSTR := by omega
  refine ⟨?_, ?_, ?_⟩
  · unfold wcscmp_s wcscmpG; simp only [hw, e1, h1, h2, if_false]
  · unfold wcsncmp_s wcscmpG; simp only [hw, e1, h1, h2, if_false]
  · unfold wcsstr_s; simp only [hw, e1, h1, h3, if_false]

example : ∃ dmax b : Nat, dmax ≤ b ∧ dmax ≤ RSIZE_MAX_STR ∧ 0 < dmax := ⟨4, 8, by decide, by decide, by decide⟩

end SafeC.Props.C10

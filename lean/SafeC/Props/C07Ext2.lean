import SafeC.Proofs.StpAll
import SafeC.Proofs.FldSteps
import SafeC.Proofs.CatOverlap
import SafeC.Props.C07Ext
/-!
# C07 (extension 2) — `stpcpy_s` / `stpncpy_s` and the field copies: every placement of `src` relative to `dest`

Setting of `Props/C07Ext.lean` (every cell mapped and readable, ARBITRARY contents, dest writable, usable sizes, `cfg`
arbitrary).  `g` = distance between the two pointers.

* `*_C07_overlap` — the copy would run into the other operand (first `g` source characters non-NUL, meeting point inside
  dest, `slen` reaches it): `(NULL, ESOVRLP)`, one handler call, dest cleared, nothing outside dest touched.  The source
  need not be terminated.
* `*_C07_exact` — for a source string: ESOVRLP is returned EXACTLY when the `c = min(m + 1, dmax)` cells starting at the
  two pointers — the cells the copy reads and writes, terminator included — meet.
* `*_disjoint_not_rejected` — disjoint operands (the `dmax` cells of dest, the source cells read) are never rejected.
  False of `stpncpy_s` when the `slen` source characters end exactly at dest (the cell `src + slen = dest` is not read,
  but the bumper test precedes the `slen == 0` test: `bounded-copy-src-ends-at-dest`): `_partial` + `_witness`.
* the field copies: ESOVRLP exactly when `slen ≤ dmax` and the cells copied meet.
-/
namespace SafeC.Props.C07
open SafeC Gen

/-- the distance between two different pointers -/
private theorem gap_of_ne (dest src : Nat) (hne : dest ≠ src) :
    ∃ g, 0 < g ∧ ((dest < src ∧ src = dest + g) ∨ (src < dest ∧ dest = src + g)) := by
  by_cases h : dest < src
  · exact ⟨src - dest, by omega, Or.inl ⟨h, by omega⟩⟩
  · exact ⟨dest - src, by omega, Or.inr ⟨by omega, by omega⟩⟩

/-- **stpcpy_s detects every overlap**: the first `g` source characters are non-NUL (`g` = pointer distance) and the
meeting point lies inside dest -/
theorem stpcpy_s_C07_overlap (cfg : Cfg) (dest dmax src g : Nat) (destbos srcbos : Bos) (st : St)
    (hall : ∀ a, st.mapped a = true ∧ st.rd a = true)
    (hd : dest ≠ 0) (hs : src ≠ 0) (hpos : 0 < dmax) (hle : dmax ≤ RSIZE_MAX_STR)
    (hb : ∀ b, destbos = some b → dmax ≤ b) (hsb : ∀ sb, srcbos = some sb → g < sb)
    (hrw : RW st dest dmax)
    (hg : 0 < g ∧ ((dest < src ∧ src = dest + g) ∨ (src < dest ∧ dest = src + g)))
    (hgd : g < dmax) (hnz : ∀ j, j < g → st.data (src + j) ≠ 0) :
    ∃ st', exec (stpcpy_s cfg dest dmax src destbos srcbos) st = .ok ((0, ESOVRLP), st') ∧
      OvrlpPost cfg dest dmax st st' := by
  rw [stpcpy_s_eq_body cfg dest dmax src destbos srcbos hd hs hpos hle hb]
  obtain ⟨st', he, hp⟩ := stpBody_overlap cfg false dest dmax src g 0 srcbos st hall hpos hrw hg hgd hnz
    (fun h => absurd h (by decide))
    (by
      intro i hi
      refine untermB_false _ _ (fun sb h => ?_)
      have := hsb sb h
      simp only [stpSlen, Bool.false_eq_true, if_false]; omega)
  exact ⟨st', he, hp.ovrlp⟩

/-- **stpncpy_s detects every overlap**: as above, and `slen` reaches the meeting point (`g ≤ slen`) -/
theorem stpncpy_s_C07_overlap (cfg : Cfg) (dest dmax src slen g : Nat) (destbos srcbos : Bos) (st : St)
    (hall : ∀ a, st.mapped a = true ∧ st.rd a = true)
    (hd : dest ≠ 0) (hs : src ≠ 0) (hpos : 0 < dmax) (hle : dmax ≤ RSIZE_MAX_STR) (hslenle : slen ≤ RSIZE_MAX_STR)
    (hb : ∀ b, destbos = some b → dmax ≤ b) (hsb : ∀ sb, srcbos = some sb → slen ≤ sb)
    (hrw : RW st dest dmax)
    (hg : 0 < g ∧ ((dest < src ∧ src = dest + g) ∨ (src < dest ∧ dest = src + g)))
    (hgd : g < dmax) (hgs : g ≤ slen) (hnz : ∀ j, j < g → st.data (src + j) ≠ 0) :
    ∃ st', exec (stpncpy_s cfg dest dmax src slen destbos srcbos) st = .ok ((0, ESOVRLP), st') ∧
      OvrlpPost cfg dest dmax st st' := by
  rw [stpncpy_s_eq_body cfg dest dmax src slen destbos srcbos hd hs hpos hle hslenle hb hsb]
  obtain ⟨st', he, hp⟩ := stpBody_overlap cfg true dest dmax src g slen srcbos st hall hpos hrw hg hgd hnz
    (fun _ => hgs)
    (by
      intro i hi
      refine untermB_false _ _ (fun sb h => ?_)
      have := hsb sb h
      simp only [stpSlen, if_true]; omega)
  exact ⟨st', he, hp.ovrlp⟩

/-- **stpcpy_s: ESOVRLP exactly when the cells copied meet** — source string of length `n` at any address ≠ dest;
`c = min (n+1) dmax` cells are read and written (terminator included, capped by `dmax`) -/
theorem stpcpy_s_C07_exact (cfg : Cfg) (dest dmax src n : Nat) (destbos srcbos : Bos) (st : St)
    (hall : ∀ a, st.mapped a = true ∧ st.rd a = true)
    (hd : dest ≠ 0) (hs : src ≠ 0) (hne : dest ≠ src) (hpos : 0 < dmax) (hle : dmax ≤ RSIZE_MAX_STR)
    (hb : ∀ b, destbos = some b → dmax ≤ b) (hsb : ∀ sb, srcbos = some sb → n < sb)
    (hrw : RW st dest dmax)
    (hnz : ∀ j, j < n → st.data (src + j) ≠ 0) (hnul : st.data (src + n) = 0) :
    ∃ r st', exec (stpcpy_s cfg dest dmax src destbos srcbos) st = .ok (r, st') ∧
      (r.2 = ESOVRLP ↔ ¬ (dest + min (n+1) dmax ≤ src ∨ src + min (n+1) dmax ≤ dest)) ∧
      (r.2 = ESOVRLP → r.1 = 0 ∧ OvrlpPost cfg dest dmax st st') := by
  obtain ⟨g, hg⟩ := gap_of_ne dest src hne
  rw [stpcpy_s_eq_body cfg dest dmax src destbos srcbos hd hs hpos hle hb]
  obtain ⟨r, st', he, hp⟩ := stpBody_cases cfg false dest dmax src n g 0 srcbos st hall hpos hrw hg hnz
    (Or.inl ⟨fun h => absurd h (by decide), hnul⟩)
    (by
      intro i hi
      refine untermB_false _ _ (fun sb h => ?_)
      have := hsb sb h
      simp only [stpSlen, Bool.false_eq_true, if_false]; omega)
  have hiff := hp.ovrlp_iff hg.1
  refine ⟨r, st', he, ⟨fun hc => by have := hiff.1 hc; omega, fun h => hiff.2 (by omega)⟩, fun hc => ?_⟩
  obtain ⟨h1, h2⟩ := hiff.1 hc
  obtain ⟨hr, hcl⟩ := hp.hit h1 h2
  subst hr
  exact ⟨rfl, hcl.ovrlp⟩

/-- **stpncpy_s: ESOVRLP exactly when the `min (m+1) dmax` cells starting at the two pointers meet**, `m` = number of
characters copied.  (When `slen = m` runs out the last of these source cells, `src + m`, is NOT read: for
`src + m = dest` this is the rejection of disjoint operands of `stpncpy_s_disjoint_not_rejected_witness`.) -/
theorem stpncpy_s_C07_exact (cfg : Cfg) (dest dmax src slen m : Nat) (destbos srcbos : Bos) (st : St)
    (hall : ∀ a, st.mapped a = true ∧ st.rd a = true)
    (hd : dest ≠ 0) (hs : src ≠ 0) (hne : dest ≠ src) (hpos : 0 < dmax) (hle : dmax ≤ RSIZE_MAX_STR)
    (hslenle : slen ≤ RSIZE_MAX_STR)
    (hb : ∀ b, destbos = some b → dmax ≤ b) (hsb : ∀ sb, srcbos = some sb → slen ≤ sb)
    (hrw : RW st dest dmax)
    (hnz : ∀ j, j < m → st.data (src + j) ≠ 0)
    (hfin : (m < slen ∧ st.data (src + m) = 0) ∨ slen = m) :
    ∃ r st', exec (stpncpy_s cfg dest dmax src slen destbos srcbos) st = .ok (r, st') ∧
      (r.2 = ESOVRLP ↔ ¬ (dest + min (m+1) dmax ≤ src ∨ src + min (m+1) dmax ≤ dest)) ∧
      (r.2 = ESOVRLP → r.1 = 0 ∧ OvrlpPost cfg dest dmax st st') := by
  obtain ⟨g, hg⟩ := gap_of_ne dest src hne
  rw [stpncpy_s_eq_body cfg dest dmax src slen destbos srcbos hd hs hpos hle hslenle hb hsb]
  have hm : m ≤ slen := by rcases hfin with h | h <;> omega
  obtain ⟨r, st', he, hp⟩ := stpBody_cases cfg true dest dmax src m g slen srcbos st hall hpos hrw hg hnz
    (hfin.elim (fun h => Or.inl ⟨fun _ => h.1, h.2⟩) (fun h => Or.inr ⟨rfl, h⟩))
    (by
      intro i hi
      refine untermB_false _ _ (fun sb h => ?_)
      have := hsb sb h
      simp only [stpSlen, if_true]; omega)
  have hiff := hp.ovrlp_iff hg.1
  refine ⟨r, st', he, ⟨fun hc => by have := hiff.1 hc; omega, fun h => hiff.2 (by omega)⟩, fun hc => ?_⟩
  obtain ⟨h1, h2⟩ := hiff.1 hc
  obtain ⟨hr, hcl⟩ := hp.hit h1 h2
  subst hr
  exact ⟨rfl, hcl.ovrlp⟩

/-- **stpcpy_s never rejects disjoint operands** (only the declared extents mapped / readable here) -/
theorem stpcpy_s_disjoint_not_rejected (cfg : Cfg) (dest dmax src n : Nat) (destbos srcbos : Bos) (st : St)
    (hd : dest ≠ 0) (hs : src ≠ 0) (hpos : 0 < dmax) (hle : dmax ≤ RSIZE_MAX_STR)
    (hb : ∀ b, destbos = some b → dmax ≤ b) (hsb : ∀ sb, srcbos = some sb → n < sb)
    (hrw : RW st dest dmax) (hsrc : SrcStr st src n) (hdisj : Disjoint dest dmax src n) :
    ∃ r st', exec (stpcpy_s cfg dest dmax src destbos srcbos) st = .ok (r, st') ∧ r.2 ≠ ESOVRLP := by
  obtain ⟨r, st', he, _, _, _, _, _, hok, hfail⟩ :=
    stpcpy_s_disjoint cfg dest dmax src n destbos srcbos st hd hs hpos hle hb hsb hrw hsrc hdisj
  refine ⟨r, st', he, ?_⟩
  by_cases h : n < dmax
  · rw [(hok h).1]; exact (by decide : EOK ≠ ESOVRLP)
  · rw [(hfail (by omega)).1]; decide

/- FULL statement (false of the model): `hdisj : dest + dmax ≤ src ∨ src + m < dest ∨ (slen = m ∧ src + m ≤ dest)`. -/

/-- **stpncpy_s never rejects disjoint operands** (`m` = number of characters copied), except for a source whose
`slen` characters end exactly at dest -/
theorem stpncpy_s_disjoint_not_rejected_partial (cfg : Cfg) (dest dmax src slen m : Nat) (destbos srcbos : Bos) (st : St)
    (hd : dest ≠ 0) (hs : src ≠ 0) (hpos : 0 < dmax) (hle : dmax ≤ RSIZE_MAX_STR) (hslenle : slen ≤ RSIZE_MAX_STR)
    (hb : ∀ b, destbos = some b → dmax ≤ b) (hsb : ∀ sb, srcbos = some sb → slen ≤ sb)
    (hrw : RW st dest dmax)
    (hnz : ∀ j, j < m → st.data (src+j) ≠ 0)
    (hrd : ∀ j, j < m → st.mapped (src+j) = true ∧ st.rd (src+j) = true)
    (hfin : (m < slen ∧ st.data (src+m) = 0 ∧ st.mapped (src+m) = true ∧ st.rd (src+m) = true) ∨ slen = m)
    (hdisj : dest + dmax ≤ src ∨ src + m < dest) :
    ∃ r st', exec (stpncpy_s cfg dest dmax src slen destbos srcbos) st = .ok (r, st') ∧ r.2 ≠ ESOVRLP := by
  obtain ⟨r, st', he, _, _, _, _, _, hok, hfail⟩ :=
    stpncpy_s_disjoint cfg dest dmax src slen m destbos srcbos st hd hs hpos hle hslenle hb hsb hrw hnz hrd hfin hdisj
  refine ⟨r, st', he, ?_⟩
  by_cases h : m < dmax
  · rw [(hok h).1]; exact (by decide : EOK ≠ ESOVRLP)
  · rw [(hfail (by omega)).1]; decide

/-- the `*errp` of a run of the stp pair -/
def retErr (r : Except Fault ((Nat × Nat) × St)) : Option Nat :=
  match r with
  | .ok (p, _) => some p.2
  | .error _ => none

/-- the excluded point: `stpncpy_s(a+5, 2, a+4, 1)` — disjoint (`src + slen = dest`), rejected with ESOVRLP
(**listed**: `bounded-copy-src-ends-at-dest`) -/
theorem stpncpy_s_disjoint_not_rejected_witness :
    (104 : Nat) + 1 ≤ 105 ∧ retErr (exec (stpncpy_s { slack := true } 105 2 104 1 none none) endSt) = some ESOVRLP := by
  decide

/-- non-vacuity of the overlap theorems: `stpcpy_s(a, 4, a+2)` with `a+2 = "xy…"`: g = 2 < dmax -/
example : ∃ st : St, (∀ a, st.mapped a = true ∧ st.rd a = true) ∧ RW st 100 4 ∧
    (0 < 2 ∧ (((100:Nat) < 102 ∧ 102 = 100 + 2) ∨ ((102:Nat) < 100 ∧ 100 = 102 + 2))) ∧
    (∀ j, j < 2 → st.data (102 + j) ≠ 0) :=
  ⟨{ data := fun _ => 7, mapped := fun _ => true, rd := fun _ => true, wr := fun _ => true },
   fun _ => ⟨rfl, rfl⟩, fun _ _ => ⟨rfl, rfl, rfl⟩, ⟨by decide, Or.inl ⟨by decide, rfl⟩⟩, fun _ _ => (by decide : (7 : Nat) ≠ 0)⟩

/-! ## the field copies -/

private theorem ovrlpPost_of_fld {kind : FldKind} {cfg : Cfg} {dest dmax src slen : Nat} {st st' : St}
    (hp : FldPost kind cfg dest dmax src slen st st' ESOVRLP) : OvrlpPost cfg dest dmax st st' :=
  ⟨hp.safe.strays, hp.safe.fail_events ESOVRLP_ne_EOK, hp.fail_first ESOVRLP_ne_EOK,
    hp.fail_clear (Or.inr rfl), hp.safe.frame⟩

/-- **strcpyfld_s**: ESOVRLP exactly when `slen ≤ dmax` and the `slen` cells read and the `slen` cells written meet
(so disjoint operands are never rejected); then one handler call, dest cleared, nothing outside dest changed -/
theorem strcpyfld_s_C07 (cfg : Cfg) (dest dmax src slen : Nat) (destbos : Bos) (st : St)
    (hall : ∀ a, st.mapped a = true ∧ st.rd a = true) (hrw : RW st dest dmax)
    (hd : dest ≠ 0) (hpos : 0 < dmax) (hle : dmax ≤ RSIZE_MAX_STR) (hbos : ∀ b, destbos = some b → dmax ≤ b)
    (hsl : slen ≠ 0) (hs : src ≠ 0) :
    ∃ code st', exec (strcpyfld_s cfg dest dmax src slen destbos) st = .ok (code, st') ∧
      (code = ESOVRLP ↔ slen ≤ dmax ∧ ¬ (dest + slen ≤ src ∨ src + slen ≤ dest)) ∧
      (code = ESOVRLP → OvrlpPost cfg dest dmax st st') := by
  unfold strcpyfld_s
  rw [fldG_entry _ cfg dest dmax src slen destbos hsl hd hpos hle hbos]
  obtain ⟨code, st', he, hp, _, h2, _⟩ := fldBody_fld_all cfg dest dmax src slen st hall hrw hd hpos hle hs
  exact ⟨code, st', he, h2, fun hc => by subst hc; exact ovrlpPost_of_fld hp⟩

/-- **strcpyfldout_s**: ESOVRLP exactly when `slen ≤ dmax` and the `min slen (dmax-1)` cells copied meet -/
theorem strcpyfldout_s_C07 (cfg : Cfg) (dest dmax src slen : Nat) (destbos : Bos) (st : St)
    (hall : ∀ a, st.mapped a = true ∧ st.rd a = true) (hrw : RW st dest dmax)
    (hd : dest ≠ 0) (hpos : 0 < dmax) (hle : dmax ≤ RSIZE_MAX_STR) (hbos : ∀ b, destbos = some b → dmax ≤ b)
    (hsl : slen ≠ 0) (hs : src ≠ 0) :
    ∃ code st', exec (strcpyfldout_s cfg dest dmax src slen destbos) st = .ok (code, st') ∧
      (code = ESOVRLP ↔ slen ≤ dmax ∧ ¬ (dest + min slen (dmax - 1) ≤ src ∨ src + min slen (dmax - 1) ≤ dest)) ∧
      (code = ESOVRLP → OvrlpPost cfg dest dmax st st') := by
  unfold strcpyfldout_s
  rw [fldG_entry _ cfg dest dmax src slen destbos hsl hd hpos hle hbos]
  obtain ⟨code, st', he, hp, _, h2, _⟩ := fldBody_fldout_all cfg dest dmax src slen st hall hrw hd hpos hle hs
  exact ⟨code, st', he, h2, fun hc => by subst hc; exact ovrlpPost_of_fld hp⟩

/-- **strcpyfldin_s**, `n` = number of leading non-NUL source characters capped by `slen`: ESOVRLP exactly when
`slen ≤ dmax` and the cells read — the `n` characters and, unless `slen` ran out, the terminator `src[n]` — meet the
`n` cells written.  (`src + n = dest` with `n < slen`: the terminator of the source IS `dest[0]`, overwritten before it
is tested: ESOVRLP, `fldBody_fldin_overlap_lt`.) -/
theorem strcpyfldin_s_C07 (cfg : Cfg) (dest dmax src slen n : Nat) (destbos : Bos) (st : St)
    (hall : ∀ a, st.mapped a = true ∧ st.rd a = true) (hrw : RW st dest dmax)
    (hd : dest ≠ 0) (hpos : 0 < dmax) (hle : dmax ≤ RSIZE_MAX_STR) (hbos : ∀ b, destbos = some b → dmax ≤ b)
    (hsl : slen ≠ 0) (hs : src ≠ 0)
    (hn : n ≤ slen) (hnz : ∀ j, j < n → st.data (src + j) ≠ 0) (hend : n = slen ∨ st.data (src + n) = 0) :
    ∃ code st', exec (strcpyfldin_s cfg dest dmax src slen destbos) st = .ok (code, st') ∧
      (code = ESOVRLP ↔ slen ≤ dmax ∧ ¬ (dest + n ≤ src ∨ src + n < dest ∨ (src + n = dest ∧ n = slen))) ∧
      (code = ESOVRLP → OvrlpPost cfg dest dmax st st') := by
  unfold strcpyfldin_s
  rw [fldG_entry _ cfg dest dmax src slen destbos hsl hd hpos hle hbos]
  obtain ⟨code, st', he, hp, _, h2, _⟩ :=
    fldBody_fldin_all cfg dest dmax src slen n st hall hrw hd hpos hle hs hn hnz hend
  exact ⟨code, st', he, h2, fun hc => by subst hc; exact ovrlpPost_of_fld hp⟩

/-- non-vacuity of the field-copy theorems: dest = 4 cells at 100, src = 101 (inside dest) holding 7 7 …, slen = 2 -/
example : ∃ st : St, (∀ a, st.mapped a = true ∧ st.rd a = true) ∧ RW st 100 4 ∧ (2 : Nat) ≠ 0 ∧ (101 : Nat) ≠ 0 ∧
    (∀ j, j < 2 → st.data (101 + j) ≠ 0) ∧ ((2 : Nat) = 2 ∨ st.data (101 + 2) = 0) :=
  ⟨{ data := fun _ => 7, mapped := fun _ => true, rd := fun _ => true, wr := fun _ => true },
   fun _ => ⟨rfl, rfl⟩, fun _ _ => ⟨rfl, rfl, rfl⟩, by decide, by decide, fun _ _ => (by decide : (7 : Nat) ≠ 0), Or.inl rfl⟩

/-! ## the concatenations `strncat_s` / `wcsncat_s`: the overlap is detected wherever it is met

dest holds a string of length `dl < dmax`.  The operands meet in one of three ways: src lies inside the dest string (its
terminator included) — found while `findEnd` scans dest, or at the first test of the copy loop; src lies in the room
behind the string and the characters appended reach it; the source (at or below dest) runs into dest.  In each case
ESOVRLP, one handler call, dest cleared, nothing outside dest touched. -/

/-- **strncat_s detects every overlap** -/
theorem strncat_s_overlap (cfg : Cfg) (dest dmax src slen dl : Nat) (st : St)
    (hall : ∀ a, st.mapped a = true ∧ st.rd a = true)
    (hd : dest ≠ 0) (hs : src ≠ 0) (hpos : 0 < dmax) (hle : dmax ≤ RSIZE_MAX_STR)
    (hslen : 0 < slen) (hslenle : slen ≤ RSIZE_MAX_STR) (hrw : RW st dest dmax)
    (hdl : dl < dmax) (hdnz : ∀ j, j < dl → st.data (dest+j) ≠ 0) (hdnul : st.data (dest+dl) = 0)
    (hov : (dest < src ∧ src ≤ dest + dl) ∨
      (dest + dl < src ∧ src < dest + dmax ∧ src - (dest + dl) ≤ slen ∧
        ∀ j, j < src - (dest + dl) → st.data (src + j) ≠ 0) ∨
      (src ≤ dest ∧ dest - src < dmax - dl ∧ dest - src ≤ slen ∧ ∀ j, j < dest - src → st.data (src + j) ≠ 0)) :
    ∃ st', exec (strncat_s cfg dest dmax src slen none none) st = .ok (ESOVRLP, st') ∧ OvrlpPost cfg dest dmax st st' :=
  strncatG_overlap _ cfg dest dmax src slen dl st hall hd hs hpos hle hslen hslenle hrw hdl hdnz hdnul hov

/-- **wcsncat_s detects every overlap** -/
theorem wcsncat_s_overlap (cfg : Cfg) (dest dmax src slen dl : Nat) (st : St)
    (hall : ∀ a, st.mapped a = true ∧ st.rd a = true)
    (hd : dest ≠ 0) (hs : src ≠ 0) (hpos : 0 < dmax) (hle : dmax ≤ RSIZE_MAX_WSTR)
    (hslen : 0 < slen) (hslenle : slen ≤ RSIZE_MAX_WSTR) (hrw : RW st dest dmax)
    (hdl : dl < dmax) (hdnz : ∀ j, j < dl → st.data (dest+j) ≠ 0) (hdnul : st.data (dest+dl) = 0)
    (hov : (dest < src ∧ src ≤ dest + dl) ∨
      (dest + dl < src ∧ src < dest + dmax ∧ src - (dest + dl) ≤ slen ∧
        ∀ j, j < src - (dest + dl) → st.data (src + j) ≠ 0) ∨
      (src ≤ dest ∧ dest - src < dmax - dl ∧ dest - src ≤ slen ∧ ∀ j, j < dest - src → st.data (src + j) ≠ 0)) :
    ∃ st', exec (wcsncat_s cfg dest dmax src slen none none) st = .ok (ESOVRLP, st') ∧ OvrlpPost cfg dest dmax st st' := by
  rw [wcsncat_s_eq cfg dest dmax src slen hle hslenle (by omega)]
  exact strncatG_overlap _ cfg dest dmax src slen dl st hall hd hs hpos hle hslen hslenle hrw hdl hdnz hdnul hov

/-- **strcat_s detects every overlap** (unbounded: the characters appended are the whole source string) -/
theorem strcat_s_overlap (cfg : Cfg) (dest dmax src dl : Nat) (st : St)
    (hall : ∀ a, st.mapped a = true ∧ st.rd a = true)
    (hd : dest ≠ 0) (hs : src ≠ 0) (hpos : 0 < dmax) (hle : dmax ≤ RSIZE_MAX_STR) (hrw : RW st dest dmax)
    (hdl : dl < dmax) (hdnz : ∀ j, j < dl → st.data (dest+j) ≠ 0) (hdnul : st.data (dest+dl) = 0)
    (hov : (dest < src ∧ src ≤ dest + dl) ∨
      (dest + dl < src ∧ src < dest + dmax ∧ ∀ j, j < src - (dest + dl) → st.data (src + j) ≠ 0) ∨
      (src ≤ dest ∧ dest - src < dmax - dl ∧ ∀ j, j < dest - src → st.data (src + j) ≠ 0)) :
    ∃ st', exec (strcat_s cfg dest dmax src none) st = .ok (ESOVRLP, st') ∧ OvrlpPost cfg dest dmax st st' :=
  strcatG_overlap _ cfg dest dmax src dl st hall hd hs hpos hle hrw hdl hdnz hdnul hov

/-- **wcscat_s detects every overlap** -/
theorem wcscat_s_overlap (cfg : Cfg) (dest dmax src dl : Nat) (st : St)
    (hall : ∀ a, st.mapped a = true ∧ st.rd a = true)
    (hd : dest ≠ 0) (hs : src ≠ 0) (hpos : 0 < dmax) (hle : dmax ≤ RSIZE_MAX_WSTR) (hrw : RW st dest dmax)
    (hdl : dl < dmax) (hdnz : ∀ j, j < dl → st.data (dest+j) ≠ 0) (hdnul : st.data (dest+dl) = 0)
    (hov : (dest < src ∧ src ≤ dest + dl) ∨
      (dest + dl < src ∧ src < dest + dmax ∧ ∀ j, j < src - (dest + dl) → st.data (src + j) ≠ 0) ∨
      (src ≤ dest ∧ dest - src < dmax - dl ∧ ∀ j, j < dest - src → st.data (src + j) ≠ 0)) :
    ∃ st', exec (wcscat_s cfg dest dmax src none) st = .ok (ESOVRLP, st') ∧ OvrlpPost cfg dest dmax st st' := by
  rw [wcscat_s_eq]
  exact strcatG_overlap _ cfg dest dmax src dl st hall hd hs hpos hle hrw hdl hdnz hdnul hov

/-- non-vacuity: `strncat_s(a, 8, a+1, 3)` with `a = "xyz"` (dl = 3): src inside the dest string -/
example : ∃ st : St, (∀ a, st.mapped a = true ∧ st.rd a = true) ∧ RW st 100 8 ∧
    (∀ j, j < 3 → st.data (100 + j) ≠ 0) ∧ st.data (100 + 3) = 0 ∧ ((100 : Nat) < 101 ∧ 101 ≤ 100 + 3) :=
  ⟨{ data := fun a => if a < 103 then 7 else 0, mapped := fun _ => true, rd := fun _ => true, wr := fun _ => true },
   fun _ => ⟨rfl, rfl⟩, fun _ _ => ⟨rfl, rfl, rfl⟩,
   fun j hj => by
     have h : 100 + j < 103 := by omega
     simp [h],
   by decide, by decide⟩

end SafeC.Props.C07

import SafeC.Proofs.Footprint
import SafeC.Proofs.AccMem
import SafeC.Proofs.AccFld
import SafeC.Proofs.AccTok
import SafeC.Proofs.AccJustify
import SafeC.Proofs.AccQueryEntry
/-!
# C12, third part — the footprints of the modelled calls are their operands

For every entry point that has an access-footprint theorem (`Acc`: all loaded values; `AccD` / `AccS`: the
contents at the call) the total run from ANY memory `s` — nothing is assumed about mapping or permissions —
loads only from the operands the caller passes as readable and stores only to the destination operand
(`Within2 R W`).  `Obj p n` are the `n` cells of the object at the non-null pointer `p`; `Str s.data p n`
the cells of the string at `p` up to and including its terminator, cut at `n` cells (the footprint then
depends on the contents of the memory at the call, as it must for `while (*p && n)` loops).

With `C12N.reentrant_n` / `C12N.interleaving_is_sequential` any pool of such calls — different functions
may be mixed, the pool may be of any size — whose destination operands are pairwise disjoint and disjoint
from the other calls' source operands behaves, under every schedule, as if each call ran alone; sources may
be shared.  `memcpy_s_reentrant_n`, `strtok_s_reentrant_n`, `mixed_calls_reentrant` spell this out.
-/
namespace SafeC.Props.C12Fp
open SafeC Gen Mem

/-- the `n` cells of the object at the non-null pointer `p` -/
def Obj (p n : Nat) (a : Nat) : Prop := p ≠ 0 ∧ Cells p n a

def None' (_ : Nat) : Prop := False

/-! ## memory family (`Models/Mem.lean`): value-independent footprints -/

theorem memcpy_s_fp (dest dmax src slen : Nat) (db sb : Bos) (hU : db = none ∨ slen % U32 ≠ 0) (s : St) :
    Within2 (fun a => slen ≤ dmax ∧ Obj src slen a) (Obj dest dmax) (memcpy_s dest dmax src slen db sb) s :=
  Acc.within2 (Q := fun _ => True) (Acc_memcpy_s dest dmax src slen db sb hU (fun h1 h2 _ ha => ⟨h2, h1, ha⟩) (fun h _ ha => ⟨h, ha⟩)) s

theorem memmove_s_fp (dest dmax src slen : Nat) (db sb : Bos) (hU : db = none ∨ slen % U32 ≠ 0) (s : St) :
    Within2 (fun a => slen ≤ dmax ∧ Obj src slen a) (Obj dest dmax) (memmove_s dest dmax src slen db sb) s :=
  Acc.within2 (Q := fun _ => True) (Acc_memmove_s dest dmax src slen db sb hU (fun h1 h2 _ ha => ⟨h2, h1, ha⟩) (fun h _ ha => ⟨h, ha⟩)) s

theorem memset_s_fp (dest dmax value n : Nat) (db : Bos) (s : St) :
    Within2 None' (Obj dest (db.getD dmax)) (memset_s dest dmax value n db) s :=
  Acc.within2 (Q := fun _ => True) (Acc_memset_s dest dmax value n db (fun h _ ha => ⟨h, ha⟩)) s

theorem memzero_s_fp (dest len : Nat) (db : Bos) (s : St) :
    Within2 None' (Obj dest len) (memzero_s dest len db) s :=
  Acc.within2 (Q := fun _ => True) (Acc_memzero_s dest len db (fun h _ ha => ⟨h, ha⟩)) s

theorem memccpy_s_fp (cfg : Cfg) (dest dmax src c n : Nat) (db sb : Bos) (s : St) :
    Within2 (fun a => (n ≤ dmax ∧ Obj src n a) ∨ Obj dest dmax a) (Obj dest dmax)
      (memccpy_s cfg dest dmax src c n db sb) s :=
  Acc.within2 (Q := fun _ => True) (Acc_memccpy_s cfg dest dmax src c n db sb (fun h1 h2 _ ha => Or.inl ⟨h2, h1, ha⟩)
    (fun h _ ha => Or.inr ⟨h, ha⟩) (fun h _ ha => ⟨h, ha⟩)) s

theorem memzero16_s_fp (dest len : Nat) (db : Bos) (s : St) :
    Within2 None' (Obj dest len) (memzero16_s dest len db) s :=
  Acc.within2 (Q := fun _ => True) (Acc_memzero16_s dest len db (fun h _ ha => ⟨h, ha⟩)) s

theorem memzero32_s_fp (dest len : Nat) (db : Bos) (s : St) :
    Within2 None' (Obj dest len) (memzero32_s dest len db) s :=
  Acc.within2 (Q := fun _ => True) (Acc_memzero32_s dest len db (fun h _ ha => ⟨h, ha⟩)) s

theorem memset16_s_fp (dest dmax value n : Nat) (db : Bos) (s : St) :
    Within2 None' (Obj dest (db.getD dmax / 2)) (memset16_s dest dmax value n db) s :=
  Acc.within2 (Q := fun _ => True) (Acc_memset16_s dest dmax value n db (fun h _ ha => ⟨h, ha⟩)) s

theorem memset32_s_fp (dest dmax value n : Nat) (db : Bos) (s : St) :
    Within2 None' (Obj dest (db.getD dmax / 4)) (memset32_s dest dmax value n db) s :=
  Acc.within2 (Q := fun _ => True) (Acc_memset32_s dest dmax value n db (fun h _ ha => ⟨h, ha⟩)) s

theorem memcpy16_s_fp (dest dmax src slen : Nat) (db sb : Bos) (s : St) :
    Within2 (fun a => Obj src slen a ∨ Obj dest ((db.getD dmax + 1) / 2) a) (Obj dest ((db.getD dmax + 1) / 2))
      (memcpy16_s dest dmax src slen db sb) s :=
  Acc.within2 (Q := fun _ => True) (Acc_memcpy16_s dest dmax src slen db sb (fun h _ ha => Or.inl ⟨h, ha⟩) (fun h _ ha => Or.inr ⟨h, ha⟩)
    (fun h _ ha => ⟨h, ha⟩)) s

theorem memcpy32_s_fp (dest dmax src slen : Nat) (db sb : Bos) (s : St) :
    Within2 (fun a => Obj src slen a ∨ Obj dest ((db.getD dmax + 3) / 4) a) (Obj dest ((db.getD dmax + 3) / 4))
      (memcpy32_s dest dmax src slen db sb) s :=
  Acc.within2 (Q := fun _ => True) (Acc_memcpy32_s dest dmax src slen db sb (fun h _ ha => Or.inl ⟨h, ha⟩) (fun h _ ha => Or.inr ⟨h, ha⟩)
    (fun h _ ha => ⟨h, ha⟩)) s

theorem memmove16_s_fp (dest dmax src slen : Nat) (db sb : Bos) (s : St) :
    Within2 (fun a => Obj src slen a ∨ Obj dest ((db.getD dmax + 1) / 2) a) (Obj dest ((db.getD dmax + 1) / 2))
      (memmove16_s dest dmax src slen db sb) s :=
  Acc.within2 (Q := fun _ => True) (Acc_memmove16_s dest dmax src slen db sb (fun h _ ha => Or.inl ⟨h, ha⟩) (fun h _ ha => Or.inr ⟨h, ha⟩)
    (fun h _ ha => ⟨h, ha⟩)) s

theorem memmove32_s_fp (dest dmax src slen : Nat) (db sb : Bos) (s : St) :
    Within2 (fun a => Obj src slen a ∨ Obj dest ((db.getD dmax + 3) / 4) a) (Obj dest ((db.getD dmax + 3) / 4))
      (memmove32_s dest dmax src slen db sb) s :=
  Acc.within2 (Q := fun _ => True) (Acc_memmove32_s dest dmax src slen db sb (fun h _ ha => Or.inl ⟨h, ha⟩) (fun h _ ha => Or.inr ⟨h, ha⟩)
    (fun h _ ha => ⟨h, ha⟩)) s

theorem wmemcpy_s_fp (dest dlen src count : Nat) (db sb : Bos) (s : St) :
    Within2 (Obj src count) (Obj dest dlen) (wmemcpy_s dest dlen src count db sb) s :=
  Acc.within2 (Q := fun _ => True) (Acc_wmemcpy_s dest dlen src count db sb (fun h _ ha => ⟨h, ha⟩) (fun h _ ha => ⟨h, ha⟩)) s

theorem wmemmove_s_fp (dest dlen src count : Nat) (db sb : Bos) (s : St) :
    Within2 (Obj src count) (Obj dest dlen) (wmemmove_s dest dlen src count db sb) s :=
  Acc.within2 (Q := fun _ => True) (Acc_wmemmove_s dest dlen src count db sb (fun h _ ha => ⟨h, ha⟩) (fun h _ ha => ⟨h, ha⟩)) s

/-! ## field copies (`Models/Fld.lean`): strcpyfld_s, strcpyfldin_s, strcpyfldout_s -/

theorem fld_fp (kind : FldKind) (cfg : Cfg) (dest dmax src slen : Nat) (b : Bos) (s : St) :
    Within2 (fun a => Obj src slen a ∨ Obj dest dmax a) (Obj dest dmax) (fldG kind cfg dest dmax src slen b) s :=
  Acc.within2 (Q := fun _ => True) (Acc_fldG kind cfg dest dmax src slen b (fun h _ ha => Or.inl ⟨h, ha⟩) (fun h _ ha => Or.inr ⟨h, ha⟩)
    (fun h _ ha => ⟨h, ha⟩)) s

/-! ## counter-bounded queries and in-place functions: read-only or destination only -/

theorem strnlen_s_fp (str smax : Nat) (b : Bos) (s : St) :
    Within2 (Obj str smax) None' (strnlen_s str smax b) s :=
  Acc.within2 (Q := fun r => r ≤ smax) (Acc_strnlen_s_le str smax b (fun h _ ha => ⟨h, ha⟩)) s

theorem memrchr_s_fp (dest dmax : Nat) (ch : Int) (b : Bos) (s : St) :
    Within2 (Obj dest dmax) None' (memrchr_s dest dmax ch b) s :=
  Acc.within2 (Q := fun _ => True) (Acc_memrchr_s dest dmax ch b (fun h _ ha => ⟨h, ha⟩)) s

theorem strrchr_s_fp (dest dmax : Nat) (ch : Int) (b : Bos) (s : St) :
    Within2 (Obj dest dmax) None' (strrchr_s dest dmax ch b) s :=
  Acc.within2 (Q := fun _ => True) (Acc_strrchr_s dest dmax ch b (fun h _ ha => ⟨h, ha⟩)) s

theorem wmemcmp_s_fp (dest dlen src slen : Nat) (db sb : Bos) (s : St) :
    Within2 (fun a => (slen ≤ dlen ∧ Obj dest slen a) ∨ Obj src slen a) None' (wmemcmp_s dest dlen src slen db sb) s :=
  Acc.within2 (Q := fun _ => True) (Acc_wmemcmp_s dest dlen src slen db sb (fun h1 h2 _ ha => Or.inl ⟨h2, h1, ha⟩)
    (fun h _ ha => Or.inr ⟨h, ha⟩)) s

theorem timingsafe_bcmp_fp (b1 b2 n : Nat) (db sb : Bos) (s : St) :
    Within2 (fun a => Cells b1 n a ∨ Cells b2 n a) None' (timingsafe_bcmp b1 b2 n db sb) s :=
  Acc.within2 (Q := fun _ => True) (Acc_timingsafe_bcmp b1 b2 n db sb (fun _ ha => Or.inl ha) (fun _ ha => Or.inr ha)) s

theorem timingsafe_memcmp_fp (b1 b2 n : Nat) (db sb : Bos) (s : St) :
    Within2 (fun a => Cells b1 n a ∨ Cells b2 n a) None' (timingsafe_memcmp b1 b2 n db sb) s :=
  Acc.within2 (Q := fun _ => True) (Acc_timingsafe_memcmp b1 b2 n db sb (fun _ ha => Or.inl ha) (fun _ ha => Or.inr ha)) s

theorem strnterminate_s_fp (cfg : Cfg) (dest dmax : Nat) (b : Bos) (s : St) :
    Within2 (Obj dest (dmax - 1)) (Obj dest dmax) (strnterminate_s cfg dest dmax b) s :=
  Acc.within2 (Q := fun _ => True) (Acc_strnterminate_s cfg dest dmax b (fun h _ ha => ⟨h, ha⟩) (fun h _ ha => ⟨h, ha⟩)) s

/-! ## tokenizers and strljustify_s: the footprint depends on the contents at the call (`AccS`) -/

/-- the cells of the string at the non-null pointer `p`, terminator included, cut at `n` cells -/
def StrObj (d : Nat → Nat) (p n : Nat) (a : Nat) : Prop := p ≠ 0 ∧ Str d p n a

/-- what a tokenizer call may touch: the string being tokenized (at `dest`, or at `*ptr` when `dest` is
NULL), cut at `*dmax + 1` cells -/
def TokCells (d : Nat → Nat) (dest : Nat) (dmaxp ptr : Option Nat) (a : Nat) : Prop :=
  ∃ dmax pv, dmaxp = some dmax ∧ ptr = some pv ∧ StrObj d (tokBuf dest pv) (dmax + 1) a

theorem strtok_s_fp (dest : Nat) (dmaxp : Option Nat) (delim : Nat) (ptr : Option Nat) (b : Bos) (s : St) :
    Within2 (fun a => TokCells s.data dest dmaxp ptr a ∨ StrObj s.data delim (STRTOK_DELIM_MAX_LEN + 1) a)
      (TokCells s.data dest dmaxp ptr) (strtok_s dest dmaxp delim ptr b) s :=
  AccS.within2 (Q := fun _ _ => True) (strtok_s_accs dest dmaxp delim ptr b
    (fun dmax pv h1 h2 h3 _ ha => Or.inl ⟨dmax, pv, h1, h2, h3, ha⟩)
    (fun dmax pv h1 h2 h3 _ ha => ⟨dmax, pv, h1, h2, h3, ha⟩)
    (fun h _ ha => Or.inr ⟨h, ha⟩)) s rfl

theorem wcstok_s_fp (dest : Nat) (dmaxp : Option Nat) (delim : Nat) (ptr : Option Nat) (b : Bos) (s : St) :
    Within2 (fun a => TokCells s.data dest dmaxp ptr a ∨ StrObj s.data delim (STRTOK_DELIM_MAX_LEN + 1) a)
      (TokCells s.data dest dmaxp ptr) (wcstok_s dest dmaxp delim ptr b) s :=
  AccS.within2 (Q := fun _ _ => True) (wcstok_s_accs dest dmaxp delim ptr b
    (fun dmax pv h1 h2 h3 _ ha => Or.inl ⟨dmax, pv, h1, h2, h3, ha⟩)
    (fun dmax pv h1 h2 h3 _ ha => ⟨dmax, pv, h1, h2, h3, ha⟩)
    (fun h _ ha => Or.inr ⟨h, ha⟩)) s rfl

theorem strljustify_s_fp (cfg : Cfg) (dest dmax : Nat) (b : Bos) (s : St) :
    Within2 (StrObj s.data dest (dmax + 1)) (Obj dest dmax) (strljustify_s cfg dest dmax b) s :=
  AccS.within2 (Q := fun _ _ => True) (strljustify_s_accs cfg dest dmax b (fun h _ ha => ⟨h, ha⟩) (fun h _ ha => ⟨h, ha⟩)) s rfl

/-! ## the in-place setters (`AccS`): strset_s, strzero_s, strnset_s, wcsset_s, wcsnset_s -/

theorem strset_s_fp (cfg : Cfg) (dest dmax value : Nat) (b : Bos) (s : St) :
    Within2 (StrObj s.data dest (dmax + 1)) (Obj dest dmax) (strset_s cfg dest dmax value b) s :=
  AccS.within2 (Q := fun _ _ => True) (strset_s_accs cfg dest dmax value b (fun h _ ha => ⟨h, ha⟩) (fun h _ ha => ⟨h, ha⟩)) s rfl

theorem strzero_s_fp (cfg : Cfg) (dest dmax : Nat) (b : Bos) (s : St) :
    Within2 (StrObj s.data dest (dmax + 1)) (Obj dest dmax) (strzero_s cfg dest dmax b) s :=
  AccS.within2 (Q := fun _ _ => True) (strzero_s_accs cfg dest dmax b (fun h _ ha => ⟨h, ha⟩) (fun h _ ha => ⟨h, ha⟩)) s rfl

theorem strnset_s_fp (cfg : Cfg) (dest dmax value n : Nat) (b : Bos) (s : St) :
    Within2 (fun a => n ≤ dmax ∧ StrObj s.data dest (n + 1) a) (Obj dest dmax) (strnset_s cfg dest dmax value n b) s :=
  AccS.within2 (Q := fun _ _ => True) (strnset_s_accs cfg dest dmax value n b (fun h hn _ ha => ⟨hn, h, ha⟩) (fun h _ ha => ⟨h, ha⟩)) s rfl

theorem wcsset_s_fp (cfg : Cfg) (dest dmax value : Nat) (b : Bos) (s : St) :
    Within2 (StrObj s.data dest (dmax + 1)) (Obj dest dmax) (wcsset_s cfg dest dmax value b) s :=
  AccS.within2 (Q := fun _ _ => True) (wcsset_s_accs cfg dest dmax value b (fun h _ ha => ⟨h, ha⟩) (fun h _ ha => ⟨h, ha⟩)) s rfl

theorem wcsnset_s_fp (cfg : Cfg) (dest dmax value n : Nat) (b : Bos) (s : St) :
    Within2 (fun a => n ≤ dmax ∧ StrObj s.data dest (n + 1) a) (Obj dest dmax) (wcsnset_s cfg dest dmax value n b) s :=
  AccS.within2 (Q := fun _ _ => True) (wcsnset_s_accs cfg dest dmax value n b (fun h hn _ ha => ⟨hn, h, ha⟩) (fun h _ ha => ⟨h, ha⟩)) s rfl

/-! ## string queries (`AccD`): read-only, footprint = the strings up to their terminators -/

theorem strcmp_s_fp (dest dmax src : Nat) (db sb : Bos) (s : St) :
    Within2 (fun a => StrObj s.data dest (dmax + 1) a ∨ StrObj s.data src (dmax + 1) a) None'
      (strcmp_s dest dmax src db sb) s :=
  AccD.within2 (Q := fun _ => True) (strcmp_s_acc dest dmax src db sb (fun h _ ha => Or.inl ⟨h, ha⟩) (fun h _ ha => Or.inr ⟨h, ha⟩)) s rfl

theorem strcasecmp_s_fp (dest dmax src : Nat) (db : Bos) (s : St) :
    Within2 (fun a => StrObj s.data dest (dmax + 1) a ∨ StrObj s.data src (dmax + 1) a) None'
      (strcasecmp_s dest dmax src db) s :=
  AccD.within2 (Q := fun _ => True) (strcasecmp_s_acc dest dmax src db (fun h _ ha => Or.inl ⟨h, ha⟩) (fun h _ ha => Or.inr ⟨h, ha⟩)) s rfl

/-! ## pools -/

variable {ι : Type} [DecidableEq ι]

/-- **N concurrent `memcpy_s` calls** (any index type, any schedule): destinations pairwise disjoint and
disjoint from every other call's source; sources may overlap each other or be one and the same object.
A call that has returned has returned its run-alone code and its destination holds its run-alone bytes. -/
theorem memcpy_s_reentrant_n (dest dmax src slen : ι → Nat) (db sb : ι → Bos)
    (hU : ∀ i, db i = none ∨ slen i % U32 ≠ 0)
    (hdd : ∀ i j, i ≠ j → ∀ a, Obj (dest i) (dmax i) a → ¬ Obj (dest j) (dmax j) a)
    (hds : ∀ i j, i ≠ j → ∀ a, Obj (dest i) (dmax i) a → ¬ Obj (src j) (slen j) a)
    (sch : List ι) (s : St) (i : ι)
    (hd : ((runPool sch (fun j => (⟨Nat, memcpy_s (dest j) (dmax j) (src j) (slen j) (db j) (sb j)⟩ : Thread)) s).1 i).isDone = true) :
    (runPool sch (fun j => (⟨Nat, memcpy_s (dest j) (dmax j) (src j) (slen j) (db j) (sb j)⟩ : Thread)) s).1 i =
      ⟨Nat, .ret (runT (memcpy_s (dest i) (dmax i) (src i) (slen i) (db i) (sb i)) s).1⟩ ∧
    ∀ a, Obj (dest i) (dmax i) a →
      (runPool sch (fun j => (⟨Nat, memcpy_s (dest j) (dmax j) (src j) (slen j) (db j) (sb j)⟩ : Thread)) s).2.data a =
        (runT (memcpy_s (dest i) (dmax i) (src i) (slen i) (db i) (sb i)) s).2.data a := by
  have h := pool_finished
    (R := fun j a => slen j ≤ dmax j ∧ Obj (src j) (slen j) a) (W := fun j => Obj (dest j) (dmax j))
    (fun i j hij a hw => ⟨fun hr => hds i j hij a hw hr.2, hdd i j hij a hw⟩)
    sch (fun j => (⟨Nat, memcpy_s (dest j) (dmax j) (src j) (slen j) (db j) (sb j)⟩ : Thread)) s
    (fun j => memcpy_s_fp (dest j) (dmax j) (src j) (slen j) (db j) (sb j) (hU j) s) i hd
  exact ⟨h.1, fun a ha => h.2 a (Or.inr ha)⟩

/-- non-vacuity of the hypotheses of `memcpy_s_reentrant_n`: two threads copy 8 bytes from the SAME source at
300 into the disjoint destinations 100 and 200 -/
example : (∀ i j : Fin 2, i ≠ j → ∀ a, Obj (100 + 100 * i.val) 16 a → ¬ Obj (100 + 100 * j.val) 16 a) ∧
    (∀ i j : Fin 2, i ≠ j → ∀ a, Obj (100 + 100 * i.val) 16 a → ¬ Obj 300 8 a) := by
  constructor
  · intro i j hij a ⟨_, h1, h2⟩ ⟨_, h3, h4⟩
    have : i.val ≠ j.val := fun e => hij (Fin.ext e)
    have := i.isLt; have := j.isLt
    omega
  · intro i j _ a ⟨_, h1, h2⟩ ⟨_, h3, h4⟩
    have := i.isLt
    omega

/-- **N concurrent tokenizer calls** on thread-private strings: the delimiter sets may be shared (they are
only read); each returned call gives its run-alone token and leaves its run-alone string -/
theorem strtok_s_reentrant_n (dest : ι → Nat) (dmaxp : ι → Option Nat) (delim : ι → Nat) (ptr : ι → Option Nat)
    (b : ι → Bos) (s : St)
    (hpriv : ∀ i j, i ≠ j → ∀ a, TokCells s.data (dest i) (dmaxp i) (ptr i) a →
      ¬ TokCells s.data (dest j) (dmaxp j) (ptr j) a ∧ ¬ StrObj s.data (delim j) (STRTOK_DELIM_MAX_LEN + 1) a)
    (sch : List ι) (i : ι)
    (hd : ((runPool sch (fun j => (⟨_, strtok_s (dest j) (dmaxp j) (delim j) (ptr j) (b j)⟩ : Thread)) s).1 i).isDone = true) :
    (runPool sch (fun j => (⟨_, strtok_s (dest j) (dmaxp j) (delim j) (ptr j) (b j)⟩ : Thread)) s).1 i =
      ⟨_, .ret (runT (strtok_s (dest i) (dmaxp i) (delim i) (ptr i) (b i)) s).1⟩ ∧
    ∀ a, TokCells s.data (dest i) (dmaxp i) (ptr i) a →
      (runPool sch (fun j => (⟨_, strtok_s (dest j) (dmaxp j) (delim j) (ptr j) (b j)⟩ : Thread)) s).2.data a =
        (runT (strtok_s (dest i) (dmaxp i) (delim i) (ptr i) (b i)) s).2.data a := by
  have h := pool_finished
    (R := fun j a => TokCells s.data (dest j) (dmaxp j) (ptr j) a ∨ StrObj s.data (delim j) (STRTOK_DELIM_MAX_LEN + 1) a)
    (W := fun j => TokCells s.data (dest j) (dmaxp j) (ptr j))
    (fun i j hij a hw => ⟨fun hr => hr.elim (hpriv i j hij a hw).1 (hpriv i j hij a hw).2, (hpriv i j hij a hw).1⟩)
    sch (fun j => (⟨_, strtok_s (dest j) (dmaxp j) (delim j) (ptr j) (b j)⟩ : Thread)) s
    (fun j => strtok_s_fp (dest j) (dmaxp j) (delim j) (ptr j) (b j) s) i hd
  exact ⟨h.1, fun a ha => h.2 a (Or.inr ha)⟩

/-- three different calls: `memset_s(d0, …)`, `memcpy_s(d1, …, src, len)`, `strnlen_s(src, smax)` -/
def mixed (d0 m0 v n0 d1 m1 src len smax : Nat) : Fin 3 → Thread
  | 0 => ⟨Nat, memset_s d0 m0 v n0 none⟩
  | 1 => ⟨Nat, memcpy_s d1 m1 src len none none⟩
  | 2 => ⟨Nat, strnlen_s src smax none⟩

def mixedR (m1 src len smax : Nat) : Fin 3 → Nat → Prop
  | 0 => None'
  | 1 => fun a => len ≤ m1 ∧ Obj src len a
  | 2 => Obj src smax

def mixedW (d0 m0 d1 m1 : Nat) : Fin 3 → Nat → Prop
  | 0 => Obj d0 m0
  | 1 => Obj d1 m1
  | 2 => None'

/-- **different functions mixed**: `memset_s(d0, …)` ∥ `memcpy_s(d1, …, src)` ∥ `strnlen_s(src, …)` — the
copy and the length query read the SAME source; the destinations are disjoint from each other and from
the source.  Every schedule that lets all three finish leaves exactly the memory of running them one after
the other (here in the order 0, 1, 2; any other order by `C12N.interleaving_is_sequential`), and each call
has returned what it returns alone. -/
theorem mixed_calls_reentrant (d0 m0 v n0 d1 m1 src len smax : Nat) (s : St)
    (h01 : ∀ a, Obj d0 m0 a → ¬ Obj d1 m1 a)
    (h0s : ∀ a, Obj d0 m0 a → ¬ Obj src len a ∧ ¬ Obj src smax a)
    (h1s : ∀ a, Obj d1 m1 a → ¬ Obj src len a ∧ ¬ Obj src smax a)
    (sch : List (Fin 3))
    (hfin : ∀ i, ((runPool sch (mixed d0 m0 v n0 d1 m1 src len smax) s).1 i).isDone = true) :
    (runPool sch (mixed d0 m0 v n0 d1 m1 src len smax) s).2.data =
      (runT (strnlen_s src smax none) (runT (memcpy_s d1 m1 src len none none)
        (runT (memset_s d0 m0 v n0 none) s).2).2).2.data ∧
    ∀ i, (runPool sch (mixed d0 m0 v n0 d1 m1 src len smax) s).1 i =
      (mixed d0 m0 v n0 d1 m1 src len smax i).finish s := by
  have hni : NonInterf (mixedR m1 src len smax) (mixedW d0 m0 d1 m1) := by
    intro i j hij a hw
    match i, j with
    | 0, 0 => exact absurd rfl hij
    | 1, 1 => exact absurd rfl hij
    | 2, 2 => exact absurd rfl hij
    | 0, 1 => exact ⟨fun h => (h0s a hw).1 h.2, h01 a hw⟩
    | 0, 2 => exact ⟨(h0s a hw).2, fun h => h⟩
    | 1, 0 => exact ⟨fun h => h, fun h => h01 a h hw⟩
    | 1, 2 => exact ⟨(h1s a hw).2, fun h => h⟩
    | 2, 0 => exact hw.elim
    | 2, 1 => exact hw.elim
  have hw : ∀ i, (mixed d0 m0 v n0 d1 m1 src len smax i).Fp (mixedR m1 src len smax i) (mixedW d0 m0 d1 m1 i) s := by
    intro i
    match i with
    | 0 => exact memset_s_fp d0 m0 v n0 none s
    | 1 => exact memcpy_s_fp d1 m1 src len none none (Or.inl rfl) s
    | 2 => exact strnlen_s_fp src smax none s
  have h := interleave_eq_seq hni sch (mixed d0 m0 v n0 d1 m1 src len smax) s hw [0, 1, 2] (by decide) (by decide) hfin
  exact ⟨h.2, fun i => (pool_finished hni sch _ s hw i (hfin i)).1⟩

end SafeC.Props.C12Fp

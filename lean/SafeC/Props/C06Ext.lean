import SafeC.Proofs.CatDisjoint
import SafeC.Proofs.CopyOverlapB
import SafeC.Props.C06
/-!
# C06 (extension) — `strncat_s`, and the wide twins `wcsncpy_s` / `wcscat_s` / `wcsncat_s` as instances

For valid, non-overlapping operands: EOK exactly when the complete result including its terminator fits in `dmax`,
and then dest holds exactly what the standard counterpart produces (`strncat`: the old dest string followed by the
first `m = min(slen, strlen src)` source characters and a terminator); otherwise the call fails (ESNOSPC) — never a
shortened result reported as success.  `cells` is the list view of `Props/C06.lean`.
-/
namespace SafeC.Props.C06
open SafeC Gen

/-- strncat: old dest string ++ first `m = min(slen, strlen src)` source characters ++ [0] -/
theorem strncat_s_C06 (cfg : Cfg) (dest dmax src slen dl m : Nat) (st : St)
    (hd : dest ≠ 0) (hs : src ≠ 0) (hpos : 0 < dmax) (hle : dmax ≤ RSIZE_MAX_STR)
    (hslen : 0 < slen) (hslenle : slen ≤ RSIZE_MAX_STR) (hrw : RW st dest dmax)
    (hnz : ∀ j, j < m → st.data (src+j) ≠ 0)
    (hrd : ∀ j, j < m → st.mapped (src+j) = true ∧ st.rd (src+j) = true)
    (hfin : (m < slen ∧ st.data (src+m) = 0 ∧ st.mapped (src+m) = true ∧ st.rd (src+m) = true) ∨ slen = m)
    (hdisj : dest + dmax ≤ src ∨ src + m < dest)
    (hdl : dl < dmax) (hdnz : ∀ j, j < dl → st.data (dest+j) ≠ 0) (hdnul : st.data (dest+dl) = 0) :
    ∃ code st', exec (strncat_s cfg dest dmax src slen none none) st = .ok (code, st') ∧
      (code = EOK ↔ dl + m + 1 ≤ dmax) ∧
      (code = EOK → cells st' dest dl = cells st dest dl ∧ cells st' (dest+dl) m = cells st src m ∧
        st'.data (dest+dl+m) = 0) := by
  obtain ⟨code, st', he, _, _, _, _, _, hok, hfail⟩ :=
    strncatG_disjoint _ cfg dest dmax src slen dl m st hd hs hpos hle hslen hslenle hrw hnz hrd hfin hdisj hdl hdnz hdnul
  have key : code = EOK → dl + m < dmax := by
    intro hc
    by_cases h : dl + m < dmax
    · exact h
    · have := (hfail (by omega)).1
      rw [hc] at this; exact absurd this (by decide)
  refine ⟨code, st', he, ⟨fun hc => by have := key hc; omega, fun h => (hok (by omega)).1⟩, fun hc => ?_⟩
  obtain ⟨_, _, hpre, hcp, hnul, _⟩ := hok (key hc)
  exact ⟨cells_eq st st' dest dest dl hpre, cells_eq st st' (dest+dl) src m hcp, hnul⟩

/-- wcsncpy: the first `m = min(slen, wcslen src)` wide characters, then a terminator -/
theorem wcsncpy_s_C06 (cfg : Cfg) (dest dmax src slen m : Nat) (st : St)
    (hd : dest ≠ 0) (hs : src ≠ 0) (hpos : 0 < dmax) (hle : dmax ≤ RSIZE_MAX_WSTR)
    (hslen : 0 < slen) (hslenle : slen ≤ RSIZE_MAX_WSTR) (hrw : RW st dest dmax)
    (hnz : ∀ j, j < m → st.data (src+j) ≠ 0)
    (hrd : ∀ j, j < m → st.mapped (src+j) = true ∧ st.rd (src+j) = true)
    (hfin : (m < slen ∧ st.data (src+m) = 0 ∧ st.mapped (src+m) = true ∧ st.rd (src+m) = true) ∨ slen = m)
    (hdisj : dest + dmax ≤ src ∨ src + m < dest) :
    ∃ code st', exec (wcsncpy_s cfg dest dmax src slen none none) st = .ok (code, st') ∧
      (code = EOK ↔ m + 1 ≤ dmax) ∧
      (code = EOK → cells st' dest m = cells st src m ∧ st'.data (dest+m) = 0) := by
  rw [wcsncpy_s_eq cfg dest dmax src slen hle hslenle]
  obtain ⟨code, st', he, _, _, _, _, _, hok, hfail⟩ :=
    strncpyG_disjoint _ cfg dest dmax src slen m st hd hs hpos hle (by decide) hslen hslenle hrw hnz hrd hfin hdisj
  have key : code = EOK → m < dmax := by
    intro hc
    by_cases h : m < dmax
    · exact h
    · have := (hfail (by omega)).1
      rw [hc] at this; exact absurd this (by decide)
  refine ⟨code, st', he, ⟨fun hc => by have := key hc; omega, fun h => (hok (by omega)).1⟩, fun hc => ?_⟩
  obtain ⟨_, _, hcp, hnul, _⟩ := hok (key hc)
  exact ⟨cells_eq st st' dest src m hcp, hnul⟩

/-- wcscat: old dest string ++ src string ++ [0] -/
theorem wcscat_s_C06 (cfg : Cfg) (dest dmax src dl n : Nat) (st : St)
    (hd : dest ≠ 0) (hs : src ≠ 0) (hpos : 0 < dmax) (hle : dmax ≤ RSIZE_MAX_WSTR)
    (hrw : RW st dest dmax) (hsrc : SrcStr st src n) (hdisj : Disjoint dest dmax src n)
    (hdl : dl < dmax) (hdnz : ∀ j, j < dl → st.data (dest+j) ≠ 0) (hdnul : st.data (dest+dl) = 0) :
    ∃ code st', exec (wcscat_s cfg dest dmax src none) st = .ok (code, st') ∧
      (code = EOK ↔ dl + n + 1 ≤ dmax) ∧
      (code = EOK → cells st' dest dl = cells st dest dl ∧ cells st' (dest+dl) n = cells st src n ∧
        st'.data (dest+dl+n) = 0) := by
  rw [wcscat_s_eq]
  obtain ⟨code, st', he, _, _, _, _, _, hok, hfail⟩ :=
    strcatG_disjoint _ cfg dest dmax src dl n st hd hs hpos hle hrw hsrc hdisj hdl hdnz hdnul
  have key : code = EOK → dl + n < dmax := by
    intro hc
    by_cases h : dl + n < dmax
    · exact h
    · have := (hfail (by omega)).1
      rw [hc] at this; exact absurd this (by decide)
  refine ⟨code, st', he, ⟨fun hc => by have := key hc; omega, fun h => (hok (by omega)).1⟩, fun hc => ?_⟩
  obtain ⟨_, _, hpre, hcp, hnul, _⟩ := hok (key hc)
  exact ⟨cells_eq st st' dest dest dl hpre, cells_eq st st' (dest+dl) src n hcp, hnul⟩

/-- wcsncat: old dest string ++ first `m = min(slen, wcslen src)` wide characters ++ [0] -/
theorem wcsncat_s_C06 (cfg : Cfg) (dest dmax src slen dl m : Nat) (st : St)
    (hd : dest ≠ 0) (hs : src ≠ 0) (hpos : 0 < dmax) (hle : dmax ≤ RSIZE_MAX_WSTR)
    (hslen : 0 < slen) (hslenle : slen ≤ RSIZE_MAX_WSTR) (hrw : RW st dest dmax)
    (hnz : ∀ j, j < m → st.data (src+j) ≠ 0)
    (hrd : ∀ j, j < m → st.mapped (src+j) = true ∧ st.rd (src+j) = true)
    (hfin : (m < slen ∧ st.data (src+m) = 0 ∧ st.mapped (src+m) = true ∧ st.rd (src+m) = true) ∨ slen = m)
    (hdisj : dest + dmax ≤ src ∨ src + m < dest)
    (hdl : dl < dmax) (hdnz : ∀ j, j < dl → st.data (dest+j) ≠ 0) (hdnul : st.data (dest+dl) = 0) :
    ∃ code st', exec (wcsncat_s cfg dest dmax src slen none none) st = .ok (code, st') ∧
      (code = EOK ↔ dl + m + 1 ≤ dmax) ∧
      (code = EOK → cells st' dest dl = cells st dest dl ∧ cells st' (dest+dl) m = cells st src m ∧
        st'.data (dest+dl+m) = 0) := by
  rw [wcsncat_s_eq cfg dest dmax src slen hle hslenle (by omega)]
  obtain ⟨code, st', he, _, _, _, _, _, hok, hfail⟩ :=
    strncatG_disjoint _ cfg dest dmax src slen dl m st hd hs hpos hle hslen hslenle hrw hnz hrd hfin hdisj hdl hdnz hdnul
  have key : code = EOK → dl + m < dmax := by
    intro hc
    by_cases h : dl + m < dmax
    · exact h
    · have := (hfail (by omega)).1
      rw [hc] at this; exact absurd this (by decide)
  refine ⟨code, st', he, ⟨fun hc => by have := key hc; omega, fun h => (hok (by omega)).1⟩, fun hc => ?_⟩
  obtain ⟨_, _, hpre, hcp, hnul, _⟩ := hok (key hc)
  exact ⟨cells_eq st st' dest dest dl hpre, cells_eq st st' (dest+dl) src m hcp, hnul⟩

/-- dest = 100 holds `"ab"` in 8 cells, src = 200 holds `"xyz"`; everything declared -/
def catSt : St :=
  { data := fun a => if a = 100 then 97 else if a = 101 then 98 else
                     if a = 200 then 120 else if a = 201 then 121 else if a = 202 then 122 else 0
    mapped := fun _ => true, rd := fun _ => true, wr := fun _ => true }

/-- non-vacuity: `strncat_s(d, 8, "xyz", 2)` with `d = "ab"`: dl = 2, m = slen = 2 -/
example : RW catSt 100 8 ∧ (∀ j, j < 2 → catSt.data (200+j) ≠ 0) ∧ (∀ j, j < 2 → catSt.data (100+j) ≠ 0) ∧
    catSt.data (100+2) = 0 ∧ ((100:Nat) + 8 ≤ 200 ∨ 200 + 2 < 100) := by
  refine ⟨fun _ _ => ⟨rfl, rfl, rfl⟩, ?_, ?_, by decide, by decide⟩
  · intro j hj; have : j = 0 ∨ j = 1 := by omega
    rcases this with rfl | rfl <;> decide
  · intro j hj; have : j = 0 ∨ j = 1 := by omega
    rcases this with rfl | rfl <;> decide

end SafeC.Props.C06

import SafeC.Models.Copy
/-! Property theorems for C14 (see DESIGN.md §4). -/
namespace SafeC.Props.C14
end SafeC.Props.C14

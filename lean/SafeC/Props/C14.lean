import SafeC.Proofs.Tok
/-!
# C14 — tokenizing yields each token exactly once and stays inside the string

Setting: everything mapped and readable (`AllRd`, the access pattern is C01/C02), the cells of the
remaining string extent `[p, p+n)` writable, the delimiter string has 1..`STRTOK_DELIM_MAX_LEN`
characters (`DelimOK`; the empty and the over-long delimiter string are known findings
`tok-empty-delim-no-token`, `tok-delim-too-long`), and the string is terminated inside the remaining
length (`scanLen m p n < n`).

`tok_call` describes ONE call completely, as a function of the memory contents: where the token
starts (`skipD`: after the maximal run of delimiters), where it ends (`findE`: at the next delimiter
or the terminator), what is returned, what is stored through `ptr` / `dmaxp`, and the single cell that
may be overwritten.  The property-level statements are corollaries:

* `tok_conserves`   — `*ptr + *dmaxp` after the call = before the call: the remaining length shrinks
  exactly as the pointer advances, so it never permits access past the original `dmax`;
* `tok_token_shape` — the returned token is a maximal delimiter-free run, NUL-terminated inside the
  buffer after the call;
* `tok_only_delim_overwritten` — at most one cell changes, it held a delimiter, it now holds NUL;
* `tok_null_forever` — once the continuation pointer rests on the terminator every later call
  (any number of them, any valid delimiter strings) returns NULL and changes nothing;
* `strtok_s_first` / `strtok_s_next` / `wcstok_s_first` — the entry points reduce to `tok_call`.

(The continuation pointer is stored on every return since the `fix:` commit 5d3329f; before it
`tok_null_forever` was false of the code: the last token was returned twice.)
-/
namespace SafeC.Props.C14
open SafeC Gen

/-- the NUL bound moves along any run of non-NUL cells -/
theorem scanLen_adv (m : Nat → Nat) (p n q : Nat) (hz : scanLen m p n < n)
    (hq : p ≤ q) (hnz : ∀ j, p ≤ j → j < q → m j ≠ 0) (hqn : q ≤ p + n) :
    scanLen m q (n - (q - p)) < n - (q - p) := by
  induction n generalizing p with
  | zero => omega
  | succ n ih =>
    by_cases hpq : q = p
    · subst hpq; simpa using hz
    · have h0 : m p ≠ 0 := hnz p (by omega) (by omega)
      have hz' := scanLen_tail m p n hz h0
      have := ih (p+1) hz' (by omega) (fun j h1 h2 => hnz j (by omega) h2) (by omega)
      have e : n + 1 - (q - p) = n - (q - (p+1)) := by omega
      rw [e]; exact this

/-- what one call returns and stores, as a pure function of the memory contents -/
structure CallSpec where
  ret : Nat            -- returned pointer, 0 = NULL
  ptr : Nat            -- value stored through `ptr`
  rem : Nat            -- value stored through `dmaxp`
  cut : Option Nat     -- the cell overwritten with NUL, if any
  deriving Repr, DecidableEq

def callSpec (m : Nat → Nat) (dl p n : Nat) : CallSpec :=
  let a := skipD m dl n p
  if m a = 0 then { ret := 0, ptr := a, rem := n - (a - p), cut := none }
  else
    let n' := n - (a - p) - 1
    let b := findE m dl n' (a+1)
    if m b = 0 then { ret := a, ptr := b, rem := n' - (b - (a+1)), cut := none }
    else { ret := a, ptr := b+1, rem := n' - (b - (a+1)) - 1, cut := some b }

/-- **One call**, both tokenizers (`wide` = `wcstok_s`): result and final state. -/
theorem tok_call (wide : Bool) (dl p n : Nat) (st : St) (hall : AllRd st) (hd : DelimOK st.data dl)
    (hp : p ≠ 0) (hz : scanLen st.data p n < n) (hw : ∀ a, p ≤ a → a < p + n → st.wr a = true) :
    exec (tokBody wide dl p n) st =
      .ok ({ ret := (callSpec st.data dl p n).ret, dmaxv := some (callSpec st.data dl p n).rem,
             ptrv := some (callSpec st.data dl p n).ptr },
           match (callSpec st.data dl p n).cut with
           | none => st
           | some b => st.upd b 0) := by
  unfold tokBody callSpec
  simp only [exec_bind, scan1_eq hall wide dl n p hd hz]
  have hb := skipD_bounds st.data dl n p
  have hstop := skipD_stop st.data dl n p hz
  by_cases h0 : st.data (skipD st.data dl n p) = 0
  · simp [h0]
  · simp only [h0, if_false]
    -- a NUL inside the remaining length behind the first token character
    have hnz : ∀ j, p ≤ j → j < skipD st.data dl n p + 1 → st.data j ≠ 0 := by
      intro j h1 h2
      by_cases hj : j = skipD st.data dl n p
      · subst hj; exact h0
      · exact (skipD_skipped st.data dl n p j h1 (by omega)).1
    have hz2 := scanLen_adv st.data p n (skipD st.data dl n p + 1) hz (by omega) hnz (by omega)
    have e : n - (skipD st.data dl n p + 1 - p) = n - (skipD st.data dl n p - p) - 1 := by omega
    rw [e] at hz2
    have hp0 : ¬ skipD st.data dl n p = 0 := by omega
    · simp only [hp0, if_false]
      rw [scan2_eq hall dl _ _ _ hd hz2 (fun a h1 h2 => hw a (by omega) (by omega))]
      by_cases hb0 : st.data (findE st.data dl (n - (skipD st.data dl n p - p) - 1) (skipD st.data dl n p + 1)) = 0
      · simp [hb0]
      · simp [hb0]

/-- the facts about the two scan positions everything below uses -/
theorem callSpec_facts (m : Nat → Nat) (dl p n : Nat) (hz : scanLen m p n < n) :
    let a := skipD m dl n p
    p ≤ a ∧ a < p + n ∧
    (m a ≠ 0 →
      let n' := n - (a - p) - 1
      let b := findE m dl n' (a+1)
      a + 1 ≤ b ∧ b < a + 1 + n' ∧ (m b = 0 ∨ isDelim m dl (m b) = true)) := by
  intro a
  have hb := skipD_bounds m dl n p
  have hstop := skipD_stop m dl n p hz
  refine ⟨hb.1, hstop.1, ?_⟩
  intro h0 n' b
  have hnz : ∀ j, p ≤ j → j < a + 1 → m j ≠ 0 := by
    intro j h1 h2
    by_cases hj : j = a
    · subst hj; exact h0
    · exact (skipD_skipped m dl n p j h1 (by omega)).1
  have hz2 := scanLen_adv m p n (a + 1) hz (by omega) hnz (by omega)
  have e : n - (a + 1 - p) = n' := by omega
  rw [e] at hz2
  have hfb := findE_bounds m dl n' (a+1)
  have hfs := findE_stop m dl n' (a+1) hz2
  exact ⟨hfb.1, hfs.1, hfs.2⟩

/-- **the remaining length shrinks exactly as the pointer advances**: what is handed back through
`ptr` and `dmaxp` always satisfies `*ptr + *dmaxp = p + n` — the end of the original extent. A later
call can therefore never be allowed to look past the original `dmax`. -/
theorem tok_conserves (m : Nat → Nat) (dl p n : Nat) (hz : scanLen m p n < n) :
    (callSpec m dl p n).ptr + (callSpec m dl p n).rem = p + n := by
  obtain ⟨h1, h2, h3⟩ := callSpec_facts m dl p n hz
  unfold callSpec
  by_cases h0 : m (skipD m dl n p) = 0
  · simp only [h0, if_true]; omega
  · obtain ⟨h4, h5, _⟩ := h3 h0
    simp only [h0, if_false]
    split <;> simp only [] <;> omega

/-- **shape of the returned token**: it starts right after a (possibly empty) run of delimiters
beginning at the continuation point, consists of non-NUL non-delimiters only, ends — strictly inside
the extent — at a NUL or a delimiter, and after the call the cell at its end holds NUL. -/
theorem tok_token_shape (wide : Bool) (dl p n : Nat) (st : St) (hall : AllRd st) (hd : DelimOK st.data dl)
    (hp : p ≠ 0) (hz : scanLen st.data p n < n) (hw : ∀ a, p ≤ a → a < p + n → st.wr a = true)
    (hret : (callSpec st.data dl p n).ret ≠ 0) :
    ∃ o st' e, exec (tokBody wide dl p n) st = .ok (o, st') ∧
      o.ret = skipD st.data dl n p ∧ p ≤ o.ret ∧ o.ret < e ∧ e < p + n ∧
      (∀ j, p ≤ j → j < o.ret → isDelim st.data dl (st.data j) = true) ∧
      (∀ j, o.ret ≤ j → j < e → st.data j ≠ 0 ∧ isDelim st.data dl (st.data j) = false ∧ st'.data j = st.data j) ∧
      (st.data e = 0 ∨ isDelim st.data dl (st.data e) = true) ∧
      st'.data e = 0 := by
  obtain ⟨h1, h2, h3⟩ := callSpec_facts st.data dl p n hz
  have hcall := tok_call wide dl p n st hall hd hp hz hw
  have h0 : st.data (skipD st.data dl n p) ≠ 0 := by
    intro h; apply hret; unfold callSpec; simp [h]
  obtain ⟨h4, h5, h6⟩ := h3 h0
  have hcs : (callSpec st.data dl p n).ret = skipD st.data dl n p := by unfold callSpec; simp only [h0, if_false]; split <;> rfl
  refine ⟨_, _, findE st.data dl (n - (skipD st.data dl n p - p) - 1) (skipD st.data dl n p + 1), hcall, hcs, ?_, ?_, ?_, ?_, ?_, h6, ?_⟩
  · show (callSpec st.data dl p n).ret ≥ p; rw [hcs]; exact h1
  · show (callSpec st.data dl p n).ret < _; rw [hcs]; omega
  · omega
  · intro j hj1 hj2
    have hj2' : j < skipD st.data dl n p := by
      have : (callSpec st.data dl p n).ret = skipD st.data dl n p := hcs
      simpa [this] using hj2
    exact (skipD_skipped st.data dl n p j hj1 hj2').2
  · intro j hj1 hj2
    have hj1' : skipD st.data dl n p ≤ j := by
      have : (callSpec st.data dl p n).ret = skipD st.data dl n p := hcs
      simpa [this] using hj1
    have hin : st.data j ≠ 0 ∧ isDelim st.data dl (st.data j) = false := by
      by_cases hj : j = skipD st.data dl n p
      · subst hj
        refine ⟨h0, ?_⟩
        rcases (skipD_stop st.data dl n p hz).2 with h | h
        · exact absurd h h0
        · exact h
      · exact findE_inside st.data dl _ _ j (by omega) hj2
    refine ⟨hin.1, hin.2, ?_⟩
    unfold callSpec
    simp only [h0, if_false]
    by_cases hb0 : st.data (findE st.data dl (n - (skipD st.data dl n p - p) - 1) (skipD st.data dl n p + 1)) = 0
    · simp only [hb0, if_true]
    · simp only [hb0, if_false]; exact St.upd_data_ne _ _ _ _ (by omega)
  · unfold callSpec
    simp only [h0, if_false]
    by_cases hb0 : st.data (findE st.data dl (n - (skipD st.data dl n p - p) - 1) (skipD st.data dl n p + 1)) = 0
    · simp only [hb0, if_true]
    · simp only [hb0, if_false]; simp

/-- **only a delimiter position is overwritten**: the call changes at most one cell; that cell lies
inside the extent, held a (non-NUL) delimiter, and now holds NUL. Everything else is untouched. -/
theorem tok_only_delim_overwritten (m : Nat → Nat) (dl p n b : Nat) (hz : scanLen m p n < n)
    (hc : (callSpec m dl p n).cut = some b) :
    p ≤ b ∧ b < p + n ∧ m b ≠ 0 ∧ isDelim m dl (m b) = true := by
  obtain ⟨h1, h2, h3⟩ := callSpec_facts m dl p n hz
  unfold callSpec at hc
  by_cases h0 : m (skipD m dl n p) = 0
  · simp [h0] at hc
  · obtain ⟨h4, h5, h6⟩ := h3 h0
    simp only [h0, if_false] at hc
    split at hc
    · simp at hc
    · rename_i hb0
      simp only [Option.some.injEq] at hc
      subst hc
      refine ⟨by omega, by omega, hb0, ?_⟩
      rcases h6 with h | h
      · exact absurd h hb0
      · exact h

/-- a call whose continuation point rests on the terminator finds nothing and changes nothing -/
theorem tok_at_nul (wide : Bool) (dl p n : Nat) (st : St) (hall : AllRd st) (hd : DelimOK st.data dl)
    (_hp : p ≠ 0) (hn : 0 < n) (h0 : st.data p = 0) :
    exec (tokBody wide dl p n) st = .ok ({ ret := 0, dmaxv := some n, ptrv := some p }, st) := by
  have hz : scanLen st.data p n < n := by
    cases n with
    | zero => omega
    | succ k => simp [scanLen, h0]
  -- no cell is written on this path: the writability hypothesis of `tok_call` is not needed
  unfold tokBody
  simp only [exec_bind, scan1_eq hall wide dl n p hd hz]
  have ha : skipD st.data dl n p = p := by
    cases n with
    | zero => rfl
    | succ k => simp [skipD, h0]
  simp [ha, h0]

/-- `k` further calls, each with its own delimiter string, threading `*ptr` and `*dmaxp` as the
caller does; returns the list of returned pointers -/
def moreCalls (wide : Bool) : List Nat → Nat → Nat → Prog (List Nat)
  | [], _, _ => pure []
  | dl :: rest, p, n => do
    let o ← tokBody wide dl p n
    let rs ← moreCalls wide rest (o.ptrv.getD p) (o.dmaxv.getD n)
    pure (o.ret :: rs)

/-- **then a null pointer forever**: once the continuation pointer rests on the terminator, every
further call — any number, any valid delimiter strings — returns NULL and leaves memory as it is. -/
theorem tok_null_forever (wide : Bool) (dls : List Nat) (p n : Nat) (st : St) (hall : AllRd st)
    (hd : ∀ dl ∈ dls, DelimOK st.data dl) (hp : p ≠ 0) (hn : 0 < n) (h0 : st.data p = 0) :
    exec (moreCalls wide dls p n) st = .ok (dls.map (fun _ => 0), st) := by
  induction dls with
  | nil => rfl
  | cons dl rest ih =>
    simp only [moreCalls, exec_bind, tok_at_nul wide dl p n st hall (hd dl (by simp)) hp hn h0]
    simp only [Option.getD_some]
    rw [ih (fun d hd' => hd d (by simp [hd']))]
    simp

/-! ## the entry points -/

/-- first call (`dest` given), object size unknown -/
theorem strtok_s_first (dest dmax dl pv : Nat) (hd : dest ≠ 0) (hdl : dl ≠ 0) (hpos : 0 < dmax)
    (hle : dmax ≤ RSIZE_MAX_STR) :
    strtok_s dest (some dmax) dl (some pv) none = tokBody false dl dest dmax := by
  unfold strtok_s
  have h1 : ¬ dmax = 0 := by omega
  have h2 : ¬ dmax > RSIZE_MAX_STR := by omega
  simp [h1, h2, hd, hdl]

/-- continuation call (`dest == NULL`): resumes at `*ptr` with the remaining length `*dmaxp` -/
theorem strtok_s_next (rem dl pv : Nat) (db : Bos) (hpv : pv ≠ 0) (hdl : dl ≠ 0) (hpos : 0 < rem)
    (hle : rem ≤ RSIZE_MAX_STR) :
    strtok_s 0 (some rem) dl (some pv) db = tokBody false dl pv rem := by
  unfold strtok_s
  have h1 : ¬ rem = 0 := by omega
  have h2 : ¬ rem > RSIZE_MAX_STR := by omega
  simp [h1, h2, hpv, hdl]

theorem wcstok_s_first (dest dmax dl pv : Nat) (hd : dest ≠ 0) (hdl : dl ≠ 0) (hpos : 0 < dmax)
    (hle : dmax ≤ RSIZE_MAX_WSTR) :
    wcstok_s dest (some dmax) dl (some pv) none = tokBody true dl dest dmax := by
  unfold wcstok_s
  have h1 : ¬ dmax = 0 := by omega
  have h2 : ¬ dmax > RSIZE_MAX_WSTR := by omega
  simp [h1, h2, hd, hdl]

theorem wcstok_s_next (rem dl pv : Nat) (db : Bos) (hpv : pv ≠ 0) (hdl : dl ≠ 0) (hpos : 0 < rem)
    (hle : rem ≤ RSIZE_MAX_WSTR) :
    wcstok_s 0 (some rem) dl (some pv) db = tokBody true dl pv rem := by
  unfold wcstok_s
  have h1 : ¬ rem = 0 := by omega
  have h2 : ¬ rem > RSIZE_MAX_WSTR := by omega
  simp [h1, h2, hpv, hdl]

/-- non-vacuity: the string "a,b" at 100 with dmax 4, delimiter string "," at 200 -/
def exMem : Nat → Nat := fun a =>
  if a = 100 then 97 else if a = 101 then 44 else if a = 102 then 98 else if a = 200 then 44 else 0

example : DelimOK exMem 200 ∧ scanLen exMem 100 4 < 4 ∧ callSpec exMem 200 100 4 = { ret := 100, ptr := 102, rem := 2, cut := some 101 } :=
  ⟨by unfold DelimOK; decide, by decide, by decide⟩

end SafeC.Props.C14

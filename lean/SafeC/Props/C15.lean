import SafeC.Proofs.ConvCodec
import SafeC.Proofs.ConvWrap
import SafeC.Proofs.ConvLibc
/-!
# C15 — multibyte and wide conversions agree with the C library and round-trip

English: on valid input in the current locale the six converters deliver the same converted characters and the same
count as the corresponding standard function limited to the space available; a wide string converted to multibyte and
back is unchanged; the size-query form returns the length the converting form then needs; invalid sequences are
reported as errors with dest cleared and the conversion state usable again.

Formal reading (model: `SafeC/Models/Conv.lean`; `Libc.*` = glibc 2.36 as measured, a trusted-base item):
* `Delivered o cells dmax r term`: EOK, `*retvalp = r.ret`, no handler call, no store outside `dest[0..dmax)`, no fault,
  `dest[0..r.ret) = r.out[0..r.ret)` and (`term`) `dest[r.ret] = 0`, where `r` is the result of the libc function
  called with the limit the wrapper hands it (`libcLen`: `len` in the tree as it is, `min(len, dmax)` when repaired).
* `Reported o cells dmax slack`: handler called exactly once with the code returned, `dest[0] = 0`, all `dmax` cells 0
  in the slack build.
* `SaneS a cells mem`: no argument precondition violated and the caller's `dmax` is true.
All theorems quantify over every configuration (`cfg`: slack build, locale, repaired or not), every dest content and
size, every source memory, every `len`/`dmax` — no bound on lengths.
-/
namespace SafeC.Props.C15
open SafeC.Conv SafeC.Gen

/-- the documented preconditions hold and the caller's `dmax` is true -/
structure SaneS (a : SArgs) (cells mem : List Nat) : Prop where
  rv : a.retvalNull = false
  sp : a.srcpNull = false
  ps : a.psNull = false
  al : a.alias = false
  dest : a.dest = some cells
  src : a.src = some mem
  dpos : 0 < a.dmax
  dmaxle : a.dmax ≤ RSIZE_MAX_WSTR
  lenle : a.len ≤ RSIZE_MAX_WSTR
  bos : a.bos = none
  truthful : a.dmax ≤ cells.length

example : SaneS { dest := some [7, 7, 7], dmax := 3, src := some [0x61, 0xE2, 0x82, 0xAC, 0], len := 2 } [7, 7, 7] [0x61, 0xE2, 0x82, 0xAC, 0] :=
  ⟨rfl, rfl, rfl, rfl, rfl, rfl, by decide, by decide, by decide, rfl, by decide⟩

/-! ## 1. the codecs round-trip (all strings, both locales) -/

/-- decoding the encoding of ANY list of encodable wide characters gives the list back (C.UTF-8: 31-bit values except
surrogates, 1..6 bytes; C: 7-bit) -/
theorem codec_roundtrip (loc : Locale) (ws bs : List Nat) (h : Libc.encodeAll loc ws = some bs) :
    Libc.decodeAll loc bs.length bs = some ws :=
  Libc.decodeAll_encodeAll loc ws bs h bs.length (Nat.le_refl _)

example : Libc.encodeAll .UTF8 [0x61, 0x20AC, 0x7FFFFFFF] = some [0x61, 0xE2, 0x82, 0xAC, 0xFD, 0xBF, 0xBF, 0xBF, 0xBF, 0xBF] := by decide

/-- one character: the decoder applied to an encoding followed by anything returns the character and its length -/
theorem decode_of_encode (loc : Locale) (c : Nat) (e tail : List Nat) (h : Libc.enc loc c = some e) :
    Libc.body loc (e ++ tail) = .ok c e.length := Libc.body_enc loc c e tail h

/-! ## 2. wrapper = libc limited to the space available; failures reported and cleared -/

private theorem entryW_none (cfg : Cfg) (a : SArgs) (clr : Bool) (d : D) {cells mem} (hs : SaneS a cells mem) :
    entryW cfg a clr d = none := by
  have h1 : ¬ a.dmax = 0 := by have := hs.dpos; omega
  have h2 : (decide (a.dmax > RSIZE_MAX_WSTR) || decide (a.len > RSIZE_MAX_WSTR)) = false := by
    have := hs.dmaxle; have := hs.lenle; simp; omega
  simp [entryW, h1, hs.bos, h2]

private theorem entryB_none (cfg : Cfg) (a : SArgs) (d : D) {cells mem} (hs : SaneS a cells mem) :
    entryB cfg a d = none := by
  have h1 : ¬ a.dmax = 0 := by have := hs.dpos; omega
  have h2 : (decide (a.dmax > RSIZE_MAX_WSTR) || decide (a.len > RSIZE_MAX_WSTR)) = false := by
    have := hs.dmaxle; have := hs.lenle; simp; omega
  simp [entryB, h1, hs.bos, h2]

theorem mbstowcs_s_eq (cfg : Cfg) (a : SArgs) {cells mem} (hs : SaneS a cells mem) :
    mbstowcs_s cfg a =
      { tailW cfg a (Libc.mbstowcs cfg.loc false mem (libcLen cfg a)) 0
          (fun _ => ((Libc.mbstowcs cfg.loc true mem (libcLen cfg a)).ret, (Libc.mbstowcs cfg.loc true mem (libcLen cfg a)).eilseq))
        with src := some 0, st := [] } := by
  simp [mbstowcs_s, hs.rv, hs.src, mkD, hs.dest, entryW_none cfg a true _ hs, hs.al]

theorem mbsrtowcs_s_eq (cfg : Cfg) (a : SArgs) {cells mem} (hs : SaneS a cells mem) :
    mbsrtowcs_s cfg a = tailW cfg a (Libc.mbsrtowcs cfg.loc false mem (libcLen cfg a) a.ps) a.errno0
      (mbsrRequery cfg a mem (libcLen cfg a) (Libc.mbsrtowcs cfg.loc false mem (libcLen cfg a) a.ps)) := by
  simp [mbsrtowcs_s, hs.rv, hs.ps, hs.sp, hs.src, mkD, hs.dest, entryW_none cfg a false _ hs, hs.al]

theorem wcstombs_s_eq (cfg : Cfg) (a : SArgs) {cells mem} (hs : SaneS a cells mem) :
    wcstombs_s cfg a = { tailB cfg a (Libc.wcstombs cfg.loc false mem (libcLen cfg a)) true with src := some 0 } := by
  simp [wcstombs_s, hs.rv, hs.src, mkD, hs.dest, entryB_none cfg a _ hs, hs.al]

theorem wcsrtombs_s_eq (cfg : Cfg) (a : SArgs) {cells mem} (hs : SaneS a cells mem) :
    wcsrtombs_s cfg a = tailB cfg a (Libc.wcsrtombs cfg.loc false mem (libcLen cfg a)) cfg.fx.term := by
  simp [wcsrtombs_s, hs.rv, hs.ps, hs.sp, hs.src, mkD, hs.dest, entryB_none cfg a _ hs, hs.al]


/-- what the wrapper hands libc never exceeds `len`; with the clamp repair it never exceeds `dmax` either -/
theorem libcLen_le_dmax_of_clamp (cfg : Cfg) (a : SArgs) {cells mem} (hs : SaneS a cells mem) (h : cfg.fx.clamp = true) :
    libcLen cfg a ≤ a.dmax := by
  unfold libcLen; simp only [h, hs.dest, Option.isSome_some, Bool.true_and, decide_eq_true_eq]
  split <;> omega

theorem libcLen_eq_of_le (cfg : Cfg) (a : SArgs) (h : a.len ≤ a.dmax) : libcLen cfg a = a.len := by
  unfold libcLen
  have : ¬ a.len > a.dmax := by omega
  simp [this]

/-- **mbstowcs_s = mbstowcs limited to the space available.** Every configuration, every source, len, dmax, dest:
if the count libc returns for the limit it is given leaves room for the terminator, the call returns EOK with that
count, exactly libc's characters, a terminator, and nothing stored outside `dest[0..dmax)`. -/
theorem mbstowcs_s_C15 (cfg : Cfg) (a : SArgs) {cells mem} (hs : SaneS a cells mem)
    (hfit : (Libc.mbstowcs cfg.loc false mem (libcLen cfg a)).ret < a.dmax) :
    Delivered (mbstowcs_s cfg a) cells a.dmax (Libc.mbstowcs cfg.loc false mem (libcLen cfg a)) true := by
  rw [mbstowcs_s_eq cfg a hs]
  have hsh := Libc.mbsrtowcs_shape cfg.loc mem (libcLen cfg a) []
  have hne : (Libc.mbstowcs cfg.loc false mem (libcLen cfg a)).ret ≠ SIZE_MAX := by
    have := hs.dmaxle; simp only [RSIZE_MAX_WSTR, SIZE_MAX] at *; omega
  have hsh' := hsh.resolve_left hne
  obtain ⟨⟨h1, h2, h3, h4⟩, _, _⟩ := tailW_ok cfg a _ 0 _ cells hs.dest hs.truthful hfit hsh'.1 hsh'.2
  exact ⟨h1, h2, h3, h4⟩

/-- otherwise (libc's count does not fit, or libc reports an illegal sequence): handler once with the code returned,
dest cleared, `*retvalp` = libc's return; with the result-code repair the code is EILSEQ resp. ESNOSPC -/
theorem mbstowcs_s_reported (cfg : Cfg) (a : SArgs) {cells mem} (hs : SaneS a cells mem)
    (hfit : ¬ (Libc.mbstowcs cfg.loc false mem (libcLen cfg a)).ret < a.dmax) :
    Reported (mbstowcs_s cfg a) cells a.dmax cfg.slack ∧
      (mbstowcs_s cfg a).retval = some (Libc.mbstowcs cfg.loc false mem (libcLen cfg a)).ret ∧
      (cfg.fx.rc = true → (mbstowcs_s cfg a).ret =
        if (Libc.mbstowcs cfg.loc false mem (libcLen cfg a)).ret = SIZE_MAX then EILSEQ else ESNOSPC) := by
  rw [mbstowcs_s_eq cfg a hs]
  obtain ⟨⟨h1, h2⟩, h3, h4⟩ := tailW_err cfg a _ 0 _ cells hs.dest hs.dpos hs.truthful hfit
  exact ⟨⟨h1, h2⟩, h3, h4⟩

/-- **mbsrtowcs_s = mbsrtowcs limited to the space available**, including `*srcp` and `*ps` afterwards -/
theorem mbsrtowcs_s_C15 (cfg : Cfg) (a : SArgs) {cells mem} (hs : SaneS a cells mem)
    (hfit : (Libc.mbsrtowcs cfg.loc false mem (libcLen cfg a) a.ps).ret < a.dmax) :
    Delivered (mbsrtowcs_s cfg a) cells a.dmax (Libc.mbsrtowcs cfg.loc false mem (libcLen cfg a) a.ps) true ∧
      (mbsrtowcs_s cfg a).src = (Libc.mbsrtowcs cfg.loc false mem (libcLen cfg a) a.ps).src ∧
      (mbsrtowcs_s cfg a).st = (Libc.mbsrtowcs cfg.loc false mem (libcLen cfg a) a.ps).st := by
  rw [mbsrtowcs_s_eq cfg a hs]
  have hsh := Libc.mbsrtowcs_shape cfg.loc mem (libcLen cfg a) a.ps
  have hne : (Libc.mbsrtowcs cfg.loc false mem (libcLen cfg a) a.ps).ret ≠ SIZE_MAX := by
    have := hs.dmaxle; simp only [RSIZE_MAX_WSTR, SIZE_MAX] at *; omega
  have hsh' := hsh.resolve_left hne
  exact tailW_ok cfg a _ _ _ cells hs.dest hs.truthful hfit hsh'.1 hsh'.2

theorem mbsrtowcs_s_reported (cfg : Cfg) (a : SArgs) {cells mem} (hs : SaneS a cells mem)
    (hfit : ¬ (Libc.mbsrtowcs cfg.loc false mem (libcLen cfg a) a.ps).ret < a.dmax) :
    Reported (mbsrtowcs_s cfg a) cells a.dmax cfg.slack ∧
      (mbsrtowcs_s cfg a).retval = some (Libc.mbsrtowcs cfg.loc false mem (libcLen cfg a) a.ps).ret ∧
      (cfg.fx.rc = true → (mbsrtowcs_s cfg a).ret =
        if (Libc.mbsrtowcs cfg.loc false mem (libcLen cfg a) a.ps).ret = SIZE_MAX then EILSEQ else ESNOSPC) := by
  rw [mbsrtowcs_s_eq cfg a hs]
  exact tailW_err cfg a _ _ _ cells hs.dest hs.dpos hs.truthful hfit

/-- **wcstombs_s = wcstombs limited to the space available** (a count of 0 only with the `zero` repair) -/
theorem wcstombs_s_C15 (cfg : Cfg) (a : SArgs) {cells mem} (hs : SaneS a cells mem)
    (hfit : (Libc.wcstombs cfg.loc false mem (libcLen cfg a)).ret < a.dmax)
    (hpos : 0 < (Libc.wcstombs cfg.loc false mem (libcLen cfg a)).ret ∨ cfg.fx.zero = true) :
    Delivered (wcstombs_s cfg a) cells a.dmax (Libc.wcstombs cfg.loc false mem (libcLen cfg a)) true := by
  rw [wcstombs_s_eq cfg a hs]
  have hsh := Libc.wcsrtombs_shape cfg.loc mem (libcLen cfg a)
  have hne : (Libc.wcstombs cfg.loc false mem (libcLen cfg a)).ret ≠ SIZE_MAX := by
    have := hs.dmaxle; simp only [RSIZE_MAX_WSTR, SIZE_MAX] at *; omega
  have hsh' := hsh.resolve_left hne
  obtain ⟨⟨h1, h2, h3, h4⟩, _⟩ := tailB_ok cfg a _ true cells hs.dest hs.truthful hfit hpos hsh'.1 hsh'.2
  refine ⟨h1, h2, h3, ?_⟩
  simpa using h4

theorem wcstombs_s_reported (cfg : Cfg) (a : SArgs) {cells mem} (hs : SaneS a cells mem)
    (hfit : ¬ ((0 < (Libc.wcstombs cfg.loc false mem (libcLen cfg a)).ret ∨ cfg.fx.zero = true) ∧
               (Libc.wcstombs cfg.loc false mem (libcLen cfg a)).ret < a.dmax)) :
    Reported (wcstombs_s cfg a) cells a.dmax cfg.slack ∧
      (wcstombs_s cfg a).retval = some (Libc.wcstombs cfg.loc false mem (libcLen cfg a)).ret ∧
      (cfg.fx.rc = true → (wcstombs_s cfg a).ret =
        if (Libc.wcstombs cfg.loc false mem (libcLen cfg a)).ret = SIZE_MAX then EILSEQ else ESNOSPC) := by
  rw [wcstombs_s_eq cfg a hs]
  obtain ⟨⟨h1, h2⟩, h3, h4⟩ := tailB_err cfg a _ true cells hs.dest hs.dpos hs.truthful hfit
  exact ⟨⟨h1, h2⟩, h3, h4⟩

/-- **wcsrtombs_s = wcsrtombs limited to the space available**, including `*srcp`; the terminator is guaranteed in the
slack build, and in the other build only with the `term` repair (see `wcsrtombs_s_terminated_witness`) -/
theorem wcsrtombs_s_C15 (cfg : Cfg) (a : SArgs) {cells mem} (hs : SaneS a cells mem)
    (hfit : (Libc.wcsrtombs cfg.loc false mem (libcLen cfg a)).ret < a.dmax)
    (hpos : 0 < (Libc.wcsrtombs cfg.loc false mem (libcLen cfg a)).ret ∨ cfg.fx.zero = true) :
    Delivered (wcsrtombs_s cfg a) cells a.dmax (Libc.wcsrtombs cfg.loc false mem (libcLen cfg a)) (cfg.slack || cfg.fx.term) ∧
      (wcsrtombs_s cfg a).src = (Libc.wcsrtombs cfg.loc false mem (libcLen cfg a)).src := by
  rw [wcsrtombs_s_eq cfg a hs]
  have hsh := Libc.wcsrtombs_shape cfg.loc mem (libcLen cfg a)
  have hne : (Libc.wcsrtombs cfg.loc false mem (libcLen cfg a)).ret ≠ SIZE_MAX := by
    have := hs.dmaxle; simp only [RSIZE_MAX_WSTR, SIZE_MAX] at *; omega
  have hsh' := hsh.resolve_left hne
  exact tailB_ok cfg a _ _ cells hs.dest hs.truthful hfit hpos hsh'.1 hsh'.2

theorem wcsrtombs_s_reported (cfg : Cfg) (a : SArgs) {cells mem} (hs : SaneS a cells mem)
    (hfit : ¬ ((0 < (Libc.wcsrtombs cfg.loc false mem (libcLen cfg a)).ret ∨ cfg.fx.zero = true) ∧
               (Libc.wcsrtombs cfg.loc false mem (libcLen cfg a)).ret < a.dmax)) :
    Reported (wcsrtombs_s cfg a) cells a.dmax cfg.slack ∧
      (wcsrtombs_s cfg a).retval = some (Libc.wcsrtombs cfg.loc false mem (libcLen cfg a)).ret ∧
      (cfg.fx.rc = true → (wcsrtombs_s cfg a).ret =
        if (Libc.wcsrtombs cfg.loc false mem (libcLen cfg a)).ret = SIZE_MAX then EILSEQ else ESNOSPC) := by
  rw [wcsrtombs_s_eq cfg a hs]
  exact tailB_err cfg a _ _ cells hs.dest hs.dpos hs.truthful hfit

/-! ## 3. no store outside `dest[0..dmax)` -/

/- Full statement (false of the tree as it is): for every sane call, `NoOverflow (f cfg a) a.dmax`. -/

/-- whenever the limit handed to libc is within `dmax`, on EVERY path (success, no space, illegal sequence) -/
theorem string_converters_no_write_outside (cfg : Cfg) (a : SArgs) {cells mem} (hs : SaneS a cells mem)
    (h : libcLen cfg a ≤ a.dmax) :
    NoOverflow (mbstowcs_s cfg a) a.dmax ∧ NoOverflow (mbsrtowcs_s cfg a) a.dmax ∧
    NoOverflow (wcstombs_s cfg a) a.dmax ∧ NoOverflow (wcsrtombs_s cfg a) a.dmax := by
  have m1 := Libc.mbsrtowcs_out_le cfg.loc mem (libcLen cfg a) []
  have m2 := Libc.mbsrtowcs_out_le cfg.loc mem (libcLen cfg a) a.ps
  have w1 := Libc.wcsrtombs_out_le cfg.loc mem (libcLen cfg a)
  refine ⟨?_, ?_, ?_, ?_⟩
  · rw [mbstowcs_s_eq cfg a hs]
    exact tailW_safe cfg a _ 0 _ cells hs.dest hs.dpos hs.truthful (by unfold Libc.mbstowcs; omega)
  · rw [mbsrtowcs_s_eq cfg a hs]
    exact tailW_safe cfg a _ _ _ cells hs.dest hs.dpos hs.truthful (by omega)
  · rw [wcstombs_s_eq cfg a hs]
    exact tailB_safe cfg a _ true cells hs.dest hs.dpos hs.truthful (by unfold Libc.wcstombs; omega)
  · rw [wcsrtombs_s_eq cfg a hs]
    exact tailB_safe cfg a _ _ cells hs.dest hs.dpos hs.truthful (by omega)

/-- the repaired code (fixes/wchar-1-clamp.diff): full statement -/
theorem string_converters_no_write_outside_fixed (cfg : Cfg) (a : SArgs) {cells mem} (hs : SaneS a cells mem)
    (hfx : cfg.fx.clamp = true) :
    NoOverflow (mbstowcs_s cfg a) a.dmax ∧ NoOverflow (mbsrtowcs_s cfg a) a.dmax ∧
    NoOverflow (wcstombs_s cfg a) a.dmax ∧ NoOverflow (wcsrtombs_s cfg a) a.dmax :=
  string_converters_no_write_outside cfg a hs (libcLen_le_dmax_of_clamp cfg a hs hfx)

/-- the tree as it is: under the hypothesis the proof forces, `len ≤ dmax` -/
theorem string_converters_no_write_outside_partial (cfg : Cfg) (a : SArgs) {cells mem} (hs : SaneS a cells mem)
    (hlen : a.len ≤ a.dmax) :
    NoOverflow (mbstowcs_s cfg a) a.dmax ∧ NoOverflow (mbsrtowcs_s cfg a) a.dmax ∧
    NoOverflow (wcstombs_s cfg a) a.dmax ∧ NoOverflow (wcsrtombs_s cfg a) a.dmax :=
  string_converters_no_write_outside cfg a hs (by rw [libcLen_eq_of_le cfg a hlen]; exact hlen)

/-- `mbstowcs_s(&n, dest[1], 1, "a", 2)`: libc stores 'a' and the terminator, one cell beyond dmax = the object: fault -/
theorem string_converters_no_write_outside_witness :
    ¬ NoOverflow (mbstowcs_s { slack := true, loc := .UTF8, fx := unrepaired }
        { dest := some [0x5A], dmax := 1, src := some [0x61, 0], len := 2 }) 1 := by
  intro ⟨d, hd, hf, _⟩
  have : (mbstowcs_s { slack := true, loc := .UTF8, fx := unrepaired }
        { dest := some [0x5A], dmax := 1, src := some [0x61, 0], len := 2 }).dest.map (·.fault) = some true := by decide
  rw [hd] at this
  simp [hf] at this


/-! ## 4. single characters -/

/-- sane arguments of wcrtomb_s / wctomb_s -/
structure SaneC (a : CArgs) (cells : List Nat) : Prop where
  rv : a.retvalNull = false
  ps : a.psNull = false
  dest : a.dest = some cells
  dpos : 0 < a.dmax
  dmaxle : a.dmax ≤ RSIZE_MAX_WSTR
  bos : a.bos = none
  truthful : a.dmax ≤ cells.length

example : SaneC { dest := some [1, 2, 3, 4], dmax := 4, wc := 0x20AC } [1, 2, 3, 4] := ⟨rfl, rfl, rfl, by decide, by decide, rfl, by decide⟩

private theorem entryC_none (a : CArgs) {cells} (hs : SaneC a cells) : entryC a = none := by
  have h1 : ¬ a.dmax = 0 := by have := hs.dpos; omega
  have h2 : ¬ a.dmax > RSIZE_MAX_WSTR := by have := hs.dmaxle; omega
  simp [entryC, hs.dest, h1, hs.bos, h2]

/-- **wcrtomb_s = wcrtomb when the character fits**: for every wide character (valid or not), locale, dmax: if libc's
byte count is < dmax the call returns EOK, that count, exactly libc's bytes followed by a terminator, nothing stored
outside `dest[0..dmax)`; in every other case the handler is called once with the code returned and dest is cleared -/
theorem wcrtomb_s_C15 (cfg : Cfg) (a : CArgs) {cells} (hs : SaneC a cells) :
    let bs := (Libc.wcrtomb cfg.loc false a.wc).1
    let n := (Libc.wcrtomb cfg.loc false a.wc).2.1
    (n < a.dmax → Delivered (wcrtomb_s cfg a) cells a.dmax ⟨bs, n, none, [], false⟩ true) ∧
    (¬ n < a.dmax → Reported (wcrtomb_s cfg a) cells a.dmax cfg.slack ∧ (wcrtomb_s cfg a).retval = some n ∧
      (cfg.fx.rc = true → (wcrtomb_s cfg a).ret = if n = SIZE_MAX then EILSEQ else ESNOSPC)) := by
  intro bs n
  have hbn : n = SIZE_MAX ∨ bs.length = n := by
    show (Libc.wcrtomb cfg.loc false a.wc).2.1 = SIZE_MAX ∨ (Libc.wcrtomb cfg.loc false a.wc).1.length = (Libc.wcrtomb cfg.loc false a.wc).2.1
    simp only [Libc.wcrtomb, Bool.false_eq_true, ↓reduceIte]
    split
    · right; rfl
    · split
      · left; rfl
      · right; rfl
  have hmk : a.dest.map (fun c => ({ cells := c } : D)) = some { cells := cells } := by simp [hs.dest]
  have hd : a.dest.isNone = false := by simp [hs.dest]
  constructor
  · intro hlt
    have hne : n ≠ SIZE_MAX := by have := hs.dmaxle; simp only [RSIZE_MAX_WSTR, SIZE_MAX] at *; omega
    have hlen : bs.length = n := hbn.resolve_left hne
    have hlt' : (Libc.wcrtomb cfg.loc false a.wc).2.1 < a.dmax := hlt
    obtain ⟨k, hk, hk1, hk2⟩ : ∃ k, (if cfg.slack then a.dmax - n else 1) = k ∧ 1 ≤ k ∧ n + k ≤ a.dmax :=
      ⟨_, rfl, by split <;> omega, by split <;> omega⟩
    have key := stored_then_zeroed cells bs n k (by omega) (by omega) hk1 (by have := hs.truthful; omega)
    have hdest : (wcrtomb_s cfg a).dest = some ((({ cells := cells } : D).write 0 bs).zero n k) := by
      rw [← hk]
      cases hsl : cfg.slack <;> cases hst : cfg.fx.stage <;>
        simp [wcrtomb_s, hs.rv, hs.ps, entryC_none a hs, hd, hmk, hlt', hsl, hst] <;> rfl
    have hret : (wcrtomb_s cfg a).ret = EOK ∧ (wcrtomb_s cfg a).retval = some n ∧ (wcrtomb_s cfg a).ev = [] := by
      cases hsl : cfg.slack <;> cases hst : cfg.fx.stage <;>
        simp [wcrtomb_s, hs.rv, hs.ps, entryC_none a hs, hd, hmk, hlt', hsl, hst] <;> rfl
    have := key.2.1
    exact ⟨hret.1, hret.2.1, hret.2.2, _, hdest, key.1, by omega, key.2.2.1, key.2.2.2.1,
      fun _ => key.2.2.2.2 n (Nat.le_refl _) (by omega)⟩
  · intro hlt
    have hlt' : ¬ (Libc.wcrtomb cfg.loc false a.wc).2.1 < a.dmax := hlt
    obtain ⟨w, hw⟩ : ∃ w : List Nat, (wcrtomb_s cfg a).dest = some (clearCells cfg.slack (({ cells := cells } : D).write 0 w) a.dmax) := by
      cases hst : cfg.fx.stage
      · exact ⟨bs, by simp [wcrtomb_s, hs.rv, hs.ps, entryC_none a hs, hd, hmk, hlt', hst]; rfl⟩
      · exact ⟨[], by simp [wcrtomb_s, hs.rv, hs.ps, entryC_none a hs, hd, hmk, hlt', hst, D.write]⟩
    have key := stored_then_cleared cfg.slack cells w a.dmax hs.dpos hs.truthful
    have hev : (wcrtomb_s cfg a).ev = [(wcrtomb_s cfg a).ret] ∧ (wcrtomb_s cfg a).retval = some n := by
      simp [wcrtomb_s, hs.rv, hs.ps, entryC_none a hs, hd, hmk, hlt']; rfl
    refine ⟨⟨hev.1, _, hw, key.1, key.2.1, key.2.2⟩, hev.2, ?_⟩
    intro hrc
    simp [wcrtomb_s, hs.rv, hs.ps, entryC_none a hs, hd, hmk, hlt', hrc]; rfl

/-! ## 5. what the tree as it is gets wrong: kernel-checked witnesses (each replayed on the real C by the check) -/

/-- wcrtomb_s(dest[1], dmax = 1, U+0080): libc stores 2 bytes before the length is looked at -/
theorem wcrtomb_s_no_write_outside_witness :
    (wcrtomb_s { slack := true, loc := .UTF8, fx := unrepaired } { dest := some [0x50], dmax := 1, wc := 0x80 }).dest.map (·.fault) = some true := by
  decide
/-- repaired (fixes/wchar-2-stage.diff): the same call reports ESNOSPC without touching anything beyond dmax -/
theorem wcrtomb_s_no_write_outside_fixed_example :
    (wcrtomb_s { slack := true, loc := .UTF8, fx := allFixed } { dest := some [0x50], dmax := 1, wc := 0x80 }).dest.map (fun d => (d.fault, d.hi)) = some (false, 1) := by
  decide
theorem wctomb_s_no_write_outside_witness :
    (wctomb_s { slack := true, loc := .UTF8, fx := unrepaired } { dest := some [0x50], dmax := 1, wc := 0x80 }).dest.map (·.fault) = some true := by
  decide

/-- mbsrtowcs_s("a" E2 82 "z", len = 2): libc fails inside the 3-byte character whose first two bytes it had consumed;
the re-scan from 'z' succeeds and the function returns EOK (handler called with code 0) -/
theorem mbsrtowcs_s_invalid_reported_witness :
    let o := mbsrtowcs_s { slack := true, loc := .UTF8, fx := unrepaired }
      { dest := some [9, 9, 9, 9, 9], dmax := 5, src := some [0x61, 0xE2, 0x82, 0x7A, 0], len := 2 }
    o.ret = EOK ∧ o.retval = some SIZE_MAX ∧ o.ev = [0] ∧ o.st = [0xE2, 0x82] := by
  decide
/-- repaired (fixes/wchar-3-rc.diff): EILSEQ -/
theorem mbsrtowcs_s_invalid_reported_fixed_example :
    (mbsrtowcs_s { slack := true, loc := .UTF8, fx := allFixed }
      { dest := some [9, 9, 9, 9, 9], dmax := 5, src := some [0x61, 0xE2, 0x82, 0x7A, 0], len := 2 }).ret = EILSEQ := by
  decide

/-- the conversion state is NOT initial after that failed call (glibc keeps the pending bytes; the wrapper passes
them on) — in the repaired code too: known finding `mbsrtowcs_s-state-left-pending-after-error` -/
theorem mbsrtowcs_s_state_usable_witness :
    (mbsrtowcs_s { slack := true, loc := .UTF8, fx := allFixed }
      { dest := some [9, 9], dmax := 2, src := some [0x41, 0], len := 1, ps := [0xE2] }).st ≠ [] := by
  decide

/-- size query with a stale errno: mbsrtowcs_s(&n, NULL, 0, &"ab", …) with errno = 34 on entry returns 34 -/
theorem mbsrtowcs_s_query_code_witness :
    (mbsrtowcs_s { slack := true, loc := .UTF8, fx := unrepaired }
      { dest := none, dmax := 0, src := some [0x61, 0x62, 0], len := 0, errno0 := 34 }).ret = 34 := by
  decide
theorem mbsrtowcs_s_query_code_fixed_example :
    let o := mbsrtowcs_s { slack := true, loc := .UTF8, fx := allFixed }
      { dest := none, dmax := 0, src := some [0x61, 0x62, 0], len := 0, errno0 := 34 }
    o.ret = EOK ∧ o.retval = some 2 := by
  decide

/-- wcstombs_s of the empty wide string: libc converts 0 bytes, which fit, yet ESNOSPC and a handler call -/
theorem wcstombs_s_empty_witness :
    let o := wcstombs_s { slack := true, loc := .UTF8, fx := unrepaired } { dest := some [0x50], dmax := 1, src := some [0], len := 1 }
    o.ret = ESNOSPC ∧ o.ev = [ESNOSPC] := by
  decide
theorem wcstombs_s_empty_fixed_example :
    let o := wcstombs_s { slack := true, loc := .UTF8, fx := allFixed } { dest := some [0x50], dmax := 1, src := some [0], len := 1 }
    o.ret = EOK ∧ o.retval = some 0 ∧ o.dest.map (·.cells) = some [0] := by
  decide

/-- wcsrtombs_s without SAFECLIB_STR_NULL_SLACK, len = 2 = the converted length: EOK, dest[2] still holds 0x52 -/
theorem wcsrtombs_s_terminated_witness :
    let o := wcsrtombs_s { slack := false, loc := .UTF8, fx := unrepaired }
      { dest := some [0x50, 0x51, 0x52, 0x53], dmax := 4, src := some [0x61, 0x62, 0], len := 2 }
    o.ret = EOK ∧ o.dest.map (·.cells) = some [0x61, 0x62, 0x52, 0x53] := by
  decide

/-- mbstowcs_s(&n, NULL, 3, NULL, 3): the clearing store goes through the NULL dest -/
theorem mbstowcs_s_null_src_witness :
    (mbstowcs_s { slack := true, loc := .UTF8, fx := unrepaired } { dest := none, dmax := 3, src := none, len := 3 }).nullw = true := by
  decide

end SafeC.Props.C15

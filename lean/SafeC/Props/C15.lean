import SafeC.Models.Copy
/-! Property theorems for C15 (see DESIGN.md §4). -/
namespace SafeC.Props.C15
end SafeC.Props.C15

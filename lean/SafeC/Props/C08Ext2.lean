import SafeC.Props.C08Ext
import SafeC.Proofs.ExtNarrow
import SafeC.Proofs.ExtInplace
/-! # C08 (extension 2): the narrow copy family with the object sizes known or unknown

`strcpy_s strncpy_s strcat_s strncat_s`, statement (a) of `Props/C08Ext.lean`: EVERY placement of src, EVERY content,
`cfg` arbitrary, `destbos` / `srcbos` unknown or known: on EOK there is `t < dmax` with `dest[0..t)` non-zero,
`dest[t] = 0` (so `t` IS the terminator) and, with null-slack, `dest[t..dmax) = 0` (`Clean`).

* `strcat_s_C08`, `strncat_s_C08` (incl. `slen = 0`: EOK there means dest was cleared): FULL.
* `strcpy_s`: FALSE of the code for `dest == src` (recorded `same-pointer-shortcut`: EOK, nothing nulled):
  `strcpy_s_C08_partial` has `dest ≠ src`, `strcpy_s_C08_witness` the excluded point.
* `strncpy_s`: FALSE of the code for `slen = 0` (recorded `strncpy-slen0-shortcut`: EOK, only `dest[0]` zeroed):
  `strncpy_s_C08_partial` has `slen ≠ 0`, `strncpy_s_C08_witness` the excluded point.
-/
namespace SafeC.Props.C08Ext2
open SafeC Gen SafeC.Props.C01 SafeC.Props.C08Ext

/- FULL statement (FALSE of the code for dest = src, see `strcpy_s_C08_witness`): the same without `hne`. -/
theorem strcpy_s_C08_partial (cfg : Cfg) (dest dmax src : Nat) (destbos : Bos) (st : St) (hs : Setting st)
    (hrw : RW st dest dmax) (hd : dest ≠ 0) (hpos : 0 < dmax) (hle : dmax ≤ RSIZE_MAX_STR)
    (hb : ∀ b, destbos = some b → dmax ≤ b) (hne : dest ≠ src) :
    ∃ code st', exec (strcpy_s cfg dest dmax src destbos) st = .ok (code, st') ∧
      (code = EOK → Clean cfg dest dmax st') := by
  obtain ⟨code, st', he, _, hq⟩ := strcpy_s_ext cfg dest dmax src destbos st hs.all (fun _ => hrw)
  exact ⟨code, st', he, fun hc => ((hq ⟨hd, hpos, hle, hb⟩).1 hne).2 trivial hc⟩

/-- dest = "a\0b" (3 cells at 100) -/
def wS : St :=
  { data := fun a => if a = 100 then 97 else if a = 102 then 98 else 0
    mapped := fun _ => true, rd := fun _ => true
    wr := fun a => decide (100 ≤ a ∧ a < 103) }

/-- the excluded point: `strcpy_s(d, 3, d)` on d = "a\0b", null-slack build: EOK, untouched — the stale 'b' remains
behind the terminator -/
theorem strcpy_s_C08_witness :
    exec (strcpy_s { slack := true } 100 3 100 none) wS = .ok (EOK, wS) ∧
      wS.data 101 = 0 ∧ wS.data 102 = 98 ∧ ¬ Clean { slack := true } 100 3 wS := by
  refine ⟨rfl, by simp [wS], by simp [wS], ?_⟩
  intro ⟨t, ht, hnz, hz, hsl⟩
  have h2 := hsl rfl 2
  have : t = 0 ∨ t = 1 ∨ t = 2 := by omega
  rcases this with rfl | rfl | rfl
  · simp [wS] at hz
  · have := h2 (by omega) (by omega); simp [wS] at this
  · simp [wS] at hz

/- FULL statement (FALSE of the code for slen = 0, see `strncpy_s_C08_witness`): the same without `hslen`. -/
theorem strncpy_s_C08_partial (cfg : Cfg) (dest dmax src slen : Nat) (destbos srcbos : Bos) (st : St) (hs : Setting st)
    (hrw : RW st dest dmax) (hd : dest ≠ 0) (hpos : 0 < dmax) (hle : dmax ≤ RSIZE_MAX_STR)
    (hb : ∀ b, destbos = some b → dmax ≤ b) (hsb : ∀ sb, srcbos = some sb → slen ≤ sb) (hslen : slen ≠ 0) :
    ∃ code st', exec (strncpy_s cfg dest dmax src slen destbos srcbos) st = .ok (code, st') ∧
      (code = EOK → Clean cfg dest dmax st') := by
  obtain ⟨code, st', he, _, hq⟩ := strncpy_s_ext cfg dest dmax src slen destbos srcbos st hs.all (fun _ => hrw) hsb
  exact ⟨code, st', he, fun hc => (hq ⟨hd, hpos, hle, hb⟩).2 hslen hc⟩

/-- dest = "ab" (2 cells at 100) -/
def wN : St :=
  { data := fun a => if a = 100 then 97 else if a = 101 then 98 else 0
    mapped := fun _ => true, rd := fun _ => true
    wr := fun a => decide (100 ≤ a ∧ a < 102) }

/-- the excluded point: `strncpy_s(d, 2, src, 0)` on d = "ab", null-slack build: EOK, `d[0] = 0` and the stale 'b'
remains behind the terminator -/
theorem strncpy_s_C08_witness :
    ∃ st', exec (strncpy_s { slack := true } 100 2 200 0 none none) wN = .ok (EOK, st') ∧
      st'.data 100 = 0 ∧ st'.data 101 = 98 := by
  refine ⟨_, rfl, ?_⟩
  simp [wN, St.upd, St.noteWr]

/-- strcat_s, every src/placement/content, object size known or unknown, both builds -/
theorem strcat_s_C08 (cfg : Cfg) (dest dmax src : Nat) (destbos : Bos) (st : St) (hs : Setting st)
    (hrw : RW st dest dmax) (hd : dest ≠ 0) (hpos : 0 < dmax) (hle : dmax ≤ RSIZE_MAX_STR)
    (hb : ∀ b, destbos = some b → dmax ≤ b) :
    ∃ code st', exec (strcat_s cfg dest dmax src destbos) st = .ok (code, st') ∧
      (code = EOK → Clean cfg dest dmax st') := by
  obtain ⟨code, st', he, _, hq⟩ := strcat_s_ext cfg dest dmax src destbos st hs.all (fun _ => hrw)
  exact ⟨code, st', he, fun hc => (hq ⟨hd, hpos, hle, hb⟩).2 trivial hc⟩

/-- strncat_s, every src/slen (slen = 0 included: EOK means dest was cleared)/placement/content -/
theorem strncat_s_C08 (cfg : Cfg) (dest dmax src slen : Nat) (destbos srcbos : Bos) (st : St) (hs : Setting st)
    (hrw : RW st dest dmax) (hd : dest ≠ 0) (hpos : 0 < dmax) (hle : dmax ≤ RSIZE_MAX_STR)
    (hb : ∀ b, destbos = some b → dmax ≤ b) (hsb : ∀ sb, srcbos = some sb → slen ≤ sb) :
    ∃ code st', exec (strncat_s cfg dest dmax src slen destbos srcbos) st = .ok (code, st') ∧
      (code = EOK → Clean cfg dest dmax st') := by
  obtain ⟨code, st', he, _, hq⟩ := strncat_s_ext cfg dest dmax src slen destbos srcbos st hs.all (fun _ => hrw) hsb
  exact ⟨code, st', he, fun hc => (hq ⟨hd, hpos, hle, hb⟩).2 trivial hc⟩

/-- the hypotheses are satisfiable: dest = 5 writable cells at 100 inside an object of 8, src = "ab" at 200 inside an
object of 3, slen = 2 -/
example : Setting exSt ∧ RW exSt 100 5 ∧ (100 : Nat) ≠ 0 ∧ 0 < 5 ∧ 5 ≤ RSIZE_MAX_STR ∧
    (∀ b, (some 8 : Bos) = some b → 5 ≤ b) ∧ (∀ sb, (some 3 : Bos) = some sb → 2 ≤ sb) ∧ (2 : Nat) ≠ 0 ∧
    (100 : Nat) ≠ 200 := by
  refine ⟨⟨fun _ => ⟨rfl, rfl⟩, rfl⟩, fun i hi => ⟨rfl, ?_, rfl⟩, by decide, by decide, by decide, ?_, ?_, by decide,
    by decide⟩
  · simp [exSt]; omega
  · intro b h; cases h; decide
  · intro b h; cases h; decide

/-! ## strzero_s

`strzero_s` walks to the first NUL (at most `dmax` cells) storing zeros, then — null-slack build, if the cell it stopped
at holds a NUL — nulls the rest.  `strzero_s_C08_exact` is the whole outcome for EVERY content keyed on `m` = index of
the first NUL within `dmax` (`m = dmax`: none); `strzero_s_C08` the C08 clause (`Clean` with the terminator at index 0);
`strzero_s_C08_noterm` the case "no NUL is met": all `dmax` cells are zero in BOTH builds. -/

/-- strzero_s, usable dest, every content, both builds: EOK; exactly the cells `dest[0..dmax)` (null-slack) resp.
`dest[0..m)` (no slack; `m` = first NUL of the old dest, `dmax` if none) are zeroed, every other cell is unchanged -/
theorem strzero_s_C08_exact (cfg : Cfg) (dest dmax m : Nat) (destbos : Bos) (st : St) (hs : Setting st)
    (hrw : RW st dest dmax) (hd : dest ≠ 0) (hpos : 0 < dmax) (hle : dmax ≤ RSIZE_MAX_STR)
    (hb : ∀ b, destbos = some b → dmax ≤ b) (hm : m ≤ dmax)
    (hnz : ∀ j, j < m → st.data (dest + j) ≠ 0) (hz : m < dmax → st.data (dest + m) = 0) :
    ∃ st', exec (strzero_s cfg dest dmax destbos) st = .ok (EOK, st') ∧ SameMeta st' st ∧
      ∀ a, st'.data a = if dest ≤ a ∧ a < dest + (if cfg.slack then dmax else m) then 0 else st.data a := by
  obtain ⟨code, st', he, hok, _, hiff⟩ := strzero_s_spec cfg dest dmax m destbos st hrw hm hnz
    (by
      by_cases h : m < dmax
      · exact Or.inl ⟨h, hz h⟩
      · exact Or.inr ⟨by omega, fun _ => hs.all _⟩)
  have hc : code = EOK := hiff.2 ⟨hd, by omega, strDmaxOk_of dmax destbos hle hb⟩
  subst hc
  exact ⟨st', he, (hok rfl).same, (hok rfl).data⟩

/-- strzero_s, usable dest, EVERY content (a NUL within dmax or not), both builds: EOK and the result is the empty
string with nothing stale behind its terminator in the null-slack build -/
theorem strzero_s_C08 (cfg : Cfg) (dest dmax : Nat) (destbos : Bos) (st : St) (hs : Setting st)
    (hrw : RW st dest dmax) (hd : dest ≠ 0) (hpos : 0 < dmax) (hle : dmax ≤ RSIZE_MAX_STR)
    (hb : ∀ b, destbos = some b → dmax ≤ b) :
    ∃ st', exec (strzero_s cfg dest dmax destbos) st = .ok (EOK, st') ∧ Clean cfg dest dmax st' := by
  obtain ⟨st', he, h0, hall, _, _⟩ := strzero_s_ok cfg dest dmax destbos st hs.all hrw hd hpos hle hb
  exact ⟨st', he, 0, hpos, fun i hi => by omega, by simpa using h0, fun hsl i _ hi => hall hsl i hi⟩

/-- strzero_s when NO NUL is met in `dest[0..dmax)`: EOK and all `dmax` cells are zero in BOTH builds, nothing else
changed (the set loop itself stores the `dmax` zeros; the slack block then reads `dest[dmax]` and clears 0 cells) -/
theorem strzero_s_C08_noterm (cfg : Cfg) (dest dmax : Nat) (destbos : Bos) (st : St) (hs : Setting st)
    (hrw : RW st dest dmax) (hd : dest ≠ 0) (hpos : 0 < dmax) (hle : dmax ≤ RSIZE_MAX_STR)
    (hb : ∀ b, destbos = some b → dmax ≤ b) (hnz : ∀ j, j < dmax → st.data (dest + j) ≠ 0) :
    ∃ st', exec (strzero_s cfg dest dmax destbos) st = .ok (EOK, st') ∧
      (∀ i, i < dmax → st'.data (dest + i) = 0) ∧
      (∀ a, ¬ (dest ≤ a ∧ a < dest + dmax) → st'.data a = st.data a) := by
  obtain ⟨st', he, _, hdat⟩ := strzero_s_C08_exact cfg dest dmax dmax destbos st hs hrw hd hpos hle hb
    (Nat.le_refl _) hnz (fun h => absurd h (Nat.lt_irrefl _))
  have e : (if cfg.slack then dmax else dmax) = dmax := by split <;> rfl
  rw [e] at hdat
  refine ⟨st', he, fun i hi => ?_, fun a ha => ?_⟩
  · rw [hdat (dest + i), if_pos ⟨by omega, by omega⟩]
  · rw [hdat a, if_neg ha]

/-- dest = "wxyz" without terminator (4 writable cells at 100) -/
def zSt : St :=
  { data := fun a => if 100 ≤ a ∧ a < 104 then 119 else 0
    mapped := fun _ => true, rd := fun _ => true
    wr := fun a => decide (100 ≤ a ∧ a < 104) }

/-- the hypotheses of `strzero_s_C08_noterm` are satisfiable -/
example : Setting zSt ∧ RW zSt 100 4 ∧ (∀ j, j < 4 → zSt.data (100 + j) ≠ 0) := by
  refine ⟨⟨fun _ => ⟨rfl, rfl⟩, rfl⟩, fun i hi => ⟨rfl, ?_, rfl⟩, fun j hj => ?_⟩
  · simp [zSt]; omega
  · have : 100 ≤ 100 + j ∧ 100 + j < 104 := by omega
    simp [zSt, this]

end SafeC.Props.C08Ext2

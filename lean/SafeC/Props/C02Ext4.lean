import SafeC.Proofs.C02GlueMem
import SafeC.Props.C02Ext3
/-!
# C02 for the memory family of `Models/Mem.lean`

`memcpy_s memmove_s memset_s memzero_s memzero16_s memzero32_s memset16_s memset32_s memcpy16_s memcpy32_s memmove16_s
memmove32_s memccpy_s wmemcpy_s wmemmove_s`.

Setting as in `C02Ext3`: ONLY what the hypotheses name is mapped; `Runs p st`: the call returns (nothing unmapped was
touched) and records no stray access — for all arguments (every size, null pointers, object sizes known or unknown),
every content of memory, every alignment and every relative placement of the operands.  The footprints come from the
value-independent judgement `Acc` (`Proofs/AccMem.lean`), phase by phase through the primitives (alignment prologue,
64-bit word loop, 16-way unrolled blocks, tails, both copy directions).

Units are those of the C parameters: `dmax`/`destbos` of the 16/32-bit functions are BYTES, `slen`/`n`/`len` ELEMENTS;
model memory is addressed in cells of the element width.

* The setters (`memset_s memzero_s memzero16_s memzero32_s memset16_s memset32_s`) perform NO load: their theorems
  ask for dest to be mapped and WRITABLE only (`WO`), and `…_noload` states the footprint with the empty readable set.
* `memset_s memset16_s memset32_s memcpy16_s memcpy32_s memmove16_s memmove32_s` do `dmax = destbos` when the object
  size is known: what they may clear or fill is `destbos.getD dmax` bytes — that is the declared extent of dest.
* `memcpy16_s memcpy32_s memmove16_s memmove32_s` clear dest BYTE-wise on their error paths (`handle_mem_error`,
  `mem_prim_set`): when the byte size is not a multiple of the element size the last element is partially covered and
  is read-modify-written; dest is `⌈bytes / w⌉` cells, readable and writable.
* `memcpy_s`, `memmove_s`: `_partial`, see there (a `uint32_t` truncation in `mem_prim_move`).
-/
namespace SafeC.Props.C02
open SafeC Gen Mem

/-! ## byte cells -/

/-
The FULL statement
```
theorem memcpy_s_C02 (hd : dest ≠ 0 → RW st dest dmax) (hs : src ≠ 0 → slen ≤ dmax → RD st src slen) :
    Runs (memcpy_s dest dmax src slen db sb) st
```
is false of the model (and of the C code): `mem_prim_move` takes its length as `uint32_t`.  Without a known object size
`dmax ≤ RSIZE_MAX_MEM < 2^32` keeps `slen` below `2^32`; with a known one `CHK_DEST_MEM_OVR` only compares `dmax` with
`destbos`, so `slen` may be a nonzero multiple of `2^32`: `mem_prim_move` is entered with `len = 0`, and with unaligned
pointers its `do … while (--tsp)` prologue starts at `tsp = 0` and runs `2^64` times (`doWhileCount 0 = U64`).
-/
/-- **memcpy_s** (`_partial`: `hU`, vacuous when the object size is unknown): loads inside the `slen` source bytes (and
only when `slen ≤ dmax`), stores inside the `dmax` bytes of dest — which need NOT be readable -/
theorem memcpy_s_C02_partial (dest dmax src slen : Nat) (db sb : Bos) (st : St)
    (hU : db = none ∨ slen % U32 ≠ 0)
    (hd : dest ≠ 0 → WO st dest dmax) (hs : src ≠ 0 → slen ≤ dmax → RD st src slen) :
    Runs (memcpy_s dest dmax src slen db sb) st :=
  runs_of_Acc (Acc_memcpy_s dest dmax src slen db sb hU (fun h hle => Rd_of_RD (hs h hle)) (fun h => Wr_of_WO (hd h)))

/-- **memmove_s** (`_partial`, same reason as `memcpy_s`) -/
theorem memmove_s_C02_partial (dest dmax src slen : Nat) (db sb : Bos) (st : St)
    (hU : db = none ∨ slen % U32 ≠ 0)
    (hd : dest ≠ 0 → WO st dest dmax) (hs : src ≠ 0 → slen ≤ dmax → RD st src slen) :
    Runs (memmove_s dest dmax src slen db sb) st :=
  runs_of_Acc (Acc_memmove_s dest dmax src slen db sb hU (fun h hle => Rd_of_RD (hs h hle)) (fun h => Wr_of_WO (hd h)))

/-- the FULL statement for callers without object-size information (`memcpy_s` proper, not `_memcpy_s_chk` with a
known `destbos`) -/
theorem memcpy_s_C02 (dest dmax src slen : Nat) (sb : Bos) (st : St)
    (hd : dest ≠ 0 → WO st dest dmax) (hs : src ≠ 0 → slen ≤ dmax → RD st src slen) :
    Runs (memcpy_s dest dmax src slen none sb) st :=
  memcpy_s_C02_partial dest dmax src slen none sb st (Or.inl rfl) hd hs

theorem memmove_s_C02 (dest dmax src slen : Nat) (sb : Bos) (st : St)
    (hd : dest ≠ 0 → WO st dest dmax) (hs : src ≠ 0 → slen ≤ dmax → RD st src slen) :
    Runs (memmove_s dest dmax src slen none sb) st :=
  memmove_s_C02_partial dest dmax src slen none sb st (Or.inl rfl) hd hs

/-- **memset_s** (FULL): no load; stores inside the `destbos.getD dmax` bytes of dest -/
theorem memset_s_noload (dest dmax value n : Nat) (db : Bos) (st : St) (hd : dest ≠ 0 → WO st dest (db.getD dmax)) :
    Acc (fun _ => False) (Wr st) (memset_s dest dmax value n db) (fun _ => True) :=
  Acc_memset_s dest dmax value n db (fun h => Wr_of_WO (hd h))

theorem memset_s_C02 (dest dmax value n : Nat) (db : Bos) (st : St) (hd : dest ≠ 0 → WO st dest (db.getD dmax)) :
    Runs (memset_s dest dmax value n db) st := runs_of_Acc_noload (memset_s_noload dest dmax value n db st hd)

/-- **memzero_s** (FULL): no load; stores inside the `len` bytes of dest -/
theorem memzero_s_noload (dest len : Nat) (db : Bos) (st : St) (hd : dest ≠ 0 → WO st dest len) :
    Acc (fun _ => False) (Wr st) (memzero_s dest len db) (fun _ => True) :=
  Acc_memzero_s dest len db (fun h => Wr_of_WO (hd h))

theorem memzero_s_C02 (dest len : Nat) (db : Bos) (st : St) (hd : dest ≠ 0 → WO st dest len) :
    Runs (memzero_s dest len db) st := runs_of_Acc_noload (memzero_s_noload dest len db st hd)

/-- **memccpy_s** (FULL): loads inside the `n` source bytes (only when `n ≤ dmax`) and inside dest (every byte stored is
read back for the comparison with `c`), stores inside the `dmax` bytes of dest -/
theorem memccpy_s_C02 (cfg : Cfg) (dest dmax src c n : Nat) (db sb : Bos) (st : St)
    (hd : dest ≠ 0 → RW st dest dmax) (hs : src ≠ 0 → n ≤ dmax → RD st src n) :
    Runs (memccpy_s cfg dest dmax src c n db sb) st :=
  runs_of_Acc (Acc_memccpy_s cfg dest dmax src c n db sb (fun h hle => Rd_of_RD (hs h hle))
    (fun h => Rd_of_RW (hd h)) (fun h => Wr_of_RW (hd h)))

/-! ## 16/32-bit elements -/

/-- **memzero16_s** (FULL): no load; stores inside the `len` elements of dest -/
theorem memzero16_s_noload (dest len : Nat) (db : Bos) (st : St) (hd : dest ≠ 0 → WO st dest len) :
    Acc (fun _ => False) (Wr st) (memzero16_s dest len db) (fun _ => True) :=
  Acc_memzero16_s dest len db (fun h => Wr_of_WO (hd h))
theorem memzero16_s_C02 (dest len : Nat) (db : Bos) (st : St) (hd : dest ≠ 0 → WO st dest len) :
    Runs (memzero16_s dest len db) st := runs_of_Acc_noload (memzero16_s_noload dest len db st hd)

/-- **memzero32_s** (FULL) -/
theorem memzero32_s_noload (dest len : Nat) (db : Bos) (st : St) (hd : dest ≠ 0 → WO st dest len) :
    Acc (fun _ => False) (Wr st) (memzero32_s dest len db) (fun _ => True) :=
  Acc_memzero32_s dest len db (fun h => Wr_of_WO (hd h))
theorem memzero32_s_C02 (dest len : Nat) (db : Bos) (st : St) (hd : dest ≠ 0 → WO st dest len) :
    Runs (memzero32_s dest len db) st := runs_of_Acc_noload (memzero32_s_noload dest len db st hd)

/-- **memset16_s** (FULL): no load; stores inside the `⌊destbos.getD dmax / 2⌋` elements of dest -/
theorem memset16_s_noload (dest dmax value n : Nat) (db : Bos) (st : St)
    (hd : dest ≠ 0 → WO st dest (db.getD dmax / 2)) :
    Acc (fun _ => False) (Wr st) (memset16_s dest dmax value n db) (fun _ => True) :=
  Acc_memset16_s dest dmax value n db (fun h => Wr_of_WO (hd h))
theorem memset16_s_C02 (dest dmax value n : Nat) (db : Bos) (st : St)
    (hd : dest ≠ 0 → WO st dest (db.getD dmax / 2)) :
    Runs (memset16_s dest dmax value n db) st := runs_of_Acc_noload (memset16_s_noload dest dmax value n db st hd)

/-- **memset32_s** (FULL) -/
theorem memset32_s_noload (dest dmax value n : Nat) (db : Bos) (st : St)
    (hd : dest ≠ 0 → WO st dest (db.getD dmax / 4)) :
    Acc (fun _ => False) (Wr st) (memset32_s dest dmax value n db) (fun _ => True) :=
  Acc_memset32_s dest dmax value n db (fun h => Wr_of_WO (hd h))
theorem memset32_s_C02 (dest dmax value n : Nat) (db : Bos) (st : St)
    (hd : dest ≠ 0 → WO st dest (db.getD dmax / 4)) :
    Runs (memset32_s dest dmax value n db) st := runs_of_Acc_noload (memset32_s_noload dest dmax value n db st hd)

/-- **memcpy16_s** (FULL): loads inside the `slen` source elements and (read-modify-write of a partially covered last
element on the clearing paths) inside dest; stores inside the `⌈destbos.getD dmax / 2⌉` elements of dest -/
theorem memcpy16_s_C02 (dest dmax src slen : Nat) (db sb : Bos) (st : St)
    (hd : dest ≠ 0 → RW st dest ((db.getD dmax + 1) / 2)) (hs : src ≠ 0 → RD st src slen) :
    Runs (memcpy16_s dest dmax src slen db sb) st :=
  runs_of_Acc (Acc_memcpy16_s dest dmax src slen db sb (fun h => Rd_of_RD (hs h))
    (fun h => Rd_of_RW (hd h)) (fun h => Wr_of_RW (hd h)))

/-- **memcpy32_s** (FULL) -/
theorem memcpy32_s_C02 (dest dmax src slen : Nat) (db sb : Bos) (st : St)
    (hd : dest ≠ 0 → RW st dest ((db.getD dmax + 3) / 4)) (hs : src ≠ 0 → RD st src slen) :
    Runs (memcpy32_s dest dmax src slen db sb) st :=
  runs_of_Acc (Acc_memcpy32_s dest dmax src slen db sb (fun h => Rd_of_RD (hs h))
    (fun h => Rd_of_RW (hd h)) (fun h => Wr_of_RW (hd h)))

/-- **memmove16_s** (FULL) -/
theorem memmove16_s_C02 (dest dmax src slen : Nat) (db sb : Bos) (st : St)
    (hd : dest ≠ 0 → RW st dest ((db.getD dmax + 1) / 2)) (hs : src ≠ 0 → RD st src slen) :
    Runs (memmove16_s dest dmax src slen db sb) st :=
  runs_of_Acc (Acc_memmove16_s dest dmax src slen db sb (fun h => Rd_of_RD (hs h))
    (fun h => Rd_of_RW (hd h)) (fun h => Wr_of_RW (hd h)))

/-- **memmove32_s** (FULL) -/
theorem memmove32_s_C02 (dest dmax src slen : Nat) (db sb : Bos) (st : St)
    (hd : dest ≠ 0 → RW st dest ((db.getD dmax + 3) / 4)) (hs : src ≠ 0 → RD st src slen) :
    Runs (memmove32_s dest dmax src slen db sb) st :=
  runs_of_Acc (Acc_memmove32_s dest dmax src slen db sb (fun h => Rd_of_RD (hs h))
    (fun h => Rd_of_RW (hd h)) (fun h => Wr_of_RW (hd h)))

/-! ## `wchar_t` -/

/-- **wmemcpy_s** (FULL): loads inside the `count` source elements, stores inside the `dlen` elements of dest (which need
not be readable: `dlen * 4` bytes never leave a partial element) -/
theorem wmemcpy_s_C02 (dest dlen src count : Nat) (db sb : Bos) (st : St)
    (hd : dest ≠ 0 → WO st dest dlen) (hs : src ≠ 0 → RD st src count) :
    Runs (wmemcpy_s dest dlen src count db sb) st :=
  runs_of_Acc (Acc_wmemcpy_s dest dlen src count db sb (fun h => Rd_of_RD (hs h)) (fun h => Wr_of_WO (hd h)))

/-- **wmemmove_s** (FULL) -/
theorem wmemmove_s_C02 (dest dlen src count : Nat) (db sb : Bos) (st : St)
    (hd : dest ≠ 0 → WO st dest dlen) (hs : src ≠ 0 → RD st src count) :
    Runs (wmemmove_s dest dlen src count db sb) st :=
  runs_of_Acc (Acc_wmemmove_s dest dlen src count db sb (fun h => Rd_of_RD (hs h)) (fun h => Wr_of_WO (hd h)))

/-- `[lo₁, hi₁)` mapped, readable and writable; `[lo₂, hi₂)` mapped and readable; nothing else mapped -/
def win2 (f : Nat → Nat) (lo₁ hi₁ lo₂ hi₂ : Nat) : St :=
  { data := f
    mapped := fun a => decide ((lo₁ ≤ a ∧ a < hi₁) ∨ (lo₂ ≤ a ∧ a < hi₂))
    rd := fun a => decide ((lo₁ ≤ a ∧ a < hi₁) ∨ (lo₂ ≤ a ∧ a < hi₂))
    wr := fun a => decide (lo₁ ≤ a ∧ a < hi₁) }

/-! ## witness: the full statement of `memcpy_s` is false with a known object size of `2^32` bytes or more -/

/-- **memcpy_s**, object size known: `dest` (2^32 bytes at 1, writable) and `src` (2^32 bytes at 2^33, readable) declared
exactly, disjoint, `dmax = slen = destbos = 2^32`: every check passes, `mem_prim_move` truncates the length to 0 and its
unaligned prologue copies until it leaves the source object — the call does not return normally -/
theorem memcpy_s_C02_bos_witness :
    RW (win2 (fun _ => 0) 1 4294967297 8589934592 12884901888) 1 4294967296 ∧
    RD (win2 (fun _ => 0) 1 4294967297 8589934592 12884901888) 8589934592 4294967296 ∧
    ¬ Runs (memcpy_s 1 4294967296 8589934592 4294967296 (some 4294967296) none)
        (win2 (fun _ => 0) 1 4294967297 8589934592 12884901888) := by
  refine ⟨fun i hi => by simp [win2]; omega, fun i hi => by simp [win2]; omega, ?_⟩
  rintro ⟨r, st', he, _⟩
  have e1 : memcpy_s 1 4294967296 8589934592 4294967296 (some 4294967296) none =
      (do mem_prim_move 1 8589934592 4294967296; pure EOK) := by
    simp [memcpy_s, chkDmaxMemB, exceeds, ovrlpButSame, U64]
  rw [e1] at he
  obtain ⟨_, s1, h1⟩ := exec_bind_ok he
  simp [mem_prim_move, U32] at h1
  obtain ⟨_, s2, h2⟩ := exec_bind_ok h1
  simp [moveFwdAlign, doWhileCount, U64] at h2
  obtain ⟨_, s3, h3⟩ := exec_bind_ok h2
  have := copyFwd_ok_mapped _ _ _ _ h3 4294967296 (by omega)
  simp [win2] at this

/-- **memmove_s**: the same call, the same run -/
theorem memmove_s_C02_bos_witness :
    ¬ Runs (memmove_s 1 4294967296 8589934592 4294967296 (some 4294967296) none)
        (win2 (fun _ => 0) 1 4294967297 8589934592 12884901888) := by
  rintro ⟨r, st', he, _⟩
  have e1 : memmove_s 1 4294967296 8589934592 4294967296 (some 4294967296) none =
      (do mem_prim_move 1 8589934592 4294967296; pure EOK) := by
    simp [memmove_s, chkDmaxMemB, exceeds]
  rw [e1] at he
  obtain ⟨_, s1, h1⟩ := exec_bind_ok he
  simp [mem_prim_move, U32] at h1
  obtain ⟨_, s2, h2⟩ := exec_bind_ok h1
  simp [moveFwdAlign, doWhileCount, U64] at h2
  obtain ⟨_, s3, h3⟩ := exec_bind_ok h2
  have := copyFwd_ok_mapped _ _ _ _ h3 4294967296 (by omega)
  simp [win2] at this

/-! ## the hypotheses are satisfiable -/

/-- non-vacuity: a 5-byte dest and a 5-byte source (odd sizes, unaligned), both flush against unmapped memory; the
copy of all 5 bytes runs -/
example : ∃ st : St, RW st 99 5 ∧ RD st 203 5 ∧ st.mapped 104 = false ∧ st.mapped 208 = false ∧
    st.mapped 98 = false ∧ st.mapped 202 = false ∧
    Runs (memcpy_s 99 5 203 5 none none) st ∧ Runs (memccpy_s {} 99 5 203 0 5 none none) st := by
  have hw : RW (win2 (fun _ => 7) 99 104 203 208) 99 5 := fun i hi => by simp [win2]; omega
  have hr : RD (win2 (fun _ => 7) 99 104 203 208) 203 5 := fun i hi => by simp [win2]; omega
  exact ⟨_, hw, hr, by decide, by decide, by decide, by decide,
    memcpy_s_C02 99 5 203 5 none _ (fun _ => WO.of_RW hw) (fun _ _ => hr),
    memccpy_s_C02 {} 99 5 203 0 5 none none _ (fun _ => hw) (fun _ _ => hr)⟩

end SafeC.Props.C02

import SafeC.Proofs.ExtFld
import SafeC.Props.C01
/-!
# C08 (+ exact result) for the field copies `strcpyfld_s`, `strcpyfldin_s`, `strcpyfldout_s`

Setting: every cell mapped and readable with ARBITRARY contents, the `dmax` cells of dest writable,
`dest ≠ 0`, `0 < dmax ≤ RSIZE_MAX_STR`, `slen ≠ 0`, object size unknown (`destbos = none`) or known and at
least `dmax` (`destbos = some b`, `dmax ≤ b`: same path, `fldG_entry`).

On operands the loop does not run into the bumper with, the call returns EOK, invokes no handler, records no
stray access, changes nothing outside `dest[0..dmax)` and leaves EXACTLY `dest[0..n) = src[0..n)` (values of
the original state) and `dest[n..dmax) = 0` — the trailing fill is unconditional, so this holds in BOTH slack
configurations (`cfg` is universally quantified).  `n` is `slen` (fld), the length of the source string
capped by `slen` (fldin), `min slen (dmax-1)` (fldout).

The EXACT no-overlap-exit condition is `dest + n ≤ src ∨ src + n ≤ dest` on the `n` cells actually copied
(not on `dmax`): weaker than disjointness of the operands.  A source inside `dest[n..dmax)` is accepted and
then zeroed by the trailing fill (`strcpyfld_s_C08_srctail_witness`; class `slack-fill-destroys-source` of
known_findings.jsonl, here in both configurations).
-/
namespace SafeC.Props.C08Ext
open SafeC Gen

/-- the conclusion shared by the three success statements -/
def FldCopied (dest dmax src n : Nat) (st st' : St) : Prop :=
  st'.events = st.events ∧ st'.strays = st.strays ∧
  (∀ i, i < n → st'.data (dest + i) = st.data (src + i)) ∧
  (∀ i, n ≤ i → i < dmax → st'.data (dest + i) = 0) ∧
  (∀ a, ¬ (dest ≤ a ∧ a < dest + dmax) → st'.data a = st.data a)

private theorem fldCopied_of {dest dmax src n : Nat} {st st' : St} (h : FldOk dest dmax src n st st') (hn : n ≤ dmax) :
    FldCopied dest dmax src n st st' :=
  ⟨h.1.events, h.1.strays, h.copied, h.filled, h.frame hn⟩

/-- strcpyfld_s, success (C08 + exact result), both slack configurations, object size unknown or ≥ dmax:
when the two slen-cell fields do not meet (dest + slen ≤ src ∨ src + slen ≤ dest) the call returns EOK with
no handler event and no stray access, dest[0..slen) = src[0..slen) (NULs included), dest[slen..dmax) = 0,
nothing outside dest[0..dmax) changes. -/
theorem strcpyfld_s_C08 (cfg : Cfg) (dest dmax src slen : Nat) (destbos : Bos) (st : St)
    (hall : ∀ a, st.mapped a = true ∧ st.rd a = true) (hrw : RW st dest dmax)
    (hd : dest ≠ 0) (hpos : 0 < dmax) (hle : dmax ≤ RSIZE_MAX_STR) (hbos : ∀ b, destbos = some b → dmax ≤ b)
    (hsl : slen ≠ 0) (hs : src ≠ 0) (hfit : slen ≤ dmax)
    (hdisj : dest + slen ≤ src ∨ src + slen ≤ dest) :
    ∃ st', exec (strcpyfld_s cfg dest dmax src slen destbos) st = .ok (EOK, st') ∧
      FldCopied dest dmax src slen st st' := by
  unfold strcpyfld_s
  rw [fldG_entry _ cfg dest dmax src slen destbos hsl hd hpos hle hbos]
  obtain ⟨st', he, hok⟩ := fldBody_fld_ok cfg dest dmax src slen st hall hrw hs hfit hdisj
  exact ⟨st', he, fldCopied_of hok hfit⟩

/-- strcpyfldin_s, success (C08 + exact result), both slack configurations: src holds n non-NUL characters
followed by a NUL (read outside the cells already written: n = 0 or src + n ≠ dest), or n = slen of them are
requested; the n cells read and written do not meet.  Then EOK, no handler event, dest[0..n) = src[0..n),
dest[n..dmax) = 0, nothing outside dest changes. -/
theorem strcpyfldin_s_C08 (cfg : Cfg) (dest dmax src slen n : Nat) (destbos : Bos) (st : St)
    (hall : ∀ a, st.mapped a = true ∧ st.rd a = true) (hrw : RW st dest dmax)
    (hd : dest ≠ 0) (hpos : 0 < dmax) (hle : dmax ≤ RSIZE_MAX_STR) (hbos : ∀ b, destbos = some b → dmax ≤ b)
    (hsl : slen ≠ 0) (hs : src ≠ 0) (hfit : slen ≤ dmax) (hn : n ≤ slen)
    (hnz : ∀ j, j < n → st.data (src + j) ≠ 0)
    (hend : n = slen ∨ (st.data (src + n) = 0 ∧ (n = 0 ∨ src + n ≠ dest)))
    (hdisj : dest + n ≤ src ∨ src + n ≤ dest) :
    ∃ st', exec (strcpyfldin_s cfg dest dmax src slen destbos) st = .ok (EOK, st') ∧
      FldCopied dest dmax src n st st' := by
  unfold strcpyfldin_s
  rw [fldG_entry _ cfg dest dmax src slen destbos hsl hd hpos hle hbos]
  obtain ⟨st', he, hok⟩ := fldBody_fldin_ok cfg dest dmax src slen n st hall hrw hs hfit hn hnz hend hdisj
  exact ⟨st', he, fldCopied_of hok (by omega)⟩

/-- strcpyfldout_s, success (C08 + exact result), both slack configurations: with n = min slen (dmax-1) and
the n cells read and written not meeting, EOK, no handler event, dest[0..n) = src[0..n), dest[n..dmax) = 0 —
so a NUL sits at dest[n], n < dmax — and nothing outside dest changes.  (slen = dmax gives n = dmax-1: the
last character is dropped, known finding strcpyfldout-slen-eq-dmax.) -/
theorem strcpyfldout_s_C08 (cfg : Cfg) (dest dmax src slen : Nat) (destbos : Bos) (st : St)
    (hall : ∀ a, st.mapped a = true ∧ st.rd a = true) (hrw : RW st dest dmax)
    (hd : dest ≠ 0) (hpos : 0 < dmax) (hle : dmax ≤ RSIZE_MAX_STR) (hbos : ∀ b, destbos = some b → dmax ≤ b)
    (hsl : slen ≠ 0) (hs : src ≠ 0) (hfit : slen ≤ dmax)
    (hdisj : dest + min slen (dmax - 1) ≤ src ∨ src + min slen (dmax - 1) ≤ dest) :
    ∃ st', exec (strcpyfldout_s cfg dest dmax src slen destbos) st = .ok (EOK, st') ∧
      FldCopied dest dmax src (min slen (dmax - 1)) st st' ∧
      min slen (dmax - 1) < dmax ∧ st'.data (dest + min slen (dmax - 1)) = 0 := by
  unfold strcpyfldout_s
  rw [fldG_entry _ cfg dest dmax src slen destbos hsl hd hpos hle hbos]
  obtain ⟨st', he, hok⟩ := fldBody_fldout_ok cfg dest dmax src slen st hall hrw hs hpos hfit hdisj
  have hn : min slen (dmax - 1) < dmax := by omega
  exact ⟨st', he, fldCopied_of hok (by omega), hn, hok.filled _ (Nat.le_refl _) hn⟩

/-- strcpyfld_s / strcpyfldin_s / strcpyfldout_s with slen = 0: the documented no-op — EOK, the state
(memory, events, strays) is untouched, whatever dest, dmax, src and the object size are. -/
theorem strcpyfld_s_C08_slen0 (cfg : Cfg) (dest dmax src : Nat) (destbos : Bos) (st : St) :
    exec (strcpyfld_s cfg dest dmax src 0 destbos) st = .ok (EOK, st) ∧
    exec (strcpyfldin_s cfg dest dmax src 0 destbos) st = .ok (EOK, st) ∧
    exec (strcpyfldout_s cfg dest dmax src 0 destbos) st = .ok (EOK, st) :=
  ⟨fldG_slen0 _ cfg dest dmax src destbos st, fldG_slen0 _ cfg dest dmax src destbos st,
   fldG_slen0 _ cfg dest dmax src destbos st⟩

/-! ## non-vacuity and the limits of the statements -/

/-- dest = 100 (5 cells writable), src = 200 holding "ab\0": hypotheses of the three success statements -/
example : (∀ a, SafeC.Props.C01.exSt.mapped a = true ∧ SafeC.Props.C01.exSt.rd a = true) ∧
    RW SafeC.Props.C01.exSt 100 5 ∧ (100 : Nat) ≠ 0 ∧ 0 < 5 ∧ 5 ≤ RSIZE_MAX_STR ∧
    (∀ b, (none : Bos) = some b → 5 ≤ b) ∧ (3 : Nat) ≠ 0 ∧ (200 : Nat) ≠ 0 ∧ 3 ≤ 5 ∧
    (100 + 3 ≤ 200 ∨ 200 + 3 ≤ 100) ∧
    (∀ j, j < 2 → SafeC.Props.C01.exSt.data (200 + j) ≠ 0) ∧
    ((2 : Nat) = 3 ∨ (SafeC.Props.C01.exSt.data (200 + 2) = 0 ∧ ((2 : Nat) = 0 ∨ 200 + 2 ≠ 100))) := by
  refine ⟨fun _ => ⟨rfl, rfl⟩, fun i hi => ⟨rfl, ?_, rfl⟩, by decide, by decide, by decide,
    (fun b h => by cases h), by decide, by decide, by decide, by decide, ?_, Or.inr ⟨by decide, by decide⟩⟩
  · simp [SafeC.Props.C01.exSt]; omega
  · intro j hj
    have : j = 0 ∨ j = 1 := by omega
    rcases this with h | h <;> subst h <;> decide

/-- a source inside the tail of the field: `strcpyfld_s(d=100, dmax=4, src=102, slen=1)` -/
def fldTailSt : St :=
  { data := fun a => if a = 102 then 97 else 0, mapped := fun _ => true, rd := fun _ => true
    wr := fun a => decide (100 ≤ a ∧ a < 104) }

/-- strcpyfld_s does not see a source that lies in dest[slen..dmax): the overlap exit looks only at the slen
cells copied.  strcpyfld_s(d, 4, d+2, 1) on d+2 = "a" returns EOK in the NO-slack build too, dest[0] = 'a',
and the source cell d+2 has been zeroed by the unconditional trailing fill (class slack-fill-destroys-source,
for this family in both configurations). -/
theorem strcpyfld_s_C08_srctail_witness :
    ∃ st', exec (strcpyfld_s { slack := false } 100 4 102 1 none) fldTailSt = .ok (EOK, st') ∧
      st'.data 100 = 97 ∧ fldTailSt.data 102 = 97 ∧ st'.data 102 = 0 := by
  refine ⟨(((fldTailSt.upd 100 97).upd 101 0).upd 102 0).upd 103 0, ?_, ?_⟩
  · simp [strcpyfld_s, fldG, chkDmaxClear, chkDmaxClearG, chkSlenNospcClear, RSIZE_MAX_STR, fldLoop,
      nullSlack, zeroLoop, exec_bind, fldTailSt, EOK, St.upd]
  · simp [St.upd, fldTailSt]

end SafeC.Props.C08Ext

import SafeC.Proofs.FootprintTime
/-!
# C12, fifth part — `asctime_s` / `ctime_s`

Before 7910d7f both functions staged libc's rendering in a function-`static` `tmp[120]` when `dmax < 120`; the
model (`Models/Time.lean`) takes the staging buffer as the ARGUMENT `text` — an automatic object of the
calling thread in the current tree.  Footprint of one call, from any memory: it loads from `*tm` (twelve
32-bit cells) / `*timer`, from dest and from its own staging buffer (the `n` characters libc rendered and the
terminator), and stores to dest only.  `text = 0` stands for libc returning NULL.
On the direct path (`dmax ≥ 120`: libc writes into dest, the tail measures dest and calls the same-pointer
`strcpy_s`) `text` is libc's rendering; the footprint is the same.  Hence (`asctime_s_reentrant_n`) any number
of concurrent calls with thread-private dest and staging buffers — the `struct tm` / `time_t` objects may be
shared — behave under every schedule as if each ran alone.
-/
namespace SafeC.Props.C12Time
open SafeC Gen

/-- the `n` cells of the object at the non-null pointer `p` -/
def Obj (p n : Nat) (a : Nat) : Prop := p ≠ 0 ∧ Cells p n a

/-- libc's text in the staging buffer: `n` non-NUL characters and the terminator (nothing when NULL) -/
def Text (text n : Nat) (a : Nat) : Prop := text ≠ 0 ∧ text ≤ a ∧ a ≤ text + n

/-- the staging buffer holds a string of `n < 120` characters (glibc: 25) and lies apart from dest -/
def Staged (s : St) (dest dmax text n : Nat) : Prop :=
  (∀ j, j < n → s.data (text + j) ≠ 0) ∧ s.data (text + n) = 0 ∧ n < 120 ∧ Disjoint dest dmax text n

theorem timeTail_fp (cfg : Cfg) (dest dmax : Nat) (db : Bos) (text n : Nat) (s s' : St)
    (hd : dest ≠ 0) (h26 : 26 ≤ dmax) (htext : text ≠ 0 → Staged s dest dmax text n)
    (hs' : ∀ a, ¬ Obj dest dmax a → s'.data a = s.data a) :
    Within2 (fun a => Obj dest dmax a ∨ Text text n a) (Obj dest dmax) (timeTail cfg dest dmax db text) s' := by
  by_cases ht : text = 0
  · subst ht
    exact within2_timeTail_null cfg dest dmax db s' (by omega) (fun a ha => ⟨hd, ha⟩)
  · obtain ⟨hnz, hnul, hn, hdisj⟩ := htext ht
    have hout : ∀ j, j ≤ n → ¬ Obj dest dmax (text + j) := by
      intro j hj ⟨_, h1, h2⟩
      unfold Disjoint at hdisj
      omega
    have hnz' : ∀ j, j < n → s'.data (text + j) ≠ 0 := fun j hj => by
      rw [hs' _ (hout j (by omega))]; exact hnz j hj
    have hnul' : s'.data (text + n) = 0 := by rw [hs' _ (hout n (Nat.le_refl _))]; exact hnul
    have : Within2 (fun a => Cells dest dmax a ∨ (text ≤ a ∧ a ≤ text + n)) (Cells dest dmax)
        (timeTail cfg dest dmax db text) s' := by
      by_cases h120 : dmax < 120
      · exact within2_timeTail_small cfg dest dmax db text n s' h120 hd ht (by omega) hnz' hnul'
          (by simp only [scanFuel]; omega) hdisj
      · exact within2_timeTail_big cfg dest dmax db text n s' (by omega) hd ht hnz' hnul' hn hdisj
    refine within2_mono ?_ ?_ _ s' this
    · intro a ha
      rcases ha with ha | ha
      · exact Or.inl ⟨hd, ha⟩
      · exact Or.inr ⟨ht, ha⟩
    · intro a ha; exact ⟨hd, ha⟩

/-- **`asctime_s`**, every `dmax`, every object size, every `*tm`. -/
theorem asctime_s_fp (cfg : Cfg) (dest dmax tm : Nat) (db : Bos) (text n : Nat) (s : St)
    (htext : text ≠ 0 → Staged s dest dmax text n) :
    Within2 (fun a => Obj dest dmax a ∨ Obj tm 12 a ∨ Text text n a) (Obj dest dmax)
      (asctime_s cfg dest dmax tm db text) s := by
  refine within2_asctime_s cfg dest dmax tm db text s (fun hd a ha => ⟨hd, ha⟩)
    (fun htm a ha => Or.inr (Or.inl ⟨htm, ha⟩)) (fun hd h26 _ s' hs' => ?_)
  refine within2_mono ?_ (fun _ h => h) _ s' (timeTail_fp cfg dest dmax db text n s s' hd h26 htext hs')
  intro a ha
  rcases ha with ha | ha
  · exact Or.inl ha
  · exact Or.inr (Or.inr ha)

/-- **`ctime_s`**, every `dmax`, every object size, every `*timer`. -/
theorem ctime_s_fp (cfg : Cfg) (dest dmax timer : Nat) (db : Bos) (text n : Nat) (s : St)
    (htext : text ≠ 0 → Staged s dest dmax text n) :
    Within2 (fun a => Obj dest dmax a ∨ Obj timer 1 a ∨ Text text n a) (Obj dest dmax)
      (ctime_s cfg dest dmax timer db text) s := by
  refine within2_ctime_s cfg dest dmax timer db text s (fun hd a ha => ⟨hd, ha⟩)
    (fun htm => Or.inr (Or.inl ⟨htm, Nat.le_refl _, by omega⟩)) (fun hd h26 _ s' hs' => ?_)
  refine within2_mono ?_ (fun _ h => h) _ s' (timeTail_fp cfg dest dmax db text n s s' hd h26 htext hs')
  intro a ha
  rcases ha with ha | ha
  · exact Or.inl ha
  · exact Or.inr (Or.inr ha)

variable {ι : Type} [DecidableEq ι]

/-- **N concurrent `asctime_s` calls**, any schedule: dest objects pairwise disjoint and
disjoint from every other call's `*tm` and staging buffer (the buffers are automatic objects of the calling
threads; `*tm` may be one shared object).  A call that has returned has returned its run-alone code and its
dest holds its run-alone text. -/
theorem asctime_s_reentrant_n (cfg : Cfg) (dest dmax tm text n : ι → Nat) (db : ι → Bos) (s : St)
    (htext : ∀ i, text i ≠ 0 → Staged s (dest i) (dmax i) (text i) (n i))
    (hpriv : ∀ i j, i ≠ j → ∀ a, Obj (dest i) (dmax i) a →
      ¬ Obj (dest j) (dmax j) a ∧ ¬ Obj (tm j) 12 a ∧ ¬ Text (text j) (n j) a)
    (sch : List ι) (i : ι)
    (hd : ((runPool sch (fun j => (⟨Nat, asctime_s cfg (dest j) (dmax j) (tm j) (db j) (text j)⟩ : Thread)) s).1 i).isDone = true) :
    (runPool sch (fun j => (⟨Nat, asctime_s cfg (dest j) (dmax j) (tm j) (db j) (text j)⟩ : Thread)) s).1 i =
      ⟨Nat, .ret (runT (asctime_s cfg (dest i) (dmax i) (tm i) (db i) (text i)) s).1⟩ ∧
    ∀ a, Obj (dest i) (dmax i) a →
      (runPool sch (fun j => (⟨Nat, asctime_s cfg (dest j) (dmax j) (tm j) (db j) (text j)⟩ : Thread)) s).2.data a =
        (runT (asctime_s cfg (dest i) (dmax i) (tm i) (db i) (text i)) s).2.data a := by
  have h := pool_finished
    (R := fun j a => Obj (dest j) (dmax j) a ∨ Obj (tm j) 12 a ∨ Text (text j) (n j) a)
    (W := fun j => Obj (dest j) (dmax j))
    (fun i j hij a hw => by
      obtain ⟨p1, p2, p3⟩ := hpriv i j hij a hw
      exact ⟨fun hr => hr.elim p1 (fun hr => hr.elim p2 p3), p1⟩)
    sch (fun j => (⟨Nat, asctime_s cfg (dest j) (dmax j) (tm j) (db j) (text j)⟩ : Thread)) s
    (fun j => asctime_s_fp cfg (dest j) (dmax j) (tm j) (db j) (text j) (n j) s (htext j)) i hd
  exact ⟨h.1, fun a ha => h.2 a (Or.inr ha)⟩

/-- non-vacuity of `Staged`: "Thu" + NUL at 200, dest 26 cells at 100 -/
example : Staged { data := fun a => if 200 ≤ a ∧ a < 203 then 65 else 0, mapped := fun _ => false,
                   rd := fun _ => false, wr := fun _ => false } 100 26 200 3 :=
  ⟨fun j hj => by simp; omega, by simp, by omega, Or.inl (by omega)⟩

end SafeC.Props.C12Time

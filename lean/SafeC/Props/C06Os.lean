import SafeC.Models.Os
/-!
# C06 for the message table behind `strerror_s` / `strerrorlen_s` (regenerated facts)

`Gen/Errmsgs.lean` is rewritten from `src/str/strerror_s.h` on every run.  `strerrorlen_s` answers from the
hand-maintained table `len_errmsgs_s` and `strerror_s` copies from `errmsgs_s`: if the two tables ever disagree
(a message edited without its length), `strerror_s` truncates a message that fits or copies with the wrong bound.
The theorems below are re-checked against the CURRENT header by `lake build`.
-/
namespace SafeC.Props.C06Os
open SafeC Gen

/-- every entry of `len_errmsgs_s` is the size of the corresponding message including its terminator -/
theorem errmsgs_len_table : lenErrmsgs = errmsgs.map (fun s => s.utf8ByteSize + 1) := by decide

/-- the two tables cover exactly the codes ESNULLP … ESLAST -/
theorem errmsgs_cover : errmsgs.length = ESLAST - ESNULLP + 1 ∧ lenErrmsgs.length = errmsgs.length := by decide

/-- strerrorlen_s on one of the library's own codes: no memory access, no event, and the answer is the byte length of
the message `strerror_s` copies (all 11 codes; `msg` is irrelevant) -/
theorem strerrorlen_s_own (e msg : Nat) (st : St) (h : isSafeclibErr e = true) :
    exec (strerrorlen_s e msg) st = .ok ((errmsgs.getD (e % 2^32 - ESNULLP) "").utf8ByteSize, st) := by
  have hr : e % 2^32 - ESNULLP < 11 := by
    unfold isSafeclibErr errnumInt at h
    have h' := of_decide_eq_true h
    simp only [ESNULLP, ESLAST] at h' ⊢
    by_cases hlt : e % 2^32 < 2^31
    · rw [if_pos hlt] at h'
      omega
    · rw [if_neg hlt] at h'
      omega
  unfold strerrorlen_s
  simp only [h, if_true, exec_pure]
  generalize e % 2^32 - ESNULLP = i at hr
  have : ∀ i < 11, lenErrmsgs.getD i 1 - 1 = (errmsgs.getD i "").utf8ByteSize := by decide
  rw [this i hr]

example : isSafeclibErr 403 = true := by decide

end SafeC.Props.C06Os

import SafeC.Proofs.OsGets
import SafeC.Proofs.OsTime
/-!
# C04 for the os family beyond getenv_s / strerror_s (those: `Props/C04Ext.lean`): `gets_s`, `asctime_s`, `ctime_s`

Setting of `Props/C03Os.lean`.  A failed call on a usable dest leaves it empty (`dest[0] = 0`), with null-slack all `dmax`
cells zero when the failure is met after copying began; nothing outside dest — in particular the stream region, the
`struct tm`, `*timer`, libc's text — is modified.
-/
namespace SafeC.Props.C04Os
open SafeC Gen

/-- gets_s, EVERY stream: whenever the result is not EOK — the ESNOSPC violation (the line does not fit: met after `fgets` has
stored `dmax - 1` bytes), end of file (-1) or the failed read (21), the two non-violations — `dest[0] = 0`; on the ESNOSPC
exit exactly one report carries that code and with null-slack ALL `dmax` cells are zero, and that exit is taken exactly when the
stream is non-empty and its line does not fit (`GetsFits`); nothing outside dest is modified (the stream is not a memory
operand of the C, but the model's region is part of the frame), no stray access. -/
theorem gets_s_C04 (cfg : Cfg) (dest dmax : Nat) (destbos : Bos) (inp len : Nat) (st : St)
    (hd : dest ≠ 0) (hpos : 0 < dmax) (hnone : destbos = none → dmax ≤ RSIZE_MAX_STR)
    (hbos : ∀ b, destbos = some b → dmax ≤ b) (hrw : RW st dest dmax)
    (hrd : ∀ j, j < len → st.mapped (inp+j) = true ∧ st.rd (inp+j) = true)
    (hdisj : dest + dmax ≤ inp ∨ inp + len ≤ dest) :
    ∃ r st', exec (gets_s cfg dest dmax destbos inp len) st = .ok (r, st') ∧
      (∀ a, ¬ (dest ≤ a ∧ a < dest + dmax) → st'.data a = st.data a) ∧ st'.strays = st.strays ∧
      (r ≠ EOK → st'.data dest = 0) ∧
      (r = ESNOSPC → st'.events = st.events ++ [.handler .str ESNOSPC] ∧
        (cfg.slack = true → ∀ i, i < dmax → st'.data (dest+i) = 0)) ∧
      (r = ESNOSPC ↔ (len ≠ 0 ∧ ¬ (inp = 0 ∧ dmax ≠ 1) ∧
        ¬ GetsFits dmax len (lineStr (streamOf st inp len)).length (st.data (inp + (lineStr (streamOf st inp len)).length)))) := by
  obtain ⟨h1, h2, h3, _⟩ := lineStr_spec st inp len
  obtain ⟨r, st', he, hfr, hp⟩ := gets_s_runs cfg dest dmax destbos inp len _ st hd hpos hnone hbos hrw hrd hdisj h1 h2 h3
  refine ⟨r, st', he, hfr.2.2.2.2, hfr.2.2.2.1, ?_⟩
  rcases hp with ⟨hc, hr, _, hz, _⟩ | ⟨hl, hi, hf, hr, _⟩ | ⟨hl, hi, hnf, hr, hev, hz, hsl⟩
  · have hne : r ≠ ESNOSPC := by rw [hr]; split <;> decide
    refine ⟨fun _ => hz, fun h => absurd h hne, fun h => absurd h hne, fun ⟨a, b, _⟩ => ?_⟩
    rcases hc with hc | hc
    · exact absurd hc a
    · exact absurd hc b
  · have hne : r ≠ ESNOSPC := by rw [hr]; decide
    exact ⟨fun h => absurd hr h, fun h => absurd h hne, fun h => absurd h hne, fun ⟨_, _, c⟩ => absurd hf c⟩
  · exact ⟨fun _ => hz, fun _ => ⟨hev, hsl⟩, fun _ => ⟨hl, hi, hnf⟩, fun _ => hr⟩

/-- non-vacuity: dest = 100 (8 cells holding 7), the stream "ab\ncd" at 200 -/
example : (100 : Nat) ≠ 0 ∧ 0 < 8 ∧ 8 ≤ RSIZE_MAX_STR ∧ RW getsExSt 100 8 ∧
    (∀ j, j < 5 → getsExSt.mapped (200+j) = true ∧ getsExSt.rd (200+j) = true) ∧ (100 + 8 ≤ 200 ∨ 200 + 5 ≤ 100) :=
  ⟨by decide, by decide, by decide, getsExSt_rw, getsExSt_rd, Or.inl (by decide)⟩

/-- … and the ESNOSPC exit is reachable: the same stream with `dmax = 2` (line "ab" of 2 bytes, `GetsFits` fails) -/
example : ¬ GetsFits 2 5 (lineStr (streamOf getsExSt 200 5)).length
    (getsExSt.data (200 + (lineStr (streamOf getsExSt 200 5)).length)) := by
  have : lineStr (streamOf getsExSt 200 5) = [97, 98] := by decide
  rw [this]
  unfold GetsFits
  decide

/-! ## asctime_s / ctime_s -/

/-- the C04 conclusion for asctime_s / ctime_s: after any result other than EOK `dest[0] = 0`; a reported violation carries
exactly one report with the returned code, the libc failure (-1) none; with an acceptable `dmax` (`26 ≤ dmax`) and null-slack
all `dmax` cells are zero; nothing outside dest — the `struct tm`, `*timer`, libc's text — is modified -/
def TimeCleared (cfg : Cfg) (dest dmax : Nat) (st st' : St) (r : Nat) : Prop :=
  (∀ a, ¬ (dest ≤ a ∧ a < dest + dmax) → st'.data a = st.data a) ∧ st'.strays = st.strays ∧
  (r ≠ EOK → st'.data dest = 0 ∧
    (26 ≤ dmax → cfg.slack = true → ∀ i, i < dmax → st'.data (dest + i) = 0) ∧
    (r = NEG1 ∧ st'.events = st.events ∨
     (r = ESNULLP ∨ r = ESLEMIN ∨ r = ESLEMAX) ∧ st'.events = st.events ++ [.handler .str r]))

private theorem cleared_of_TimePost {cfg : Cfg} {dest dmax text n : Nat} {lf : Bool} {st : St} {r : Nat} {s : St}
    (hfit : text ≠ 0 → lf = false → n < dmax) (h : TimePost cfg dest dmax text n lf st r s) :
    TimeCleared cfg dest dmax st s r := by
  refine ⟨h.1.2.2.2.2, h.1.2.2.2.1, fun hr => ?_⟩
  rcases h.2 with ⟨hc, he, hz, hs⟩ | ⟨_, hc, he, hz, hs⟩ | ⟨_, _, _, hc, _⟩ | ⟨ht, hl, hn, _⟩
  · exact ⟨hz, hs, Or.inr ⟨hc, he⟩⟩
  · exact ⟨hz, fun _ => hs, Or.inl ⟨hc, he⟩⟩
  · exact absurd hc hr
  · have := hfit ht hl; omega

/- FULL C04 statement for asctime_s (FALSE of the model, see `asctime_s_C04_witness`): as below without `hfit`.  The ESNOSPC
   exit of the common tail (libc's text has `dmax` or more characters) reports and returns without clearing dest; unreachable
   in the C with glibc's 25 characters and `dmax >= 26`. -/
/-- asctime_s, every failing exit on a usable dest: `tm` null, a member / `tm_gmtoff` out of range (any content of the 12
cells), `dmax < 26`, libc failed (`text = 0`) — hypotheses of `C03Os.asctime_s_C03_partial`. -/
theorem asctime_s_C04_partial (cfg : Cfg) (dest dmax tm : Nat) (db : Bos) (text n : Nat) (st : St)
    (hd : dest ≠ 0) (hpos : 0 < dmax) (hb : ∀ b, db = some b → dmax ≤ b) (hnone : db = none → dmax ≤ RSIZE_MAX_STR)
    (hrw : RW st dest dmax) (htm : tm ≠ 0 → ∀ i, i < 12 → st.mapped (tm + i) = true ∧ st.rd (tm + i) = true)
    (htext : TextOk st dest dmax text n) (hfit : text ≠ 0 → n < dmax) :
    ∃ r st', exec (asctime_s cfg dest dmax tm db text) st = .ok (r, st') ∧ TimeCleared cfg dest dmax st st' r := by
  obtain ⟨r, st', he, hp⟩ := asctime_s_runs cfg dest dmax tm db text n st hd hpos hb hnone hrw htm htext
  exact ⟨r, st', he, cleared_of_TimePost (fun h _ => hfit h) hp⟩

/-- the excluded point (state of `C03Os.asctime_s_C03_witness`): ESNOSPC is reported once and returned, dest[0] is still 7 -/
theorem asctime_s_C04_witness :
    RW timeWSt 100 26 ∧ TextOk timeWSt 100 26 200 26 ∧
    ∃ st', exec (asctime_s {} 100 26 300 none 200) timeWSt = .ok (ESNOSPC, st') ∧
      st'.events = [.handler .str ESNOSPC] ∧ st'.data 100 = 7 := by
  obtain ⟨st', he, hev, hdata⟩ := asctime_s_nospc_point
  exact ⟨timeWSt_rw, timeWSt_text, st', he, hev, by rw [hdata]; rfl⟩

/- FULL C04 statement for ctime_s: FALSE of the model in the same way (`ctime_s_C04_witness`). -/
/-- ctime_s, every failing exit on a usable dest: `timer` null, `*timer` negative or in the year 10000 and later, `dmax < 26`,
libc failed (`text = 0`, or `lf` with its 25 characters at `text` — with `dmax ≥ 120` they were written into dest, and a
build WITHOUT null-slack leaves them behind `dest[0] = 0`: recorded class `noslack-partial`). -/
theorem ctime_s_C04_partial (cfg : Cfg) (dest dmax timer : Nat) (db : Bos) (text n : Nat) (lf : Bool) (st : St)
    (hd : dest ≠ 0) (hpos : 0 < dmax) (hb : ∀ b, db = some b → dmax ≤ b) (hnone : db = none → dmax ≤ RSIZE_MAX_STR)
    (hrw : RW st dest dmax) (htm : timer ≠ 0 → st.mapped timer = true ∧ st.rd timer = true)
    (htext : TextOk st dest dmax text n) (hfit : text ≠ 0 → lf = false → n < dmax) :
    ∃ r st', exec (ctime_s cfg dest dmax timer db text lf) st = .ok (r, st') ∧ TimeCleared cfg dest dmax st st' r := by
  obtain ⟨r, st', he, hp⟩ := ctime_s_runs cfg dest dmax timer db text n lf st hd hpos hb hnone hrw htm htext
  exact ⟨r, st', he, cleared_of_TimePost hfit hp⟩

theorem ctime_s_C04_witness :
    RW timeWSt 100 26 ∧ TextOk timeWSt 100 26 200 26 ∧
    ∃ st', exec (ctime_s {} 100 26 400 none 200) timeWSt = .ok (ESNOSPC, st') ∧
      st'.events = [.handler .str ESNOSPC] ∧ st'.data 100 = 7 := by
  obtain ⟨st', he, hev, hdata⟩ := ctime_s_nospc_point
  exact ⟨timeWSt_rw, timeWSt_text, st', he, hev, by rw [hdata]; rfl⟩

/-- non-vacuity: dest = 100 (26 cells holding 7), text "AAA" at 200, a `struct tm` at 300, `*timer` at 400 -/
example : (100 : Nat) ≠ 0 ∧ 0 < 26 ∧ 26 ≤ RSIZE_MAX_STR ∧ RW osTimeExSt 100 26 ∧
    (∀ i, i < 12 → osTimeExSt.mapped (300 + i) = true ∧ osTimeExSt.rd (300 + i) = true) ∧
    (osTimeExSt.mapped 400 = true ∧ osTimeExSt.rd 400 = true) ∧ TextOk osTimeExSt 100 26 200 3 ∧ 3 < 26 :=
  ⟨by decide, by decide, by decide, osTimeExSt_rw, osTimeExSt_tm, osTimeExSt_timer, osTimeExSt_text, by decide⟩

end SafeC.Props.C04Os

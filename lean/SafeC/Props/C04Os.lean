import SafeC.Proofs.OsGets
/-!
# C04 for the os family beyond getenv_s / strerror_s (those: `Props/C04Ext.lean`): `gets_s`, `asctime_s`, `ctime_s`

Setting of `Props/C03Os.lean`.  A failed call on a usable dest leaves it empty (`dest[0] = 0`), with null-slack all `dmax`
cells zero when the failure is met after copying began; nothing outside dest — in particular the stream region, the
`struct tm`, `*timer`, libc's text — is modified.
-/
namespace SafeC.Props.C04Os
open SafeC Gen

/-- gets_s, EVERY stream: whenever the result is not EOK — the ESNOSPC violation (the line does not fit: met after `fgets` has
stored `dmax - 1` bytes), end of file (-1) or the failed read (21), the two non-violations — `dest[0] = 0`; on the ESNOSPC
exit exactly one report carries that code and with null-slack ALL `dmax` cells are zero, and that exit is taken exactly when the
stream is non-empty and its line does not fit (`GetsFits`); nothing outside dest is modified (the stream is not a memory
operand of the C, but the model's region is part of the frame), no stray access. -/
theorem gets_s_C04 (cfg : Cfg) (dest dmax : Nat) (destbos : Bos) (inp len : Nat) (st : St)
    (hd : dest ≠ 0) (hpos : 0 < dmax) (hnone : destbos = none → dmax ≤ RSIZE_MAX_STR)
    (hbos : ∀ b, destbos = some b → dmax ≤ b) (hrw : RW st dest dmax)
    (hrd : ∀ j, j < len → st.mapped (inp+j) = true ∧ st.rd (inp+j) = true)
    (hdisj : dest + dmax ≤ inp ∨ inp + len ≤ dest) :
    ∃ r st', exec (gets_s cfg dest dmax destbos inp len) st = .ok (r, st') ∧
      (∀ a, ¬ (dest ≤ a ∧ a < dest + dmax) → st'.data a = st.data a) ∧ st'.strays = st.strays ∧
      (r ≠ EOK → st'.data dest = 0) ∧
      (r = ESNOSPC → st'.events = st.events ++ [.handler .str ESNOSPC] ∧
        (cfg.slack = true → ∀ i, i < dmax → st'.data (dest+i) = 0)) ∧
      (r = ESNOSPC ↔ (len ≠ 0 ∧ ¬ (inp = 0 ∧ dmax ≠ 1) ∧
        ¬ GetsFits dmax len (lineStr (streamOf st inp len)).length (st.data (inp + (lineStr (streamOf st inp len)).length)))) := by
  obtain ⟨h1, h2, h3, _⟩ := lineStr_spec st inp len
  obtain ⟨r, st', he, hfr, hp⟩ := gets_s_runs cfg dest dmax destbos inp len _ st hd hpos hnone hbos hrw hrd hdisj h1 h2 h3
  refine ⟨r, st', he, hfr.2.2.2.2, hfr.2.2.2.1, ?_⟩
  rcases hp with ⟨hc, hr, _, hz, _⟩ | ⟨hl, hi, hf, hr, _⟩ | ⟨hl, hi, hnf, hr, hev, hz, hsl⟩
  · have hne : r ≠ ESNOSPC := by rw [hr]; split <;> decide
    refine ⟨fun _ => hz, fun h => absurd h hne, fun h => absurd h hne, fun ⟨a, b, _⟩ => ?_⟩
    rcases hc with hc | hc
    · exact absurd hc a
    · exact absurd hc b
  · have hne : r ≠ ESNOSPC := by rw [hr]; decide
    exact ⟨fun h => absurd hr h, fun h => absurd h hne, fun h => absurd h hne, fun ⟨_, _, c⟩ => absurd hf c⟩
  · exact ⟨fun _ => hz, fun _ => ⟨hev, hsl⟩, fun _ => ⟨hl, hi, hnf⟩, fun _ => hr⟩

/-- non-vacuity: dest = 100 (8 cells holding 7), the stream "ab\ncd" at 200 -/
example : (100 : Nat) ≠ 0 ∧ 0 < 8 ∧ 8 ≤ RSIZE_MAX_STR ∧ RW getsExSt 100 8 ∧
    (∀ j, j < 5 → getsExSt.mapped (200+j) = true ∧ getsExSt.rd (200+j) = true) ∧ (100 + 8 ≤ 200 ∨ 200 + 5 ≤ 100) :=
  ⟨by decide, by decide, by decide, getsExSt_rw, getsExSt_rd, Or.inl (by decide)⟩

/-- … and the ESNOSPC exit is reachable: the same stream with `dmax = 2` (line "ab" of 2 bytes, `GetsFits` fails) -/
example : ¬ GetsFits 2 5 (lineStr (streamOf getsExSt 200 5)).length
    (getsExSt.data (200 + (lineStr (streamOf getsExSt 200 5)).length)) := by
  have : lineStr (streamOf getsExSt 200 5) = [97, 98] := by decide
  rw [this]
  unfold GetsFits
  decide

end SafeC.Props.C04Os

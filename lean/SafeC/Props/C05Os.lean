import SafeC.Proofs.OsEv
/-!
# C05 for `getenv_s` and `strerror_s` (`Models/Os.lean`)

Event level, ALL arguments, memory contents and placements (`getenv_s_ev`, `strerror_s_ev`): a returning call has
* reported nothing and returned EOK (getenv_s also: -1, the variable is not set), or
* reported exactly once, a code of the function's list, and returned that code, or
* returned EOK after a report: only possible when the entry checks passed and the INNER copy, whose result the C discards
  (`strcpy_s(dest, dmax, buf)` in getenv_s; `strcpy_s` resp. `strncpy_s` + `strcat_s` in strerror_s — two discarded calls, hence
  possibly TWO reports), failed.  `Inner…` names exactly when that call is made.

`getenv_s_C05_partial` / `strerror_s_C05_partial`: with valid operands — the value / message (and the literal `"..."`) readable
strings that do not overlap dest, `dmax ≤ RSIZE_MAX_STR` — whenever the inner copy is reached, the third case does not occur
(exec-level theorems of `Proofs/ExtOs.lean`): the C05 discipline holds for every returning run.  The FULL statement (no
hypothesis on the operands) is false of the model: `getenv_s_C05_witness` / `strerror_s_C05_witness` (the value / message
overlaps dest: the inner copy reports ESOVRLP, EOK is returned).

`getenv_s_documented` / `strerror_s_documented`: every returned code is on the CURRENT `@retval` list of the doc comment.
-/
namespace SafeC.Props.C05Os
open SafeC Gen SafeC.Props.C05Ev SafeC.Props.C05Mem SafeC.Props.C05Query SafeC.Props.C05Docs

/-! ## getenv_s -/

/-- the codes getenv_s reports itself -/
abbrev GS : List Nat := [ESNULLP, ESLEMAX, ESNOSPC]

/-- the inner `strcpy_s(dest, dmax, buf)` of getenv_s is reached: usable dest inside the limit / the object, a name, the
variable is set (and, not visible at the event level, its value is shorter than `dmax`) -/
def InnerG (dest dmax name : Nat) (destbos : Bos) (value : Nat) : Prop :=
  dest ≠ 0 ∧ dmax ≠ 0 ∧ name ≠ 0 ∧ value ≠ 0 ∧ (destbos = none → dmax ≤ RSIZE_MAX_STR) ∧ (∀ b, destbos = some b → dmax ≤ b)

/-- outcome of getenv_s -/
def GEPost (inner : Prop) : (Nat × Option Nat) → List Event → Prop := fun r es =>
  (es = [] ∧ (r.1 = EOK ∨ r.1 = NEG1)) ∨ (r.1 ≠ EOK ∧ r.1 ∈ GS ∧ es = [.handler .str r.1]) ∨
  (inner ∧ r.1 = EOK ∧ ∃ c, c ≠ EOK ∧ es = [.handler .str c])

theorem getenvRest_ev (cfg : Cfg) (hasLen : Bool) (dest dmax name : Nat) (destbos : Bos) (value : Nat)
    (h1 : dest ≠ 0 → destbos = none → dmax ≤ RSIZE_MAX_STR) (h2 : dest ≠ 0 → ∀ b, destbos = some b → dmax ≤ b) :
    EV (getenvRest cfg hasLen dest dmax name destbos value) (GEPost (InnerG dest dmax name destbos value)) := by
  unfold getenvRest
  dsimp only
  by_cases hn : name = 0
  · rw [if_pos hn]
    split
    · refine EV.bind (EV.handleError _ _ _ _) (fun _ es he => ?_)
      subst he
      exact EV.pure _ (Or.inr (Or.inl ⟨ne_ESNULLP, show ESNULLP ∈ GS by decide, by simp⟩))
    · refine EV.bind (EV.handlerS _) (fun _ es he => ?_)
      subst he
      exact EV.pure _ (Or.inr (Or.inl ⟨ne_ESNULLP, show ESNULLP ∈ GS by decide, by simp⟩))
  rw [if_neg hn]
  refine Quiet.then_ (q_strlenP _ _ _) (fun _ => ?_)
  by_cases hv : value = 0
  · rw [if_pos hv]
    split
    · exact Quiet.then_ (by split <;> quiet) (fun _ => EV.pure _ (Or.inl ⟨rfl, Or.inr rfl⟩))
    · exact EV.pure _ (Or.inl ⟨rfl, Or.inr rfl⟩)
  rw [if_neg hv]
  refine Quiet.then_ (q_strlenP _ _ _) (fun len1 => ?_)
  split
  · refine EV.bind (EV.handleError _ _ _ _) (fun _ es he => ?_)
    subst he
    exact EV.pure _ (Or.inr (Or.inl ⟨ne_ESNOSPC, show ESNOSPC ∈ GS by decide, by simp⟩))
  · by_cases hc : dest ≠ 0 ∧ dmax ≠ 0
    · rw [if_pos hc]
      have hib : ∀ b, (if cfg.fixInnerBos = true then destbos else none) = some b → dmax ≤ b := by
        intro b hb
        split at hb
        · exact h2 hc.1 b hb
        · cases hb
      refine EV.bind (strcpy_s_ev_in cfg dest dmax value _ hib) (fun c es h => ?_)
      rcases h with ⟨_, rfl⟩ | ⟨hne, rfl⟩
      · exact EV.pure _ (Or.inl ⟨by simp, Or.inl rfl⟩)
      · exact EV.pure _ (Or.inr (Or.inr ⟨⟨hc.1, hc.2, hn, hv, h1 hc.1, h2 hc.1⟩, rfl, c, hne, by simp⟩))
    · rw [if_neg hc]
      exact EV.pure _ (Or.inl ⟨rfl, Or.inl rfl⟩)

/-- getenv_s: all arguments, all memory contents -/
theorem getenv_s_ev (cfg : Cfg) (hasLen : Bool) (dest dmax name : Nat) (destbos : Bos) (value : Nat) :
    EV (getenv_s cfg hasLen dest dmax name destbos value) (GEPost (InnerG dest dmax name destbos value)) := by
  rw [getenv_s_eq]
  have hmax : EV (do handlerS ESLEMAX; pure (ESLEMAX, if hasLen then some 0 else none) : Prog (Nat × Option Nat))
      (GEPost (InnerG dest dmax name destbos value)) :=
    EV.bind (EV.handlerS _) (fun _ es he => by
      subst he; exact EV.pure _ (Or.inr (Or.inl ⟨ne_ESLEMAX, show ESLEMAX ∈ GS by decide, by simp⟩)))
  by_cases hd : dest ≠ 0
  · rw [if_pos hd]
    cases destbos with
    | none =>
      by_cases hov : dmax > RSIZE_MAX_STR
      · simp only [hov, decide_true, if_true]; exact hmax
      · simp only [hov, decide_false, Bool.false_eq_true, if_false]
        exact getenvRest_ev cfg hasLen dest dmax name none value (fun _ _ => by omega) (fun _ b h => by cases h)
    | some b =>
      by_cases hov : dmax > b
      · simp only [hov, decide_true, if_true]; exact hmax
      · simp only [hov, decide_false, Bool.false_eq_true, if_false]
        exact getenvRest_ev cfg hasLen dest dmax name (some b) value (fun _ h => by cases h) (fun _ b' h => by cases h; omega)
  · rw [if_neg hd]
    split
    · exact EV.bind (EV.handlerS _) (fun _ es he => by
        subst he; exact EV.pure _ (Or.inr (Or.inl ⟨ne_ESNULLP, show ESNULLP ∈ GS by decide, by simp⟩)))
    · exact getenvRest_ev cfg hasLen dest dmax name destbos value (fun h => absurd h hd) (fun h => absurd h hd)

/-- what `GEPost` means for runs -/
theorem GEPost.run {inner : Prop} {p : Prog (Nat × Option Nat)} (h : EV p (GEPost inner)) (st : St) {r : Nat × Option Nat} {st' : St}
    (he : exec p st = .ok (r, st')) :
    (st'.events = st.events ∧ (r.1 = EOK ∨ r.1 = NEG1)) ∨ (r.1 ≠ EOK ∧ r.1 ∈ GS ∧ st'.events = st.events ++ [.handler .str r.1]) ∨
    (inner ∧ r.1 = EOK ∧ ∃ c, c ≠ EOK ∧ st'.events = st.events ++ [.handler .str c]) := by
  obtain ⟨es, h1, h2⟩ := h.sound st he
  rcases h2 with ⟨rfl, hr⟩ | ⟨hr, hm, rfl⟩ | ⟨hi, hr, c, hc, rfl⟩
  · exact Or.inl ⟨by simpa using h1, hr⟩
  · exact Or.inr (Or.inl ⟨hr, hm, h1⟩)
  · exact Or.inr (Or.inr ⟨hi, hr, c, hc, h1⟩)

/-- getenv_s whenever the inner copy is NOT reached (dest null, dmax zero / over the limit / outside the object, name null, the
variable not set): the C05 discipline outright, for all memory contents and placements -/
theorem getenv_s_C05_noinner (cfg : Cfg) (hasLen : Bool) (dest dmax name : Nat) (destbos : Bos) (value : Nat)
    (hni : ¬ InnerG dest dmax name destbos value) (st : St) (r : Nat × Option Nat) (st' : St)
    (he : exec (getenv_s cfg hasLen dest dmax name destbos value) st = .ok (r, st')) :
    (st'.events = st.events ∧ (r.1 = EOK ∨ r.1 = NEG1)) ∨
    (r.1 ≠ EOK ∧ r.1 ∈ GS ∧ st'.events = st.events ++ [.handler .str r.1]) := by
  rcases GEPost.run (getenv_s_ev cfg hasLen dest dmax name destbos value) st he with h | h | ⟨hi, _⟩
  · exact Or.inl h
  · exact Or.inr h
  · exact absurd hi hni

/- FULL C05 statement (FALSE of the model, see `getenv_s_C05_witness`): as `getenv_s_C05_partial` without `hv`. -/
/-- getenv_s, every returning run, ALL arguments: provided that WHEN the inner copy is reached the operands are valid (`dmax`
within the limit, dest `dmax` writable cells, name a readable string, the value a readable string of any length `n` that does
not overlap dest): nothing reported and EOK / -1 returned, or exactly one report carrying the returned code. -/
theorem getenv_s_C05_partial (cfg : Cfg) (hasLen : Bool) (dest dmax name : Nat) (destbos : Bos) (value k n : Nat)
    (st : St) (r : Nat × Option Nat) (st' : St)
    (he : exec (getenv_s cfg hasLen dest dmax name destbos value) st = .ok (r, st'))
    (hv : InnerG dest dmax name destbos value →
      dmax ≤ RSIZE_MAX_STR ∧ RW st dest dmax ∧ SrcStr st name k ∧ SrcStr st value n ∧ Disjoint dest dmax value n) :
    (st'.events = st.events ∧ (r.1 = EOK ∨ r.1 = NEG1)) ∨
    (r.1 ≠ EOK ∧ r.1 ∈ GS ∧ st'.events = st.events ++ [.handler .str r.1]) := by
  by_cases hi : InnerG dest dmax name destbos value
  · obtain ⟨hle, hrw, hnm, hval, hdj⟩ := hv hi
    obtain ⟨hd, hz, _, _, _, hb⟩ := hi
    obtain ⟨r2, st2, he2, h⟩ := getenv_s_valid_events cfg hasLen dest dmax name destbos value k n st hd (by omega) hle hb hrw
      (fun _ => hnm) (fun _ => ⟨hval, hdj⟩)
    rw [he2] at he
    cases he
    exact h
  · exact getenv_s_C05_noinner cfg hasLen dest dmax name destbos value hi st r st' he

/-- the excluded point: the variable's value "ab" lies at `dest + 1` (8 cells at 100, everything mapped, dest writable): the
inner strcpy_s meets the overlap and reports ESOVRLP — getenv_s returns EOK with `*len = 2` -/
theorem getenv_s_C05_witness :
    ∃ st', exec (getenv_s {} true 100 8 300 none 101)
        { data := fun a => if a = 101 then 97 else if a = 102 then 98 else if a = 300 then 65 else 0,
          mapped := fun _ => true, rd := fun _ => true, wr := fun a => decide (100 ≤ a ∧ a < 108) } = .ok ((EOK, some 2), st') ∧
      st'.events = [.handler .str ESOVRLP] := ⟨_, rfl, rfl⟩

/-- getenv_s: every returned code is on the current `@retval` list -/
theorem getenv_s_documented (cfg : Cfg) (hasLen : Bool) (dest dmax name : Nat) (destbos : Bos) (value : Nat) :
    ReturnsDocumented "getenv_s" [] (getenv_s cfg hasLen dest dmax name destbos value) (·.1) := by
  intro st r st' he
  have hsub : ∀ c ∈ EOK :: NEG1 :: GS, c ∈ docCodes "getenv_s" ++ [] := by decide
  rcases GEPost.run (getenv_s_ev cfg hasLen dest dmax name destbos value) st he with ⟨_, h | h⟩ | ⟨_, hm, _⟩ | ⟨_, h, _⟩
  · show r.1 ∈ _; rw [h]; exact hsub _ (by simp)
  · show r.1 ∈ _; rw [h]; exact hsub _ (by simp)
  · exact hsub _ (List.mem_cons_of_mem _ (List.mem_cons_of_mem _ hm))
  · show r.1 ∈ _; rw [h]; exact hsub _ (by simp)

/-- non-vacuity of `hv` (state of `Proofs/ExtOs.lean`: dest 100 (8 cells), name "A" at 300, value "aa" at 200) -/
example : InnerG 100 8 300 none 200 ∧ 8 ≤ RSIZE_MAX_STR ∧ RW osExSt 100 8 ∧ SrcStr osExSt 300 1 ∧ SrcStr osExSt 200 2 ∧
    Disjoint 100 8 200 2 :=
  ⟨⟨by decide, by decide, by decide, by decide, fun _ => by decide, fun b h => by cases h⟩, by decide, osExSt_rw,
   osExSt_str _ _ (by omega), osExSt_str _ _ (by omega), Or.inl (by decide)⟩

/-! ## strerror_s -/

/-- the codes strerror_s reports itself -/
abbrev SS : List Nat := [ESNULLP, ESZEROL, ESLEMAX, EOVERFLOW, ESLEMIN]

/-- the inner copies of strerror_s are reached: usable dest inside the limit / the object -/
def InnerS (dest dmax : Nat) (destbos : Bos) : Prop :=
  dest ≠ 0 ∧ dmax ≠ 0 ∧ (destbos = none → dmax ≤ RSIZE_MAX_STR) ∧ (∀ b, destbos = some b → dmax ≤ b)

/-- outcome of strerror_s: the last two cases are "EOK after a report" — one of the discarded inner calls failed, or (the
truncating path `strncpy_s` + `strcat_s`, `dmax > 3`) both did -/
def SEPost (inner : Prop) (dmax : Nat) : Nat → List Event → Prop := fun r es =>
  (es = [] ∧ r = EOK) ∨ (r ≠ EOK ∧ r ∈ SS ∧ es = [.handler .str r]) ∨
  (inner ∧ r = EOK ∧ ∃ c, c ≠ EOK ∧ es = [.handler .str c]) ∨
  (inner ∧ 3 < dmax ∧ r = EOK ∧ ∃ c1 c2, c1 ≠ EOK ∧ c2 ≠ EOK ∧ es = [.handler .str c1, .handler .str c2])

theorem se_failS {inner : Prop} {dmax : Nat} (c : Nat) (hc : c ≠ EOK) (hm : c ∈ SS) : EV (failS c) (SEPost inner dmax) :=
  (EV.failS c).conseq (fun r es ⟨h1, h2⟩ => by subst h1; exact Or.inr (Or.inl ⟨hc, hm, h2⟩))

/-- strerror_s: all arguments, all memory contents -/
theorem strerror_s_ev (cfg : Cfg) (dest dmax errnum : Nat) (destbos : Bos) (msg dots : Nat) :
    EV (strerror_s cfg dest dmax errnum destbos msg dots) (SEPost (InnerS dest dmax destbos) dmax) := by
  unfold strerror_s
  by_cases hd : dest = 0
  · rw [if_pos hd]; exact se_failS _ ne_ESNULLP (by decide)
  rw [if_neg hd]
  by_cases hz : dmax = 0
  · rw [if_pos hz]; exact se_failS _ ne_ESZEROL (by decide)
  rw [if_neg hz]
  -- the body, entered with the entry checks passed
  have body : (destbos = none → dmax ≤ RSIZE_MAX_STR) → (∀ b, destbos = some b → dmax ≤ b) →
      EV (do
        let len ← strerrorlen_s errnum msg
        if len < dmax then do
          let _ ← strcpy_s cfg dest dmax msg (if cfg.fixInnerBos then destbos else none)
          pure EOK
        else if dmax > 3 then do
          let _ ← strncpy_s cfg dest dmax msg (dmax - 4) none none
          let _ ← strcat_s cfg dest dmax dots none
          pure EOK
        else do
          handleError cfg dest dmax ESLEMIN
          pure ESLEMIN : Prog Nat) (SEPost (InnerS dest dmax destbos) dmax) := by
    intro h1 h2
    have hin : InnerS dest dmax destbos := ⟨hd, hz, h1, h2⟩
    refine Quiet.then_ (q_strerrorlen_s _ _) (fun len => ?_)
    split
    · have hib : ∀ b, (if cfg.fixInnerBos = true then destbos else none) = some b → dmax ≤ b := by
        intro b hb
        split at hb
        · exact h2 b hb
        · cases hb
      refine EV.bind (strcpy_s_ev_in cfg dest dmax msg _ hib) (fun c es h => ?_)
      rcases h with ⟨_, rfl⟩ | ⟨hne, rfl⟩
      · exact EV.pure _ (Or.inl ⟨by simp, rfl⟩)
      · exact EV.pure _ (Or.inr (Or.inr (Or.inl ⟨hin, rfl, c, hne, by simp⟩)))
    split
    · rename_i h3
      refine EV.bind (strncpy_s_ev_partial cfg dest dmax msg (dmax - 4) none none (fun b h => by cases h) (fun b h => by cases h))
        (fun c1 es1 h => ?_)
      refine EV.bind (strcat_s_ev_partial cfg dest dmax dots none (fun b h => by cases h)) (fun c2 es2 h' => ?_)
      rcases h with ⟨_, rfl⟩ | ⟨hne1, rfl⟩ <;> rcases h' with ⟨_, rfl⟩ | ⟨hne2, rfl⟩
      · exact EV.pure _ (Or.inl ⟨by simp, rfl⟩)
      · exact EV.pure _ (Or.inr (Or.inr (Or.inl ⟨hin, rfl, c2, hne2, by simp⟩)))
      · exact EV.pure _ (Or.inr (Or.inr (Or.inl ⟨hin, rfl, c1, hne1, by simp⟩)))
      · exact EV.pure _ (Or.inr (Or.inr (Or.inr ⟨hin, h3, rfl, c1, c2, hne1, hne2, by simp⟩)))
    · refine EV.bind (EV.handleError _ _ _ _) (fun _ es he => ?_)
      subst he
      exact EV.pure _ (Or.inr (Or.inl ⟨ne_ESLEMIN, by decide, by simp⟩))
  unfold chkDmax
  cases destbos with
  | none =>
    dsimp only
    split
    · exact se_failS _ ne_ESLEMAX (by decide)
    · exact body (fun _ => by omega) (fun b h => by cases h)
  | some b =>
    dsimp only
    split
    · split
      · exact se_failS _ ne_ESLEMAX (by decide)
      · exact se_failS _ ne_EOVERFLOW (by decide)
    · exact body (fun h => by cases h) (fun b' h => by cases h; omega)

/-- what `SEPost` means for runs -/
theorem SEPost.run {inner : Prop} {dmax : Nat} {p : Prog Nat} (h : EV p (SEPost inner dmax)) (st : St) {r : Nat} {st' : St}
    (he : exec p st = .ok (r, st')) :
    (st'.events = st.events ∧ r = EOK) ∨ (r ≠ EOK ∧ r ∈ SS ∧ st'.events = st.events ++ [.handler .str r]) ∨
    (inner ∧ r = EOK ∧ ∃ es, es ≠ [] ∧ st'.events = st.events ++ es) := by
  obtain ⟨es, h1, h2⟩ := h.sound st he
  rcases h2 with ⟨rfl, hr⟩ | ⟨hr, hm, rfl⟩ | ⟨hi, hr, c, hc, rfl⟩ | ⟨hi, _, hr, c1, c2, _, _, rfl⟩
  · exact Or.inl ⟨by simpa using h1, hr⟩
  · exact Or.inr (Or.inl ⟨hr, hm, h1⟩)
  · exact Or.inr (Or.inr ⟨hi, hr, _, by simp, h1⟩)
  · exact Or.inr (Or.inr ⟨hi, hr, _, by simp, h1⟩)

/-- strerror_s whenever the inner copies are NOT reached (dest null, dmax zero / over the limit / outside the object): the C05
discipline outright, for all memory contents -/
theorem strerror_s_C05_noinner (cfg : Cfg) (dest dmax errnum : Nat) (destbos : Bos) (msg dots : Nat)
    (hni : ¬ InnerS dest dmax destbos) (st : St) (r : Nat) (st' : St)
    (he : exec (strerror_s cfg dest dmax errnum destbos msg dots) st = .ok (r, st')) :
    (st'.events = st.events ∧ r = EOK) ∨ (r ≠ EOK ∧ r ∈ SS ∧ st'.events = st.events ++ [.handler .str r]) := by
  rcases SEPost.run (strerror_s_ev cfg dest dmax errnum destbos msg dots) st he with h | h | ⟨hi, _⟩
  · exact Or.inl h
  · exact Or.inr h
  · exact absurd hi hni

/- FULL C05 statement (FALSE of the model, see `strerror_s_C05_witness`): as `strerror_s_C05_partial` without `hv`. -/
/-- strerror_s, every returning run, ALL arguments: provided that WHEN the entry checks pass the operands are valid (hypotheses
of `strerror_s_all`: `dmax` within the limit, dest writable, the message a readable string of `n` characters away from dest
whose length `strerrorlen_s` answers, the literal "..." likewise): nothing reported and EOK returned, or exactly one report
carrying the returned code.  NOTE `dmax ≤ RSIZE_MAX_STR` is a genuine part of `hv`: with the object size KNOWN the entry check
compares `dmax` with the object only, and the truncating path calls `strncpy_s` / `strcat_s` WITHOUT the object size — for
`RSIZE_MAX_STR < dmax ≤ destbos` and a message of `dmax` or more characters both report ESLEMAX and EOK is returned (the
fourth case of `SEPost`; it needs a message longer than 4096 characters, which no libc has). -/
theorem strerror_s_C05_partial (cfg : Cfg) (dest dmax errnum : Nat) (destbos : Bos) (msg dots n len : Nat)
    (st : St) (r : Nat) (st' : St)
    (he : exec (strerror_s cfg dest dmax errnum destbos msg dots) st = .ok (r, st'))
    (hv : InnerS dest dmax destbos →
      dmax ≤ RSIZE_MAX_STR ∧ RW st dest dmax ∧ exec (strerrorlen_s errnum msg) st = .ok (len, st) ∧
      (len = n ∨ (dmax ≤ len ∧ dmax ≤ n)) ∧ msg ≠ 0 ∧ SrcStr st msg n ∧ Disjoint dest dmax msg n ∧
      dots ≠ 0 ∧ SrcStr st dots 3 ∧ Disjoint dest dmax dots 3 ∧
      (st.data dots = 46 ∧ st.data (dots+1) = 46 ∧ st.data (dots+2) = 46)) :
    (st'.events = st.events ∧ r = EOK) ∨ (r ≠ EOK ∧ r ∈ SS ∧ st'.events = st.events ++ [.handler .str r]) := by
  by_cases hi : InnerS dest dmax destbos
  · obtain ⟨hle, hrw, hlen, hag, hm, hsrc, hdj, hdots, hds, hdd, h46⟩ := hv hi
    obtain ⟨hd, hz, _, hb⟩ := hi
    obtain ⟨r2, st2, he2, h⟩ := strerror_s_valid_events cfg dest dmax errnum destbos msg dots n len st hd (by omega) hle hb hrw
      hlen hag hm hsrc hdj hdots hds hdd h46
    rw [he2] at he
    cases he
    rcases h with h | ⟨hr, hev⟩
    · exact Or.inl h
    · subst hr; exact Or.inr ⟨by decide, by decide, hev⟩
  · exact strerror_s_C05_noinner cfg dest dmax errnum destbos msg dots hi st r st' he

/-- the excluded point: libc's message "ab" lies at `dest + 1` (8 cells at 100; errnum 5 is not one of the library's own
codes): the inner strcpy_s meets the overlap and reports ESOVRLP — strerror_s returns EOK -/
theorem strerror_s_C05_witness :
    ∃ st', exec (strerror_s {} 100 8 5 none 101 500)
        { data := fun a => if a = 101 then 97 else if a = 102 then 98 else if 500 ≤ a ∧ a < 503 then 46 else 0,
          mapped := fun _ => true, rd := fun _ => true, wr := fun a => decide (100 ≤ a ∧ a < 108) } = .ok (EOK, st') ∧
      st'.events = [.handler .str ESOVRLP] := ⟨_, rfl, rfl⟩

/-- strerror_s: every returned code is on the current `@retval` list -/
theorem strerror_s_documented (cfg : Cfg) (dest dmax errnum : Nat) (destbos : Bos) (msg dots : Nat) :
    ReturnsDocumented "strerror_s" [] (strerror_s cfg dest dmax errnum destbos msg dots) id := by
  intro st r st' he
  have hsub : ∀ c ∈ EOK :: SS, c ∈ docCodes "strerror_s" ++ [] := by decide
  rcases SEPost.run (strerror_s_ev cfg dest dmax errnum destbos msg dots) st he with ⟨_, rfl⟩ | ⟨_, hm, _⟩ | ⟨_, rfl, _⟩
  · exact hsub _ (by simp)
  · exact hsub _ (List.mem_cons_of_mem _ hm)
  · exact hsub _ (by simp)

/-- non-vacuity of `hv` (state of `Proofs/ExtOs.lean`: dest 100 (8 cells), message of 11 characters at 400, "..." at 500,
errnum 5 not one of the library's own codes) -/
example : InnerS 100 8 none ∧ 8 ≤ RSIZE_MAX_STR ∧ RW osExSt 100 8 ∧
    exec (strerrorlen_s 5 400) osExSt = .ok (11, osExSt) ∧ (11 = 11 ∨ (8 ≤ 11 ∧ 8 ≤ 11)) ∧
    (400 : Nat) ≠ 0 ∧ SrcStr osExSt 400 11 ∧ Disjoint 100 8 400 11 ∧ (500 : Nat) ≠ 0 ∧ SrcStr osExSt 500 3 ∧ Disjoint 100 8 500 3 ∧
    (osExSt.data 500 = 46 ∧ osExSt.data (500+1) = 46 ∧ osExSt.data (500+2) = 46) :=
  ⟨⟨by decide, by decide, fun _ => by decide, fun b h => by cases h⟩, by decide, osExSt_rw,
   strerrorlen_s_libc_eq 5 400 11 osExSt (by decide) (osExSt_str _ _ (by omega)) (by decide), Or.inl rfl,
   by decide, osExSt_str _ _ (by omega), Or.inl (by decide), by decide, osExSt_str _ _ (by omega), Or.inl (by decide), osExSt_dots⟩

/-- the class excluded by `dmax ≤ RSIZE_MAX_STR` in `strerror_s_C05_partial`, in general: object size KNOWN,
`RSIZE_MAX_STR < dmax ≤ destbos`, the message does not fit (`strerrorlen_s` answers `len ≥ dmax`): the entry check compares `dmax`
with the object only, the truncating path calls `strncpy_s(dest, dmax, …)` and `strcat_s(dest, dmax, "...")` WITHOUT the object
size, both reject `dmax` — strerror_s returns EOK after TWO reports of ESLEMAX and leaves dest exactly as it was.  Needs a
message of more than 4096 characters (no libc has one): a statement about the model's quantifier, not a reachable defect. -/
theorem strerror_s_C05_bos_witness (cfg : Cfg) (dest dmax errnum b msg dots len : Nat) (st : St)
    (hd : dest ≠ 0) (hgt : RSIZE_MAX_STR < dmax) (hb : dmax ≤ b)
    (hlen : exec (strerrorlen_s errnum msg) st = .ok (len, st)) (hge : dmax ≤ len) :
    exec (strerror_s cfg dest dmax errnum (some b) msg dots) st =
      .ok (EOK, { st with events := st.events ++ [.handler .str ESLEMAX, .handler .str ESLEMAX] }) := by
  have hz : dmax ≠ 0 := by omega
  have h4 : (4 : Nat) ≤ RSIZE_MAX_STR := by decide
  unfold strerror_s chkDmax
  rw [if_neg hd, if_neg hz]
  simp only []
  rw [if_neg (by omega)]
  simp only [exec_bind, hlen]
  rw [if_neg (by omega), if_pos (by omega)]
  simp only [strncpy_s, strncpyG, strcat_s, strcatG, chkDmaxClear, chkDmaxClearG]
  rw [if_neg (by omega), if_neg hd, if_neg hz, if_pos hgt]
  simp [exec_bind, handlerS, hd, hz, hgt]

/-- non-vacuity: a message of 5000 `d`s at 10000 (errnum 5 is not one of the library's own codes), `dmax = destbos = 4097` -/
example : ∃ st : St, exec (strerrorlen_s 5 10000) st = .ok (5000, st) ∧ RSIZE_MAX_STR < 4097 ∧ 4097 ≤ 5000 := by
  refine ⟨{ data := fun a => if 10000 ≤ a ∧ a < 15000 then 100 else 0, mapped := fun _ => true, rd := fun _ => true,
            wr := fun _ => false }, ?_, by decide, by decide⟩
  refine strerrorlen_s_libc_eq 5 10000 5000 _ (by decide) ⟨fun j hj => ?_, ?_, fun _ _ => ⟨rfl, rfl⟩⟩ (by decide)
  · have : 10000 ≤ 10000 + j ∧ 10000 + j < 15000 := by omega
    simp [this]
  · simp

end SafeC.Props.C05Os

import SafeC.Proofs.OsEv
/-!
# C05 for `getenv_s` and `strerror_s` (`Models/Os.lean`)

Event level, ALL arguments, memory contents and placements (`getenv_s_ev`, `strerror_s_ev`): a returning call has
* reported nothing and returned EOK (getenv_s also: -1, the variable is not set), or
* reported exactly once, a code of the function's list, and returned that code, or
* returned EOK after a report: only possible when the entry checks passed and the INNER copy, whose result the C discards
  (`strcpy_s(dest, dmax, buf)` in getenv_s; `strcpy_s` resp. `strncpy_s` + `strcat_s` in strerror_s — two discarded calls, hence
  possibly TWO reports), failed.  `Inner…` names exactly when that call is made.

`getenv_s_C05_partial` / `strerror_s_C05_partial`: with valid operands — the value / message (and the literal `"..."`) readable
strings that do not overlap dest, `dmax ≤ RSIZE_MAX_STR` — whenever the inner copy is reached, the third case does not occur
(exec-level theorems of `Proofs/ExtOs.lean`): the C05 discipline holds for every returning run.  The FULL statement (no
hypothesis on the operands) is false of the model: `getenv_s_C05_witness` / `strerror_s_C05_witness` (the value / message
overlaps dest: the inner copy reports ESOVRLP, EOK is returned).

`getenv_s_documented` / `strerror_s_documented`: every returned code is on the CURRENT `@retval` list of the doc comment.
-/
namespace SafeC.Props.C05Os
open SafeC Gen SafeC.Props.C05Ev SafeC.Props.C05Mem SafeC.Props.C05Query SafeC.Props.C05Docs

/-! ## getenv_s -/

/-- the codes getenv_s reports itself -/
abbrev GS : List Nat := [ESNULLP, ESLEMAX, ESNOSPC]

/-- the inner `strcpy_s(dest, dmax, buf)` of getenv_s is reached: usable dest inside the limit / the object, a name, the
variable is set (and, not visible at the event level, its value is shorter than `dmax`) -/
def InnerG (dest dmax name : Nat) (destbos : Bos) (value : Nat) : Prop :=
  dest ≠ 0 ∧ dmax ≠ 0 ∧ name ≠ 0 ∧ value ≠ 0 ∧ (destbos = none → dmax ≤ RSIZE_MAX_STR) ∧ (∀ b, destbos = some b → dmax ≤ b)

/-- outcome of getenv_s -/
def GEPost (inner : Prop) : (Nat × Option Nat) → List Event → Prop := fun r es =>
  (es = [] ∧ (r.1 = EOK ∨ r.1 = NEG1)) ∨ (r.1 ≠ EOK ∧ r.1 ∈ GS ∧ es = [.handler .str r.1]) ∨
  (inner ∧ r.1 = EOK ∧ ∃ c, c ≠ EOK ∧ es = [.handler .str c])

theorem getenvRest_ev (cfg : Cfg) (hasLen : Bool) (dest dmax name : Nat) (destbos : Bos) (value : Nat)
    (h1 : dest ≠ 0 → destbos = none → dmax ≤ RSIZE_MAX_STR) (h2 : dest ≠ 0 → ∀ b, destbos = some b → dmax ≤ b) :
    EV (getenvRest cfg hasLen dest dmax name destbos value) (GEPost (InnerG dest dmax name destbos value)) := by
  unfold getenvRest
  dsimp only
  by_cases hn : name = 0
  · rw [if_pos hn]
    split
    · refine EV.bind (EV.handleError _ _ _ _) (fun _ es he => ?_)
      subst he
      exact EV.pure _ (Or.inr (Or.inl ⟨ne_ESNULLP, show ESNULLP ∈ GS by decide, by simp⟩))
    · refine EV.bind (EV.handlerS _) (fun _ es he => ?_)
      subst he
      exact EV.pure _ (Or.inr (Or.inl ⟨ne_ESNULLP, show ESNULLP ∈ GS by decide, by simp⟩))
  rw [if_neg hn]
  refine Quiet.then_ (q_strlenP _ _ _) (fun _ => ?_)
  by_cases hv : value = 0
  · rw [if_pos hv]
    split
    · exact Quiet.then_ (by split <;> quiet) (fun _ => EV.pure _ (Or.inl ⟨rfl, Or.inr rfl⟩))
    · exact EV.pure _ (Or.inl ⟨rfl, Or.inr rfl⟩)
  rw [if_neg hv]
  refine Quiet.then_ (q_strlenP _ _ _) (fun len1 => ?_)
  split
  · refine EV.bind (EV.handleError _ _ _ _) (fun _ es he => ?_)
    subst he
    exact EV.pure _ (Or.inr (Or.inl ⟨ne_ESNOSPC, show ESNOSPC ∈ GS by decide, by simp⟩))
  · by_cases hc : dest ≠ 0 ∧ dmax ≠ 0
    · rw [if_pos hc]
      have hib : ∀ b, (if cfg.fixInnerBos = true then destbos else none) = some b → dmax ≤ b := by
        intro b hb
        split at hb
        · exact h2 hc.1 b hb
        · cases hb
      refine EV.bind (strcpy_s_ev_in cfg dest dmax value _ hib) (fun c es h => ?_)
      rcases h with ⟨_, rfl⟩ | ⟨hne, rfl⟩
      · exact EV.pure _ (Or.inl ⟨by simp, Or.inl rfl⟩)
      · exact EV.pure _ (Or.inr (Or.inr ⟨⟨hc.1, hc.2, hn, hv, h1 hc.1, h2 hc.1⟩, rfl, c, hne, by simp⟩))
    · rw [if_neg hc]
      exact EV.pure _ (Or.inl ⟨rfl, Or.inl rfl⟩)

/-- getenv_s: all arguments, all memory contents -/
theorem getenv_s_ev (cfg : Cfg) (hasLen : Bool) (dest dmax name : Nat) (destbos : Bos) (value : Nat) :
    EV (getenv_s cfg hasLen dest dmax name destbos value) (GEPost (InnerG dest dmax name destbos value)) := by
  rw [getenv_s_eq]
  have hmax : EV (do handlerS ESLEMAX; pure (ESLEMAX, if hasLen then some 0 else none) : Prog (Nat × Option Nat))
      (GEPost (InnerG dest dmax name destbos value)) :=
    EV.bind (EV.handlerS _) (fun _ es he => by
      subst he; exact EV.pure _ (Or.inr (Or.inl ⟨ne_ESLEMAX, show ESLEMAX ∈ GS by decide, by simp⟩)))
  by_cases hd : dest ≠ 0
  · rw [if_pos hd]
    cases destbos with
    | none =>
      by_cases hov : dmax > RSIZE_MAX_STR
      · simp only [hov, decide_true, if_true]; exact hmax
      · simp only [hov, decide_false, Bool.false_eq_true, if_false]
        exact getenvRest_ev cfg hasLen dest dmax name none value (fun _ _ => by omega) (fun _ b h => by cases h)
    | some b =>
      by_cases hov : dmax > b
      · simp only [hov, decide_true, if_true]; exact hmax
      · simp only [hov, decide_false, Bool.false_eq_true, if_false]
        exact getenvRest_ev cfg hasLen dest dmax name (some b) value (fun _ h => by cases h) (fun _ b' h => by cases h; omega)
  · rw [if_neg hd]
    split
    · exact EV.bind (EV.handlerS _) (fun _ es he => by
        subst he; exact EV.pure _ (Or.inr (Or.inl ⟨ne_ESNULLP, show ESNULLP ∈ GS by decide, by simp⟩)))
    · exact getenvRest_ev cfg hasLen dest dmax name destbos value (fun h => absurd h hd) (fun h => absurd h hd)

/-- what `GEPost` means for runs -/
theorem GEPost.run {inner : Prop} {p : Prog (Nat × Option Nat)} (h : EV p (GEPost inner)) (st : St) {r : Nat × Option Nat} {st' : St}
    (he : exec p st = .ok (r, st')) :
    (st'.events = st.events ∧ (r.1 = EOK ∨ r.1 = NEG1)) ∨ (r.1 ≠ EOK ∧ r.1 ∈ GS ∧ st'.events = st.events ++ [.handler .str r.1]) ∨
    (inner ∧ r.1 = EOK ∧ ∃ c, c ≠ EOK ∧ st'.events = st.events ++ [.handler .str c]) := by
  obtain ⟨es, h1, h2⟩ := h.sound st he
  rcases h2 with ⟨rfl, hr⟩ | ⟨hr, hm, rfl⟩ | ⟨hi, hr, c, hc, rfl⟩
  · exact Or.inl ⟨by simpa using h1, hr⟩
  · exact Or.inr (Or.inl ⟨hr, hm, h1⟩)
  · exact Or.inr (Or.inr ⟨hi, hr, c, hc, h1⟩)

/-- getenv_s whenever the inner copy is NOT reached (dest null, dmax zero / over the limit / outside the object, name null, the
variable not set): the C05 discipline outright, for all memory contents and placements -/
theorem getenv_s_C05_noinner (cfg : Cfg) (hasLen : Bool) (dest dmax name : Nat) (destbos : Bos) (value : Nat)
    (hni : ¬ InnerG dest dmax name destbos value) (st : St) (r : Nat × Option Nat) (st' : St)
    (he : exec (getenv_s cfg hasLen dest dmax name destbos value) st = .ok (r, st')) :
    (st'.events = st.events ∧ (r.1 = EOK ∨ r.1 = NEG1)) ∨
    (r.1 ≠ EOK ∧ r.1 ∈ GS ∧ st'.events = st.events ++ [.handler .str r.1]) := by
  rcases GEPost.run (getenv_s_ev cfg hasLen dest dmax name destbos value) st he with h | h | ⟨hi, _⟩
  · exact Or.inl h
  · exact Or.inr h
  · exact absurd hi hni

/- FULL C05 statement (FALSE of the model, see `getenv_s_C05_witness`): as `getenv_s_C05_partial` without `hv`. -/
/-- getenv_s, every returning run, ALL arguments: provided that WHEN the inner copy is reached the operands are valid (`dmax`
within the limit, dest `dmax` writable cells, name a readable string, the value a readable string of any length `n` that does
not overlap dest): nothing reported and EOK / -1 returned, or exactly one report carrying the returned code. -/
theorem getenv_s_C05_partial (cfg : Cfg) (hasLen : Bool) (dest dmax name : Nat) (destbos : Bos) (value k n : Nat)
    (st : St) (r : Nat × Option Nat) (st' : St)
    (he : exec (getenv_s cfg hasLen dest dmax name destbos value) st = .ok (r, st'))
    (hv : InnerG dest dmax name destbos value →
      dmax ≤ RSIZE_MAX_STR ∧ RW st dest dmax ∧ SrcStr st name k ∧ SrcStr st value n ∧ Disjoint dest dmax value n) :
    (st'.events = st.events ∧ (r.1 = EOK ∨ r.1 = NEG1)) ∨
    (r.1 ≠ EOK ∧ r.1 ∈ GS ∧ st'.events = st.events ++ [.handler .str r.1]) := by
  by_cases hi : InnerG dest dmax name destbos value
  · obtain ⟨hle, hrw, hnm, hval, hdj⟩ := hv hi
    obtain ⟨hd, hz, _, _, _, hb⟩ := hi
    obtain ⟨r2, st2, he2, h⟩ := getenv_s_valid_events cfg hasLen dest dmax name destbos value k n st hd (by omega) hle hb hrw
      (fun _ => hnm) (fun _ => ⟨hval, hdj⟩)
    rw [he2] at he
    cases he
    exact h
  · exact getenv_s_C05_noinner cfg hasLen dest dmax name destbos value hi st r st' he

/-- the excluded point: the variable's value "ab" lies at `dest + 1` (8 cells at 100, everything mapped, dest writable): the
inner strcpy_s meets the overlap and reports ESOVRLP — getenv_s returns EOK with `*len = 2` -/
theorem getenv_s_C05_witness :
    ∃ st', exec (getenv_s {} true 100 8 300 none 101)
        { data := fun a => if a = 101 then 97 else if a = 102 then 98 else if a = 300 then 65 else 0,
          mapped := fun _ => true, rd := fun _ => true, wr := fun a => decide (100 ≤ a ∧ a < 108) } = .ok ((EOK, some 2), st') ∧
      st'.events = [.handler .str ESOVRLP] := ⟨_, rfl, rfl⟩

/-- getenv_s: every returned code is on the current `@retval` list -/
theorem getenv_s_documented (cfg : Cfg) (hasLen : Bool) (dest dmax name : Nat) (destbos : Bos) (value : Nat) :
    ReturnsDocumented "getenv_s" [] (getenv_s cfg hasLen dest dmax name destbos value) (·.1) := by
  intro st r st' he
  have hsub : ∀ c ∈ EOK :: NEG1 :: GS, c ∈ docCodes "getenv_s" ++ [] := by decide
  rcases GEPost.run (getenv_s_ev cfg hasLen dest dmax name destbos value) st he with ⟨_, h | h⟩ | ⟨_, hm, _⟩ | ⟨_, h, _⟩
  · show r.1 ∈ _; rw [h]; exact hsub _ (by simp)
  · show r.1 ∈ _; rw [h]; exact hsub _ (by simp)
  · exact hsub _ (List.mem_cons_of_mem _ (List.mem_cons_of_mem _ hm))
  · show r.1 ∈ _; rw [h]; exact hsub _ (by simp)

/-- non-vacuity of `hv` (state of `Proofs/ExtOs.lean`: dest 100 (8 cells), name "A" at 300, value "aa" at 200) -/
example : InnerG 100 8 300 none 200 ∧ 8 ≤ RSIZE_MAX_STR ∧ RW osExSt 100 8 ∧ SrcStr osExSt 300 1 ∧ SrcStr osExSt 200 2 ∧
    Disjoint 100 8 200 2 :=
  ⟨⟨by decide, by decide, by decide, by decide, fun _ => by decide, fun b h => by cases h⟩, by decide, osExSt_rw,
   osExSt_str _ _ (by omega), osExSt_str _ _ (by omega), Or.inl (by decide)⟩

end SafeC.Props.C05Os

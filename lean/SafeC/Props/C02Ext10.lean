import SafeC.Proofs.AccStrstr
import SafeC.Proofs.AccGets
import SafeC.Proofs.FootprintTimeFails
import SafeC.Props.C02Ext9
/-!
# C02, sharpened statements: `strstr_s` with `slen > dmax`, the exact stream footprint of `gets_s`, `ctime_s` when libc gives up

* `strstr_s`, `slen > dmax`: the two unbounded `strlen` calls read both strings to their terminators (the over-read, class
  `unbounded-scan`); past the early `ESNOTFND` return the needle is known to end within `dmax` cells, so the search reads
  nothing more: the cuts `dmax + 1` / `slen + 1` are hypotheses for `slen ≤ dmax` only.
* `gets_s`: stream cells of the FIRST LINE only (`Line`), cut at `min dmax len`: a short line is never read past its newline.
* `ctime_s` with `libcFails` (glibc's `ctime_r` gives up after formatting 25 characters): same footprint as the normal paths.
-/
namespace SafeC.Props.C02
open SafeC Gen

/-! ## strstr_s -/

/-- **strstr_s, sharpened**: for `slen > dmax` ONLY the two strings to their terminators (`scanFuel` cut of the model;
`hfuel`: the cut lies beyond `dmax` — automatic when the object size is unknown) -/
theorem strstr_s_C02_sharp_tight_partial (dest dmax src slen : Nat) (db sb : Bos) (st : St)
    (hfuel : ∀ b, db = some b → dmax < scanFuel)
    (hd : dest ≠ 0 → slen ≤ dmax → StrRd st dest (dmax+1)) (hs : src ≠ 0 → slen ≤ dmax → StrRd st src (slen+1))
    (hlong : dest ≠ 0 → src ≠ 0 → slen > dmax → StrRd st dest scanFuel ∧ StrRd st src scanFuel) :
    Runs (strstr_s dest dmax src slen db sb) st :=
  runs_of_AccD (strstr_s_acc_sharp dest dmax src slen db sb hfuel hd hs hlong)

/-- **strstr_s**, `slen > dmax`, object size unknown: both strings readable to their terminators is all that is needed —
whatever `dmax` and `slen` are -/
theorem strstr_s_C02_long_partial (dest dmax src slen : Nat) (sb : Bos) (st : St) (hl : slen > dmax)
    (hd : dest ≠ 0 → ∀ n, StrRd st dest n) (hs : src ≠ 0 → ∀ n, StrRd st src n) :
    Runs (strstr_s dest dmax src slen none sb) st :=
  strstr_s_C02_sharp_tight_partial dest dmax src slen none sb st (fun _ h => by cases h)
    (fun _ h => by omega) (fun _ h => by omega) (fun h1 h2 _ => ⟨hd h1 _, hs h2 _⟩)

/-! ## gets_s -/

/-- the cells of the first line of the stream (cut at `n`) are mapped and readable -/
def LineRd (st : St) (p n : Nat) : Prop := ∀ a, Line st.data p n a → Rd st a

theorem LineRd.of_RD {st : St} {p n : Nat} (h : RD st p n) : LineRd st p n :=
  fun a ha => Rd_of_RD h a ⟨ha.1, ha.2.1⟩

/-- **gets_s**, exact stream footprint: the bytes of the first line (newline included) among the first `min dmax len` of the
stream — `fgets` stops behind the newline, and `getc` peeks at `inp[dmax-1]` only when the `dmax - 1` bytes before it hold no
newline.  The stream (not memory in the C) lies apart from dest. -/
theorem gets_s_C02_tight (cfg : Cfg) (dest dmax : Nat) (db : Bos) (inp len : Nat) (st : St)
    (hdis : dest ≠ 0 → dest + dmax ≤ inp ∨ inp + min dmax len ≤ dest)
    (hi : LineRd st inp (min dmax len)) (hd : dest ≠ 0 → RW st dest dmax) :
    Runs (gets_s cfg dest dmax db inp len) st :=
  runs_of_AccS (gets_s_accs cfg dest dmax db inp len hdis hi (fun h => Rd_of_RW (hd h)) (fun h => Wr_of_RW (hd h)))

/-! ## ctime_s, libc giving up -/

/-- **ctime_s** with `libcFails` (FULL): `*timer`, the characters libc had formatted (read on the direct path `dmax ≥ 120`
only), dest -/
theorem ctime_s_C02_fails (cfg : Cfg) (dest dmax timer : Nat) (db : Bos) (text n : Nat) (st : St)
    (htext : text ≠ 0 → C12Time.Staged st dest dmax text n)
    (hd : dest ≠ 0 → RW st dest dmax) (htm : timer ≠ 0 → RD st timer 1) (ht : text ≠ 0 → RD st text (n+1)) :
    Runs (ctime_s cfg dest dmax timer db text true) st := by
  refine runs_of_within2 (R := fun a => Rd st a) (W := fun a => dest ≠ 0 ∧ Cells dest dmax a)
    (within2_ctime_s' cfg dest dmax timer db text true st (fun h a ha => ⟨h, ha⟩)
      (fun h => Rd_of_RD (htm h) _ ⟨Nat.le_refl _, by omega⟩) (fun hdz h26 _ s' hs' => ?_)) (fun _ h => h)
    (fun a ha => Wr_of_RW (hd ha.1) a ha.2)
  refine within2_timeTail_fails cfg dest dmax db text n s' (by omega) (fun htx h120 => ?_) (fun htx _ j hj => ?_)
    (fun a ha => ⟨hdz, ha⟩)
  · obtain ⟨hnz, hnul, hn, hdisj⟩ := htext htx
    unfold Disjoint at hdisj
    have hout : ∀ j, j ≤ n → s'.data (text + j) = st.data (text + j) := fun j hj =>
      hs' _ (fun ⟨_, h1, h2⟩ => by omega)
    exact ⟨fun j hj => by rw [hout j (by omega)]; exact hnz j hj, by rw [hout n (Nat.le_refl _)]; exact hnul, hn, by omega⟩
  · exact Rd_of_RD (ht htx) _ ⟨by omega, by omega⟩

/-! ## non-vacuity -/

/-- a stream "ab\n…" of 9 bytes of which only the first line is mapped, `dmax = 8`: `min 8 9 = 8` cells are NOT needed -/
example : ∃ st : St, LineRd st 200 (min 8 9) ∧ RW st 100 8 ∧ st.mapped 203 = false ∧ st.mapped 108 = false := by
  refine ⟨winW (fun a => if a = 202 then 10 else 7) 100 108 200 203, fun a ⟨h1, h2, h3⟩ => ?_,
    fun i hi => by simp [winW, win]; omega, by decide, by decide⟩
  have : a < 203 := by
    apply Classical.byContradiction
    intro h
    exact h3 202 (by omega) (by omega) (by simp [winW, win])
  simp [Rd, winW, win]; omega

/-- needle longer than `dmax` allows: `slen = 9 > dmax = 2`, both strings terminated, flush against unmapped memory -/
example : ∃ st : St, (∀ n, StrRd st 100 n) ∧ (∀ n, StrRd st 200 n) ∧ st.mapped 103 = false ∧ st.mapped 202 = false :=
  ⟨win (fun a => if a = 102 ∨ a = 201 then 0 else 7) 100 103 200 202,
   fun n => StrRd.of_RD_term (n := 3) (fun i hi => by simp [win]; omega) ⟨2, by omega, by simp [win]⟩ n,
   fun n => StrRd.of_RD_term (n := 2) (fun i hi => by simp [win]; omega) ⟨1, by omega, by simp [win]⟩ n,
   by decide, by decide⟩

end SafeC.Props.C02

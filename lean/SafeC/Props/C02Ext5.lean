import SafeC.Proofs.AccTok
import SafeC.Proofs.AccJustify
import SafeC.Props.C02Ext3
/-!
# C02 for functions that write as they scan: `strset_s strnset_s strzero_s wcsset_s wcsnset_s strljustify_s strtok_s wcstok_s`

Through `AccS` (value-aware, stores tracked): reads lie in the STRING at dest cut at `dmax + 1` cells — the one
cell behind the declared ones only when no terminator precedes it —, writes inside the `dmax` declared cells
(the set family) or in the same `Str` extent (the tokenizers: their ESUNTERM exit stores `'\0'` where the scan stopped,
which for an unterminated buffer is `dest[dmax]` — the write side of this is C01's finding `tok-writes-dest-dmax`).

* set family: the loop is `while (dmax && *dest)` (counter first), but `if (!*dest) memset(dest, 0, dmax)` after it
  dereferences the final pointer: `dest[dmax]` after `dmax` full rounds (slack configuration only).
* tokenizers: `while (*dest != '\0') { if (dlen == 0) … }` reads before the bound.
-/
namespace SafeC.Props.C02
open SafeC Gen

/-! ## the set family -/

/-- **strset_s**: reads inside the string at dest cut at `dmax + 1`, writes inside the `dmax` cells -/
theorem strset_s_C02_tight_partial (cfg : Cfg) (dest dmax value : Nat) (db : Bos) (st : St)
    (hr : dest ≠ 0 → StrRd st dest (dmax+1)) (hw : dest ≠ 0 → RW st dest dmax) :
    Runs (strset_s cfg dest dmax value db) st :=
  runs_of_AccS (strset_s_accs cfg dest dmax value db hr (fun h => Wr_of_RW (hw h)))

/-- **strset_s**, C02 for a dest terminated inside `dmax` -/
theorem strset_s_C02_partial (cfg : Cfg) (dest dmax value : Nat) (db : Bos) (st : St)
    (hw : dest ≠ 0 → RW st dest dmax) (ht : dest ≠ 0 → Term st dest dmax) :
    Runs (strset_s cfg dest dmax value db) st :=
  strset_s_C02_tight_partial cfg dest dmax value db st (fun h => StrRd.of_RD_term (RD_of_RW (hw h)) (ht h) _) hw

/-- **strzero_s** -/
theorem strzero_s_C02_tight_partial (cfg : Cfg) (dest dmax : Nat) (db : Bos) (st : St)
    (hr : dest ≠ 0 → StrRd st dest (dmax+1)) (hw : dest ≠ 0 → RW st dest dmax) :
    Runs (strzero_s cfg dest dmax db) st :=
  runs_of_AccS (strzero_s_accs cfg dest dmax db hr (fun h => Wr_of_RW (hw h)))

theorem strzero_s_C02_partial (cfg : Cfg) (dest dmax : Nat) (db : Bos) (st : St)
    (hw : dest ≠ 0 → RW st dest dmax) (ht : dest ≠ 0 → Term st dest dmax) :
    Runs (strzero_s cfg dest dmax db) st :=
  strzero_s_C02_tight_partial cfg dest dmax db st (fun h => StrRd.of_RD_term (RD_of_RW (hw h)) (ht h) _) hw

/-- **wcsset_s** (the `dmax * 4 > destbos` exits clear `destbos / 4 < dmax` cells) -/
theorem wcsset_s_C02_tight_partial (cfg : Cfg) (dest dmax value : Nat) (db : Bos) (st : St)
    (hr : dest ≠ 0 → StrRd st dest (dmax+1)) (hw : dest ≠ 0 → RW st dest dmax) :
    Runs (wcsset_s cfg dest dmax value db) st :=
  runs_of_AccS (wcsset_s_accs cfg dest dmax value db hr (fun h => Wr_of_RW (hw h)))

theorem wcsset_s_C02_partial (cfg : Cfg) (dest dmax value : Nat) (db : Bos) (st : St)
    (hw : dest ≠ 0 → RW st dest dmax) (ht : dest ≠ 0 → Term st dest dmax) :
    Runs (wcsset_s cfg dest dmax value db) st :=
  wcsset_s_C02_tight_partial cfg dest dmax value db st (fun h => StrRd.of_RD_term (RD_of_RW (hw h)) (ht h) _) hw

/-- **strnset_s**: at most `n ≤ dmax` characters are set: the tail read is `dest[n]` at most -/
theorem strnset_s_C02_tight_partial (cfg : Cfg) (dest dmax value n : Nat) (db : Bos) (st : St)
    (hr : dest ≠ 0 → n ≤ dmax → StrRd st dest (n+1)) (hw : dest ≠ 0 → RW st dest dmax) :
    Runs (strnset_s cfg dest dmax value n db) st :=
  runs_of_AccS (strnset_s_accs cfg dest dmax value n db hr (fun h => Wr_of_RW (hw h)))

/-- **strnset_s**, C02: for `n < dmax` as it stands; for `n = dmax` when dest is terminated inside `dmax` -/
theorem strnset_s_C02_partial (cfg : Cfg) (dest dmax value n : Nat) (db : Bos) (st : St)
    (hw : dest ≠ 0 → RW st dest dmax) (ht : dest ≠ 0 → n = dmax → Term st dest dmax) :
    Runs (strnset_s cfg dest dmax value n db) st := by
  refine strnset_s_C02_tight_partial cfg dest dmax value n db st (fun h hn => ?_) hw
  by_cases e : n = dmax
  · exact StrRd.of_RD_term (RD_of_RW (hw h)) (ht h e) _
  · exact StrRd.of_RD (RD_of_RW (hw h)) (by omega)

/-- **wcsnset_s** -/
theorem wcsnset_s_C02_tight_partial (cfg : Cfg) (dest dmax value n : Nat) (db : Bos) (st : St)
    (hr : dest ≠ 0 → n ≤ dmax → StrRd st dest (n+1)) (hw : dest ≠ 0 → RW st dest dmax) :
    Runs (wcsnset_s cfg dest dmax value n db) st :=
  runs_of_AccS (wcsnset_s_accs cfg dest dmax value n db hr (fun h => Wr_of_RW (hw h)))

theorem wcsnset_s_C02_partial (cfg : Cfg) (dest dmax value n : Nat) (db : Bos) (st : St)
    (hw : dest ≠ 0 → RW st dest dmax) (ht : dest ≠ 0 → n = dmax → Term st dest dmax) :
    Runs (wcsnset_s cfg dest dmax value n db) st := by
  refine wcsnset_s_C02_tight_partial cfg dest dmax value n db st (fun h hn => ?_) hw
  by_cases e : n = dmax
  · exact StrRd.of_RD_term (RD_of_RW (hw h)) (ht h e) _
  · exact StrRd.of_RD (RD_of_RW (hw h)) (by omega)

/-! ## strljustify_s -/

/-- **strljustify_s**: the termination scan `while (*dest) { if (dmax == 0) … }` reads at most `dest[dmax]` (and accepts a
terminator found there); the whitespace skip and the shift loop stay below that terminator; every store inside `dmax` -/
theorem strljustify_s_C02_tight_partial (cfg : Cfg) (dest dmax : Nat) (db : Bos) (st : St)
    (hr : dest ≠ 0 → StrRd st dest (dmax+1)) (hw : dest ≠ 0 → RW st dest dmax) :
    Runs (strljustify_s cfg dest dmax db) st :=
  runs_of_AccS (strljustify_s_accs cfg dest dmax db hr (fun h => Wr_of_RW (hw h)))

/-- **strljustify_s**, C02 for a dest terminated inside `dmax` -/
theorem strljustify_s_C02_partial (cfg : Cfg) (dest dmax : Nat) (db : Bos) (st : St)
    (hw : dest ≠ 0 → RW st dest dmax) (ht : dest ≠ 0 → Term st dest dmax) :
    Runs (strljustify_s cfg dest dmax db) st :=
  strljustify_s_C02_tight_partial cfg dest dmax db st (fun h => StrRd.of_RD_term (RD_of_RW (hw h)) (ht h) _) hw

/-! ## the tokenizers (`tokBuf dest pv`: the buffer scanned — `dest`, or the saved `*ptr` when `dest` is NULL) -/

/-- **strtok_s**: reads AND writes inside the string at the buffer cut at `*dmaxp + 1` cells; the delimiter string
up to its terminator within `STRTOK_DELIM_MAX_LEN + 1` cells.  Null `dmaxp` / `ptr` / `delim` included. -/
theorem strtok_s_C02_tight_partial (dest : Nat) (dmaxp : Option Nat) (delim : Nat) (ptr : Option Nat) (db : Bos) (st : St)
    (hr : ∀ dmax pv, dmaxp = some dmax → ptr = some pv → tokBuf dest pv ≠ 0 → StrRd st (tokBuf dest pv) (dmax+1))
    (hw : ∀ dmax pv, dmaxp = some dmax → ptr = some pv → tokBuf dest pv ≠ 0 → StrWr st (tokBuf dest pv) (dmax+1))
    (hdl : delim ≠ 0 → StrRd st delim (STRTOK_DELIM_MAX_LEN+1)) :
    Runs (strtok_s dest dmaxp delim ptr db) st :=
  runs_of_AccS (strtok_s_accs dest dmaxp delim ptr db hr hw hdl)

/-- **strtok_s**, C02 for a buffer terminated inside `*dmaxp` (`delim`: a string, declared to its terminator) -/
theorem strtok_s_C02_partial (dest : Nat) (dmaxp : Option Nat) (delim : Nat) (ptr : Option Nat) (db : Bos) (st : St)
    (hrw : ∀ dmax pv, dmaxp = some dmax → ptr = some pv → tokBuf dest pv ≠ 0 →
      RW st (tokBuf dest pv) dmax ∧ Term st (tokBuf dest pv) dmax)
    (hdl : delim ≠ 0 → ∀ n, StrRd st delim n) :
    Runs (strtok_s dest dmaxp delim ptr db) st :=
  strtok_s_C02_tight_partial dest dmaxp delim ptr db st
    (fun dmax pv h1 h2 h3 => StrRd.of_RD_term (RD_of_RW (hrw dmax pv h1 h2 h3).1) (hrw dmax pv h1 h2 h3).2 _)
    (fun dmax pv h1 h2 h3 => StrWr.of_RW_term (hrw dmax pv h1 h2 h3).1 (hrw dmax pv h1 h2 h3).2 _)
    (fun h => hdl h _)

/-- **wcstok_s** -/
theorem wcstok_s_C02_tight_partial (dest : Nat) (dmaxp : Option Nat) (delim : Nat) (ptr : Option Nat) (db : Bos) (st : St)
    (hr : ∀ dmax pv, dmaxp = some dmax → ptr = some pv → tokBuf dest pv ≠ 0 → StrRd st (tokBuf dest pv) (dmax+1))
    (hw : ∀ dmax pv, dmaxp = some dmax → ptr = some pv → tokBuf dest pv ≠ 0 → StrWr st (tokBuf dest pv) (dmax+1))
    (hdl : delim ≠ 0 → StrRd st delim (STRTOK_DELIM_MAX_LEN+1)) :
    Runs (wcstok_s dest dmaxp delim ptr db) st :=
  runs_of_AccS (wcstok_s_accs dest dmaxp delim ptr db hr hw hdl)

theorem wcstok_s_C02_partial (dest : Nat) (dmaxp : Option Nat) (delim : Nat) (ptr : Option Nat) (db : Bos) (st : St)
    (hrw : ∀ dmax pv, dmaxp = some dmax → ptr = some pv → tokBuf dest pv ≠ 0 →
      RW st (tokBuf dest pv) dmax ∧ Term st (tokBuf dest pv) dmax)
    (hdl : delim ≠ 0 → ∀ n, StrRd st delim n) :
    Runs (wcstok_s dest dmaxp delim ptr db) st :=
  wcstok_s_C02_tight_partial dest dmaxp delim ptr db st
    (fun dmax pv h1 h2 h3 => StrRd.of_RD_term (RD_of_RW (hrw dmax pv h1 h2 h3).1) (hrw dmax pv h1 h2 h3).2 _)
    (fun dmax pv h1 h2 h3 => StrWr.of_RW_term (hrw dmax pv h1 h2 h3).1 (hrw dmax pv h1 h2 h3).2 _)
    (fun h => hdl h _)

/-! ## witnesses -/

/-- class `tail-read-after-full-loop` (`if (!*dest) memset(…)` of the set family, slack configuration): after `dmax`
rounds over the unterminated array {'a','b'} the final pointer is `dest + 2` -/
theorem set_tail_read_witness :
    exec (strset_s { slack := true } 100 2 120 none) (winW (fun a => if a = 100 then 97 else if a = 101 then 98 else 0) 100 102 0 0) =
      .error (.read 102) := faultOf_ok (by decide)

/-- class `read-before-bound`, tokenizer form: buffer {'a','b'} exactly fills `*dmaxp = 2`, delimiters ","; the second
scan evaluates `dest[2]` before it sees `dlen == 0` -/
theorem tok_read_before_bound_witness :
    exec (strtok_s 100 (some 2) 200 (some 0) none)
      (winW (fun a => if a = 100 then 97 else if a = 101 then 98 else if a = 200 then 44 else 0) 100 102 200 202) =
      .error (.read 102) := faultOf_ok (by decide)

/-- non-vacuity: "ab\0" in a writable 5-cell buffer, delimiters ",\0"; nothing else mapped -/
example : ∃ st : St, RW st 100 5 ∧ Term st 100 5 ∧ (∀ n, StrRd st 200 n) ∧ st.mapped 105 = false ∧ st.mapped 202 = false := by
  refine ⟨winW (fun a => if a = 100 then 97 else if a = 101 then 98 else if a = 200 then 44 else 0) 100 105 200 202,
    fun i hi => by simp [winW, win]; omega, ⟨2, by omega, by simp [winW, win]⟩, fun n => ?_, by decide, by decide⟩
  exact StrRd.of_RD_term (n := 2) (fun i hi => by simp [winW, win]; omega) ⟨1, by omega, by simp [winW, win]⟩ n

end SafeC.Props.C02

import SafeC.Proofs.Footprint
import SafeC.Proofs.InterleaveEv
import SafeC.Props.C12
/-!
# C12, second part — N threads, shared read-only data, sequential orders, locality of `exec`

The generic statements behind C12 at full strength (proofs in `Proofs/InterleaveN.lean`,
`Proofs/Footprint.lean`); the per-family footprints are in `C12Fp.lean`.

Model of concurrency: a pool `ps : ι → Thread` of programs over ANY index type (arbitrarily many threads,
each with its own result type), one shared memory, an arbitrary schedule `sch : List ι` of atomic steps
(one load, one store or one handler event; `runPool`).  Footprints `R i` (cells thread `i` may load) and
`W i` (cells it may store to) for the run from the initial memory (`Thread.Fp` = `Within2`).
`NonInterf R W`: no thread stores into a cell another thread loads or stores — read-only cells may be
shared by any number of threads.  Assumption recorded: sequential consistency at the granularity of
single loads and stores.

Statements.
* `reentrant_invariant`  — at every point of every schedule (no length bound, nothing assumed to finish);
* `reentrant_n`          — a finished thread has its run-alone result and contents;
* `sequential_any_order` — calls run one after the other in any order each behave as if alone
                           (nothing is carried from one call to the next);
* `interleaving_is_sequential` — all finished: every interleaving = every sequential order, whole memory;
* `reentrant_shared_reads`, `either_order` — the two-thread forms on `runSched`;
* `events_invariant`, `events_are_a_shuffle`, `quiet_calls_stay_quiet` — the handler events of an interleaving;
* `exec_local_ok`, `exec_local_err`, `exec_frame_outside` — `exec p st` depends only on `st` restricted
  to the footprint and changes nothing outside it: the checkable form of "no mutable state".
-/
namespace SafeC.Props.C12N
open SafeC

variable {ι : Type} [DecidableEq ι]

/-- **invariant of every schedule** (see `pool_invariant`) -/
theorem reentrant_invariant {R W : ι → Nat → Prop} (hni : NonInterf R W) (sch : List ι) (ps : ι → Thread) (s : St)
    (hw : ∀ i, (ps i).Fp (R i) (W i) s) :
    (∀ i, ((runPool sch ps s).1 i).Fp (R i) (W i) (runPool sch ps s).2) ∧
    (∀ i, ((runPool sch ps s).1 i).finish (runPool sch ps s).2 = (ps i).finish s) ∧
    (∀ i a, R i a ∨ W i a → ((runPool sch ps s).1 i).final (runPool sch ps s).2 a = (ps i).final s a) ∧
    (∀ a, (∀ i, ¬ W i a) → (runPool sch ps s).2.data a = s.data a) :=
  pool_invariant hni sch ps s hw

/-- **C12, N threads.**  Any number of calls with pairwise non-interfering footprints, ANY interleaving of
their atomic steps: a call that has returned has returned what it returns when run alone from the initial
memory, and every cell of its footprint holds what the call alone leaves there — whatever the other threads
have done meanwhile, finished or not. -/
theorem reentrant_n {R W : ι → Nat → Prop} (hni : NonInterf R W) (sch : List ι) (ps : ι → Thread) (s : St)
    (hw : ∀ i, (ps i).Fp (R i) (W i) s) (i : ι) (hd : ((runPool sch ps s).1 i).isDone = true) :
    (runPool sch ps s).1 i = (ps i).finish s ∧
    ∀ a, R i a ∨ W i a → (runPool sch ps s).2.data a = (ps i).final s a :=
  pool_finished hni sch ps s hw i hd

omit [DecidableEq ι] in
/-- **no state is carried from call to call.**  The calls of a duplicate-free list run one after the
other, in the order of the list: each returns its run-alone result and leaves its run-alone contents. -/
theorem sequential_any_order {R W : ι → Nat → Prop} (hni : NonInterf R W) (ps : ι → Thread) (l : List ι)
    (hl : l.Nodup) (s : St) (hw : ∀ i ∈ l, (ps i).Fp (R i) (W i) s) :
    seqResults (l.map ps) s = l.map (fun i => (ps i).finish s) ∧
    (∀ i ∈ l, ∀ a, R i a ∨ W i a → (seqRun (l.map ps) s).data a = (ps i).final s a) ∧
    (∀ a, (∀ i ∈ l, ¬ W i a) → (seqRun (l.map ps) s).data a = s.data a) :=
  seq_char hni ps l hl s hw

/-- **every interleaving is every sequential order.**  `l` lists the threads in any order; if the schedule
lets all of them finish, the results are those of the sequential run in the order `l` and the final memory
is the same, cell for cell. -/
theorem interleaving_is_sequential {R W : ι → Nat → Prop} (hni : NonInterf R W) (sch : List ι) (ps : ι → Thread)
    (s : St) (hw : ∀ i, (ps i).Fp (R i) (W i) s) (l : List ι) (hl : l.Nodup) (hall : ∀ i, i ∈ l)
    (hfin : ∀ i, ((runPool sch ps s).1 i).isDone = true) :
    l.map (runPool sch ps s).1 = seqResults (l.map ps) s ∧
    (runPool sch ps s).2.data = (seqRun (l.map ps) s).data :=
  interleave_eq_seq hni sch ps s hw l hl hall hfin

/-- two threads (`runSched`), read-only cells may be shared -/
theorem reentrant_shared_reads {α β : Type} {RA WA RB WB : Nat → Prop}
    (hab : ∀ a, WA a → ¬ RB a ∧ ¬ WB a) (hba : ∀ a, WB a → ¬ RA a ∧ ¬ WA a)
    (sch : List Bool) (pa : Prog α) (pb : Prog β) (s : St)
    (ha : Within2 RA WA pa s) (hb : Within2 RB WB pb s)
    (hfin : done (runSched sch pa pb s).1 = true ∧ done (runSched sch pa pb s).2.1 = true) :
    (runSched sch pa pb s).1 = .ret (runT pa s).1 ∧ (runSched sch pa pb s).2.1 = .ret (runT pb s).1 ∧
    (∀ a, RA a ∨ WA a → (runSched sch pa pb s).2.2.data a = (runT pa s).2.data a) ∧
    (∀ a, RB a ∨ WB a → (runSched sch pa pb s).2.2.data a = (runT pb s).2.data a) ∧
    (∀ a, ¬ WA a → ¬ WB a → (runSched sch pa pb s).2.2.data a = s.data a) :=
  interleave_shared hab hba sch pa pb s ha hb hfin

/-- two threads: the interleaved memory is the memory of A-then-B and of B-then-A, and in either order the
second call returns what it returns alone -/
theorem either_order {α β : Type} {RA WA RB WB : Nat → Prop}
    (hab : ∀ a, WA a → ¬ RB a ∧ ¬ WB a) (hba : ∀ a, WB a → ¬ RA a ∧ ¬ WA a)
    (sch : List Bool) (pa : Prog α) (pb : Prog β) (s : St)
    (ha : Within2 RA WA pa s) (hb : Within2 RB WB pb s)
    (hfin : done (runSched sch pa pb s).1 = true ∧ done (runSched sch pa pb s).2.1 = true) :
    (runSched sch pa pb s).2.2.data = (runT pb (runT pa s).2).2.data ∧
    (runSched sch pa pb s).2.2.data = (runT pa (runT pb s).2).2.data ∧
    (runT pb (runT pa s).2).1 = (runT pb s).1 ∧ (runT pa (runT pb s).2).1 = (runT pa s).1 :=
  interleave_eq_either_order hab hba sch pa pb s ha hb hfin

/-! ## "keeps no mutable state": a model is a function of its arguments and of the cells of its footprint

A model `f args : Prog α` is a VALUE of an inductive type: it has no storage of its own, and the
interpreters `exec` / `runT` / `step` thread exactly one `St` through it.  What remains to be checked is that
the run does not depend on more of that `St` than the call's footprint: -/

/-- `exec` from two states that agree on the footprint (contents, mapping, permissions; same logs):
same result, same logs, contents agreeing on the footprint -/
theorem exec_local_ok {α : Type} {F : Nat → Prop} (p : Prog α) (s s' : St) (hsim : Sim F s s') (hw : Within F p s)
    {r : α} {t : St} (h : exec p s = .ok (r, t)) :
    ∃ t', exec p s' = .ok (r, t') ∧ Sim F t t' :=
  SafeC.exec_local_ok p s s' hsim hw h

/-- … and the same fault if it faults -/
theorem exec_local_err {α : Type} {F : Nat → Prop} (p : Prog α) (s s' : St) (hsim : Sim F s s') (hw : Within F p s)
    {e : Fault} (h : exec p s = .error e) : exec p s' = .error e :=
  SafeC.exec_local_err p s s' hsim hw h

/-- … and nothing outside the cells it may store to is changed (`exec` and `runT` alike) -/
theorem exec_frame_outside {α : Type} {R W : Nat → Prop} (p : Prog α) (s : St) (hw : Within2 R W p s)
    {r : α} {t : St} (h : exec p s = .ok (r, t)) :
    ∀ a, ¬ W a → t.data a = s.data a := by
  intro a ha
  rw [← (exec_eq_runT_aux p s s rfl h).2]
  exact runT_frame2 p s hw a ha

/-! ## handler events -/

/-- **events of an interleaving**: at every point of every schedule the log is the initial log followed by a
shuffle `L` of what the threads have emitted so far — heads taken from the threads' run-alone event lists
(`Thread.evs`, from the initial memory), leaving exactly the events the remaining programs emit run alone from
the current memory -/
theorem events_invariant {R W : ι → Nat → Prop} (hni : NonInterf R W) (sch : List ι) (ps : ι → Thread) (s : St)
    (hw : ∀ i, (ps i).Fp (R i) (W i) s) :
    ∃ L, (runPool sch ps s).2.events = s.events ++ L ∧
      Sh (fun i => (ps i).evs s) L (fun i => ((runPool sch ps s).1 i).evs (runPool sch ps s).2) :=
  pool_events hni sch ps s hw

/-- all threads finished: the log is the initial log followed by a COMPLETE shuffle of the threads' run-alone
event lists — every constraint-handler event of every call appears, with the kind and code of the call run
alone, in the call's own order; only the relative order across threads depends on the schedule -/
theorem events_are_a_shuffle {R W : ι → Nat → Prop} (hni : NonInterf R W) (sch : List ι) (ps : ι → Thread) (s : St)
    (hw : ∀ i, (ps i).Fp (R i) (W i) s) (hfin : ∀ i, ((runPool sch ps s).1 i).isDone = true) :
    ∃ L, (runPool sch ps s).2.events = s.events ++ L ∧ Sh (fun i => (ps i).evs s) L (fun _ => []) :=
  pool_events_finished hni sch ps s hw hfin

/-- calls that report nothing when run alone report nothing under any schedule -/
theorem quiet_calls_stay_quiet {R W : ι → Nat → Prop} (hni : NonInterf R W) (sch : List ι) (ps : ι → Thread) (s : St)
    (hw : ∀ i, (ps i).Fp (R i) (W i) s) (hq : ∀ i, (ps i).evs s = []) :
    (runPool sch ps s).2.events = s.events := by
  obtain ⟨L, h1, h2⟩ := pool_events hni sch ps s hw
  cases h2 with
  | done _ => simpa using h1
  | step i e rest hi _ _ =>
    have hi' : (ps i).evs s = e :: rest := hi
    rw [hq i] at hi'; cases hi'

/-- non-vacuity: a failing call's own event list, and a two-thread shuffle of two such lists -/
example (s : St) : Thread.evs ⟨Nat, failS 5⟩ s = [.handler .str 5] := rfl

example : Sh (fun b : Bool => if b then [Event.handler .str 5] else [Event.handler .mem 7])
    [Event.handler .mem 7, Event.handler .str 5] (fun _ => []) :=
  .step false _ [] rfl (f' := fun b => if b then [Event.handler .str 5] else []) (fun j => by cases j <;> rfl)
    (.step true _ [] rfl (f' := fun _ => []) (fun j => by cases j <;> rfl) (.done fun _ => rfl))

/-! ## non-vacuity: three threads, private scratch cells, one SHARED read-only cell -/

/-- add the shared cell `c` into the private cell `x` through the private scratch cell `tmp` -/
def addVia (tmp c x : Nat) : Prog Nat := do
  let v ← load c
  store tmp v
  let w ← load x
  let u ← load tmp
  store x (w + u)
  pure (w + u)

theorem addVia_fp (tmp c x : Nat) (s : St) :
    Within2 (fun a => a = c ∨ a = tmp ∨ a = x) (fun a => a = tmp ∨ a = x) (addVia tmp c x) s := by
  simp [addVia, load, store, bind, Prog.bind, Within2, pure]

/-- three threads 0,1,2 add the shared cell 7 into their cells 10+i via scratch cells 20+i: under every
schedule a finished thread `i` has returned its own sum and its cell holds it -/
example (sch : List (Fin 3)) (s : St) (i : Fin 3)
    (hd : ((runPool sch (fun j : Fin 3 => (⟨Nat, addVia (20 + j.val) 7 (10 + j.val)⟩ : Thread)) s).1 i).isDone = true) :
    (runPool sch (fun j : Fin 3 => (⟨Nat, addVia (20 + j.val) 7 (10 + j.val)⟩ : Thread)) s).1 i =
      Thread.finish ⟨Nat, addVia (20 + i.val) 7 (10 + i.val)⟩ s :=
  (reentrant_n (R := fun j a => a = 7 ∨ a = 20 + j.val ∨ a = 10 + j.val)
      (W := fun j a => a = 20 + j.val ∨ a = 10 + j.val)
      (by
        intro i j hij a hw
        have : i.val ≠ j.val := fun e => hij (Fin.ext e)
        have hi := i.isLt; have hj := j.isLt
        constructor <;> omega)
      sch (fun j : Fin 3 => (⟨Nat, addVia (20 + j.val) 7 (10 + j.val)⟩ : Thread)) s
      (fun j => addVia_fp (20 + j.val) 7 (10 + j.val) s) i hd).1

/-- … and the "all threads finish" hypothesis of `interleaving_is_sequential` is satisfiable: round-robin for
six rounds lets the three threads finish from the memory `mem0` (cell `a` holds `a`), and thread 1 has then
returned `11 + 7` -/
example :
    let ps : Fin 3 → Thread := fun j => ⟨Nat, addVia (20 + j.val) 7 (10 + j.val)⟩
    let sch : List (Fin 3) := [0, 1, 2, 0, 1, 2, 0, 1, 2, 0, 1, 2, 0, 1, 2, 0, 1, 2]
    (∀ i, ((runPool sch ps Props.C12.mem0).1 i).isDone = true) ∧
    (runPool sch ps Props.C12.mem0).2.data 11 = 18 := by
  decide

/-! ## the remaining offender: a call counter in static storage (`tmpfile_s` / `tmpnam_s`, known finding
`tmpfile-count`)

`static int count; … if (++count > TMP_MAX_S) …` is a load and a store of ONE cell shared by all threads.
The hypothesis of `reentrant_n` fails (both calls store to the counter cell), and so does the conclusion: -/

/-- `++count` on the shared cell `c`, returning the new value -/
def bump (c : Nat) : Prog Nat := do
  let v ← load c
  store c (v + 1)
  pure (v + 1)

/-- two concurrent calls, both load the counter before either stores: both return 1 and the counter ends
at 1 — one call is lost to the `TMP_MAX_S` accounting; run one after the other they return 1 and 2 -/
theorem shared_counter_witness :
    ∃ sch : List Bool,
      (runSched sch (bump 0) (bump 0) Props.C12.mem0).1 = .ret 1 ∧
      (runSched sch (bump 0) (bump 0) Props.C12.mem0).2.1 = .ret 1 ∧
      (runSched sch (bump 0) (bump 0) Props.C12.mem0).2.2.data 0 = 1 ∧
      (runT (bump 0) (runT (bump 0) Props.C12.mem0).2).1 = 2 ∧
      (runT (bump 0) (runT (bump 0) Props.C12.mem0).2).2.data 0 = 2 :=
  ⟨[true, false, true, false, true, false], rfl, rfl, rfl, rfl, rfl⟩

end SafeC.Props.C12N

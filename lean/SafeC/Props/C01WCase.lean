import SafeC.Proofs.WW
import SafeC.Models.WCase
import SafeC.Props.C01Inplace
/-!
# C01 for the wide case mappers `wcslwr_s`, `wcsupr_s`

Setting and conclusion of `Props/C01.lean` (`Setting`, `Holds`): every cell mapped and readable with ARBITRARY
contents, `src[0..slen)` writable.  Then for ALL arguments — any `src` (null too), any `slen` (0, above
RSIZE_MAX_WSTR, above 2^62 where `slen * sizeof(wchar_t)` wraps), object size unknown or known (whatever number of
bytes it is), the string terminated inside `slen` cells or not at all — the call returns, records no stray write
and leaves every cell outside `src[0..slen)` bit-identical.  In particular the cell `src[slen]` that the loop
`while (*src && slen)` READS when no NUL comes first (C02's business) is never written.

Proved once for the shared text `wcase_s rb f`, for EVERY cell mapping `f` (the theorem does not look at the tables of
`_towupper` or at what libc's `towlower` does), through the `WW` judgement: every store address lies in
`[src, src+slen)` whatever values the loads return.
-/
namespace SafeC.Props.C01
open SafeC Gen

/-- the loop stores only to the cells its counter covers, whatever it reads -/
theorem WW_wcaseLoop (rb : Bool) (f : Nat → Nat) (slen src : Nat) :
    WW src (src + slen) (wcaseLoop rb f slen src) (fun _ => True) := by
  induction slen generalizing src with
  | zero =>
    unfold wcaseLoop
    split
    · exact WW.bind (WW.loadP src) (fun _ _ => WW.pure _ trivial)
    · exact WW.pure _ trivial
  | succ k ih =>
    unfold wcaseLoop
    refine WW.bind (WW.loadP src) (fun c _ => ?_)
    split
    · exact WW.pure _ trivial
    · refine WW.bind (WW.loadP src) (fun c1 _ => ?_)
      refine WW.bind (WW.storeP src _ (Nat.le_refl _) (by omega)) (fun _ _ => ?_)
      exact (ih (src+1)).mono (by omega) (by omega)

/-- the shared text, for every mapping `f`: within any window that contains `src[0..slen)` -/
theorem WW_wcase_s (rb : Bool) (f : Nat → Nat) (src slen : Nat) (b : Bos) (lo hi : Nat)
    (h : src ≠ 0 → lo ≤ src ∧ src + slen ≤ hi) :
    WW lo hi (wcase_s rb f src slen b) (fun _ => True) := by
  unfold wcase_s
  split
  · exact WW.pure _ trivial
  · split
    · exact WW.failS _
    · rename_i hd
      obtain ⟨hlo, hhi⟩ := h hd
      have body : WW lo hi (do wcaseLoop rb f slen src; pure EOK : Prog Nat) (fun _ => True) :=
        WW.bind ((WW_wcaseLoop rb f slen src).mono hlo hhi) (fun _ _ => WW.pure _ trivial)
      split
      · exact WW.failS _
      · dsimp only
        split
        · exact body
        · split
          · exact WW.failS _
          · exact body

theorem WW_wcslwr_s (cfg : Cfg) (src slen : Nat) (b : Bos) (lo hi : Nat) (h : src ≠ 0 → lo ≤ src ∧ src + slen ≤ hi) :
    WW lo hi (wcslwr_s cfg src slen b) (fun _ => True) := WW_wcase_s _ _ src slen b lo hi h

theorem WW_wcsupr_s (cfg : Cfg) (src slen : Nat) (b : Bos) (lo hi : Nat) (h : src ≠ 0 → lo ≤ src ∧ src + slen ≤ hi) :
    WW lo hi (wcsupr_s cfg src slen b) (fun _ => True) := WW_wcase_s _ _ src slen b lo hi h

/-- the shared text with ANY cell mapping: all arguments, any object-size knowledge, any contents -/
theorem wcase_s_C01 (rb : Bool) (f : Nat → Nat) (src slen : Nat) (b : Bos) (st : St) (hs : Setting st)
    (hrw : src ≠ 0 → RW st src slen) :
    ∃ code st', exec (wcase_s rb f src slen b) st = .ok (code, st') ∧ Holds st st' :=
  holds_of_WW src slen st hs
    (fun hd a h1 h2 => by have := hrw hd (a - src) (by omega); have e : src + (a - src) = a := by omega
                          rw [e] at this; exact this.2.1)
    (fun _ => WW_wcase_s rb f src slen b _ _ (fun _ => ⟨Nat.le_refl _, Nat.le_refl _⟩))
    (fun h0 => WW_wcase_s rb f src slen b _ _ (fun hd => absurd h0 hd))

/-- **wcslwr_s** -/
theorem wcslwr_s_C01 (cfg : Cfg) (src slen : Nat) (b : Bos) (st : St) (hs : Setting st)
    (hrw : src ≠ 0 → RW st src slen) :
    ∃ code st', exec (wcslwr_s cfg src slen b) st = .ok (code, st') ∧ Holds st st' :=
  wcase_s_C01 _ _ src slen b st hs hrw

/-- **wcsupr_s** -/
theorem wcsupr_s_C01 (cfg : Cfg) (src slen : Nat) (b : Bos) (st : St) (hs : Setting st)
    (hrw : src ≠ 0 → RW st src slen) :
    ∃ code st', exec (wcsupr_s cfg src slen b) st = .ok (code, st') ∧ Holds st st' :=
  wcase_s_C01 _ _ src slen b st hs hrw

/-- the hypotheses are satisfiable by an unterminated array: five cells 'G', only they writable -/
example : ∃ st : St, Setting st ∧ ((100 : Nat) ≠ 0 → RW st 100 5) :=
  ⟨{ data := fun _ => 0x47, mapped := fun _ => true, rd := fun _ => true, wr := fun a => decide (100 ≤ a ∧ a < 105) },
   ⟨fun _ => ⟨rfl, rfl⟩, rfl⟩, fun _ i hi => ⟨rfl, by simp; omega, rfl⟩⟩

end SafeC.Props.C01

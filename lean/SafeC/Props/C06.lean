import SafeC.Proofs.CopyDisjoint
/-!
# C06 — success means the exact, complete result: no silent truncation

`Spec`: the standard counterparts as list functions.  For valid, non-overlapping operands the
models return EOK exactly when the complete result including its terminator fits in dmax, and then
dest holds exactly that result; otherwise they fail (ESNOSPC) — they never store a shortened result
and report success.
-/
namespace SafeC.Props.C06
open SafeC Gen

/-- the first `n` cells at `p` as a list -/
def cells (st : St) (p : Nat) : Nat → List Nat
  | 0 => []
  | n+1 => st.data p :: cells st (p+1) n

theorem cells_eq (st st' : St) (p q n : Nat) (h : ∀ i, i < n → st'.data (p+i) = st.data (q+i)) :
    cells st' p n = cells st q n := by
  induction n generalizing p q with
  | zero => rfl
  | succ n ih =>
    simp only [cells]
    have h0 := h 0 (by omega)
    simp only [Nat.add_zero] at h0
    rw [h0, ih (p+1) (q+1)]
    intro i hi
    have := h (i+1) (by omega)
    simpa [Nat.add_assoc, Nat.add_comm 1 i] using this

theorem cells_snoc (st : St) (p n : Nat) : cells st p (n+1) = cells st p n ++ [st.data (p+n)] := by
  induction n generalizing p with
  | zero => simp [cells]
  | succ n ih =>
    have := ih (p+1)
    simp only [cells] at this ⊢
    rw [this]
    simp [Nat.add_assoc, Nat.add_comm 1 n]

/-- strcpy: dest = src string ++ [0] -/
theorem strcpy_s_C06 (cfg : Cfg) (dest dmax src n : Nat) (st : St)
    (hd : dest ≠ 0) (hs : src ≠ 0) (hpos : 0 < dmax) (hle : dmax ≤ RSIZE_MAX_STR)
    (hrw : RW st dest dmax) (hsrc : SrcStr st src n) (hdisj : Disjoint dest dmax src n) :
    ∃ code st', exec (strcpy_s cfg dest dmax src none) st = .ok (code, st') ∧
      (code = EOK ↔ n + 1 ≤ dmax) ∧
      (code = EOK → cells st' dest (n+1) = cells st src n ++ [0]) := by
  obtain ⟨code, st', he, _, _, _, _, _, hok, hfail⟩ :=
    strcpyG_disjoint _ cfg dest dmax src n st hd hs hpos hle hrw hsrc hdisj
  refine ⟨code, st', he, ⟨fun hc => ?_, fun h => (hok (by omega)).1⟩, fun hc => ?_⟩
  · by_cases h : n < dmax
    · omega
    · have := (hfail (by omega)).1
      rw [hc] at this; exact absurd this (by decide)
  · have hn : n < dmax := by
      by_cases h : n < dmax
      · exact h
      · have := (hfail (by omega)).1
        rw [hc] at this; exact absurd this (by decide)
    obtain ⟨_, _, hcp, hnul, _⟩ := hok hn
    have : cells st' dest (n+1) = cells st' dest n ++ [0] := by rw [cells_snoc, hnul]
    rw [this, cells_eq st st' dest src n hcp]

/-- strcat: old dest string ++ src string ++ [0] -/
theorem strcat_s_C06 (cfg : Cfg) (dest dmax src dl n : Nat) (st : St)
    (hd : dest ≠ 0) (hs : src ≠ 0) (hpos : 0 < dmax) (hle : dmax ≤ RSIZE_MAX_STR)
    (hrw : RW st dest dmax) (hsrc : SrcStr st src n) (hdisj : Disjoint dest dmax src n)
    (hdl : dl < dmax) (hdnz : ∀ j, j < dl → st.data (dest+j) ≠ 0) (hdnul : st.data (dest+dl) = 0) :
    ∃ code st', exec (strcat_s cfg dest dmax src none) st = .ok (code, st') ∧
      (code = EOK ↔ dl + n + 1 ≤ dmax) ∧
      (code = EOK → cells st' dest dl = cells st dest dl ∧ cells st' (dest+dl) n = cells st src n ∧
        st'.data (dest+dl+n) = 0) := by
  obtain ⟨code, st', he, _, _, _, _, _, hok, hfail⟩ :=
    strcatG_disjoint _ cfg dest dmax src dl n st hd hs hpos hle hrw hsrc hdisj hdl hdnz hdnul
  have key : code = EOK → dl + n < dmax := by
    intro hc
    by_cases h : dl + n < dmax
    · exact h
    · have := (hfail (by omega)).1
      rw [hc] at this; exact absurd this (by decide)
  refine ⟨code, st', he, ⟨fun hc => by have := key hc; omega, fun h => (hok (by omega)).1⟩, fun hc => ?_⟩
  obtain ⟨_, _, hpre, hcp, hnul, _⟩ := hok (key hc)
  exact ⟨cells_eq st st' dest dest dl hpre, cells_eq st st' (dest+dl) src n hcp, hnul⟩

/-- strncpy: the first `m = min(slen, strlen src)` characters, then a terminator -/
theorem strncpy_s_C06 (cfg : Cfg) (dest dmax src slen m : Nat) (st : St)
    (hd : dest ≠ 0) (hs : src ≠ 0) (hpos : 0 < dmax) (hle : dmax ≤ RSIZE_MAX_STR)
    (hslen : 0 < slen) (hslenle : slen ≤ RSIZE_MAX_STR)
    (hrw : RW st dest dmax)
    (hnz : ∀ j, j < m → st.data (src+j) ≠ 0)
    (hrd : ∀ j, j < m → st.mapped (src+j) = true ∧ st.rd (src+j) = true)
    (hfin : (m < slen ∧ st.data (src+m) = 0 ∧ st.mapped (src+m) = true ∧ st.rd (src+m) = true) ∨ slen = m)
    (hdisj : dest + dmax ≤ src ∨ src + m < dest) :
    ∃ code st', exec (strncpy_s cfg dest dmax src slen none none) st = .ok (code, st') ∧
      (code = EOK ↔ m + 1 ≤ dmax) ∧
      (code = EOK → cells st' dest m = cells st src m ∧ st'.data (dest+m) = 0) := by
  obtain ⟨code, st', he, _, _, _, _, _, hok, hfail⟩ :=
    strncpyG_disjoint _ cfg dest dmax src slen m st hd hs hpos hle (Nat.le_refl _) hslen hslenle hrw hnz hrd hfin hdisj
  have key : code = EOK → m < dmax := by
    intro hc
    by_cases h : m < dmax
    · exact h
    · have := (hfail (by omega)).1
      rw [hc] at this; exact absurd this (by decide)
  refine ⟨code, st', he, ⟨fun hc => by have := key hc; omega, fun h => (hok (by omega)).1⟩, fun hc => ?_⟩
  obtain ⟨_, _, hcp, hnul, _⟩ := hok (key hc)
  exact ⟨cells_eq st st' dest src m hcp, hnul⟩

end SafeC.Props.C06

import SafeC.Models.Copy
/-! Property theorems for C06 (see DESIGN.md §4). -/
namespace SafeC.Props.C06
end SafeC.Props.C06

import SafeC.Props.C01
/-!
# C05 — every constraint violation is reported exactly once, with the code returned

Handler discipline for strcpy_s / wcscpy_s (object size unknown), for ALL arguments and placements:
the events appended by the call are `[]` when EOK is returned and exactly
`[handler str code]` when `code ≠ EOK` is returned — never zero, never two, never another code.
`strcpyG_C05_early`: a dmax above the limit is rejected with NOTHING mapped, i.e. before dest or
src is touched.
-/
namespace SafeC.Props.C05
open SafeC Gen SafeC.Props.C01

theorem strcpyG_C05 (max : Nat) (cfg : Cfg) (dest dmax src : Nat) (st : St) (hs : Setting st)
    (hrw : dest ≠ 0 → RW st dest dmax) :
    ∃ code st', exec (strcpyG max cfg dest dmax src none) st = .ok (code, st') ∧
      (code = EOK → st'.events = st.events) ∧
      (code ≠ EOK → st'.events = st.events ++ [.handler .str code]) := by
  obtain ⟨code, st', he, hp, _⟩ := strcpyG_safe max cfg dest dmax src st hs.all hrw
  exact ⟨code, st', he, hp.ok_events, hp.fail_events⟩

theorem strcpy_s_C05 (cfg : Cfg) (dest dmax src : Nat) (st : St) (hs : Setting st)
    (hrw : dest ≠ 0 → RW st dest dmax) :
    ∃ code st', exec (strcpy_s cfg dest dmax src none) st = .ok (code, st') ∧
      (code = EOK → st'.events = st.events) ∧
      (code ≠ EOK → st'.events = st.events ++ [.handler .str code]) :=
  strcpyG_C05 _ cfg dest dmax src st hs hrw

theorem wcscpy_s_C05 (cfg : Cfg) (dest dmax src : Nat) (st : St) (hs : Setting st)
    (hrw : dest ≠ 0 → RW st dest dmax) :
    ∃ code st', exec (wcscpy_s cfg dest dmax src none) st = .ok (code, st') ∧
      (code = EOK → st'.events = st.events) ∧
      (code ≠ EOK → st'.events = st.events ++ [.handler .str code]) := by
  rw [wcscpy_eq]; exact strcpyG_C05 _ cfg dest dmax src st hs hrw

/-- rejected before anything is touched: with NO cell mapped the call still returns -/
theorem strcpyG_C05_early (max : Nat) (cfg : Cfg) (dest dmax src : Nat) (st : St)
    (hd : dest ≠ 0) (hbig : dmax > max) :
    exec (strcpyG max cfg dest dmax src none) { st with mapped := fun _ => false } =
      .ok (ESLEMAX, { st with mapped := fun _ => false, events := st.events ++ [.handler .str ESLEMAX] }) := by
  have hz : dmax ≠ 0 := by omega
  simp [strcpyG, hd, hz, chkDmaxClear, chkDmaxClearG, hbig, handlerS, exec_bind]

end SafeC.Props.C05

import SafeC.Props.C01
/-!
# C05 — every constraint violation is reported exactly once, with the code returned

Handler discipline for strcpy_s / wcscpy_s (object size unknown), for ALL arguments and placements:
the events appended by the call are `[]` when EOK is returned and exactly
`[handler str code]` when `code ≠ EOK` is returned — never zero, never two, never another code.
`strcpyG_C05_early`: a dmax above the limit is rejected with NOTHING mapped, i.e. before dest or
src is touched.
-/
namespace SafeC.Props.C05
open SafeC Gen SafeC.Props.C01

theorem strcpyG_C05 (max : Nat) (cfg : Cfg) (dest dmax src : Nat) (st : St) (hs : Setting st)
    (hrw : dest ≠ 0 → RW st dest dmax) :
    ∃ code st', exec (strcpyG max cfg dest dmax src none) st = .ok (code, st') ∧
      (code = EOK → st'.events = st.events) ∧
      (code ≠ EOK → st'.events = st.events ++ [.handler .str code]) := by
  obtain ⟨code, st', he, hp, _⟩ := strcpyG_safe max cfg dest dmax src st hs.all hrw
  exact ⟨code, st', he, hp.ok_events, hp.fail_events⟩

theorem strcpy_s_C05 (cfg : Cfg) (dest dmax src : Nat) (st : St) (hs : Setting st)
    (hrw : dest ≠ 0 → RW st dest dmax) :
    ∃ code st', exec (strcpy_s cfg dest dmax src none) st = .ok (code, st') ∧
      (code = EOK → st'.events = st.events) ∧
      (code ≠ EOK → st'.events = st.events ++ [.handler .str code]) :=
  strcpyG_C05 _ cfg dest dmax src st hs hrw

theorem wcscpy_s_C05 (cfg : Cfg) (dest dmax src : Nat) (st : St) (hs : Setting st)
    (hrw : dest ≠ 0 → RW st dest dmax) :
    ∃ code st', exec (wcscpy_s cfg dest dmax src none) st = .ok (code, st') ∧
      (code = EOK → st'.events = st.events) ∧
      (code ≠ EOK → st'.events = st.events ++ [.handler .str code]) := by
  rw [wcscpy_eq]; exact strcpyG_C05 _ cfg dest dmax src st hs hrw

/-- strncpy_s / strcat_s: exactly-once for all arguments -/
theorem strncpy_s_C05 (cfg : Cfg) (dest dmax src slen : Nat) (st : St) (hs : Setting st)
    (hrw : dest ≠ 0 → RW st dest dmax) :
    ∃ code st', exec (strncpy_s cfg dest dmax src slen none none) st = .ok (code, st') ∧
      (code = EOK → st'.events = st.events) ∧
      (code ≠ EOK → st'.events = st.events ++ [.handler .str code]) := by
  obtain ⟨code, st', he, hp, _⟩ := strncpyG_safe _ cfg dest dmax src slen st hs.all hrw (Nat.le_refl _)
  exact ⟨code, st', he, hp.ok_events, hp.fail_events⟩

theorem strcat_s_C05 (cfg : Cfg) (dest dmax src : Nat) (st : St) (hs : Setting st)
    (hrw : dest ≠ 0 → RW st dest dmax) :
    ∃ code st', exec (strcat_s cfg dest dmax src none) st = .ok (code, st') ∧
      (code = EOK → st'.events = st.events) ∧
      (code ≠ EOK → st'.events = st.events ++ [.handler .str code]) := by
  obtain ⟨code, st', he, hp, _⟩ := strcatG_safe _ cfg dest dmax src st hs.all hrw
  exact ⟨code, st', he, hp.ok_events, hp.fail_events⟩

/-- strncat_s: FULL statement is false of the code — `slen = 0` calls the handler with code EOK
(`strncat-slen0-handler-eok`); partial theorem under `slen ≠ 0`, witness below -/
theorem strncat_s_C05_partial (cfg : Cfg) (dest dmax src slen : Nat) (st : St) (hs : Setting st)
    (hrw : dest ≠ 0 → RW st dest dmax) (hslen : slen ≠ 0) :
    ∃ code st', exec (strncat_s cfg dest dmax src slen none none) st = .ok (code, st') ∧
      (code = EOK → st'.events = st.events) ∧
      (code ≠ EOK → st'.events = st.events ++ [.handler .str code]) := by
  obtain ⟨code, st', he, hp, _⟩ := strncatG_safe _ cfg dest dmax src slen st hs.all hrw hslen (Nat.le_refl _)
  exact ⟨code, st', he, hp.ok_events, hp.fail_events⟩

/-- return code and number of handler events of a run (decidable observation) -/
def observeEv (r : Except Fault (Nat × St)) : Option (Nat × List Event) :=
  match r with
  | .ok (c, s) => some (c, s.events)
  | .error _ => none

/-- the excluded point: strncat_s(d, 3, "a", 0) with d = "" returns EOK after invoking the handler with EOK -/
theorem strncat_s_C05_witness :
    observeEv (exec (strncat_s {} 100 3 200 0 none none)
      { data := fun a => if a = 200 then 97 else 0, mapped := fun _ => true, rd := fun _ => true,
        wr := fun a => decide (100 ≤ a ∧ a < 103) }) = some (EOK, [.handler .str EOK]) := by
  decide

/-- rejected before anything is touched: with NO cell mapped the call still returns -/
theorem strcpyG_C05_early (max : Nat) (cfg : Cfg) (dest dmax src : Nat) (st : St)
    (hd : dest ≠ 0) (hbig : dmax > max) :
    exec (strcpyG max cfg dest dmax src none) { st with mapped := fun _ => false } =
      .ok (ESLEMAX, { st with mapped := fun _ => false, events := st.events ++ [.handler .str ESLEMAX] }) := by
  have hz : dmax ≠ 0 := by omega
  simp [strcpyG, hd, hz, chkDmaxClear, chkDmaxClearG, hbig, handlerS, exec_bind]

end SafeC.Props.C05

import SafeC.Props.C15
import SafeC.Proofs.ConvQuery
/-!
# C15 — string level: query-then-convert and the round trip through the wrappers

* **Query then convert.**  The size query `f_s(&n, NULL, 0, src, len)` stores `n` through `retvalp`.  For ANY terminated source
  (valid or not): whenever that `n` is a count (i.e. the converting call below is sane with `n < dmax`, which excludes
  `(size_t)-1`), the source IS valid, `n` is the number of characters (bytes) of its conversion, and the converting form
  with the same source, any `dmax > n` (in particular `n + 1`) and any `len ≥ n` returns EOK with count `n`, dest = the
  `n` converted cells followed by the terminator, nothing stored outside `dest[0..dmax)`.  The hypothesis is weaker than
  "the query returned EOK": `wcstombs_s`/`wcsrtombs_s` answer a successful query with ESNOSPC (`dmax = 0`), the tree's own
  tests expect that, so the code of the query is deliberately not used.
* **Round trip.**  `wcstombs_s` into a buffer that is large enough, then `mbstowcs_s` on that buffer: both EOK, the wide
  string comes back unchanged, for every list of non-zero encodable wide characters, both locales.

Every theorem: every configuration `cfg` (slack build, locale, every combination of repairs — `current = allFixed` included),
every dest content and size, every `len`/`dmax` allowed by the hypotheses, no bound on string lengths.  Where the code
as it was before the repairs fails (empty wide string: `wcstombs-empty-source-rejected`) the hypothesis names the repair.
-/
namespace SafeC.Props.C15
open SafeC.Conv SafeC.Gen SafeC.Conv.Libc

/-- the arguments of a size query: `dest = NULL`, `dmax = 0`, a terminated source -/
structure QueryS (a : SArgs) (mem : List Nat) : Prop where
  rv : a.retvalNull = false
  sp : a.srcpNull = false
  ps : a.psNull = false
  al : a.alias = false
  dest : a.dest = none
  dmax : a.dmax = 0
  src : a.src = some mem
  term : 0 ∈ mem

example : QueryS { dest := none, dmax := 0, src := some [0x61, 0xE2, 0x82, 0xAC, 0], len := 0 } [0x61, 0xE2, 0x82, 0xAC, 0] :=
  ⟨rfl, rfl, rfl, rfl, rfl, rfl, rfl, by decide⟩

theorem Delivered_congr {o : Out} {cells : List Nat} {dmax : Nat} {r r' : LR} {t : Bool} (h : Delivered o cells dmax r t)
    (h1 : r.ret = r'.ret) (h2 : r.out.take r.ret = r'.out.take r'.ret) : Delivered o cells dmax r' t := by
  obtain ⟨a, b, c, d, hd, e1, e2, e3, e4, e5⟩ := h
  exact ⟨a, by rw [b, h1], c, d, hd, e1, e2, e3, by rw [← h1, e4, h2, h1], by rw [← h1]; exact e5⟩

theorem le_libcLen (cfg : Cfg) (a : SArgs) (n : Nat) (hd : n < a.dmax) (hl : n ≤ a.len) : n ≤ libcLen cfg a := by
  unfold libcLen; split <;> omega

private theorem libcLen_query (cfg : Cfg) (a : SArgs) (h : a.dest = none) : libcLen cfg a = a.len := by
  simp [libcLen, h]

/-! ## what the query forms store through `retvalp` -/

theorem mbstowcs_s_query_retval (cfg : Cfg) (a : SArgs) {mem} (hq : QueryS a mem) :
    (mbstowcs_s cfg a).retval = some (Libc.mbstowcs cfg.loc true mem a.len).ret := by
  simp [mbstowcs_s, hq.rv, hq.src, mkD, hq.dest, hq.al, libcLen_query cfg a hq.dest, tailW, hq.dmax]

/-- the query of the restartable form moves neither `*srcp` nor `*ps`, whatever the entry state -/
theorem mbsrtowcs_s_query_retval (cfg : Cfg) (a : SArgs) {mem} (hq : QueryS a mem) :
    (mbsrtowcs_s cfg a).retval = some (Libc.mbsrtowcs cfg.loc true mem a.len a.ps).ret ∧
      (mbsrtowcs_s cfg a).src = some 0 ∧ (mbsrtowcs_s cfg a).st = a.ps := by
  have h1 : (Libc.mbsrtowcs cfg.loc true mem a.len a.ps).src = some 0 ∧ (Libc.mbsrtowcs cfg.loc true mem a.len a.ps).st = a.ps := by
    simp only [Libc.mbsrtowcs, ↓reduceIte]; split <;> exact ⟨rfl, rfl⟩
  simp [mbsrtowcs_s, hq.rv, hq.ps, hq.sp, hq.src, mkD, hq.dest, hq.al, libcLen_query cfg a hq.dest, tailW, hq.dmax, h1.1, h1.2]

theorem wcstombs_s_query_retval (cfg : Cfg) (a : SArgs) {mem} (hq : QueryS a mem) :
    (wcstombs_s cfg a).retval = some (Libc.wcstombs cfg.loc true mem a.len).ret := by
  simp only [wcstombs_s, hq.rv, Bool.false_eq_true, ↓reduceIte, mkD, hq.dest, Option.map_none, hq.src, hq.al,
    libcLen_query cfg a hq.dest, Option.isNone_none, tailB, hq.dmax, Nat.not_lt_zero, decide_false, Bool.and_false]

theorem wcsrtombs_s_query_retval (cfg : Cfg) (a : SArgs) {mem} (hq : QueryS a mem) :
    (wcsrtombs_s cfg a).retval = some (Libc.wcsrtombs cfg.loc true mem a.len).ret ∧ (wcsrtombs_s cfg a).src = some 0 := by
  have h1 : (Libc.wcsrtombs cfg.loc true mem a.len).src = some 0 := by
    simp only [Libc.wcsrtombs, ↓reduceIte]; split <;> rfl
  simp only [wcsrtombs_s, hq.rv, hq.ps, hq.sp, Bool.false_eq_true, ↓reduceIte, mkD, hq.dest, Option.map_none, hq.src, hq.al,
    libcLen_query cfg a hq.dest, Option.isNone_none, tailB, hq.dmax, Nat.not_lt_zero, decide_false, Bool.and_false, h1]
  trivial

private theorem mbs_query_eilseq (loc : Locale) (mem : List Nat) (len : Nat) (ps : List Nat)
    (h : (Libc.mbsrtowcs loc true mem len ps).ret ≠ SIZE_MAX) : (Libc.mbsrtowcs loc true mem len ps).eilseq = false := by
  simp only [Libc.mbsrtowcs, ↓reduceIte] at h ⊢
  generalize gconvMb loc ps (List.take (strlen mem + 1) mem) ((List.take (strlen mem + 1) mem).length + 1) = g at h ⊢
  cases hs : g.status <;> simp [hs] at h ⊢

private theorem wcs_query_eilseq (loc : Locale) (mem : List Nat) (len : Nat)
    (h : (Libc.wcsrtombs loc true mem len).ret ≠ SIZE_MAX) : (Libc.wcsrtombs loc true mem len).eilseq = false := by
  simp only [Libc.wcsrtombs, ↓reduceIte] at h ⊢
  generalize gconvWc loc (List.take (strlen mem + 1) mem) (6 * (List.take (strlen mem + 1) mem).length + 1) = g at h ⊢
  cases hs : g.status <;> simp [hs] at h ⊢

private theorem n_ne_max {a : SArgs} {cells mem : List Nat} (hs : SaneS a cells mem) {n : Nat} (hd : n < a.dmax) : n ≠ SIZE_MAX := by
  have := hs.dmaxle; simp only [RSIZE_MAX_WSTR, SIZE_MAX] at *; omega

/-! ## 3. query, then convert -/

/-- **mbstowcs_s(&n, NULL, 0, src, _) then mbstowcs_s(&m, dest, dmax > n, src, len ≥ n)**: the source is valid, `m = n`,
EOK, dest = the `n` wide characters of the source + terminator -/
theorem mbstowcs_s_query_then_convert (cfg : Cfg) (aq : SArgs) (mem : List Nat) (hq : QueryS aq mem) (n : Nat)
    (hn : (mbstowcs_s cfg aq).retval = some n)
    (a : SArgs) (cells : List Nat) (hs : SaneS a cells mem) (hd : n < a.dmax) (hl : n ≤ a.len) :
    ∃ ws bs tail, mem = bs ++ 0 :: tail ∧ encodeAll cfg.loc ws = some bs ∧ ws.length = n ∧
      Delivered (mbstowcs_s cfg a) cells a.dmax ⟨ws, n, none, [], false⟩ true := by
  rw [mbstowcs_s_query_retval cfg aq hq] at hn
  have hn' : (Libc.mbsrtowcs cfg.loc true mem aq.len []).ret = n := Option.some.inj hn
  have hei := mbs_query_eilseq cfg.loc mem aq.len [] (by rw [hn']; exact n_ne_max hs hd)
  obtain ⟨ws, bs, tail, rfl, hE, hz, hr⟩ := mbs_query_valid cfg.loc mem aq.len hq.term hei
  rw [hr] at hn'
  have hwn : ws.length = n := hn'
  subst hwn
  obtain ⟨g1, g2, _, _⟩ := mbsrtowcs_valid_ge cfg.loc ws bs tail hE hz (libcLen cfg a) (le_libcLen cfg a _ hd hl)
  have hdel := mbstowcs_s_C15 cfg a hs (by show (Libc.mbsrtowcs _ _ _ _ _).ret < _; rw [g1]; exact hd)
  refine ⟨ws, bs, tail, rfl, hE, rfl, Delivered_congr hdel g1 ?_⟩
  show (Libc.mbsrtowcs _ _ _ _ _).out.take (Libc.mbsrtowcs _ _ _ _ _).ret = _
  rw [g1, g2]; simp

/-- **mbsrtowcs_s**, initial entry state: the same, and `*ps` is initial afterwards; with `len > n` also `*srcp = NULL`
(the query itself moves neither `*srcp` nor `*ps`: `mbsrtowcs_s_query_retval`) -/
theorem mbsrtowcs_s_query_then_convert (cfg : Cfg) (aq : SArgs) (mem : List Nat) (hq : QueryS aq mem) (hps : aq.ps = [])
    (n : Nat) (hn : (mbsrtowcs_s cfg aq).retval = some n)
    (a : SArgs) (cells : List Nat) (hs : SaneS a cells mem) (hps' : a.ps = []) (hd : n < a.dmax) (hl : n ≤ a.len) :
    ∃ ws bs tail, mem = bs ++ 0 :: tail ∧ encodeAll cfg.loc ws = some bs ∧ ws.length = n ∧
      Delivered (mbsrtowcs_s cfg a) cells a.dmax ⟨ws, n, none, [], false⟩ true ∧
      (mbsrtowcs_s cfg a).st = [] ∧ (n < libcLen cfg a → (mbsrtowcs_s cfg a).src = none) := by
  rw [(mbsrtowcs_s_query_retval cfg aq hq).1, hps] at hn
  have hn' : (Libc.mbsrtowcs cfg.loc true mem aq.len []).ret = n := Option.some.inj hn
  have hei := mbs_query_eilseq cfg.loc mem aq.len [] (by rw [hn']; exact n_ne_max hs hd)
  obtain ⟨ws, bs, tail, rfl, hE, hz, hr⟩ := mbs_query_valid cfg.loc mem aq.len hq.term hei
  rw [hr] at hn'
  have hwn : ws.length = n := hn'
  subst hwn
  obtain ⟨g1, g2, g3, g4⟩ := mbsrtowcs_valid_ge cfg.loc ws bs tail hE hz (libcLen cfg a) (le_libcLen cfg a _ hd hl)
  obtain ⟨hdel, hsrc, hst⟩ := mbsrtowcs_s_C15 cfg a hs (by rw [hps', g1]; exact hd)
  rw [hps'] at hdel hsrc hst
  refine ⟨ws, bs, tail, rfl, hE, rfl, Delivered_congr hdel g1 (by rw [g1, g2]; simp), by rw [hst, g3], ?_⟩
  intro h; rw [hsrc, g4 h]

/-- **wcstombs_s(&n, NULL, 0, src, _) then wcstombs_s(&m, dest, dmax > n, src, len ≥ n)**: the source is encodable, `m = n`,
EOK, dest = the `n` bytes + terminator.  `n = 0` (empty wide string) needs the `zero` repair (`wcstombs_s_empty_witness`). -/
theorem wcstombs_s_query_then_convert (cfg : Cfg) (aq : SArgs) (mem : List Nat) (hq : QueryS aq mem) (n : Nat)
    (hn : (wcstombs_s cfg aq).retval = some n)
    (a : SArgs) (cells : List Nat) (hs : SaneS a cells mem) (hd : n < a.dmax) (hl : n ≤ a.len)
    (hpos : 0 < n ∨ cfg.fx.zero = true) :
    ∃ ws bs tail, mem = ws ++ 0 :: tail ∧ encodeAll cfg.loc ws = some bs ∧ bs.length = n ∧
      Delivered (wcstombs_s cfg a) cells a.dmax ⟨bs, n, none, [], false⟩ true := by
  rw [wcstombs_s_query_retval cfg aq hq] at hn
  have hn' : (Libc.wcsrtombs cfg.loc true mem aq.len).ret = n := Option.some.inj hn
  have hei := wcs_query_eilseq cfg.loc mem aq.len (by rw [hn']; exact n_ne_max hs hd)
  obtain ⟨ws, bs, tail, rfl, hE, hz, hr⟩ := wcs_query_valid cfg.loc mem aq.len hq.term hei
  rw [hr] at hn'
  have hwn : bs.length = n := hn'
  subst hwn
  obtain ⟨g1, g2, _⟩ := wcsrtombs_valid_ge cfg.loc ws bs tail hE hz (libcLen cfg a) (le_libcLen cfg a _ hd hl)
  have hdel := wcstombs_s_C15 cfg a hs (by show (Libc.wcsrtombs _ _ _ _).ret < _; rw [g1]; exact hd)
    (by show 0 < (Libc.wcsrtombs _ _ _ _).ret ∨ _; rw [g1]; exact hpos)
  refine ⟨ws, bs, tail, rfl, hE, rfl, Delivered_congr hdel g1 ?_⟩
  show (Libc.wcsrtombs _ _ _ _).out.take (Libc.wcsrtombs _ _ _ _).ret = _
  rw [g1, g2]; simp

/-- **wcsrtombs_s**: the same (terminator: slack build or `term` repair, as in `wcsrtombs_s_C15`); `len > n` ⇒ `*srcp = NULL` -/
theorem wcsrtombs_s_query_then_convert (cfg : Cfg) (aq : SArgs) (mem : List Nat) (hq : QueryS aq mem) (n : Nat)
    (hn : (wcsrtombs_s cfg aq).retval = some n)
    (a : SArgs) (cells : List Nat) (hs : SaneS a cells mem) (hd : n < a.dmax) (hl : n ≤ a.len)
    (hpos : 0 < n ∨ cfg.fx.zero = true) :
    ∃ ws bs tail, mem = ws ++ 0 :: tail ∧ encodeAll cfg.loc ws = some bs ∧ bs.length = n ∧
      Delivered (wcsrtombs_s cfg a) cells a.dmax ⟨bs, n, none, [], false⟩ (cfg.slack || cfg.fx.term) ∧
      (n < libcLen cfg a → (wcsrtombs_s cfg a).src = none) := by
  rw [(wcsrtombs_s_query_retval cfg aq hq).1] at hn
  have hn' : (Libc.wcsrtombs cfg.loc true mem aq.len).ret = n := Option.some.inj hn
  have hei := wcs_query_eilseq cfg.loc mem aq.len (by rw [hn']; exact n_ne_max hs hd)
  obtain ⟨ws, bs, tail, rfl, hE, hz, hr⟩ := wcs_query_valid cfg.loc mem aq.len hq.term hei
  rw [hr] at hn'
  have hwn : bs.length = n := hn'
  subst hwn
  obtain ⟨g1, g2, g3⟩ := wcsrtombs_valid_ge cfg.loc ws bs tail hE hz (libcLen cfg a) (le_libcLen cfg a _ hd hl)
  obtain ⟨hdel, hsrc⟩ := wcsrtombs_s_C15 cfg a hs (by rw [g1]; exact hd) (by rw [g1]; exact hpos)
  refine ⟨ws, bs, tail, rfl, hE, rfl, Delivered_congr hdel g1 (by rw [g1, g2]; simp), ?_⟩
  intro h; rw [hsrc, g3 h]

/-! ## 4. round trip through the wrappers -/

private theorem cells_split (l a : List Nat) (n : Nat) (h1 : l.take n = a) (h3 : l[n]? = some 0) :
    l = a ++ 0 :: l.drop (n + 1) := by
  have hlt : n < l.length := (List.getElem?_eq_some_iff.mp h3).1
  have hget : l[n] = 0 := (List.getElem?_eq_some_iff.mp h3).2
  rw [← h1, ← hget, ← List.drop_eq_getElem_cons hlt, List.take_append_drop]

/-- **wide → multibyte → wide through the wrappers.**  `ws`: any list of non-zero encodable wide characters (bytes `bs`).
First call: `wcstombs_s` on `ws ++ 0 :: _` with `dmax > |bs|`, `len ≥ |bs|`: EOK, count `|bs|`, dest = `bs`, NUL.  Second
call: `mbstowcs_s` whose source IS the first call's destination object, `dmax > |ws|`, `len ≥ |ws|`: EOK, count `|ws|`,
dest = `ws`, NUL.  (`ws = []` needs the `zero` repair for the first call.) -/
theorem wcstombs_s_mbstowcs_s_roundtrip (cfg : Cfg) (ws bs : List Nat) (hE : encodeAll cfg.loc ws = some bs)
    (hz : ∀ c ∈ ws, c ≠ 0) (hne : ws ≠ [] ∨ cfg.fx.zero = true)
    (a1 : SArgs) (cells1 tail1 : List Nat) (hs1 : SaneS a1 cells1 (ws ++ 0 :: tail1))
    (hd1 : bs.length < a1.dmax) (hl1 : bs.length ≤ a1.len) :
    Delivered (wcstombs_s cfg a1) cells1 a1.dmax ⟨bs, bs.length, none, [], false⟩ true ∧
    ∀ d1, (wcstombs_s cfg a1).dest = some d1 →
      ∀ (a2 : SArgs) (cells2 : List Nat), SaneS a2 cells2 d1.cells → ws.length < a2.dmax → ws.length ≤ a2.len →
        Delivered (mbstowcs_s cfg a2) cells2 a2.dmax ⟨ws, ws.length, none, [], false⟩ true := by
  obtain ⟨g1, g2, _⟩ := wcsrtombs_valid_ge cfg.loc ws bs tail1 hE hz (libcLen cfg a1) (le_libcLen cfg a1 _ hd1 hl1)
  have hpos : 0 < bs.length ∨ cfg.fx.zero = true := by
    rcases hne with h | h
    · left
      have := encodeAll_length_ge cfg.loc ws bs hE
      have := List.length_pos_iff.mpr h
      omega
    · right; exact h
  have hdel := wcstombs_s_C15 cfg a1 hs1 (by show (Libc.wcsrtombs _ _ _ _).ret < _; rw [g1]; exact hd1)
    (by show 0 < (Libc.wcsrtombs _ _ _ _).ret ∨ _; rw [g1]; exact hpos)
  have hdel1 : Delivered (wcstombs_s cfg a1) cells1 a1.dmax ⟨bs, bs.length, none, [], false⟩ true := by
    refine Delivered_congr hdel g1 ?_
    show (Libc.wcsrtombs _ _ _ _).out.take (Libc.wcsrtombs _ _ _ _).ret = _
    rw [g1, g2]; simp
  refine ⟨hdel1, ?_⟩
  intro d1 hd1eq a2 cells2 hs2 hd2 hl2
  obtain ⟨_, _, _, d, hdd, _, _, _, htake, hterm⟩ := hdel1
  rw [hd1eq] at hdd; cases hdd
  have hcells : d1.cells = bs ++ 0 :: d1.cells.drop (bs.length + 1) :=
    cells_split d1.cells bs bs.length (by simpa using htake) (hterm rfl)
  obtain ⟨k1, k2, _, _⟩ := mbsrtowcs_valid_ge cfg.loc ws bs (d1.cells.drop (bs.length + 1)) hE hz (libcLen cfg a2)
    (le_libcLen cfg a2 _ hd2 hl2)
  rw [← hcells] at k1 k2
  have hdel2 := mbstowcs_s_C15 cfg a2 hs2 (by show (Libc.mbsrtowcs _ _ _ _ _).ret < _; rw [k1]; exact hd2)
  refine Delivered_congr hdel2 k1 ?_
  show (Libc.mbsrtowcs _ _ _ _ _).out.take (Libc.mbsrtowcs _ _ _ _ _).ret = _
  rw [k1, k2]; simp

/-- the restartable pair: `wcsrtombs_s` then `mbsrtowcs_s` (initial state); the first call's terminator needs the slack
build or the `term` repair (`wcsrtombs_s_terminated_witness`) -/
theorem wcsrtombs_s_mbsrtowcs_s_roundtrip (cfg : Cfg) (ws bs : List Nat) (hE : encodeAll cfg.loc ws = some bs)
    (hz : ∀ c ∈ ws, c ≠ 0) (hne : ws ≠ [] ∨ cfg.fx.zero = true) (hterm : (cfg.slack || cfg.fx.term) = true)
    (a1 : SArgs) (cells1 tail1 : List Nat) (hs1 : SaneS a1 cells1 (ws ++ 0 :: tail1))
    (hd1 : bs.length < a1.dmax) (hl1 : bs.length ≤ a1.len) :
    Delivered (wcsrtombs_s cfg a1) cells1 a1.dmax ⟨bs, bs.length, none, [], false⟩ true ∧
    ∀ d1, (wcsrtombs_s cfg a1).dest = some d1 →
      ∀ (a2 : SArgs) (cells2 : List Nat), SaneS a2 cells2 d1.cells → a2.ps = [] → ws.length < a2.dmax → ws.length ≤ a2.len →
        Delivered (mbsrtowcs_s cfg a2) cells2 a2.dmax ⟨ws, ws.length, none, [], false⟩ true ∧ (mbsrtowcs_s cfg a2).st = [] := by
  obtain ⟨g1, g2, _⟩ := wcsrtombs_valid_ge cfg.loc ws bs tail1 hE hz (libcLen cfg a1) (le_libcLen cfg a1 _ hd1 hl1)
  have hpos : 0 < bs.length ∨ cfg.fx.zero = true := by
    rcases hne with h | h
    · left
      have := encodeAll_length_ge cfg.loc ws bs hE
      have := List.length_pos_iff.mpr h
      omega
    · right; exact h
  obtain ⟨hdel, _⟩ := wcsrtombs_s_C15 cfg a1 hs1 (by rw [g1]; exact hd1) (by rw [g1]; exact hpos)
  rw [hterm] at hdel
  have hdel1 : Delivered (wcsrtombs_s cfg a1) cells1 a1.dmax ⟨bs, bs.length, none, [], false⟩ true :=
    Delivered_congr hdel g1 (by rw [g1, g2]; simp)
  refine ⟨hdel1, ?_⟩
  intro d1 hd1eq a2 cells2 hs2 hps hd2 hl2
  obtain ⟨_, _, _, d, hdd, _, _, _, htake, htm⟩ := hdel1
  rw [hd1eq] at hdd; cases hdd
  have hcells : d1.cells = bs ++ 0 :: d1.cells.drop (bs.length + 1) :=
    cells_split d1.cells bs bs.length (by simpa using htake) (htm rfl)
  obtain ⟨k1, k2, k3, _⟩ := mbsrtowcs_valid_ge cfg.loc ws bs (d1.cells.drop (bs.length + 1)) hE hz (libcLen cfg a2)
    (le_libcLen cfg a2 _ hd2 hl2)
  rw [← hcells] at k1 k2 k3
  obtain ⟨hdel2, _, hst⟩ := mbsrtowcs_s_C15 cfg a2 hs2 (by rw [hps, k1]; exact hd2)
  rw [hps] at hdel2 hst
  exact ⟨Delivered_congr hdel2 k1 (by rw [k1, k2]; simp), by rw [hst, k3]⟩

/-! Illustrations (tests on one input, kernel-evaluated; the theorems above are the general statements) -/
example :
    let o1 := wcstombs_s { slack := false, loc := .UTF8 } { dest := some [9, 9, 9, 9, 9, 9, 9, 9, 9], dmax := 9, src := some [0x61, 0x20AC, 0x1F600, 0], len := 9 }
    o1.ret = EOK ∧ o1.retval = some 8 ∧ o1.dest.map (·.cells) = some [0x61, 0xE2, 0x82, 0xAC, 0xF0, 0x9F, 0x98, 0x80, 0] ∧
    let o2 := mbstowcs_s { slack := false, loc := .UTF8 } { dest := some [9, 9, 9, 9], dmax := 4, src := o1.dest.map (·.cells), len := 4 }
    o2.ret = EOK ∧ o2.retval = some 3 ∧ o2.dest.map (·.cells) = some [0x61, 0x20AC, 0x1F600, 0] := by decide
example : (mbstowcs_s { loc := .UTF8 } { dest := none, dmax := 0, src := some [0x61, 0xE2, 0x82, 0xAC, 0], len := 0 }).retval = some 2 := by decide

end SafeC.Props.C15

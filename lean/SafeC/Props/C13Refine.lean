import SafeC.Proofs.HandlersAbs
import SafeC.Props.C13
/-!
# C13, second part — refinement to the abstract per-thread-override machine, clauses as corollaries

`Proofs/HandlersAbs.lean` defines the abstract machine `A` (ONE kind: `own : thread → option handler`,
`glob : option handler`; dispatch = own, else global, else default 0) and the abstraction
`absK k : H → A`, `proj k : Op → Option AOp`.  Here:

(a) the concrete machine `H` (the model of `safe_{str,mem}_constraint.c` that the correspondence run
    ties to the C) is the product of two independent copies of `A` — one step commutes
    (`refine_step`, `refine_out`), hence every run of any length from any state (`refine_run`), in
    particular every reachable state (`refine_reachable`);
(b) "registering returns the previously registered handler of the same kind (and scope)" for every
    history: `set_chain`, `set_first`, `thrdSet_chain`, `thrdSet_first`, `thrdSet_after_spawn`;
(c) "registering NULL selects the default": `null_thrd`, `null_thrd_persists`, `null_glob`,
    `null_glob_iff`, `null_is_default_registration`; the unconditional process-wide form is false
    because the thread's OWN registration comes first (that is the first clause of the property, not a
    defect): `null_glob_all_witness`;
(d) a thread-local registration is never used on behalf of, nor observable by, any other thread —
    whether that thread existed before or is created later by anybody — for ALL futures:
    `tl_never_foreign` (one registration, any continuation), `erase_foreign` / `erase_foreign_out`
    (all foreign registrations of a history erased at once); `spawn_clean`;
    what the code does for a child of the registering thread (the property leaves it open, the doc
    comment promises inheritance, `_Thread_local` storage does not provide it): `thrd_inherit_witness`;
(e) independence of the two kinds: `kinds_product`, `other_kind_noop`, `other_kind_run`.

All statements quantify over every state `s : H` — a fortiori every state reachable from `init` —
every thread id, every handler value (incl. NULL = `none`) and every list of operations: arbitrary
interleavings of arbitrarily many threads are exactly the lists of operations (each registration
function is one load and one store of an aligned word; see `C13Micro.lean` for what changes when the
load and the store of a process-wide registration are scheduled separately).
-/
namespace SafeC.Props.C13R
open SafeC SafeC.Handlers

/-! ## (a) refinement -/

/-- one concrete step = the abstract step of the `k`-copy if the operation concerns kind `k`, no step otherwise -/
theorem refine_step (k : Kind) (s : H) (op : Op) :
    absK k (step s op).1 = match proj k op with
      | some a => ((absK k s).step a).1
      | none => absK k s := abs_step k s op

/-- … with the same output (previous handler returned / handler run) -/
theorem refine_out (k : Kind) (s : H) (op : Op) (a : A.AOp) (h : proj k op = some a) :
    (step s op).2 = ((absK k s).step a).2 := abs_out k s op a h

/-- every run, any length, any start state: state and outputs of the `k`-operations are those of the
abstract machine run over the `k`-operations -/
theorem refine_run (k : Kind) (s : H) (ops : List Op) :
    absK k (runC s ops) = (absK k s).run (ops.filterMap (proj k)) ∧
    outsK k s ops = (absK k s).runOut (ops.filterMap (proj k)) :=
  ⟨refines k s ops, refines_out k s ops⟩

/-- every REACHABLE state: reached from `init`, whose two copies are the abstract initial state -/
theorem refine_reachable (k : Kind) (ops : List Op) :
    absK k (runC init ops) = A.init.run (ops.filterMap (proj k)) ∧
    outsK k init ops = A.init.runOut (ops.filterMap (proj k)) := by
  have := refine_run k init ops
  rwa [absK_init] at this

/-- the histories of `Props/C13.lean` (most recent first) are the chronological runs -/
theorem runR_is_runC (hist : List Op) : runR hist = runC init hist.reverse := runR_eq_runC hist

/-- **dispatch rule, every state**: thread's own handler if any, else the process-wide one, else the default -/
theorem dispatch_state (s : H) (t : Tid) (k : Kind) :
    invoked s t k = ((s.tl t k).orElse fun _ => s.glob k).getD 0 := by
  unfold invoked
  cases s.tl t k <;> cases s.glob k <;> rfl

theorem own_first (s : H) (t : Tid) (k : Kind) (h : Hid) (ho : s.tl t k = some h) : invoked s t k = h := by
  simp [invoked, ho]

theorem global_second (s : H) (t : Tid) (k : Kind) (h : Hid) (ho : s.tl t k = none) (hg : s.glob k = some h) :
    invoked s t k = h := by
  simp [invoked, ho, hg]

theorem default_last (s : H) (t : Tid) (k : Kind) (ho : s.tl t k = none) (hg : s.glob k = none) :
    invoked s t k = 0 := by
  simp [invoked, ho, hg]

/-! ## (b) registering returns the previously registered handler of the same kind and scope -/

/-- two consecutive process-wide registrations of kind `k` (anything in between that is not one:
thread-local registrations, the other kind, violations, thread creations, by any threads): the second
returns what the first stored, whichever threads made them -/
theorem set_chain (s : H) (pre mid : List Op) (t1 t2 : Tid) (k : Kind) (h1 h2 : Option Hid)
    (hmid : ∀ op ∈ mid, isSet k op = false) :
    (step (runC s (pre ++ [.set t1 k h1] ++ mid)) (.set t2 k h2)).2 = .prev (some (reg h1)) := by
  simp only [step, List.append_assoc, runC_append, runC]
  rw [glob_run_noSet k _ mid hmid]
  simp

/-- the first process-wide registration of a kind returns NULL -/
theorem set_first (ops : List Op) (t : Tid) (k : Kind) (h : Option Hid)
    (hno : ∀ op ∈ ops, isSet k op = false) :
    (step (runC init ops) (.set t k h)).2 = .prev none := by
  simp only [step]
  rw [glob_run_noSet k _ ops hno]
  rfl

/-- two consecutive thread-local registrations of kind `k` by thread `t` (in between: anything that is
neither one nor a re-creation of `t`): the second returns what the first stored -/
theorem thrdSet_chain (s : H) (pre mid : List Op) (t : Tid) (k : Kind) (h1 h2 : Option Hid)
    (hmid : ∀ op ∈ mid, touchesTl t k op = false) :
    (step (runC s (pre ++ [.thrdSet t k h1] ++ mid)) (.thrdSet t k h2)).2 = .prev (some (reg h1)) := by
  simp only [step, List.append_assoc, runC_append, runC]
  rw [tl_run_noTouch t k _ mid hmid]
  simp

/-- a thread's first thread-local registration of a kind returns NULL -/
theorem thrdSet_first (ops : List Op) (t : Tid) (k : Kind) (h : Option Hid)
    (hno : ∀ op ∈ ops, touchesTl t k op = false) :
    (step (runC init ops) (.thrdSet t k h)).2 = .prev none := by
  simp only [step]
  rw [tl_run_noTouch t k _ ops hno]
  rfl

/-- … and so does the first one of a thread created in ANY state by ANY thread (nothing is inherited) -/
theorem thrdSet_after_spawn (s : H) (mid : List Op) (p t : Tid) (k : Kind) (h : Option Hid)
    (hmid : ∀ op ∈ mid, touchesTl t k op = false) :
    (step (runC s (.spawn p t :: mid)) (.thrdSet t k h)).2 = .prev none := by
  simp only [step, runC]
  rw [tl_run_noTouch t k _ mid hmid]
  simp

/-! ## (c) registering NULL selects the default -/

/-- thread-local NULL: the thread's violations run the default handler from then on … -/
theorem null_thrd (s : H) (t : Tid) (k : Kind) : invoked (step s (.thrdSet t k none)).1 t k = 0 := by
  simp [step, invoked, reg]

/-- … whatever is registered process-wide later, by anybody, until the thread registers again -/
theorem null_thrd_persists (s : H) (later : List Op) (t : Tid) (k : Kind)
    (hl : ∀ op ∈ later, touchesTl t k op = false) :
    invoked (runC (step s (.thrdSet t k none)).1 later) t k = 0 := by
  unfold invoked
  rw [tl_run_noTouch t k _ later hl]
  simp [step, reg]

/-- process-wide NULL: every thread without a registration of its own runs the default -/
theorem null_glob (s : H) (t t' : Tid) (k : Kind) (hno : s.tl t k = none) :
    invoked (step s (.set t' k none)).1 t k = 0 := by
  simp [step, invoked, reg, hno]

/-- exact form: after a process-wide NULL registration thread `t` runs the default iff it has no
registration of its own or its own registration is the default -/
theorem null_glob_iff (s : H) (t t' : Tid) (k : Kind) :
    invoked (step s (.set t' k none)).1 t k = 0 ↔ (s.tl t k = none ∨ s.tl t k = some 0) := by
  simp only [step, invoked, reg]
  cases h : s.tl t k with
  | none => simp
  | some x => simp

-- FALSE as an unconditional statement:  ∀ s t t' k, invoked (step s (.set t' k none)).1 t k = 0
/-- the thread's own registration takes precedence over a process-wide NULL (first clause of the
property; reachable state) -/
theorem null_glob_all_witness :
    ∃ ops t t' k, invoked (step (runC init ops) (.set t' k none)).1 t k ≠ 0 :=
  ⟨[.thrdSet 1 .str (some 2)], 1, 0, .str, by decide⟩

/-- NULL and the default handler itself are the same registration, in both scopes -/
theorem null_is_default_registration (s : H) (t : Tid) (k : Kind) :
    (step s (.set t k none)).1.glob = (step s (.set t k (some 0))).1.glob ∧
    (step s (.thrdSet t k none)).1.tl = (step s (.thrdSet t k (some 0))).1.tl := ⟨rfl, rfl⟩

/-! ## (d) a thread-local registration and the other threads -/

/-- ONE thread-local registration `op` by another thread, made in any state, followed by ANY
continuation `later`: everything thread `t` can observe — both process-wide slots, its own slots, hence
the handler run for each of its violations and the value returned by each of its registrations — is as
if `op` had never been made.  `t` may exist already or be created in `later`, by any thread
(including the registering one). -/
theorem tl_never_foreign (s : H) (t : Tid) (op : Op) (later : List Op) (hop : isForeignTl t op = true) :
    view t (runC (step s op).1 later) = view t (runC s later) ∧
    outsT t (step s op).1 later = outsT t s later ∧
    ∀ k, invoked (runC (step s op).1 later) t k = invoked (runC s later) t k := by
  have hv : view t (step s op).1 = view t s := view_foreign t s op (foreignTl_of_isForeignTl t op hop)
  have h1 := view_run_congr t _ _ later hv
  refine ⟨h1, ?_, ?_⟩
  · have a := outsT_erase_foreign t (step s op).1 s later hv
    have b := outsT_erase_foreign t s s later rfl
    rw [a, b]
  · intro k
    simp only [view, Prod.mk.injEq] at h1
    simp only [invoked, h1.1, h1.2]

/-- the same for a whole history: erase EVERY thread-local registration made by other threads — the
state thread `t` can observe is unchanged -/
theorem erase_foreign (s : H) (t : Tid) (ops : List Op) :
    view t (runC s ops) = view t (runC s (ops.filter fun op => !isForeignTl t op)) :=
  view_erase_foreign t s s ops rfl

/-- … and so is every output thread `t` ever gets -/
theorem erase_foreign_out (s : H) (t : Tid) (ops : List Op) :
    outsT t s ops = outsT t s (ops.filter fun op => !isForeignTl t op) :=
  outsT_erase_foreign t s s ops rfl

/-- a newly created thread has no registration of its own, whoever created it, in any state:
its violations run the process-wide handler, else the default -/
theorem spawn_clean (s : H) (p c : Tid) (k : Kind) :
    (step s (.spawn p c)).1.tl c k = none ∧
    invoked (step s (.spawn p c)).1 c k = (s.glob k).getD 0 := by
  constructor
  · simp [step]
  · simp only [invoked, step, if_true]
    cases s.glob k <;> rfl

-- documented (thrd_set_*_constraint_handler_s: "only for the calling thread and for any threads that
-- are yet to be created by the calling thread"), NOT what the code does — the property leaves it open:
--   ∀ s p c k h, s.tl p k = some h → invoked (step s (.spawn p c)).1 c k = h
/-- thread 0 registers handler 3 thread-locally, then creates thread 1: a violation on thread 1 runs
the default handler, not 3 -/
theorem thrd_inherit_witness :
    (runC init [.thrdSet 0 .str (some 3)]).tl 0 .str = some 3 ∧
    invoked (runC init [.thrdSet 0 .str (some 3), .spawn 0 1]) 1 .str = 0 := by decide

/-! ## (e) the two kinds are independent -/

/-- two histories with the same `k`-operations (whatever they do to the other kind, in whatever
interleaving) lead to the same `k`-state and give the `k`-operations the same outputs -/
theorem kinds_product (k : Kind) (s : H) (ops1 ops2 : List Op)
    (h : ops1.filterMap (proj k) = ops2.filterMap (proj k)) :
    absK k (runC s ops1) = absK k (runC s ops2) ∧ outsK k s ops1 = outsK k s ops2 := by
  rw [refines, refines, refines_out, refines_out, h]
  exact ⟨rfl, rfl⟩

/-- an operation on the other kind leaves the `k`-copy alone -/
theorem other_kind_noop (k : Kind) (s : H) (op : Op) (h : proj k op = none) :
    absK k (step s op).1 = absK k s := by
  rw [abs_step, h]

/-- any run of operations on the other kind: the handler run for a `k`-violation on any thread is unchanged -/
theorem other_kind_run (k : Kind) (s : H) (ops : List Op) (h : ∀ op ∈ ops, proj k op = none) (t : Tid) :
    invoked (runC s ops) t k = invoked s t k := by
  have : ops.filterMap (proj k) = [] := by
    rw [List.filterMap_eq_nil_iff]; exact h
  rw [abs_invoked, abs_invoked, refines, this]
  rfl

/-! ## non-vacuity -/

example : (step (runC init ([.violate 0 .mem] ++ [.set 0 .str (some 2)] ++ [.thrdSet 1 .str (some 1), .set 0 .mem none]))
    (.set 1 .str none)).2 = .prev (some 2) :=
  set_chain init [.violate 0 .mem] [.thrdSet 1 .str (some 1), .set 0 .mem none] 0 1 .str (some 2) none (by decide)

example : isForeignTl 1 (.thrdSet 0 .str (some 3)) = true := by decide

example : ([.set 0 .str (some 1), .set 0 .mem (some 2), .violate 1 .str] : List Op).filterMap (proj .str) =
    ([.set 0 .mem none, .set 0 .str (some 1), .violate 1 .str, .thrdSet 2 .mem (some 3)] : List Op).filterMap (proj .str) := by
  decide

end SafeC.Props.C13R

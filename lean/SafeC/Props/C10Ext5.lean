import SafeC.Props.C10
import SafeC.Spec.Query
/-!
# C10, second part (5): the spec functions ARE the standard list functions

The specs of C10 (`scanLen`, `firstIdx`, `inSet`, `spanLen` of `Proofs/Query.lean`; `allCells`,
`countCells`, `subAt`, `firstIn` of `Spec/Query.lean`) are recursive functions over the memory
contents.  Here each is shown equal to the textbook function on the LIST of cells of the declared
extent (`cells d p n`) or on the C string in it (`cstr d p n` = the cells before the first NUL):
`strnlen` = length of `takeWhile (≠ 0)`, `memchr` = `findIdx?`, the class predicates = `List.all`,
`strpbrk` = `findIdx?` of membership in the set string, `strspn`/`strcspn` = length of a `takeWhile`, …
For all contents and all extents.
-/
namespace SafeC.Props.C10
open SafeC Gen
set_option linter.unusedSimpArgs false

theorem scanLen_eq_list (d : Nat → Nat) (p n : Nat) : scanLen d p n = (cstr d p n).length := by
  induction n generalizing p with
  | zero => rfl
  | succ n ih =>
    simp only [scanLen, cstr, cells, List.takeWhile_cons]
    by_cases h0 : d p = 0
    · simp [h0]
    · have : (d p != 0) = true := by simpa using h0
      simp only [h0, if_false, this, if_true, List.length_cons]
      rw [ih (p+1)]; simp [cstr, Nat.add_comm]

theorem cstr_eq_cells (d : Nat → Nat) (p n : Nat) : cstr d p n = cells d p (scanLen d p n) := by
  induction n generalizing p with
  | zero => rfl
  | succ n ih =>
    simp only [scanLen, cstr, cells, List.takeWhile_cons]
    by_cases h0 : d p = 0
    · simp [h0, cells]
    · have : (d p != 0) = true := by simpa using h0
      simp only [h0, if_false, this, if_true]
      rw [Nat.add_comm 1, cells]
      congr 1
      exact ih (p+1)

theorem allCells_eq_list (ok : Nat → Bool) (d : Nat → Nat) (p n : Nat) :
    allCells ok d p n = (cells d p n).all ok := by
  induction n generalizing p with
  | zero => rfl
  | succ n ih => simp [allCells, cells, ih]

theorem countCells_eq_list (ok : Nat → Bool) (d : Nat → Nat) (p n : Nat) :
    countCells ok d p n = (cells d p n).countP ok := by
  induction n generalizing p with
  | zero => rfl
  | succ n ih =>
    simp only [countCells, cells, List.countP_cons, ih]
    omega

theorem subAt_eq_list (f : Nat → Nat) (d : Nat → Nat) (p q m : Nat) :
    subAt f d p q m = ((cells d p m).map f == (cells d q m).map f) := by
  induction m generalizing p q with
  | zero => rfl
  | succ m ih =>
    simp only [subAt, cells, List.map_cons, ih]
    by_cases h : f (d p) = f (d q)
    · simp [h]
    · have : (f (d p) == f (d q)) = false := by simpa using h
      simp [this, h]

theorem firstIdx_eq_list (d : Nat → Nat) (c p n : Nat) :
    firstIdx d c p n = (cells d p n).findIdx? (· == c) := by
  induction n generalizing p with
  | zero => rfl
  | succ n ih =>
    simp only [firstIdx, cells, List.findIdx?_cons, ih]
    by_cases h : d p = c
    · simp [h]
    · have : (d p == c) = false := by simpa using h
      simp [h, this]

theorem inSet_eq_list (d : Nat → Nat) (c p n : Nat) : inSet d c p n = (cstr d p n).contains c := by
  induction n generalizing p with
  | zero => rfl
  | succ n ih =>
    simp only [inSet, cstr, cells, List.takeWhile_cons]
    by_cases h0 : d p = 0
    · simp [h0]
    · have : (d p != 0) = true := by simpa using h0
      simp only [h0, if_false, this, if_true, List.contains_cons]
      by_cases hc : c = d p
      · simp [hc]
      · have hb : (c == d p) = false := by simpa using hc
        simp only [hc, if_false, hb, Bool.false_or]
        exact ih (p+1)

theorem firstIn_eq_list_aux (d : Nat → Nat) (src slen : Nat) (g : Nat → Bool)
    (hg : ∀ c, inSet d c src slen = g c) (p n : Nat) :
    firstIn d src slen p n = (cstr d p n).findIdx? g := by
  induction n generalizing p with
  | zero => rfl
  | succ n ih =>
    simp only [firstIn, cstr, cells, List.takeWhile_cons, hg]
    by_cases h0 : d p = 0
    · simp [h0]
    · have : (d p != 0) = true := by simpa using h0
      simp only [h0, if_false, this, if_true, List.findIdx?_cons]
      cases hin : g (d p)
      · simp only [Bool.false_eq_true, if_false]
        rw [ih (p+1)]; rfl
      · simp

/-- `strpbrk` on lists: index of the first character of the string that is a member of the set string -/
theorem firstIn_eq_list (d : Nat → Nat) (src slen p n : Nat) :
    firstIn d src slen p n = (cstr d p n).findIdx? (fun x => (cstr d src slen).contains x) :=
  firstIn_eq_list_aux d src slen _ (fun c => inSet_eq_list d c src slen) p n

theorem spanLen_eq_list_aux (d : Nat → Nat) (want : Bool) (src slen : Nat) (g : Nat → Bool)
    (hg : ∀ c, inSet d c src slen = g c) (p n : Nat) :
    spanLen d want src slen p n = ((cstr d p n).takeWhile (fun x => g x == want)).length := by
  induction n generalizing p with
  | zero => rfl
  | succ n ih =>
    simp only [spanLen, cstr, cells, List.takeWhile_cons, hg]
    by_cases h0 : d p = 0
    · simp [h0]
    · have : (d p != 0) = true := by simpa using h0
      simp only [h0, if_false, this, if_true, List.takeWhile_cons]
      by_cases hw : g (d p) = want
      · have hb : (g (d p) == want) = true := by simpa using hw
        simp only [hw, hb, if_true, List.length_cons]
        rw [ih (p+1)]; simp [cstr, Nat.add_comm]
      · have hb : (g (d p) == want) = false := by simpa using hw
        simp [hw, hb]

/-- `strspn` (`want = true`) / `strcspn` (`want = false`) on lists -/
theorem spanLen_eq_list (d : Nat → Nat) (want : Bool) (src slen p n : Nat) :
    spanLen d want src slen p n =
      ((cstr d p n).takeWhile (fun x => (cstr d src slen).contains x == want)).length :=
  spanLen_eq_list_aux d want src slen _ (fun c => inSet_eq_list d c src slen) p n


example : cstr (fun a => if a = 100 then 97 else if a = 101 then 98 else 0) 100 5 = [97, 98] := by decide

end SafeC.Props.C10

import SafeC.Proofs.PrintfFormat
/-!
# C11 — formatted output matches C `printf` for the supported conversions, or fails

Model: `SafeC/Models/Printf.lean` (the engine of src/str/vsnprintf_s.c, its sinks and wrappers);
specification: `SafeC/Models/PrintfSpec.lean` (`Spec.printf`, C11 7.21.6.1 for `d i u x X o c s %`).

What is proved here, for ALL inputs of the stated class (no bound on values, widths below the buffer limit, dmax):

* `ntoa_digits_C11` (full): the digit loop of `safec_ntoa_long[_long]` writes exactly the standard's digits of every
  64-bit value in base 8, 10, 16; `digits_positional_C11`: those digits are the positional representation.
* `ntoa_format_C11_partial`: `safec_ntoa_format` + `safec_out_rev` write padding, sign, zeros, digits, padding exactly as
  C11 lays a number out — for every conversion without the `#` flag whose precision and zero-padded width stay within the
  32-byte digit buffer, and (code as found) without precision zeros under the `-` flag.  Each excluded class has a
  kernel-checked witness below and is a known finding (or a fix) of the check.
* `sinks_C11_*` (full): the three sinks receive the same characters; the buffer sink stores them at `dest[idx..]` when
  they fit and returns -ESNOSPC at the first one that does not (`idx`/`maxlen` discipline).
* `vsprintf_s_C11_fits` (full): `vsprintf_s` never reports success with `ret >= dmax`; `vsnprintf_s_exact_fit_witness`:
  `sprintf_s` / `snprintf_s` / `vsnprintf_s` do (text of exactly `dmax` characters).

END TO END: `SafeC/Props/C11Refine.lean` (layout = `Spec.renderInt` incl. the `#` class, `%c` `%s` `%%`, parser equivalence,
composition over the format, the wrappers, statelessness) — for the repaired code and specifications within the 32-byte
digit buffer.  NOT proved (correspondence + oracle only, see NOTES_C11.md): `%lc` `%ls` `%p`; every floating conversion (no model).

The FULL statement — for every format of the class and matching arguments the engine's text is `Spec.printf`'s or the
call fails — is false of the code: see the `_witness` theorems.
-/
namespace SafeC.Props.C11
open SafeC.Printf SafeC.Printf.Spec

/-- FULL.  The heart: for every value below 2^64 and every base from 8 to 16 the digit loop leaves exactly the digit
    characters of `Spec.digits base value`, least significant first (`0` for the value 0): the 32-byte buffer never cuts
    the digits of a number. -/
theorem ntoa_digits_C11 (b : Nat) (up : Bool) (v : Nat) (hb : 8 ≤ b) (hb16 : b ≤ 16) (hv : v < 2 ^ 64) :
    ntoaDigits b up NTOA v [] = if v = 0 then ['0'] else ((digits b v).map (digitSym up)).reverse :=
  ntoaDigits_spec b up v hb hb16 hv

example : ntoaDigits 16 true NTOA 48879 [] = ['F', 'E', 'E', 'B'] := by decide

/-- FULL.  `Spec.digits` is the positional representation of `n`: it denotes `n`, every digit is below the base, and it
    has no leading zero. -/
theorem digits_positional_C11 (b n : Nat) (hb : 2 ≤ b) :
    ofDigits b (digits b n) = n ∧ (∀ d ∈ digits b n, d < b) ∧ (digits b n).head? ≠ some 0 :=
  ⟨ofDigits_digits b hb n, digits_lt b hb n, digits_head_ne_zero b hb n⟩

/-- the text C11 lays out for a number: left padding, sign, zeros, digits (most significant first), right padding -/
def layout (E : Str) (sign : Str) (zeros width : Nat) (left zeropad : Bool) : Str :=
  let n := E.length + zeros + sign.length
  (if !left && !zeropad then List.replicate (width - n) ' ' else []) ++ sign ++ List.replicate zeros '0' ++ E.reverse ++
  (if left then List.replicate (width - n) ' ' else [])

/-- PARTIAL.  `safec_ntoa_format` followed by `safec_out_rev`, any sink, any state: for a conversion without `#`
    (`hh`), digits `E` (reversed) of at most 31 characters, precision at most 31 (`hp`) and — when zero padding applies —
    width at most 31 (`hw`), the characters handed to the sink are exactly: spaces to the width (right-justified, no `0`
    flag), the sign (`-`, else `+`, else space), `max(prec - digits, 0)` precision zeros [only without `-`, code as found:
    `zPrec`], the zeros of the `0` flag filling the width, the digits, spaces to the width (`-` flag).
    Hypotheses `hp`/`hw` = finding printf-digit-buffer-32; `zPrec … = 0` under `-` = finding printf-minus-drops-precision
    (`Fixes.minusPrec`); `hh` excludes the `#` findings (`Fixes.hash`). -/
theorem ntoa_format_C11_partial (fx : Fixes) (sk : Sink) (m : Nat) (E : Str) (negative : Bool) (base prec width : Nat)
    (fl : Flags) (s : St)
    (hh : fl.hash = false) (hE : E.length ≤ 31) (hp : prec ≤ 31) (hw : fl.left = false → fl.zeropad = true → width ≤ 31)
    (hwmax : width ≤ 2147483614) :
    ntoaFormat fx sk m E negative base prec width fl s =
      emitAll sk m (layout E (signChars negative fl) (zPrec fx E prec fl + zWidth fx E negative prec width fl)
                      (width1Of negative width fl) fl.left fl.zeropad) s := by
  unfold ntoaFormat
  rw [ntoaPrep_nohash fx E negative base prec width fl hh hE hp hw]
  have hw1 : width1Of negative width fl ≤ width := by unfold width1Of; split <;> omega
  have : ¬ (width1Of negative width fl > 2147483614) := by omega
  simp only [this, if_false, outRev_eq]
  congr 1
  unfold outRevText layout signChars
  cases negative <;> cases fl.plus <;> cases fl.space <;> cases fl.left <;> cases fl.zeropad <;>
    simp [List.reverse_append, Nat.add_assoc, Nat.add_comm, Nat.add_left_comm]

/-- the hypotheses are satisfiable by a non-trivial input: `%+08d` of 42 -/
example : (ntoaFormat Fixes.none .fchar 0 ['2', '4'] false 10 0 8 { zeropad := true, plus := true } ⟨0, [], []⟩).toOption =
    some ⟨8, [], ['+', '0', '0', '0', '0', '0', '4', '2']⟩ := by decide

/-- FULL.  `safec_out_fchar` (fprintf_s, vfprintf_s): every character reaches the stream in order. -/
theorem sinks_C11_fchar (m : Nat) (cs : List Char) (s : St) :
    emitAll .fchar m cs s = .ok { s with stream := s.stream ++ cs, idx := s.idx + cs.length } := emitAll_fchar m cs s

/-- FULL.  `safec_out_char` (printf_s): the same characters except that a NUL is not written (finding printf_s-nul-dropped). -/
theorem sinks_C11_char (m : Nat) (cs : List Char) (s : St) :
    emitAll .char m cs s = .ok { s with stream := s.stream ++ cs.filter (· ≠ '\x00'), idx := s.idx + cs.length } := emitAll_char m cs s

/-- FULL.  `safec_out_buffer`: if the characters fit below `maxlen` they are stored at `dest[idx ..]` (same sequence the
    stream sinks receive), the cells in front and behind are untouched; … -/
theorem sinks_C11_buffer (m : Nat) (cs : List Char) (s : St) (hfit : s.idx + cs.length ≤ m) (hl : s.cells.length = m) :
    ∃ s', emitAll .buffer m cs s = .ok s' ∧ s'.idx = s.idx + cs.length ∧ s'.stream = s.stream ∧ s'.cells.length = m ∧
      s'.cells.take s'.idx = s.cells.take s.idx ++ cs ∧ s'.cells.drop s'.idx = s.cells.drop (s.idx + cs.length) :=
  emitAll_buffer_fits m cs s hfit hl

/-- FULL.  … and if they do not, the loop returns `-ESNOSPC` (no truncated success from the engine). -/
theorem sinks_C11_buffer_overflow (m : Nat) (cs : List Char) (s : St) (h1 : s.idx ≤ m) (h2 : m < s.idx + cs.length) :
    emitAll .buffer m cs s = .error (.ret ESNOSPCi) := emitAll_buffer_overflow m cs s h1 h2

example : (emitAll .char 0 ['a', '\x00', 'b'] ⟨0, [], []⟩).toOption = some ⟨3, [], ['a', 'b']⟩ := by decide

/-- FULL.  `vsprintf_s` never reports success for a text that does not leave room for the terminator: whenever it
    returns `r ≥ 0`, `r < dmax` (any format, arguments, repair state, slack configuration). -/
theorem vsprintf_s_C11_fits (fx : Fixes) (slack : Bool) (dmax : Nat) (init : List Char) (fmt : Str) (args : List Arg) (v : Int)
    (hd : dmax ≠ 0) (hr : (vsprintf_s fx slack dmax init fmt args).ret = some v) (hv : 0 ≤ v) : v < (dmax : Int) := by
  unfold vsprintf_s at hr
  generalize vsnprintf_s fx slack dmax init fmt args = R at hr
  simp only at hr
  split at hr
  · rename_i w hw
    by_cases hc : dmax ≠ 0 ∧ w ≥ (dmax : Int)
    · rw [if_pos hc] at hr
      simp only [Option.some.injEq] at hr
      subst hr
      simp [ESNOSPCi, SafeC.Gen.ESNOSPC] at hv
    · rw [if_neg hc] at hr
      rw [hw] at hr; cases hr
      have : ¬ (v ≥ (dmax : Int)) := fun hge => hc ⟨hd, hge⟩
      omega
  · rename_i hn
    rw [hn] at hr; cases hr

/-! ## witnesses: where the full statement fails (each is replayed against glibc and the library by the check) -/

def dest8 : List Char := List.replicate 8 'x'

/-- `snprintf_s(d, 3, "abc")` (also sprintf_s, vsnprintf_s, code as found): returns 3 = dmax with only "ab" stored. -/
theorem vsnprintf_s_exact_fit_witness :
    (vsnprintf_s Fixes.none true 3 ['x', 'x', 'x'] ['a', 'b', 'c'] []).ret = some 3 ∧
    (vsnprintf_s Fixes.none true 3 ['x', 'x', 'x'] ['a', 'b', 'c'] []).cells = ['a', 'b', '\x00'] := by decide

/-- `sprintf_s(d, 8, "%-.5d", 42)` stores "42" (C: "00042"); the repaired code stores "00042". -/
theorem ntoa_minus_precision_witness :
    (sprintf_s Fixes.none true 8 dest8 ['%', '-', '.', '5', 'd'] [.int 42]).cells.take 3 = ['4', '2', '\x00'] ∧
    (sprintf_s Fixes.all true 8 dest8 ['%', '-', '.', '5', 'd'] [.int 42]).cells.take 6 = ['0', '0', '0', '4', '2', '\x00'] := by decide

/-- `sprintf_s(d, 8, "%#3x", 0x123)` stores "0x3" (C: "0x123"); repaired: "0x123". -/
theorem ntoa_hash_takes_digits_witness :
    (sprintf_s Fixes.none true 8 dest8 ['%', '#', '3', 'x'] [.int 291]).cells.take 4 = ['0', 'x', '3', '\x00'] ∧
    (sprintf_s Fixes.all true 8 dest8 ['%', '#', '3', 'x'] [.int 291]).cells.take 6 = ['0', 'x', '1', '2', '3', '\x00'] := by decide

/-- `sprintf_s(d, 8, "%#.5o", 0123)` stores "000123" (C: "00123"); repaired: "00123". -/
theorem ntoa_hash_octal_precision_witness :
    (sprintf_s Fixes.none true 8 dest8 ['%', '#', '.', '5', 'o'] [.int 83]).cells.take 7 = ['0', '0', '0', '1', '2', '3', '\x00'] ∧
    (sprintf_s Fixes.all true 8 dest8 ['%', '#', '.', '5', 'o'] [.int 83]).cells.take 6 = ['0', '0', '1', '2', '3', '\x00'] := by decide

/-- `sprintf_s(d, 40, "%+.32d", 1)` stores 32 digits and no `+` (C: `+` and 32 digits): the sign is dropped when the
    32-byte buffer is full.  Not repaired (design limit). -/
theorem ntoa_buffer_witness :
    (sprintf_s Fixes.all true 40 (List.replicate 40 'x') ['%', '+', '.', '3', '2', 'd'] [.int 1]).ret = some 32 := by decide

/-- `sprintf_s(d, 8, "%.*d", -1, 0)` stores "" (C: "0"); repaired: "0". -/
theorem engine_negative_star_precision_witness :
    (sprintf_s Fixes.none true 8 dest8 ['%', '.', '*', 'd'] [.int (-1), .int 0]).ret = some 0 ∧
    (sprintf_s Fixes.all true 8 dest8 ['%', '.', '*', 'd'] [.int (-1), .int 0]).cells.take 2 = ['0', '\x00'] := by decide

/-- `sprintf_s(d, 8, "%4294967297d", 5)` returns 1 (the numeral wraps to width 1 in `unsigned int`). -/
theorem engine_width_wraps_witness :
    (sprintf_s Fixes.all true 8 dest8 ['%', '4', '2', '9', '4', '9', '6', '7', '2', '9', '7', 'd'] [.int 5]).ret = some 1 := by decide

/-- `sprintf_s(d, 8, "ab%lc", L'x')` leaves "x" (ret 3); with dmax 1 and "%lc" the copy leaves `dest`; repaired: "abx". -/
theorem engine_lc_clobbers_witness :
    (sprintf_s Fixes.none true 8 dest8 ['a', 'b', '%', 'l', 'c'] [.int 120]).cells.take 4 = ['x', '\x00', 'x', '\x00'] ∧
    (sprintf_s Fixes.none true 1 ['x'] ['%', 'l', 'c'] [.int 120]).why = "fault" ∧
    (sprintf_s Fixes.all true 8 dest8 ['a', 'b', '%', 'l', 'c'] [.int 120]).cells.take 4 = ['a', 'b', 'x', '\x00'] := by decide

/-- `sprintf_s(d, 4, "%.0s", "hello")` fails with -ESNOSPC although nothing is written for the string; repaired: returns 0. -/
theorem engine_s_precision0_witness :
    (sprintf_s Fixes.none true 4 ['x', 'x', 'x', 'x'] ['%', '.', '0', 's'] [.str (some ['h', 'e', 'l', 'l', 'o'])]).ret = some (-406) ∧
    (sprintf_s Fixes.all true 4 ['x', 'x', 'x', 'x'] ['%', '.', '0', 's'] [.str (some ['h', 'e', 'l', 'l', 'o'])]).ret = some 0 := by decide

/-- `printf_s("a%cb", 0)` writes "ab" (C and fprintf_s: a, NUL, b) and still returns 3. -/
theorem sinks_char_drops_nul_witness :
    (streamPrintf Fixes.all .char ['a', '%', 'c', 'b'] [.int 0]).stream = ['a', 'b'] ∧
    (streamPrintf Fixes.all .fchar ['a', '%', 'c', 'b'] [.int 0]).stream = ['a', '\x00', 'b'] ∧
    (streamPrintf Fixes.all .char ['a', '%', 'c', 'b'] [.int 0]).ret = some 3 := by decide

end SafeC.Props.C11

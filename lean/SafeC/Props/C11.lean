import SafeC.Models.Copy
/-! Property theorems for C11 (see DESIGN.md §4). -/
namespace SafeC.Props.C11
end SafeC.Props.C11

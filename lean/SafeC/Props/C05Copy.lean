import SafeC.Props.C05Query
/-!
# C05 for the copy family (beyond `C05.lean`), the counters and the meaning of the judgement

`C05.lean` proves the handler discipline of strcpy_s / strncpy_s / strcat_s / strncat_s / wcscpy_s with the object
size UNKNOWN, together with no-fault and frame facts.  Here the discipline alone is proved through `EV` for every memory
content and with the object sizes known as well: strcpy_s, strcat_s, strncpy_s under `SmallBos` (a known destination
object of 1..RSIZE_MAX_STR cells — above that `handle_str_bos_overflow`'s inner `strnlen_s` reports a second time) and
`SrcOk` (known finding `slen-bos`); wcscpy_s and wcscat_s for all arguments.

`*_meaning`: what `EV p Post` says about runs (`EV.sound` instantiated for each post).
-/
namespace SafeC.Props.C05Query
open SafeC Gen SafeC.Props.C05Ev SafeC.Props.C05Mem

abbrev PC : Nat → List Event → Prop := Once .str

theorem copyLoop_ev (cfg : Cfg) (od bd : Bool) (bumper oD oM n d s l : Nat) :
    EV (copyLoop cfg od bd bumper oD oM n d s l) PC := by
  induction n generalizing d s l with
  | zero => unfold copyLoop; ev_walk
  | succ n ih => unfold copyLoop; ev_walk using ih _ _ _

/-- `findEnd`: found silently, or an error exit with exactly one report of the code it hands back -/
abbrev PF : Nat ⊕ (Nat × Nat) → List Event → Prop :=
  fun r es => (es = [] ∧ ∃ x, r = .inr x) ∨ (∃ c, r = .inl c ∧ c ≠ EOK ∧ es = [.handler .str c])
theorem findEnd_ev (cfg : Cfg) (cb : Bool) (bumper oD oM n d : Nat) (hn : n ≠ 0) :
    EV (findEnd cfg cb bumper oD oM n d) PF := by
  induction n generalizing d with
  | zero => exact absurd rfl hn
  | succ n ih =>
    unfold findEnd
    refine Quiet.then_ (Quiet.loadP _) (fun c => ?_)
    split
    · exact EV.pure _ (Or.inl ⟨rfl, _, rfl⟩)
    split
    · exact EV.bind (EV.handleError _ _ _ _) (fun _ es he => by
        subst he; exact EV.pure _ (Or.inr ⟨_, rfl, ne_ESOVRLP, by simp⟩))
    split
    · exact EV.bind (EV.handleError _ _ _ _) (fun _ es he => by
        subst he; exact EV.pure _ (Or.inr ⟨_, rfl, ne_ESUNTERM, by simp⟩))
    · exact ih _ (by assumption)

theorem catTail_ev (cfg : Cfg) (cb : Bool) (bumper oD oM n d : Nat) (hn : n ≠ 0) (k : Nat → Nat → Prog Nat)
    (hk : ∀ x y, EV (k x y) PC) :
    EV (do match ← findEnd cfg cb bumper oD oM n d with
           | .inl code => pure code
           | .inr (x, y) => k x y : Prog Nat) PC := by
  refine EV.bind (findEnd_ev cfg cb bumper oD oM n d hn) (fun r es h => ?_)
  rcases h with ⟨rfl, ⟨x, y⟩, rfl⟩ | ⟨c, rfl, hc, rfl⟩
  · simpa using hk x y
  · exact EV.pure _ (Or.inr ⟨hc, by simp⟩)

/-- object-size hypothesis under which `handle_str_bos_overflow` reports once -/
def SmallBos (db : Bos) : Prop := ∀ b, db = some b → b ≠ 0 ∧ b ≤ RSIZE_MAX_STR

theorem chkDmaxClear_ev (cfg : Cfg) (dest dmax : Nat) (db : Bos) {k : Prog Nat} (hd : dest ≠ 0) (_hz : dmax ≠ 0)
    (hb : SmallBos db) (hk : (∀ b, db = some b → dmax ≤ b) → (db = none → dmax ≤ RSIZE_MAX_STR) → EV k PC) :
    EV (chkDmaxClear cfg dest dmax db RSIZE_MAX_STR k) PC := by
  unfold chkDmaxClear chkDmaxClearG
  split
  · split
    · exact EV.bind (EV.handlerS _) (fun _ es he => by subst he; exact EV.pure _ (Or.inr ⟨ne_ESLEMAX, by simp⟩))
    · exact hk (fun b h => by cases h) (fun _ => by omega)
  · rename_i bos
    split
    · split
      · exact handleError_ret_once _ _ _ _ ne_ESLEMAX
      · refine EV.bind (handleStrBosOverflow_ev cfg dest bos hd (hb bos rfl).1 (hb bos rfl).2) (fun c es ⟨hc, he⟩ => ?_)
        subst he
        exact EV.pure _ (Or.inr ⟨hc, by simp⟩)
    · exact hk (fun b h => by cases h; omega) (fun h => by cases h)

theorem strcpy_s_ev_partial (cfg : Cfg) (dest dmax src : Nat) (db : Bos) (hb : SmallBos db) :
    EV (strcpy_s cfg dest dmax src db) PC := by
  unfold strcpy_s strcpyG
  split
  · exact failS_once _ ne_ESNULLP
  split
  · exact failS_once _ ne_ESZEROL
  refine chkDmaxClear_ev _ _ _ _ (by assumption) (by assumption) hb (fun _ _ => ?_)
  split
  · exact handleError_ret_once _ _ _ _ ne_ESNULLP
  split
  · exact eok_once
  split
  · exact copyLoop_ev ..
  · exact copyLoop_ev ..

theorem strcat_s_ev_partial (cfg : Cfg) (dest dmax src : Nat) (db : Bos) (hb : SmallBos db) :
    EV (strcat_s cfg dest dmax src db) PC := by
  unfold strcat_s strcatG
  split
  · exact failS_once _ ne_ESNULLP
  split
  · exact failS_once _ ne_ESZEROL
  refine chkDmaxClear_ev _ _ _ _ (by assumption) (by assumption) hb (fun _ _ => ?_)
  split
  · exact handleError_ret_once _ _ _ _ ne_ESNULLP
  split
  · exact catTail_ev _ _ _ _ _ _ _ (by assumption) _ (fun x y => copyLoop_ev ..)
  · exact catTail_ev _ _ _ _ _ _ _ (by assumption) _ (fun x y => copyLoop_ev ..)

/-- the source-size hypothesis: unknown, or `slen` within it (otherwise the exit goes through
`handle_str_bos_overflow(dest, destbos)`, which reports twice when destbos is unknown: known finding `slen-bos`) -/
def SrcOk (sb : Bos) (slen : Nat) : Prop := ∀ b, sb = some b → slen ≤ b

theorem chkSlenMaxClear_ev (cfg : Cfg) (dest dmax slen : Nat) {k : Prog Nat} (hd : dest ≠ 0) (hz : dmax ≠ 0)
    (hm : dmax ≤ RSIZE_MAX_STR) (hk : EV k PC) : EV (chkSlenMaxClear cfg dest dmax slen RSIZE_MAX_STR k) PC := by
  unfold chkSlenMaxClear
  split
  · refine Quiet.then_ (q_strnlen_s_ok _ _ _ hd hz hm) (fun len => ?_)
    exact handleError_ret_once _ _ _ _ ne_ESLEMAX
  · exact hk

theorem strncpy_s_ev_partial (cfg : Cfg) (dest dmax src slen : Nat) (db sb : Bos) (hb : SmallBos db) (hs : SrcOk sb slen) :
    EV (strncpy_s cfg dest dmax src slen db sb) PC := by
  unfold strncpy_s strncpyG
  split
  · exact Quiet.then_ (Quiet.storeP _ _) (fun _ => eok_once)
  split
  · exact failS_once _ ne_ESNULLP
  split
  · exact failS_once _ ne_ESZEROL
  refine chkDmaxClear_ev _ _ _ _ (by assumption) (by assumption) hb (fun h1 h2 => ?_)
  have hm : dmax ≤ RSIZE_MAX_STR := by
    cases db with
    | none => exact h2 rfl
    | some b => exact Nat.le_trans (h1 b rfl) (hb b rfl).2
  split
  · exact handleError_ret_once _ _ _ _ ne_ESNULLP
  refine chkSlenMaxClear_ev _ _ _ _ (by assumption) (by assumption) hm ?_
  cases sb with
  | none => dsimp only; split <;> exact copyLoop_ev ..
  | some b =>
    have := hs b rfl
    simp only [Nat.not_lt.mpr this, if_false]
    split <;> exact copyLoop_ev ..

theorem wcscpy_s_ev (cfg : Cfg) (dest dmax src : Nat) (db : Bos) : EV (wcscpy_s cfg dest dmax src db) PC := by
  unfold wcscpy_s
  split
  · exact failS_once _ ne_ESNULLP
  split
  · exact failS_once _ ne_ESZEROL
  refine chkDmaxClearW_once _ _ _ _ ?_
  ev_walk using copyLoop_ev ..

theorem chkDmaxW_once (dmax : Nat) (db : Bos) {k : Prog Nat} (hk : EV k PC) : EV (chkDmaxW dmax db k) PC := by
  unfold chkDmaxW
  ev_walk using hk, failS_once _ ne_ESLEMAX, failS_once _ ne_EOVERFLOW

theorem wcscat_s_ev (cfg : Cfg) (dest dmax src : Nat) (db : Bos) : EV (wcscat_s cfg dest dmax src db) PC := by
  unfold wcscat_s
  split
  · exact failS_once _ ne_ESNULLP
  split
  · exact failS_once _ ne_ESZEROL
  refine chkDmaxW_once _ _ ?_
  split
  · exact handleError_ret_once _ _ _ _ ne_ESNULLP
  split
  · exact catTail_ev _ _ _ _ _ _ _ (by assumption) _ (fun x y => copyLoop_ev ..)
  · exact catTail_ev _ _ _ _ _ _ _ (by assumption) _ (fun x y => copyLoop_ev ..)

/-! strnterminate_s / strnlen_s: a count is returned; after a report it is 0 -/
theorem strnterminate_s_ev (cfg : Cfg) (dest dmax : Nat) (db : Bos) : EV (strnterminate_s cfg dest dmax db) PN := by
  unfold strnterminate_s
  ev_walk using ntermLoop_silent _ _ _
theorem strnlen_s_ev (str smax : Nat) (sb : Bos) : EV (strnlen_s str smax sb) PN := by
  unfold strnlen_s
  ev_walk using quiet_F (q_strnlenLoop _ _ _ _)

/-! ## meaning of the judgement for runs -/

/-- `EV p (QPost bn k code)`: every returning run appended nothing and returned a result code of `bn`, or appended
exactly one `k`-handler event carrying the non-EOK code it returned -/
theorem QPost_meaning {α} {bn : List Nat} {k : Kind} {code : α → Nat} {p : Prog α} (h : EV p (QPost bn k code))
    (st : St) (r : α) (st' : St) (he : exec p st = .ok (r, st')) :
    (st'.events = st.events ∧ code r ∈ bn) ∨ (code r ≠ EOK ∧ st'.events = st.events ++ [.handler k (code r)]) := by
  obtain ⟨es, h1, h2⟩ := h.sound st he
  rcases h2 with ⟨rfl, hb⟩ | ⟨hc, rfl⟩
  · exact Or.inl ⟨by simpa using h1, hb⟩
  · exact Or.inr ⟨hc, h1⟩

theorem QPostAny_meaning {α} {bn : List Nat} {code : α → Nat} {p : Prog α} (h : EV p (QPostAny bn code))
    (st : St) (r : α) (st' : St) (he : exec p st = .ok (r, st')) :
    (st'.events = st.events ∧ code r ∈ bn) ∨ (code r ≠ EOK ∧ ∃ k, st'.events = st.events ++ [.handler k (code r)]) := by
  obtain ⟨es, h1, h2⟩ := h.sound st he
  rcases h2 with ⟨rfl, hb⟩ | ⟨hc, k, rfl⟩
  · exact Or.inl ⟨by simpa using h1, hb⟩
  · exact Or.inr ⟨hc, k, h1⟩

/-- `EV p (FPost fv)`: nothing appended, or exactly one str-handler event (code ≠ EOK) and the failure value returned -/
theorem FPost_meaning {α} {fv : α} {p : Prog α} (h : EV p (FPost fv))
    (st : St) (r : α) (st' : St) (he : exec p st = .ok (r, st')) :
    st'.events = st.events ∨ (r = fv ∧ ∃ c, c ≠ EOK ∧ st'.events = st.events ++ [.handler .str c]) := by
  obtain ⟨es, h1, h2⟩ := h.sound st he
  rcases h2 with rfl | ⟨hr, c, hc, rfl⟩
  · exact Or.inl (by simpa using h1)
  · exact Or.inr ⟨hr, c, hc, h1⟩

/-- tokenizers: nothing appended, or NULL returned and exactly one str-handler event -/
theorem PT_meaning {p : Prog TokOut} (h : EV p PT) (st : St) (r : TokOut) (st' : St) (he : exec p st = .ok (r, st')) :
    st'.events = st.events ∨ (r.ret = 0 ∧ ∃ c, c ≠ EOK ∧ st'.events = st.events ++ [.handler .str c]) := by
  obtain ⟨es, h1, h2⟩ := h.sound st he
  rcases h2 with rfl | ⟨hr, c, hc, rfl⟩
  · exact Or.inl (by simpa using h1)
  · exact Or.inr ⟨hr, c, hc, h1⟩

/-- the point that used to fail (object of 5000 bytes known, dmax = 5000 > RSIZE_MAX_STR: the inner strnlen_s reported
ESLEMAX, strrchr_s returned ESZEROL): now rejected with ESLEMAX, reported once with that code -/
theorem strrchr_s_C05_fixed_point :
    ((exec (strrchr_s 100 5000 97 (some 5000))
      { data := fun _ => 97, mapped := fun _ => true, rd := fun _ => true, wr := fun _ => false }).toOption.map
        (fun x => (x.1.1, x.2.events))) = some (ESLEMAX, [.handler .str ESLEMAX]) := by
  decide

/-- non-vacuity of `SmallBos` / `SrcOk`, and a reporting run of strcat_s (unterminated dest) -/
example : SmallBos (some 8) := fun b h => by cases h; exact ⟨by decide, by decide⟩
example : SmallBos none := fun b h => by cases h
example : SrcOk (some 4) 3 := fun b h => by cases h; decide

end SafeC.Props.C05Query

import SafeC.Proofs.CatAll
import SafeC.Props.C07Ext
/-!
# C07 — `strcpy_s strncpy_s strcat_s strncat_s` and the wide twins: ESOVRLP exactly when the cells copied meet

Setting of `Props/C06Copy.lean` (every cell mapped and readable, ARBITRARY contents, dest writable, usable sizes, `cfg`
arbitrary, the source at ANY address).  `m` = number of characters the call would copy.

* `*_C07_exact` — ESOVRLP is returned EXACTLY when the `c = min(m + 1, dmax)` cells starting at the two pointers — the
  cells the copy reads and writes, terminator included, capped by `dmax` — meet; then one handler call, dest cleared,
  nothing outside dest touched (`OvrlpPost`).  In particular a source that lies INSIDE the `dmax` cells of dest but
  behind the cells copied (`m < g < dmax`) is accepted; with null-slack it is then zeroed by the fill (`CpyC06`: zeros up
  to `dmax`) — the listed `slack-fill-destroys-source` (`strcpy_s_C07_witness` in `Props/C07.lean`).
* `strncpy_s_C07_disjoint_*` / `wcsncpy_s_C07_disjoint_*` — when `slen = m` runs out, the last of these source cells,
  `src + m`, is NOT read; operands that are disjoint as objects (the `dmax` cells of dest / the source cells read) are
  rejected EXACTLY when `slen = m`, `src + m = dest` and `m < dmax` (`*_iff`): the listed deviation
  `bounded-copy-src-ends-at-dest`, as `_partial` + `_witness`.
* the concatenations (second half): dest holds a string of length `dl`; ESOVRLP EXACTLY when `src` lies inside the dest
  string (terminator included: met by the scan, `findEnd_hits`, or at the first test of the copy loop) or the
  `c = min(m + 1, dmax - dl)` cells appended and the `c` source cells meet (`CatC07`); the same `_iff` / `_partial` /
  `_witness` for the bounded ones; `*_C07_unterm`: dest without a NUL in `dmax` cells — ESOVRLP exactly when the scan runs
  into `src` (`dest < src < dest + dmax`), else ESUNTERM, dest cleared either way.
* `*_C07_noterm` — the unbounded functions on a source WITHOUT a terminator in the cells the loop gets to read: ESOVRLP
  when the copy reaches the other operand inside dest, else ESNOSPC.  Together with `_exact` / `_all` this covers every
  content of the source.
-/
namespace SafeC.Props.C07
open SafeC Gen

/-- the distance between two pointers -/
private theorem gap_of (dest src : Nat) :
    ∃ g, (dest < src ∧ src = dest + g) ∨ (src ≤ dest ∧ dest = src + g) := by
  by_cases h : dest < src
  · exact ⟨src - dest, Or.inl ⟨h, by omega⟩⟩
  · exact ⟨dest - src, Or.inr ⟨by omega, by omega⟩⟩

/-- the conclusion shared by the four copies -/
def CpyC07 (cfg : Cfg) (dest dmax src m : Nat) (st st' : St) (code : Nat) : Prop :=
  (code = ESOVRLP ↔ ¬ (dest + min (m+1) dmax ≤ src ∨ src + min (m+1) dmax ≤ dest)) ∧
  (code = ESOVRLP → OvrlpPost cfg dest dmax st st')

private theorem cpyC07_of_all {cfg : Cfg} {dest dmax src m g : Nat} {st st' : St} {code : Nat}
    (hg : (dest < src ∧ src = dest + g) ∨ (src ≤ dest ∧ dest = src + g))
    (h : CopyAll cfg dest dmax dest dmax src m g st st' code) : CpyC07 cfg dest dmax src m st st' code := by
  have hiff := h.ovrlp_iff
  refine ⟨⟨fun hc => by have := hiff.1 hc; omega, fun hh => hiff.2 (by omega)⟩, fun hc => ?_⟩
  obtain ⟨h1, h2⟩ := hiff.1 hc
  exact (h.hit h1 h2).2.ovrlp

/-- **disjoint operands are never rejected** — corollary of the exact characterisation for every call that reads the
source terminator (`strcpy_s`, `wcscpy_s`, and the bounded copies when `m < slen`): the `dmax` cells of dest lie below
`src`, or the `m + 1` source cells lie below dest -/
theorem cpyC07_disjoint_not_rejected {cfg : Cfg} {dest dmax src m : Nat} {st st' : St} {code : Nat}
    (h : CpyC07 cfg dest dmax src m st st' code) (hdisj : dest + dmax ≤ src ∨ src + m + 1 ≤ dest) :
    code ≠ ESOVRLP := by
  intro hc
  have := h.1.1 hc
  omega

/-- **strcpy_s: ESOVRLP exactly when the cells copied meet** — source string of length `n` at any address ≠ dest -/
theorem strcpy_s_C07_exact (cfg : Cfg) (dest dmax src n : Nat) (destbos : Bos) (st : St)
    (hall : ∀ a, st.mapped a = true ∧ st.rd a = true)
    (hd : dest ≠ 0) (hs : src ≠ 0) (hne : dest ≠ src) (hpos : 0 < dmax) (hle : dmax ≤ RSIZE_MAX_STR)
    (hb : ∀ b, destbos = some b → dmax ≤ b)
    (hrw : RW st dest dmax)
    (hnz : ∀ j, j < n → st.data (src + j) ≠ 0) (hnul : st.data (src + n) = 0) :
    ∃ code st', exec (strcpy_s cfg dest dmax src destbos) st = .ok (code, st') ∧
      CpyC07 cfg dest dmax src n st st' code := by
  obtain ⟨g, hg⟩ := gap_of dest src
  unfold strcpy_s
  rw [strcpyG_eq_body _ cfg dest dmax src destbos hd hs hne hpos hle hb]
  obtain ⟨code, st', he, hp⟩ := cpyBody_cases cfg false dest dmax src n g 0 st hall hpos hrw hg hnz
    (Or.inl ⟨fun h => absurd h (by decide), hnul⟩)
  exact ⟨code, st', he, cpyC07_of_all hg hp⟩

/-- the wide twin of `strcpy_s_C07_exact` (cells are `wchar_t`, limit `RSIZE_MAX_WSTR`, known object sizes in bytes) -/
theorem wcscpy_s_C07_exact (cfg : Cfg) (dest dmax src n : Nat) (destbos : Bos) (st : St)
    (hall : ∀ a, st.mapped a = true ∧ st.rd a = true)
    (hd : dest ≠ 0) (hs : src ≠ 0) (hne : dest ≠ src) (hpos : 0 < dmax) (hle : dmax ≤ RSIZE_MAX_WSTR)
    (hb : ∀ b, destbos = some b → dmax * SIZEOF_WCHAR_T ≤ b)
    (hrw : RW st dest dmax)
    (hnz : ∀ j, j < n → st.data (src + j) ≠ 0) (hnul : st.data (src + n) = 0) :
    ∃ code st', exec (wcscpy_s cfg dest dmax src destbos) st = .ok (code, st') ∧
      CpyC07 cfg dest dmax src n st st' code := by
  obtain ⟨g, hg⟩ := gap_of dest src
  rw [wcscpy_s_eq_body cfg dest dmax src destbos hd hs hne hpos hle hb]
  obtain ⟨code, st', he, hp⟩ := cpyBody_cases cfg false dest dmax src n g 0 st hall hpos hrw hg hnz
    (Or.inl ⟨fun h => absurd h (by decide), hnul⟩)
  exact ⟨code, st', he, cpyC07_of_all hg hp⟩

/-- what the bounded copies deliver, from the loop analysis: the exact characterisation and the behaviour on operands
that are disjoint as objects -/
def NcpyC07 (cfg : Cfg) (dest dmax src slen m : Nat) (st st' : St) (code : Nat) : Prop :=
  CpyC07 cfg dest dmax src m st st' code ∧
  ((dest + dmax ≤ src ∨ (m < slen ∧ src + m + 1 ≤ dest) ∨ (slen = m ∧ src + m ≤ dest)) →
    (code = ESOVRLP ↔ slen = m ∧ src + m = dest ∧ m < dmax))

private theorem ncpyC07_of_all {cfg : Cfg} {dest dmax src slen m g : Nat} {st st' : St} {code : Nat}
    (hpos : 0 < dmax)
    (hg : (dest < src ∧ src = dest + g) ∨ (src ≤ dest ∧ dest = src + g))
    (h : CopyAll cfg dest dmax dest dmax src m g st st' code) : NcpyC07 cfg dest dmax src slen m st st' code := by
  refine ⟨cpyC07_of_all hg h, fun hdisj => ?_⟩
  have hiff := h.ovrlp_iff
  exact ⟨fun hc => by have := hiff.1 hc; omega, fun hh => hiff.2 (by omega)⟩

private theorem strncpy_s_run (cfg : Cfg) (dest dmax src slen m : Nat) (destbos srcbos : Bos) (st : St)
    (hall : ∀ a, st.mapped a = true ∧ st.rd a = true)
    (hd : dest ≠ 0) (hs : src ≠ 0) (hpos : 0 < dmax) (hle : dmax ≤ RSIZE_MAX_STR)
    (hslen : 0 < slen) (hslenle : slen ≤ RSIZE_MAX_STR)
    (hb : ∀ b, destbos = some b → dmax ≤ b) (hsb : ∀ sb, srcbos = some sb → slen ≤ sb)
    (hrw : RW st dest dmax)
    (hnz : ∀ j, j < m → st.data (src + j) ≠ 0)
    (hfin : (m < slen ∧ st.data (src + m) = 0) ∨ slen = m) :
    ∃ code st', exec (strncpy_s cfg dest dmax src slen destbos srcbos) st = .ok (code, st') ∧
      NcpyC07 cfg dest dmax src slen m st st' code := by
  obtain ⟨g, hg⟩ := gap_of dest src
  unfold strncpy_s
  rw [strncpyG_eq_body _ cfg dest dmax src slen destbos srcbos hd hs hpos hle hslen hslenle hb hsb]
  obtain ⟨code, st', he, hp⟩ := cpyBody_cases cfg true dest dmax src m g slen st hall hpos hrw hg hnz
    (hfin.elim (fun h => Or.inl ⟨fun _ => h.1, h.2⟩) (fun h => Or.inr ⟨rfl, h⟩))
  exact ⟨code, st', he, ncpyC07_of_all hpos hg hp⟩

private theorem wcsncpy_s_run (cfg : Cfg) (dest dmax src slen m : Nat) (destbos srcbos : Bos) (st : St)
    (hall : ∀ a, st.mapped a = true ∧ st.rd a = true)
    (hd : dest ≠ 0) (hs : src ≠ 0) (hpos : 0 < dmax) (hle : dmax ≤ RSIZE_MAX_WSTR)
    (hslen : 0 < slen) (hslenle : slen ≤ RSIZE_MAX_WSTR)
    (hb : ∀ b, destbos = some b → dmax * SIZEOF_WCHAR_T ≤ b)
    (hsb : ∀ sb, srcbos = some sb → slen * SIZEOF_WCHAR_T ≤ sb)
    (hrw : RW st dest dmax)
    (hnz : ∀ j, j < m → st.data (src + j) ≠ 0)
    (hfin : (m < slen ∧ st.data (src + m) = 0) ∨ slen = m) :
    ∃ code st', exec (wcsncpy_s cfg dest dmax src slen destbos srcbos) st = .ok (code, st') ∧
      NcpyC07 cfg dest dmax src slen m st st' code := by
  obtain ⟨g, hg⟩ := gap_of dest src
  rw [wcsncpy_s_eq_body cfg dest dmax src slen destbos srcbos hd hs hpos hle hslen hslenle hb hsb]
  obtain ⟨code, st', he, hp⟩ := cpyBody_cases cfg true dest dmax src m g slen st hall hpos hrw hg hnz
    (hfin.elim (fun h => Or.inl ⟨fun _ => h.1, h.2⟩) (fun h => Or.inr ⟨rfl, h⟩))
  exact ⟨code, st', he, ncpyC07_of_all hpos hg hp⟩

/-- **strncpy_s: ESOVRLP exactly when the `min (m+1) dmax` cells starting at the two pointers meet** (identical
pointers included: always), `m = min(slen, strlen src)`, `0 < slen` -/
theorem strncpy_s_C07_exact (cfg : Cfg) (dest dmax src slen m : Nat) (destbos srcbos : Bos) (st : St)
    (hall : ∀ a, st.mapped a = true ∧ st.rd a = true)
    (hd : dest ≠ 0) (hs : src ≠ 0) (hpos : 0 < dmax) (hle : dmax ≤ RSIZE_MAX_STR)
    (hslen : 0 < slen) (hslenle : slen ≤ RSIZE_MAX_STR)
    (hb : ∀ b, destbos = some b → dmax ≤ b) (hsb : ∀ sb, srcbos = some sb → slen ≤ sb)
    (hrw : RW st dest dmax)
    (hnz : ∀ j, j < m → st.data (src + j) ≠ 0)
    (hfin : (m < slen ∧ st.data (src + m) = 0) ∨ slen = m) :
    ∃ code st', exec (strncpy_s cfg dest dmax src slen destbos srcbos) st = .ok (code, st') ∧
      CpyC07 cfg dest dmax src m st st' code := by
  obtain ⟨code, st', he, hp⟩ := strncpy_s_run cfg dest dmax src slen m destbos srcbos st hall hd hs hpos hle hslen
    hslenle hb hsb hrw hnz hfin
  exact ⟨code, st', he, hp.1⟩

/-- the wide twin of `strncpy_s_C07_exact` (cells are `wchar_t`, limit `RSIZE_MAX_WSTR`, known object sizes in bytes) -/
theorem wcsncpy_s_C07_exact (cfg : Cfg) (dest dmax src slen m : Nat) (destbos srcbos : Bos) (st : St)
    (hall : ∀ a, st.mapped a = true ∧ st.rd a = true)
    (hd : dest ≠ 0) (hs : src ≠ 0) (hpos : 0 < dmax) (hle : dmax ≤ RSIZE_MAX_WSTR)
    (hslen : 0 < slen) (hslenle : slen ≤ RSIZE_MAX_WSTR)
    (hb : ∀ b, destbos = some b → dmax * SIZEOF_WCHAR_T ≤ b)
    (hsb : ∀ sb, srcbos = some sb → slen * SIZEOF_WCHAR_T ≤ sb)
    (hrw : RW st dest dmax)
    (hnz : ∀ j, j < m → st.data (src + j) ≠ 0)
    (hfin : (m < slen ∧ st.data (src + m) = 0) ∨ slen = m) :
    ∃ code st', exec (wcsncpy_s cfg dest dmax src slen destbos srcbos) st = .ok (code, st') ∧
      CpyC07 cfg dest dmax src m st st' code := by
  obtain ⟨code, st', he, hp⟩ := wcsncpy_s_run cfg dest dmax src slen m destbos srcbos st hall hd hs hpos hle hslen
    hslenle hb hsb hrw hnz hfin
  exact ⟨code, st', he, hp.1⟩

/-- **strncpy_s on operands that are disjoint as objects** (the `dmax` cells of dest; the source cells READ: `m + 1`
when the terminator is read, `m` when `slen = m` runs out): they are rejected exactly when `slen = m`, the `slen`
source characters end exactly at dest and the loop gets that far (`m < dmax`) -/
theorem strncpy_s_C07_disjoint_iff (cfg : Cfg) (dest dmax src slen m : Nat) (destbos srcbos : Bos) (st : St)
    (hall : ∀ a, st.mapped a = true ∧ st.rd a = true)
    (hd : dest ≠ 0) (hs : src ≠ 0) (hpos : 0 < dmax) (hle : dmax ≤ RSIZE_MAX_STR)
    (hslen : 0 < slen) (hslenle : slen ≤ RSIZE_MAX_STR)
    (hb : ∀ b, destbos = some b → dmax ≤ b) (hsb : ∀ sb, srcbos = some sb → slen ≤ sb)
    (hrw : RW st dest dmax)
    (hnz : ∀ j, j < m → st.data (src + j) ≠ 0)
    (hfin : (m < slen ∧ st.data (src + m) = 0) ∨ slen = m)
    (hdisj : dest + dmax ≤ src ∨ (m < slen ∧ src + m + 1 ≤ dest) ∨ (slen = m ∧ src + m ≤ dest)) :
    ∃ code st', exec (strncpy_s cfg dest dmax src slen destbos srcbos) st = .ok (code, st') ∧
      (code = ESOVRLP ↔ slen = m ∧ src + m = dest ∧ m < dmax) := by
  obtain ⟨code, st', he, hp⟩ := strncpy_s_run cfg dest dmax src slen m destbos srcbos st hall hd hs hpos hle hslen
    hslenle hb hsb hrw hnz hfin
  exact ⟨code, st', he, hp.2 hdisj⟩

/-- the wide twin of `strncpy_s_C07_disjoint_iff` (cells are `wchar_t`, limit `RSIZE_MAX_WSTR`, known object sizes in bytes) -/
theorem wcsncpy_s_C07_disjoint_iff (cfg : Cfg) (dest dmax src slen m : Nat) (destbos srcbos : Bos) (st : St)
    (hall : ∀ a, st.mapped a = true ∧ st.rd a = true)
    (hd : dest ≠ 0) (hs : src ≠ 0) (hpos : 0 < dmax) (hle : dmax ≤ RSIZE_MAX_WSTR)
    (hslen : 0 < slen) (hslenle : slen ≤ RSIZE_MAX_WSTR)
    (hb : ∀ b, destbos = some b → dmax * SIZEOF_WCHAR_T ≤ b)
    (hsb : ∀ sb, srcbos = some sb → slen * SIZEOF_WCHAR_T ≤ sb)
    (hrw : RW st dest dmax)
    (hnz : ∀ j, j < m → st.data (src + j) ≠ 0)
    (hfin : (m < slen ∧ st.data (src + m) = 0) ∨ slen = m)
    (hdisj : dest + dmax ≤ src ∨ (m < slen ∧ src + m + 1 ≤ dest) ∨ (slen = m ∧ src + m ≤ dest)) :
    ∃ code st', exec (wcsncpy_s cfg dest dmax src slen destbos srcbos) st = .ok (code, st') ∧
      (code = ESOVRLP ↔ slen = m ∧ src + m = dest ∧ m < dmax) := by
  obtain ⟨code, st', he, hp⟩ := wcsncpy_s_run cfg dest dmax src slen m destbos srcbos st hall hd hs hpos hle hslen
    hslenle hb hsb hrw hnz hfin
  exact ⟨code, st', he, hp.2 hdisj⟩

/- FULL statement `strncpy_s_C07_disjoint` (false of the model): the hypotheses of `strncpy_s_C07_disjoint_iff`
(operands disjoint as objects) ⇒ `code ≠ ESOVRLP`.  By `strncpy_s_C07_disjoint_iff` it fails exactly at
`slen = m ∧ src + m = dest ∧ m < dmax`; the same for `wcsncpy_s`. -/

/-- **strncpy_s never rejects operands that are disjoint as objects**, except for a source whose `slen` characters end
exactly at dest (hypothesis `hex`: exactly the point `strncpy_s_C07_disjoint_iff` names) -/
theorem strncpy_s_C07_disjoint_partial (cfg : Cfg) (dest dmax src slen m : Nat) (destbos srcbos : Bos) (st : St)
    (hall : ∀ a, st.mapped a = true ∧ st.rd a = true)
    (hd : dest ≠ 0) (hs : src ≠ 0) (hpos : 0 < dmax) (hle : dmax ≤ RSIZE_MAX_STR)
    (hslen : 0 < slen) (hslenle : slen ≤ RSIZE_MAX_STR)
    (hb : ∀ b, destbos = some b → dmax ≤ b) (hsb : ∀ sb, srcbos = some sb → slen ≤ sb)
    (hrw : RW st dest dmax)
    (hnz : ∀ j, j < m → st.data (src + j) ≠ 0)
    (hfin : (m < slen ∧ st.data (src + m) = 0) ∨ slen = m)
    (hdisj : dest + dmax ≤ src ∨ (m < slen ∧ src + m + 1 ≤ dest) ∨ (slen = m ∧ src + m ≤ dest))
    (hex : ¬ (slen = m ∧ src + m = dest ∧ m < dmax)) :
    ∃ code st', exec (strncpy_s cfg dest dmax src slen destbos srcbos) st = .ok (code, st') ∧ code ≠ ESOVRLP := by
  obtain ⟨code, st', he, hp⟩ := strncpy_s_run cfg dest dmax src slen m destbos srcbos st hall hd hs hpos hle hslen
    hslenle hb hsb hrw hnz hfin
  exact ⟨code, st', he, fun hc => hex ((hp.2 hdisj).1 hc)⟩

/-- the wide twin of `strncpy_s_C07_disjoint_partial` (cells are `wchar_t`, limit `RSIZE_MAX_WSTR`, known object sizes in bytes) -/
theorem wcsncpy_s_C07_disjoint_partial (cfg : Cfg) (dest dmax src slen m : Nat) (destbos srcbos : Bos) (st : St)
    (hall : ∀ a, st.mapped a = true ∧ st.rd a = true)
    (hd : dest ≠ 0) (hs : src ≠ 0) (hpos : 0 < dmax) (hle : dmax ≤ RSIZE_MAX_WSTR)
    (hslen : 0 < slen) (hslenle : slen ≤ RSIZE_MAX_WSTR)
    (hb : ∀ b, destbos = some b → dmax * SIZEOF_WCHAR_T ≤ b)
    (hsb : ∀ sb, srcbos = some sb → slen * SIZEOF_WCHAR_T ≤ sb)
    (hrw : RW st dest dmax)
    (hnz : ∀ j, j < m → st.data (src + j) ≠ 0)
    (hfin : (m < slen ∧ st.data (src + m) = 0) ∨ slen = m)
    (hdisj : dest + dmax ≤ src ∨ (m < slen ∧ src + m + 1 ≤ dest) ∨ (slen = m ∧ src + m ≤ dest))
    (hex : ¬ (slen = m ∧ src + m = dest ∧ m < dmax)) :
    ∃ code st', exec (wcsncpy_s cfg dest dmax src slen destbos srcbos) st = .ok (code, st') ∧ code ≠ ESOVRLP := by
  obtain ⟨code, st', he, hp⟩ := wcsncpy_s_run cfg dest dmax src slen m destbos srcbos st hall hd hs hpos hle hslen
    hslenle hb hsb hrw hnz hfin
  exact ⟨code, st', he, fun hc => hex ((hp.2 hdisj).1 hc)⟩

/-- the excluded point (`endSt`: `a[4] = 'x'` at 104, dest = `a + 5`, 2 cells): `strncpy_s(a+5, 2, a+4, 1)` —
`slen = m = 1`, `src + m = dest`, `m < dmax`: the hypotheses of `strncpy_s_C07_disjoint_iff` hold, ESOVRLP — **listed**:
`bounded-copy-src-ends-at-dest` -/
theorem strncpy_s_C07_disjoint_witness :
    ((1 : Nat) = 1 ∧ (104 : Nat) + 1 ≤ 105) ∧ endSt.data (104 + 0) ≠ 0 ∧
      retCode (exec (strncpy_s {} 105 2 104 1 none none) endSt) = some ESOVRLP := by
  decide

/-- the wide twin of `strncpy_s_C07_disjoint_witness` (cells are `wchar_t`, limit `RSIZE_MAX_WSTR`, known object sizes in bytes) -/
theorem wcsncpy_s_C07_disjoint_witness :
    ((1 : Nat) = 1 ∧ (104 : Nat) + 1 ≤ 105) ∧ endSt.data (104 + 0) ≠ 0 ∧
      retCode (exec (wcsncpy_s {} 105 2 104 1 none none) endSt) = some ESOVRLP := by
  decide

/-- non-vacuity of the `_partial` theorems: `endSt`, the same source copied to a dest one cell further (`a + 6`):
`slen = m = 1`, `src + m < dest` -/
example : (∀ a, endSt.mapped a = true ∧ endSt.rd a = true) ∧ RW endSt 106 1 ∧
    (∀ j, j < 1 → endSt.data (104 + j) ≠ 0) ∧ ((1 : Nat) = 1 ∧ (104 : Nat) + 1 ≤ 106) ∧
    ¬ ((1 : Nat) = 1 ∧ (104 : Nat) + 1 = 106 ∧ 1 < 1) := by
  refine ⟨fun _ => ⟨rfl, rfl⟩, fun i hi => ⟨rfl, ?_, rfl⟩, ?_, by decide, by decide⟩
  · simp [endSt]; omega
  · intro j hj
    have : j = 0 := by omega
    subst this; decide

/-- non-vacuity of the `_exact` theorems: source "x" at 104, dest = the 2 cells at 105 (the terminator read is dest[0]) — ESOVRLP -/
example : retCode (exec (strcpy_s {} 105 2 104 none) endSt) = some ESOVRLP := by decide

/-! ## the concatenations -/

/-- the conclusion shared by the four concatenations: `dl` = old length of dest, `m` characters appended -/
def CatC07 (cfg : Cfg) (dest dmax dl src m : Nat) (st st' : St) (code : Nat) : Prop :=
  (code = ESOVRLP ↔ ¬ (dest + dl + min (m+1) (dmax - dl) ≤ src ∨ src + min (m+1) (dmax - dl) ≤ dest)) ∧
  (code = ESOVRLP → OvrlpPost cfg dest dmax st st')

/-- … and, for the bounded ones, the behaviour on operands that are disjoint as objects -/
def NcatC07 (cfg : Cfg) (dest dmax dl src slen m : Nat) (st st' : St) (code : Nat) : Prop :=
  CatC07 cfg dest dmax dl src m st st' code ∧
  ((dest + dmax ≤ src ∨ (m < slen ∧ src + m + 1 ≤ dest) ∨ (slen = m ∧ src + m ≤ dest)) →
    (code = ESOVRLP ↔ slen = m ∧ src + m = dest ∧ dl + m < dmax))

private theorem cat_ovrlp_iff {cfg : Cfg} {dest dmax dl src m : Nat} {st st' : St} {code : Nat}
    (hdl : dl < dmax) (h : CatAll cfg dest dmax dl src m st st' code) :
    code = ESOVRLP ↔ ((dest < src ∧ src ≤ dest + dl) ∨ (dest + dl < src ∧ src ≤ dest + dl + m ∧ src < dest + dmax) ∨
      (src ≤ dest ∧ dest ≤ src + m ∧ dest + dl < src + dmax)) := by
  by_cases hA : (dest < src ∧ src ≤ dest + dl) ∨ (dest + dl < src ∧ src ≤ dest + dl + m ∧ src < dest + dmax) ∨
      (src ≤ dest ∧ dest ≤ src + m ∧ dest + dl < src + dmax)
  · exact ⟨fun _ => hA, fun _ => (h.hit hA).1⟩
  by_cases hB : dl + m < dmax
  · rw [(h.done hB (by omega)).1]
    exact ⟨fun hc => absurd (show EOK = ESOVRLP from hc) (by decide), fun hc => absurd hc hA⟩
  · rw [(h.full (by omega) (by omega)).1]
    exact ⟨fun hc => absurd hc (by decide), fun hc => absurd hc hA⟩

private theorem catC07_of_all {cfg : Cfg} {dest dmax dl src m : Nat} {st st' : St} {code : Nat}
    (hdl : dl < dmax) (h : CatAll cfg dest dmax dl src m st st' code) : CatC07 cfg dest dmax dl src m st st' code := by
  have hiff := cat_ovrlp_iff hdl h
  refine ⟨⟨fun hc => by have := hiff.1 hc; omega, fun hh => hiff.2 (by omega)⟩, fun hc => ?_⟩
  exact (h.hit (hiff.1 hc)).2.ovrlp

private theorem ncatC07_of_all {cfg : Cfg} {dest dmax dl src slen m : Nat} {st st' : St} {code : Nat}
    (hdl : dl < dmax) (h : CatAll cfg dest dmax dl src m st st' code) :
    NcatC07 cfg dest dmax dl src slen m st st' code := by
  refine ⟨catC07_of_all hdl h, fun hdisj => ?_⟩
  have hiff := cat_ovrlp_iff hdl h
  exact ⟨fun hc => by have := hiff.1 hc; omega, fun hh => hiff.2 (by omega)⟩

/-- **disjoint operands are never rejected by the concatenations** when the source terminator is read (`strcat_s`,
`wcscat_s`, the bounded ones when `m < slen`) -/
theorem catC07_disjoint_not_rejected {cfg : Cfg} {dest dmax dl src m : Nat} {st st' : St} {code : Nat}
    (hdl : dl < dmax) (h : CatC07 cfg dest dmax dl src m st st' code)
    (hdisj : dest + dmax ≤ src ∨ src + m + 1 ≤ dest) : code ≠ ESOVRLP := by
  intro hc
  have := h.1.1 hc
  omega

/-- **strcat_s: ESOVRLP exactly when `src` lies inside the dest string or the cells appended meet the source cells** —
dest string of length `dl < dmax`, source string of length `n` at any address (identical pointers included) -/
theorem strcat_s_C07_exact (cfg : Cfg) (dest dmax src dl n : Nat) (destbos : Bos) (st : St)
    (hall : ∀ a, st.mapped a = true ∧ st.rd a = true)
    (hd : dest ≠ 0) (hs : src ≠ 0) (hpos : 0 < dmax) (hle : dmax ≤ RSIZE_MAX_STR)
    (hb : ∀ b, destbos = some b → dmax ≤ b)
    (hrw : RW st dest dmax)
    (hdl : dl < dmax) (hdnz : ∀ j, j < dl → st.data (dest + j) ≠ 0) (hdnul : st.data (dest + dl) = 0)
    (hnz : ∀ j, j < n → st.data (src + j) ≠ 0) (hnul : st.data (src + n) = 0) :
    ∃ code st', exec (strcat_s cfg dest dmax src destbos) st = .ok (code, st') ∧
      CatC07 cfg dest dmax dl src n st st' code := by
  unfold strcat_s
  rw [strcatG_eq_body _ cfg dest dmax src destbos hd hs hpos hle hb]
  obtain ⟨code, st', he, hp⟩ := catBody_cases cfg false dest dmax src dl n 0 st hall hpos hrw hdl hdnz hdnul hnz
    (Or.inl ⟨fun h => absurd h (by decide), hnul⟩)
  exact ⟨code, st', he, catC07_of_all hdl hp⟩

/-- the wide twin of `strcat_s_C07_exact` (cells are `wchar_t`, limit `RSIZE_MAX_WSTR`, known object sizes in bytes) -/
theorem wcscat_s_C07_exact (cfg : Cfg) (dest dmax src dl n : Nat) (destbos : Bos) (st : St)
    (hall : ∀ a, st.mapped a = true ∧ st.rd a = true)
    (hd : dest ≠ 0) (hs : src ≠ 0) (hpos : 0 < dmax) (hle : dmax ≤ RSIZE_MAX_WSTR)
    (hb : ∀ b, destbos = some b → dmax * SIZEOF_WCHAR_T ≤ b)
    (hrw : RW st dest dmax)
    (hdl : dl < dmax) (hdnz : ∀ j, j < dl → st.data (dest + j) ≠ 0) (hdnul : st.data (dest + dl) = 0)
    (hnz : ∀ j, j < n → st.data (src + j) ≠ 0) (hnul : st.data (src + n) = 0) :
    ∃ code st', exec (wcscat_s cfg dest dmax src destbos) st = .ok (code, st') ∧
      CatC07 cfg dest dmax dl src n st st' code := by
  rw [wcscat_s_eq_body cfg dest dmax src destbos hd hs hpos hle hb]
  obtain ⟨code, st', he, hp⟩ := catBody_cases cfg false dest dmax src dl n 0 st hall hpos hrw hdl hdnz hdnul hnz
    (Or.inl ⟨fun h => absurd h (by decide), hnul⟩)
  exact ⟨code, st', he, catC07_of_all hdl hp⟩

private theorem strncat_s_run (cfg : Cfg) (dest dmax src slen dl m : Nat) (destbos srcbos : Bos) (st : St)
    (hall : ∀ a, st.mapped a = true ∧ st.rd a = true)
    (hd : dest ≠ 0) (hs : src ≠ 0) (hpos : 0 < dmax) (hle : dmax ≤ RSIZE_MAX_STR)
    (hslen : 0 < slen) (hslenle : slen ≤ RSIZE_MAX_STR)
    (hb : ∀ b, destbos = some b → dmax ≤ b) (hsb : ∀ sb, srcbos = some sb → slen ≤ sb)
    (hrw : RW st dest dmax)
    (hdl : dl < dmax) (hdnz : ∀ j, j < dl → st.data (dest + j) ≠ 0) (hdnul : st.data (dest + dl) = 0)
    (hnz : ∀ j, j < m → st.data (src + j) ≠ 0)
    (hfin : (m < slen ∧ st.data (src + m) = 0) ∨ slen = m) :
    ∃ code st', exec (strncat_s cfg dest dmax src slen destbos srcbos) st = .ok (code, st') ∧
      NcatC07 cfg dest dmax dl src slen m st st' code := by
  unfold strncat_s
  rw [strncatG_eq_body _ cfg dest dmax src slen destbos srcbos hd hs hpos hle hslen hslenle hb hsb]
  obtain ⟨code, st', he, hp⟩ := catBody_cases cfg true dest dmax src dl m slen st hall hpos hrw hdl hdnz hdnul hnz
    (hfin.elim (fun h => Or.inl ⟨fun _ => h.1, h.2⟩) (fun h => Or.inr ⟨rfl, h⟩))
  exact ⟨code, st', he, ncatC07_of_all hdl hp⟩

private theorem wcsncat_s_run (cfg : Cfg) (dest dmax src slen dl m : Nat) (destbos srcbos : Bos) (st : St)
    (hall : ∀ a, st.mapped a = true ∧ st.rd a = true)
    (hd : dest ≠ 0) (hs : src ≠ 0) (hpos : 0 < dmax) (hle : dmax ≤ RSIZE_MAX_WSTR)
    (hslen : 0 < slen) (hslenle : slen ≤ RSIZE_MAX_WSTR)
    (hb : ∀ b, destbos = some b → dmax * SIZEOF_WCHAR_T ≤ b)
    (hsb : ∀ sb, srcbos = some sb → slen * SIZEOF_WCHAR_T ≤ sb)
    (hrw : RW st dest dmax)
    (hdl : dl < dmax) (hdnz : ∀ j, j < dl → st.data (dest + j) ≠ 0) (hdnul : st.data (dest + dl) = 0)
    (hnz : ∀ j, j < m → st.data (src + j) ≠ 0)
    (hfin : (m < slen ∧ st.data (src + m) = 0) ∨ slen = m) :
    ∃ code st', exec (wcsncat_s cfg dest dmax src slen destbos srcbos) st = .ok (code, st') ∧
      NcatC07 cfg dest dmax dl src slen m st st' code := by
  rw [wcsncat_s_eq_body cfg dest dmax src slen destbos srcbos hd hs hpos hle hslen hslenle hb hsb]
  obtain ⟨code, st', he, hp⟩ := catBody_cases cfg true dest dmax src dl m slen st hall hpos hrw hdl hdnz hdnul hnz
    (hfin.elim (fun h => Or.inl ⟨fun _ => h.1, h.2⟩) (fun h => Or.inr ⟨rfl, h⟩))
  exact ⟨code, st', he, ncatC07_of_all hdl hp⟩

/-- **strncat_s: ESOVRLP exactly when `src` lies inside the dest string or the `min (m+1) (dmax-dl)` cells appended and
read meet**, `m = min(slen, strlen src)`, `0 < slen` -/
theorem strncat_s_C07_exact (cfg : Cfg) (dest dmax src slen dl m : Nat) (destbos srcbos : Bos) (st : St)
    (hall : ∀ a, st.mapped a = true ∧ st.rd a = true)
    (hd : dest ≠ 0) (hs : src ≠ 0) (hpos : 0 < dmax) (hle : dmax ≤ RSIZE_MAX_STR)
    (hslen : 0 < slen) (hslenle : slen ≤ RSIZE_MAX_STR)
    (hb : ∀ b, destbos = some b → dmax ≤ b) (hsb : ∀ sb, srcbos = some sb → slen ≤ sb)
    (hrw : RW st dest dmax)
    (hdl : dl < dmax) (hdnz : ∀ j, j < dl → st.data (dest + j) ≠ 0) (hdnul : st.data (dest + dl) = 0)
    (hnz : ∀ j, j < m → st.data (src + j) ≠ 0)
    (hfin : (m < slen ∧ st.data (src + m) = 0) ∨ slen = m) :
    ∃ code st', exec (strncat_s cfg dest dmax src slen destbos srcbos) st = .ok (code, st') ∧
      CatC07 cfg dest dmax dl src m st st' code := by
  obtain ⟨code, st', he, hp⟩ := strncat_s_run cfg dest dmax src slen dl m destbos srcbos st hall hd hs hpos hle hslen
    hslenle hb hsb hrw hdl hdnz hdnul hnz hfin
  exact ⟨code, st', he, hp.1⟩

/-- the wide twin of `strncat_s_C07_exact` (cells are `wchar_t`, limit `RSIZE_MAX_WSTR`, known object sizes in bytes) -/
theorem wcsncat_s_C07_exact (cfg : Cfg) (dest dmax src slen dl m : Nat) (destbos srcbos : Bos) (st : St)
    (hall : ∀ a, st.mapped a = true ∧ st.rd a = true)
    (hd : dest ≠ 0) (hs : src ≠ 0) (hpos : 0 < dmax) (hle : dmax ≤ RSIZE_MAX_WSTR)
    (hslen : 0 < slen) (hslenle : slen ≤ RSIZE_MAX_WSTR)
    (hb : ∀ b, destbos = some b → dmax * SIZEOF_WCHAR_T ≤ b)
    (hsb : ∀ sb, srcbos = some sb → slen * SIZEOF_WCHAR_T ≤ sb)
    (hrw : RW st dest dmax)
    (hdl : dl < dmax) (hdnz : ∀ j, j < dl → st.data (dest + j) ≠ 0) (hdnul : st.data (dest + dl) = 0)
    (hnz : ∀ j, j < m → st.data (src + j) ≠ 0)
    (hfin : (m < slen ∧ st.data (src + m) = 0) ∨ slen = m) :
    ∃ code st', exec (wcsncat_s cfg dest dmax src slen destbos srcbos) st = .ok (code, st') ∧
      CatC07 cfg dest dmax dl src m st st' code := by
  obtain ⟨code, st', he, hp⟩ := wcsncat_s_run cfg dest dmax src slen dl m destbos srcbos st hall hd hs hpos hle hslen
    hslenle hb hsb hrw hdl hdnz hdnul hnz hfin
  exact ⟨code, st', he, hp.1⟩

/-- **strncat_s on operands that are disjoint as objects**: rejected exactly when `slen = m`, the `slen` source
characters end exactly at dest and the loop gets that far (`dl + m < dmax`) -/
theorem strncat_s_C07_disjoint_iff (cfg : Cfg) (dest dmax src slen dl m : Nat) (destbos srcbos : Bos) (st : St)
    (hall : ∀ a, st.mapped a = true ∧ st.rd a = true)
    (hd : dest ≠ 0) (hs : src ≠ 0) (hpos : 0 < dmax) (hle : dmax ≤ RSIZE_MAX_STR)
    (hslen : 0 < slen) (hslenle : slen ≤ RSIZE_MAX_STR)
    (hb : ∀ b, destbos = some b → dmax ≤ b) (hsb : ∀ sb, srcbos = some sb → slen ≤ sb)
    (hrw : RW st dest dmax)
    (hdl : dl < dmax) (hdnz : ∀ j, j < dl → st.data (dest + j) ≠ 0) (hdnul : st.data (dest + dl) = 0)
    (hnz : ∀ j, j < m → st.data (src + j) ≠ 0)
    (hfin : (m < slen ∧ st.data (src + m) = 0) ∨ slen = m)
    (hdisj : dest + dmax ≤ src ∨ (m < slen ∧ src + m + 1 ≤ dest) ∨ (slen = m ∧ src + m ≤ dest)) :
    ∃ code st', exec (strncat_s cfg dest dmax src slen destbos srcbos) st = .ok (code, st') ∧
      (code = ESOVRLP ↔ slen = m ∧ src + m = dest ∧ dl + m < dmax) := by
  obtain ⟨code, st', he, hp⟩ := strncat_s_run cfg dest dmax src slen dl m destbos srcbos st hall hd hs hpos hle hslen
    hslenle hb hsb hrw hdl hdnz hdnul hnz hfin
  exact ⟨code, st', he, hp.2 hdisj⟩

/-- the wide twin of `strncat_s_C07_disjoint_iff` (cells are `wchar_t`, limit `RSIZE_MAX_WSTR`, known object sizes in bytes) -/
theorem wcsncat_s_C07_disjoint_iff (cfg : Cfg) (dest dmax src slen dl m : Nat) (destbos srcbos : Bos) (st : St)
    (hall : ∀ a, st.mapped a = true ∧ st.rd a = true)
    (hd : dest ≠ 0) (hs : src ≠ 0) (hpos : 0 < dmax) (hle : dmax ≤ RSIZE_MAX_WSTR)
    (hslen : 0 < slen) (hslenle : slen ≤ RSIZE_MAX_WSTR)
    (hb : ∀ b, destbos = some b → dmax * SIZEOF_WCHAR_T ≤ b)
    (hsb : ∀ sb, srcbos = some sb → slen * SIZEOF_WCHAR_T ≤ sb)
    (hrw : RW st dest dmax)
    (hdl : dl < dmax) (hdnz : ∀ j, j < dl → st.data (dest + j) ≠ 0) (hdnul : st.data (dest + dl) = 0)
    (hnz : ∀ j, j < m → st.data (src + j) ≠ 0)
    (hfin : (m < slen ∧ st.data (src + m) = 0) ∨ slen = m)
    (hdisj : dest + dmax ≤ src ∨ (m < slen ∧ src + m + 1 ≤ dest) ∨ (slen = m ∧ src + m ≤ dest)) :
    ∃ code st', exec (wcsncat_s cfg dest dmax src slen destbos srcbos) st = .ok (code, st') ∧
      (code = ESOVRLP ↔ slen = m ∧ src + m = dest ∧ dl + m < dmax) := by
  obtain ⟨code, st', he, hp⟩ := wcsncat_s_run cfg dest dmax src slen dl m destbos srcbos st hall hd hs hpos hle hslen
    hslenle hb hsb hrw hdl hdnz hdnul hnz hfin
  exact ⟨code, st', he, hp.2 hdisj⟩

/- FULL statement `strncat_s_C07_disjoint` (false of the model): the hypotheses of `strncat_s_C07_disjoint_iff` ⇒
`code ≠ ESOVRLP`; fails exactly at `slen = m ∧ src + m = dest ∧ dl + m < dmax`; the same for `wcsncat_s`. -/

/-- **strncat_s never rejects operands that are disjoint as objects**, except for a source whose `slen` characters end
exactly at dest (hypothesis `hex`: exactly the point `strncat_s_C07_disjoint_iff` names) -/
theorem strncat_s_C07_disjoint_partial (cfg : Cfg) (dest dmax src slen dl m : Nat) (destbos srcbos : Bos) (st : St)
    (hall : ∀ a, st.mapped a = true ∧ st.rd a = true)
    (hd : dest ≠ 0) (hs : src ≠ 0) (hpos : 0 < dmax) (hle : dmax ≤ RSIZE_MAX_STR)
    (hslen : 0 < slen) (hslenle : slen ≤ RSIZE_MAX_STR)
    (hb : ∀ b, destbos = some b → dmax ≤ b) (hsb : ∀ sb, srcbos = some sb → slen ≤ sb)
    (hrw : RW st dest dmax)
    (hdl : dl < dmax) (hdnz : ∀ j, j < dl → st.data (dest + j) ≠ 0) (hdnul : st.data (dest + dl) = 0)
    (hnz : ∀ j, j < m → st.data (src + j) ≠ 0)
    (hfin : (m < slen ∧ st.data (src + m) = 0) ∨ slen = m)
    (hdisj : dest + dmax ≤ src ∨ (m < slen ∧ src + m + 1 ≤ dest) ∨ (slen = m ∧ src + m ≤ dest))
    (hex : ¬ (slen = m ∧ src + m = dest ∧ dl + m < dmax)) :
    ∃ code st', exec (strncat_s cfg dest dmax src slen destbos srcbos) st = .ok (code, st') ∧ code ≠ ESOVRLP := by
  obtain ⟨code, st', he, hp⟩ := strncat_s_run cfg dest dmax src slen dl m destbos srcbos st hall hd hs hpos hle hslen
    hslenle hb hsb hrw hdl hdnz hdnul hnz hfin
  exact ⟨code, st', he, fun hc => hex ((hp.2 hdisj).1 hc)⟩

/-- the wide twin of `strncat_s_C07_disjoint_partial` (cells are `wchar_t`, limit `RSIZE_MAX_WSTR`, known object sizes in bytes) -/
theorem wcsncat_s_C07_disjoint_partial (cfg : Cfg) (dest dmax src slen dl m : Nat) (destbos srcbos : Bos) (st : St)
    (hall : ∀ a, st.mapped a = true ∧ st.rd a = true)
    (hd : dest ≠ 0) (hs : src ≠ 0) (hpos : 0 < dmax) (hle : dmax ≤ RSIZE_MAX_WSTR)
    (hslen : 0 < slen) (hslenle : slen ≤ RSIZE_MAX_WSTR)
    (hb : ∀ b, destbos = some b → dmax * SIZEOF_WCHAR_T ≤ b)
    (hsb : ∀ sb, srcbos = some sb → slen * SIZEOF_WCHAR_T ≤ sb)
    (hrw : RW st dest dmax)
    (hdl : dl < dmax) (hdnz : ∀ j, j < dl → st.data (dest + j) ≠ 0) (hdnul : st.data (dest + dl) = 0)
    (hnz : ∀ j, j < m → st.data (src + j) ≠ 0)
    (hfin : (m < slen ∧ st.data (src + m) = 0) ∨ slen = m)
    (hdisj : dest + dmax ≤ src ∨ (m < slen ∧ src + m + 1 ≤ dest) ∨ (slen = m ∧ src + m ≤ dest))
    (hex : ¬ (slen = m ∧ src + m = dest ∧ dl + m < dmax)) :
    ∃ code st', exec (wcsncat_s cfg dest dmax src slen destbos srcbos) st = .ok (code, st') ∧ code ≠ ESOVRLP := by
  obtain ⟨code, st', he, hp⟩ := wcsncat_s_run cfg dest dmax src slen dl m destbos srcbos st hall hd hs hpos hle hslen
    hslenle hb hsb hrw hdl hdnz hdnul hnz hfin
  exact ⟨code, st', he, fun hc => hex ((hp.2 hdisj).1 hc)⟩

/-- the excluded point on `endSt`: `strncat_s(a+5, 2, a+4, 1)` with `a+5 = ""` (`dl = 0`), `slen = m = 1`,
`src + m = dest`, `dl + m < dmax`: ESOVRLP — **listed**: `bounded-copy-src-ends-at-dest` -/
theorem strncat_s_C07_disjoint_witness :
    ((1 : Nat) = 1 ∧ (104 : Nat) + 1 ≤ 105) ∧ endSt.data (104 + 0) ≠ 0 ∧ endSt.data (105 + 0) = 0 ∧
      retCode (exec (strncat_s {} 105 2 104 1 none none) endSt) = some ESOVRLP := by
  decide

/-- the wide twin of `strncat_s_C07_disjoint_witness` (cells are `wchar_t`, limit `RSIZE_MAX_WSTR`, known object sizes in bytes) -/
theorem wcsncat_s_C07_disjoint_witness :
    ((1 : Nat) = 1 ∧ (104 : Nat) + 1 ≤ 105) ∧ endSt.data (104 + 0) ≠ 0 ∧ endSt.data (105 + 0) = 0 ∧
      retCode (exec (wcsncat_s {} 105 2 104 1 none none) endSt) = some ESOVRLP := by
  decide

/-! ### dest without a terminator -/

/-- what the four concatenations do when dest holds no NUL in its `dmax` cells -/
def CatUnterm (cfg : Cfg) (dest dmax src : Nat) (st st' : St) (code : Nat) : Prop :=
  (code = if dest < src ∧ src < dest + dmax then ESOVRLP else ESUNTERM) ∧
  st'.data dest = 0 ∧ (cfg.slack = true → ∀ i, i < dmax → st'.data (dest + i) = 0) ∧
  st'.events = st.events ++ [.handler .str code] ∧ st'.strays = st.strays ∧
  (∀ a, ¬ (dest ≤ a ∧ a < dest + dmax) → st'.data a = st.data a)

private theorem catUnterm_of {cfg : Cfg} {bounded : Bool} {dest dmax src slen : Nat} {st : St}
    (hpos : 0 < dmax) (hrw : RW st dest dmax) (hdnz : ∀ j, j < dmax → st.data (dest + j) ≠ 0) :
    ∃ code st', exec (catBody cfg bounded dest dmax src slen) st = .ok (code, st') ∧
      CatUnterm cfg dest dmax src st st' code := by
  obtain ⟨code, st', he, hc, hp⟩ := catBody_unterm cfg bounded dest dmax src slen st hpos hrw hdnz
  exact ⟨code, st', he, hc, hp.2.2.1, hp.2.2.2.1, hp.2.1, hp.1, hp.2.2.2.2⟩

/-- **strcat_s, dest not terminated within `dmax`** (any src, any contents elsewhere; only dest needs to be mapped):
ESOVRLP exactly when the scan runs into `src`, else ESUNTERM; one handler call, dest cleared -/
theorem strcat_s_C07_unterm (cfg : Cfg) (dest dmax src : Nat) (destbos : Bos) (st : St)
    (hd : dest ≠ 0) (hs : src ≠ 0) (hpos : 0 < dmax) (hle : dmax ≤ RSIZE_MAX_STR)
    (hb : ∀ b, destbos = some b → dmax ≤ b)
    (hrw : RW st dest dmax) (hdnz : ∀ j, j < dmax → st.data (dest + j) ≠ 0) :
    ∃ code st', exec (strcat_s cfg dest dmax src destbos) st = .ok (code, st') ∧
      CatUnterm cfg dest dmax src st st' code := by
  unfold strcat_s
  rw [strcatG_eq_body _ cfg dest dmax src destbos hd hs hpos hle hb]
  exact catUnterm_of hpos hrw hdnz

/-- the wide twin of `strcat_s_C07_unterm` (cells are `wchar_t`, limit `RSIZE_MAX_WSTR`, known object sizes in bytes) -/
theorem wcscat_s_C07_unterm (cfg : Cfg) (dest dmax src : Nat) (destbos : Bos) (st : St)
    (hd : dest ≠ 0) (hs : src ≠ 0) (hpos : 0 < dmax) (hle : dmax ≤ RSIZE_MAX_WSTR)
    (hb : ∀ b, destbos = some b → dmax * SIZEOF_WCHAR_T ≤ b)
    (hrw : RW st dest dmax) (hdnz : ∀ j, j < dmax → st.data (dest + j) ≠ 0) :
    ∃ code st', exec (wcscat_s cfg dest dmax src destbos) st = .ok (code, st') ∧
      CatUnterm cfg dest dmax src st st' code := by
  rw [wcscat_s_eq_body cfg dest dmax src destbos hd hs hpos hle hb]
  exact catUnterm_of hpos hrw hdnz

/-- **strncat_s (`0 < slen`), dest not terminated within `dmax`**: as `strcat_s_C07_unterm` -/
theorem strncat_s_C07_unterm (cfg : Cfg) (dest dmax src slen : Nat) (destbos srcbos : Bos) (st : St)
    (hd : dest ≠ 0) (hs : src ≠ 0) (hpos : 0 < dmax) (hle : dmax ≤ RSIZE_MAX_STR)
    (hslen : 0 < slen) (hslenle : slen ≤ RSIZE_MAX_STR)
    (hb : ∀ b, destbos = some b → dmax ≤ b) (hsb : ∀ sb, srcbos = some sb → slen ≤ sb)
    (hrw : RW st dest dmax) (hdnz : ∀ j, j < dmax → st.data (dest + j) ≠ 0) :
    ∃ code st', exec (strncat_s cfg dest dmax src slen destbos srcbos) st = .ok (code, st') ∧
      CatUnterm cfg dest dmax src st st' code := by
  unfold strncat_s
  rw [strncatG_eq_body _ cfg dest dmax src slen destbos srcbos hd hs hpos hle hslen hslenle hb hsb]
  exact catUnterm_of hpos hrw hdnz

/-- the wide twin of `strncat_s_C07_unterm` (cells are `wchar_t`, limit `RSIZE_MAX_WSTR`, known object sizes in bytes) -/
theorem wcsncat_s_C07_unterm (cfg : Cfg) (dest dmax src slen : Nat) (destbos srcbos : Bos) (st : St)
    (hd : dest ≠ 0) (hs : src ≠ 0) (hpos : 0 < dmax) (hle : dmax ≤ RSIZE_MAX_WSTR)
    (hslen : 0 < slen) (hslenle : slen ≤ RSIZE_MAX_WSTR)
    (hb : ∀ b, destbos = some b → dmax * SIZEOF_WCHAR_T ≤ b)
    (hsb : ∀ sb, srcbos = some sb → slen * SIZEOF_WCHAR_T ≤ sb)
    (hrw : RW st dest dmax) (hdnz : ∀ j, j < dmax → st.data (dest + j) ≠ 0) :
    ∃ code st', exec (wcsncat_s cfg dest dmax src slen destbos srcbos) st = .ok (code, st') ∧
      CatUnterm cfg dest dmax src st st' code := by
  rw [wcsncat_s_eq_body cfg dest dmax src slen destbos srcbos hd hs hpos hle hslen hslenle hb hsb]
  exact catUnterm_of hpos hrw hdnz

/-- dest = "xy" (no NUL) in the 2 writable cells at 100, src = "a" at 101 / at 200 -/
def untSt : St :=
  { data := fun a => if a = 100 then 120 else if a = 101 then 121 else if a = 200 then 97 else 0
    mapped := fun _ => true, rd := fun _ => true
    wr := fun a => decide (100 ≤ a ∧ a < 102) }

/-- non-vacuity of the `_unterm` theorems, and both outcomes as test instances -/
example : RW untSt 100 2 ∧ (∀ j, j < 2 → untSt.data (100 + j) ≠ 0) ∧
    retCode (exec (strcat_s {} 100 2 101 none) untSt) = some ESOVRLP ∧
    retCode (exec (strcat_s {} 100 2 200 none) untSt) = some ESUNTERM := by
  refine ⟨fun i hi => ⟨rfl, ?_, rfl⟩, ?_, by decide, by decide⟩
  · simp [untSt]; omega
  · intro j hj
    have : j = 0 ∨ j = 1 := by omega
    rcases this with h | h <;> subst h <;> decide

/-- non-vacuity of the concatenation `_exact` / `_partial` theorems: `endSt` with dest = `a + 6` (empty string, 1 cell),
src = `a + 4` = "x", `slen = m = 1`, `src + m < dest` -/
example : (∀ a, endSt.mapped a = true ∧ endSt.rd a = true) ∧ RW endSt 106 1 ∧ endSt.data (106 + 0) = 0 ∧
    (∀ j, j < 1 → endSt.data (104 + j) ≠ 0) ∧ ((1 : Nat) = 1 ∧ (104 : Nat) + 1 ≤ 106) ∧
    ¬ ((1 : Nat) = 1 ∧ (104 : Nat) + 1 = 106 ∧ 0 + 1 < 1) := by
  refine ⟨fun _ => ⟨rfl, rfl⟩, fun i hi => ⟨rfl, ?_, rfl⟩, by decide, ?_, by decide, by decide⟩
  · simp [endSt]; omega
  · intro j hj
    have : j = 0 := by omega
    subst this; decide

/-! ## a source WITHOUT a terminator (the unbounded functions; the bounded ones are covered by `slen = m` above) -/

/-- a failing exit with the code `if g < k then ESOVRLP else ESNOSPC` -/
def NotermPost (cfg : Cfg) (dest dmax g k : Nat) (st st' : St) (code : Nat) : Prop :=
  code = (if g < k then ESOVRLP else ESNOSPC) ∧
  st'.data dest = 0 ∧ (cfg.slack = true → ∀ i, i < dmax → st'.data (dest + i) = 0) ∧
  st'.events = st.events ++ [.handler .str code] ∧ st'.strays = st.strays ∧
  (∀ a, ¬ (dest ≤ a ∧ a < dest + dmax) → st'.data a = st.data a)

private theorem noterm_of {cfg : Cfg} {dest dmax g k : Nat} {st st' : St} {code : Nat}
    (hc : code = (if g < k then ESOVRLP else ESNOSPC)) (hp : ClearedPost cfg dest dmax code st st') :
    NotermPost cfg dest dmax g k st st' code :=
  ⟨hc, hp.2.2.1, hp.2.2.2.1, hp.2.1, hp.1, hp.2.2.2.2⟩

/-- **strcpy_s on a source that holds no NUL in the cells the loop gets to read** (`g` = pointer distance; the first
`min g dmax` source cells non-NUL, anything behind): ESOVRLP when the copy reaches the other operand inside dest
(`g < dmax`), else ESNOSPC; dest cleared, one handler event — never EOK, never a read or write past the bumper -/
theorem strcpy_s_C07_noterm (cfg : Cfg) (dest dmax src g : Nat) (destbos : Bos) (st : St)
    (hall : ∀ a, st.mapped a = true ∧ st.rd a = true)
    (hd : dest ≠ 0) (hs : src ≠ 0) (hpos : 0 < dmax) (hle : dmax ≤ RSIZE_MAX_STR)
    (hb : ∀ b, destbos = some b → dmax ≤ b)
    (hrw : RW st dest dmax)
    (hg : 0 < g ∧ ((dest < src ∧ src = dest + g) ∨ (src ≤ dest ∧ dest = src + g)))
    (hnz : ∀ j, j < g → j < dmax → st.data (src + j) ≠ 0) :
    ∃ code st', exec (strcpy_s cfg dest dmax src destbos) st = .ok (code, st') ∧
      NotermPost cfg dest dmax g dmax st st' code := by
  unfold strcpy_s
  rw [strcpyG_eq_body _ cfg dest dmax src destbos hd hs (by omega) hpos hle hb]
  obtain ⟨code, st', he, hc, hp⟩ := cpyBody_noterm cfg dest dmax src g st hall hpos hrw hg.2 hnz
  exact ⟨code, st', he, noterm_of hc hp⟩

/-- the wide twin of `strcpy_s_C07_noterm` -/
theorem wcscpy_s_C07_noterm (cfg : Cfg) (dest dmax src g : Nat) (destbos : Bos) (st : St)
    (hall : ∀ a, st.mapped a = true ∧ st.rd a = true)
    (hd : dest ≠ 0) (hs : src ≠ 0) (hpos : 0 < dmax) (hle : dmax ≤ RSIZE_MAX_WSTR)
    (hb : ∀ b, destbos = some b → dmax * SIZEOF_WCHAR_T ≤ b)
    (hrw : RW st dest dmax)
    (hg : 0 < g ∧ ((dest < src ∧ src = dest + g) ∨ (src ≤ dest ∧ dest = src + g)))
    (hnz : ∀ j, j < g → j < dmax → st.data (src + j) ≠ 0) :
    ∃ code st', exec (wcscpy_s cfg dest dmax src destbos) st = .ok (code, st') ∧
      NotermPost cfg dest dmax g dmax st st' code := by
  rw [wcscpy_s_eq_body cfg dest dmax src destbos hd hs (by omega) hpos hle hb]
  obtain ⟨code, st', he, hc, hp⟩ := cpyBody_noterm cfg dest dmax src g st hall hpos hrw hg.2 hnz
  exact ⟨code, st', he, noterm_of hc hp⟩

/-- **strcat_s on a source that holds no NUL in the cells the loop gets to read**: dest string of length `dl`, `src`
behind the dest string (`g` = distance from its terminator) or at/below dest (`g` = pointer distance; `src` INSIDE the
dest string is ESOVRLP whatever the source holds: `strcat_s_overlap`); the first `min g (dmax - dl)` source cells
non-NUL: ESOVRLP when `g < dmax - dl`, else ESNOSPC; dest cleared -/
theorem strcat_s_C07_noterm (cfg : Cfg) (dest dmax src dl g : Nat) (destbos : Bos) (st : St)
    (hall : ∀ a, st.mapped a = true ∧ st.rd a = true)
    (hd : dest ≠ 0) (hs : src ≠ 0) (hpos : 0 < dmax) (hle : dmax ≤ RSIZE_MAX_STR)
    (hb : ∀ b, destbos = some b → dmax ≤ b)
    (hrw : RW st dest dmax)
    (hdl : dl < dmax) (hdnz : ∀ j, j < dl → st.data (dest + j) ≠ 0) (hdnul : st.data (dest + dl) = 0)
    (hg : (dest < src ∧ src = dest + dl + g) ∨ (src ≤ dest ∧ dest = src + g))
    (hnz : ∀ j, j < g → j < dmax - dl → st.data (src + j) ≠ 0) :
    ∃ code st', exec (strcat_s cfg dest dmax src destbos) st = .ok (code, st') ∧
      NotermPost cfg dest dmax g (dmax - dl) st st' code := by
  unfold strcat_s
  rw [strcatG_eq_body _ cfg dest dmax src destbos hd hs hpos hle hb]
  obtain ⟨code, st', he, hc, hp⟩ := catBody_noterm cfg dest dmax src dl g st hall hpos hrw hdl hdnz hdnul hg hnz
  exact ⟨code, st', he, noterm_of hc hp⟩

/-- the wide twin of `strcat_s_C07_noterm` -/
theorem wcscat_s_C07_noterm (cfg : Cfg) (dest dmax src dl g : Nat) (destbos : Bos) (st : St)
    (hall : ∀ a, st.mapped a = true ∧ st.rd a = true)
    (hd : dest ≠ 0) (hs : src ≠ 0) (hpos : 0 < dmax) (hle : dmax ≤ RSIZE_MAX_WSTR)
    (hb : ∀ b, destbos = some b → dmax * SIZEOF_WCHAR_T ≤ b)
    (hrw : RW st dest dmax)
    (hdl : dl < dmax) (hdnz : ∀ j, j < dl → st.data (dest + j) ≠ 0) (hdnul : st.data (dest + dl) = 0)
    (hg : (dest < src ∧ src = dest + dl + g) ∨ (src ≤ dest ∧ dest = src + g))
    (hnz : ∀ j, j < g → j < dmax - dl → st.data (src + j) ≠ 0) :
    ∃ code st', exec (wcscat_s cfg dest dmax src destbos) st = .ok (code, st') ∧
      NotermPost cfg dest dmax g (dmax - dl) st st' code := by
  rw [wcscat_s_eq_body cfg dest dmax src destbos hd hs hpos hle hb]
  obtain ⟨code, st', he, hc, hp⟩ := catBody_noterm cfg dest dmax src dl g st hall hpos hrw hdl hdnz hdnul hg hnz
  exact ⟨code, st', he, noterm_of hc hp⟩

/-- memory full of 'x' except the two cells 100, 101 (`dest`, writable) which hold "" and a NUL -/
def fullSt : St :=
  { data := fun a => if a = 100 ∨ a = 101 then 0 else 120
    mapped := fun _ => true, rd := fun _ => true
    wr := fun a => decide (100 ≤ a ∧ a < 102) }

/-- non-vacuity of the `_noterm` theorems (`fullSt`, src = 300, `g = 200 ≥ dmax = 2`), and both outcomes as test
instances: unterminated source far away → ESNOSPC; unterminated source one cell below dest → ESOVRLP -/
example : (∀ a, fullSt.mapped a = true ∧ fullSt.rd a = true) ∧ RW fullSt 100 2 ∧ fullSt.data (100 + 0) = 0 ∧
    (∀ j, j < 200 → j < 2 → fullSt.data (300 + j) ≠ 0) ∧
    retCode (exec (strcpy_s {} 100 2 300 none) fullSt) = some ESNOSPC ∧
    retCode (exec (strcat_s {} 100 2 300 none) fullSt) = some ESNOSPC ∧
    retCode (exec (strcpy_s {} 100 2 99 none) fullSt) = some ESOVRLP := by
  refine ⟨fun _ => ⟨rfl, rfl⟩, fun i hi => ⟨rfl, ?_, rfl⟩, by decide, ?_, by decide, by decide, by decide⟩
  · simp [fullSt]; omega
  · intro j _ hj
    have : j = 0 ∨ j = 1 := by omega
    rcases this with h | h <;> subst h <;> decide

end SafeC.Props.C07

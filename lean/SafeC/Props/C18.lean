import SafeC.Proofs.Erase
/-!
# C18 — secure erase really erases (the value/extent half)

*After `memset_s`, `memzero_s` (and the 16/32-bit and `strzero_s` variants) return success, the `n` (or
`dmax`) addressed bytes hold the fill value …; no more than the requested bytes are changed.*

What is proved here, for ALL lengths, start addresses (hence every alignment of the prologue / 16-way
unrolled body / tail of the primitives), fill values, `dmax`, object sizes and prior memory contents:
a successful call leaves `Erased st st' dest n v` — each of the `n` addressed cells holds the
(truncated) fill value, every other cell of the memory is unchanged, no stray access, no handler
event.  On failure: what the doc comments promise (`*_fail`).

What is NOT (and cannot be) proved here: that a compiler keeps these stores when the buffer is dead
in the caller.  In the machine every `store` is an observable effect; the check validates that
assumption separately on real builds (tools/p18.py, "assumption validator").

Where the full statement is false of the code the hypothesis the proof forces is explicit, and a
`*_witness` shows the excluded point:
* with a known object size (`destbos = some b`) `memset_s`/`memset16_s`/`memset32_s` drop the
  `RSIZE_MAX_MEM` test, and the primitives take a `uint32_t` length: `n ≥ 2^32` erases `n mod 2^32`
  cells and reports success (`memset_s_C18_bos_witness`; known finding `memset-bos-n-truncated`);
* `memzero16_s`/`memzero32_s` compute `len * 2` / `len * 4` without overflow check
  (`memzero16_s_C18_wrap_witness`; no real object can be that large: the hypothesis `len < 2^32` is
  implied by any true declaration);
* `strzero_s` built with SAFECLIB_STR_NULL_SLACK reads `dest[dmax]` when there is no NUL inside
  `dmax` cells (`strzero_s_C18_witness`: the erase is complete but the call faults instead of
  returning; known finding C02 `read-before-bound`).
-/
namespace SafeC.Props.C18
open SafeC Gen Mem

/-! ## the primitives -/

/-- `mem_prim_set(dest, len, value)` (the 64-bit variant that is compiled: byte prologue up to 8-alignment,
blocks of 16 qword stores, `case 15…1` chain, byte tail), for every `dest`, `len`, `value` and memory
in which the `len mod 2^32` addressed cells are writable: the call returns, each of those cells holds
`(uint8_t)value`, every other cell is unchanged, no stray access. -/
theorem mem_prim_set_C18 (dest len value : Nat) (st : St) (hw : RW st dest (len % U32)) :
    ∃ st', exec (mem_prim_set 1 dest len value) st = .ok ((), st') ∧
      Erased st st' dest (len % U32) (value % 256) := by
  obtain ⟨st', he, hf⟩ := mem_prim_set_ok dest len value st hw
  exact ⟨st', he, hf.erased⟩

/-- `mem_prim_set16(dest, len, value)`: every `len`, `dest`, `value`: exactly the `len mod 2^32`
addressed 16-bit cells hold `(uint16_t)value`. -/
theorem mem_prim_set16_C18 (dest len value : Nat) (st : St) (hw : RW st dest (len % U32)) :
    ∃ st', exec (mem_prim_set16 dest len value) st = .ok ((), st') ∧
      Erased st st' dest (len % U32) (value % 2^16) := by
  obtain ⟨st', he, hf⟩ := mem_prim_set16_ok dest len value st hw
  exact ⟨st', he, hf.erased⟩

/-- `mem_prim_set32(dest, len, value)`: every `len`, `dest`, `value`: exactly the `len mod 2^32`
addressed 32-bit cells hold `(uint32_t)value`. -/
theorem mem_prim_set32_C18 (dest len value : Nat) (st : St) (hw : RW st dest (len % U32)) :
    ∃ st', exec (mem_prim_set32 dest len value) st = .ok ((), st') ∧
      Erased st st' dest (len % U32) (value % 2^32) := by
  obtain ⟨st', he, hf⟩ := mem_prim_set32_ok dest len value st hw
  exact ⟨st', he, hf.erased⟩

/-- a concrete memory for the non-vacuity examples: 4 KiB writable at 1000, everything mapped -/
def exSt : St :=
  { data := fun a => a % 251 + 1, mapped := fun _ => true, rd := fun _ => true,
    wr := fun a => decide (1000 ≤ a ∧ a < 5096) }

theorem exSt_rw (d k : Nat) (h1 : 1000 ≤ d) (h2 : d + k ≤ 5096) : RW exSt d k := by
  intro i hi
  refine ⟨rfl, ?_, rfl⟩
  simp only [exSt, decide_eq_true_eq]
  omega

example : RW exSt 1003 (165 % U32) := exSt_rw _ _ (by decide) (by decide)

/-! ## `memset_s` -/

theorem RSIZE_MAX_MEM_lt_U32 : RSIZE_MAX_MEM < U32 := by decide

/-- **memset_s, object size unknown to the library (full statement).**  For all `dest`, `dmax`, `value`,
`n` and every memory whose `dmax` cells at `dest` are writable: the call returns; if it returns EOK
then exactly the `n` cells `dest[0..n)` hold `(unsigned char)value`, every other cell is unchanged,
there was no stray access and no handler call. -/
theorem memset_s_C18 (dest dmax value n : Nat) (st : St) (hw : RW st dest dmax) :
    ∃ code st', exec (memset_s dest dmax value n none) st = .ok (code, st') ∧
      (code = EOK → Erased st st' dest n (value % 256)) := by
  obtain ⟨code, st', he, ho, hiff⟩ := memset_s_spec dest dmax value n none st hw
  refine ⟨code, st', he, fun hc => ?_⟩
  obtain ⟨hf, hle⟩ := ho.ok hc
  have hn : n % U32 = n := by
    rcases (hiff.1 hc).2 with h0 | ⟨hm, _, hnd⟩
    · subst h0; rfl
    · have h1 : dmax ≤ RSIZE_MAX_MEM := hm
      have h2 : n ≤ dmax := hnd
      have := RSIZE_MAX_MEM_lt_U32
      exact Nat.mod_eq_of_lt (by omega)
  rw [hn] at hf
  exact hf.erased

example : RW exSt 1001 160 := exSt_rw _ _ (by decide) (by decide)

/-- **memset_s, object size `b` known to the library (partial: `n < 2^32`).**  The `b` cells of the
object are writable (the caller's `dmax` may be smaller: the code replaces it by `b`, known finding
`memset-bos-widens-dmax`; the bytes REQUESTED are `n`).  If the call returns EOK and `n < 2^32` then
exactly the `n` cells `dest[0..n)` hold `(unsigned char)value` and nothing else changed. -/
theorem memset_s_C18_bos_partial (dest dmax value n b : Nat) (st : St) (hw : RW st dest b)
    (hn : n < U32) :
    ∃ code st', exec (memset_s dest dmax value n (some b)) st = .ok (code, st') ∧
      (code = EOK → Erased st st' dest n (value % 256)) := by
  obtain ⟨code, st', he, ho, _⟩ := memset_s_spec dest dmax value n (some b) st hw
  refine ⟨code, st', he, fun hc => ?_⟩
  have hf := (ho.ok hc).1
  rw [Nat.mod_eq_of_lt hn] at hf
  exact hf.erased

example : RW exSt 1001 160 ∧ (100 : Nat) < U32 := ⟨exSt_rw _ _ (by decide) (by decide), by decide⟩

/-- return code and one cell of the final memory (a decidable observation of a run) -/
def observe (r : Except Fault (Nat × St)) (a : Nat) : Option (Nat × Nat) :=
  match r with
  | .ok (c, s) => some (c, s.data a)
  | .error _ => none

/-- everything mapped and writable, every cell holds 88 -/
def wSt : St := { data := fun _ => 88, mapped := fun _ => true, rd := fun _ => true, wr := fun _ => true }

/-- the point the partial statement excludes: an object of `2^32 + 2` bytes whose size the compiler
knows, `memset_s(dest, 2^32+2, 0, 2^32+2)`: EOK, but only `n mod 2^32 = 2` bytes were written: cell 1
is 0, cell 2 still holds its old value. -/
theorem memset_s_C18_bos_witness :
    observe (exec (memset_s 4096 (2^32 + 2) 0 (2^32 + 2) (some (2^32 + 2))) wSt) (4096 + 2) = some (EOK, 88) ∧
    observe (exec (memset_s 4096 (2^32 + 2) 0 (2^32 + 2) (some (2^32 + 2))) wSt) (4096 + 1) = some (EOK, 0) := by
  decide

/-- **memset_s on failure** (any object-size knowledge; `D` = the object size if known, else `dmax`):
a code other than EOK comes with exactly one mem-handler event carrying that code, no stray access,
and the memory is either untouched or — the `n > D` violation — its first `D mod 2^32` cells hold the
value (C11 K.3.7.4.1: "stores the value into every character of the first dmax characters"). -/
theorem memset_s_C18_fail (dest dmax value n : Nat) (destbos : Bos) (st : St)
    (hw : RW st dest (destbos.getD dmax)) :
    ∃ code st', exec (memset_s dest dmax value n destbos) st = .ok (code, st') ∧
      (code ≠ EOK →
        st'.events = st.events ++ [.handler .mem code] ∧ st'.strays = st.strays ∧
        (st'.data = st.data ∨
         (destbos.getD dmax < n ∧ ∀ a, st'.data a =
            if dest ≤ a ∧ a < dest + destbos.getD dmax % U32 then value % 256 else st.data a))) := by
  obtain ⟨code, st', he, ho, _⟩ := memset_s_spec dest dmax value n destbos st hw
  refine ⟨code, st', he, fun hc => ?_⟩
  obtain ⟨hf, hd⟩ := ho.fail hc
  exact ⟨hf.events, hf.strays, hd⟩

/-- **memset_s succeeds exactly when its documented preconditions hold** (`dest` non-null, and `n = 0`
or: `dmax` within the limit / the known object, `value ≤ 255` as a C int, `n` within `D`), where with a
known object size `D` is that size and not `dmax` (the known finding). -/
theorem memset_s_C18_success_iff (dest dmax value n : Nat) (destbos : Bos) (st : St)
    (hw : RW st dest (destbos.getD dmax)) :
    ∃ code st', exec (memset_s dest dmax value n destbos) st = .ok (code, st') ∧
      (code = EOK ↔ dest ≠ 0 ∧ (n = 0 ∨
        (memDmaxOk dmax destbos ∧ asInt value ≤ 255 ∧ n ≤ destbos.getD dmax))) := by
  obtain ⟨code, st', he, _, hiff⟩ := memset_s_spec dest dmax value n destbos st hw
  exact ⟨code, st', he, hiff⟩

/-! ## `memset16_s`, `memset32_s` (`dmax` in bytes, `n` in elements; cells are elements) -/

/-- **memset16_s, object size unknown (full).**  The `dmax / 2` elements at `dest` are writable.  EOK
implies exactly the `n` elements `dest[0..n)` hold `(uint16_t)value`, nothing else changed. -/
theorem memset16_s_C18 (dest dmax value n : Nat) (st : St) (hw : RW st dest (dmax / 2)) :
    ∃ code st', exec (memset16_s dest dmax value n none) st = .ok (code, st') ∧
      (code = EOK → Erased st st' dest n (value % 2^16)) := by
  obtain ⟨code, st', he, ho, hiff⟩ := memset16_s_spec dest dmax value n none st hw
  refine ⟨code, st', he, fun hc => ?_⟩
  obtain ⟨hf, hle⟩ := ho.ok hc
  have hn : n % U32 = n := by
    rcases (hiff.1 hc).2 with h0 | ⟨hm, hnd⟩
    · subst h0; rfl
    · have h1 : dmax ≤ RSIZE_MAX_MEM := hm
      have h2 : n ≤ dmax / 2 := hnd
      have := RSIZE_MAX_MEM_lt_U32
      exact Nat.mod_eq_of_lt (by omega)
  rw [hn] at hf
  exact hf.erased

/-- **memset16_s, object size `b` bytes known (partial: `n < 2^32`).** -/
theorem memset16_s_C18_bos_partial (dest dmax value n b : Nat) (st : St) (hw : RW st dest (b / 2))
    (hn : n < U32) :
    ∃ code st', exec (memset16_s dest dmax value n (some b)) st = .ok (code, st') ∧
      (code = EOK → Erased st st' dest n (value % 2^16)) := by
  obtain ⟨code, st', he, ho, _⟩ := memset16_s_spec dest dmax value n (some b) st hw
  refine ⟨code, st', he, fun hc => ?_⟩
  have hf := (ho.ok hc).1
  rw [Nat.mod_eq_of_lt hn] at hf
  exact hf.erased

/-- the excluded point for the 16-bit twin: object of `2^32 + 2` elements (`2^33 + 4` bytes) of known size:
EOK, element 1 set, element 2 untouched. -/
theorem memset16_s_C18_bos_witness :
    observe (exec (memset16_s 4096 (2^33 + 4) 0 (2^32 + 2) (some (2^33 + 4))) wSt) (4096 + 2) = some (EOK, 88) ∧
    observe (exec (memset16_s 4096 (2^33 + 4) 0 (2^32 + 2) (some (2^33 + 4))) wSt) (4096 + 1) = some (EOK, 0) := by
  decide

/-- **memset32_s, object size unknown (full).**  The `dmax / 4` elements at `dest` are writable.  EOK
implies exactly the `n` elements `dest[0..n)` hold `(uint32_t)value`, nothing else changed. -/
theorem memset32_s_C18 (dest dmax value n : Nat) (st : St) (hw : RW st dest (dmax / 4)) :
    ∃ code st', exec (memset32_s dest dmax value n none) st = .ok (code, st') ∧
      (code = EOK → Erased st st' dest n (value % 2^32)) := by
  obtain ⟨code, st', he, ho, hiff⟩ := memset32_s_spec dest dmax value n none st hw
  refine ⟨code, st', he, fun hc => ?_⟩
  obtain ⟨hf, hle⟩ := ho.ok hc
  have hn : n % U32 = n := by
    rcases (hiff.1 hc).2 with h0 | ⟨hm, hnd⟩
    · subst h0; rfl
    · have h1 : dmax ≤ RSIZE_MAX_MEM := hm
      have h2 : n ≤ dmax / 4 := hnd
      have := RSIZE_MAX_MEM_lt_U32
      exact Nat.mod_eq_of_lt (by omega)
  rw [hn] at hf
  exact hf.erased

/-- **memset32_s, object size `b` bytes known (partial: `n < 2^32`).** -/
theorem memset32_s_C18_bos_partial (dest dmax value n b : Nat) (st : St) (hw : RW st dest (b / 4))
    (hn : n < U32) :
    ∃ code st', exec (memset32_s dest dmax value n (some b)) st = .ok (code, st') ∧
      (code = EOK → Erased st st' dest n (value % 2^32)) := by
  obtain ⟨code, st', he, ho, _⟩ := memset32_s_spec dest dmax value n (some b) st hw
  refine ⟨code, st', he, fun hc => ?_⟩
  have hf := (ho.ok hc).1
  rw [Nat.mod_eq_of_lt hn] at hf
  exact hf.erased

example : RW exSt 1001 (320 / 2) ∧ RW exSt 1001 (640 / 4) :=
  ⟨exSt_rw _ _ (by decide) (by decide), exSt_rw _ _ (by decide) (by decide)⟩

/-- **memset16_s / memset32_s on failure**: one mem-handler event with the returned code, no stray
access, memory untouched or (the `n > D/w` violation) the first `D/w` elements set. -/
theorem memset16_s_C18_fail (dest dmax value n : Nat) (destbos : Bos) (st : St)
    (hw : RW st dest (destbos.getD dmax / 2)) :
    ∃ code st', exec (memset16_s dest dmax value n destbos) st = .ok (code, st') ∧
      (code ≠ EOK →
        st'.events = st.events ++ [.handler .mem code] ∧ st'.strays = st.strays ∧
        (st'.data = st.data ∨
         (destbos.getD dmax / 2 < n ∧ ∀ a, st'.data a =
            if dest ≤ a ∧ a < dest + destbos.getD dmax / 2 % U32 then value % 2^16 else st.data a))) := by
  obtain ⟨code, st', he, ho, _⟩ := memset16_s_spec dest dmax value n destbos st hw
  refine ⟨code, st', he, fun hc => ?_⟩
  obtain ⟨hf, hd⟩ := ho.fail hc
  exact ⟨hf.events, hf.strays, hd⟩

/-- see `memset16_s_C18_fail` -/
theorem memset32_s_C18_fail (dest dmax value n : Nat) (destbos : Bos) (st : St)
    (hw : RW st dest (destbos.getD dmax / 4)) :
    ∃ code st', exec (memset32_s dest dmax value n destbos) st = .ok (code, st') ∧
      (code ≠ EOK →
        st'.events = st.events ++ [.handler .mem code] ∧ st'.strays = st.strays ∧
        (st'.data = st.data ∨
         (destbos.getD dmax / 4 < n ∧ ∀ a, st'.data a =
            if dest ≤ a ∧ a < dest + destbos.getD dmax / 4 % U32 then value % 2^32 else st.data a))) := by
  obtain ⟨code, st', he, ho, _⟩ := memset32_s_spec dest dmax value n destbos st hw
  refine ⟨code, st', he, fun hc => ?_⟩
  obtain ⟨hf, hd⟩ := ho.fail hc
  exact ⟨hf.events, hf.strays, hd⟩

/-! ## `memzero_s`, `memzero16_s`, `memzero32_s` -/

/-- **memzero_s (full, any object-size knowledge).**  The `len` cells at `dest` are writable.  EOK
implies exactly the `len` cells are 0 and nothing else changed; any other code: one mem-handler event
with that code and the memory is untouched ("the operation is not performed"); EOK exactly when
`dest` is non-null, `len` non-zero and within the limit / the known object. -/
theorem memzero_s_C18 (dest len : Nat) (destbos : Bos) (st : St) (hw : RW st dest len) :
    ∃ code st', exec (memzero_s dest len destbos) st = .ok (code, st') ∧
      (code = EOK → Erased st st' dest len 0) ∧
      (code ≠ EOK → Untouched .mem st st' code) ∧
      (code = EOK ↔ dest ≠ 0 ∧ len ≠ 0 ∧ memDmaxOk len destbos) := by
  obtain ⟨code, st', he, ho, hiff⟩ := memzero_s_spec dest len destbos st hw
  refine ⟨code, st', he, fun hc => (ho.ok hc).erased, fun hc => ?_, hiff⟩
  obtain ⟨hf, hd⟩ := ho.fail hc
  exact ⟨hd, hf.strays, hf.events, hf.mapped, hf.wr, hf.rd⟩

example : RW exSt 1007 160 := exSt_rw _ _ (by decide) (by decide)

/-- **memzero16_s (partial: `len < 2^32`, which every true declaration satisfies).**  EOK implies exactly
the `len` 16-bit cells are 0; failure leaves the memory untouched and reports once. -/
theorem memzero16_s_C18_partial (dest len : Nat) (destbos : Bos) (st : St) (hw : RW st dest len)
    (hlen : len < U32) :
    ∃ code st', exec (memzero16_s dest len destbos) st = .ok (code, st') ∧
      (code = EOK → Erased st st' dest len 0) ∧
      (code ≠ EOK → Untouched .mem st st' code) := by
  have hm := Nat.mod_eq_of_lt hlen
  obtain ⟨code, st', he, ho, _⟩ := memzero16_s_spec dest len destbos st (by rw [hm]; exact hw)
  refine ⟨code, st', he, fun hc => ?_, fun hc => ?_⟩
  · have := (ho.ok hc).erased
    rwa [hm] at this
  · obtain ⟨hf, hd⟩ := ho.fail hc
    exact ⟨hd, hf.strays, hf.events, hf.mapped, hf.wr, hf.rd⟩

/-- **memzero32_s (partial: `len < 2^32`).** -/
theorem memzero32_s_C18_partial (dest len : Nat) (destbos : Bos) (st : St) (hw : RW st dest len)
    (hlen : len < U32) :
    ∃ code st', exec (memzero32_s dest len destbos) st = .ok (code, st') ∧
      (code = EOK → Erased st st' dest len 0) ∧
      (code ≠ EOK → Untouched .mem st st' code) := by
  have hm := Nat.mod_eq_of_lt hlen
  obtain ⟨code, st', he, ho, _⟩ := memzero32_s_spec dest len destbos st (by rw [hm]; exact hw)
  refine ⟨code, st', he, fun hc => ?_, fun hc => ?_⟩
  · have := (ho.ok hc).erased
    rwa [hm] at this
  · obtain ⟨hf, hd⟩ := ho.fail hc
    exact ⟨hd, hf.strays, hf.events, hf.mapped, hf.wr, hf.rd⟩

/-- with the object size unknown the hypothesis `len < 2^32` follows from "the byte size `2 * len`
does not wrap around 2^64" whenever the call succeeds: the limit test bounds it. -/
theorem memzero16_s_C18_nowrap (dest len : Nat) (st : St) (hw : RW st dest len) (hnw : len * 2 < U64) :
    ∃ code st', exec (memzero16_s dest len none) st = .ok (code, st') ∧
      (code = EOK → Erased st st' dest len 0) := by
  by_cases hlen : len < U32
  · obtain ⟨code, st', he, hok, _⟩ := memzero16_s_C18_partial dest len none st hw hlen
    exact ⟨code, st', he, hok⟩
  · have hw' : RW st dest (len % U32) := fun i hi => hw i (by have := Nat.mod_le len U32; omega)
    obtain ⟨code, st', he, _, hiff⟩ := memzero16_s_spec dest len none st hw'
    refine ⟨code, st', he, fun hc => ?_⟩
    have h1 : (len * 2) % U64 ≤ RSIZE_MAX_MEM := (hiff.1 hc).2.2
    rw [Nat.mod_eq_of_lt hnw] at h1
    have := RSIZE_MAX_MEM_lt_U32
    omega

/-- the excluded point: `memzero16_s(dest, 2^63 + 1)` — the byte size wraps to 2, the call returns EOK
having zeroed one element; element 1 keeps its value.  (No real object has 2^63 elements.) -/
theorem memzero16_s_C18_wrap_witness :
    observe (exec (memzero16_s 4096 (2^63 + 1) none) wSt) (4096 + 1) = some (EOK, 88) ∧
    observe (exec (memzero16_s 4096 (2^63 + 1) none) wSt) 4096 = some (EOK, 0) := by
  decide

/-- the excluded point that a real caller can reach: an object of `2^32 + 2` 16-bit elements whose size is
known (`destbos = 2^33 + 4` bytes): `memzero16_s(dest, 2^32 + 2)` returns EOK after zeroing 2 elements. -/
theorem memzero16_s_C18_bos_witness :
    observe (exec (memzero16_s 4096 (2^32 + 2) (some (2^33 + 4))) wSt) (4096 + 2) = some (EOK, 88) ∧
    observe (exec (memzero16_s 4096 (2^32 + 2) (some (2^33 + 4))) wSt) (4096 + 1) = some (EOK, 0) := by
  decide

example : RW exSt 1001 160 ∧ (160 : Nat) < U32 := ⟨exSt_rw _ _ (by decide) (by decide), by decide⟩

/-! ## `strzero_s` -/

/-- **strzero_s (partial: there is a NUL among the `dmax` cells).**  `dest[0..m)` are non-NUL, `dest[m]`
is NUL, `m < dmax`, the `dmax` cells are writable.  EOK implies: built with SAFECLIB_STR_NULL_SLACK
all `dmax` cells are 0; built without, exactly the `m` characters of the string are 0 ("nulls … until
the terminating NULL"); nothing else changed.  Failure: one str-handler event, memory untouched. -/
theorem strzero_s_C18_partial (cfg : Cfg) (dest dmax m : Nat) (destbos : Bos) (st : St)
    (hw : RW st dest dmax) (hm : m < dmax)
    (hnz : ∀ j, j < m → st.data (dest + j) ≠ 0) (hz : st.data (dest + m) = 0) :
    ∃ code st', exec (strzero_s cfg dest dmax destbos) st = .ok (code, st') ∧
      (code = EOK → Erased st st' dest (if cfg.slack then dmax else m) 0) ∧
      (code ≠ EOK → Untouched .str st st' code) ∧
      (code = EOK ↔ dest ≠ 0 ∧ dmax ≠ 0 ∧ strDmaxOk dmax destbos) := by
  obtain ⟨code, st', he, hok, hfail, hiff⟩ :=
    strzero_s_spec cfg dest dmax m destbos st hw (by omega) hnz (Or.inl ⟨hm, hz⟩)
  refine ⟨code, st', he, fun hc => (hok hc).erased, fun hc => ?_, hiff⟩
  have hf := hfail hc
  exact ⟨hf.data, hf.strays, hf.events, hf.mapped, hf.wr, hf.rd⟩

/-- **strzero_s, no NUL among the `dmax` cells**: all `dmax` cells are zeroed and EOK is returned,
provided — in a SAFECLIB_STR_NULL_SLACK build — the cell BEHIND the buffer, `dest[dmax]`, is mapped
and declared readable (the slack block's `if (!*dest)` looks at it). -/
theorem strzero_s_C18_unterminated (cfg : Cfg) (dest dmax : Nat) (destbos : Bos) (st : St)
    (hw : RW st dest dmax) (hnz : ∀ j, j < dmax → st.data (dest + j) ≠ 0)
    (hnext : cfg.slack = true → st.mapped (dest + dmax) = true ∧ st.rd (dest + dmax) = true) :
    ∃ code st', exec (strzero_s cfg dest dmax destbos) st = .ok (code, st') ∧
      (code = EOK → Erased st st' dest dmax 0) := by
  obtain ⟨code, st', he, hok, _, _⟩ :=
    strzero_s_spec cfg dest dmax dmax destbos st hw (Nat.le_refl _) hnz (Or.inr ⟨rfl, hnext⟩)
  refine ⟨code, st', he, fun hc => ?_⟩
  have := (hok hc).erased
  cases hs : cfg.slack <;> simpa [hs] using this

/-- the fault a run ended with, if any -/
def faultOf (r : Except Fault (Nat × St)) : Option Fault :=
  match r with
  | .error f => some f
  | .ok _ => none

/-- four non-NUL cells at 100, exactly those mapped and writable -/
def uSt : St :=
  { data := fun _ => 65, mapped := fun a => decide (100 ≤ a ∧ a < 104), rd := fun a => decide (100 ≤ a ∧ a < 104),
    wr := fun a => decide (100 ≤ a ∧ a < 104) }

/-- the excluded point: an exact-fit unterminated array ending at an unmapped cell, null-slack build:
the run does not return — read fault at `dest[dmax]`. -/
theorem strzero_s_C18_witness :
    faultOf (exec (strzero_s { slack := true } 100 4 none) uSt) = some (.read 104) := by
  decide

/-- a terminated string "abc" in a dirty 8-cell buffer at 1000 -/
def sSt : St :=
  { exSt with data := fun a => if a = 1003 then 0 else 97 }

example : RW sSt 1000 8 ∧ 3 < 8 ∧ (∀ j, j < 3 → sSt.data (1000 + j) ≠ 0) ∧ sSt.data (1000 + 3) = 0 := by
  refine ⟨fun i hi => ⟨rfl, ?_, rfl⟩, by decide, fun j hj => ?_, by decide⟩
  · simp only [sSt, exSt, decide_eq_true_eq]; omega
  · have : 1000 + j ≠ 1003 := by omega
    simp [sSt, this]

/-! ## on the tight memory: nothing but the declared cells exists, and nothing faults -/

/-- exactly the cells `[d, d+k)` are mapped, readable and writable: every access outside them faults -/
def Tight (st : St) (d k : Nat) : Prop :=
  ∀ a, st.mapped a = decide (d ≤ a ∧ a < d + k) ∧ st.wr a = decide (d ≤ a ∧ a < d + k) ∧
       st.rd a = decide (d ≤ a ∧ a < d + k)

theorem Tight.rw {st : St} {d k : Nat} (h : Tight st d k) : RW st d k := by
  intro i hi
  obtain ⟨h1, h2, h3⟩ := h (d + i)
  have : d ≤ d + i ∧ d + i < d + k := by omega
  exact ⟨by rw [h1]; simpa using this, by rw [h2]; simpa using this, by rw [h3]; simpa using this⟩

/-- **`mem_prim_set` on the tight memory** (only the `len mod 2^32` addressed cells exist): no fault, no
stray access — the primitive touches nothing but those cells, for every length, address and value. -/
theorem mem_prim_set_C18_tight (dest len value : Nat) (st : St) (ht : Tight st dest (len % U32))
    (h0 : st.strays = []) :
    ∃ st', exec (mem_prim_set 1 dest len value) st = .ok ((), st') ∧ st'.strays = [] ∧
      ∀ i, i < len % U32 → st'.data (dest + i) = value % 256 := by
  obtain ⟨st', he, hf⟩ := mem_prim_set_ok dest len value st ht.rw
  exact ⟨st', he, by rw [hf.same.strays, h0], hf.inside⟩

/-- **`memset_s` on the tight memory** (only the `dmax` declared cells exist, object size unknown): for ALL
arguments — valid or not — the call returns (no fault) without a stray access: neither the success path nor
any error path touches a byte outside `dest[0..dmax)`. -/
theorem memset_s_C18_tight (dest dmax value n : Nat) (st : St) (ht : Tight st dest dmax) (h0 : st.strays = []) :
    ∃ code st', exec (memset_s dest dmax value n none) st = .ok (code, st') ∧ st'.strays = [] := by
  obtain ⟨code, st', he, ho, _⟩ := memset_s_spec dest dmax value n none st ht.rw
  refine ⟨code, st', he, ?_⟩
  by_cases hc : code = EOK
  · rw [(ho.ok hc).1.same.strays, h0]
  · rw [(ho.fail hc).1.strays, h0]

/-- **`memzero_s` on the tight memory**: for all arguments the call returns without fault or stray access. -/
theorem memzero_s_C18_tight (dest len : Nat) (destbos : Bos) (st : St) (ht : Tight st dest len)
    (h0 : st.strays = []) :
    ∃ code st', exec (memzero_s dest len destbos) st = .ok (code, st') ∧ st'.strays = [] := by
  obtain ⟨code, st', he, ho, _⟩ := memzero_s_spec dest len destbos st ht.rw
  refine ⟨code, st', he, ?_⟩
  by_cases hc : code = EOK
  · rw [(ho.ok hc).same.strays, h0]
  · rw [(ho.fail hc).1.strays, h0]

/-- a tight memory of 100 cells at 4096 -/
def tSt : St :=
  { data := fun _ => 7, mapped := fun a => decide (4096 ≤ a ∧ a < 4096 + 100), rd := fun a => decide (4096 ≤ a ∧ a < 4096 + 100),
    wr := fun a => decide (4096 ≤ a ∧ a < 4096 + 100) }

example : Tight tSt 4096 100 ∧ tSt.strays = [] := ⟨fun _ => ⟨rfl, rfl, rfl⟩, rfl⟩

end SafeC.Props.C18

import SafeC.Models.Copy
/-! Property theorems for C18 (see DESIGN.md §4). -/
namespace SafeC.Props.C18
end SafeC.Props.C18

import SafeC.Models.Copy
/-! Property theorems for C17 (see DESIGN.md §4). -/
namespace SafeC.Props.C17
end SafeC.Props.C17

import SafeC.Proofs.NormSpec
import SafeC.Proofs.NormRoom
import SafeC.Proofs.NormCompose
import SafeC.Proofs.NormNFC2
import SafeC.Proofs.NormIdemTables
import SafeC.Proofs.NormNFCRoom
import SafeC.Proofs.FoldCount
/-!
# C17 — "Unicode normalization and case folding follow the Unicode standard"

*For every wide string of assigned Unicode scalar values, wcsnorm_s in NFD and NFC mode produces the normalization form defined by
UAX #15 (and reports its length), normalizing twice gives the same result as once, and the number of characters towfc_s/wcsfc_s
emit for a character equals what iswfc announces, so that a destination sized from the announced lengths always suffices.  Code
points above U+10FFFF are rejected rather than used as table indices.*

Models: `SafeC.Norm` (Models/Norm.lean: `wcsnormS`, `reorderS`, `composeS`, tables regenerated from the tree on every run),
`SafeC.Fold` (Models/Fold.lean).  Reference: `SafeC.UCD` (Proofs/UnicodeSpec.lean) over `SafeC.Gen.UCD14` (Python unicodedata
14.0.0).  Only property statements here; proofs in `SafeC/Proofs/Norm*.lean`, `FoldCount.lean`.

What is false of the code as it stands, and therefore `_partial` + `_witness` (each witness is replayed on the real C by the check):
* U+037E is never decomposed (`TBL(1)|0` reads as "none")                 → `tables_match_ucd_partial`, `nfd_is_uax15_partial`
* a destination of exactly the result's size is rejected (5-cell margin)   → `nfd_exact_fit_witness`
* NFC composes `a + U+10300` to `à` (`(uint16_t)cp2`)                      → `nfc_cast_witness`, repaired: `nfc_cast_fixed`
* wcsnorm_reorder_s / wcsnorm_compose_s index tables with cells > 0x10FFFF → `reorder_range_witness`, `compose_range_witness`,
  repaired: `reorder_range_fixed`, `compose_range_fixed`
* iswfc announces 0/1 where towfc_s does / does not fold (748 code points) → `fold_announce_partial`, witnesses in FoldCount.lean
* wcsfc_s decomposes what it folds (U+00C9 ⇒ `e` U+0301), has a final-sigma rule and a 5-cell margin: it does NOT emit what iswfc
  announces, and announced sum + 1 cells do not suffice   → Props/C17Fold.lean (`wcsfc_model`, `wcsfc_announced_partial`, witnesses)
NFC: `nfc_model` (every input, as is and repaired: EOK ⇒ dest = D117 on the NFD), `nfc_uax15_partial` (the code as it is NOW —
`current`, both repairs applied in /repo — = UAX #15 NFC over UCD 14.0, all strings of assigned code points ≠ U+037E; wrapper level:
`nfc_call_uax15_partial`), `nfc_is_uax15_partial` (the code before the repair, when the NFD lies in the BMP).
**Normalizing twice = once**: `nfc_idempotent`, `nfd_of_nfc`, `nfc_twice` (model and wrapper level, EVERY string of code points,
assigned or not), `uax15_nfc_idempotent` (the reference itself, every list) — from `nfc_composite_decomposition` (table fact: the
full decomposition of a primary composite = that of its first constituent ++ that of the second) and `nfc_step_undone` /
`nfc_pass_undone` (one composition step / the whole pass is undone by decomposition + canonical reordering).
-/
namespace SafeC.Props.C17
open SafeC.Norm SafeC.Gen

/-! ## tables -/

/-- table closure: every cell the decomposition pass writes for any `c` is itself left alone by the pass (so the stored
decompositions are full decompositions; Hangul included) -/
theorem tables_closed {c d : Nat} (hd : d ∈ decompose1 c) : decompose1 d = [d] := decompose1_fixed hd

/-- the tree's decomposition and combining-class tables = UCD 14.0 (mappings expanded recursively, D68) on every assigned code
point; full statement (without `c ≠ 0x37E`) is false: `tables_match_ucd_witness` -/
theorem tables_match_ucd_partial {c : Nat} (h : UCD.assigned c = true) (h37e : c ≠ 0x37E) :
    decompose1 c = UCD.fullDecomp 4 c ∧ combinClass c = some (UCD.ccc c) :=
  ⟨decomp_matches_ucd_partial h h37e, ccc_matches_ucd h⟩

theorem tables_match_ucd_witness : UCD.assigned 0x37E = true ∧ decompose1 0x37E = [0x37E] ∧ UCD.fullDecomp 4 0x37E = [0x3B] :=
  dm_37e_witness

example : UCD.assigned 0x1E69 = true ∧ (0x1E69 : Nat) ≠ 0x37E ∧ UCD.fullDecomp 4 0x1E69 = [0x73, 0x323, 0x307] := by decide +kernel

/-- the reference expansion really is a full decomposition: nothing in it has a mapping or is a Hangul syllable (4 levels suffice) -/
theorem ucd_fullDecomp_is_full {c d : Nat} (hc : c < 0x110000) (hs : UCD.isHangulS c = false) (hd : d ∈ UCD.fullDecomp 4 c) :
    UCD.dm d = none ∧ UCD.isHangulS d = false :=
  let h := fullDecomp_fixed hc hd (by rw [isS_iff]; exact hs); ⟨h.1, h.2.1⟩

/-! ## canonical reordering (all lists) -/

/-- `wcsnorm_reorder_s` computes the Canonical Ordering (D108/D109) of its input: reachable by exchanging reorderable pairs, no
reorderable pair left, a permutation, same length — for every list, any class function the table realises -/
theorem reorder_canonical (fx : Fixes) (k : Nat → Nat) (xs : List Nat) (dmax : Nat)
    (hk : ∀ c ∈ xs, combinClass c = some (k c)) (hr : fx.rangeChk = true → ∀ c ∈ xs, c ≤ UniCompos.unicodeMax)
    (hd : xs.length < dmax) :
    ∃ ys, reorderLoop fx xs [] dmax = .ok ys (dmax - xs.length) ∧ IsCanonicalOrdering k xs ys ∧ ys.Perm xs ∧ ys.length = xs.length :=
  reorderLoop_canonical fx k xs dmax hk hr hd

example : (∀ c ∈ [0x61, 0x301, 0x323, 0x62], combinClass c = some (kcc c)) ∧ kcc 0x301 = 230 ∧ kcc 0x323 = 220 ∧
    reorderLoop current [0x61, 0x301, 0x323, 0x62] [] 8 = .ok [0x61, 0x323, 0x301, 0x62] 4 := by decide +kernel

/-- the canonical ordering of a string is unique (so "a" canonical ordering is "the" canonical ordering) -/
theorem canonical_ordering_unique {k : Nat → Nat} {xs ys zs : List Nat}
    (h1 : IsCanonicalOrdering k xs ys) (h2 : IsCanonicalOrdering k xs zs) : ys = zs := canonicalOrdering_unique h1 h2

/-- starters stay where they are and characters of equal class keep their order (stability) -/
theorem reorder_stable (k : Nat → Nat) (n : Nat) (xs : List Nat) :
    (reorderPure k xs).map (fun c => if k c = 0 then some c else none) = xs.map (fun c => if k c = 0 then some c else none) ∧
    (reorderPure k xs).filter (fun c => k c = n) = xs.filter (fun c => k c = n) :=
  ⟨reorderPure_starters_fixed k xs, reorderPure_filter_class k n xs⟩

example : reorderPure (· / 10) [31, 12, 5, 25, 21, 11, 22, 7, 7, 30, 10] = [12, 31, 5, 11, 25, 21, 22, 7, 7, 10, 30] := by decide

/-! ## NFD -/

/-- `wcsnorm_s(dest, dmax, src, WCSNORM_NFD, &len)`, every input: whenever it returns EOK, dest = NFD of the source by the tree's
tables and `*lenp` = its length (and fits: `< dmax`); it returns EOK only if all cells were code points; it never indexes a table
out of bounds -/
theorem nfd_model (fx : Fixes) (dmax : Nat) (src : List Nat) (h0 : ∀ c ∈ src, c ≠ 0) :
    (wcsnormS fx 0 dmax src).oob = false ∧ (wcsnormS fx 0 dmax src).overrun = false ∧
    ((wcsnormS fx 0 dmax src).ret = 0 →
      (wcsnormS fx 0 dmax src).out = nfdPure src ∧ (wcsnormS fx 0 dmax src).len = (nfdPure src).length ∧
      (nfdPure src).length < dmax ∧ ∀ c ∈ src, c ≤ UniCompos.unicodeMax) :=
  wcsnormS_nfd_spec fx dmax src h0

/-- NFD of the model is NFD of UAX #15 over UCD 14.0 for every string of assigned code points (any length); with `nfd_model`:
a successful `wcsnorm_s` NFD call on such a string leaves exactly the standard's NFD in dest.  U+037E excluded (finding). -/
theorem nfd_is_uax15_partial (xs : List Nat) (h : ∀ c ∈ xs, UCD.assigned c = true ∧ c ≠ 0x37E) :
    nfdPure xs = reorderPure UCD.ccc (UCD.decompose xs) ∧ IsCanonicalOrdering UCD.ccc (UCD.decompose xs) (nfdPure xs) :=
  nfdPure_is_uax15 xs h

/-- U+037E: dest keeps U+037E where the standard says U+003B -/
theorem nfd_slot0_witness : (wcsnormS current 0 16 [0x37E]).ret = 0 ∧ (wcsnormS current 0 16 [0x37E]).out = [0x37E] ∧
    reorderPure UCD.ccc (UCD.decompose [0x37E]) = [0x3B] := by decide +kernel

example : (wcsnormS current 0 16 [0x1E69, 0xAC01]).ret = 0 ∧
    (wcsnormS current 0 16 [0x1E69, 0xAC01]).out = [0x73, 0x323, 0x307, 0x1100, 0x1161, 0x11A8] ∧
    UCD.assigned 0x1E69 = true ∧ UCD.assigned 0xAC01 = true := by decide +kernel

/-- NFD is idempotent, every string -/
theorem nfd_idempotent (xs : List Nat) : nfdPure (nfdPure xs) = nfdPure xs := nfdPure_idem xs

/-- two successful calls: the second changes nothing -/
theorem nfd_twice (fx : Fixes) (dmax dmax' : Nat) (src : List Nat) (h0 : ∀ c ∈ src, c ≠ 0)
    (h1 : (wcsnormS fx 0 dmax src).ret = 0) (h2 : (wcsnormS fx 0 dmax' (wcsnormS fx 0 dmax src).out).ret = 0) :
    (wcsnormS fx 0 dmax' (wcsnormS fx 0 dmax src).out).out = (wcsnormS fx 0 dmax src).out :=
  wcsnormS_nfd_twice fx dmax dmax' src h0 h1 h2

/-- sufficient room: `dmax ≤ RSIZE_MAX_WSTR` and five cells more than the NFD text ⇒ EOK (then `nfd_model` gives dest and `*lenp`).
The full statement "the result and its terminator fit ⇒ EOK" is false: `nfd_exact_fit_witness` -/
theorem nfd_succeeds_partial (fx : Fixes) (dmax : Nat) (src : List Nat) (hs : ∀ c ∈ src, c ≠ 0 ∧ c ≤ UniCompos.unicodeMax)
    (hmax : dmax ≤ RSIZE_MAX_WSTR) (hroom : (nfdPure src).length + 5 ≤ dmax) : (wcsnormS fx 0 dmax src).ret = 0 :=
  wcsnormS_nfd_succeeds fx dmax src hs hmax hroom

example : (nfdPure [0x1E69]).length + 5 ≤ 8 ∧ (wcsnormS current 0 8 [0x1E69]).ret = 0 := by decide +kernel

/-- a destination of exactly the size of the result (3 cells + terminator, and two more) is refused: ESNOSPC -/
theorem nfd_exact_fit_witness : (wcsnormS current 0 6 [0x41, 0x42, 0x43]).ret = ESNOSPC ∧
    (wcsnormS current 0 7 [0x41, 0x42, 0x43]).ret = 0 ∧ (nfdPure [0x41, 0x42, 0x43]).length = 3 := by decide +kernel

/-! ## range -/

/-- `wcsnorm_s`, every mode, every input (any cells, any dmax), as it is and repaired: no table index out of bounds, no unsigned
wrap of dmax -/
theorem range_no_oob (fx : Fixes) (mode dmax : Nat) (src : List Nat) :
    (wcsnormS fx mode dmax src).oob = false ∧ (wcsnormS fx mode dmax src).overrun = false := wcsnormS_no_oob fx mode dmax src

/-- a cell above U+10FFFF makes `wcsnorm_s` fail -/
theorem range_rejected (fx : Fixes) (dmax : Nat) (src : List Nat) (h0 : ∀ c ∈ src, c ≠ 0)
    (hbad : ∃ c ∈ src, UniCompos.unicodeMax < c) : (wcsnormS fx 0 dmax src).ret ≠ 0 := wcsnormS_nfd_rejects fx dmax src h0 hbad

example : (wcsnormS current 0 16 [0x41, 0x110000]).ret = ESLEMAX := by decide +kernel

/-- the table lookups themselves: in bounds exactly for code points -/
theorem range_lookups (cp : Nat) :
    (cp ≤ UniCompos.unicodeMax → decompCanon cp ≠ none ∧ combinClass cp ≠ none) ∧
    (UniCompos.unicodeMax < cp → decompCanon cp = none ∧ combinClass cp = none) :=
  ⟨fun h => ⟨decompCanon_ne_none h, combinClass_ne_none h⟩, fun h => ⟨decompCanon_oob h, combinClass_oob h⟩⟩

/-- `wcsnorm_reorder_s` called directly with a cell > 0x10FFFF: `UNWIF_combin[cp >> 16]` is read out of bounds -/
theorem reorder_range_witness : (reorderS unrepaired 64 [0x41, 0x7fffffff]).oob = true := by decide +kernel
theorem compose_range_witness : (composeS unrepaired 64 [0x41, 0x110000] false).oob = true := by decide +kernel

/-- repaired (`fixes/wcsnorm-wcsfc-range-checks.diff`): no out-of-bounds index for any input, and such a cell is rejected -/
theorem reorder_range_fixed (dmax : Nat) (src : List Nat) : (reorderS allFixed dmax src).oob = false := by
  unfold reorderS
  split
  · rfl
  · have := reorderLoop_no_oob allFixed src [] dmax (Or.inl rfl)
    cases h : reorderLoop allFixed src [] dmax with
    | ok o d => rfl
    | fail a b => rfl
    | oob => exact absurd h this
    | overrun => rfl

theorem compose_range_fixed (dmax : Nat) (src : List Nat) (contig : Bool) : (composeS allFixed dmax src contig).oob = false := by
  unfold composeS
  split
  · rfl
  · have := composeLoop_no_oob allFixed contig src 0 false 0 [] dmax (Or.inl rfl)
    cases h : composeLoop allFixed contig src 0 false 0 [] dmax with
    | ok o d => rfl
    | fail a b => rfl
    | oob => exact absurd h this
    | overrun => rfl

example : (reorderS allFixed 64 [0x41, 0x7fffffff]).ret = ESLEMAX ∧ (composeS allFixed 64 [0x41, 0x110000] false).ret = ESLEMAX := by
  decide +kernel

/-- `wcsfc_s` hands a cell > 0x10FFFF to `_decomp_s` (single-character branch): out-of-bounds index; repaired: ESLEMAX -/
theorem wcsfc_range_witness : (SafeC.Fold.wcsfcS unrepaired 64 [0x41, 0x110000]).oob = true ∧
    (SafeC.Fold.wcsfcS allFixed 64 [0x41, 0x110000]).ret = ESLEMAX ∧ (SafeC.Fold.wcsfcS allFixed 64 [0x41, 0x110000]).oob = false := by
  decide +kernel

/-! ## NFC

`UAX15.nfd xs` = D68 + D109 over UCD 14.0, `UAX15.nfc xs` = D117 (last starter, not blocked per D115, primary composite per D114 incl.
the Hangul rules of ch. 3.12) applied to it (Proofs/NormNFC2.lean, NormComposeSpec.lean: `d117`, UnicodeSpec.lean: `primaryComposite`).
`current` (Models/Norm.lean) = `allFixed` since both fix commits are in /repo: the theorems for `current` are the ones about the
code as it is. -/

/-- `wcsnorm_s(dest, dmax, src, WCSNORM_NFC, &len)`, every input (any cells, any dmax), as it is and repaired: whenever it returns
EOK, dest = the Canonical Composition (D117) of the model's NFD with the tree's classes and pair map, `*lenp` = its length `< dmax` -/
theorem nfc_model (fx : Fixes) (dmax : Nat) (src : List Nat) (h0 : ∀ c ∈ src, c ≠ 0) (hret : (wcsnormS fx 1 dmax src).ret = 0) :
    (wcsnormS fx 1 dmax src).out = nfcPure fx src ∧ (wcsnormS fx 1 dmax src).len = (nfcPure fx src).length ∧
    (nfcPure fx src).length < dmax ∧ ∀ c ∈ src, c ≤ UniCompos.unicodeMax := wcsnormS_nfc_spec fx dmax src h0 hret

/-- repaired code (`fixes/wcsnorm-composite-full-width.diff`, now in /repo: `current = allFixed`): NFC of the model = UAX #15 NFC over UCD 14.0, every string (any
length) of code points assigned in Unicode 14.0 other than U+037E.  (Rests on: classes equal, every composite a starter, and the
pair map `_composite_cp`+`isExclusion` = D114 as functions on code points: `pcOf_eq_ucd`.) -/
theorem nfc_is_uax15_fixed_partial (xs : List Nat) (h : ∀ c ∈ xs, UCD.assigned c = true ∧ c ≠ 0x37E) :
    nfcPure allFixed xs = UAX15.nfc xs := nfcPure_fixed_is_uax15 xs h

example : (∀ c ∈ [0x1EAD, 0x10300, 0xAC01], UCD.assigned c = true ∧ c ≠ 0x37E) ∧
    UAX15.nfc [0x1EAD, 0x10300, 0xAC01] = [0x1EAD, 0x10300, 0xAC01] ∧ UAX15.nfc [0x61, 0x10300] = [0x61, 0x10300] := by decide +kernel

/-- **the headline: NFC of the code as it is (`current`: both repairs are in /repo) = UAX #15 NFC over UCD 14.0**, every string
(any length) of code points assigned in Unicode 14.0 other than U+037E; the full statement is false: `nfc_slot0_witness` -/
theorem nfc_uax15_partial (xs : List Nat) (h : ∀ c ∈ xs, UCD.assigned c = true ∧ c ≠ 0x37E) :
    nfcPure current xs = UAX15.nfc xs := nfcPure_fixed_is_uax15 xs h

/-- … at the level of the call: a successful `wcsnorm_s(dest, dmax, src, WCSNORM_NFC, &len)` on such a string leaves exactly the
Standard's NFC in dest and its length in `*lenp` -/
theorem nfc_call_uax15_partial (dmax : Nat) (src : List Nat) (h0 : ∀ c ∈ src, c ≠ 0)
    (h : ∀ c ∈ src, UCD.assigned c = true ∧ c ≠ 0x37E) (hret : (wcsnormS current 1 dmax src).ret = 0) :
    (wcsnormS current 1 dmax src).out = UAX15.nfc src ∧ (wcsnormS current 1 dmax src).len = (UAX15.nfc src).length := by
  obtain ⟨e1, e2, _, _⟩ := nfc_model current dmax src h0 hret
  rw [e1, e2, nfc_uax15_partial src h]
  exact ⟨rfl, rfl⟩

/-- U+037E GREEK QUESTION MARK (singleton decomposition to U+003B, lost by the tree's slot-0 encoding): kept by NFC too -/
theorem nfc_slot0_witness : (wcsnormS current 1 16 [0x37E]).ret = 0 ∧ (wcsnormS current 1 16 [0x37E]).out = [0x37E] ∧
    UCD.assigned 0x37E = true ∧ UAX15.nfc [0x37E] = [0x3B] := by decide +kernel

example : (∀ c ∈ [0x61, 0x323, 0x10300, 0x1100, 0x1161, 0x11A8], UCD.assigned c = true ∧ c ≠ 0x37E) ∧
    (wcsnormS current 1 16 [0x61, 0x323, 0x10300, 0x1100, 0x1161, 0x11A8]).ret = 0 ∧
    UAX15.nfc [0x61, 0x323, 0x10300, 0x1100, 0x1161, 0x11A8] = [0x1EA1, 0x10300, 0xAC01] := by decide +kernel

/-! ### normalizing twice gives the same result as once -/

/-- the table fact behind idempotence, tree and reference: the full canonical decomposition of the primary composite of `<a, b>`
(D114, incl. Hangul LV and LVT) is the full decomposition of `a` followed by that of `b` — in the tree's tables (`decompose1`)
and in UCD 14.0 (`fullDecomp`): all 941 table composites kernel-checked, the 11 172 syllables by arithmetic -/
theorem nfc_composite_decomposition {a b c : Nat} (h : UCD.primaryComposite a b = some c) :
    decompose1 c = decompose1 a ++ decompose1 b ∧ UCD.fullDecomp 4 c = UCD.fullDecomp 4 a ++ UCD.fullDecomp 4 b :=
  ⟨primaryComposite_decompose1 h, primaryComposite_fullDecomp h⟩

example : UCD.primaryComposite 0x1E63 0x307 = some 0x1E69 ∧ decompose1 0x1E69 = [0x73, 0x323, 0x307] ∧
    decompose1 0x1E63 = [0x73, 0x323] ∧ decompose1 0x307 = [0x307] := by decide +kernel

/-- one composition step is undone by decomposition + canonical reordering: `s` the last starter, `pend` the uncomposed marks
since `s` (classes non-zero, at most `pre`), `c` not blocked from `s` (D115, the C's test), `p` their composite with
`dec p = dec s ++ [c]`: replacing `s` by `p` and deleting `c` changes nothing after decomposing and reordering (any class
function, any decomposition function, any text behind) -/
theorem nfc_step_undone {k : Nat → Nat} {dec : Nat → List Nat} {s c p pre : Nat} {pend : List Nat} (rest : List Nat)
    (hpend : ∀ b ∈ pend, k b ≠ 0 ∧ k b ≤ pre) (hnb : ¬ ((k c ≠ 0 ∧ pre = k c) ∨ pre > k c)) (hdec : dec p = dec s ++ [c]) :
    reorderPure k (dec p ++ pend ++ rest) = reorderPure k (dec s ++ pend ++ c :: rest) :=
  composeStep_undone rest hpend hnb hdec

example : reorderPure kcc (decompose1 0x1EAD ++ [] ++ [0x62]) = reorderPure kcc (decompose1 0x1EA1 ++ [] ++ 0x302 :: [0x62]) ∧
    reorderPure kcc (decompose1 0x1EAD ++ [] ++ [0x62]) = [0x61, 0x323, 0x302, 0x62] := by decide +kernel

/-- the whole pass: for every canonically ordered string `ys` of fully decomposed characters, decomposing and reordering the
output of the Canonical Composition Algorithm gives `ys` back — any class function `k`, pair map `pc`, decomposition `dec` with
`dec (pc a b) = dec a ++ dec b` on a set `S` closed under `pc` -/
theorem nfc_pass_undone {k : Nat → Nat} {pc : Nat → Nat → Option Nat} {dec : Nat → List Nat} {S : Nat → Prop}
    (hpc : ∀ a b c, S a → S b → pc a b = some c → S c ∧ dec c = dec a ++ dec b)
    {ys : List Nat} (hys : ∀ c ∈ ys, S c ∧ dec c = [c]) (hord : CanonOrdered k ys) :
    reorderPure k ((composePure k pc ys).flatMap dec) = ys := composePure_roundtrip hpc hys hord

/-- **NFD (NFC x) = NFD x**, the code as it is, every string of code points (assigned or not, any length) -/
theorem nfd_of_nfc (xs : List Nat) (h : ∀ c ∈ xs, c ≤ UniCompos.unicodeMax) : nfdPure (nfcPure current xs) = nfdPure xs :=
  nfdPure_nfcPure xs h

/-- NFC (NFD x) = NFC x, every string, as is and repaired (the other UAX #15 invariant; immediate from `nfd_idempotent`) -/
theorem nfc_of_nfd (fx : Fixes) (xs : List Nat) : nfcPure fx (nfdPure xs) = nfcPure fx xs := by
  unfold nfcPure; rw [nfdPure_idem]

/-- **NFC (NFC x) = NFC x**, the code as it is, every string of code points (assigned or not, U+037E included, any length) -/
theorem nfc_idempotent (xs : List Nat) (h : ∀ c ∈ xs, c ≤ UniCompos.unicodeMax) :
    nfcPure current (nfcPure current xs) = nfcPure current xs := nfcPure_idem xs h

example : (∀ c ∈ [0x37E, 0x1E69, 0x1100, 0x1161, 0x11A8, 0x323, 0x10FFFF], c ≤ UniCompos.unicodeMax) ∧
    nfcPure current [0x37E, 0x73, 0x307, 0x323, 0x1100, 0x1161, 0x11A8, 0x323, 0x10FFFF] = [0x37E, 0x1E69, 0xAC01, 0x323, 0x10FFFF] := by
  decide +kernel

/-- **two successful `wcsnorm_s` NFC calls: the second leaves the result of the first unchanged** — every source string, any
two destination sizes -/
theorem nfc_twice (dmax dmax' : Nat) (src : List Nat) (h0 : ∀ c ∈ src, c ≠ 0)
    (h1 : (wcsnormS current 1 dmax src).ret = 0) (h2 : (wcsnormS current 1 dmax' (wcsnormS current 1 dmax src).out).ret = 0) :
    (wcsnormS current 1 dmax' (wcsnormS current 1 dmax src).out).out = (wcsnormS current 1 dmax src).out :=
  wcsnormS_nfc_twice current rfl dmax dmax' src h0 h1 h2

example : (wcsnormS current 1 16 [0x73, 0x307, 0x323, 0x1100, 0x1161]).ret = 0 ∧
    (wcsnormS current 1 16 [0x73, 0x307, 0x323, 0x1100, 0x1161]).out = [0x1E69, 0xAC00] ∧
    (wcsnormS current 1 8 [0x1E69, 0xAC00]).ret = 0 := by decide +kernel

/-- sufficient room for NFC: `dmax ≤ RSIZE_MAX_WSTR` and five cells more than the NFD text ⇒ EOK (then `nfc_model` gives dest and
`*lenp`).  "The result and its terminator fit ⇒ EOK" is false: `nfc_exact_fit_witness` -/
theorem nfc_succeeds_partial (fx : Fixes) (dmax : Nat) (src : List Nat) (hs : ∀ c ∈ src, c ≠ 0 ∧ c ≤ UniCompos.unicodeMax)
    (hmax : dmax ≤ RSIZE_MAX_WSTR) (hroom : (nfdPure src).length + 5 ≤ dmax) : (wcsnormS fx 1 dmax src).ret = 0 :=
  wcsnormS_nfc_succeeds fx dmax src hs hmax hroom

theorem nfc_exact_fit_witness : (wcsnormS current 1 6 [0x41, 0x42, 0x43]).ret = ESNOSPC ∧
    (wcsnormS current 1 7 [0x41, 0x42, 0x43]).ret = 0 ∧ nfcPure current [0x41, 0x42, 0x43] = [0x41, 0x42, 0x43] := by decide +kernel

/-- with that room both calls succeed, and the second changes nothing: the hypotheses of `nfc_twice` are met by every string of
non-zero code points and every pair of destinations with five cells more than the NFD text (the second call needs no more room
than the first: NFD (NFC x) = NFD x) -/
theorem nfc_twice_succeeds_partial (dmax dmax' : Nat) (src : List Nat) (hs : ∀ c ∈ src, c ≠ 0 ∧ c ≤ UniCompos.unicodeMax)
    (hmax : dmax ≤ RSIZE_MAX_WSTR) (hroom : (nfdPure src).length + 5 ≤ dmax)
    (hmax' : dmax' ≤ RSIZE_MAX_WSTR) (hroom' : (nfdPure src).length + 5 ≤ dmax') :
    (wcsnormS current 1 dmax src).ret = 0 ∧ (wcsnormS current 1 dmax' (wcsnormS current 1 dmax src).out).ret = 0 ∧
    (wcsnormS current 1 dmax' (wcsnormS current 1 dmax src).out).out = (wcsnormS current 1 dmax src).out :=
  wcsnormS_nfc_twice_ok current rfl dmax dmax' src hs hmax hroom hmax' hroom'

example : (nfdPure [0x1E69, 0xAC01]).length + 5 ≤ 11 ∧ (wcsnormS current 1 11 [0x1E69, 0xAC01]).out = [0x1E69, 0xAC01] := by decide +kernel

/-- the reference itself: UAX #15 NFC over UCD 14.0 is idempotent and NFD (NFC x) = NFD x, every list of cells -/
theorem uax15_nfc_idempotent (xs : List Nat) : UAX15.nfc (UAX15.nfc xs) = UAX15.nfc xs ∧ UAX15.nfd (UAX15.nfc xs) = UAX15.nfd xs :=
  ⟨UAX15.nfc_idem xs, UAX15.nfd_nfc xs⟩

/-- the code BEFORE the repair (`unrepaired`): the same, when the NFD of the string lies in the BMP; the full statement is false:
`nfc_cast_witness` -/
theorem nfc_is_uax15_partial (xs : List Nat) (h : ∀ c ∈ xs, UCD.assigned c = true ∧ c ≠ 0x37E)
    (hbmp : ∀ d ∈ UAX15.nfd xs, d < 0x10000) : nfcPure unrepaired xs = UAX15.nfc xs := nfcPure_unrepaired_is_uax15_bmp xs h hbmp

example : UAX15.nfc [0x61, 0x323, 0x302] = [0x1EAD] ∧ UAX15.nfd [0x1EAD] = [0x61, 0x323, 0x302] ∧
    (wcsnormS current 1 16 [0x61, 0x302, 0x323]).out = [0x1EAD] := by decide +kernel

/-- the composition lists = UCD 14.0's primary composites: every primary composite is returned for its canonical pair and is
not excluded (code as it is and repaired); every stored pair whose composite is assigned and not excluded is a primary
composite with exactly that pair -/
theorem nfc_pairs_table :
    (∀ i < UCD14.compN, compositeCp unrepaired (ucdComp i).1 (ucdComp i).2.1 = (ucdComp i).2.2 ∧ isExcl (ucdComp i).2.2 = false ∧
                        compositeCp allFixed (ucdComp i).1 (ucdComp i).2.1 = (ucdComp i).2.2) ∧
    (∀ i < UniCompos.listsN, compBwdOk i = true) := by
  have h := comp_fwd_check
  simp only [Bool.and_eq_true] at h
  refine ⟨fun i hi => ?_, fun i hi => allBelow_spec comp_bwd_check i hi⟩
  have h1 := allBelow_spec h.1 i hi
  have h2 := allBelow_spec h.2 i hi
  simp only [compFwdOk, Bool.and_eq_true, beq_iff_eq, Bool.not_eq_eq_eq_not, Bool.not_true] at h1 h2
  exact ⟨h1.1, h1.2, h2.1⟩

/-- Hangul: L+V and LV+T compose to the syllable whose (standard) decomposition is exactly L V (T), all L, V, T -/
theorem nfc_hangul (fx : Fixes) (l v t : Nat) (hl : l < 19) (hv : v < 21) (ht0 : 0 < t) (ht : t < 28) :
    compositeCp fx (0x1100 + l) (0x1161 + v) = 0xAC00 + (l * 21 + v) * 28 ∧
    compositeCp fx (0xAC00 + (l * 21 + v) * 28) (0x11A7 + t) = 0xAC00 + (l * 21 + v) * 28 + t ∧
    UCD.hangulDecomp (0xAC00 + (l * 21 + v) * 28 + t) = [0x1100 + l, 0x1161 + v, 0x11A7 + t] :=
  ⟨(hangul_LV fx l v hl hv).1, (hangul_LVT fx l v t hl hv ht0 ht).1, (hangul_LVT fx l v t hl hv ht0 ht).2⟩

/-- `a` + U+10300 OLD ITALIC LETTER A composes to U+00E0 (`(uint16_t)0x10300 = 0x0300`) -/
theorem nfc_cast_witness : (wcsnormS unrepaired 1 16 [0x61, 0x10300]).ret = 0 ∧ (wcsnormS unrepaired 1 16 [0x61, 0x10300]).out = [0xE0] ∧
    UCD.assigned 0x10300 = true ∧ UCD.ccc 0x10300 = 0 ∧ UCD.dm 0x10300 = none := by decide +kernel

/-- repaired (`fixes/wcsnorm-composite-full-width.diff`) -/
theorem nfc_cast_fixed : (wcsnormS allFixed 1 16 [0x61, 0x10300]).out = [0x61, 0x10300] ∧
    (wcsnormS allFixed 1 16 [0x61, 0x300]).out = [0xE0] ∧ (wcsnormS allFixed 1 16 [0x1100, 0x1161, 0x11A8]).out = [0xAC01] := by
  decide +kernel

/-! ## case folding -/
open SafeC.Fold

/-- the number of cells `towfc_s` writes = what `iswfc` announces (0 announced = the character itself: one cell), EVERY value of c:
a destination sized from the announced lengths always suffices -/
theorem fold_count (c : Nat) : (towfcCore c).2.length = max 1 (iswfc c) := fold_cells c

example : (towfcCore 0xfb03).2 = [0x66, 0x66, 0x69] ∧ iswfc 0xfb03 = 3 := by decide +kernel

/-- `iswfc c = 0` exactly when `towfc_s` leaves the character unchanged — outside the 748 listed code points, where the full
statement fails (`fold_announce_witness_b5`, `fold_announce_witness_3d2`, `fold_announce_exceptions`: the lists are tight) -/
theorem fold_announce_partial (c : Nat) (hz : inRanges announcesZeroButFolds c = false)
    (ho : inRanges announcesOneButUnchanged c = false) : iswfc c = 0 ↔ (towfcCore c).2 = [c] := fold_announce_all c hz ho

theorem fold_announce_witness : (iswfc 0xb5 = 0 ∧ (towfcCore 0xb5).2 = [0x3bc]) ∧ (iswfc 0x3d2 = 1 ∧ (towfcCore 0x3d2).2 = [0x3d2]) :=
  ⟨fold_announce_witness_b5, fold_announce_witness_3d2⟩

end SafeC.Props.C17

import SafeC.Proofs.AccStp
import SafeC.Props.C02Ext6
/-!
# C02 for the whole bumper-loop copy family, every argument combination

`strcpy_s strncpy_s strcat_s strncat_s wcscpy_s wcsncpy_s wcscat_s wcsncat_s stpcpy_s stpncpy_s`: ONLY dest's `dmax`
cells (readable and writable) and the string at `src` — up to and including its terminator, cut at `dmax` cells
(unbounded functions) / at `min dmax slen` cells (bounded ones) — are mapped.  Then every call returns without a
stray access: NULL pointers, zero and oversized `dmax` / `slen`, object sizes known or unknown (`destbos`, `srcbos`
arbitrary), both slack configurations, ANY placement of the two operands (disjoint, overlapping either way, equal),
dest terminated or not.  These loops test `dmax`, the overlap bumper and `slen` before they dereference `src`, and
`while (*dest != '\0')` of the concatenations counts `dmax` down before it advances: no read-before-bound here, the
statements are full ones.  (`Props/C02.lean` had `strcpy_s strncpy_s wcscpy_s strcat_s` for valid arguments, unknown
object size and disjoint operands only; the `_all` theorems supersede them.)

ONE exit leaves the declared extent: `strncpy_s strncat_s stpncpy_s` with `slen > srcbos` and a known `destbos` call
`handle_str_bos_overflow(dest, destbos)`, which measures (`strnlen_s(dest, destbos)`) and clears dest up to the
OBJECT size instead of `dmax` — `bos_probe_reads_to_destbos_witness`; the three theorems are `_partial` with
`hov : destbos ≤ dmax on that exit` (the write side is the known finding `slen-exceeds-srcbos-clears-destbos`).
-/
namespace SafeC.Props.C02
open SafeC Gen

/-- **strcpy_s**, all arguments -/
theorem strcpy_s_C02_all (cfg : Cfg) (dest dmax src : Nat) (db : Bos) (st : St)
    (hd : dest ≠ 0 → RW st dest dmax) (hs : src ≠ 0 → StrRd st src dmax) :
    Runs (strcpy_s cfg dest dmax src db) st :=
  runs_of_AccS (strcpyG_accs _ cfg dest dmax src db hs (fun h => Rd_of_RW (hd h)) (fun h => Wr_of_RW (hd h)))

/-- **strcat_s**, all arguments (known object sizes, NULL pointers, any placement, dest unterminated) -/
theorem strcat_s_C02_all (cfg : Cfg) (dest dmax src : Nat) (db : Bos) (st : St)
    (hd : dest ≠ 0 → RW st dest dmax) (hs : src ≠ 0 → StrRd st src dmax) :
    Runs (strcat_s cfg dest dmax src db) st :=
  runs_of_AccS (strcatG_accs _ cfg dest dmax src db hs (fun h => Rd_of_RW (hd h)) (fun h => Wr_of_RW (hd h)))

/-- **wcscpy_s**, all arguments -/
theorem wcscpy_s_C02_all (cfg : Cfg) (dest dmax src : Nat) (db : Bos) (st : St)
    (hd : dest ≠ 0 → RW st dest dmax) (hs : src ≠ 0 → StrRd st src dmax) :
    Runs (wcscpy_s cfg dest dmax src db) st :=
  runs_of_AccS (wcscpy_s_accs cfg dest dmax src db hs (fun h => Wr_of_RW (hd h)))

/-- **wcscat_s** (FULL) -/
theorem wcscat_s_C02 (cfg : Cfg) (dest dmax src : Nat) (db : Bos) (st : St)
    (hd : dest ≠ 0 → RW st dest dmax) (hs : src ≠ 0 → StrRd st src dmax) :
    Runs (wcscat_s cfg dest dmax src db) st :=
  runs_of_AccS (wcscat_s_accs cfg dest dmax src db hs (fun h => Rd_of_RW (hd h)) (fun h => Wr_of_RW (hd h)))

/-- **wcsncpy_s** (FULL): at most `min dmax slen` cells of `src`, and not behind its terminator -/
theorem wcsncpy_s_C02 (cfg : Cfg) (dest dmax src slen : Nat) (db sb : Bos) (st : St)
    (hd : dest ≠ 0 → RW st dest dmax) (hs : src ≠ 0 → StrRd st src (min dmax slen)) :
    Runs (wcsncpy_s cfg dest dmax src slen db sb) st :=
  runs_of_AccS (wcsncpy_s_accs cfg dest dmax src slen db sb hs (fun h => Rd_of_RW (hd h)) (fun h => Wr_of_RW (hd h)))

/-- **wcsncat_s** (FULL) -/
theorem wcsncat_s_C02 (cfg : Cfg) (dest dmax src slen : Nat) (db sb : Bos) (st : St)
    (hd : dest ≠ 0 → RW st dest dmax) (hs : src ≠ 0 → StrRd st src (min dmax slen)) :
    Runs (wcsncat_s cfg dest dmax src slen db sb) st :=
  runs_of_AccS (wcsncat_s_accs cfg dest dmax src slen db sb hs (fun h => Rd_of_RW (hd h)) (fun h => Wr_of_RW (hd h)))

/-- **stpcpy_s** (FULL; `srcbos` arbitrary: the countdown `slen >= srcbos` only ends the loop earlier) -/
theorem stpcpy_s_C02 (cfg : Cfg) (dest dmax src : Nat) (db sb : Bos) (st : St)
    (hd : dest ≠ 0 → RW st dest dmax) (hs : src ≠ 0 → StrRd st src dmax) :
    Runs (stpcpy_s cfg dest dmax src db sb) st :=
  runs_of_AccS (stpcpy_s_accs cfg dest dmax src db sb hs (fun h => Rd_of_RW (hd h)) (fun h => Wr_of_RW (hd h)))

/- The full statements of the three bounded narrow functions are FALSE of the model (and of the C):
   `strncpy_s_C02_all : (dest ≠ 0 → RW st dest dmax) → (src ≠ 0 → StrRd st src (min dmax slen)) → Runs (strncpy_s …) st`
   fails for `destbos = some 4 > dmax = 2`, `srcbos = some 1 < slen = 2` — see `bos_probe_reads_to_destbos_witness`. -/

/-- **strncpy_s**, all arguments except: on the `slen > srcbos` exit a known `destbos` does not exceed `dmax` -/
theorem strncpy_s_C02_all_partial (cfg : Cfg) (dest dmax src slen : Nat) (db sb : Bos) (st : St)
    (hov : ∀ b s, db = some b → sb = some s → s < slen → b ≤ dmax)
    (hd : dest ≠ 0 → RW st dest dmax) (hs : src ≠ 0 → StrRd st src (min dmax slen)) :
    Runs (strncpy_s cfg dest dmax src slen db sb) st :=
  runs_of_AccS (strncpyG_accs _ cfg dest dmax src slen db sb (fun h => hob_of_hov hov (Rd_of_RW (hd h)) (Wr_of_RW (hd h))) hs
    (fun h => Rd_of_RW (hd h)) (fun h => Wr_of_RW (hd h)))

/-- **strncat_s**, same exception -/
theorem strncat_s_C02_partial (cfg : Cfg) (dest dmax src slen : Nat) (db sb : Bos) (st : St)
    (hov : ∀ b s, db = some b → sb = some s → s < slen → b ≤ dmax)
    (hd : dest ≠ 0 → RW st dest dmax) (hs : src ≠ 0 → StrRd st src (min dmax slen)) :
    Runs (strncat_s cfg dest dmax src slen db sb) st :=
  runs_of_AccS (strncatG_accs _ cfg dest dmax src slen db sb (fun h => hob_of_hov hov (Rd_of_RW (hd h)) (Wr_of_RW (hd h))) hs
    (fun h => Rd_of_RW (hd h)) (fun h => Wr_of_RW (hd h)))

/-- **stpncpy_s**, same exception -/
theorem stpncpy_s_C02_partial (cfg : Cfg) (dest dmax src slen : Nat) (db sb : Bos) (st : St)
    (hov : ∀ b s, db = some b → sb = some s → s < slen → b ≤ dmax)
    (hd : dest ≠ 0 → RW st dest dmax) (hs : src ≠ 0 → StrRd st src (min dmax slen)) :
    Runs (stpncpy_s cfg dest dmax src slen db sb) st :=
  runs_of_AccS (stpncpy_s_accs cfg dest dmax src slen db sb (fun h => hob_of_hov hov (Rd_of_RW (hd h)) (Wr_of_RW (hd h))) hs
    (fun h => Rd_of_RW (hd h)) (fun h => Wr_of_RW (hd h)))

/-- the same three with the object sizes as the property's "unknown to the library" case: FULL -/
theorem strncat_s_C02_nobos (cfg : Cfg) (dest dmax src slen : Nat) (st : St)
    (hd : dest ≠ 0 → RW st dest dmax) (hs : src ≠ 0 → StrRd st src (min dmax slen)) :
    Runs (strncat_s cfg dest dmax src slen none none) st :=
  strncat_s_C02_partial cfg dest dmax src slen none none st (fun _ _ h => by cases h) hd hs

theorem stpncpy_s_C02_nobos (cfg : Cfg) (dest dmax src slen : Nat) (st : St)
    (hd : dest ≠ 0 → RW st dest dmax) (hs : src ≠ 0 → StrRd st src (min dmax slen)) :
    Runs (stpncpy_s cfg dest dmax src slen none none) st :=
  stpncpy_s_C02_partial cfg dest dmax src slen none none st (fun _ _ h => by cases h) hd hs

/-! ## the same three, FULL, with the whole OBJECT declared on the `slen > srcbos` exit

`hobj`: when `slen` exceeds a known `srcbos` and `destbos` is known, the `destbos` cells of the object dest points into are
readable and writable (they exist — that is what `__builtin_object_size` says — but lie outside what the CALL declared). -/

/-- **strncpy_s** (FULL w.r.t. the object): never leaves `max dmax destbos` cells of dest -/
theorem strncpy_s_C02_object (cfg : Cfg) (dest dmax src slen : Nat) (db sb : Bos) (st : St)
    (hobj : dest ≠ 0 → ∀ b s, db = some b → sb = some s → s < slen → RW st dest b)
    (hd : dest ≠ 0 → RW st dest dmax) (hs : src ≠ 0 → StrRd st src (min dmax slen)) :
    Runs (strncpy_s cfg dest dmax src slen db sb) st :=
  runs_of_AccS (strncpyG_accs _ cfg dest dmax src slen db sb
    (fun h b s h1 h2 h3 => ⟨Rd_of_RW (hobj h b s h1 h2 h3), Wr_of_RW (hobj h b s h1 h2 h3)⟩) hs
    (fun h => Rd_of_RW (hd h)) (fun h => Wr_of_RW (hd h)))

/-- **strncat_s** (FULL w.r.t. the object) -/
theorem strncat_s_C02_object (cfg : Cfg) (dest dmax src slen : Nat) (db sb : Bos) (st : St)
    (hobj : dest ≠ 0 → ∀ b s, db = some b → sb = some s → s < slen → RW st dest b)
    (hd : dest ≠ 0 → RW st dest dmax) (hs : src ≠ 0 → StrRd st src (min dmax slen)) :
    Runs (strncat_s cfg dest dmax src slen db sb) st :=
  runs_of_AccS (strncatG_accs _ cfg dest dmax src slen db sb
    (fun h b s h1 h2 h3 => ⟨Rd_of_RW (hobj h b s h1 h2 h3), Wr_of_RW (hobj h b s h1 h2 h3)⟩) hs
    (fun h => Rd_of_RW (hd h)) (fun h => Wr_of_RW (hd h)))

/-- **stpncpy_s** (FULL w.r.t. the object) -/
theorem stpncpy_s_C02_object (cfg : Cfg) (dest dmax src slen : Nat) (db sb : Bos) (st : St)
    (hobj : dest ≠ 0 → ∀ b s, db = some b → sb = some s → s < slen → RW st dest b)
    (hd : dest ≠ 0 → RW st dest dmax) (hs : src ≠ 0 → StrRd st src (min dmax slen)) :
    Runs (stpncpy_s cfg dest dmax src slen db sb) st :=
  runs_of_AccS (stpncpy_s_accs cfg dest dmax src slen db sb
    (fun h b s h1 h2 h3 => ⟨Rd_of_RW (hobj h b s h1 h2 h3), Wr_of_RW (hobj h b s h1 h2 h3)⟩) hs
    (fun h => Rd_of_RW (hd h)) (fun h => Wr_of_RW (hd h)))

/-! ## witness -/

/-- class `bos-probe-reads-to-destbos` (NEW): `strncpy_s(dest, 2, src, 2)` with `destbos = 4`, `srcbos = 1`: the
`slen > srcbos` exit runs `strnlen_s(dest, destbos)` over the unterminated `{'a','b'}` and reads `dest[2]`, outside the
two declared cells -/
theorem bos_probe_reads_to_destbos_witness :
    exec (strncpy_s {} 100 2 200 2 (some 4) (some 1))
      (winW (fun a => if a = 100 then 97 else if a = 101 then 98 else if a = 200 then 120 else if a = 201 then 121 else 0)
        100 102 200 202) = .error (.read 102) := faultOf_ok (by decide)

/-- non-vacuity: unterminated 5-cell dest and unterminated 3-cell source, each flush against unmapped memory
(`StrRd … 3`: exactly the three cells) -/
example : ∃ st : St, RW st 100 5 ∧ StrRd st 200 (min 5 3) ∧ ¬ Term st 100 5 ∧ ¬ Term st 200 3 ∧
    st.mapped 105 = false ∧ st.mapped 203 = false :=
  ⟨winW (fun _ => 7) 100 105 200 203, fun i hi => by simp [winW, win]; omega,
   StrRd.of_RD (n := 3) (fun i hi => by simp [winW, win]; omega) (by omega),
   fun ⟨i, _, h⟩ => by simp [winW, win] at h, fun ⟨i, _, h⟩ => by simp [winW, win] at h, by decide, by decide⟩

/-- non-vacuity, overlapping placement: `src = dest + 2` inside the same 6 mapped cells -/
example : ∃ st : St, RW st 100 6 ∧ StrRd st 102 6 ∧ st.mapped 106 = false :=
  ⟨winW (fun a => if a = 105 then 0 else 7) 100 106 0 0, fun i hi => by simp [winW, win]; omega,
   StrRd.of_RD_term (n := 4) (fun i hi => by simp [winW, win]; omega) ⟨3, by omega, by simp [winW, win]⟩ 6, by decide⟩

end SafeC.Props.C02

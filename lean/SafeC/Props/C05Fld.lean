import SafeC.Props.C05Copy
import SafeC.Models.Fld
/-!
# C05 for the field copies strcpyfld_s / strcpyfldin_s / strcpyfldout_s (event judgement)

All arguments, all memory contents, all placements: nothing reported and EOK, or exactly one str-handler event carrying the
returned code — under `SmallBos` (object size unknown, or known and within 1..RSIZE_MAX_STR: above that the inner
`strnlen_s` of the clearing exits reports a second time, the `slen-bos` class of known findings).
-/
namespace SafeC.Props.C05Query
open SafeC Gen SafeC.Props.C05Ev SafeC.Props.C05Mem

theorem fldLoop_ev (cfg : Cfg) (k : FldKind) (od : Bool) (bumper oD oM fuel d s m l : Nat) :
    EV (fldLoop cfg k od bumper oD oM fuel d s m l) PF := by
  induction fuel generalizing d s m l with
  | zero => unfold fldLoop; exact EV.pure (Q := PF) _ (Or.inl ⟨rfl, _, rfl⟩)
  | succ fuel ih =>
    unfold fldLoop
    have stop_q : Quiet (match k with
        | .fld => (pure (decide (l = 0)) : Prog Bool)
        | .fldin => if m = 0 ∨ l = 0 then pure true else do let c ← load s; pure (decide (c = 0))
        | .fldout => pure (decide (¬ (m > 1 ∧ l ≠ 0)))) := by
      cases k <;> quiet
    refine Quiet.then_ stop_q (fun b => ?_)
    have step : EV (do
        let c ← load s
        store d c
        have slen' : Nat := l - 1
        fldLoop cfg k od bumper oD oM fuel (d + 1) (s + 1) (m - 1) slen') PF := by
      refine Quiet.then_ (Quiet.loadP _) (fun c => ?_)
      refine Quiet.then_ (Quiet.storeP _ _) (fun _ => ?_)
      exact ih _ _ _ _
    have ovr : EV (do handleError cfg oD oM ESOVRLP; pure (Sum.inl ESOVRLP) : Prog (Nat ⊕ (Nat × Nat))) PF :=
      EV.bind (EV.handleError _ _ _ _) (fun _ es he => by
        subst he; exact EV.pure _ (Or.inr ⟨_, rfl, ne_ESOVRLP, by simp⟩))
    cases b with
    | true => exact EV.pure (Q := PF) _ (Or.inl ⟨rfl, _, rfl⟩)
    | false =>
      cases od with
      | true =>
        simp only [Bool.false_eq_true, if_false, if_true]
        split
        · exact ovr
        · exact step
      | false =>
        simp only [Bool.false_eq_true, if_false]
        split
        · exact ovr
        · exact step

theorem chkSlenNospcClear_ev (cfg : Cfg) (dest dmax slen : Nat) {k : Prog Nat} (hd : dest ≠ 0) (hz : dmax ≠ 0)
    (hm : dmax ≤ RSIZE_MAX_STR) (hk : EV k PC) : EV (chkSlenNospcClear cfg dest dmax slen RSIZE_MAX_STR k) PC := by
  unfold chkSlenNospcClear
  split
  · dsimp only
    refine Quiet.then_ (q_strnlen_s_ok _ _ _ hd hz hm) (fun len => ?_)
    split
    · exact handleError_ret_once _ _ _ _ ne_ESLEMAX
    · exact handleError_ret_once _ _ _ _ ne_ESNOSPC
  · exact hk

theorem fldBody_ev (k : FldKind) (cfg : Cfg) (dest dmax src slen : Nat) (hd : dest ≠ 0) (hz : dmax ≠ 0)
    (hm : dmax ≤ RSIZE_MAX_STR) :
    EV (if src = 0 then do handleError cfg dest dmax ESNULLP; pure ESNULLP
        else chkSlenNospcClear cfg dest dmax slen RSIZE_MAX_STR <| do
          let fuel := (match k with | .fld => slen | _ => dmax)
          let r ← (if dest < src then fldLoop cfg k true src dest dmax fuel dest src dmax slen
                   else fldLoop cfg k false dest dest dmax fuel dest src dmax slen)
          match r with
          | .inl code => pure code
          | .inr (d, m) => do
            nullSlack d m
            pure EOK : Prog Nat) PC := by
  split
  · exact handleError_ret_once _ _ _ _ ne_ESNULLP
  refine chkSlenNospcClear_ev _ _ _ _ hd hz hm ?_
  dsimp only
  have tail : ∀ (p : Prog (Nat ⊕ (Nat × Nat))), EV p PF →
      EV (do let r ← p
             match r with
             | .inl code => pure code
             | .inr (d, m) => do nullSlack d m; pure EOK : Prog Nat) PC := by
    intro p hp
    refine EV.bind hp (fun r es h => ?_)
    rcases h with ⟨rfl, ⟨x, y⟩, rfl⟩ | ⟨c, rfl, hc, rfl⟩
    · simp only [List.nil_append]
      exact Quiet.then_ (Quiet.nullSlack _ _) (fun _ => eok_once)
    · exact EV.pure _ (Or.inr ⟨hc, by simp⟩)
  split
  · exact tail _ (fldLoop_ev ..)
  · exact tail _ (fldLoop_ev ..)

/-- strcpyfld_s / strcpyfldin_s / strcpyfldout_s: the discipline for all arguments and memory under `SmallBos` -/
theorem fldG_ev_partial (k : FldKind) (cfg : Cfg) (dest dmax src slen : Nat) (db : Bos) (hb : SmallBos db) :
    EV (fldG k cfg dest dmax src slen db) PC := by
  unfold fldG
  split
  · exact eok_once
  split
  · exact failS_once _ ne_ESNULLP
  split
  · exact failS_once _ ne_ESZEROL
  dsimp only
  have hm : (∀ b, db = some b → dmax ≤ b) → (db = none → dmax ≤ RSIZE_MAX_STR) → dmax ≤ RSIZE_MAX_STR := by
    intro h1 h2
    cases db with
    | none => exact h2 rfl
    | some b => exact Nat.le_trans (h1 b rfl) (hb b rfl).2
  cases k with
  | fld =>
    exact chkDmaxClear_ev _ _ _ _ (by assumption) (by assumption) hb
      (fun h1 h2 => fldBody_ev .fld cfg dest dmax src slen (by assumption) (by assumption) (hm h1 h2))
  | fldin =>
    dsimp only
    unfold chkDmax
    split
    · split
      · exact failS_once _ ne_ESLEMAX
      · exact fldBody_ev .fldin cfg dest dmax src slen (by assumption) (by assumption) (by omega)
    · rename_i b
      split
      · split
        · exact failS_once _ ne_ESLEMAX
        · exact failS_once _ ne_EOVERFLOW
      · exact fldBody_ev .fldin cfg dest dmax src slen (by assumption) (by assumption)
          (Nat.le_trans (by omega) (hb b rfl).2)
  | fldout =>
    dsimp only
    unfold chkDmax
    split
    · split
      · exact failS_once _ ne_ESLEMAX
      · exact fldBody_ev .fldout cfg dest dmax src slen (by assumption) (by assumption) (by omega)
    · rename_i b
      split
      · split
        · exact failS_once _ ne_ESLEMAX
        · exact failS_once _ ne_EOVERFLOW
      · exact fldBody_ev .fldout cfg dest dmax src slen (by assumption) (by assumption)
          (Nat.le_trans (by omega) (hb b rfl).2)

theorem strcpyfld_s_ev_partial (cfg : Cfg) (dest dmax src slen : Nat) (db : Bos) (hb : SmallBos db) :
    EV (strcpyfld_s cfg dest dmax src slen db) PC := fldG_ev_partial _ _ _ _ _ _ _ hb
theorem strcpyfldin_s_ev_partial (cfg : Cfg) (dest dmax src slen : Nat) (db : Bos) (hb : SmallBos db) :
    EV (strcpyfldin_s cfg dest dmax src slen db) PC := fldG_ev_partial _ _ _ _ _ _ _ hb
theorem strcpyfldout_s_ev_partial (cfg : Cfg) (dest dmax src slen : Nat) (db : Bos) (hb : SmallBos db) :
    EV (strcpyfldout_s cfg dest dmax src slen db) PC := fldG_ev_partial _ _ _ _ _ _ _ hb

end SafeC.Props.C05Query

import SafeC.Proofs.FmtScan
/-!
# C09 — the `%n` pre-scan against the format grammar of the C standard

Specification: `SafeC/Proofs/FmtGram.lean` — `PParse fmt b` / `SParse okSet fmt b`: "`fmt` is a printf / scanf format of
the grammar `literal* ( %% | % flags* width? (.prec)? length? conv )*` and `b` tells whether it has an `n` conversion
(scanf: one that stores)".  The quantifier of the property is exactly this language.  The scanner is `prescan`
(`strstr(fmt, "%n")` + one character of look-behind), shared by all 28 entry points; for the 21 libc-delegating ones
(scanf_s family, wide printf family, `vprintf_s`) it is the only defence.

|                         | printf grammar                                  | scanf grammar                                         |
|-------------------------|-------------------------------------------------|-------------------------------------------------------|
| soundness (rejects ⇒ n) | `prescan_sound_printf` FULL                     | false (`%[%n]`): `_partial` (no `%` in scan sets) + `_witness` |
| completeness (n ⇒ rejects) | false: `_partial` (a bare `%n`, no `%%n`) + `_witness`; exact set `prescan_printf_exact` | false: `_partial` + `_witness` |
-/
namespace SafeC.Props.C09
open SafeC.Fmt SafeC.Fmt.Gram

/-! ## printf grammar: soundness (FULL) -/

/-- the scanner lets every format of the printf grammar without `n` conversion through: any length, any flags, width,
    precision, length modifiers, `%%`, text before and after -/
theorem prescan_sound_printf (fmt : Str) (h : PParse fmt false) : prescan fmt = false := by
  cases hp : prescan fmt with
  | false => rfl
  | true =>
    rw [prescan_eq_look fmt (p := 'x') (by decide)] at hp
    exact absurd (look_sound h 'x' hp) (by decide)

/-- the same, read the other way: a format of the grammar that the scanner rejects has an `n` conversion -/
theorem prescan_rejects_has_n (fmt : Str) (hwf : PWf fmt) (h : prescan fmt = true) : PHasN fmt := by
  obtain ⟨b, hb⟩ := hwf
  cases b with
  | true => exact hb
  | false => rw [prescan_sound_printf fmt hb] at h; cases h

example : prescan "100%% of %-08.3lld, %s%%".toList = false :=
  prescan_sound_printf _ <|
    PParse.lit (by decide) <| PParse.lit (by decide) <| PParse.lit (by decide) <| PParse.esc <|
    PParse.lit (by decide) <| PParse.lit (by decide) <| PParse.lit (by decide) <| PParse.lit (by decide) <|
    PParse.conv (d := ⟨['-', '0'], ['8'], ['.', '3'], ['l', 'l']⟩) (c := 'd') (by decide) (by decide) <|
    PParse.lit (by decide) <| PParse.lit (by decide) <|
    PParse.conv (d := Decor.none) (c := 's') (by decide) (by decide) <| PParse.esc PParse.nil

/-- outside the grammar the scanner is conservative: `%5%n` is rejected although neither glibc's grammar nor the
    standard's finds an `n` conversion in it (`%5%` is not a conversion specification of the standard) -/
theorem prescan_outside_grammar_witness :
    prescan ['%', '5', '%', 'n'] = true ∧ libcPrintfStoresN ['%', '5', '%', 'n'] = false := by decide

/-! ## printf grammar: completeness -/

/- FULL STATEMENT (false):
   theorem prescan_complete_printf (fmt : Str) (h : PHasN fmt) : prescan fmt = true -/

theorem hasN_single (d : Decor) (hd : d.ok = true) : PHasN ('%' :: (d.text ++ ['n'])) := by
  simpa using pparse_n_anywhere (pre := []) (post := []) d hd PParse.nil PParse.nil

/-- formats of the grammar with an `n` conversion that the scanner lets through: a length modifier, a width, a flag,
    `*`, a precision, an escaped percent sign in front, an earlier `%%n` -/
theorem prescan_complete_printf_witness :
    (PHasN ['%', 'l', 'n'] ∧ prescan ['%', 'l', 'n'] = false) ∧
    (PHasN ['%', 'h', 'h', 'n'] ∧ prescan ['%', 'h', 'h', 'n'] = false) ∧
    (PHasN ['%', '5', 'n'] ∧ prescan ['%', '5', 'n'] = false) ∧
    (PHasN ['%', '-', 'n'] ∧ prescan ['%', '-', 'n'] = false) ∧
    (PHasN ['%', '*', 'n'] ∧ prescan ['%', '*', 'n'] = false) ∧
    (PHasN ['%', '.', '3', 'n'] ∧ prescan ['%', '.', '3', 'n'] = false) ∧
    (PHasN ['%', '%', '%', 'n'] ∧ prescan ['%', '%', '%', 'n'] = false) ∧
    (PHasN ['%', '%', 'n', '%', 'n'] ∧ prescan ['%', '%', 'n', '%', 'n'] = false) :=
  ⟨⟨hasN_single ⟨[], [], [], ['l']⟩ (by decide), by decide⟩,
   ⟨hasN_single ⟨[], [], [], ['h', 'h']⟩ (by decide), by decide⟩,
   ⟨hasN_single ⟨[], ['5'], [], []⟩ (by decide), by decide⟩,
   ⟨hasN_single ⟨['-'], [], [], []⟩ (by decide), by decide⟩,
   ⟨hasN_single ⟨[], ['*'], [], []⟩ (by decide), by decide⟩,
   ⟨hasN_single ⟨[], [], ['.', '3'], []⟩ (by decide), by decide⟩,
   ⟨PParse.esc (hasN_single Decor.none (by decide)), by decide⟩,
   ⟨PParse.esc (PParse.lit (by decide) (hasN_single Decor.none (by decide))), by decide⟩⟩

/-- what the proof needs: some conversion specification is written exactly `%n`, and nowhere do the three characters
    `%%n` occur.  (The first hypothesis alone gives the occurrence of `%n` — `PHasBareN.infix`; the scanner only looks at
    the FIRST occurrence, hence the second.) -/
theorem prescan_complete_printf_partial (fmt : Str) (h : PHasBareN fmt) (hesc : ¬ ['%', '%', 'n'] <:+: fmt) :
    prescan fmt = true :=
  prescan_of_infix h.infix hesc

example : prescan "a%5d%%b%n%s".toList = true :=
  prescan_complete_printf_partial _
    ⟨"a%5d%%b".toList, "%s".toList, false, false,
      PParse.lit (by decide) <| PParse.conv (d := ⟨[], ['5'], [], []⟩) (c := 'd') (by decide) (by decide) <|
        PParse.esc <| PParse.lit (by decide) PParse.nil,
      PParse.conv (d := Decor.none) (c := 's') (by decide) (by decide) PParse.nil, by decide⟩
    (noPctPctN_sound (by decide))

/-- **the exact set of formats of the grammar that the scanner rejects**: `PRej` — a bare `%n` that comes before every
    `%%n` and does not itself stand directly behind a `%%` -/
theorem prescan_printf_exact (fmt : Str) (hwf : PWf fmt) : prescan fmt = true ↔ PRej fmt := by
  obtain ⟨b, hb⟩ := hwf
  constructor
  · intro hp
    rw [prescan_eq_look fmt (p := 'x') (by decide)] at hp
    exact PRej_of_look hb 'x' (by decide) hp
  · intro hr
    rw [prescan_eq_look fmt (p := 'x') (by decide)]
    exact look_of_PRej hr 'x' (by decide)

/-- every rejected format of the grammar has an `n` conversion (soundness once more, from the exact set) -/
theorem prescan_rejected_set_has_n (fmt : Str) (h : PRej fmt) : PHasN fmt := h.hasN

/-! ## scanf grammar -/

/- FULL STATEMENT (false):
   theorem prescan_sound_scanf (fmt : Str) (h : SParseAll fmt false) : prescan fmt = false -/

/-- the scan set `%[%n]` has the members `%` and `n`; it stores through no `n` conversion, the scanner rejects it -/
theorem prescan_sound_scanf_witness :
    SParseAll ['%', '[', '%', 'n', ']'] false ∧ prescan ['%', '[', '%', 'n', ']'] = true :=
  ⟨SParse.set (d := ⟨false, [], []⟩) (s := ⟨false, '%', ['n']⟩) (by decide) (by decide) trivial SParse.nil, by decide⟩

/-- scanf formats of the grammar in which no scan set has `%` as a member: the scanner lets every one without a storing
    `n` conversion through (`%*n`, which stores nothing, included) -/
theorem prescan_sound_scanf_partial (fmt : Str) (h : SParseNoPct fmt false) : prescan fmt = false := by
  cases hp : prescan fmt with
  | false => rfl
  | true =>
    rw [prescan_eq_look fmt (p := 'x') (by decide)] at hp
    exact absurd (slook_sound h 'x' hp) (by decide)

example : prescan "%d %*n%5s%[^]a-z]%%".toList = false :=
  prescan_sound_scanf_partial _ <|
    SParse.conv (d := ⟨false, [], []⟩) (c := 'd') (by decide) (by decide) <| SParse.lit (by decide) <|
    SParse.conv (d := ⟨true, [], []⟩) (c := 'n') (by decide) (by decide) <|
    SParse.conv (d := ⟨false, ['5'], []⟩) (c := 's') (by decide) (by decide) <|
    SParse.set (d := ⟨false, [], []⟩) (s := ⟨true, ']', ['a', '-', 'z']⟩) (by decide) (by decide) (by decide) <|
    SParse.esc SParse.nil

/- FULL STATEMENT (false):
   theorem prescan_complete_scanf (fmt : Str) (h : SParseAll fmt true) : prescan fmt = true -/

theorem shasN_single (d : SDecor) (hd : d.ok = true) (hs : d.sup = false) : SParseAll ('%' :: (d.text ++ ['n'])) true := by
  have := SParse.conv (okSet := fun _ => True) (d := d) (c := 'n') hd (by decide) SParse.nil
  simpa [hs] using this

theorem prescan_complete_scanf_witness :
    (SParseAll ['%', 'l', 'n'] true ∧ prescan ['%', 'l', 'n'] = false) ∧
    (SParseAll ['%', 'h', 'h', 'n'] true ∧ prescan ['%', 'h', 'h', 'n'] = false) ∧
    (SParseAll ['%', '5', 'n'] true ∧ prescan ['%', '5', 'n'] = false) ∧
    (SParseAll ['%', '%', '%', 'n'] true ∧ prescan ['%', '%', '%', 'n'] = false) ∧
    (SParseAll ['%', '%', 'n', '%', 'n'] true ∧ prescan ['%', '%', 'n', '%', 'n'] = false) :=
  ⟨⟨shasN_single ⟨false, [], ['l']⟩ (by decide) rfl, by decide⟩,
   ⟨shasN_single ⟨false, [], ['h', 'h']⟩ (by decide) rfl, by decide⟩,
   ⟨shasN_single ⟨false, ['5'], []⟩ (by decide) rfl, by decide⟩,
   ⟨SParse.esc (shasN_single ⟨false, [], []⟩ (by decide) rfl), by decide⟩,
   ⟨SParse.esc (SParse.lit (by decide) (shasN_single ⟨false, [], []⟩ (by decide) rfl)), by decide⟩⟩

theorem prescan_complete_scanf_partial (fmt : Str) (h : SHasBareN fmt) (hesc : ¬ ['%', '%', 'n'] <:+: fmt) :
    prescan fmt = true :=
  prescan_of_infix h.infix hesc

example : prescan "%d %n".toList = true :=
  prescan_complete_scanf_partial _
    ⟨"%d ".toList, [], false, false,
      SParse.conv (d := ⟨false, [], []⟩) (c := 'd') (by decide) (by decide) (SParse.lit (by decide) SParse.nil),
      SParse.nil, by decide⟩
    (noPctPctN_sound (by decide))

/-! ## the libc-delegating entry points (21 of the 28): scanner, then libc

Their models (`Models/Fmt.lean`): the call is rejected with EINVAL iff `prescan`; otherwise libc interprets the format,
`delegatingPrintfStores` / `delegatingScanfStores` = "not rejected and libc stores through an argument for an `n`". -/

/- FULL STATEMENT (false):
   theorem delegating_gram_C09 (fmt : Str) (h : PHasN fmt) : prescan fmt = true ∧ delegatingPrintfStores fmt = false -/

/-- wide printf family and `vprintf_s`: grammatical formats with an `n` conversion that are not rejected and through
    which libc stores -/
theorem delegating_gram_C09_witness :
    (PHasN ['%', 'l', 'n'] ∧ prescan ['%', 'l', 'n'] = false ∧ delegatingPrintfStores ['%', 'l', 'n'] = true) ∧
    (PHasN ['%', '%', '%', 'n'] ∧ prescan ['%', '%', '%', 'n'] = false ∧ delegatingPrintfStores ['%', '%', '%', 'n'] = true) :=
  ⟨⟨hasN_single ⟨[], [], [], ['l']⟩ (by decide), by decide, by decide⟩,
   ⟨PParse.esc (hasN_single Decor.none (by decide)), by decide, by decide⟩⟩

/-- with a bare `%n` and no `%%n`: rejected, and nothing is stored through an argument -/
theorem delegating_gram_C09_partial (fmt : Str) (h : PHasBareN fmt) (hesc : ¬ ['%', '%', 'n'] <:+: fmt) :
    prescan fmt = true ∧ delegatingPrintfStores fmt = false := by
  have hp := prescan_complete_printf_partial fmt h hesc
  exact ⟨hp, by simp [delegatingPrintfStores, hp]⟩

/- FULL STATEMENT (false):
   theorem delegating_scanf_gram_C09 (fmt : Str) (h : SParseAll fmt true) : prescan fmt = true ∧ delegatingScanfStores fmt = false -/

theorem delegating_scanf_gram_C09_witness :
    (SParseAll ['%', 'l', 'n'] true ∧ prescan ['%', 'l', 'n'] = false ∧ delegatingScanfStores ['%', 'l', 'n'] = true) ∧
    (SParseAll ['%', '%', '%', 'n'] true ∧ prescan ['%', '%', '%', 'n'] = false ∧ delegatingScanfStores ['%', '%', '%', 'n'] = true) :=
  ⟨⟨shasN_single ⟨false, [], ['l']⟩ (by decide) rfl, by decide, by decide⟩,
   ⟨SParse.esc (shasN_single ⟨false, [], []⟩ (by decide) rfl), by decide, by decide⟩⟩

theorem delegating_scanf_gram_C09_partial (fmt : Str) (h : SHasBareN fmt) (hesc : ¬ ['%', '%', 'n'] <:+: fmt) :
    prescan fmt = true ∧ delegatingScanfStores fmt = false := by
  have hp := prescan_complete_scanf_partial fmt h hesc
  exact ⟨hp, by simp [delegatingScanfStores, hp]⟩

/-- a rejected call stores nothing, whatever libc would have done with the format (both families, every format) -/
theorem delegating_rejected_stores_nothing (fmt : Str) (h : prescan fmt = true) :
    delegatingPrintfStores fmt = false ∧ delegatingScanfStores fmt = false := by
  simp [delegatingPrintfStores, delegatingScanfStores, h]

end SafeC.Props.C09

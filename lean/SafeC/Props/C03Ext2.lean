import SafeC.Props.C03Ext
import SafeC.Proofs.ExtNarrow
import SafeC.Proofs.ExtBos
/-! # C03 (extension 2): the narrow copy family with the object sizes known or unknown

`strcpy_s strncpy_s strcat_s strncat_s`, one statement each for `destbos` / `srcbos` unknown or known.
Setting as in `Props/C03.lean`: every cell mapped and readable with ARBITRARY contents (dest may be garbage
without a NUL, the source unterminated, the operands overlapping), dest's `dmax` cells writable, dest usable
(non-null, `0 < dmax ≤ RSIZE_MAX_STR`, `dmax` inside the object when its size is known), `cfg` arbitrary (both
slack configurations).  Conclusion: the call returns and a NUL exists in `dest[0..dmax)`.

* `strcpy_s`: the FULL statement is FALSE of the code (`dest == src` returns EOK untouched, recorded finding
  `same-pointer-shortcut`): `strcpy_s_C03_partial` has `dest ≠ src`, `strcpy_s_C03_witness` is the excluded point
  (here with a KNOWN object size; `Props/C03.lean` has it for the unknown one).
* `strcat_s`: FULL.  `strncat_s`: FULL incl. `slen = 0` (`Props/C03.lean` excluded it), for a source size that is
  unknown or contains `slen`.
* `strncpy_s`: FULL incl. `slen = 0`, for a source size that is unknown or contains `slen`; the `slen > srcbos`
  exit with dest's size unknown is the recorded finding `slen-exceeds-srcbos` (`strncpy_s_C03_srcbos_witness`).
-/
namespace SafeC.Props.C03Ext2
open SafeC Gen SafeC.Props.C01

/- FULL statement (FALSE of the code, see `strcpy_s_C03_witness`): the same without `hne`. -/
/-- strcpy_s, `dest ≠ src`, every src/placement/content, object size known or unknown, both builds -/
theorem strcpy_s_C03_partial (cfg : Cfg) (dest dmax src : Nat) (destbos : Bos) (st : St) (hs : Setting st)
    (hrw : RW st dest dmax) (hd : dest ≠ 0) (hpos : 0 < dmax) (hle : dmax ≤ RSIZE_MAX_STR)
    (hb : ∀ b, destbos = some b → dmax ≤ b) (hne : dest ≠ src) :
    ∃ code st', exec (strcpy_s cfg dest dmax src destbos) st = .ok (code, st') ∧
      ∃ i, i < dmax ∧ st'.data (dest + i) = 0 := by
  obtain ⟨code, st', he, _, hq⟩ := strcpy_s_ext cfg dest dmax src destbos st hs.all (fun _ => hrw)
  exact ⟨code, st', he, ((hq ⟨hd, hpos, hle, hb⟩).1 hne).1.term⟩

/-- dest = "a" without terminator (1 cell at 100) -/
def wSt : St :=
  { data := fun a => if a = 100 then 97 else 0, mapped := fun _ => true, rd := fun _ => true
    wr := fun a => decide (a = 100) }

/-- the excluded point with a KNOWN object size: `strcpy_s(d, 1, d)`, `BOS(d) = 1`, `d[0] = 'a'`: EOK, nothing
reported, dest untouched — no NUL in `dest[0..1)` (recorded: `same-pointer-shortcut`) -/
theorem strcpy_s_C03_witness :
    exec (strcpy_s {} 100 1 100 (some 1)) wSt = .ok (EOK, wSt) ∧ ¬ ∃ i, i < 1 ∧ wSt.data (100 + i) = 0 := by
  refine ⟨rfl, ?_⟩
  intro ⟨i, hi, h⟩
  have : i = 0 := by omega
  subst this
  simp [wSt] at h

/-- the shortcut in general: `dest == src` on a usable dest returns EOK and changes NOTHING, whatever dest holds -/
theorem strcpy_s_same_pointer (cfg : Cfg) (dest dmax : Nat) (destbos : Bos) (st : St) (hs : Setting st)
    (hrw : RW st dest dmax) (hd : dest ≠ 0) (hpos : 0 < dmax) (hle : dmax ≤ RSIZE_MAX_STR)
    (hb : ∀ b, destbos = some b → dmax ≤ b) :
    exec (strcpy_s cfg dest dmax dest destbos) st = .ok (EOK, st) := by
  obtain ⟨code, st', he, _, hq⟩ := strcpy_s_ext cfg dest dmax dest destbos st hs.all (fun _ => hrw)
  obtain ⟨h1, h2⟩ := (hq ⟨hd, hpos, hle, hb⟩).2 rfl
  rw [he, h1, h2]

/-- strncpy_s, every src/slen (incl. 0)/placement/content, object sizes known or unknown (`slen` inside a known
source object), both builds -/
theorem strncpy_s_C03 (cfg : Cfg) (dest dmax src slen : Nat) (destbos srcbos : Bos) (st : St) (hs : Setting st)
    (hrw : RW st dest dmax) (hd : dest ≠ 0) (hpos : 0 < dmax) (hle : dmax ≤ RSIZE_MAX_STR)
    (hb : ∀ b, destbos = some b → dmax ≤ b) (hsb : ∀ sb, srcbos = some sb → slen ≤ sb) :
    ∃ code st', exec (strncpy_s cfg dest dmax src slen destbos srcbos) st = .ok (code, st') ∧
      ∃ i, i < dmax ∧ st'.data (dest + i) = 0 := by
  obtain ⟨code, st', he, _, hq⟩ := strncpy_s_ext cfg dest dmax src slen destbos srcbos st hs.all (fun _ => hrw) hsb
  exact ⟨code, st', he, (hq ⟨hd, hpos, hle, hb⟩).1.term⟩

/-- dest = "wxyz" without terminator (4 cells at 100), src = "ab" (3 cells at 200) -/
def bSt : St :=
  { data := fun a => if 100 ≤ a ∧ a < 104 then 119 else if a = 200 then 97 else if a = 201 then 98 else 0
    mapped := fun _ => true, rd := fun _ => true
    wr := fun a => decide (100 ≤ a ∧ a < 104) }

/-- the point excluded by `hsb` (recorded: `slen-exceeds-srcbos`): `strncpy_s(d, 4, "ab", 5)` with `BOS(src) = 3`,
dest's size unknown, null-slack build: EOVERFLOW is returned and dest keeps its four non-NUL characters -/
theorem strncpy_s_C03_srcbos_witness :
    ∃ st', exec (strncpy_s { slack := true } 100 4 200 5 none (some 3)) bSt = .ok (EOVERFLOW, st') ∧
      ¬ ∃ i, i < 4 ∧ st'.data (100 + i) = 0 := by
  refine ⟨_, rfl, ?_⟩
  intro ⟨i, hi, h⟩
  have : i = 0 ∨ i = 1 ∨ i = 2 ∨ i = 3 := by omega
  rcases this with rfl | rfl | rfl | rfl <;> simp [bSt] at h

/-- strcat_s, every src/placement/content (dest terminated or not), object size known or unknown, both builds -/
theorem strcat_s_C03 (cfg : Cfg) (dest dmax src : Nat) (destbos : Bos) (st : St) (hs : Setting st)
    (hrw : RW st dest dmax) (hd : dest ≠ 0) (hpos : 0 < dmax) (hle : dmax ≤ RSIZE_MAX_STR)
    (hb : ∀ b, destbos = some b → dmax ≤ b) :
    ∃ code st', exec (strcat_s cfg dest dmax src destbos) st = .ok (code, st') ∧
      ∃ i, i < dmax ∧ st'.data (dest + i) = 0 := by
  obtain ⟨code, st', he, _, hq⟩ := strcat_s_ext cfg dest dmax src destbos st hs.all (fun _ => hrw)
  exact ⟨code, st', he, (hq ⟨hd, hpos, hle, hb⟩).1.term⟩

/-- strncat_s, every src/slen (incl. 0)/placement/content, object sizes known or unknown (`slen` inside a known
source object), both builds -/
theorem strncat_s_C03 (cfg : Cfg) (dest dmax src slen : Nat) (destbos srcbos : Bos) (st : St) (hs : Setting st)
    (hrw : RW st dest dmax) (hd : dest ≠ 0) (hpos : 0 < dmax) (hle : dmax ≤ RSIZE_MAX_STR)
    (hb : ∀ b, destbos = some b → dmax ≤ b) (hsb : ∀ sb, srcbos = some sb → slen ≤ sb) :
    ∃ code st', exec (strncat_s cfg dest dmax src slen destbos srcbos) st = .ok (code, st') ∧
      ∃ i, i < dmax ∧ st'.data (dest + i) = 0 := by
  obtain ⟨code, st', he, _, hq⟩ := strncat_s_ext cfg dest dmax src slen destbos srcbos st hs.all (fun _ => hrw) hsb
  exact ⟨code, st', he, (hq ⟨hd, hpos, hle, hb⟩).1.term⟩

/-- the hypotheses are satisfiable: dest = 5 writable cells at 100 inside an object of 8, src = "ab" at 200 inside an
object of 3, slen = 2 -/
example : Setting exSt ∧ RW exSt 100 5 ∧ (100 : Nat) ≠ 0 ∧ 0 < 5 ∧ 5 ≤ RSIZE_MAX_STR ∧
    (∀ b, (some 8 : Bos) = some b → 5 ≤ b) ∧ (∀ sb, (some 3 : Bos) = some sb → 2 ≤ sb) ∧ (100 : Nat) ≠ 200 := by
  refine ⟨⟨fun _ => ⟨rfl, rfl⟩, rfl⟩, fun i hi => ⟨rfl, ?_, rfl⟩, by decide, by decide, by decide, ?_, ?_, by decide⟩
  · simp [exSt]; omega
  · intro b h; cases h; decide
  · intro b h; cases h; decide

/-! ## `dmax` beyond a KNOWN object size

Outside C03's quantifier (dest is not usable), stated for completeness: the functions whose entry check is
`CHK_DEST_OVR_CLEAR` (the four copies, stpcpy_s, stpncpy_s, strcpyfld_s — `Props/C04Ext2.lean`, `*_C04_bos`, gives
`BosOver` for each) leave a NUL inside the OBJECT, at `dest[0]`, in both builds.  The functions that go through
`CHK_DEST_OVR` (strcpyfldin_s, strcpyfldout_s, strzero_s, strljustify_s, strremovews_s, strnterminate_s) touch nothing
there (`Props/C04Ext2.lean`), so an unterminated dest stays unterminated. -/

theorem bos_C03 {cfg : Cfg} {dest dmax b code : Nat} {st st' : St} (h : BosOver cfg dest dmax b st st' code)
    (hb0 : 0 < b) : ∃ i, i < b ∧ st'.data (dest + i) = 0 :=
  ⟨0, hb0, by simpa using (h.facts hb0).1⟩

/-- `strcpy_s(d, 8, src)` with `BOS(d) = 3`, d = "www" without terminator, null-slack build: EOVERFLOW and a NUL in the
object afterwards (all three cells: `strnlen_s(d, 3) = 3`) -/
example : ∃ st', exec (strcpy_s { slack := true } 100 8 200 (some 3))
      { data := fun a => if 100 ≤ a ∧ a < 103 then 119 else 0, mapped := fun _ => true, rd := fun _ => true,
        wr := fun a => decide (100 ≤ a ∧ a < 103) } = .ok (EOVERFLOW, st') ∧
    st'.data 100 = 0 ∧ st'.data 101 = 0 ∧ st'.data 102 = 0 := by
  refine ⟨_, rfl, ?_⟩
  simp [St.upd, St.noteWr, St.noteRd]

end SafeC.Props.C03Ext2

import SafeC.Proofs.OsGets
/-!
# C08 for `gets_s`: after success nothing stale remains behind the terminator, and in front of it is exactly the line

(getenv_s / strerror_s: `Props/C08Ext.lean`.)  Setting of `Props/C03Os.lean`.  The stream is the list
`streamOf st inp len` of the bytes at `inp[0..len)`; `lineOf` = the bytes in front of the first newline (all of them when
there is none); `lineStr` = `lineOf` cut at the first NUL (what a C string can show of it).

* `gets_s_C08`: EVERY stream — whenever the call returns EOK, `dest` holds `lineStr`, its terminator, and with null-slack
  zeros from the terminator up to `dmax` (so no earlier content of dest and no byte `fgets` stored behind a NUL or the newline
  itself remains visible);
* `gets_s_C08_line`: a non-empty stream whose line has at most `dmax - 1` bytes and no NUL: the call DOES return EOK, silently,
  and the cells in front of the terminator are exactly the line.
-/
namespace SafeC.Props.C08Os
open SafeC Gen

/-- gets_s, the successful exit, EVERY stream: `n` = length of the line up to its first NUL; `dest[0..n)` are those bytes
(none of them zero), `dest[n] = 0`, `n < dmax`, and with null-slack every cell from the terminator up to `dmax` is zero.
Nothing outside dest changes, nothing is reported. -/
theorem gets_s_C08 (cfg : Cfg) (dest dmax : Nat) (destbos : Bos) (inp len : Nat) (st : St)
    (hd : dest ≠ 0) (hpos : 0 < dmax) (hnone : destbos = none → dmax ≤ RSIZE_MAX_STR)
    (hbos : ∀ b, destbos = some b → dmax ≤ b) (hrw : RW st dest dmax)
    (hrd : ∀ j, j < len → st.mapped (inp+j) = true ∧ st.rd (inp+j) = true)
    (hdisj : dest + dmax ≤ inp ∨ inp + len ≤ dest) :
    ∃ r st', exec (gets_s cfg dest dmax destbos inp len) st = .ok (r, st') ∧
      (∀ a, ¬ (dest ≤ a ∧ a < dest + dmax) → st'.data a = st.data a) ∧ st'.strays = st.strays ∧
      (r = EOK →
        let line := lineStr (streamOf st inp len)
        line.length < dmax ∧ st'.events = st.events ∧
        (∀ j, j < line.length → st'.data (dest+j) = line.getD j 0 ∧ st'.data (dest+j) ≠ 0) ∧
        st'.data (dest + line.length) = 0 ∧
        (cfg.slack = true → ∀ i, line.length ≤ i → i < dmax → st'.data (dest+i) = 0)) := by
  obtain ⟨h1, h2, h3, h4⟩ := lineStr_spec st inp len
  obtain ⟨r, st', he, hfr, hp⟩ := gets_s_runs cfg dest dmax destbos inp len _ st hd hpos hnone hbos hrw hrd hdisj h1 h2 h3
  refine ⟨r, st', he, hfr.2.2.2.2, hfr.2.2.2.1, fun hr => ?_⟩
  rcases hp with ⟨hc, hr', _⟩ | ⟨_, _, hf, _, hev, hcp, hz, hsl⟩ | ⟨_, _, _, hr', _⟩
  · exfalso
    rw [hr] at hr'
    split at hr' <;> exact absurd hr' (by decide)
  · refine ⟨by rcases hf with h | ⟨h, _⟩ <;> omega, hev, fun j hj => ⟨?_, ?_⟩, hz, hsl⟩
    · rw [hcp j hj, h4 j hj]
    · rw [hcp j hj]; exact (h1 j hj).2
  · rw [hr] at hr'; exact absurd hr' (by decide)

/-- gets_s on a non-empty stream (not the read-error stream) whose line — the bytes up to the first newline or the end — has
at most `dmax - 1` bytes and contains no NUL: returns EOK, reports nothing, the cells in front of the terminator are EXACTLY
the line, and with null-slack every cell from the terminator up to `dmax` is zero. -/
theorem gets_s_C08_line (cfg : Cfg) (dest dmax : Nat) (destbos : Bos) (inp len : Nat) (st : St)
    (hd : dest ≠ 0) (hpos : 0 < dmax) (hnone : destbos = none → dmax ≤ RSIZE_MAX_STR)
    (hbos : ∀ b, destbos = some b → dmax ≤ b) (hrw : RW st dest dmax)
    (hrd : ∀ j, j < len → st.mapped (inp+j) = true ∧ st.rd (inp+j) = true)
    (hdisj : dest + dmax ≤ inp ∨ inp + len ≤ dest)
    (hinp : inp ≠ 0) (hlen : len ≠ 0)
    (hfit : (lineOf (streamOf st inp len)).length < dmax) (hnul : 0 ∉ lineOf (streamOf st inp len)) :
    ∃ st', exec (gets_s cfg dest dmax destbos inp len) st = .ok (EOK, st') ∧
      st'.events = st.events ∧ st'.strays = st.strays ∧
      (∀ a, ¬ (dest ≤ a ∧ a < dest + dmax) → st'.data a = st.data a) ∧
      (let line := lineOf (streamOf st inp len)
       (∀ j, j < line.length → st'.data (dest+j) = line.getD j 0) ∧ st'.data (dest + line.length) = 0 ∧
       (cfg.slack = true → ∀ i, line.length ≤ i → i < dmax → st'.data (dest+i) = 0)) := by
  have hEq := lineStr_eq_lineOf _ hnul
  obtain ⟨h1, h2, h3, h4⟩ := lineStr_spec st inp len
  rw [hEq] at h1 h2 h3 h4
  -- behind a line without NUL comes a newline or the end of the stream
  have hend : (lineOf (streamOf st inp len)).length < len → st.data (inp + (lineOf (streamOf st inp len)).length) = 10 := by
    intro hl
    obtain ⟨_, _, q3⟩ := takeWhile_spec (fun c => decide (c ≠ 10)) (streamOf st inp len)
    rw [streamOf_length] at q3
    have hl' : (List.takeWhile (fun c => decide (c ≠ 10)) (streamOf st inp len)).length < len := hl
    have := q3 hl'
    rw [streamOf_getD st inp len _ hl'] at this
    simpa [lineOf] using this
  obtain ⟨r, st', he, hfr, hp⟩ := gets_s_runs cfg dest dmax destbos inp len _ st hd hpos hnone hbos hrw hrd hdisj h1 h2 h3
  rcases hp with ⟨hc, _⟩ | ⟨_, _, _, hr, hev, hcp, hz, hsl⟩ | ⟨_, _, hnf, _⟩
  · rcases hc with hc | hc
    · exact absurd hc hlen
    · exact absurd hc.1 hinp
  · subst hr
    exact ⟨st', he, hev, hfr.2.2.2.1, hfr.2.2.2.2, fun j hj => by rw [hcp j hj, h4 j hj], hz, hsl⟩
  · exfalso
    apply hnf
    by_cases h : (lineOf (streamOf st inp len)).length + 1 < dmax
    · exact Or.inl h
    · refine Or.inr ⟨by omega, ?_⟩
      by_cases hl : (lineOf (streamOf st inp len)).length < len
      · exact Or.inr (hend hl)
      · exact Or.inl (by omega)

/-- non-vacuity: dest = 100 (8 cells holding 7), the stream "ab\ncd" at 200: its line "ab" has 2 < 8 bytes and no NUL -/
example : (100 : Nat) ≠ 0 ∧ 0 < 8 ∧ 8 ≤ RSIZE_MAX_STR ∧ RW getsExSt 100 8 ∧
    (∀ j, j < 5 → getsExSt.mapped (200+j) = true ∧ getsExSt.rd (200+j) = true) ∧ (100 + 8 ≤ 200 ∨ 200 + 5 ≤ 100) ∧
    (200 : Nat) ≠ 0 ∧ (5 : Nat) ≠ 0 ∧ (lineOf (streamOf getsExSt 200 5)).length < 8 ∧ 0 ∉ lineOf (streamOf getsExSt 200 5) :=
  ⟨by decide, by decide, by decide, getsExSt_rw, getsExSt_rd, Or.inl (by decide), by decide, by decide,
   by rw [getsExSt_line]; decide, by rw [getsExSt_line]; decide⟩

end SafeC.Props.C08Os

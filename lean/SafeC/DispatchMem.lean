import SafeC.Dispatch
import SafeC.Models.Mem
/-!
# name → model dispatch: memory family

Pointers are cell addresses of the function's element width; sizes and BOS arguments are passed
on exactly as the C entry point receives them.
-/
namespace SafeC.Driver
open SafeC

def dispatchMem (fn : String) (c : Ctx) : Option (Prog Out) :=
  let copy (f : Nat → Nat → Nat → Nat → Bos → Bos → Prog Nat) : Option (Prog Out) := do
    let d ← c.p 0; let m ← c.n 1; let s ← c.p 2; let l ← c.n 3; let b ← c.b 4; let sb ← c.b 5
    pure (errOut (f d m s l b sb))
  let set (f : Nat → Nat → Nat → Nat → Bos → Prog Nat) : Option (Prog Out) := do
    let d ← c.p 0; let m ← c.n 1; let v ← c.n 2; let n ← c.n 3; let b ← c.b 4
    pure (errOut (f d m v n b))
  let zero (f : Nat → Nat → Bos → Prog Nat) : Option (Prog Out) := do
    let d ← c.p 0; let m ← c.n 1; let b ← c.b 2
    pure (errOut (f d m b))
  match fn with
  | "memcpy_s" => copy memcpy_s
  | "memmove_s" => copy memmove_s
  | "memcpy16_s" => copy memcpy16_s
  | "memcpy32_s" => copy memcpy32_s
  | "memmove16_s" => copy memmove16_s
  | "memmove32_s" => copy memmove32_s
  | "wmemcpy_s" => copy wmemcpy_s
  | "wmemmove_s" => copy wmemmove_s
  | "memset_s" => set memset_s
  | "memset16_s" => set memset16_s
  | "memset32_s" => set memset32_s
  | "memzero_s" => zero memzero_s
  | "memzero16_s" => zero memzero16_s
  | "memzero32_s" => zero memzero32_s
  | "memccpy_s" => do
    let d ← c.p 0; let m ← c.n 1; let s ← c.p 2; let ch ← c.n 3; let n ← c.n 4; let b ← c.b 5; let sb ← c.b 6
    pure (errOut (memccpy_s c.cfg d m s ch n b sb))
  | _ => none

end SafeC.Driver

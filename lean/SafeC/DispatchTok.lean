import SafeC.Dispatch
import SafeC.Models.Tok
/-!
# dispatch of the tokenizer family

Op-line bindings (tools/fnspec.py):
* `strtok_s` / `wcstok_s`            `a=dest,<*dmaxp>,delim,<*ptr or _>,bos`   (argkinds `pNpQn`)
* `strtok_s_np` / `wcstok_s_np`      `ptr == NULL`:   `a=dest,<*dmaxp>,delim,null,bos`   (`pNppn`)
* `strtok_s_nm` / `wcstok_s_nm`      `dmaxp == NULL`: `a=dest,null,delim,<*ptr or _>,bos` (`pppQn`)

Out values: position 1 = `*dmaxp` after the call, position 3 = `*ptr` after the call (the value the
caller put there if the function stored nothing; `_` = never initialised, never stored).
-/
namespace SafeC.Driver
open SafeC

/-- the harness fills an uninitialised out slot with this pattern -/
def slotSentinel : Nat := 0x5a5a5a5a5a5a5a5a

/-- contents of the in-out `ptr` slot: `_` = uninitialised -/
def Ctx.slotPtr (c : Ctx) (i : Nat) (w : Nat) : Option Nat :=
  match c.args[i]? with
  | some "_" => some (slotSentinel / w)
  | some s => parsePtr c.regs s
  | none => none

def tokOutP (c : Ctx) (w : Nat) (hasDmax hasPtr : Bool) (p : Prog TokOut) : Prog Out := do
  let r ← p
  let o1 : List (Nat × String) :=
    if hasDmax then
      match r.dmaxv, c.n 1 with
      | some v, _ => [(1, toString v)]
      | none, some v0 => [(1, toString v0)]
      | none, none => []
    else []
  let o3 : List (Nat × String) :=
    if hasPtr then
      match r.ptrv with
      | some v => [(3, showPtr c.regs v)]
      | none =>
        if c.args[3]? = some "_" then [(3, "_")]
        else match c.slotPtr 3 w with
          | some v0 => [(3, showPtr c.regs v0)]
          | none => []
    else []
  pure { ret := showPtr c.regs r.ret, outs := o1 ++ o3 }

def dispatchTok (fn : String) (c : Ctx) : Option (Prog Out) :=
  match fn with
  | "strtok_s" => do
    let d ← c.p 0; let m ← c.n 1; let dl ← c.p 2; let q ← c.slotPtr 3 1; let b ← c.b 4
    pure (tokOutP c 1 true true (strtok_s d (some m) dl (some q) b))
  | "strtok_s_np" => do
    let d ← c.p 0; let m ← c.n 1; let dl ← c.p 2; let b ← c.b 4
    pure (tokOutP c 1 true false (strtok_s d (some m) dl none b))
  | "strtok_s_nm" => do
    let d ← c.p 0; let dl ← c.p 2; let q ← c.slotPtr 3 1; let b ← c.b 4
    pure (tokOutP c 1 false true (strtok_s d none dl (some q) b))
  | "wcstok_s" => do
    let d ← c.p 0; let m ← c.n 1; let dl ← c.p 2; let q ← c.slotPtr 3 4; let b ← c.b 4
    pure (tokOutP c 4 true true (wcstok_s d (some m) dl (some q) b))
  | "wcstok_s_np" => do
    let d ← c.p 0; let m ← c.n 1; let dl ← c.p 2; let b ← c.b 4
    pure (tokOutP c 4 true false (wcstok_s d (some m) dl none b))
  | "wcstok_s_nm" => do
    let d ← c.p 0; let dl ← c.p 2; let q ← c.slotPtr 3 4; let b ← c.b 4
    pure (tokOutP c 4 false true (wcstok_s d none dl (some q) b))
  | _ => none

end SafeC.Driver

import SafeC.Models.PrintfSpec
import SafeC.DriverFmt
/-! driver glue for C11:
    `id=<n> pf=<entry point> slack=<0|1> dmax=<D> fmt=<hex> args=<typed list> [fx=<6 x 0|1>]`
    ↦ `id=<n> ret=<r|-> why=<-|fault|stuck|unmodelled> out=<hex> cells=<hex> spec=<hex|none> dev=<deviation classes|->` -/
namespace SafeC.Driver.Pf
open SafeC.Printf SafeC.Driver

def hexOf (l : List Char) : String :=
  if l.isEmpty then "-" else String.join (l.map fun c =>
    let n := c.toNat
    String.ofList [Nat.digitChar (n / 16), Nat.digitChar (n % 16)])

def parseIntD (s : String) : Option Int :=
  if s.startsWith "-" then (s.drop 1).toString.toNat?.map (fun n => -(n : Int)) else s.toNat?.map (fun n => (n : Int))

def hexNat (s : List Char) : Option Nat := s.foldlM (fun a c => (hexVal c).map (a * 16 + ·)) 0

def chunks8 : Nat → List Char → List (List Char)
  | 0, _ => []
  | _ + 1, [] => []
  | k + 1, l => l.take 8 :: chunks8 k (l.drop 8)

def parseArg (t : String) : Option Arg :=
  match t.toList with
  | k :: ':' :: v =>
    let vs := String.ofList v
    if k = 'i' then (parseIntD vs).map Arg.int
    else if k = 'l' then (parseIntD vs).map Arg.long
    else if k = 's' then
      if vs = "null" then some (.str none) else if vs = "-" then some (.str (some [])) else (unhex v).map (fun b => .str (some b))
    else if k = 'w' then
      if vs = "null" then some (.wstr none) else if vs = "-" then some (.wstr (some []))
      else ((chunks8 v.length v).mapM hexNat).map (fun w => .wstr (some w))
    else if k = 'd' then (hexNat v).map Arg.dbl
    else if k = 'D' then (hexNat v).map Arg.ldbl
    else if k = 'p' then (hexNat v).map Arg.ptr
    else none
  | _ => none

def parseFixes (s : String) : Fixes :=
  match s.toList.map (· == '1') with
  | [a, b, c, d, e, f] => ⟨a, b, c, d, e, f⟩
  | _ => current

def showFixes (f : Fixes) : String :=
  String.ofList ([f.minusPrec, f.hash, f.negStarPrec, f.lcMemcpy, f.strPrec0, f.sprintfExact].map fun b => if b then '1' else '0')

def maxDigitRun : List Char → Nat → Nat → Nat
  | [], cur, best => max cur best
  | c :: r, cur, best => if c.isDigit then maxDigitRun r (cur + 1) best else maxDigitRun r 0 (max cur best)

def cstr (cells : List Char) : List Char := cells.takeWhile (· != '\x00')

def printfLine (id fn : String) (m : List (String × String)) : String :=
  let get := fun k => (m.find? (·.1 = k)).map (·.2)
  if fn = "fixes" then s!"id={id} fx={showFixes current}" else
  let fx := match get "fx" with | some s => parseFixes s | none => current
  let slack := (get "slack").getD "1" != "0"
  let dmax := ((get "dmax").getD "0").toNat?.getD 0
  let argsS := (get "args").getD "-"
  match unhex (if (get "fmt").getD "-" = "-" then [] else ((get "fmt").getD "").toList),
        (if argsS = "-" then some [] else (argsS.splitOn ",").mapM parseArg) with
  | some fmt, some args =>
    let init := List.replicate dmax (Char.ofNat 0xAA)
    let isbuf := fn = "sprintf_s" ∨ fn = "snprintf_s" ∨ fn = "vsprintf_s" ∨ fn = "vsnprintf_s"
    let r : Option Result :=
      if fn = "sprintf_s" then some (sprintf_s fx slack dmax init fmt args)
      else if fn = "snprintf_s" ∨ fn = "vsnprintf_s" then some (vsnprintf_s fx slack dmax init fmt args)
      else if fn = "vsprintf_s" then some (vsprintf_s fx slack dmax init fmt args)
      else if fn = "fprintf_s" ∨ fn = "vfprintf_s" then some (streamPrintf fx .fchar fmt args)
      else if fn = "printf_s" then some (streamPrintf fx .char fmt args)
      else none
    -- the spec builds its padding as a list: skip it for astronomically wide fields (the engine model does not build them)
    let bigNumeral := maxDigitRun fmt 0 0 > 5
    let bigStar := fmt.contains '*' && args.any (fun a => match a with | .int v => v.natAbs > 100000 | _ => false)
    let spec := if bigNumeral || bigStar then "skipped" else match Spec.printf fmt args with | some o => hexOf o | none => "none"
    match r with
    | none => s!"id={id} err=nomodel spec={spec}"
    | some r =>
      let rets := match r.ret with | some v => toString v | none => "-"
      let out := if isbuf then (match r.ret with | some v => if v ≥ 0 then cstr r.cells else [] | none => []) else r.stream
      s!"id={id} ret={rets} why={if r.why = "" then "-" else r.why} out={hexOf out} cells={hexOf r.cells} spec={spec}"
  | _, _ => s!"id={id} err=badop"

end SafeC.Driver.Pf

import SafeC.Dispatch
import SafeC.Models.Query2
/-!
# name → model dispatch for the query2 family
-/
namespace SafeC.Driver
open SafeC

/-- `(code, pointer)` with the pointer printed at out position `pos` -/
def ptrOut2 (regs : Array Region) (pos : Nat) (p : Prog (Nat × Nat)) : Prog Out := do
  let (e, v) ← p
  pure { ret := toString e, outs := [(pos, showPtr regs v)] }

/-- `(code, index)` -/
def idxOut (pos : Nat) (p : Prog (Nat × Nat)) : Prog Out := do
  let (e, v) ← p
  pure { ret := toString e, outs := [(pos, toString v)] }

/-- `(code, int)` -/
def intOut2 (pos : Nat) (p : Prog (Nat × Int)) : Prog Out := do
  let (e, v) ← p
  pure { ret := toString e, outs := [(pos, showInt v)] }

def boolOut (p : Prog Bool) : Prog Out := do
  let b ← p
  pure { ret := if b then "1" else "0" }

def dispatchQuery2 (fn : String) (c : Ctx) : Option (Prog Out) :=
  let pair (f : Nat → Nat → Nat → Bos → Prog (Nat × Nat)) : Option (Prog Out) := do
    let d ← c.p 0; let m ← c.n 1; let s ← c.p 2; let b ← c.b 4
    pure (idxOut 3 (f d m s b))
  let pred (f : Nat → Nat → Bos → Prog Bool) : Option (Prog Out) := do
    let d ← c.p 0; let m ← c.n 1; let b ← c.b 2
    pure (boolOut (f d m b))
  match fn with
  | "strfirstchar_s" => do
    let d ← c.p 0; let m ← c.n 1; let ch ← c.n 2; let b ← c.b 4
    pure (ptrOut2 c.regs 3 (strfirstchar_s d m ch b))
  | "strlastchar_s" => do
    let d ← c.p 0; let m ← c.n 1; let ch ← c.n 2; let b ← c.b 4
    pure (ptrOut2 c.regs 3 (strlastchar_s d m ch b))
  | "strfirstdiff_s" => pair strfirstdiff_s
  | "strfirstsame_s" => pair strfirstsame_s
  | "strlastdiff_s" => pair strlastdiff_s
  | "strlastsame_s" => pair strlastsame_s
  | "strisalphanumeric_s" => pred strisalphanumeric_s
  | "strisascii_s" => pred strisascii_s
  | "strisdigit_s" => pred strisdigit_s
  | "strishex_s" => pred strishex_s
  | "strislowercase_s" => pred strislowercase_s
  | "strismixedcase_s" => pred strismixedcase_s
  | "strispassword_s" => pred strispassword_s
  | "strisuppercase_s" => pred strisuppercase_s
  | "wcsnlen_s" => do
    let s ← c.p 0; let m ← c.n 1; let b ← c.b 2
    pure (errOut (wcsnlen_s_chk s m b))
  | "wcscmp_s" => do
    let d ← c.p 0; let m ← c.n 1; let s ← c.p 2; let sm ← c.n 3; let b ← c.b 5; let sb ← c.b 6
    pure (intOut2 4 (wcscmp_s d m s sm b sb))
  | "wcsncmp_s" => do
    let d ← c.p 0; let m ← c.n 1; let s ← c.p 2; let sm ← c.n 3; let cnt ← c.n 4; let b ← c.b 6; let sb ← c.b 7
    pure (intOut2 5 (wcsncmp_s d m s sm cnt b sb))
  | "wcsstr_s" => do
    let d ← c.p 0; let m ← c.n 1; let s ← c.p 2; let sl ← c.n 3; let b ← c.b 5; let sb ← c.b 6
    pure (ptrOut2 c.regs 4 (wcsstr_s d m s sl b sb))
  | "wmemcmp_s" => do
    let d ← c.p 0; let m ← c.n 1; let s ← c.p 2; let sl ← c.n 3; let b ← c.b 5; let sb ← c.b 6
    pure (intOut2 4 (wmemcmp_s d m s sl b sb))
  | _ => none

end SafeC.Driver

import SafeC.Models.Handlers
/-! driver glue for C13 histories (format: see harness/hreg.c) -/
namespace SafeC.Driver
open SafeC SafeC.Handlers

def parseKind (c : Char) : Option Kind := if c = 's' then some .str else if c = 'm' then some .mem else none
def parseHid (c : Char) : Option (Option Hid) :=
  if c = '-' then some none else if c.isDigit then some (some (c.toNat - '0'.toNat)) else none

def parseHOp (s : String) : Option Op :=
  match s.toList with
  | ['S', t, k, h] => do let k ← parseKind k; let h ← parseHid h; pure (.set (t.toNat - '0'.toNat) k h)
  | ['T', t, k, h] => do let k ← parseKind k; let h ← parseHid h; pure (.thrdSet (t.toNat - '0'.toNat) k h)
  | ['V', t, k] => do let k ← parseKind k; pure (.violate (t.toNat - '0'.toNat) k)
  | ['P', p, ':', c] => some (.spawn (p.toNat - '0'.toNat) (c.toNat - '0'.toNat))
  | _ => none

def showHOut : Out → String
  | .prev none => "p-"
  | .prev (some h) => s!"p{h}"
  | .ran h => s!"r{h}"
  | .none => "n"

/-- threads that exist: 0 initially, then spawned children; an op on a thread that does not exist prints `x` -/
def runHistory (ops : List (Option Op)) : List String := Id.run do
  let mut s := init
  let mut alive : List Nat := [0]
  let mut out : List String := []
  for o in ops do
    match o with
    | none => out := out ++ ["?"]
    | some op =>
      let t := match op with | .set t _ _ => t | .thrdSet t _ _ => t | .violate t _ => t | .spawn p _ => p
      if alive.contains t then
        let (s', r) := step s op
        s := s'
        out := out ++ [showHOut r]
        match op with
        | .spawn _ c => alive := c :: alive
        | _ => pure ()
      else out := out ++ ["x"]
  return out

def handlersLine (id ops : String) : String :=
  s!"id={id} out=" ++ ",".intercalate (runHistory ((ops.splitOn ",").map parseHOp))

end SafeC.Driver

import SafeC.Dispatch
import SafeC.Models.Inplace
import SafeC.Models.WCase
/-!
# name → model dispatch, in-place family (argument positions as in `tools/fnspec.py`)
-/
namespace SafeC.Driver
open SafeC

def dispatchInplace (fn : String) (c : Ctx) : Option (Prog Out) :=
  match fn with
  | "strset_s" => do
    let d ← c.p 0; let m ← c.n 1; let v ← c.n 2; let b ← c.b 3
    pure (errOut (strset_s c.cfg d m v b))
  | "strnset_s" => do
    let d ← c.p 0; let m ← c.n 1; let v ← c.n 2; let n ← c.n 3; let b ← c.b 4
    pure (errOut (strnset_s c.cfg d m v n b))
  | "strzero_s" => do
    let d ← c.p 0; let m ← c.n 1; let b ← c.b 2
    pure (errOut (strzero_s c.cfg d m b))
  | "strtolowercase_s" => do
    let d ← c.p 0; let m ← c.n 1; let b ← c.b 2
    pure (errOut (strtolowercase_s c.cfg d m b))
  | "strtouppercase_s" => do
    let d ← c.p 0; let m ← c.n 1; let b ← c.b 2
    pure (errOut (strtouppercase_s c.cfg d m b))
  | "strljustify_s" => do
    let d ← c.p 0; let m ← c.n 1; let b ← c.b 2
    pure (errOut (strljustify_s c.cfg d m b))
  | "strremovews_s" => do
    let d ← c.p 0; let m ← c.n 1; let b ← c.b 2
    pure (errOut (strremovews_s c.cfg d m b))
  | "strnterminate_s" => do
    let d ← c.p 0; let m ← c.n 1; let b ← c.b 2
    pure (errOut (strnterminate_s c.cfg d m b))
  | "wcsset_s" => do
    let d ← c.p 0; let m ← c.n 1; let v ← c.n 2; let b ← c.b 3
    pure (errOut (wcsset_s c.cfg d m v b))
  | "wcsnset_s" => do
    let d ← c.p 0; let m ← c.n 1; let v ← c.n 2; let n ← c.n 3; let b ← c.b 4
    pure (errOut (wcsnset_s c.cfg d m v n b))
  | "wcslwr_s" => do
    let d ← c.p 0; let m ← c.n 1; let b ← c.b 2
    pure (errOut (wcslwr_s c.cfg d m b))
  | "wcsupr_s" => do
    let d ← c.p 0; let m ← c.n 1; let b ← c.b 2
    pure (errOut (wcsupr_s c.cfg d m b))
  | _ => none

end SafeC.Driver

import SafeC.Machine
import SafeC.Common
import SafeC.Models.Copy
import SafeC.Driver
import SafeC.Dispatch

import SafeC.Driver
import SafeC.DispatchAll
import SafeC.DriverHandlers
import SafeC.DriverFmt
import SafeC.DriverAlloc
import SafeC.DriverConv
import SafeC.DriverSort
import SafeC.DriverPrintf
import SafeC.DriverNorm
/-!
`safec_model`: reads op lines (see harness/hx.c), runs the Lean model of the named entry point
on the same memory layout, prints the model's observation line.
-/
open SafeC SafeC.Driver
open SafeC.DriverSort (sortLine bsLine cycLine pntzLine)

def tokenMap (line : String) : List (String × String) :=
  (line.trimAscii.toString.splitOn " ").filterMap fun t =>
    match t.splitOn "=" with
    | k :: rest => if rest.isEmpty then none else some (k, "=".intercalate rest)
    | _ => none

def lookup (m : List (String × String)) (k : String) : Option String :=
  (m.find? (·.1 = k)).map (·.2)

def processLine (line : String) : String := Id.run do
  let m := tokenMap line
  let id := (lookup m "id").getD "?"
  if let some ops := lookup m "ops" then
    if (lookup m "fn").isNone then return handlersLine id ops
  if let some f := lookup m "fmtq" then
    if (lookup m "fn").isNone then return fmtLine id f
  if let some k := lookup m "alloc" then return allocLine id k m
  if let some k := lookup m "conv" then return SafeC.DriverC15.convLine id k m
  if (lookup m "sort").isSome then return sortLine id m
  if (lookup m "bs").isSome then return bsLine id m
  if (lookup m "cyc").isSome then return cycLine id m
  if (lookup m "pntz").isSome then return pntzLine id m
  if let some k := lookup m "pf" then return Pf.printfLine id k m
  if let some k := lookup m "uni" then return Uni.uniLine id k m
  let some fn := lookup m "fn" | return s!"id={id} err=badop"
  let slack := (lookup m "slack").getD "1" != "0"
  let mut regs : Array Region := #[]
  for (k, v) in m do
    if k.startsWith "R" ∧ k.length ≥ 2 ∧ ((k.drop 1).toString.all Char.isDigit) then
      match (k.drop 1).toString.toNat? with
      | some kk =>
        match parseRegion kk v with
        | some r => regs := regs.push r
        | none => return s!"id={id} err=badop"
      | none => pure ()
  let W := parseExtents regs ((lookup m "W").getD "")
  let Rd := parseExtents regs ((lookup m "Rd").getD "")
  let args := (((lookup m "a").getD "").splitOn ",").toArray
  let ctx : Ctx := { cfg := { slack }, regs, args }
  let some prog := dispatch fn ctx | return s!"id={id} err=nomodel"
  let st := mkState regs W Rd
  match exec prog st with
  | .error (.read a) => return s!"id={id} fault=r:{showPtr regs a}"
  | .error (.write a) => return s!"id={id} fault=w:{showPtr regs a}"
  | .ok (o, st') =>
    return s!"id={id} ret={o.ret} o={showOuts args.size o.outs} ev={showEvents st'.events} img={showImage regs st'} stray={showStrays regs st'.strays}"

partial def loop (h : IO.FS.Stream) (out : IO.FS.Stream) : IO Unit := do
  let line ← h.getLine
  if line.isEmpty then return ()
  if line.trimAscii.toString.isEmpty then loop h out else
  out.putStrLn (processLine line)
  loop h out

def main : IO Unit := do
  let out ← IO.getStdout
  loop (← IO.getStdin) out
  out.flush

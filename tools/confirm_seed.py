#!/usr/bin/env python3
"""Confirm a seeded mutation independently: in a scratch copy of /repo (never /repo itself)
  1. pristine: build, compile demo, run -> must exit 0
  2. apply patch, rebuild, `make -k check` -> must stay 127/127, demo must exit non-zero
then store it as /verif/seeded/<name>/{patch.diff, demo.c, build.sh, meta.json}.
usage: confirm_seed.py <agent_out_dir> <name> <property> [checks that catch it ...]"""
import sys, os, subprocess, shutil, json, re, tempfile
src, name, prop = sys.argv[1], sys.argv[2], sys.argv[3]
catch = sys.argv[4:]
VERIF = os.path.dirname(os.path.dirname(os.path.abspath(__file__)))
S = tempfile.mkdtemp(prefix="seedconf_")
R = os.path.join(S, "repo")
subprocess.run(["cp", "-a", "/repo", R], check=True)

def sh(cmd, cwd=R, timeout=1200):
    r = subprocess.run(cmd, shell=True, cwd=cwd, capture_output=True, text=True, timeout=timeout)
    return r.returncode, r.stdout + r.stderr

def demo():
    rc, out = sh("gcc -w -I%s/include -I%s -o %s/demo %s/demo.c %s/src/.libs/libsafec.a -lpthread -lm 2>&1 && %s/demo" % (R, R, S, src, R, S), timeout=300)
    return rc, out[-600:]

res = {"name": name, "property": prop}
sh("make -j16")
res["demo_pristine_rc"], _ = demo()
rc, out = sh("git apply %s/patch.diff" % src)
res["patch_applies"] = rc == 0
rc, out = sh("make -j16 2>&1 | grep -ci ' error '")
rc, out = sh("make -k check 2>&1 | grep -E '^# (TOTAL|PASS|FAIL|ERROR)'")
res["suite_with_change"] = " ".join(out.split())
res["demo_changed_rc"], res["demo_changed_tail"] = demo()
ok = res["patch_applies"] and res["demo_pristine_rc"] == 0 and res["demo_changed_rc"] != 0 and "FAIL: 0" in res["suite_with_change"] and "ERROR: 0" in res["suite_with_change"]
res["confirmed"] = ok
res["needs_to_manifest"] = open(os.path.join(src, "meta.txt")).read()[:3000] if os.path.exists(os.path.join(src, "meta.txt")) else ""
res["caught_by"] = catch
res["ran"] = "scratch copy of /repo: make -j16; demo on pristine; git apply patch.diff; make -j16; make -k check; demo on changed (tools/confirm_seed.py)"
d = os.path.join(VERIF, "seeded", name)
os.makedirs(d, exist_ok=True)
for f in ("patch.diff", "demo.c", "build.sh"):
    if os.path.exists(os.path.join(src, f)):
        shutil.copy(os.path.join(src, f), os.path.join(d, f))
json.dump(res, open(os.path.join(d, "meta.json"), "w"), indent=1)
shutil.rmtree(S, ignore_errors=True)
print(name, "CONFIRMED" if ok else "NOT CONFIRMED", res["suite_with_change"], res["demo_pristine_rc"], res["demo_changed_rc"])

#!/usr/bin/env python3
"""Developer tool: differential run of one input family.
   python3 tools/corr.py <family> [--tier quick|thorough] [--seed N] [--max 8]
Prints, per slack configuration: ops run, model/implementation disagreements on the WHOLE observation
(ret, outs, events, image, fault) grouped by function, and property-oracle failures on the
implementation that no known_findings.jsonl entry explains."""
import sys, os, argparse, random, collections
sys.path.insert(0, os.path.dirname(os.path.abspath(__file__)))
import orch, oracles, families, proto
from oracles import Obs


def main():
    ap = argparse.ArgumentParser()
    ap.add_argument("family")
    ap.add_argument("--tier", default="quick")
    ap.add_argument("--seed", type=int, default=1)
    ap.add_argument("--max", type=int, default=6)
    a = ap.parse_args()
    fams = families.load_all()
    fam = fams[a.family]
    orch.gen_mod.main()
    ok, lg, _ = orch.lake_build(["safec_model"])
    if not ok:
        print(lg[-3000:]); sys.exit(1)
    impl = orch.Impl()
    known = orch.load_known()
    for slack in (1, 0):
        ops = fam["gen"](random.Random(a.seed * 1000003 + slack), a.tier)
        for o in ops:
            o.meta["slack"] = slack
            fam["annotate"](o)
        c, m = orch.run_pair(impl, ops, slack)
        mism = collections.defaultdict(list)
        nomodel = collections.Counter()
        ofail = collections.defaultdict(list)
        for op in ops:
            dc, dm = c.get(str(op.id)), m.get(str(op.id))
            if dc is None or "err" in dc:
                print("harness problem:", dc, op.line(slack)[:200]); continue
            if dm is None or dm.get("err") == "nomodel":
                nomodel[op.fn] += 1
            else:
                keys = ["fault"] if ("fault" in dc or "fault" in dm) else ["ret", "o", "ev", "img"]
                if any(dc.get(k) != dm.get(k) for k in keys):
                    mism[op.fn].append((op, dc, dm))
            ob = Obs(dc, op)
            before = orch.before_images(op)
            for pid in fam["props"]:
                fns = ([oracles.GENERIC[pid]] if pid in oracles.GENERIC else []) + ([fam["oracles"][pid]] if pid in fam.get("oracles", {}) else [])
                for f in fns:
                    for fl in f(op, ob, before):
                        if fl.prop == pid and not any(orch.known_match(e, pid, fl.sig, slack) for e in known):
                            ofail[(pid, fl.sig)].append((op, dc, fl.detail))
        print("== %s slack=%d: %d ops; unmodelled: %s" % (a.family, slack, len(ops), dict(nomodel)))
        for fn, xs in mism.items():
            print("  MISMATCH %s: %d" % (fn, len(xs)))
            for op, dc, dm in xs[:a.max]:
                print("     ", op.line(slack)); print("        C:", {k: v for k, v in dc.items() if k != "id"}); print("        M:", {k: v for k, v in dm.items() if k != "id"})
        for (pid, sig), xs in sorted(ofail.items()):
            print("  ORACLE %s %s: %d   e.g. %s" % (pid, sig, len(xs), xs[0][2]))
            print("      ", xs[0][0].line(slack)); print("        C:", {k: v for k, v in xs[0][1].items() if k != "id"})


if __name__ == "__main__":
    main()

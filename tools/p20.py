"""C20: running out of memory inside the library is an error, not a crash.

Every allocation call written in the library's sources (inventory: grep over the current tree, printed into
the evidence) is reached with inputs built from a STRUCTURE, so that the check knows by construction which
control-flow features the input has (which directive allocates, which exit is taken, how many growth steps,
where the destination runs out); nothing here is derived from the C bodies or from the Lean model.

  harness   harness/halloc.c, linked with -Wl,--wrap=malloc,calloc,realloc,free against the objects built from
            the current tree: run fault-free (N requests, alloc/free sequence, outstanding blocks at return),
            then fail request k for every k < N (and some pairs / all), each in a forked child.
  oracle    (the property) no crash, no invalid free; outstanding == 0 at return on EVERY path; if a request
            was failed: failure indication returned, handler called, dest cleared.
  model     lean/SafeC/Models/Alloc.lean: the allocation skeleton of each function, run by the compiled driver
            with the same (features, failing indices); compared on crashed?/sequence/outstanding/failed?/
            handled?/cleared?.
"""
import os, sys, json, random, time, re, subprocess, hashlib, unicodedata
from concurrent.futures import ThreadPoolExecutor
import orch, buildlib, proto, mkoblig
from orch import Result, log, VERIF

PID = "C20"
WRAPFLAGS = ["-no-pie", "-Wl,--wrap=malloc,--wrap=calloc,--wrap=realloc,--wrap=free"]
RSIZE_MAX_STR, RSIZE_MAX_WSTR = 4096, 1024      # cross-checked against the regenerated SafeC/Gen/Consts.lean below
ALLOC_RE = re.compile(r"(?<![A-Za-z0-9_])(malloc|calloc|realloc)\s*\(")
OTHER_ALLOC_RE = re.compile(r"(?<![A-Za-z0-9_])(strdup|strndup|wcsdup|aligned_alloc|posix_memalign|memalign|valloc|reallocarray|asprintf|vasprintf|open_memstream|open_wmemstream|getline|getdelim|alloca)\s*\(")

# the allocation sites the harness knows how to reach: (file, ordinal in file) -> (call, enclosing function, label)
SITES = {
    ("str/vsnprintf_s.c", 1): ("malloc", "safec_vsnprintf_s", "fmtcopy-Lf"),
    ("str/vsnprintf_s.c", 2): ("malloc", "safec_vsnprintf_s", "fmtcopy-Le"),
    ("str/vsnprintf_s.c", 3): ("malloc", "safec_vsnprintf_s", "fmtcopy-La"),
    ("str/vsnprintf_s.c", 4): ("malloc", "safec_vsnprintf_s", "fmtcopy-a"),
    ("str/vsnprintf_s.c", 5): ("malloc", "safec_vsnprintf_s", "ls-buf"),
    ("wchar/swprintf_s.c", 1): ("malloc", "_swprintf_s_chk", "probe"),
    ("wchar/vswprintf_s.c", 1): ("malloc", "_vswprintf_s_chk", "probe"),
    ("wchar/snwprintf_s.c", 1): ("malloc", "_snwprintf_s_chk", "probe"),
    ("wchar/vsnwprintf_s.c", 1): ("malloc", "_vsnwprintf_s_chk", "probe"),
    ("extwchar/wcsnorm_s.c", 1): ("malloc", "_wcsnorm_reorder_s_chk", "reorder-malloc"),
    ("extwchar/wcsnorm_s.c", 2): ("realloc", "_wcsnorm_reorder_s_chk", "reorder-realloc"),
    ("extwchar/wcsnorm_s.c", 3): ("malloc", "_wcsnorm_compose_s_chk", "compose-malloc"),
    ("extwchar/wcsnorm_s.c", 4): ("realloc", "_wcsnorm_compose_s_chk", "compose-realloc"),
    ("extwchar/wcsnorm_s.c", 5): ("malloc", "_wcsnorm_s_chk", "tmp"),
    ("extwchar/wcsicmp_s.c", 1): ("malloc", "_wcsicmp_s_chk", "d1"),
    ("extwchar/wcsicmp_s.c", 2): ("malloc", "_wcsicmp_s_chk", "d2"),
    ("extwchar/wcsnatcmp_s.c", 1): ("malloc", "_wcsnatcmp_s_chk", "d1"),
    ("extwchar/wcsnatcmp_s.c", 2): ("malloc", "_wcsnatcmp_s_chk", "d2"),
}
ERRNO_T_FNS = {"wcsnorm_s", "wcsnorm_reorder_s", "wcsnorm_compose_s", "wcsicmp_s", "wcsnatcmp_s"}


# ------------------------------------------------------------------ inventory of allocation sites
def strip_c_comments(src):
    """blank out comments and string/char literals, keeping line structure"""
    out, i, n = [], 0, len(src)
    while i < n:
        c = src[i]
        if src.startswith("/*", i):
            j = src.find("*/", i + 2)
            j = n if j < 0 else j + 2
            out.append("".join(ch if ch == "\n" else " " for ch in src[i:j])); i = j
        elif src.startswith("//", i):
            j = src.find("\n", i)
            j = n if j < 0 else j
            out.append(" " * (j - i)); i = j
        elif c in "\"'":
            j = i + 1
            while j < n and src[j] != c:
                j += 2 if src[j] == "\\" else 1
            out.append(c + " " * (j - i - 1) + c); i = j + 1
        else:
            out.append(c); i += 1
    return "".join(out)


def inventory():
    """every allocation call in the library sources of the current tree: [(relfile, line, call, ordinal)]"""
    inv, other = [], []
    for rel in buildlib.lib_sources():
        p = os.path.join(buildlib.REPO, "src", rel)
        try:
            code = strip_c_comments(open(p, errors="replace").read())
        except OSError:
            continue
        n = 0
        for m in ALLOC_RE.finditer(code):
            n += 1
            inv.append((rel, code.count("\n", 0, m.start()) + 1, m.group(1), n))
        for m in OTHER_ALLOC_RE.finditer(code):
            other.append((rel, code.count("\n", 0, m.start()) + 1, m.group(1)))
    # headers with inline code
    for root in ("src", "include"):
        for dp, dn, fs in os.walk(os.path.join(buildlib.REPO, root)):
            if "slkm" in dp:
                continue
            for f in sorted(fs):
                if f.endswith(".h"):
                    code = strip_c_comments(open(os.path.join(dp, f), errors="replace").read())
                    for m in list(ALLOC_RE.finditer(code)) + list(OTHER_ALLOC_RE.finditer(code)):
                        ln = code.count("\n", 0, m.start()) + 1
                        line = code.splitlines()[ln - 1]
                        if re.match(r"\s*(#\s*define|extern|EXTERN)", line) or "slprintf" in line:
                            continue
                        other.append((os.path.relpath(os.path.join(dp, f), buildlib.REPO), ln, m.group(1)))
    return inv, other


# ------------------------------------------------------------------ encodings
def whex(cps):
    return "".join("%08x" % (ord(c) if isinstance(c, str) else c) for c in cps) or "-"


def bhex(s):
    return (s.encode("latin-1") if isinstance(s, str) else bytes(s)).hex() or "-"


class Case:
    __slots__ = ("fn", "h", "m", "hasdest", "desc", "fam", "origin")

    def __init__(self, fn, h, m, hasdest, desc, fam, origin):
        self.fn, self.h, self.m, self.hasdest, self.desc, self.fam, self.origin = fn, h, m, hasdest, desc, fam, origin

    def key(self):
        return (self.fn, self.h)


# ------------------------------------------------------------------ family 1: the printf engine
ENGINE_FNS = {"sprintf_s": "vs", "snprintf_s": "vsn", "vsnprintf_s": "vsn", "vsprintf_s": "vs",
              "printf_s": "stream", "fprintf_s": "stream", "vfprintf_s": "stream"}
FLOATS = [("Lf", "L", "1.5"), ("LF", "L", "2.25"), ("Le", "L", "1.5"), ("LE", "L", "0.5"), ("Lg", "L", "1.5"), ("LG", "L", "3"),
          ("La", "L", "1.5"), ("LA", "L", "1"), ("a", "D", "1.5"), ("A", "D", "0.75")]


class It:
    """format item: kind in lit | int | str | ls | fl | bad"""

    def __init__(self, kind, **kw):
        self.kind = kind
        self.__dict__.update(kw)


def engine_case(fn, items, dmax, origin):
    """format text, arguments and the control-flow features of `items` for entry point fn with buffer size dmax"""
    wrap = ENGINE_FNS[fn]
    stream = wrap == "stream"
    fmt, args, segs = "", [], []
    cap = None if stream else dmax
    entry = (not stream) and (dmax == 0 or dmax > RSIZE_MAX_STR)
    idx, stopped, conv_code, exact_known = 0, False, None, True

    def room(n):
        """can n more characters be written one by one? returns how many fit"""
        return n if cap is None else max(0, min(n, cap - idx))
    for pos, it in enumerate(items):
        follows = pos + 1 < len(items)
        if it.kind == "lit":
            fmt += it.text.replace("%", "%%")
            seg, n = "p", len(it.text)
        elif it.kind == "int":
            fmt += "%d"; args.append("i:%d" % it.v)
            seg, n = "p", len(str(it.v))
        elif it.kind == "str":
            fmt += "%s"; args.append("s:" + bhex(it.text))
            seg, n = "p", len(it.text)
        elif it.kind == "bad":
            fmt += it.text
            seg, n = it.seg, 0
        elif it.kind == "fl":
            fmt += "%" + it.spec; args.append("%s:%s" % (it.ty, it.val))
            seg, n = "f%d" % (1 if follows else 0), None
        else:
            prec = getattr(it, "prec", 0)
            star = getattr(it, "star", False)
            fmt += "%" + ("-" if it.left and not star else "") + ("*" if star else str(it.width) if it.width else "") + (".%d" % prec if prec else "") + "ls"
            if star:
                args.append("i:%d" % (-it.width if it.left else it.width))
            args.append("p:n" if it.w is None else "w:" + whex(it.w))
            seg, n = "l", None
        if stopped or entry:
            continue
        if it.kind in ("lit", "int"):
            if room(n) < n:
                segs.append("pe"); stopped = True
            else:
                segs.append("p"); idx += n
        elif it.kind == "str":
            if cap is not None and n + idx > cap:
                segs.append("pe"); stopped = True
            else:
                segs.append("p"); idx += n
        elif it.kind == "bad":
            segs.append(seg); stopped = True
        elif it.kind == "fl":
            if cap is not None and idx >= cap:
                segs.append(seg + "e"); stopped = True      # not even the first character of the number fits
            else:
                segs.append(seg); idx += 64; exact_known = False   # at most 63 characters (buf[64]); the generator leaves that much room
        else:
            if it.w is None:
                segs.append("ln"); stopped = True; continue
            weff = it.w[:prec] if prec else it.w        # wcsnlen_s(lp, precision): only the first `precision` characters are converted
            l = len(weff)
            # an empty wide string converts to nothing since fix commit 73ef752 (wcstombs_s accepted no empty conversion
            # before: `%ls` of L"" failed with ESNOSPC); only a character outside the C locale's range fails
            if any(c >= 0x80 for c in weff):
                segs.append("lc"); stopped = True; conv_code = 84; continue
            if cap is not None and l + idx > cap:
                segs.append("lt"); stopped = True; continue
            pad = max(0, it.width - l)
            if not it.left and pad:
                if room(pad) < pad:
                    segs.append("lp"); stopped = True; continue
                idx += pad
            if room(l) < l:
                segs.append("lo"); stopped = True; continue
            idx += l
            if it.left and pad:
                if room(pad) < pad:
                    segs.append("lq"); stopped = True; continue
                idx += pad
            segs.append("l-")
    w = wrap
    if wrap == "vs":
        full = (not stopped) and exact_known and idx == dmax
        posge = conv_code is not None and conv_code >= dmax
        w = "vs%d%d" % (full, posge)
    a = (args + ["i:0", "i:0", "i:0"])[:3]
    h = "fn=%s dmax=%d fmt=%s a0=%s a1=%s a2=%s" % (fn, dmax, bhex(fmt), a[0], a[1], a[2])
    m = "alloc=printf w=%s entry=%d segs=%s" % (w, entry, ",".join(segs) or "-")
    return Case(fn, h, m, not stream, "%s(dmax=%d, %r, %s)" % (fn, dmax, fmt, ",".join(args)), "engine", origin)


def gen_engine(rng, tier):
    out = []
    thorough = tier != "quick"
    fns = list(ENGINE_FNS)

    def add(items, dmaxs, origin, only=None):
        if sum((2 if getattr(i, "star", False) else 1) for i in items if i.kind in ("int", "str", "ls", "fl")) > 3:
            return
        for fn in (only or fns):
            for d in ([0] if ENGINE_FNS[fn] == "stream" else dmaxs):
                out.append(engine_case(fn, items, d, origin))
    lit = lambda t: It("lit", text=t)
    ls = lambda w, left=False, width=0, prec=0, star=False: It("ls", w=None if w is None else [ord(c) for c in w], left=left, width=width, prec=prec, star=star)
    # %ls: every exit
    add([ls("hello")], [64, 6, 5, 3, 1], "ls")
    add([lit("ab"), ls("hello"), lit("yz")], [64, 10, 9, 8, 7, 6, 3, 2], "ls")
    add([ls("")], [64, 500], "ls-conv")
    add([lit("x"), ls("héllo"), lit("y")], [64, 80, 90], "ls-conv")
    add([lit("x"), ls("中")], [64, 300], "ls-conv")
    add([ls(None)], [64], "ls-null")
    add([lit("q"), ls("abc"), ls(None)], [64], "ls-null")
    for width in (8, 3):
        for left in (False, True):
            add([lit("ab"), ls("hello", left, width), lit("z")], [64, 12, 11, 10, 9, 8, 7, 6, 4], "ls-pad")
    for prec in (1, 3, 5, 9):
        add([lit("p="), ls("hello", prec=prec), lit(";")], [64, 8, 6, 5, 3], "ls-precision")
        add([ls("hé", prec=prec)], [64], "ls-precision")
    add([ls("héllo", prec=1, width=4)], [64, 4, 3], "ls-precision")
    for width, left in ((8, False), (8, True), (2, False)):
        add([lit("s"), ls("hello", left, width, star=True), lit("e")], [64, 10, 9, 7, 3], "ls-star")
    add([ls("a" * 300), lit("!")], [400, 301, 300, 299], "ls-long")
    add([ls("a" * 1000)], [2000, 1000], "ls-long")
    add([ls("one"), ls("two"), ls("three")], [64, 8, 6, 4], "ls-multi")
    add([ls("one"), ls("té"), ls("three")], [64], "ls-multi")
    # float directives: with and without text behind them, each site
    for spec, ty, val in FLOATS:
        add([It("fl", spec=spec, ty=ty, val=val), lit("!")], [200], "float")
        add([It("fl", spec=spec, ty=ty, val=val)], [200], "float")
        add([lit("abcd"), It("fl", spec=spec, ty=ty, val=val), lit("!")], [200, 4], "float")
        add([lit("v="), It("fl", spec=spec, ty=ty, val=val), ls("w"), It("fl", spec=spec, ty=ty, val=val)], [300], "float+ls")
    for val in ("nan", "inf", "-inf", "1e300", "-0.0"):
        add([It("fl", spec="Lf", ty="L", val=val), lit(" "), It("fl", spec="a", ty="D", val=val), lit(".")], [300], "float-special")
    add([It("fl", spec="Lf", ty="L", val="1.5"), It("fl", spec="Le", ty="L", val="1.5"), It("fl", spec="La", ty="L", val="1.5")], [400], "float-multi")
    # errors in front of / behind the allocating directives
    add([lit("abc"), It("bad", text="%y", seg="pe"), ls("never")], [64], "badspec")
    add([ls("first"), It("bad", text="%y", seg="pe")], [64], "badspec")
    add([It("fl", spec="Lg", ty="L", val="1.5"), It("bad", text="%y", seg="pe")], [200], "badspec")
    add([lit("abc"), It("bad", text="%lLf", seg="pe")], [64], "badspec")
    add([It("int", v=12345), ls("x"), It("str", text="tail")], [64, 9, 7, 5, 4], "mixed")
    add([It("str", text="head"), It("fl", spec="LE", ty="L", val="2.5"), It("int", v=-7)], [200], "mixed")
    add([lit("exactfit"), ls("12")], [10, 11], "exact")
    add([lit("abc")], [3, 4, 2], "plain")
    add([ls("x")], [RSIZE_MAX_STR + 1], "entry")
    # random structures
    for _ in range(8000 if thorough else 60):
        items = []
        for _ in range(rng.randint(1, 5)):
            r = rng.random()
            if r < 0.3:
                items.append(lit("".join(rng.choice("abcxyz .,") for _ in range(rng.randint(1, 12)))))
            elif r < 0.6:
                w = "".join(rng.choice("hello wrd") for _ in range(rng.choice([0, 1, 3, 8, 20, 70])))
                if rng.random() < 0.15:
                    w += rng.choice("é中Ж")
                items.append(ls(None if rng.random() < 0.05 else w, rng.random() < 0.4, rng.choice([0, 0, 4, 12, 30]), prec=rng.choice([0, 0, 0, 2, 7]),
                                star=rng.random() < 0.15))
            elif r < 0.85:
                spec, ty, val = rng.choice(FLOATS)
                items.append(It("fl", spec=spec, ty=ty, val=rng.choice([val, "123456.789", "-0.001", "1e-5"])))
            elif r < 0.95:
                items.append(It("int", v=rng.choice([0, 7, -42, 100000])))
            else:
                items.append(It("bad", text="%y", seg="pe"))
        nfl = sum(1 for i in items if i.kind == "fl")
        items = [i for i in items if not (i.kind == "ls" and i.star and i.width == 0)]
        if not items or sum((2 if getattr(i, "star", False) else 1) for i in items if i.kind in ("int", "str", "ls", "fl")) > 3:
            continue
        exact = sum(len(i.text) if i.kind == "lit" else len(str(i.v)) if i.kind == "int" else max(len(i.w or ""), i.width) if i.kind == "ls" else 0 for i in items)
        roomy = exact + 64 * nfl + 2
        dm = [roomy + rng.randint(0, 40)]
        if nfl == 0:
            dm += [max(1, exact - rng.randint(0, exact)), exact, exact + 1]
        add(items, dm, "random", only=[rng.choice(fns), rng.choice(fns)])
    return out


# ------------------------------------------------------------------ family 2: the wide printf no-space probe
WFNS = {"swprintf_s": "sw", "vswprintf_s": "vsw", "snwprintf_s": "snw", "vsnwprintf_s": "vsnw"}


def wprobe_case(fn, dmax, pre, warg, narg, origin):
    """wide format: literal `pre`, then %ls with `warg` (ASCII), optionally %s with the narrow bytes `narg`"""
    f = WFNS[fn]
    fmt = [ord(c) for c in pre.replace("%", "%%")] + [ord(c) for c in "%ls"]
    args = ["w:" + whex(warg)]
    n = len(pre) + len(warg)
    ilseq = False
    if narg is not None:
        fmt += [ord(c) for c in "%s"]
        args.append("s:" + bytes(narg).hex())
        ilseq = any(b >= 0x80 for b in narg)
        n += len(narg)
    entry = dmax == 0 or dmax > RSIZE_MAX_WSTR
    fits = (not ilseq) and n < dmax
    big = dmax >= 512
    size = (RSIZE_MAX_WSTR if f == "vsw" else dmax) if big else 512
    if ilseq or n >= size:
        probe = "neg"
    elif n == 0:
        probe = "zero"
    else:
        probe = "large" if n >= dmax else "small"
    a = (args + ["i:0", "i:0", "i:0"])[:3]
    h = "fn=%s dmax=%d fmt=%s a0=%s a1=%s a2=%s" % (fn, dmax, whex(fmt), a[0], a[1], a[2])
    m = "alloc=wprobe f=%s entry=%d fits=%d dmax1=%d big=%d probe=%s" % (f, entry, fits, dmax == 1, big, probe)
    return Case(fn, h, m, True, "%s(dmax=%d, L\"%s%%ls%s\", %d wide chars%s)" % (fn, dmax, pre, "%s" if narg is not None else "", len(warg),
                                                                                 ", invalid multibyte" if ilseq else ""), "wprobe", origin)


def gen_wprobe(rng, tier):
    out = []
    thorough = tier != "quick"
    dmaxs = [1, 2, 100, 511, 512, 513, 600, 1023, 1024]
    lens = [0, 1, 99, 100, 510, 511, 512, 513, 599, 600, 700, 1022, 1023, 1024, 1100]
    for fn in WFNS:
        for d in dmaxs + [0, 1025]:
            for n in lens:
                if thorough or d in (1, 100, 512, 600, 1024, 1025, 0) or n in (d - 1, d, d + 1):
                    out.append(wprobe_case(fn, d, "", "A" * n, None, "grid"))
        for d in (100, 600):
            out.append(wprobe_case(fn, d, "x=", "abc", [0xC3, 0x28], "ilseq"))
            out.append(wprobe_case(fn, d, "", "B" * 700, [0x41], "narrow-arg"))
        for _ in range(1500 if thorough else 30):
            d = rng.choice([rng.randint(1, 1024), rng.choice(dmaxs)])
            n = max(0, rng.choice([d - 1, d, d + 1, rng.randint(0, 1200), 511, 512, 1023, 1024]))
            pre = "".join(rng.choice("pq%") for _ in range(rng.randint(0, 3)))
            out.append(wprobe_case(fn, d, pre, "C" * max(0, n - len(pre)), None, "random"))
    return out


# ------------------------------------------------------------------ family 3: the fold buffers
def fold_case(fn, a, b, dmax, smax, fold, origin):
    """a, b: ASCII strings (declared sizes dmax, smax are truthful or deliberately out of range)"""
    entry = dmax == 0 or smax == 0 or dmax > RSIZE_MAX_STR or smax > RSIZE_MAX_WSTR

    def fcerr(s, n):       # wcsfc_s(d, 2n, s): 2n must not exceed RSIZE_MAX_WSTR and every character needs 5 cells of room in front of it
        return 2 * n > RSIZE_MAX_WSTR or (len(s) >= 1 and 2 * n < len(s) + 4)
    fa, fb = a.lower(), b.lower()
    if fn == "wcsicmp_s":
        final = False
        do_fold = True
    else:
        do_fold = bool(fold)
        x, y = (fa, fb) if fold else (a, b)
        final = x == y and len(x) > 0      # equal texts run into the "src unterminated" exit of wcsnatcmp_s
        if not fold:
            final = x == y and len(y) + 1 >= smax and len(x) > 0
    h = "fn=%s dmax=%d smax=%d fold=%d dest=%s src=%s" % (fn, dmax, smax, fold, whex(a), whex(b))
    m = "alloc=fold entry=%d fold=%d fc1=%d fc2=%d final=%d" % (entry, do_fold, fcerr(a, dmax), fcerr(b, smax), final)
    return Case(fn, h, m, False, "%s(%r,%d,%r,%d%s)" % (fn, a, dmax, b, smax, ", fold" if fn != "wcsicmp_s" and fold else ""), "fold", origin)


def gen_fold(rng, tier):
    out = []
    thorough = tier != "quick"
    pairs = [("file10", "File9"), ("a007", "A7"), ("x 12", "x 3"), ("Hello", "hELLO"), ("abc", "abd"), ("Zeta", "alpha"), ("a", "b"), ("x", "X"), ("The Quick", "the quick brown"), ("", "a"), ("a", "")]
    for a, b in pairs:
        for fn, fold in (("wcsicmp_s", 1), ("wcsnatcmp_s", 1), ("wcsnatcmp_s", 0)):
            if fn == "wcsnatcmp_s" and not fold and a.lower() == b.lower():
                continue
            if fn == "wcsnatcmp_s" and (a == "" or b == ""):
                continue
            out.append(fold_case(fn, a, b, len(a) + 1, len(b) + 1, fold, "pairs"))
            out.append(fold_case(fn, a, b, len(a) + 8, len(b) + 3, fold, "pairs"))
            # error exits behind the first / second allocation
            out.append(fold_case(fn, a, b, 513, len(b) + 1, fold, "fc1-lemax"))
            out.append(fold_case(fn, a, b, len(a) + 1, 600, fold, "fc2-lemax"))
            out.append(fold_case(fn, a, b, 4096, 1024, fold, "fc1-lemax"))
            out.append(fold_case(fn, a, b, 0, 5, fold, "entry"))
            out.append(fold_case(fn, a, b, 5, 1025, fold, "entry"))
    for fn, fold in (("wcsicmp_s", 1), ("wcsnatcmp_s", 1)):
        out.append(fold_case(fn, "ab", "cd", 3, 3, fold, "exact"))
        out.append(fold_case(fn, "a", "b", 2, 2, fold, "fc-nospc"))
        out.append(fold_case(fn, "ab", "c", 3, 2, fold, "fc-nospc"))
        long_a = "".join(rng.choice("AbCdEfG") for _ in range(400))
        out.append(fold_case(fn, long_a, long_a[:399] + "z", 401, 401, fold, "long"))
        out.append(fold_case(fn, long_a, "q" + long_a[1:], 512, 512, fold, "long"))
        for _ in range(1000 if thorough else 20):
            a = "".join(rng.choice("AaBbZz") for _ in range(rng.randint(1, 30)))
            b = "".join(rng.choice("AaBbZz") for _ in range(rng.randint(1, 30)))
            if a.lower() == b.lower() or a[0].lower() == b[0].lower() and fn == "wcsnatcmp_s":
                b = ("c" if a[0].lower() != "c" else "d") + b
            out.append(fold_case(fn, a, b, len(a) + 1 + rng.randint(0, 5), len(b) + 1 + rng.randint(0, 5), fold, "random"))
    return out


# ------------------------------------------------------------------ family 4: normalization
STARTERS = [0x31, 0x23, 0x4E00]                 # no canonical composition starts with these
MARKS = [0x300, 0x301, 0x316, 0x31B, 0x327, 0x334, 0x345, 0x308, 0x323]
MODES = {"nfd": 0, "nfc": 1, "fcd": 2, "fcc": 3}


def ccc(cp):
    return unicodedata.combining(chr(cp))


def nfd_order(cps):
    """canonical ordering of text that needs no decomposition"""
    out, run = [], []
    for cp in cps + [None]:
        if cp is not None and ccc(cp):
            run.append(cp)
        else:
            out += sorted(run, key=ccc)
            run = []
            if cp is not None:
                out.append(cp)
    return out


def compose_pair(a, b):
    s = unicodedata.normalize("NFC", chr(a) + chr(b))
    return ord(s) if len(s) == 1 else None


def compose_features(cps, contig):
    """UAX #15 canonical composition over canonically ordered text: which cells are absorbed into the starter.
    Returns the feature string (s/m = starter/mark kept, c/d = starter/mark absorbed)."""
    feats = []
    starter, last_cc, pending = None, 0, 0
    for cp in cps:
        cc = ccc(cp)
        absorbed = False
        if starter is not None:
            blocked = (contig and pending > 0) or (cc != 0 and last_cc == cc) or last_cc > cc
            if not blocked:
                c = compose_pair(starter, cp)
                if c is not None:
                    starter, absorbed = c, True
        if not absorbed:
            if starter is not None:
                last_cc = cc
                if cc != 0:
                    pending += 1
            if cc == 0:
                starter, last_cc, pending = cp, 0, 0
        feats.append(("d" if cc else "c") if absorbed else ("m" if cc else "s"))
    return "".join(feats) or "-"


def no_decomp(cps):
    return all(unicodedata.decomposition(chr(c)) == "" and not (0xAC00 <= c <= 0xD7A3) for c in cps)


def mark_cells(cps):
    return "".join("1" if ccc(c) else "0" for c in cps) or "-"


def reorder_case(cps, dmax, length, origin):
    h = "fn=wcsnorm_reorder_s dmax=%d len=%d src=%s" % (dmax, length, whex(cps))
    m = "alloc=reorder dmax=%d cells=%s" % (dmax, mark_cells(cps[:length]))
    return Case("wcsnorm_reorder_s", h, m, True, "wcsnorm_reorder_s(dmax=%d, %s, len=%d)" % (dmax, runs_desc(cps[:length]), length), "norm", origin)


def compose_case(cps, dmax, contig, origin):
    cps = nfd_order(cps)
    h = "fn=wcsnorm_compose_s dmax=%d len=%d contig=%d src=%s" % (dmax, len(cps), contig, whex(cps))
    m = "alloc=compose dmax=%d cells=%s" % (dmax, compose_features(cps, contig))
    return Case("wcsnorm_compose_s", h, m, True, "wcsnorm_compose_s(dmax=%d, %s%s)" % (dmax, runs_desc(cps), ", contig" if contig else ""), "norm", origin)


def norm_case(cps, dmax, mode, origin):
    # decomposition step: every source character is replaced by its full canonical decomposition (no reordering yet);
    # each needs 5 cells of room in front of it (_decomp_s)
    parts = [[ord(c) for c in unicodedata.normalize("NFD", chr(cp))] for cp in cps]
    assert not any(0xAC00 <= c <= 0xD7A3 for c in cps)
    dec, written = dmax < 5 or dmax > RSIZE_MAX_WSTR, 0
    for part in parts:
        if dmax - written < 5:
            dec = True
        written += len(part)
    cps_src, cps = cps, [c for part in parts for c in part]
    n = len(cps)
    ordered = nfd_order(cps)
    h = "fn=wcsnorm_s dmax=%d mode=%d src=%s" % (dmax, MODES[mode], whex(cps_src))
    m = "alloc=norm dec=%d mode=%s dmax=%d len=%d rcells=%s ccells=%s" % (dec, mode, dmax, n, mark_cells(cps), compose_features(ordered, mode == "fcc"))
    return Case("wcsnorm_s", h, m, True, "wcsnorm_s(dmax=%d, %s, %s)" % (dmax, runs_desc(cps), mode), "norm", origin)


def runs_desc(cps):
    """e.g. S M12 S3 M17: runs of starters / marks"""
    out, i = [], 0
    while i < len(cps):
        j = i
        mk = bool(ccc(cps[i]))
        while j < len(cps) and bool(ccc(cps[j])) == mk:
            j += 1
        out.append(("M" if mk else "S") + (str(j - i) if j - i > 1 else ""))
        i = j
    return " ".join(out) or "(empty)"


def build_text(rng, shape, starters=STARTERS, marks=MARKS):
    """shape: list of ints; n >= 0 = a run of n marks, -k = k starters"""
    cps = []
    for x in shape:
        if x < 0:
            cps += [rng.choice(starters) for _ in range(-x)]
        else:
            cps += [rng.choice(marks) for _ in range(x)]
    return cps


def gen_norm(rng, tier):
    out = []
    thorough = tier != "quick"
    shapes = [[-1, 5], [-1, 10], [-1, 11], [-1, 12], [-1, 15], [-1, 16], [-1, 17], [-1, 21], [-1, 26], [-1, 31],
              [12], [17, -1], [-1, 12, -1], [-1, 12, -1, 3, -2], [-1, 12, -1, 17], [-1, 17, -1, 12], [-1, 11, -1, 11, -1, 16],
              [-3], [-1, 1, -1, 2], [-2, 10, -1, 10], [-1, 16, -1, 21, -1, 26]]
    if thorough:
        shapes += [[-1, n] for n in range(0, 42)] + [[-1, a, -1, b] for a in (9, 10, 11, 15, 16) for b in (9, 10, 11, 15, 16, 20, 21)]
    for sh in shapes:
        cps = build_text(rng, sh)
        n = len(cps)
        dm = {n + 1, n + 5, 64 if n < 64 else n + 9}
        for d in dm:
            out.append(reorder_case(cps, d, n, "shapes"))
            out.append(compose_case(cps, d, 0, "shapes"))
            out.append(compose_case(cps, d, 1, "shapes"))
        # small dmax: the ESNOSPC exits (inputs whose unsigned dmax arithmetic would wrap are dropped later, by the model)
        for d in sorted({1, 2, 3, n, n - 1, n - 2, 11, 12, 13, 16, 17, 18} | ({rng.randint(1, n)} if n else set())):
            if 1 <= d <= n:
                out.append(reorder_case(cps, d, n, "nospace"))
                out.append(compose_case(cps, d, 0, "nospace"))
        if n > 3:
            out.append(reorder_case(cps, n + 1, n - 2, "shorter-len"))
        for mode in MODES:
            for d in sorted({max(5, n + 4), n + 7, n + 3, n, 4}):
                if d >= 1:
                    out.append(norm_case(cps, d, mode, "shapes"))
    # composing texts (canonical composition absorbs cells): a + grave, e + macron + grave, blocked marks
    comp_texts = [[0x61, 0x300], [0x61, 0x316, 0x300], [0x61, 0x301, 0x300], [0x65, 0x304, 0x300], [0x61, 0x300] + [0x316] * 12,
                  [0x31] + [0x316] * 12 + [0x61, 0x300], [0x61] + [0x334] * 11 + [0x300], [0x61, 0x300, 0x62, 0x63, 0x327], [0x41, 0x30A, 0x301],
                  [0x61, 0x308] + [0x301] * 16 + [0x65, 0x301]]
    for cps in comp_texts:
        n = len(cps)
        for d in (n + 1, n + 6):
            out.append(compose_case(cps, d, 0, "composing"))
            for mode in ("nfc", "nfd"):
                out.append(norm_case(cps, max(5, d + 3), mode, "composing"))
    # texts that decompose (length changes in the decomposition step): precomposed Latin letters with one to three marks
    for cps in ([0xE9] * 5, [0x1D6, 0x1E69, 0xC5], [0xE9] * 70, [0x1D6] * 45, [0x31] + [0x1E69] * 6 + [0x316] * 9, [0x1D6] * 4 + [0x301] * 9,
                [0x61] + [0xE9] * 41 + [0x1D6] * 14):
        nd = sum(len(unicodedata.normalize("NFD", chr(c))) for c in cps)
        for mode in ("nfc", "nfd", "fcc"):
            for d in sorted({nd + 4, nd + 9, nd + 1, len(cps) + 4}):
                if 5 <= d <= RSIZE_MAX_WSTR:
                    out.append(norm_case(cps, d, mode, "decomposing"))
    # scratch buffer of wcsnorm_s: len + 2 >= 128, and its error exit (len + 2 > RSIZE_MAX_WSTR)
    for n in (124, 125, 126, 127, 140, 300, 1021, 1022, 1023):
        for sh in ([-n], [-(n - 18), 17, -1], [-1, 12, -(n - 13)]):
            cps = build_text(rng, sh)
            for mode in (("nfc", "nfd", "fcc", "fcd") if n in (126, 140, 1022) else ("nfc", "nfd")):
                d = min(RSIZE_MAX_WSTR, n + 10)
                if n < d:
                    out.append(norm_case(cps, d, mode, "scratch"))
    out.append(norm_case(build_text(rng, [-1023]), 1024, "nfc", "scratch-lemax"))
    out.append(norm_case(build_text(rng, [-1, 12, -1010]), 1024, "nfd", "scratch-lemax"))
    out.append(norm_case(build_text(rng, [-200]), 150, "nfc", "dec-nospace"))
    out.append(reorder_case(build_text(rng, [-3]), 1025, 3, "entry"))
    out.append(compose_case(build_text(rng, [-3]), 1025, 0, "entry"))
    for _ in range(8000 if thorough else 40):
        sh = []
        for _ in range(rng.randint(1, 5)):
            sh.append(-rng.randint(1, 3))
            sh.append(rng.choice([0, 1, 2, 9, 10, 11, 12, 15, 16, 17, 20, 21, 22, 30]))
        if rng.random() < 0.3:
            sh = sh[1:]
        cps = build_text(rng, sh)
        n = len(cps)
        d = rng.choice([n + 1, n + 1, n + 10, rng.randint(1, max(1, n))])
        out.append(reorder_case(cps, d, n, "random"))
        out.append(compose_case(cps, d, rng.random() < 0.3, "random"))
        out.append(norm_case(cps, max(5, n + 2 + rng.randint(0, 5)), rng.choice(list(MODES)), "random"))
        if rng.random() < 0.3:
            pad = build_text(rng, [-(130 + rng.randint(0, 40))])
            out.append(norm_case(pad[:60] + cps + pad[60:], len(pad) + n + 3, rng.choice(["nfc", "nfd"]), "random-scratch"))
    return out


# ------------------------------------------------------------------ running
def run_parallel(cmd, lines, workers=4):
    chunks = [lines[i::workers] for i in range(workers)]

    def one(ch):
        if not ch:
            return {}
        o, rc, err = proto.run_lines(cmd, ch, timeout=3000)
        if rc != 0:
            raise RuntimeError("%s exited %d: %s" % (cmd[0], rc, err[:300]))
        return o
    res = {}
    with ThreadPoolExecutor(max_workers=workers) as ex:
        for o in ex.map(one, chunks):
            res.update(o)
    return res


def resolve_sites(hbin, addrs, inv):
    """return address of an allocation request -> (relfile, ordinal) via addr2line and the inventory"""
    addrs = sorted(addrs)
    if not addrs:
        return {}
    r = subprocess.run(["addr2line", "-f", "-e", hbin] + ["0x" + a for a in addrs], capture_output=True, text=True)
    ls = r.stdout.splitlines()
    out = {}
    for i, a in enumerate(addrs):
        fnname, loc = ls[2 * i], ls[2 * i + 1].split(" ")[0]
        path, _, line = loc.rpartition(":")
        try:
            line = int(line)
        except ValueError:
            line = -1
        best = None
        for (rel, ln, call, ordn) in inv:
            if path.endswith("/" + rel) and abs(ln - line) <= 3:
                if best is None or abs(ln - line) < abs(best[1] - line):
                    best = (rel, ln, call, ordn)
        out[a] = dict(fn=fnname, file=path, line=line, site=(best[0], best[3]) if best else None, call=best[2] if best else None)
    return out


def label(site):
    if site is None:
        return "unknown-site"
    return SITES[site][2] if site in SITES else "%s#%d" % (os.path.basename(site[0]), site[1])


def impl_failed(c, d):
    r = int(d["ret"])
    return r != 0 if c.fn in ERRNO_T_FNS else r < 0


def oracle(c, d, slack, sites):
    """the property, on one implementation observation.  Returns [(sig, detail)]"""
    fails = []
    ev = [] if d["seq"] == "-" else d["seq"].split(",")
    addrs = [] if d["sites"] == "-" else d["sites"].split(",")
    failed_req = [int(re.match(r"[MR](\d+)", e).group(1)) for e in ev if e.endswith("-")]

    def site_of(k):
        return label(sites.get(addrs[k], {}).get("site")) if k < len(addrs) else "unknown-site"
    k0 = failed_req[0] if failed_req else None
    where = "%s:%s" % (site_of(k0), k0) if failed_req else None
    if d["sig"] != "0":
        if failed_req:
            fails.append(("%s:%s:crash" % (c.fn, where), "signal %s (%s address) after request %s was failed" % (d["sig"], d["fa"], failed_req)))
        else:
            fails.append(("%s:-:-:crash" % c.fn, "signal %s (%s address) although no allocation was failed" % (d["sig"], d["fa"])))
        return fails
    if int(d["bad"]):
        fails.append(("%s:%s:bad-free" % (c.fn, where or "-:-"), "free/realloc of a pointer that is not a live block"))
    if int(d["out"]):
        live = {}
        for e in ev:
            m = re.match(r"M(\d+)\+$", e)
            if m:
                live[int(m.group(1))] = 1
            m = re.match(r"R(\d+):(\w+)\+$", e)
            if m:
                live.pop(int(m.group(2)) if m.group(2).isdigit() else -1, None)
                live[int(m.group(1))] = 1
            m = re.match(r"F(\d+)$", e)
            if m:
                live.pop(int(m.group(1)), None)
        for b in sorted(live):
            fails.append(("%s:%s:%s:leak" % (c.fn, site_of(b), k0 if failed_req else "-"),
                          "block from request %d still allocated at return (outstanding=%s)" % (b, d["out"])))
    if failed_req:
        if not impl_failed(c, d) or int(d["hn"]) == 0:
            fails.append(("%s:%s:not-reported" % (c.fn, where), "request %s failed but ret=%s, handler calls=%s" % (failed_req, d["ret"], d["hn"])))
        if c.hasdest and not (d["d0"] == "1" and (not slack or d["dall"] == "1")):
            fails.append(("%s:%s:not-cleared" % (c.fn, where), "request %s failed but dest is not cleared (dest[0]==0: %s, all zero: %s)" % (failed_req, d["d0"], d["dall"])))
    return fails


def projection_diff(c, dc, dm, slack):
    """None if model and implementation agree on the C20 projection, else a description"""
    icrash = dc["sig"] != "0"
    mcrash = dm["crash"] != "-"
    if icrash != mcrash:
        return "crashed: impl %s (sig %s), model %s" % (icrash, dc["sig"], dm["crash"])
    if dc["seq"] != dm["seq"]:
        return "alloc/free sequence: impl %s, model %s" % (dc["seq"], dm["seq"])
    if dc["out"] != dm["out"]:
        return "outstanding: impl %s, model %s" % (dc["out"], dm["out"])
    if icrash:
        if dm["crash"] == "null" and not (dc["sig"] == "11" and dc["fa"] in ("null", "low")):
            return "model predicts a null dereference, impl died with sig %s at a %s address" % (dc["sig"], dc["fa"])
        return None
    if int(dc["bad"]):
        return "impl made an invalid free, the model did not fault"
    if impl_failed(c, dc) != (dm["failed"] == "1"):
        return "failure indication: impl ret=%s, model failed=%s" % (dc["ret"], dm["failed"])
    if (int(dc["hn"]) > 0) != (dm["handled"] == "1"):
        return "handler called: impl %s times, model handled=%s" % (dc["hn"], dm["handled"])
    anyfailed = dc["seq"] != "-" and any(e.endswith("-") for e in dc["seq"].split(","))
    if anyfailed and c.hasdest:
        icl = dc["d0"] == "1" and (not slack or dc["dall"] == "1")
        if icl != (dm["cleared"] == "1"):
            return "dest cleared: impl %s (d0=%s dall=%s), model %s" % (icl, dc["d0"], dc["dall"], dm["cleared"])
    return None


def plans_for(n, tier, rng):
    """failing-index sets for a case with n requests in the fault-free run"""
    pl = [[k] for k in range(n)]
    if n >= 1:
        pl.append(list(range(min(n + 3, 16))))             # every request fails
    if n >= 2:
        pairs = [(a, b) for a in range(n) for b in range(a + 1, n)]
        if tier == "quick" and len(pairs) > 4:
            pairs = rng.sample(pairs, 4)
        pl += [list(p) for p in pairs[:40]]
    if n >= 3 and tier != "quick":
        tr = [(a, b, c) for a in range(n) for b in range(a + 1, n) for c in range(b + 1, n)]
        pl += [list(t) for t in (rng.sample(tr, 6) if len(tr) > 6 else tr)]
    return pl


def gen_all(rng, tier):
    cases = gen_engine(rng, tier) + gen_wprobe(rng, tier) + gen_fold(rng, tier) + gen_norm(rng, tier)
    seen, uniq = set(), []
    for c in cases:
        if c.key() not in seen:
            seen.add(c.key()); uniq.append(c)
    return uniq


def fx_override():
    v = os.environ.get("VERIF_C20_FX", "")
    return (" fx=" + v) if re.fullmatch(r"[01]{7}", v) else ""


def run(tier, seed, replay=None):
    res = Result(PID, tier, seed)
    orch.gen_mod.main()
    mkoblig.main()
    lean_ok, lean_log, dt = orch.lake_build(orch.prop_targets("C20"))
    res.extra["lean_build_s"] = round(dt, 1)
    drv_ok = lean_ok or orch.lake_build(["safec_model"])[0]
    obs = orch.obligations(PID)
    audit, _ = orch.audit_axioms(PID, obs) if lean_ok else ([dict(o, ok=False, axioms=None, error="build failed") for o in obs], "")
    forb = orch.forbidden_tokens()
    known = orch.load_known()
    fx = fx_override()
    consts = open(os.path.join(orch.LEAN, "SafeC", "Gen", "Consts.lean")).read()
    for name, val in (("RSIZE_MAX_STR", RSIZE_MAX_STR), ("RSIZE_MAX_WSTR", RSIZE_MAX_WSTR)):
        if not re.search(r"def %s : Nat := %d\b" % (name, val), consts):
            res.mismatch.append(dict(kind="correspondence", property=PID, fn="constants", what="%s is no longer %d in the tree's headers" % (name, val)))

    if replay:
        rep = json.load(open(replay))
        if "h" not in rep:
            print(json.dumps(rep, indent=1)[:4000]); return 0
        slack = rep.get("slack", 1)
        L = buildlib.build(slack=bool(slack), opt=rep.get("opt", "-O0"))
        hbin = buildlib.build_harness(L, os.path.join(VERIF, "harness", "halloc.c"), os.path.join(L["dir"], "halloc"), extra=WRAPFLAGS)
        fl = ",".join(map(str, rep["fail"])) or "-"
        c, _, _ = proto.run_lines([hbin], ["id=0 fail=%s %s" % (fl, rep["h"])])
        m, _, _ = proto.run_lines([orch.MODEL_BIN], ["id=0 fail=%s %s%s" % (fl, rep["m"], fx)])
        print("case :", rep.get("desc")); print("fail :", fl, " slack:", slack)
        print("impl :", {k: v for k, v in c.get("0", {}).items() if k not in ("id",)})
        print("model:", {k: v for k, v in m.get("0", {}).items() if k not in ("id",)})
        print("recorded impl:", rep.get("impl"))
        return 0

    if drv_ok:
        fxo, _, _ = proto.run_lines([orch.MODEL_BIN], ["id=0 alloc=fixes"])
        res.extra["model_fixes"] = dict(order="fmtcopy,lsconv,wprobe,vswrep,normtmp,reorder,compose", current=fxo.get("0", {}).get("fx"), override=fx.strip() or None)
    inv, other = inventory()
    inv_sites = {(rel, ordn): (call, ln) for rel, ln, call, ordn in inv}
    res.extra["allocation_site_inventory"] = ["%s:%d %s (#%d in file) -> %s" % (rel, ln, call, ordn, label((rel, ordn))) for rel, ln, call, ordn in inv]
    res.extra["other_allocating_calls"] = ["%s:%d %s" % x for x in other]
    for key in sorted(set(inv_sites) | set(SITES)):
        if key not in SITES:
            res.mismatch.append(dict(kind="correspondence", property=PID, fn="inventory",
                                     what="allocation call %s:%d (%s, #%d in its file) is not one the harness knows how to reach" % (key[0], inv_sites[key][1], inv_sites[key][0], key[1])))
        elif key not in inv_sites:
            res.mismatch.append(dict(kind="correspondence", property=PID, fn="inventory", what="expected allocation site %s #%d (%s) is no longer in the tree" % (key[0], key[1], SITES[key][2])))
        elif inv_sites[key][0] != SITES[key][0]:
            res.mismatch.append(dict(kind="correspondence", property=PID, fn="inventory", what="site %s #%d is now a %s call (was %s)" % (key[0], key[1], inv_sites[key][0], SITES[key][0])))
    for x in other:
        res.mismatch.append(dict(kind="correspondence", property=PID, fn="inventory", what="allocating call %s at %s:%d is not intercepted by the harness" % (x[2], x[0], x[1])))

    rng = random.Random(seed * 7919 + 20)
    cases = gen_all(rng, tier)
    t0 = time.time()
    # 1. model, fault-free: drop inputs whose unsigned dmax arithmetic wraps (destination overrun, not an allocation matter)
    m0 = run_parallel([orch.MODEL_BIN], ["id=%d fail=- %s%s" % (i, c.m, fx) for i, c in enumerate(cases)], workers=2) if drv_ok else {}
    kept, dropped = [], 0
    for i, c in enumerate(cases):
        d = m0.get(str(i))
        if d is not None and d.get("wrap") == "1":
            dropped += 1
        elif d is not None and "err" in d:
            res.notes.append("model rejected %s: %s" % (c.desc, c.m))
        else:
            kept.append(c)
    cases = kept
    reached, failed_at, fn_seen = {}, {}, set()
    site_examples = {}
    configs = [(1, "-O0"), (0, "-O0")] + ([(1, "-O2")] if tier != "quick" else [])     # thorough: the tree once more at -O2
    for slack, opt in configs:
        L = buildlib.build(slack=bool(slack), opt=opt)
        hbin = buildlib.build_harness(L, os.path.join(VERIF, "harness", "halloc.c"), os.path.join(L["dir"], "halloc"), extra=WRAPFLAGS)
        # 2. implementation, fault-free
        c0 = run_parallel([hbin], ["id=%d fail=- %s" % (i, c.h) for i, c in enumerate(cases)])
        jobs = []
        prng = random.Random(seed * 104729 + slack)
        for i, c in enumerate(cases):
            d = c0.get(str(i))
            if d is None or "err" in d:
                res.notes.append("harness rejected %s" % c.desc); continue
            jobs.append((c, []))
            for pl in plans_for(int(d["n"]), tier, prng):
                jobs.append((c, pl))
        hl = ["id=%d fail=%s %s" % (j, ",".join(map(str, pl)) or "-", c.h) for j, (c, pl) in enumerate(jobs)]
        ml = ["id=%d fail=%s %s%s" % (j, ",".join(map(str, pl)) or "-", c.m, fx) for j, (c, pl) in enumerate(jobs)]
        ci = run_parallel([hbin], hl)
        mi = run_parallel([orch.MODEL_BIN], ml, workers=2) if drv_ok else {}
        sites = resolve_sites(hbin, {a for d in ci.values() for a in d.get("sites", "-").split(",") if a != "-"}, inv)
        for a, info in sites.items():
            if info["site"] is None:
                res.mismatch.append(dict(kind="correspondence", property=PID, fn="inventory", what="allocation request from %s:%s (%s) matches no call in the source inventory" % (info["file"], info["line"], info["fn"])))
            elif info["site"] in SITES and SITES[info["site"]][1] != info["fn"]:
                res.mismatch.append(dict(kind="correspondence", property=PID, fn="inventory", what="site %s is now in function %s (expected %s)" % (label(info["site"]), info["fn"], SITES[info["site"]][1])))
        for j, (c, pl) in enumerate(jobs):
            dc, dm = ci.get(str(j)), mi.get(str(j))
            if dc is None or "err" in dc:
                res.notes.append("no observation for %s fail=%s" % (c.desc, pl)); continue
            res.evaluations += 1
            fn_seen.add(c.fn)
            nreq = int(dc["n"])
            res.count("entry", c.fn)
            res.count("family", "%s/slack=%d%s" % (c.fam, slack, "" if opt == "-O0" else opt))
            res.count("origin", "%s/%s" % (c.fam, c.origin))
            res.count("requests-in-run", str(min(nreq, 6)) if nreq < 6 else "6+")
            res.count("plan", "fault-free" if not pl else "single" if len(pl) == 1 else "pair" if len(pl) == 2 else
                      "every-request" if pl == list(range(len(pl))) and len(pl) > nreq else "triple")
            res.count("outcome", "crash" if dc["sig"] != "0" else "failed" if impl_failed(c, dc) else "ok")
            if nreq:
                res.distinct.add((c.fn, c.h, tuple(pl), slack, opt))
            addrs = [] if dc["sites"] == "-" else dc["sites"].split(",")
            ev = [] if dc["seq"] == "-" else dc["seq"].split(",")
            for k, a in enumerate(addrs):
                s = sites.get(a, {}).get("site")
                reached[s] = reached.get(s, 0) + 1
                if any(re.match(r"[MR]%d(:\w+)?-$" % k, e) for e in ev):
                    failed_at[s] = failed_at.get(s, 0) + 1
                    site_examples.setdefault(s, "%s fail=%s" % (c.desc, pl))
            if len(res.samples) < 10 and nreq and (res.evaluations % 331 == 5 or (pl and len(res.samples) < 3)):
                res.samples.append(dict(case=c.desc, harness_op=c.h[:300], model_op=c.m[:300], failing_requests=pl, slack=slack,
                                        impl={k: v for k, v in dc.items() if k not in ("id", "sites")}, model=dm and {k: v for k, v in dm.items() if k != "id"}))
            diff = None
            if dm is not None and "err" not in dm:
                res.modelled.add(c.fn)
                if dm.get("selfcheck") != "1":
                    diff = "driver self-check failed: exec and the tracing interpreter disagree"
                else:
                    diff = projection_diff(c, dc, dm, slack)
            elif drv_ok:
                res.unmodelled.add(c.fn)
            agree = None if dm is None else diff is None
            fails = oracle(c, dc, slack, sites)
            for sig, detail in fails:
                ent = next((e for e in known if orch.known_match(e, PID, sig, slack)), None)
                if ent is not None and agree is not False:
                    kk = ent.get("id") or ent.get("sig") or ent.get("sig_re")
                    hh = res.known_hit.setdefault(kk, dict(ent, count=0, example="%s fail=%s" % (c.desc, pl), sigs=set()))
                    hh["count"] += 1; hh["sigs"].add(sig)
                else:
                    res.violations.append((sig, dict(kind="property-fails-on-implementation", property=PID, sig=sig, detail=detail, desc=c.desc, fn=c.fn,
                                                     h=c.h, m=c.m, fail=pl, slack=slack, opt=opt, impl=dc, model=dm, model_predicts=agree, model_diff=diff)))
            if diff is not None and not fails:
                res.mismatch.append(dict(kind="correspondence", property=PID, fn=c.fn, what=diff + ("" if opt == "-O0" else " [build %s]" % opt), desc=c.desc, h=c.h, m=c.m, fail=pl, slack=slack, opt=opt, impl=dc, model=dm))
        log("  C20 slack=%d %s: %d cases, %d (case, failing set) runs, %.1fs" % (slack, opt, len(cases), len(jobs), time.time() - t0))
    # every inventory site must have been reached, and failed, in this run
    for key in sorted(inv_sites):
        if key in SITES and not reached.get(key):
            res.mismatch.append(dict(kind="correspondence", property=PID, fn="inventory", what="allocation site %s (%s:%d) was not reached by any input of this run" % (label(key), key[0], inv_sites[key][1])))
        elif key in SITES and not failed_at.get(key):
            res.mismatch.append(dict(kind="correspondence", property=PID, fn="inventory", what="allocation site %s was reached but never failed" % label(key)))
    for x in res.mismatch[:12]:
        log("   mismatch:", x.get("fn"), x.get("what"), "|", x.get("desc", ""), "fail=%s" % x.get("fail"), "| impl", x.get("impl") and {k: v for k, v in x["impl"].items() if k in ("sig", "ret", "hn", "d0", "dall", "out", "seq")},
            "| model", x.get("model") and {k: v for k, v in x["model"].items() if k != "id"})
    res.extra["site_coverage"] = {"%s (%s #%d)" % (label(k), k[0], k[1]): dict(file=k[0], line=inv_sites[k][1], call=inv_sites[k][0], reached=reached.get(k, 0), failed=failed_at.get(k, 0),
                                                  example=site_examples.get(k)) for k in sorted(inv_sites)}
    res.extra["entry_points_driven"] = sorted(fn_seen)
    fv = {}
    for c in cases:
        fv.setdefault(c.m.split()[0].split("=")[1] + ("/" + c.fn if c.fam in ("engine", "wprobe", "fold") else ""), set()).add(c.m)
    res.extra["distinct_feature_vectors"] = {k: len(v) for k, v in sorted(fv.items())}
    res.extra["inputs_dropped_for_dmax_wraparound"] = dropped
    res.extra["cases"] = len(cases)
    trusted = ["Lean 4.33 kernel; axioms propext, Classical.choice, Quot.sound only (audited per theorem on every run)",
               "lean/SafeC/Models/Alloc.lean: the allocation machine (alloc/realloc/free/deref answered by a failure oracle) and the hand-written allocation skeletons "
               "of the 16 allocating entry points, tied to the implementation by running this run's (input, failing set) pairs only",
               "harness/halloc.c: link-time wrap of malloc/calloc/realloc/free (library call sites only; libc-internal allocations are not failed), forked children, SIGSEGV capture",
               "tools/p20.py: the control-flow features are computed from the STRUCTURE the input was generated from (lengths, combining classes and canonical compositions "
               "from Python's unicodedata, the space accounting of the printf engine for literal/%d/%s/%ls items); the grep inventory of allocation calls; addr2line for the site of a request",
               "gcc -O0 build of the current tree, glibc 2.36 (vswprintf's -1 on overflow, wcstombs in the C locale)"]
    assumptions = ["only the allocation calls written in the library's sources are failed (link-time wrap); allocations libc makes on its own behalf are left alone",
                   "C locale; destinations are physically larger than dmax (a destination overrun is a C01 matter: inputs whose unsigned dmax arithmetic wraps are dropped, count in coverage)",
                   "dest cleared = dest[0] == 0, and every one of the dmax cells zero in the SAFECLIB_STR_NULL_SLACK build",
                   "object size (BOS) unknown in every call"]
    return orch.finish(res, PID, lean_ok, lean_log, audit, forb, "", trusted, assumptions,
                       extra_cov=dict(rule="cases are built from structures (printf items: literal/%d/%s/%ls with width and flag/%L[fFeEgGaA]/%a/illegal directive x dmax lattice; wide formats x "
                                           "(dmax, length) grid around 1, 512 and RSIZE_MAX_WSTR; ASCII pairs x declared sizes for the fold buffers; runs of combining marks of length "
                                           "0..31 around the 10/15/20 growth points x dmax lattice for reorder/compose/wcsnorm_s, scratch sizes around 128 and 1024) plus a seeded random stream; "
                                           "each case is run fault-free and then with every single request failed, with a sample of pairs, and with all requests failed, in both slack builds; "
                                           "evaluation = one (case, failing set, build) run; distinct = distinct (entry point, arguments, failing set, build); non-trivial = the run made at least one allocation request",
                                      exhaustive=False))

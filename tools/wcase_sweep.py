#!/usr/bin/env python3
"""Developer tool: exhaustive cross-check of the wcslwr_s / wcsupr_s models against the real C, one cell value at a time.
   python3 tools/wcase_sweep.py [--chunk 1023] [--random 200000]

Every cell value 1..0x1103FF, the values around 2^31 and below 2^32 and a seeded random sample of all 32-bit patterns
are laid out in terminated strings of `chunk` cells and run through BOTH entry points on BOTH sides (the harness calls
_wcslwr_s_chk / _wcsupr_s_chk of the tree, the driver the Lean model): the two images must be identical.  Then the
changed cells are tabulated against two references that know nothing of the tree: towupper()/towlower() of the running
libc in a UTF-8 locale and in the "C" locale.  Exit status 1 on any model/implementation difference."""
import sys, os, argparse, random, collections
sys.path.insert(0, os.path.dirname(os.path.abspath(__file__)))
import orch, families, proto


def main():
    ap = argparse.ArgumentParser()
    ap.add_argument("--chunk", type=int, default=1023)
    ap.add_argument("--random", type=int, default=200000)
    ap.add_argument("--seed", type=int, default=1)
    a = ap.parse_args()
    fam = families.load_all()["inplace"]
    inplace = sys.modules[fam["gen"].__module__]
    orch.gen_mod.main()
    ok, lg, _ = orch.lake_build(["safec_model"])
    if not ok:
        print(lg[-3000:]); sys.exit(1)
    rng = random.Random(a.seed)
    vals = list(range(1, 0x110400)) + list(range(0x7FFFFF00, 0x80000100)) + list(range(0xFFFFFE00, 0x100000000))
    vals += [rng.randrange(1, 1 << 32) for _ in range(a.random)]
    ops = []
    for fn in ("wcslwr_s", "wcsupr_s"):
        for i in range(0, len(vals), a.chunk):
            ch = vals[i:i + a.chunk]
            ops.append(inplace.mk(fn, ch + [0], len(ch) + 1, tag="sweep-all"))
    impl = orch.Impl()
    c, m = orch.run_pair(impl, ops, 1)
    bad = 0
    maps = {"wcslwr_s": {}, "wcsupr_s": {}}
    for op in ops:
        dc, dm = c.get(str(op.id)), m.get(str(op.id))
        if dc is None or dm is None or "err" in dc or "err" in dm or "fault" in dc or "fault" in dm:
            print("PROBLEM", op.fn, dc if dc is None else {k: v[:80] for k, v in dc.items()}, dm if dm is None else {k: v[:80] for k, v in dm.items()}); bad += 1; continue
        if any(dc.get(k) != dm.get(k) for k in ("ret", "o", "ev", "img")):
            ic = proto.parse_img(dc["img"], {0: 4})[0]; im = proto.parse_img(dm["img"], {0: 4})[0]
            for x, y, z in zip(op.regions[0].cells, ic, im):
                if y != z:
                    print("MISMATCH %s: cell %x  C -> %x  model -> %x" % (op.fn, x, y, z)); bad += 1
            if dc.get("ret") != dm.get("ret") or dc.get("ev") != dm.get("ev"):
                print("MISMATCH %s ret/ev" % op.fn, dc.get("ret"), dm.get("ret"), dc.get("ev"), dm.get("ev")); bad += 1
        ic = proto.parse_img(dc["img"], {0: 4})[0]
        for x, y in zip(op.regions[0].cells, ic):
            if x != y:
                maps[op.fn][x] = y
    print("cell values run: %d per function (%d ops); model/implementation differences: %d" % (len(vals), len(ops), bad))
    up = inplace.utf8_towupper()
    lw, uw = maps["wcslwr_s"], maps["wcsupr_s"]
    print("wcslwr_s changes %d cell values: %s" % (len(lw), " ".join("%x->%x" % kv for kv in sorted(lw.items())[:40])))
    print("  all of them the ASCII capitals + 32: %s" % (lw == {c: c + 32 for c in range(0x41, 0x5B)}))
    print("wcsupr_s changes %d cell values; libc towupper (UTF-8 locale) changes %d" % (len(uw), len(up)))
    diff = sorted(set(uw) | set(up), key=lambda c: c)
    diff = [c for c in diff if uw.get(c, c) != up.get(c, c)]
    print("  wcsupr_s differs from libc's UTF-8 towupper at %d cell values:" % len(diff))
    groups = collections.OrderedDict()
    for c in diff:
        kind = "not mapped by wcsupr_s" if c not in uw else ("mapped by wcsupr_s only" if c not in up else "mapped differently")
        groups.setdefault(kind, []).append(c)
    for kind, cs in groups.items():
        print("   %s (%d): %s" % (kind, len(cs), " ".join("%x->%x(libc %x)" % (c, uw.get(c, c), up.get(c, c)) for c in cs)))
    print("  cell values above 0x10FFFF changed by either function: %s" % sorted(hex(c) for c in set(lw) | set(uw) if c > 0x10FFFF))
    sys.exit(1 if bad else 0)


if __name__ == "__main__":
    main()

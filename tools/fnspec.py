"""Function table for the generic harness: one line per entry point that the generic
op-line protocol can call.

  name : (symbol, retkind, argkinds, width)

retkind : e errno_t | n size | p pointer | t bool | i int
argkinds: one char per C argument, in order:
          p pointer (region ref or null)   n size/number   i int
          I out int* / errno_t*            N out (or in-out) rsize_t*     Q out (or in-out) pointer*
width   : element width in bytes of the pointer arguments (1, 2, 4)
"""

FUNCS = {
    # F1 copy, narrow
    "strcpy_s":      ("_strcpy_s_chk", "e", "pnpn", 1),
    "strcat_s":      ("_strcat_s_chk", "e", "pnpn", 1),
    "strncpy_s":     ("_strncpy_s_chk", "e", "pnpnnn", 1),
    "strncat_s":     ("_strncat_s_chk", "e", "pnpnnn", 1),
    "stpcpy_s":      ("_stpcpy_s_chk", "p", "pnpInn", 1),
    "stpncpy_s":     ("_stpncpy_s_chk", "p", "pnpnInn", 1),
    "strcpyfld_s":   ("_strcpyfld_s_chk", "e", "pnpnn", 1),
    "strcpyfldin_s": ("_strcpyfldin_s_chk", "e", "pnpnn", 1),
    "strcpyfldout_s": ("_strcpyfldout_s_chk", "e", "pnpnn", 1),
    # F1w copy, wide
    "wcscpy_s":      ("_wcscpy_s_chk", "e", "pnpn", 4),
    "wcscat_s":      ("_wcscat_s_chk", "e", "pnpn", 4),
    "wcsncpy_s":     ("_wcsncpy_s_chk", "e", "pnpnnn", 4),
    "wcsncat_s":     ("_wcsncat_s_chk", "e", "pnpnnn", 4),
    # F2 memory
    "memcpy_s":      ("_memcpy_s_chk", "e", "pnpnnn", 1),
    "memmove_s":     ("_memmove_s_chk", "e", "pnpnnn", 1),
    "memset_s":      ("_memset_s_chk", "e", "pninn", 1),
    "memzero_s":     ("_memzero_s_chk", "e", "pnn", 1),
    "memccpy_s":     ("_memccpy_s_chk", "e", "pnpinnn", 1),
    "memcpy16_s":    ("_memcpy16_s_chk", "e", "pnpnnn", 2),
    "memcpy32_s":    ("_memcpy32_s_chk", "e", "pnpnnn", 4),
    "memmove16_s":   ("_memmove16_s_chk", "e", "pnpnnn", 2),
    "memmove32_s":   ("_memmove32_s_chk", "e", "pnpnnn", 4),
    "memset16_s":    ("_memset16_s_chk", "e", "pnnnn", 2),
    "memset32_s":    ("_memset32_s_chk", "e", "pnnnn", 4),
    "memzero16_s":   ("_memzero16_s_chk", "e", "pnn", 2),
    "memzero32_s":   ("_memzero32_s_chk", "e", "pnn", 4),
    "wmemcpy_s":     ("_wmemcpy_s_chk", "e", "pnpnnn", 4),
    "wmemmove_s":    ("_wmemmove_s_chk", "e", "pnpnnn", 4),
    # F3 queries, narrow
    "strnlen_s":     ("_strnlen_s_chk", "n", "pnn", 1),
    "strcmp_s":      ("_strcmp_s_chk", "e", "pnpInn", 1),
    "strcasecmp_s":  ("_strcasecmp_s_chk", "e", "pnpIn", 1),
    "strcmpfld_s":   ("_strcmpfld_s_chk", "e", "pnpIn", 1),
    "strnatcmp_s":   ("_strnatcmp_s_chk", "e", "pnpiInn", 1),
    "strcoll_s":     ("_strcoll_s_chk", "e", "pnpIn", 1),
    "strstr_s":      ("_strstr_s_chk", "e", "pnpnQnn", 1),
    "strcasestr_s":  ("_strcasestr_s_chk", "e", "pnpnQnn", 1),
    "strchr_s":      ("_strchr_s_chk", "e", "pniQn", 1),
    "strrchr_s":     ("_strrchr_s_chk", "e", "pniQn", 1),
    "strpbrk_s":     ("_strpbrk_s_chk", "e", "pnpnQnn", 1),
    "strspn_s":      ("_strspn_s_chk", "e", "pnpnNnn", 1),
    "strcspn_s":     ("_strcspn_s_chk", "e", "pnpnNnn", 1),
    "strprefix_s":   ("_strprefix_s_chk", "e", "pnpn", 1),
    "strfirstchar_s": ("_strfirstchar_s_chk", "e", "pniQn", 1),
    "strfirstdiff_s": ("_strfirstdiff_s_chk", "e", "pnpNn", 1),
    "strfirstsame_s": ("_strfirstsame_s_chk", "e", "pnpNn", 1),
    "strlastchar_s": ("_strlastchar_s_chk", "e", "pniQn", 1),
    "strlastdiff_s": ("_strlastdiff_s_chk", "e", "pnpNn", 1),
    "strlastsame_s": ("_strlastsame_s_chk", "e", "pnpNn", 1),
    "strisalphanumeric_s": ("_strisalphanumeric_s_chk", "t", "pnn", 1),
    "strisascii_s":  ("_strisascii_s_chk", "t", "pnn", 1),
    "strisdigit_s":  ("_strisdigit_s_chk", "t", "pnn", 1),
    "strishex_s":    ("_strishex_s_chk", "t", "pnn", 1),
    "strislowercase_s": ("_strislowercase_s_chk", "t", "pnn", 1),
    "strismixedcase_s": ("_strismixedcase_s_chk", "t", "pnn", 1),
    "strispassword_s": ("_strispassword_s_chk", "t", "pnn", 1),
    "strisuppercase_s": ("_strisuppercase_s_chk", "t", "pnn", 1),
    "memcmp_s":      ("_memcmp_s_chk", "e", "pnpnInn", 1),
    "memcmp16_s":    ("_memcmp16_s_chk", "e", "pnpnInn", 2),
    "memcmp32_s":    ("_memcmp32_s_chk", "e", "pnpnInn", 4),
    "memchr_s":      ("_memchr_s_chk", "e", "pniQn", 1),
    "memrchr_s":     ("_memrchr_s_chk", "e", "pniQn", 1),
    "timingsafe_bcmp": ("_timingsafe_bcmp_chk", "i", "ppnnn", 1),
    "timingsafe_memcmp": ("_timingsafe_memcmp_chk", "i", "ppnnn", 1),
    # F3w queries, wide
    "wcsnlen_s":     ("_wcsnlen_s_chk", "n", "pnn", 4),
    "wcscmp_s":      ("_wcscmp_s_chk", "e", "pnpnInn", 4),
    "wcsncmp_s":     ("_wcsncmp_s_chk", "e", "pnpnnInn", 4),
    "wcsstr_s":      ("_wcsstr_s_chk", "e", "pnpnQnn", 4),
    "wmemcmp_s":     ("_wmemcmp_s_chk", "e", "pnpnInn", 4),
    # F4 in place
    "strset_s":      ("_strset_s_chk", "e", "pnin", 1),
    "strnset_s":     ("_strnset_s_chk", "e", "pninn", 1),
    "strzero_s":     ("_strzero_s_chk", "e", "pnn", 1),
    "strtolowercase_s": ("_strtolowercase_s_chk", "e", "pnn", 1),
    "strtouppercase_s": ("_strtouppercase_s_chk", "e", "pnn", 1),
    "strljustify_s": ("_strljustify_s_chk", "e", "pnn", 1),
    "strremovews_s": ("_strremovews_s_chk", "e", "pnn", 1),
    "strnterminate_s": ("_strnterminate_s_chk", "n", "pnn", 1),
    "wcsset_s":      ("_wcsset_s_chk", "e", "pnnn", 4),
    "wcsnset_s":     ("_wcsnset_s_chk", "e", "pnnnn", 4),
    "wcslwr_s":      ("_wcslwr_s_chk", "e", "pnn", 4),
    "wcsupr_s":      ("_wcsupr_s_chk", "e", "pnn", 4),
    # F5 tokenizers (dmaxp and ptr are in-out)
    "strtok_s":      ("_strtok_s_chk", "p", "pNpQn", 1),
    "wcstok_s":      ("_wcstok_s_chk", "p", "pNpQn", 4),
    # the N/Q argkinds always pass a slot address: extra bindings to pass ptr == NULL / dmaxp == NULL
    "strtok_s_np":   ("_strtok_s_chk", "p", "pNppn", 1),
    "wcstok_s_np":   ("_wcstok_s_chk", "p", "pNppn", 4),
    "strtok_s_nm":   ("_strtok_s_chk", "p", "pppQn", 1),
    "wcstok_s_nm":   ("_wcstok_s_chk", "p", "pppQn", 4),
    # F9
    # F9 os strings (through harness/shims.h: the trailing pointer(s) are what the MODEL reads instead of process state)
    "getenv_s":      ("shim_getenv_s", "e", "Npnpnp", 1),
    "getenv_s_nl":   ("shim_getenv_s_nl", "e", "pnpnp", 1),
    "strerror_s":    ("shim_strerror_s", "e", "pninpp", 1),
    "strerrorlen_s": ("shim_strerrorlen_s", "n", "ip", 1),
    "asctime_s":     ("shim_asctime_s", "e", "pnpnpn", 1),
    "ctime_s":       ("shim_ctime_s", "e", "pnpnpn", 1),
    "gets_s":        ("shim_gets_s", "e", "pnnpn", 1),
    "gmtime_s":      ("shim_gmtime_s", "e", "pppn", 4),
    "localtime_s":   ("shim_localtime_s", "e", "pppn", 4),
}


def gen_dispatch(path):
    out = []
    for name, (sym, rk, argk, w) in FUNCS.items():
        xs = []
        for i, k in enumerate(argk):
            if k == "p":
                xs.append(f"P({i})")
            elif k in "ni":
                xs.append(f"N({i})")
            else:
                xs.append(f"(void*)O({i})")
        out.append(f"static void w_{name}(Call *c) {{ c->ret = (long){sym}({', '.join(xs)}); }}")
    out.append("static const Entry entries[] = {")
    for name, (sym, rk, argk, w) in FUNCS.items():
        out.append(f'  {{"{name}", w_{name}, \'{rk}\', "{argk}"}},')
    out.append("};")
    open(path, "w").write("\n".join(out) + "\n")


if __name__ == "__main__":
    import sys
    gen_dispatch(sys.argv[1])

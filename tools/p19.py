"""C19: timingsafe_bcmp / timingsafe_memcmp — results (proof + correspondence) and data independence
(proof on the source-level trace; valgrind-lackey instruction/address traces of the compiled function
as the runtime part the model cannot exhibit)."""
import os, sys, json, random, time, subprocess, re
from concurrent.futures import ThreadPoolExecutor
import orch, buildlib, proto, fnspec
from proto import Op, Region, ptr, UNK
from orch import Result, log, VERIF
from oracles import Fail, Obs

BYTES = [0, 1, 0x7F, 0x80, 0xFF, 0x41]


def gen_ops(rng, tier):
    ops = []

    def mk(fn, a, b, n, db=None, sb=None):
        regs = [Region(1, a if a else [0x5A]), Region(1, b if b else [0x5A])]
        o = Op(fn, regs, [ptr(0), ptr(1), n, UNK if db is None else db, UNK if sb is None else sb],
               W=[], Rd=[(0, 0, min(n, len(a))), (1, 0, min(n, len(b)))], meta=dict(fam="ts", fn=fn, a=list(a), b=list(b), n=n, db=db, sb=sb))
        ops.append(o)

    for fn in ("timingsafe_bcmp", "timingsafe_memcmp"):
        # every byte pair at the first difference, n = 1 and behind an equal prefix
        for x in range(256) if tier != "quick" else list(range(0, 256, 5)) + [0x7F, 0x80, 0xFF]:
            for y in (BYTES if tier == "quick" else range(0, 256, 3)):
                mk(fn, [x], [y], 1)
                mk(fn, [7, x, 9], [7, y, 200], 3)
        for n in range(0, 40):
            a = [rng.randrange(256) for _ in range(n)]
            mk(fn, a, list(a), n)
            for pos in sorted({0, n // 2, n - 1} & set(range(n))):
                for d in (1, 0x80, 0xFF):
                    b = list(a); b[pos] = (b[pos] + d) & 0xFF
                    mk(fn, a, b, n)
                    b2 = list(b)
                    if pos + 1 < n:
                        b2[pos + 1] = (a[pos + 1] ^ 0x80)   # a later difference of the opposite sign must not matter
                        mk(fn, a, b2, n)
        mk(fn, [1, 2], [1, 2], 2, db=1)
        mk(fn, [1, 2], [1, 2], 2, sb=1)
        mk(fn, [1, 2], [1, 2], 2, db=2, sb=2)
        mk(fn, [1], [1], 268435457)
    return ops


def oracle(op, ob):
    m = op.meta
    if ob.fault:
        return [Fail("C19", "%s:fault" % op.fn, ob.fault)]
    if m["n"] > 268435456 or (m["db"] is not None and m["n"] > m["db"]) or (m["sb"] is not None and m["n"] > m["sb"]):
        return [] if ob.reti() == -403 else [Fail("C19", "%s:limit-not-rejected" % op.fn, ob.ret)]
    a, b, n = m["a"][:m["n"]], m["b"][:m["n"]], m["n"]
    r = ob.reti()
    if op.fn == "timingsafe_bcmp":
        want = 0 if a == b else 1
        if (r == 0) != (want == 0):
            return [Fail("C19", "timingsafe_bcmp:wrong-equality", "got %s want %s" % (r, want))]
    else:
        want = 0
        for x, y in zip(a, b):
            if x != y:
                want = -1 if x < y else 1
                break
        sg = (r > 0) - (r < 0)
        if sg != want:
            return [Fail("C19", "timingsafe_memcmp:wrong-sign", "got %s want sign %s" % (r, want))]
    return []


def lackey_trace(ct, fn, n, variant, lo, hi, Aaddr, Baddr):
    r = subprocess.run(["valgrind", "--tool=lackey", "--trace-mem=yes", "--log-file=/dev/stderr", ct, fn, str(n), str(variant)],
                       capture_output=True, text=True, timeout=300)
    seq = []
    loads = []
    inside = False
    for ln in r.stderr.splitlines():
        if len(ln) < 4:
            continue
        kind = ln[:2].strip()
        if kind == "I":
            a = int(ln[3:].split(",")[0], 16)
            inside = lo <= a < hi
            if inside:
                seq.append(("I", a))
        elif inside and kind in ("L", "S", "M"):
            a = int(ln[3:].split(",")[0], 16)
            if Aaddr <= a < Aaddr + 256:
                seq.append((kind, "A", a - Aaddr)); loads.append(("A", a - Aaddr))
            elif Baddr <= a < Baddr + 256:
                seq.append((kind, "B", a - Baddr)); loads.append(("B", a - Baddr))
            else:
                seq.append((kind, "stack"))     # stack slots: address depends on nothing secret, offsets only
    return seq, loads, r.stdout.strip()


def run(tier, seed, replay=None):
    pid = "C19"
    res = Result(pid, tier, seed)
    orch.gen_mod.main()
    lean_ok, lean_log, dt = orch.lake_build(orch.prop_targets("C19"))
    drv_ok = lean_ok or orch.lake_build(["safec_model"])[0]
    obs = orch.obligations(pid)
    audit, _ = orch.audit_axioms(pid, obs) if lean_ok else ([dict(o, ok=False, axioms=None, error="build failed") for o in obs], "")
    forb = orch.forbidden_tokens()
    impl = orch.Impl()
    known = orch.load_known()
    ops = gen_ops(random.Random(seed), tier)
    c, m = orch.run_pair(impl, ops, 1)
    if not drv_ok:
        m = {}
    orch.evaluate(res, pid, ops, c, m, 1, known, [lambda op, ob, before: oracle(op, ob)],
                  nontrivial=lambda op, ob: op.meta["n"] > 0 and not ob.fault)
    # ---- compiled-code traces (assumption validator for the compiled object; not a proof)
    L = impl.libs[1]
    ct = buildlib.build_harness(L, os.path.join(VERIF, "harness", "ct.c"), os.path.join(L["dir"], "ct"), extra=["-no-pie", "-O0"])
    nm = subprocess.run(["nm", "-S", ct], capture_output=True, text=True).stdout
    sym = {}
    for ln in nm.splitlines():
        p = ln.split()
        if len(p) == 4:
            sym[p[3]] = (int(p[0], 16), int(p[1], 16))
    ns = [0, 1, 2, 7, 16, 33] if tier == "quick" else list(range(0, 65))
    variants = [0, 1, 2, 3, 4, 5]
    jobs = []
    for fn, symn in (("bcmp", "_timingsafe_bcmp_chk"), ("memcmp", "_timingsafe_memcmp_chk")):
        if symn not in sym or "A" not in sym or "B" not in sym:
            res.notes.append("symbol %s not found in the client: compiled-trace check skipped" % symn)
            continue
        lo, sz = sym[symn]
        for n in ns:
            for v in variants:
                jobs.append((fn, n, v, lo, lo + sz))
    traces = {}
    if jobs:
        with ThreadPoolExecutor(max_workers=16) as ex:
            outs = list(ex.map(lambda j: lackey_trace(ct, j[0], j[1], j[2], j[3], j[4], sym["A"][0], sym["B"][0]), jobs))
        for j, o in zip(jobs, outs):
            traces[(j[0], j[1], j[2])] = o
    compiled_checked = 0
    for fn in ("bcmp", "memcmp"):
        for n in ns:
            base = traces.get((fn, n, 0))
            if base is None:
                continue
            if not base[0]:
                res.notes.append("empty lackey trace for %s n=%d" % (fn, n))
                continue
            for v in variants[1:]:
                t = traces[(fn, n, v)]
                compiled_checked += 1
                if t[0] != base[0]:
                    k = next((i for i, (x, y) in enumerate(zip(t[0], base[0])) if x != y), min(len(t[0]), len(base[0])))
                    res.violations.append(("compiled-trace-depends-on-contents:%s" % fn,
                                           dict(kind="compiled trace differs between contents", fn=fn, n=n, variant=v, first_difference_at=k,
                                                a=str(t[0][k:k + 3]), b=str(base[0][k:k + 3]),
                                                replay="valgrind --tool=lackey --trace-mem=yes ct %s %d {0,%d}" % (fn, n, v))))
                    break
            # load offsets vs the model's trace: rd (p1+i), rd (p2+i) per cell, in order of first touch
            first = []
            for x in base[1]:
                if x not in first:
                    first.append(x)
            want = [x for i in range(n) for x in (("A", i), ("B", i))]
            if first != want:
                res.mismatch.append(dict(kind="correspondence", fn="timingsafe_" + fn, op="lackey n=%d" % n,
                                         impl=str(first[:8]), model=str(want[:8])))
    res.extra["compiled_traces_compared"] = compiled_checked
    res.extra["compiled_trace_ns"] = ns
    trusted = ["Lean 4.33 kernel; axioms propext, Classical.choice, Quot.sound only (audited); `decide +kernel` over Fin 256 for the Int32 shift facts",
               "Lean models lean/SafeC/Models/Timing.lean (C int arithmetic as Int32), tied to the C by differential execution of results",
               "the source-level trace theorem speaks about the C program; for the compiled object code (gcc -O0 here) valgrind-lackey instruction and data-address traces are compared across contents — an assumption validator, not a proof",
               "harness/hx.c, harness/ct.c, tools/p19.py"]
    return orch.finish(res, pid, lean_ok, lean_log, audit, forb, "", trusted,
                       ["timing on real hardware (caches, speculation) is outside any model tied to this code",
                        "compiled-trace equality is checked for the -O0 build the tree uses, for the listed n and content variants only"],
                       extra_cov=dict(rule="results: every byte pair class at the first difference (n=1 and behind an equal prefix), equal/first/middle/last-difference contents for n in 0..39, later opposite-sign differences, BOS and limit rejections; distinct = distinct op line; non-trivial = n > 0 and no fault. Compiled traces: n in coverage.compiled_trace_ns x 6 content variants per function"))

"""The printf family inside the memory / handler properties (C01, C03, C04, C05, C08).

The generic pipeline (tools/props.py: run_generic) drives entry points with fixed signatures through harness/hx.c.  The
formatted-output functions are variadic and were visible only to C09 / C11 / C20.  This stage reuses the C11 harness
(harness/hprintf.c: typed varargs, dest of exactly dmax bytes flush against a PROT_NONE page, a canary page in front,
counting handler) and the wide twin harness/hwprintf.c, generates formats from p11's grammar plus cases aimed at the buffer
boundary (text length dmax-2 .. dmax+2, padding that overruns, %s / %ls arguments), and evaluates the PROPERTY oracle of the
calling check on every observation:

  C01  no signal from a store at/after dest+dmax, nothing changed in front of dest
  C02  a %.Ns / %.Nls / %.*s / %.*ls argument that is an array of exactly N characters WITHOUT a terminator, its end flush
       against a PROT_NONE page (the precision is the only bound C gives): no read fault, in locale C and C.UTF-8
  C03  dmax > 0 and the call returned: a NUL among the dmax cells
  C04  a failed call: dest[0] == 0, and (null-slack build) all dmax cells zero
  C05  handler calls: 0 on success; exactly 1 on failure, with the code returned (-ret)
  C08  success in the null-slack build: every cell behind the text is zero

No Lean model speaks for these observations (the C11 model has no handler events and no slack): the functions are listed as
unmodelled in the evidence of the calling check — oracle on the implementation only.
"""
import re, os, random, re, subprocess
import orch, buildlib, proto
from orch import log, VERIF

LIM_STR, LIM_WSTR = 4096, 1024        # RSIZE_MAX_STR / RSIZE_MAX_WSTR of this configuration (gens.LIM)
BUF = ["sprintf_s", "snprintf_s", "vsprintf_s", "vsnprintf_s"]
WBUF = ["swprintf_s", "snwprintf_s", "vswprintf_s", "vsnwprintf_s"]


def unh(s):
    return bytes.fromhex(s) if s and s != "-" else b""


def gen_cases(rng, tier):
    import p11
    cases = []
    base = p11.gen_edges(rng, tier) + p11.gen_cs(rng, tier)
    grid = p11.gen_int_grid(rng, tier)
    base += rng.sample(grid, min(len(grid), 1500 if tier == "quick" else 20000))
    base += p11.gen_random(rng, tier, 1500 if tier == "quick" else 20000)
    for c in base:
        if c.has_float():
            continue
        e = c.expected()
        fn = rng.choice(BUF)
        if e is None:
            cases.append(p11.Case(fn, max(1, c.dmax or 64), c.items, "stage"))
            continue
        L = len(e)
        for dm in sorted({max(1, L - 2), max(1, L - 1), max(1, L), L + 1, L + 2, L + 40}):
            cases.append(p11.Case(rng.choice(BUF), dm, c.items, "stage/dmax"))
    # padding that runs past dmax by 1, 2, many characters (left and right justified, %s %c %d)
    D = p11.D
    for conv, val in (("s", b"abc"), ("c", 0x41), ("d", 42)):
        for flags in ("", "-"):
            for width in (4, 8, 12, 40):
                for dm in (1, 2, width - 2, width - 1, width, width + 1):
                    if dm < 1:
                        continue
                    try:
                        d = D(flags, width, None, "", conv, val)
                    except Exception:
                        continue
                    for fn in BUF:
                        cases.append(p11.Case(fn, dm, [b"x", d], "stage/pad"))
    seen, uniq = set(), []
    for c in cases:
        k = (c.fn, c.dmax, c.fmt(), tuple(c.args()))
        if k not in seen:
            seen.add(k); c.key = k; uniq.append(c)
    return uniq


def oracle(pid, c, dc, slack):
    """[(sig, detail)] for property pid on one observation of a buffer variant"""
    out = []
    fn = c.fn
    sig = int(dc.get("sig", "0"))
    ret = int(dc["ret"]) if "ret" in dc else None
    hn, hc = int(dc.get("hn", "0")), int(dc.get("hc", "0"))
    cells = unh(dc.get("cells"))
    if pid == "C01":
        if sig:
            fo = dc.get("fo", "-")
            try:
                off = int(fo)
            except ValueError:
                off = None
            where = "dest+dmax" if off is not None and off >= c.dmax else "dest-" if off is not None and off < 0 else "wild"
            out.append(("%s:fault@%s" % (fn, where), "signal %d at offset %s, dmax=%d" % (sig, fo, c.dmax)))
        if dc.get("under") == "1":
            out.append(("%s:write@dest-" % fn, "bytes in front of dest changed"))
        return out
    if sig or ret is None:
        return out
    if pid in ("C03", "C04", "C08") and not (0 < c.dmax <= LIM_STR):
        return out            # "dest/dmax themselves usable": within the RSIZE limit (an over-limit dmax is rejected untouched)
    if pid == "C03":
        if c.dmax > 0 and cells and 0 not in cells:
            out.append(("%s:unterminated:ret=%s" % (fn, "dmax" if ret == c.dmax else "neg" if ret < 0 else "n"), "ret=%d dmax=%d dest=%r" % (ret, c.dmax, cells[:24])))
    elif pid == "C04":
        if ret < 0 and cells:
            if cells[0] != 0:
                out.append(("%s:dest0-nonzero:ret=%d" % (fn, ret), "dest=%r" % cells[:24]))
            elif slack and any(cells):
                out.append(("%s:not-all-zero:ret=%d" % (fn, ret), "dest=%r" % cells[:24]))
    elif pid == "C05":
        if ret >= 0 and hn:
            out.append(("%s:spurious-handler" % fn, "ret=%d handler calls=%d code=%d" % (ret, hn, hc)))
        if ret < 0:
            if hn != 1:
                out.append(("%s:handler-count=%s:ret=%d" % (fn, "0" if hn == 0 else "many", ret), "handler calls=%d" % hn))
            elif hc != -ret:
                out.append(("%s:handler-arg:ret=%d:code=%d" % (fn, ret, hc), "handler got %d, caller got %d" % (hc, ret)))
    elif pid == "C08":
        if ret >= 0 and slack and cells and ret < len(cells) and any(cells[ret:]):
            i = next(i for i in range(ret, len(cells)) if cells[i])
            out.append(("%s:stale-after-terminator" % fn, "ret=%d stale@%d dmax=%d" % (ret, i, c.dmax)))
    return out


def wide_cases(rng, tier):
    """(fn, dmax, fmtname, text length) lines for harness/hwprintf.c"""
    lines = []
    n = 0
    for fn in WBUF:
        for fmt in ("lit", "d", "ls", "s", "lc", "mix", "bad"):
            for L in list(range(0, 12)) + [31, 32, 33, 40, 100]:
                for dm in sorted({1, 2, max(1, L - 1), max(1, L), L + 1, L + 2, L + 3, L + 40}):
                    lines.append((n, fn, dm, fmt, L)); n += 1
        for dm in (510, 511, 512, 513, 514, 600):
            for L in (dm - 2, dm - 1, dm, dm + 1, 10):
                lines.append((n, fn, dm, "ls", L)); n += 1
    return lines


def woracle(pid, fn, dm, dc, slack):
    out = []
    sig = int(dc.get("sig", "0"))
    ret = int(dc["ret"]) if "ret" in dc else None
    hn, hc = int(dc.get("hn", "0")), int(dc.get("hc", "0"))
    cells = dc.get("cells", "")
    cells = [int(cells[i:i + 8], 16) for i in range(0, len(cells), 8)]
    if pid == "C01":
        if sig:
            out.append(("%s:fault@%s" % (fn, dc.get("where", "wild")), "signal %d, fault %s, dmax=%d" % (sig, dc.get("fo"), dm)))
        if dc.get("under") == "1":
            out.append(("%s:write@dest-" % fn, "cells in front of dest changed"))
        return out
    if sig or ret is None:
        return out
    if pid in ("C03", "C04", "C08") and not (0 < dm <= LIM_WSTR):
        return out
    if pid == "C03":
        if dm > 0 and cells and 0 not in cells:
            out.append(("%s:unterminated:ret=%s" % (fn, "neg" if ret < 0 else "n"), "ret=%d dmax=%d" % (ret, dm)))
    elif pid == "C04":
        if ret < 0 and cells:
            if cells[0] != 0:
                out.append(("%s:dest0-nonzero:ret=%d" % (fn, ret), "dest=%r" % cells[:12]))
            elif slack and any(cells):
                out.append(("%s:not-all-zero:ret=%d" % (fn, ret), "dest=%r" % cells[:12]))
    elif pid == "C05":
        if ret >= 0 and hn:
            out.append(("%s:spurious-handler" % fn, "ret=%d handler calls=%d code=%d" % (ret, hn, hc)))
        if ret < 0:
            if hn != 1:
                out.append(("%s:handler-count=%s:ret=%d" % (fn, "0" if hn == 0 else "many", ret), "handler calls=%d" % hn))
            elif hc != -ret:
                out.append(("%s:handler-arg:ret=%d:code=%d" % (fn, ret, hc), "handler got %d, caller got %d" % (hc, ret)))
    return out


def c02_lines():
    """(fn, conversion, N, extra) cases: the argument holds exactly N characters"""
    lines = []
    n = 0
    for fn in BUF + ["fprintf_s", "vfprintf_s", "printf_s"]:
        for N in (1, 2, 3, 7, 32, 33, 100):
            for wide in (False, True):
                for star in (False, True):
                    for pre in (b"", b"ab"):
                        conv = ("%.*" if star else "%%.%d" % N) + ("ls" if wide else "s")
                        fmt = pre + conv.encode() + b"!"
                        if wide:
                            arg = "W:" + "".join("%08x" % (0x61 + i % 26) for i in range(N))
                        else:
                            arg = "S:" + bytes(0x61 + i % 26 for i in range(N)).hex()
                        args = (["i:%d" % N] if star else []) + [arg]
                        dmax = N + 40 if fn in BUF else 0
                        lines.append((n, fn, "id=%d fn=%s dmax=%d fmt=%s args=%s noref=1" % (n, fn, dmax, fmt.hex(), ",".join(args)),
                                      "%s(%r, array of exactly %d %s)" % (fn, fmt, N, "wchar_t" if wide else "char")))
                        n += 1
    return lines


def run_c02(res, known, tier):
    pid = "C02"
    cl = c02_lines()
    import p11
    for slack in (1, 0):
        L = buildlib.build(slack=bool(slack))
        hbin = buildlib.build_harness(L, os.path.join(VERIF, "harness", "hprintf.c"), os.path.join(L["dir"], "hprintf"))
        for loc in ("C", "C.UTF-8"):
            ci = p11.run_parallel([hbin, loc], [x[2] for x in cl], workers=8)
            for (i, fn, line, desc) in cl:
                dc = ci.get(str(i))
                if dc is None or "err" in dc:
                    continue
                res.evaluations += 1
                res.unmodelled.add(fn)
                res.count("fmtstage", "%s/%s/slack=%d" % (fn, loc, slack))
                if dc.get("sig", "0") == "0":
                    res.distinct.add(("c02fmt", i, loc, slack))
                elif dc.get("fo") == "arg":
                    record(res, pid, known, slack, fn, "%s:rfault@arg+N:%s" % (fn, "ls" if "6c73" in line else "s"),
                           "read fault behind the N characters of the argument (locale %s)" % loc,
                           dict(desc=desc + " locale " + loc, h=line, loc=loc, impl={k: v[:200] for k, v in dc.items()}))
        log("  C02 fmtstage slack=%d: %d cases x 2 locales" % (slack, len(cl)))



def asan_lines():
    """conversions whose staging lives in objects of the LIBRARY (stack arrays of the engine): out of reach of guard pages"""
    out = []
    n = 0
    for fn in BUF:
        for fmt in (b"%lc", b"%5lc", b"%-5lc|", b"a%lcb", b"%lc%lc"):
            for v in (0x41, 0xe9, 0x20ac, 0x10ffff, 0x110000, 0x1fffff, 0x200000, 0x3ffffff, 0x4000000, 0x7fffffff, 0xffffffff):
                args = ",".join(["i:%d" % v] * fmt.count(b"lc"))
                out.append((n, fn, "id=%d fn=%s dmax=64 fmt=%s args=%s noref=1" % (n, fn, fmt.hex(), args), "%s(buf, 64, %r, 0x%x)" % (fn, fmt, v)))
                n += 1
    return out


def run_asan(res, known, hl_cases):
    """C01, library-internal objects: the narrow printf family once more, library and harness built with AddressSanitizer.
    A sanitizer report inside the library is a store (or load) outside every declared object: reported with the input line."""
    import subprocess
    pid = "C01"
    L = buildlib.build(slack=True, extra_cflags=("-fsanitize=address", "-fno-omit-frame-pointer"))
    hbin = buildlib.build_harness(L, os.path.join(VERIF, "harness", "hprintf.c"), os.path.join(L["dir"], "hprintf_asan"),
                                  extra=("-fsanitize=address", "-fno-omit-frame-pointer"))
    env = dict(os.environ, ASAN_OPTIONS="detect_leaks=0:handle_segv=0:allow_user_segv_handler=1:halt_on_error=1:abort_on_error=0")
    special = asan_lines()
    work = [(fn, ln, desc) for (_, fn, ln, desc) in special] + [(None, ln, ln[:160]) for ln in hl_cases]
    nrep = 0
    for loc in ("C", "C.UTF-8"):
        pending = list(work)
        guard = 0
        while pending and guard < 50:
            guard += 1
            r = subprocess.run([hbin, loc], input="\n".join(x[1] for x in pending) + "\n", capture_output=True, text=True, env=env, timeout=1800)
            done = set(re.findall(r"^id=(\d+)", r.stdout, flags=re.M))
            res.evaluations += len(done)
            if "AddressSanitizer" not in r.stderr:
                break
            idx = next((i for i, x in enumerate(pending) if re.match(r"id=(\d+)", x[1]).group(1) not in done), None)
            if idx is None:
                break
            fn, ln, desc = pending[idx]
            fn = fn or re.search(r"fn=(\w+)", ln).group(1)
            kind = (re.search(r"AddressSanitizer: ([\w-]+)", r.stderr) or [None, "report"])[1]
            obj = re.search(r"'(\w+)' \(line (\d+)\) <== Memory access", r.stderr)
            site = re.search(r"#\d+ 0x[0-9a-f]+ in (\w+) [^\n]*?/src/([\w/]+\.c):(\d+)", r.stderr)
            sig = "%s:asan:%s%s" % (fn, kind, (":" + obj.group(1)) if obj else "")
            record(res, pid, known, 1, fn, sig,
                   "AddressSanitizer %s inside the library%s (locale %s)" % (kind, (" at %s %s:%s" % site.groups()) if site else "", loc),
                   dict(desc=desc + " locale " + loc, h=ln, loc=loc, asan=r.stderr[:1500]))
            nrep += 1
            pending = pending[idx + 1:]
    log("  C01 fmtstage asan: %d lines x 2 locales, %d sanitizer reports" % (len(work), nrep))


def record(res, pid, known, slack, fn, sig, detail, rep):
    ent = next((e for e in known if orch.known_match(e, pid, sig, slack)), None)
    if ent is not None:
        kk = ent.get("id") or ent.get("sig") or ent.get("sig_re")
        res.known_hit.setdefault(kk, dict(ent, count=0, example=rep.get("desc"), sigs=set()))
        res.known_hit[kk]["count"] += 1
        res.known_hit[kk]["sigs"].add(sig)
    else:
        res.violations.append((sig, dict(kind="property-fails-on-implementation", property=pid, sig=sig, detail=detail, slack=slack,
                                         fn=fn, stage="fmtstage", **rep)))


def run(pid, res, tier, seed, known):
    if pid == "C02":
        return run_c02(res, known, tier)
    if pid not in ("C01", "C03", "C04", "C05", "C08"):
        return
    import p11
    rng = random.Random(seed * 104729 + 5)
    cases = gen_cases(rng, tier)
    wl = wide_cases(rng, tier)
    for slack in (1, 0):
        L = buildlib.build(slack=bool(slack))
        hbin = buildlib.build_harness(L, os.path.join(VERIF, "harness", "hprintf.c"), os.path.join(L["dir"], "hprintf"))
        # dest pre-filled with an old one-character string followed by non-zero garbage (dirt=1): slack code that trusts
        # "everything behind the old terminator is already zero" is exposed; every third case keeps the uniform fill
        hl = ["id=%d %s noref=1%s" % (i, c.hline().replace(" noref=1", ""), "" if i % 3 == 0 else " dirt=1") for i, c in enumerate(cases)]
        ci = p11.run_parallel([hbin], hl, workers=8)
        n = 0
        for i, c in enumerate(cases):
            dc = ci.get(str(i))
            if dc is None or "err" in dc:
                continue
            n += 1
            res.evaluations += 1
            res.unmodelled.add(c.fn)
            res.count("fmtstage", "%s/slack=%d" % (c.fn, slack))
            if dc.get("sig", "0") == "0" and int(dc["ret"]) != -400:
                res.distinct.add(("fmt", c.key, slack))
            for sig, detail in oracle(pid, c, dc, slack):
                record(res, pid, known, slack, c.fn, sig, detail, dict(desc=c.desc()[:300], h=c.hline(), impl={k: v[:400] for k, v in dc.items()}))
        wbin = buildlib.build_harness(L, os.path.join(VERIF, "harness", "hwprintf.c"), os.path.join(L["dir"], "hwprintf"))
        wlines = ["id=%d fn=%s dmax=%d fmt=%s len=%d" % t for t in wl]
        wi = p11.run_parallel([wbin], wlines, workers=8)
        for (i, fn, dm, fmt, Ln) in wl:
            dc = wi.get(str(i))
            if dc is None or "err" in dc:
                continue
            n += 1
            res.evaluations += 1
            res.unmodelled.add(fn)
            res.count("fmtstage", "%s/slack=%d" % (fn, slack))
            if dc.get("sig", "0") == "0":
                res.distinct.add(("wfmt", fn, dm, fmt, Ln, slack))
            for sig, detail in woracle(pid, fn, dm, dc, slack):
                record(res, pid, known, slack, fn, sig, detail, dict(desc="%s(dmax=%d, %s, text length %d)" % (fn, dm, fmt, Ln), h=wlines[i], impl={k: v[:400] for k, v in dc.items()}))
        log("  %s fmtstage slack=%d: %d observations" % (pid, slack, n))
        if pid == "C01" and slack == 1:
            try:
                # ids must stay unique next to the special lines: renumber from 100000
                run_asan(res, known, [re.sub(r"^id=\d+", "id=%d" % (100000 + k), ln) for k, ln in enumerate(hl)])
            except Exception as e:       # an auxiliary stage: its own trouble is logged, never reported as a pass of anything
                log("  C01 fmtstage asan: NOT RUN (%s)" % str(e)[:200])

"""Reference semantics (the 'standard counterpart' plus the documented runtime-constraints) used
by the oracles.  annotate(op) fills op.meta with:
  producing / clears / slackdoc   which generic oracles apply
  viol, viol_opt, violname        C05: codes one of which must / may be reported
  ref                             C06: {'cells': expected dest prefix, 'must_fail': bool, 'retptr': ..}
  ovl                             C07: {'disjoint','must','same'}
"""
from gens import *
from proto import ptr


def _inter(a0, a1, b0, b1):
    return max(a0, b0) < min(a1, b1)


def annotate_copy(op):
    m = op.meta
    fn, w = m["fn"], m["w"]
    lim = LIM[w]
    bounded = fn in BOUNDED
    cat = fn in CAT
    stp = fn.startswith("stp")
    m.update(producing=True, clears=True, slackdoc=True, hkind="S", limit=lim)
    if stp:
        m.update(retkind="perr", errpos=3 if fn == "stpcpy_s" else 4)
    dmax, slen = m["dmax"], m["slen"]
    viol, opt, names = set(), set(), []
    ref = {}
    if bounded and slen == 0 and cat and m["dest"] is None and dmax == 0:
        m.update(viol=set(), noop=True)
        return
    if m["dest"] is None:
        viol.add(ESNULLP); names.append("dest-null")
    if dmax == 0:
        viol.add(ESZEROL); names.append("dmax-zero")
    if dmax > lim:
        viol.add(ESLEMAX); names.append("dmax-max")
    if m["bos"] is not None and dmax > m["bos"]:
        viol.add(EOVERFLOW); names.append("dmax-bos")
    if m["src"] is None:
        viol.add(ESNULLP); names.append("src-null")
    if bounded and slen > lim:
        viol.add(ESLEMAX); names.append("slen-max")
    if bounded and m["sbos"] is not None and slen > m["sbos"]:
        viol.add(EOVERFLOW); names.append("slen-bos")
    if fn == "stpcpy_s" and m["sbos"] is not None and m["src"] is not None and 0 not in m["srccells"][:m["sbos"]]:
        viol.add(ESUNTERM); names.append("src-unterm-in-bos")      # "ESUNTERM when src is unterminated" (within its known size)
        if not (viol - {ESUNTERM}):
            viol |= {ESNOSPC, ESOVRLP} if m.get("place") == "arena" else {ESNOSPC}   # whichever the loop meets first
    if not viol:
        prior = m["prior"][:dmax]
        sc = m["srccells"]
        sstr = cstr(sc)
        srclen = len(sc) if sstr is None else len(sstr)
        ncopy = srclen if not bounded else min(srclen, slen)
        src_unterm_within = sstr is None and (not bounded or slen > len(sc))
        dlen = 0
        if cat:
            ds = cstr(prior)
            if ds is None:
                viol.add(ESUNTERM); names.append("dest-unterm")
                if bounded and slen == 0:
                    viol.add(ESZEROL)      # documented special case reports "no room" as ESZEROL
                if m["place"] == "arena":
                    viol.add(ESOVRLP)      # the scan for the end of dest may run into src first
                dlen = None
            else:
                dlen = len(ds)
        if dlen is not None:
            nread = min(ncopy + 1, len(sc)) if not bounded else min(ncopy + 1, slen, len(sc))
            total = dlen + ncopy + 1
            fits = total <= dmax
            # overlap analysis (arena placements)
            same = m["src"] == m["dest"]
            disjoint, must = True, False
            if m["place"] == "arena":
                d0, s0 = m["dest"][1], m["src"][1]
                disjoint = not _inter(d0, d0 + dmax, s0, s0 + max(nread, 1))
                wr_hi = d0 + min(total, dmax)
                must = _inter(d0 + dlen, wr_hi, s0, s0 + nread) and not same
                m["ovl"] = dict(disjoint=disjoint, must=must, same=same)
            if bounded and slen == 0 and not cat:
                ref["cells"] = [0]
            elif bounded and slen == 0 and cat:
                # documented special case: EOK when dest is big enough, dest cleared
                ref["cells"] = [0]
                m["viol_strncat0"] = True
            elif same:
                opt |= {ESOVRLP, ESNOSPC, ESUNTERM}
            elif not fits:
                viol.add(ESNOSPC); names.append("nospc")
                if not disjoint:
                    viol.add(ESOVRLP)
                ref["must_fail"] = True
            elif must:
                viol.add(ESOVRLP); names.append("overlap")
            else:
                if not disjoint:
                    opt.add(ESOVRLP)
                if src_unterm_within:
                    opt |= {ESNOSPC, ESUNTERM}
                res = (prior[:dlen] if cat else []) + sc[:ncopy] + [0]
                ref["cells"] = res
                if stp:
                    k, off = m["dest"]
                    ref["retptr"] = ptr(k, off + len(res) - 1)
    m.update(viol=viol, viol_opt=opt, violname="+".join(names), ref=ref)


def annotate_memcpy(op):
    m = op.meta
    fn, w = m["fn"], m["w"]
    lim = MEMLIM[w]
    move = "move" in fn
    m.update(clears=True, hkind="M", limit=lim, producing=False, slackdoc=False)
    dmax, slen = m["dmax"], m["slen"]
    viol, opt, names, ref = set(), set(), [], {}
    if slen == 0:
        m.update(viol=set(), viol_opt=set(), violname="", ref={})
        if m["dest"] is not None and m.get("truthful"):
            k, off = m["dest"]
            ref["cells"] = m["arena"][off:off + min(dmax, len(m["arena"]) - off)]
            m["ref"] = ref
        return
    if m["dest"] is None:
        viol.add(ESNULLP); names.append("dest-null")
    if dmax == 0:
        viol.add(ESZEROL); names.append("dmax-zero")
    if dmax > lim:
        viol.add(ESLEMAX); names.append("dmax-max")
    if m["bos"] is not None and dmax > m["bos"]:
        viol |= {EOVERFLOW}; names.append("dmax-bos")
    if m["src"] is None:
        viol.add(ESNULLP); names.append("src-null")
    if slen > dmax:
        viol.add(ESLEMAX if slen > lim else ESNOSPC); names.append("slen-dmax")
    if m["sbos"] is not None and slen > m["sbos"]:
        viol |= {EOVERFLOW, ESLEMAX}; names.append("slen-bos")
    if not viol:
        d0, s0 = m["dest"][1], m["src"][1]
        same = d0 == s0
        disjoint = not _inter(d0, d0 + dmax, s0, s0 + slen)
        must = _inter(d0, d0 + slen, s0, s0 + slen) and not same
        m["ovl"] = dict(disjoint=disjoint, must=must and not move, same=same, moveok=move)
        if not move and must:
            viol.add(ESOVRLP); names.append("overlap")
        else:
            if not move and not disjoint and not same:
                opt.add(ESOVRLP)
            a = m["arena"]
            ref["cells"] = a[s0:s0 + slen] + a[d0 + slen:d0 + dmax]
    m.update(viol=viol, viol_opt=opt, violname="+".join(names), ref=ref)


def annotate_memset(op):
    m = op.meta
    fn, w = m["fn"], m["w"]
    lim = MEMLIM[w]
    m.update(clears=False, hkind="M", limit=lim, producing=False, slackdoc=False)
    dmax, n, v = m["dmax"], m["n"], m["value"]
    viol, names, ref = set(), [], {}
    if m["dest"] is None:
        viol.add(ESNULLP); names.append("dest-null")
    elif n == 0:
        pass
    else:
        if dmax > lim:
            viol.add(ESLEMAX); names.append("dmax-max")
        if m["bos"] is not None and dmax > m["bos"]:
            viol.add(EOVERFLOW); names.append("dmax-bos")
        if fn == "memset_s" and v > 255:
            viol.add(ESLEMAX); names.append("value")
        if n > dmax:
            viol.add(ESLEMAX if n > lim else ESNOSPC); names.append("n-dmax")
    if not viol and m["dest"] is not None and m.get("truthful"):
        k, off = m["dest"]
        ref["cells"] = [v & ((1 << (8 * w)) - 1)] * n + m["obj"][off + n:off + dmax]
    m.update(viol=viol, viol_opt=set(), violname="+".join(names), ref=ref)


def annotate_memzero(op):
    m = op.meta
    fn, w = m["fn"], m["w"]
    lim = MEMLIM[w]
    m.update(clears=False, hkind="M", limit=lim, producing=False, slackdoc=False)
    dmax = m["dmax"]
    viol, names, ref = set(), [], {}
    if m["dest"] is None:
        viol.add(ESNULLP); names.append("dest-null")
    if dmax == 0:
        viol.add(ESZEROL); names.append("len-zero")
    if dmax > lim:
        viol.add(ESLEMAX); names.append("len-max")
    if m["bos"] is not None and dmax > m["bos"]:
        viol.add(EOVERFLOW); names.append("len-bos")
    if not viol and m.get("truthful"):
        ref["cells"] = [0] * dmax
    m.update(viol=viol, viol_opt=set(), violname="+".join(names), ref=ref)


ANNOTATORS = {"copy": annotate_copy, "memcpy": annotate_memcpy, "memset": annotate_memset, "memzero": annotate_memzero}


def annotate(op, slack):
    op.meta["slack"] = slack
    f = ANNOTATORS.get(op.meta.get("fam"))
    if f:
        f(op)
    return op

"""C17: Unicode normalization (wcsnorm_s NFD/NFC) and case folding counts (iswfc / towfc_s / wcsfc_s).

Per run: regenerate the Lean tables from the CURRENT tree (tools/gen17.py) and the UCD14 reference data; build proofs + driver;
audit axioms; build the library + harness/hnorm.c (real entry points, guard pages) + harness/hnormdump.c (shim that #includes the
.c files: translator validation against the static helpers); then
  1. translator validation: _decomp_s / _combin_class / isExclusion for every code point, _composite_cp for every table pair
     and a random stream, generated tables (through the Lean model) vs compiled C;
  2. every code point 0..0x110010 through wcsnorm_s NFD, NFC (thorough: FCD, FCC too), iswfc + towfc_s, wcsfc_s:
     implementation vs model vs Python's unicodedata (Unicode 14.0; code points assigned there);
  3. strings: every primary composite pair, all Hangul L/V/T triples, seeded random strings of starters and shuffled
     combining marks (<= 12), out-of-range and surrogate cells at every position, dmax from 0 to ample, second
     normalization of every result (idempotence on the implementation); wcsfc_s with destinations from 1 cell to result + 5
     for every multi-character folding and strings of them (a store behind dest + dmax faults on the guard page and is
     compared with the model's `overrun` flag);
  4. oracle (written from UAX #15 / the property text, independent of the model), classification against known_findings.jsonl.
"""
import os, sys, json, random, time, subprocess, re, unicodedata, hashlib
import orch, buildlib, gen17, mkoblig
from orch import Result, log, VERIF

PID = "C17"
UMAX = 0x10FFFF
SWEEP_HI = 0x110010
ESNOTFND = 409
MODES = {"nfd": 0, "nfc": 1, "fcd": 2, "fcc": 3}
FORM = {0: "NFD", 1: "NFC"}


# ------------------------------------------------------------------ reference (Python unicodedata 14.0)
def assigned14(c):
    return c <= UMAX and unicodedata.category(chr(c)) not in ("Cn", "Cs")


def is_sur(c):
    return 0xD800 <= c <= 0xDFFF


def ref_norm(mode, cps):
    return [ord(x) for x in unicodedata.normalize(FORM[mode], "".join(chr(c) for c in cps))]


_REF = {}


def reference():
    if _REF:
        return _REF
    dm, ccc, asg, comp = gen17.ucd14()
    _REF.update(dm=dm, ccc=ccc, asg=asg, comp=comp, compfirst={}, marks=sorted(ccc))
    for a, b, c in comp:
        _REF["compfirst"].setdefault(a, {})[b] = c
    return _REF


# ------------------------------------------------------------------ running both sides
def run_proc(cmd, text, timeout=3000):
    r = subprocess.run(cmd, input=text.encode(), capture_output=True, timeout=timeout)
    return r.stdout.decode(errors="replace").splitlines(), r.returncode, r.stderr.decode(errors="replace")


def parse(ln):
    d = {}
    for t in ln.split():
        if "=" in t:
            k, v = t.split("=", 1)
            d[k] = v
    return d


def cells(s):
    return [] if s in ("-", "", None) else [int(x, 16) for x in s.split(",")]


def hexs(cps):
    return ",".join("%x" % c for c in cps) or "-"


class Sides:
    def __init__(self, hnorm, shim, fxarg):
        self.hnorm, self.shim, self.fxarg = hnorm, shim, fxarg
        self.model = orch.MODEL_BIN

    def sweep(self, what, lo, hi):
        line = "id=0 uni=sweep what=%s lo=%x hi=%x%s\n" % (what, lo, hi, self.fxarg)
        if what == "tab":
            c, rc, err = run_proc([self.shim, "tab", "%x" % lo, "%x" % hi], "")
        else:
            c, rc, err = run_proc([self.hnorm], line)
        if rc != 0:
            raise RuntimeError("harness sweep %s exited %d: %s" % (what, rc, err[:300]))
        m, rc, err = run_proc([self.model], line)
        if rc != 0:
            raise RuntimeError("model sweep %s exited %d: %s" % (what, rc, err[:300]))
        return self._bycp(c), self._bycp(m)

    @staticmethod
    def _bycp(lines):
        out, done = {}, False
        for ln in lines:
            if ln.startswith("cp="):
                d = parse(ln)
                out[int(d["cp"], 16)] = d
            elif ln.startswith("id=") and "done=1" in ln:
                done = True
        if not done:
            raise RuntimeError("sweep output incomplete")
        return out

    def ops(self, lines):
        """lines without id; returns (impl dicts, model dicts)"""
        text = "".join("id=%d %s%s\n" % (i, ln, self.fxarg if not ln.startswith("uni=towfc") else "") for i, ln in enumerate(lines))
        c, rc, err = run_proc([self.hnorm], text)
        if rc != 0:
            raise RuntimeError("harness exited %d: %s" % (rc, err[:300]))
        m, rc, err = run_proc([self.model], text)
        if rc != 0:
            raise RuntimeError("model exited %d: %s" % (rc, err[:300]))
        ci = {int(d["id"]): d for d in map(parse, c) if "id" in d}
        mi = {int(d["id"]): d for d in map(parse, m) if "id" in d}
        return [ci.get(i) for i in range(len(lines))], [mi.get(i) for i in range(len(lines))]


# ------------------------------------------------------------------ comparison of one observation
def proj_impl(d):
    if d is None:
        return ("missing",)
    if d.get("sig", "0") != "0":
        return ("sig", d["sig"])
    return ("ok", d.get("ret"), d.get("len"), d.get("out"))


def agree(dc, dm):
    """model predicts the implementation's observation?  An out-of-bounds table index in the model predicts *undefined* behaviour:
    any observation of the implementation (crash or garbage) is consistent with it."""
    if dm is None or dc is None:
        return False
    if dm.get("oob") == "1":
        return True
    if dm.get("ovr") == "1":
        # the model predicts a store behind dest + dmax.  dest is flush against a PROT_NONE page, so that store must have
        # faulted there (hnorm reports the page: guard-1 / guard-2); anything else is a disagreement
        return dc.get("sig", "0") != "0" and dc.get("fa", "").startswith("guard")
    if dc.get("sig", "0") != "0":
        return False
    return (dc.get("ret"), dc.get("len"), dc.get("out")) == (dm.get("ret"), dm.get("len"), dm.get("out"))


class Check:
    """collects evaluations, failures, mismatches"""

    def __init__(self, res, known, slack, opt):
        self.res, self.known, self.slack, self.opt = res, known, slack, opt

    def record(self, line, dc, dm, fails, nontrivial, tag, agree_fn=agree):
        res = self.res
        res.evaluations += 1
        res.count("input-class", tag)
        if nontrivial:
            res.distinct.add(line)
        ok = agree_fn(dc, dm)
        if dm is not None and dm.get("oob") == "1":
            res.count("model-outcome", "table-index-out-of-bounds")
        if dm is not None and dm.get("ovr") == "1":
            res.count("model-outcome", "store-behind-dest")
        for sig, detail in fails:
            ent = next((e for e in self.known if orch.known_match(e, PID, sig, self.slack)), None)
            if ent is not None and ok:
                kk = ent.get("id") or ent.get("sig") or ent.get("sig_re")
                hh = res.known_hit.setdefault(kk, dict(ent, count=0, example=line, sigs=set()))
                hh["count"] += 1
                hh["sigs"].add(sig)
            else:
                res.violations.append((sig, dict(kind="property-fails-on-implementation", property=PID, sig=sig, detail=detail, line=line,
                                                 impl=dc, model=dm, model_predicts=ok, slack=self.slack, opt=self.opt)))
        if not ok and not fails:
            res.mismatch.append(dict(kind="correspondence", property=PID, fn=line.split()[0], line=line, impl=dc, model=dm, slack=self.slack, opt=self.opt))
        if nontrivial and len(res.samples) < 12 and res.evaluations % 7919 == 11:
            res.samples.append(dict(op=line, impl=dc, model=dm))


# ------------------------------------------------------------------ oracles (the property, on implementation observations)
def trunc_class(cps):
    """does the string contain starter + supplementary code point whose low 16 bits are a character that composes with
    something?  (structural description of the input class of the uint16-truncation defect, computed from UCD14 only)"""
    R = reference()
    seconds = {b for m in R["compfirst"].values() for b in m}
    return any(c > 0xFFFF and (c & 0xFFFF) in seconds for c in cps)


def oracle_norm(fn, mode, dmax, src, dc):
    """wcsnorm_s: fn = 'wcsnorm_s'"""
    fails = []
    if dc.get("sig", "0") != "0":
        return [("%s:crash" % fn, "signal %s at a %s address" % (dc["sig"], dc.get("fa")))]
    ret, ln, out = int(dc["ret"]), int(dc["len"]), cells(dc["out"])
    txt = src[:src.index(0)] if 0 in src else src
    if any(c > UMAX for c in txt):
        if ret == 0:
            fails.append(("%s:out-of-range-accepted" % fn, "a cell > 0x10FFFF was not rejected (ret 0)"))
        return fails
    if mode not in FORM:
        if ret == 0 and ln != len(out):
            fails.append(("%s:wrong-length" % fn, "*lenp=%d but dest holds %d cells" % (ln, len(out))))
        return fails
    if any(is_sur(c) for c in txt):
        if ret == 0 and ln != len(out):
            fails.append(("%s:wrong-length" % fn, "*lenp=%d, dest %d cells" % (ln, len(out))))
        return fails
    if not all(assigned14(c) for c in txt):
        if ret == 0 and ln != len(out):
            fails.append(("%s:wrong-length" % fn, "*lenp=%d, dest %d cells" % (ln, len(out))))
        return fails          # not assigned in Unicode 14: model <-> implementation only
    want = ref_norm(mode, txt)
    fits = dmax >= max(5, len(want) + 1) and dmax <= 1024
    if ret != 0:
        if fits:
            fails.append(("%s:rejected-although-result-fits" % fn, "dmax=%d, %s result needs %d cells + terminator, ret=%d" % (dmax, FORM[mode], len(want), ret)))
        if out:
            fails.append(("%s:dest-not-cleared-on-error" % fn, "ret=%d but dest holds %s" % (ret, hexs(out))))
        return fails
    if dc.get("term") == "0":
        fails.append(("%s:unterminated" % fn, "success but no terminator within dmax"))
    if out != want:
        single = [c for c in txt if len(reference()["dm"].get(c, ())) == 1 and c in out]
        if single:
            # a character with a singleton canonical mapping came out undecomposed
            fails.append(("%s:singleton-not-decomposed:U+%04X" % (fn, single[0]), "%s: got %s want %s" % (FORM[mode], hexs(out), hexs(want))))
        else:
            cls = "supplementary-second-truncated" if (mode == 1 and trunc_class(txt)) else "other"
            fails.append(("%s:%s-mismatch:%s" % (fn, FORM[mode].lower(), cls), "got %s want %s" % (hexs(out), hexs(want))))
    if ln != len(out):
        fails.append(("%s:wrong-length" % fn, "*lenp=%d but the result has %d cells" % (ln, len(out))))
    return fails


def multi_fold(c):
    """full case folding of c has more than one character (Python's str.casefold(), Unicode 14.0 — independent of the model)"""
    return c <= UMAX and not is_sur(c) and len(chr(c).casefold()) > 1


def oracle_direct(fn, src, dc, swap=0):
    """wcsnorm_reorder_s / wcsnorm_compose_s / wcsfc_s called directly: the range clause of the property, and no access behind
    dest + dmax (dest ends where a PROT_NONE page starts: guard-1, or guard-2 when the arenas are swapped)"""
    if dc.get("sig", "0") != "0":
        big = any(c > UMAX for c in src)
        txt = src[:src.index(0)] if 0 in src else src
        if fn == "wcsfc_s" and not big and dc.get("fa") == ("guard-2" if swap else "guard-1"):
            cls = "multichar-folding" if any(multi_fold(c) for c in txt) else "other"
            return [("%s:access-behind-dest:%s" % (fn, cls), "signal %s on the page behind dest + dmax" % dc["sig"])]
        return [("%s:%s" % (fn, "out-of-range-crash" if big else "crash"), "signal %s at a %s address" % (dc["sig"], dc.get("fa")))]
    ret = int(dc["ret"])
    txt = src[:src.index(0)] if (0 in src and fn == "wcsfc_s") else src
    if any(c > UMAX for c in txt) and ret == 0:
        return [("%s:out-of-range-accepted" % fn, "a cell > 0x10FFFF was not rejected (ret 0, dest %s)" % dc.get("out"))]
    if fn == "wcsfc_s" and ret == 0 and int(dc["len"]) != len(cells(dc["out"])):
        return [("%s:wrong-length" % fn, "*lenp=%s, dest %d cells" % (dc["len"], len(cells(dc["out"]))))]
    return []


def oracle_fold(c, dc):
    """iswfc(c) vs. what towfc_s wrote"""
    if dc.get("sig", "0") != "0":
        return [("towfc_s:crash", "signal %s" % dc["sig"])]
    n, ret, out = int(dc["n"]), int(dc["ret"]), cells(dc["out"])
    fails = []
    if c > UMAX:
        return fails
    if len(out) != max(1, n):
        fails.append(("towfc_s:cells-differ-from-announced", "U+%04X: iswfc=%d, towfc_s wrote %d cells (ret %d)" % (c, n, len(out), ret)))
    elif n == 0 and out != [c]:
        fails.append(("iswfc:announces-0-but-towfc_s-folds", "U+%04X: iswfc=0, towfc_s ret=%d wrote %s" % (c, ret, hexs(out))))
    elif n >= 1 and out == [c]:
        fails.append(("iswfc:announces-%d-but-towfc_s-unchanged" % n, "U+%04X: iswfc=%d, towfc_s ret=%d" % (c, n, ret)))
    elif n >= 1 and ret != n:
        fails.append(("towfc_s:return-differs-from-announced", "U+%04X: iswfc=%d, towfc_s ret=%d" % (c, n, ret)))
    return fails


# ------------------------------------------------------------------ generators
def pools(rng):
    R = reference()
    firsts = sorted(R["compfirst"])
    starters = ([ord(x) for x in "aeinosuyAEIOU cdgkKw<=>"] + firsts +
                [0x37E, 0x340, 0x341, 0x343, 0x374, 0x387, 0x1F71, 0x2000, 0x2001, 0x2329, 0xC0, 0xC5, 0xE9, 0x1D6, 0x1E69, 0x1EA4, 0x1F80, 0x1FB7, 0x212B, 0x2126, 0x3A9, 0x3B1, 0x3C9, 0x915, 0x9C7, 0x9CB, 0xB47, 0xB4B, 0xDD9, 0xDDA, 0xDDC, 0xDDD,
                 0x1100, 0x1112, 0x1161, 0x1175, 0x11A7, 0x11A8, 0x11C2, 0x11C3, 0xAC00, 0xAC01, 0xAC1C, 0xD7A3, 0xD788,
                 0xF900, 0xFA0E, 0xFB1D, 0xFB2A, 0xFB4E, 0x2F800, 0x2FA1D, 0x4E00, 0x3042, 0x304B, 0x30AB,
                 0x10300, 0x10301, 0x10308, 0x10323, 0x10327, 0x1030A, 0x1D157, 0x1D158, 0x1D15E, 0x1D1BB, 0x11099, 0x1109A, 0x11131, 0x11347, 0x114B9, 0x115B8, 0x11935, 0x1F600, 0x10FFFF])
    marks = R["marks"]
    common = [0x300, 0x301, 0x302, 0x303, 0x304, 0x306, 0x307, 0x308, 0x30A, 0x30C, 0x323, 0x327, 0x328, 0x331, 0x345, 0x342, 0x313, 0x314, 0x334, 0x338,
              0x5B0, 0x5BC, 0x5C1, 0x64B, 0x651, 0x93C, 0x94D, 0x9BE, 0x9D7, 0xB3E, 0xB56, 0xB57, 0xDCA, 0xDCF, 0xDDF, 0x3099, 0x309A, 0x1D165, 0x1D16E, 0x110BA, 0x11127, 0x1133E, 0x11357, 0x114B0, 0x114BA, 0x114BD, 0x115AF, 0x11930]
    return starters, marks, common


def gen_strings(rng, tier):
    """-> list of (tag, cps)"""
    R = reference()
    out = []
    for a, b, c in R["comp"]:
        out.append(("pair", [a, b]))
        out.append(("pair", [c]))
    if tier != "quick":
        for a, b, c in R["comp"]:
            out.append(("pair+mark", [a, 0x334, b]))      # blocked by an intervening ccc-1 mark unless ...
            out.append(("pair+mark", [a, b, 0x301]))
            out.append(("pair+low", [a, 0x10000 + b] if b < 0x10000 else [a, b & 0xFFFF]))
    # Hangul
    Ls, Vs, Ts = range(0x1100, 0x1113), range(0x1161, 0x1176), range(0x11A7, 0x11C3)
    for l in Ls:
        for v in Vs:
            out.append(("hangul-LV", [l, v]))
            for t in (Ts if tier != "quick" or (l + v) % 7 == 0 else [0x11A7, 0x11A8, 0x11C2]):
                out.append(("hangul-LVT", [l, v, t]))
    for s in (0xAC00, 0xAC01, 0xAC1B, 0xAC1C, 0xD788, 0xD7A3):
        for t in (0x11A7, 0x11A8, 0x11C2, 0x11C3):
            out.append(("hangul-S+T", [s, t]))
    for l, v in ((0x10FF, 0x1161), (0x1113, 0x1161), (0x1100, 0x1160), (0x1100, 0x1176), (0x1100, 0x11161), (0x11100, 0x1161)):
        out.append(("hangul-edge", [l, v]))
    starters, marks, common = pools(rng)
    n = 2500 if tier == "quick" else 60000
    for _ in range(n):
        cps = []
        while len(cps) < 12 and (not cps or rng.random() < 0.7):
            cps.append(rng.choice(starters))
            k = rng.choice([0, 0, 1, 1, 2, 2, 3, 4, 6])
            ms = [rng.choice(common if rng.random() < 0.7 else marks) for _ in range(k)]
            rng.shuffle(ms)
            cps += ms
        if rng.random() < 0.1:
            cps = cps[1:]                      # leading marks
        out.append(("random", cps[:12]))
    # long runs of combining marks on one starter: the reorder / compose sequence buffer lives on the stack up to
    # CC_SEQ_SIZE (10) marks, spills to the heap at the 11th and grows every CC_SEQ_STEP (5) after that — every run length
    # across those switches, marks in reverse canonical order (every one has to move), already ordered, and shuffled
    byccc = {}
    for m in marks:
        byccc.setdefault(R["ccc"][m], m)
    distinct = [byccc[k] for k in sorted(byccc) if k][:24]
    for k in list(range(8, 24)):
        run = distinct[:k]
        for base in (0x61, 0x3B1, 0x1100):
            out.append(("longrun-reversed", [base] + run[::-1]))
            out.append(("longrun-ordered", [base] + run))
            sh = list(run); rng.shuffle(sh)
            out.append(("longrun-shuffled", [base] + sh + [0x62]))
            same = [rng.choice(common) for _ in range(k)]
            out.append(("longrun-common", [base] + same))
    # low-16-bit aliases of combining marks behind a starter (supplementary plane second characters)
    for a in (0x61, 0x41, 0x65, 0x3B1, 0x915, 0x1100, 0xAC00):
        for b in (0x10300, 0x10301, 0x10308, 0x1030A, 0x20300, 0x1093C, 0x11161, 0x111A8, 0x10338, 0xF0301):
            out.append(("low16-alias", [a, b]))
    return out


def gen_ops(rng, tier):
    """string ops: list of dict(kind, line, tag, meta)"""
    ops = []

    def norm(tag, mode, dmax, cps, swap=0):
        ops.append(dict(kind="norm", mode=mode, dmax=dmax, src=cps, tag=tag,
                        line="uni=norm mode=%d dmax=%d src=%s%s" % (mode, dmax, hexs(cps), " swap=1" if swap else "")))

    strs = gen_strings(rng, tier)
    for tag, cps in strs:
        for mode in (0, 1):
            norm(tag, mode, 64, cps)
        if tag == "random" and rng.random() < 0.15:
            norm(tag + "-fcc", 3, 64, cps)
            norm(tag + "-fcd", 2, 64, cps)
    # every combining mark against a representative of the neighbouring classes, both orders (a wrong class in the table shows
    # as a wrong order), in both memory layouts alternately
    R = reference()
    reps = [0x334, 0x94D, 0x316, 0x300, 0x345] if tier == "quick" else sorted({k: c for c, k in sorted(R["ccc"].items(), reverse=True)}.values())
    for i, m in enumerate(R["marks"]):
        for r_ in reps:
            if r_ != m:
                norm("mark-pair", 0, 16, [0x61, m, r_], swap=i & 1)
                norm("mark-pair", i & 1, 16, [0x61, r_, m], swap=(i >> 1) & 1)
    for tag, cps in strs[::5]:
        if tag == "random":
            norm("random-swapped", 0, 64, cps, swap=1)
            norm("random-swapped", 1, 64, cps, swap=1)
    # dmax from minimal to ample
    sample = [cps for tag, cps in strs if tag in ("random", "pair")]
    rng.shuffle(sample)
    for cps in sample[:60 if tier == "quick" else 600] + [[0x41, 0x42, 0x43], [0x1E69] * 3, [0xAC01] * 2, [0xE9] * 4, [0x41]]:
        nd = len(ref_norm(0, cps))
        for mode in (0, 1):
            for d in range(0, nd + 9):
                norm("dmax-sweep", mode, d, cps)
    for n_ in (1017, 1018, 1019, 1020, 1021, 1022, 1023):
        for mode in (0, 1):
            norm("dmax-limit", mode, 1024, [0x41] * n_)
            norm("dmax-limit", mode, 1025, [0x41] * 3)
    for n_ in (339, 340, 341):
        norm("dmax-limit", 0, 1024, [0xAC01] * n_)
        norm("dmax-limit", 1, 1024, [0xAC01] * n_)
    for mode in (4, 5):
        norm("compat-mode", mode, 64, [0x41, 0x300])
    # out-of-range and surrogate cells at every position, every entry point
    bad = [0x110000, 0x110001, 0x11FFFF, 0x120000, 0x1FFFFF, 0x7FFFFFFF, 0x80000000, 0xFFFFFFFF, 0xFFFF0041, 0x00110300]
    sur = [0xD800, 0xDBFF, 0xDC00, 0xDFFF]
    bases = [[0x41, 0x300, 0x42], [0xE9, 0x1100, 0x1161], [0x61], []]
    for b in bad + sur:
        for base in bases:
            for pos in range(len(base) + 1):
                cps = base[:pos] + [b] + base[pos:]
                for mode in (0, 1, 2, 3):
                    norm("out-of-range" if b > UMAX else "surrogate", mode, 64, cps)
                    norm("out-of-range" if b > UMAX else "surrogate", mode, 64, cps, swap=1)     # dest behind src: the loop's other branch
                tag = "out-of-range" if b > UMAX else "surrogate"
                ops.append(dict(kind="reorder", dmax=64, src=cps, tag=tag, line="uni=reorder dmax=64 src=%s" % hexs(cps)))
                for contig in (0, 1):
                    ops.append(dict(kind="compose", dmax=64, src=cps, tag=tag, contig=contig, line="uni=compose dmax=64 contig=%d src=%s" % (contig, hexs(cps))))
                ops.append(dict(kind="fc", dmax=64, src=cps, tag=tag, line="uni=fc dmax=64 src=%s" % hexs(cps)))
    # direct reorder / compose / wcsfc_s on ordinary text (ample dmax)
    for tag, cps in strs[::7 if tier == "quick" else 2]:
        if tag in ("random", "pair"):
            ops.append(dict(kind="reorder", dmax=len(cps) + 2, src=cps, tag="direct", line="uni=reorder dmax=%d src=%s" % (len(cps) + 2, hexs(cps))))
            ops.append(dict(kind="fc", dmax=64, src=cps, tag="direct", line="uni=fc dmax=64 src=%s" % hexs(cps)))
    letters = [0x41, 0x5A, 0xC0, 0xDF, 0x130, 0x149, 0x1F0, 0x390, 0x3A3, 0x20, 0x3B0, 0x587, 0x1E96, 0x1E9E, 0x1F50, 0x1F52, 0x1F80, 0x1F88, 0x1FB3, 0x1FB7, 0x1FFC, 0xFB00, 0xFB03, 0xFB17,
               0x10400, 0x1E900, 0x1C90, 0x13A0, 0xAB70, 0x1CBB, 0x10593, 0x61, 0x345, 0xB5, 0x17F, 0x1E9B, 0x1FBE, 0x2126, 0x212A, 0x212B, 0x4E00, 0xAC00, 0x300]
    for _ in range(300 if tier == "quick" else 5000):
        cps = [rng.choice(letters) for _ in range(rng.randint(1, 8))]
        ops.append(dict(kind="fc", dmax=64, src=cps, tag="fold-string", line="uni=fc dmax=64 src=%s" % hexs(cps)))
    for c in (0x41, 0xDF, 0x390, 0xFB03, 0x61, 0x110000):
        for d in (0, 1, 2, 3, 4, 5, 1024, 1025):
            ops.append(dict(kind="towfc", dmax=d, c=c, tag="towfc-dmax", line="uni=towfc dmax=%d c=%x" % (d, c)))
    # wcsfc_s with a destination that is too small, exactly fitting, or a few cells larger — dest flush against the guard page,
    # so a store behind dest + dmax faults: every code point with a multi-character folding on its own, several in a row, mixed
    # with single-character cells, dmax from 1 to result length + 5, both memory layouts
    multi = [c for c in range(0x110000) if multi_fold(c)]
    tight = [[c] for c in multi]
    tight += [[0xDF, 0xDF], [0xDF] * 5, [0x41, 0xDF], [0xDF, 0x41], [0x61, 0x62, 0x63, 0xDF], [0x149, 0x1F0, 0x390, 0xFB03],
              [0x1F80, 0x1F82], [0x1FB3] * 3, [0x1F82] * 4, [0xC9, 0xDF], [0xDF, 0xC9], [0x3A3, 0x20, 0xDF], [0x1CBB, 0xFB03],
              [0xFB03, 0xFB04, 0xFB03], [0x1F80, 0x1F88, 0x1FB3, 0x1FB7], [0x1FB7, 0x1FC7, 0x1FD3], [0x130, 0x130], [0x1E9E, 0xDF, 0x1E96],
              [0x41], [0x41, 0x42, 0x43], [0xC9, 0xC9], [0x3A3], [0x1CBB, 0x1CBC]]
    single = [0x41, 0x61, 0x5A, 0xC9, 0x3A3, 0x20, 0x1CBB, 0x416, 0x4E00, 0x10400, 0x345, 0x300]
    for _ in range(160 if tier == "quick" else 4000):
        tight.append([rng.choice(multi) if rng.random() < 0.7 else rng.choice(single) for _ in range(rng.randint(1, 6))])
    for i, cps in enumerate(tight):
        want = len(unicodedata.normalize("NFD", "".join(chr(c) for c in cps).casefold()))
        for d in range(1, want + 6):
            sw = (i + d) & 1
            ops.append(dict(kind="fc", dmax=d, src=cps, tag="fold-tight", swap=sw, line="uni=fc dmax=%d src=%s%s" % (d, hexs(cps), " swap=1" if sw else "")))
    return ops


# ------------------------------------------------------------------ the check
def fx_arg():
    v = os.environ.get("VERIF_C17_FX", "")
    return (" fx=" + v) if re.fullmatch(r"[01]{2,3}", v) else ""      # compCast, rangeChk[, foldRoom]; two bits: foldRoom as in `current`


def oracle_for(o, dc):
    if o["kind"] == "norm":
        return oracle_norm("wcsnorm_s", o["mode"], o["dmax"], o["src"], dc)
    if o["kind"] in ("reorder", "compose"):
        return oracle_direct("wcsnorm_%s_s" % o["kind"], o["src"], dc)
    if o["kind"] == "fc":
        return oracle_direct("wcsfc_s", o["src"], dc, o.get("swap", 0))
    return []


def agree_towfc(dc, dm):
    if dc is None or dm is None or dc.get("sig", "0") != "0":
        return False
    return (dc.get("n"), dc.get("ret"), dc.get("out")) == (dm.get("n"), dm.get("ret"), dm.get("out"))


def run_config(res, known, slack, opt, tier, seed, sides, full):
    chk = Check(res, known, slack, opt)
    t0 = time.time()
    R = reference()
    # ---- 1. translator validation
    if full:
        c, m = sides.sweep("tab", 0, 0x110000)
        bad = [cp for cp in set(c) | set(m) if {k: v for k, v in c.get(cp, {}).items()} != {k: v for k, v in m.get(cp, {}).items()}]
        res.evaluations += 0x110000
        res.distinct |= {"tab %x" % cp for cp in c}
        res.count("input-class", "translator:per-code-point-tables")
        res.extra["translator_validation"] = dict(code_points=0x110000, with_decomposition_or_class_or_exclusion=len(c), differences=len(bad))
        for cp in sorted(bad)[:5]:
            res.mismatch.append(dict(kind="correspondence", property=PID, fn="translator", line="tab cp=%x" % cp, impl=c.get(cp), model=m.get(cp), slack=slack, opt=opt,
                                     what="generated table differs from the compiled C for U+%04X" % cp))
        # _composite_cp: every pair of the generated lists, neighbours, random pairs
        d = gen17.dump_tree(lib=sides.lib)
        prs = set()
        rng = random.Random(seed * 31 + 5)
        for e in d["compos_lists"]:
            for a, b in e["pairs"]:
                prs |= {(e["cp"], a), (e["cp"], a + 1), (e["cp"], a + 0x10000), (e["cp"] + 1, a)}
        for _ in range(20000):
            prs.add((rng.choice(d["compos_lists"])["cp"], rng.choice([rng.randrange(0x300, 0x370), rng.randrange(0x10000, 0x20000), rng.randrange(1, 0x110000)])))
        for l in range(0x1100, 0x1113):
            for v in range(0x1161, 0x1176):
                prs.add((l, v))
        for s in range(0xAC00, 0xD7A4, 13):
            for t in (0x11A7, 0x11A8, 0x11C2, 0x11C3):
                prs.add((s, t))
        prs = sorted(prs)
        cl, rc, err = run_proc([sides.shim, "comp"], "".join("%x %x\n" % p for p in prs))
        ml, rc2, err2 = run_proc([orch.MODEL_BIN], "".join("id=%d uni=composite a=%x b=%x%s\n" % (i, a, b, sides.fxarg) for i, (a, b) in enumerate(prs)))
        cm = [ln.split()[2] for ln in cl]
        mm = {int(x["id"]): x.get("c") for x in map(parse, ml) if "id" in x}
        diffs = [(prs[i], cm[i], mm.get(i)) for i in range(len(prs)) if i >= len(cm) or cm[i] != mm.get(i)]
        res.evaluations += len(prs)
        res.extra["translator_validation"]["composite_pairs"] = len(prs)
        res.extra["translator_validation"]["composite_differences"] = len(diffs)
        for p, a, b in diffs[:5]:
            res.mismatch.append(dict(kind="correspondence", property=PID, fn="translator", line="composite %x %x" % p, impl=a, model=b, slack=slack, opt=opt,
                                     what="_composite_cp differs from the generated lists"))
    log("  C17 [%s slack=%d] translator validation %.1fs" % (opt, slack, time.time() - t0))
    # ---- 2. per-code-point sweeps
    stride_full = full
    sweeps = ["nfd", "nfc", "fold", "fc"] + (["fcd", "fcc"] if tier != "quick" and full else [])
    for what in (sweeps if stride_full else ["nfd", "nfc", "fold"]):
        c, m = sides.sweep(what, 0, SWEEP_HI)
        nfail = 0
        for cp in range(SWEEP_HI):
            dc, dm = c.get(cp), m.get(cp)
            line = "uni=sweep what=%s lo=%x hi=%x" % (what, cp, cp + 1)
            if dc is None and dm is None:
                # trivial on both sides: output = input.  The oracle still has to agree.
                if what in ("nfd", "nfc") and cp <= UMAX and not is_sur(cp) and cp in R["asg"]:
                    if ref_norm(MODES[what], [cp]) != [cp]:
                        triv = dict(ret="0", len="1", out="%x" % cp, sig="0", term="1")
                        chk.record(line, triv, dict(ret="0", len="1", out="%x" % cp), oracle_norm("wcsnorm_s", MODES[what], 16, [cp], triv), True, "sweep-" + what)
                        continue
                elif what in ("nfd", "nfc", "fcd", "fcc", "fc") and cp > UMAX:
                    fn = "wcsfc_s" if what == "fc" else "wcsnorm_s"
                    chk.record(line, dict(ret="0", len="1", out="%x" % cp, sig="0"), dict(ret="0", len="1", out="%x" % cp),
                               [("%s:out-of-range-accepted" % fn, "U+%X passed through" % cp)], True, "sweep-" + what)
                    continue
                res.evaluations += 1
                continue
            dc = dc or dict(ret="0", len="1", out="%x" % cp, sig="0", n="0")
            if what == "fold":
                dcf = c.get(cp) or dict(n="0", ret=str(-ESNOTFND), out="%x" % cp)
                dmf = m.get(cp) or dict(n="0", ret=str(-ESNOTFND), out="%x" % cp)
                chk.record(line, dcf, dmf, oracle_fold(cp, dcf), True, "sweep-fold", agree_towfc)
                continue
            dm = dm or dict(ret="0", len="1", out="%x" % cp, oob="0", ovr="0")
            if what in ("nfd", "nfc"):
                fails = oracle_norm("wcsnorm_s", MODES[what], 16, [cp], dc)
            elif what == "fc":
                fails = oracle_direct("wcsfc_s", [cp], dc)
            else:
                fails = oracle_norm("wcsnorm_s", MODES[what], 16, [cp], dc)
            chk.record(line, dc, dm, fails, True, "sweep-" + what)
        res.count("sweep", "%s/%s/slack=%d" % (what, opt, slack))
    log("  C17 [%s slack=%d] sweeps %.1fs" % (opt, slack, time.time() - t0))
    # ---- 3. strings
    rng = random.Random(seed * 7919 + 17)
    ops = gen_ops(rng, tier if full else "quick")
    ci, mi = sides.ops([o["line"] for o in ops])
    second = []
    for o, dc, dm in zip(ops, ci, mi):
        if dc is None:
            res.notes.append("no observation for " + o["line"][:200]); continue
        if dm is not None and dm.get("ovr") == "1" and o["kind"] != "fc":
            res.notes.append("generated input reaches the unsigned-dmax wrap (dropped): " + o["line"][:120]); continue
        if o["kind"] == "towfc":
            if o["dmax"] >= 4 and o["dmax"] <= 1024:
                fails = oracle_fold(o["c"], dc)
            else:
                fails = [] if dc.get("sig", "0") == "0" and int(dc["ret"]) < 0 else [("towfc_s:bad-dmax-accepted", str(dc))]
            chk.record(o["line"], dc, dm, fails, True, o["tag"], agree_towfc)
            continue
        fails = oracle_for(o, dc)
        chk.record(o["line"], dc, dm, fails, True, o["tag"])
        # a result the oracle already rejected (e.g. the known truncation defect) is not a normalization form: only correct results are re-normalized
        if not fails and o["kind"] == "norm" and o["mode"] in (0, 1) and dc.get("sig", "0") == "0" and dc.get("ret") == "0" and o["tag"] not in ("dmax-sweep", "dmax-limit"):
            second.append((o, cells(dc["out"])))
    # idempotence on the implementation: normalize every result once more
    lines2 = ["uni=norm mode=%d dmax=%d src=%s" % (o["mode"], min(1024, 4 * len(out1) + 8), hexs(out1)) for o, out1 in second]
    c2, m2 = sides.ops(lines2) if lines2 else ([], [])
    for (o, out1), ln, dc, dm in zip(second, lines2, c2, m2):
        fails = []
        if dc is None or dc.get("sig", "0") != "0":
            fails.append(("wcsnorm_s:crash", str(dc)))
        elif all(c <= UMAX for c in out1):
            if dc.get("ret") != "0" or cells(dc["out"]) != out1:
                fails.append(("wcsnorm_s:%s-not-idempotent" % FORM[o["mode"]].lower(), "first %s, second ret=%s %s" % (hexs(out1), dc.get("ret"), dc.get("out"))))
        chk.record(ln, dc, dm, fails, True, "idempotence")
    res.count("config", "%s/slack=%d" % (opt, slack))
    log("  C17 [%s slack=%d] %d string ops + %d second normalizations, %.1fs" % (opt, slack, len(ops), len(second), time.time() - t0))


def casefold_report(sides):
    """informational: towfc_s's value vs. Python's str.casefold() (Unicode 14 full case folding) on assigned code points"""
    c, _ = sides.sweep("fold", 0, 0x110000)
    diff = []
    for cp in range(0x110000):
        if is_sur(cp) or not assigned14(cp):
            continue
        got = cells(c[cp]["out"]) if cp in c else [cp]
        want = [ord(x) for x in chr(cp).casefold()]
        if got != want:
            diff.append("U+%04X: towfc_s %s, casefold %s" % (cp, hexs(got), hexs(want)))
    return dict(count=len(diff), first=diff[:12])


def run(tier, seed, replay=None):
    res = Result(PID, tier, seed)
    orch.gen_mod.main()
    lib1 = buildlib.build(slack=True)
    g = gen17.main(lib=lib1)
    res.extra["generated"] = g
    mkoblig.main()
    targets = orch.prop_targets(PID)
    lean_ok, lean_log, dt = orch.lake_build(targets)
    res.extra["lean_build_s"] = round(dt, 1)
    drv_ok = lean_ok or orch.lake_build(["safec_model"])[0]
    obs = orch.obligations(PID)
    audit, _ = orch.audit_axioms(PID, obs) if lean_ok else ([dict(o, ok=False, axioms=None, error="build failed") for o in obs], "")
    forb = orch.forbidden_tokens()
    known = orch.load_known()
    fxa = fx_arg()

    def mk_sides(L):
        hn = buildlib.build_harness(L, os.path.join(VERIF, "harness", "hnorm.c"), os.path.join(L["dir"], "hnorm"))
        sh = buildlib.build_harness(L, os.path.join(VERIF, "harness", "hnormdump.c"), os.path.join(L["dir"], "hnormdump"))
        s = Sides(hn, sh, fxa)
        s.lib = L
        return s

    if replay:
        rep = json.load(open(replay))
        if "line" not in rep:
            print(json.dumps(rep, indent=1)[:4000]); return 0
        s = mk_sides(buildlib.build(slack=bool(rep.get("slack", 1)), opt=rep.get("opt", "-O0")) if (rep.get("slack", 1) != 1 or rep.get("opt", "-O0") != "-O0") else lib1)
        if "sweep" in rep["line"]:
            mm = re.search(r"what=(\w+) lo=(\w+) hi=(\w+)", rep["line"])
            c, m = s.sweep(mm.group(1), int(mm.group(2), 16), int(mm.group(3), 16))
            print("op   :", rep["line"]); print("impl :", c or "(output = input)"); print("model:", m or "(output = input)")
        else:
            c, m = s.ops([rep["line"]])
            print("op   :", rep["line"]); print("impl :", c[0]); print("model:", m[0])
        print("recorded impl:", rep.get("impl"))
        print("signature:", rep.get("sig"), "--", rep.get("detail"))
        return 0

    if drv_ok:
        o, _, _ = run_proc([orch.MODEL_BIN], "id=0 uni=fixes\n")
        res.extra["model_fixes"] = dict(order="compCast,rangeChk,foldRoom", current=parse(o[0]).get("fx") if o else None, override=fxa.strip() or None)
    configs = [(1, "-O0", True)]
    if tier != "quick":
        configs += [(0, "-O0", False), (1, "-O2", False)]
    s1 = None
    for slack, opt, full in configs:
        L = lib1 if (slack, opt) == (1, "-O0") else buildlib.build(slack=bool(slack), opt=opt)
        sides = mk_sides(L)
        s1 = s1 or sides
        if drv_ok:
            run_config(res, known, slack, opt, tier, seed, sides, full)
    if tier != "quick" and drv_ok:
        res.extra["casefold_value_vs_python"] = casefold_report(s1)
    if tier != "quick" and lean_ok:
        # independent re-check of the compiled proofs by the stand-alone kernel
        mods = sorted({o["module"] for o in obs} | {"SafeC.Props.C17"})
        t = time.time()
        r = subprocess.run(["lake", "env", "leanchecker"] + mods, cwd=orch.LEAN, capture_output=True, text=True, timeout=3000)
        res.extra["leanchecker"] = dict(modules=mods, exit=r.returncode, seconds=round(time.time() - t, 1), output=(r.stdout + r.stderr)[-500:])
        if r.returncode != 0:
            res.mismatch.append(dict(kind="proof", property=PID, fn="leanchecker", line="leanchecker " + " ".join(mods), impl=None, model=None,
                                     what="leanchecker rejected the compiled proofs: " + (r.stdout + r.stderr)[-300:]))
    for x in res.mismatch[:8]:
        log("   mismatch:", x.get("fn"), x.get("line"), "| impl", x.get("impl"), "| model", x.get("model"))
    trusted = ["Lean 4.33 kernel; axioms propext, Classical.choice, Quot.sound only (audited per theorem on every run)",
               "lean/SafeC/Models/Norm.lean, Fold.lean: hand-written models of wcsnorm_s.c / towfc_s.c / towctrans.c(_towcase lower) / wcsfc_s.c, tied to the implementation by this run's inputs "
               "(every code point individually, exhaustive; strings sampled)",
               "tools/gen17.py + harness/hnormdump.c: the data translator (compiled C arrays -> packed Lean literals), validated each run per code point against the compiled static helpers",
               "Python unicodedata 14.0.0 as the independent source of UCD facts (mappings, classes, assigned set, NFD/NFC of the oracle); primary composites derived as 'two-character canonical mapping and NFC(c) = c'",
               "glibc 2.36: iswupper / iswspace / tolower in locale C.UTF-8 enter iswfc / wcsfc_s as generated tables; qsort is trusted to sort (the comparator is a strict total order)",
               "harness/hnorm.c (guard pages, SIGSEGV capture), gcc -O0 build of the current tree (thorough: also -O2 and the no-slack build)"]
    assumptions = ["wchar_t is 32 bits, HAVE_NORM_COMPAT undefined (gen17 refuses other table formats)", "dest and src do not overlap; object size (BOS) unknown",
                   "locale C.UTF-8 (neither Turkish/Azeri nor Lithuanian special casing)",
                   "code points not assigned in Unicode 14.0 (incl. the 15.0 additions in the tree's tables) are compared model <-> implementation only",
                   "surrogate cells may be passed through unchanged or rejected; only a crash or an out-of-bounds index would be a failure"]
    return orch.finish(res, PID, lean_ok, lean_log, audit, forb, "", trusted, assumptions,
                       extra_cov=dict(rule="every cell value 0..0x11000F individually through wcsnorm_s NFD and NFC, iswfc+towfc_s and wcsfc_s (exhaustive), plus strings: every primary composite pair and its "
                                           "composite, Hangul L/V/T, seeded random starter+shuffled-marks strings of length <= 12, out-of-range/surrogate cells at every position of four base strings "
                                           "through all four entry points, dmax 0..len+8, wcsfc_s on every code point with a multi-character folding and on strings of them with dmax 1..len+5 (dest flush against a guard page), second normalization of every result; evaluation = one (entry point, input, build) observation compared with the model "
                                           "and judged by the oracle; distinct = distinct op line; non-trivial = the output differs from the input, the call failed, or it is a string op",
                                      exhaustive=True,
                                      exhaustive_scope="single-cell strings 0..0x11000F for wcsnorm_s NFD/NFC, iswfc/towfc_s, wcsfc_s, and the table helpers for 0..0x10FFFF; strings are sampled"))

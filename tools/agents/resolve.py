import re,sys,subprocess,os
br=sys.argv[1]
os.chdir('/verif')
files=subprocess.run("git diff --name-only --diff-filter=U",shell=True,capture_output=True,text=True).stdout.split()
for p in files:
    if p in ("MANIFEST.json","lean/obligations.json") or p.startswith("evidence/"):
        subprocess.run(["git","checkout","--ours",p]); continue
    s=open(p).read()
    s=re.sub(r"<<<<<<< HEAD\n(.*?)=======\n(.*?)>>>>>>> %s\n"%re.escape(br), lambda m: m.group(1)+m.group(2), s, flags=re.S)
    assert "<<<<<<<" not in s, p
    open(p,'w').write(s)
print("resolved",files)

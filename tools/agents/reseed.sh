#!/bin/sh
# re-test every seeded change with the check recorded as catching it (3 at a time)
cd /work/seedrun
cat /work/reseed.list | xargs -P 1 -L 1 sh -c '/work/st.sh $0 $1' > /work/reseed.log 2>&1
echo DONE >> /work/reseed.log

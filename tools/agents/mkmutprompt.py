import json,sys
pid=sys.argv[1]; n=sys.argv[2] if len(sys.argv)>2 else "3"
for l in open('/verif/properties.jsonl'):
    d=json.loads(l)
    if d['id']==pid: break
print(f"""Read /work/MUTANT_BRIEF.md and follow it exactly. Your scratch copy of the library is /tmp/mut2_{pid}/repo (already built); your output directory is /tmp/mut2_{pid}/out. Produce {n} mutations.

The property ({pid}): "{d['title']}"
Statement: {d['statement']}
It is meant to hold over: {d['quantifier']['text']}
Why the existing tests cannot settle it: {d['why_tests_cant']}
Source files the property is anchored in (the change may be in any of them or in code they call): {', '.join(d['anchors']['files'])}
""")

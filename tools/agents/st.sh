#!/bin/sh
# usage: st.sh <seedname> <ID>...   (run from /work/seedrun)
n=$1; shift
S=/tmp/seedrepo_$$; rm -rf $S; cp -a /repo $S
git -C $S apply /work/seedrun/seeded/$n/patch.diff || { echo "$n: PATCH DOES NOT APPLY"; rm -rf $S; exit; }
for id in "$@"; do
  VERIF_REPO=$S /work/seedrun/check $id > /tmp/st_${n}_${id}.log 2>&1
  rc=$?
  echo "$n on $id: exit=$rc viol=$(grep -c '^VIOLATION' /tmp/st_${n}_${id}.log) :: $(grep -A1 '^VIOLATION' /tmp/st_${n}_${id}.log | grep -v '^VIOLATION\|^--' | head -2 | cut -c1-150 | tr '\n' '|')"
done
rm -rf $S

"""Per-property plans: which input families feed the property, which oracle decides it on the
implementation, what is claimed."""
import os, sys, json, random, time, copy
import orch, gens, refs, oracles
from orch import Result, Impl, log, VERIF

TRUSTED_COMMON = [
    "Lean 4.33 kernel; axioms allowed: propext, Classical.choice, Quot.sound (audited per theorem with #print axioms on every run)",
    "hand-written Lean models of the C functions (lean/SafeC/Models), tied to /repo by differential execution on this run's inputs only",
    "correspondence harness harness/hx.c (guard pages, canaries), Lean driver lean/Main.lean, tools/*.py (generators, oracles, comparison)",
    "tools/gen.py: constants and tables regenerated from /repo's headers on every run",
    "gcc -O0 build of the current tree, glibc 2.36, x86-64 Linux page protection",
]

import families
FAMS = families.load_all()
GENERIC_PROPS = ["C01", "C02", "C03", "C04", "C05", "C06", "C07", "C08", "C10", "C14"]
PLAN = {pid: dict(fams=[n for n, f in FAMS.items() if pid in f["props"]]) for pid in GENERIC_PROPS}


def run_generic(pid, tier, seed, replay=None):
    res = Result(pid, tier, seed)
    plan = PLAN[pid]
    g = orch.gen_mod.main()
    lean_ok, lean_log, dt = orch.lake_build(orch.prop_targets(pid))
    res.extra["lean_build_s"] = round(dt, 1)
    drv_ok = lean_ok
    if not lean_ok:
        drv_ok, _, _ = orch.lake_build(["safec_model"])
    obs = orch.obligations(pid)
    audit, raw = orch.audit_axioms(pid, obs) if lean_ok else ([dict(o, ok=False, axioms=None, error="build failed") for o in obs], "")
    forb = orch.forbidden_tokens()
    impl = Impl()
    known = orch.load_known()
    base_oracle = oracles.GENERIC.get(pid)
    if replay:
        return do_replay(pid, replay, impl)
    for slack in (1, 0):
        rng = random.Random(seed * 1000003 + slack)
        for fam in plan["fams"]:
            ops = FAMS[fam]["gen"](rng, tier)
            for o in ops:
                o.meta["slack"] = slack
                FAMS[fam]["annotate"](o)
            oracle_fns = ([base_oracle] if base_oracle else []) + ([FAMS[fam]["oracles"][pid]] if pid in FAMS[fam].get("oracles", {}) else [])
            t = time.time()
            c, m = orch.run_pair(impl, ops, slack)
            if not drv_ok:
                m = {}
            orch.evaluate(res, pid, ops, c, m, slack, known, oracle_fns)
            res.count("family", "%s/slack=%d" % (fam, slack))
            log("  %s %s slack=%d: %d ops in %.1fs" % (pid, fam, slack, len(ops), time.time() - t))
    if not replay:
        import fmtstage
        fmtstage.run(pid, res, tier, seed, known)
    text = "theorems about the Lean models + differential correspondence + oracle on the implementation"
    return orch.finish(res, pid, lean_ok, lean_log, audit, forb, text, TRUSTED_COMMON,
                       ["caller declarations truthful as generated", "sequential execution"])


def do_replay(pid, path, impl):
    rep = json.load(open(path))
    line = rep.get("op")
    if not line:
        print(json.dumps(rep, indent=1)[:3000])
        return 0
    slack = rep.get("slack", 1)
    hx = impl.get(slack)
    c, _, _ = orch.proto.run_lines([hx, "C"], [line])
    m, _, _ = orch.proto.run_lines([orch.MODEL_BIN], [line])
    print("op   :", line)
    print("impl :", list(c.values())[:1])
    print("model:", list(m.values())[:1])
    print("recorded impl:", rep.get("impl"))
    same = list(c.values())[:1] == [rep.get("impl")]
    print("reproduced" if same else "differs from the recorded observation")
    return 0


def run(pid, tier, seed, replay=None):
    if pid == "C13":
        import p13
        return p13.run(tier, seed, replay)
    if pid == "C09":
        import p09
        return p09.run(tier, seed, replay)
    if pid == "C12":
        import p12
        return p12.run(tier, seed, replay)
    if pid == "C19":
        import p19
        return p19.run(tier, seed, replay)
    if pid == "C18":
        import p18
        return p18.run(tier, seed, replay)
    if pid == "C20":
        import p20
        return p20.run(tier, seed, replay)
    if pid == "C15":
        import p15
        return p15.run(tier, seed, replay)
    if pid == "C16":
        import p16
        return p16.run(tier, seed, replay)
    if pid == "C11":
        import p11
        return p11.run(tier, seed, replay)
    if pid == "C17":
        import p17
        return p17.run(tier, seed, replay)
    if pid in PLAN:
        return run_generic(pid, tier, seed, replay)
    print("unknown property", pid)
    return 2

"""Rebuild lean/obligations.json: every theorem in lean/SafeC/Props/Cxx.lean is an obligation of Cxx
(kind from the name suffix), plus the supporting lemmas listed in EXTRA."""
import os, re, json
HERE = os.path.dirname(os.path.abspath(__file__))
LEAN = os.path.join(os.path.dirname(HERE), "lean")
EXTRA = {
    "C01": [("SafeC.exec_frame", "SafeC.Machine", "meta", "frame lemma for every Prog: no stray write => undeclared cells unchanged"),
            ("SafeC.copyLoop_safe", "SafeC.Proofs.CopyLoop", "lemma", "the bumper copy loop shared by the str*/wcs* copy family, any placement and content")],
    "C02": [("SafeC.copyLoop_disjoint", "SafeC.Proofs.CopyFunctional", "lemma", "copy loop reads only the source string / first slen cells"),
            ("SafeC.copyLoop_disjoint_bounded", "SafeC.Proofs.CopyFunctional", "lemma", "bounded variant")],
    "C05": [("SafeC.strncpyG_two_handlers", "SafeC.Proofs.CopyWrappers", "witness", "for max > RSIZE_MAX_STR the inner strnlen_s reports too: why the wrappers need max <= RSIZE_MAX_STR")],
    "C07": [("SafeC.copyLoop_overlap", "SafeC.Proofs.CopyOverlap", "lemma", "the loop reaches the bumper after exactly g iterations")],
    "C20": [("SafeC.Alloc.exec_bind", "SafeC.Proofs.Alloc", "meta", "exec of a sequential composition = exec of the parts (every Prog of the allocation machine)"),
            ("SafeC.Alloc.exec_mono", "SafeC.Proofs.Alloc", "meta", "request, failure and handler counters never decrease; a cleared dest stays cleared"),
            ("SafeC.Alloc.engine_spec", "SafeC.Proofs.Alloc", "lemma", "every run of the printf engine over any list of format pieces (induction): returns with live blocks unchanged, or is the %ls conversion-failure leak, or the unchecked format-copy null dereference"),
            ("SafeC.Alloc.reorderLoop_wp", "SafeC.Proofs.AllocNorm", "lemma", "loop invariant of wcsnorm_reorder_s (live = seq_ext ++ entry blocks) over any mark pattern: repaired code under every oracle, code as it is when no request fails"),
            ("SafeC.Alloc.composeLoop_wp", "SafeC.Proofs.AllocNorm", "lemma", "the same for wcsnorm_compose_s over any (mark?, composed?) pattern"),
            ("SafeC.Alloc.keeps_reorderLoop", "SafeC.Proofs.AllocTight", "lemma", "unrepaired reorder loop, any mark pattern, any oracle: no surviving run contains a failed request"),
            ("SafeC.Alloc.keeps_composeLoop", "SafeC.Proofs.AllocTight", "lemma", "the same for the compose loop"),
            ("SafeC.Alloc.normProg_wp", "SafeC.Proofs.AllocNorm", "lemma", "wcsnorm_s: scratch buffer + reorder + compose composed")],
    "C08": [("SafeC.nullSlack_ok", "SafeC.Lemmas", "lemma", "both slack strategies (memset > 0x20, byte loop) zero the whole tail")],
}


def main():
    out = {}
    pd = os.path.join(LEAN, "SafeC", "Props")
    for f in sorted(os.listdir(pd)):
        m = re.match(r"(C\d+)\.lean$", f)
        if not m:
            continue
        pid = m.group(1)
        src = open(os.path.join(pd, f)).read()
        items = []
        for mm in re.finditer(r"^theorem\s+([A-Za-z0-9_'.]+)", src, re.M):
            name = mm.group(1)
            head = src[:mm.start()].rstrip()
            doc = None
            if head.endswith("-/"):
                i = head.rfind("/--")
                if i >= 0 and "-/" not in head[i:-2]:
                    doc = head[i + 3:-2]
            kind = "partial" if name.endswith("_partial") else "witness" if name.endswith("_witness") else "full"
            items.append(dict(name="SafeC.Props.%s.%s" % (pid, name), module="SafeC.Props.%s" % pid, kind=kind,
                              covers=" ".join((doc or name).split())[:300]))
        for (n, mod, kind, cov) in EXTRA.get(pid, []):
            items.append(dict(name=n, module=mod, kind=kind, covers=cov))
        if items:
            out[pid] = items
    json.dump(out, open(os.path.join(LEAN, "obligations.json"), "w"), indent=1)
    return {k: len(v) for k, v in out.items()}


if __name__ == "__main__":
    print(main())

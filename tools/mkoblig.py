"""Rebuild lean/obligations.json: every theorem in lean/SafeC/Props/Cxx.lean is an obligation of Cxx
(kind from the name suffix), plus the supporting lemmas listed in EXTRA."""
import os, re, json
HERE = os.path.dirname(os.path.abspath(__file__))
LEAN = os.path.join(os.path.dirname(HERE), "lean")
EXTRA = {
    "C01": [("SafeC.exec_frame", "SafeC.Machine", "meta", "frame lemma for every Prog: no stray write => undeclared cells unchanged"),
            ("SafeC.copyLoop_safe", "SafeC.Proofs.CopyLoop", "lemma", "the bumper copy loop shared by the str*/wcs* copy family, any placement and content")],
    "C02": [("SafeC.copyLoop_disjoint", "SafeC.Proofs.CopyFunctional", "lemma", "copy loop reads only the source string / first slen cells"),
            ("SafeC.copyLoop_disjoint_bounded", "SafeC.Proofs.CopyFunctional", "lemma", "bounded variant")],
    "C05": [("SafeC.strncpyG_two_handlers", "SafeC.Proofs.CopyWrappers", "witness", "for max > RSIZE_MAX_STR the inner strnlen_s reports too: why the wrappers need max <= RSIZE_MAX_STR")],
    "C07": [("SafeC.copyLoop_overlap", "SafeC.Proofs.CopyOverlap", "lemma", "the loop reaches the bumper after exactly g iterations")],
    "C08": [("SafeC.nullSlack_ok", "SafeC.Lemmas", "lemma", "both slack strategies (memset > 0x20, byte loop) zero the whole tail")],
}


def main():
    out = {}
    pd = os.path.join(LEAN, "SafeC", "Props")
    for f in sorted(os.listdir(pd)):
        m = re.match(r"(C\d+)([A-Za-z0-9_]*)\.lean$", f)
        if not m:
            continue
        pid = m.group(1)
        modname = "SafeC.Props." + f[:-5]
        src = open(os.path.join(pd, f)).read()
        ns = re.search(r"^namespace\s+([A-Za-z0-9_.]+)", src, re.M)
        nsname = ns.group(1) if ns else modname
        items = out.get(pid, [])
        for mm in re.finditer(r"^theorem\s+([A-Za-z0-9_'.]+)", src, re.M):
            name = mm.group(1)
            if src.count("/-", 0, mm.start()) > src.count("-/", 0, mm.start()):
                continue          # the word `theorem` at the start of a line inside a comment
            head = src[:mm.start()].rstrip()
            doc = None
            if head.endswith("-/"):
                i = head.rfind("/--")
                if i >= 0 and "-/" not in head[i:-2]:
                    doc = head[i + 3:-2]
            kind = "partial" if name.endswith("_partial") else "witness" if name.endswith("_witness") else "full"
            items.append(dict(name="%s.%s" % (nsname, name), module=modname, kind=kind,
                              covers=" ".join((doc or name).split())[:300]))
        if f != pid + ".lean":
            out[pid] = items
            continue
        if pid == "C10":
            ro = open(os.path.join(LEAN, "SafeC", "Proofs", "QueryRO.lean")).read()
            for mm in re.finditer(r"^theorem\s+([A-Za-z0-9_']+_readonly[A-Za-z0-9_']*)", ro, re.M):
                n = mm.group(1)
                items.append(dict(name="SafeC." + n, module="SafeC.Proofs.QueryRO", kind="partial" if n.endswith("_partial") else "full",
                                  covers="%s: the model contains no store: operands are never modified, on any input" % n.split("_readonly")[0]))
            items.append(dict(name="SafeC.exec_noStore", module="SafeC.Proofs.Query", kind="meta",
                              covers="a program without store nodes leaves the memory contents unchanged"))
        for (n, mod, kind, cov) in EXTRA.get(pid, []):
            items.append(dict(name=n, module=mod, kind=kind, covers=cov))
        if items:
            out[pid] = items
    json.dump(out, open(os.path.join(LEAN, "obligations.json"), "w"), indent=1)
    return {k: len(v) for k, v in out.items()}


if __name__ == "__main__":
    print(main())
